import HL.Spec.GCoreValue
import HL.Lemmas.Dec
import HL.Lemmas.Balance
/-!
  The arithmetic bridge of the C02 pipeline for the core grammar: the decimal the syntax tree
  `GCore.expected` holds for an amount has exactly the rational value WRITTEN
  (`quantity_toRat`), the commodity is the one written, and so the rational image of the tree
  of a transaction is the transaction as written (`image_expected`).  No well-formedness is
  needed for any of these: they are identities between two ways of reading digit strings.
-/
namespace HL.GCore
open HL HL.Ast HL.Spec.Bal

/-- Horner's rule started at `a`. -/
theorem foldl_digits (ds : Bytes) (a : Nat) :
    ds.foldl (fun a c => a * 10 + (c.toNat - 48)) a = a * 10 ^ ds.length + natOf ds := by
  induction ds generalizing a with
  | nil => simp [natOf]
  | cons c r ih =>
    rw [List.foldl_cons, ih, natOf, List.length_cons, Nat.pow_succ, digitVal]
    rw [Nat.add_mul, Nat.add_assoc]
    congr 1
    rw [Nat.mul_assoc, Nat.mul_comm 10]

/-- the parser's reading of a digit string (Horner) is its positional value -/
theorem digitsNat_eq_natOf (ds : Bytes) : digitsNat ds = natOf ds := by
  unfold digitsNat
  rw [foldl_digits]
  simp

theorem natOf_append (a b : Bytes) : natOf (a ++ b) = natOf a * 10 ^ b.length + natOf b := by
  rw [← digitsNat_eq_natOf, digitsNat, List.foldl_append]
  have := foldl_digits a 0
  simp only [Nat.zero_mul, Nat.zero_add] at this
  rw [this, foldl_digits]

/-- **expected_amount_value.**  The decimal the tree holds for an amount — coefficient = all
    digits, exponent = minus the number of decimals, exactly as `decimal.NewFromString` builds
    it — has the exact rational value written. -/
theorem quantity_toRat (a : Amount) : Dec.toRat a.quantity = amountValue a := by
  unfold Amount.quantity amountValue Amount.magnitude
  cases hf : a.frac with
  | none =>
    simp only [Option.getD_none, List.append_nil, List.length_nil, digitsNat_eq_natOf]
    unfold Dec.toRat
    cases a.neg <;> simp [Rat.intCast_natCast, Rat.intCast_neg]
  | some f =>
    simp only [Option.getD_some, digitsNat_eq_natOf]
    have hP : (10 : Rat) ^ f.length ≠ 0 := by
      have := Dec.pow10_ne_zero (f.length : Int)
      rwa [Rat.zpow_natCast] at this
    have hpow : (10 : Rat) ^ (-(f.length : Int)) = ((10 : Rat) ^ f.length)⁻¹ := by
      rw [Rat.zpow_neg, Rat.zpow_natCast]
    have hN : ((natOf (a.int ++ f) : Nat) : Rat) = (natOf a.int : Rat) * (10 : Rat) ^ f.length + (natOf f : Rat) := by
      rw [natOf_append, Rat.natCast_add, Rat.natCast_mul, Rat.natCast_pow]
      rfl
    have hC : ((10 ^ f.length : Nat) : Rat) = (10 : Rat) ^ f.length := by
      rw [Rat.natCast_pow]; rfl
    unfold Dec.toRat
    simp only [hpow, hC]
    cases a.neg with
    | true =>
      simp only [if_true, Rat.intCast_neg, Rat.intCast_natCast, hN]
      grind
    | false =>
      simp only [Bool.false_eq_true, if_false, Rat.intCast_natCast, hN]
      grind

/-- the commodity symbol in the tree is the one written (empty when none is written) -/
theorem commodity_expected (a : Amount) (ln c o : Nat) :
    (a.expected ln c o).commodity.symbol = amountCommodity a := by
  unfold Amount.expected amountCommodity
  cases a.com <;> rfl

theorem imageAmount_expected (a : Amount) (ln c o : Nat) :
    imageAmount (a.expected ln c o) = ⟨amountValue a, amountCommodity a⟩ := by
  unfold imageAmount
  rw [commodity_expected]
  show RAmount.mk (Dec.toRat a.quantity) _ = _
  rw [quantity_toRat]

theorem imagePosting_expected (p : Posting) (ln o : Nat) :
    imagePosting (p.expected ln o) = postingImage p := by
  unfold imagePosting postingImage Posting.expected
  simp only [Option.map_map, Option.map_none]
  congr 1
  cases p.amount with
  | none => rfl
  | some a => simp only [Option.map_some, Function.comp, imageAmount_expected]

theorem image_expectedPostings (ps : List Posting) (ln o : Nat) :
    (expectedPostings ps ln o).map imagePosting = ps.map postingImage := by
  induction ps generalizing ln o with
  | nil => rfl
  | cons p ps ih => simp only [expectedPostings, List.map_cons, imagePosting_expected, ih]

/-- **image_expected.**  The rational image of the tree of a transaction is the transaction as
    written. -/
theorem image_expected (t : Tx) (ln o : Nat) : image (t.expected ln o) = txImage t := by
  unfold image txImage Tx.expected
  exact image_expectedPostings _ _ _

/-- no posting of the core grammar carries a cost -/
theorem cost_expectedPostings (ps : List Posting) (ln o : Nat) :
    ∀ p ∈ expectedPostings ps ln o, p.cost = none := by
  induction ps generalizing ln o with
  | nil => intro p hp; cases hp
  | cons q ps ih =>
    intro p hp
    simp only [expectedPostings, List.mem_cons] at hp
    rcases hp with rfl | hp
    · rfl
    · exact ih _ _ p hp

/-- every decimal exponent in the tree is minus a number of decimals written -/
theorem exp_expectedPostings (ps : List Posting) (ln o : Nat) (hwf : ps.all Posting.wf = true) :
    ∀ p ∈ expectedPostings ps ln o, ∀ a, p.amount = some a → -1000 ≤ a.quantity.exp ∧ a.quantity.exp ≤ 0 := by
  induction ps generalizing ln o with
  | nil => intro p hp; cases hp
  | cons q ps ih =>
    simp only [List.all_cons, Bool.and_eq_true] at hwf
    intro p hp
    simp only [expectedPostings, List.mem_cons] at hp
    rcases hp with rfl | hp
    · intro a ha
      unfold Posting.expected at ha
      simp only at ha
      cases hq : q.amount with
      | none => rw [hq] at ha; cases ha
      | some am =>
        rw [hq] at ha
        simp only [Option.map_some, Option.some.injEq] at ha
        subst ha
        have hw := hwf.1
        unfold Posting.wf at hw
        rw [hq] at hw
        simp only [Bool.and_eq_true] at hw
        have haw := hw.2
        unfold Amount.wf at haw
        simp only [Bool.and_eq_true] at haw
        show -1000 ≤ am.quantity.exp ∧ am.quantity.exp ≤ 0
        unfold Amount.quantity
        simp only
        cases hfr : am.frac with
        | none => simp
        | some f =>
          have := haw.1.2
          rw [hfr] at this
          simp only [Bool.and_eq_true, decide_eq_true_eq] at this
          simp only [Option.getD_some]
          omega
    · exact ih _ _ hwf.2 p hp

/-- the ranges of the transactions in the tree are where the printer puts them -/
theorem txRanges_expected (ts : List Tx) (ln o : Nat) :
    (expectedTxs ts ln o).map (·.range) = txRanges ts ln o := by
  induction ts generalizing ln o with
  | nil => rfl
  | cons t ts ih => simp only [expectedTxs, txRanges, List.map_cons, ih]; rfl

theorem length_expectedTxs (ts : List Tx) (ln o : Nat) : (expectedTxs ts ln o).length = ts.length := by
  induction ts generalizing ln o with
  | nil => rfl
  | cons t ts ih => simp only [expectedTxs, List.length_cons, ih]

end HL.GCore
