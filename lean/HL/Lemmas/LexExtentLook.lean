import HL.Lemmas.LexExtentTok
/-!
  Layer L3, part 3: the two look-aheads that decide between token classes.

    looksLikeAccount_noColon   no colon before the line feed → not an account
    looksLikeDate_number       digits [ '.' digits ] followed by a byte that is neither a digit
                               nor a date separator → not a date (whatever comes after it)
-/
namespace HL.Lex
open HL HL.Utf8

local notation "LF" => (0x0A : UInt8)

theorem looksLikeAccountF_noColon (s : Bytes) :
    ∀ (n : Nat) (rest : Bytes), (∀ c ∈ s, c < 0x80 ∧ c ≠ 0x3A) → (rest = [] ∨ ∃ t, rest = LF :: t) →
      looksLikeAccountF n (s ++ rest) false = false := by
  induction s with
  | nil =>
    intro n rest _ hr
    cases n with
    | zero => rfl
    | succ n =>
      rcases hr with rfl | ⟨t, rfl⟩
      · rfl
      · simp [looksLikeAccountF, decodeRune_ascii, isAccountTerminator]
  | cons c s ih =>
    intro n rest hs hr
    cases n with
    | zero => rfl
    | succ n =>
      have hc := hs c (by simp)
      have ih' := ih n rest (fun x hx => hs x (by simp [hx])) hr
      have h3a : ¬ c.toNat = 0x3A := by
        intro h'; apply hc.2; exact UInt8.toNat_inj.mp (by simpa using h')
      simp only [List.cons_append]
      unfold looksLikeAccountF
      simp only [decodeRune_ascii _ hc.1, List.drop_one, List.tail_cons]
      rw [if_neg (by simpa using h3a)]
      split
      · split
        · rfl
        · exact ih'
      · split
        · rfl
        · exact ih'

/-- **No colon ahead on this line: not an account.** -/
theorem looksLikeAccount_noColon (s rest : Bytes) (hs : ∀ c ∈ s, c < 0x80 ∧ c ≠ 0x3A)
    (hr : rest = [] ∨ ∃ t, rest = LF :: t) : looksLikeAccount (s ++ rest) = false :=
  looksLikeAccountF_noColon s _ rest hs hr

/-! ### numbers are not dates -/

def isSep (c : UInt8) : Bool := c == 0x2D || c == 0x2F || c == 0x2E

theorem digit_not_sep : ∀ c : UInt8, (!isDigit c || !isSep c) = true := forall_uint8 _ (by decide +kernel)

/-- what may follow a number for it not to look like a date: nothing, or a byte that is neither
    a digit nor one of `- / .` -/
def DateStop (rest : Bytes) : Prop := ∀ c t, rest = c :: t → isDigit c = false ∧ isSep c = false

theorem dateStop_head {rest : Bytes} (hr : DateStop rest) :
    isDigit (rest[0]?.getD 0) = false ∧ ¬ rest[0]?.getD 0 = 45 ∧ ¬ rest[0]?.getD 0 = 47 ∧ ¬ rest[0]?.getD 0 = 46 := by
  cases rest with
  | nil => exact ⟨by decide, by decide, by decide, by decide⟩
  | cons c t =>
    have := hr c t rfl
    simp only [isSep, Bool.or_eq_false_iff, beq_eq_false_iff_ne, ne_eq] at this
    simpa using ⟨this.1, this.2.1.1, this.2.1.2, this.2.2⟩

theorem digit_nosep {c : UInt8} (hc : isDigit c = true) : ¬ c = 45 ∧ ¬ c = 47 ∧ ¬ c = 46 := by
  have := digit_not_sep c
  simp only [hc, Bool.not_true, Bool.false_or, Bool.not_eq_true', isSep, Bool.or_eq_false_iff,
    beq_eq_false_iff_ne, ne_eq] at this
  exact ⟨this.1.1, this.1.2, this.2⟩

theorem looksLikeDateCore_int (int rest : Bytes) (hi : ∀ c ∈ int, isDigit c = true) (hr : DateStop rest) :
    looksLikeDateCore (int ++ rest) = false := by
  obtain ⟨h0, h1, h2, h3⟩ := dateStop_head hr
  unfold looksLikeDateCore
  match int, hi with
  | [], _ => simp [h0]
  | [_], _ => simp [h0]
  | [_, _], _ => simp [h0]
  | [_, _, _], _ => simp [h0]
  | [_, _, _, _], _ => simp [h1, h2, h3]
  | _ :: _ :: _ :: _ :: d4 :: _, hi =>
    obtain ⟨g1, g2, g3⟩ := digit_nosep (hi d4 (by simp))
    simp [g1, g2, g3]

theorem looksLikeDateCore_frac (int frac rest : Bytes) (hi : ∀ c ∈ int, isDigit c = true)
    (hf : ∀ c ∈ frac, isDigit c = true) (hr : DateStop rest) :
    looksLikeDateCore (int ++ 0x2E :: frac ++ rest) = false := by
  obtain ⟨h0, h1, h2, h3⟩ := dateStop_head hr
  have hdot : isDigit 0x2E = false := by decide
  unfold looksLikeDateCore
  match int, hi with
  | [], _ => simp [hdot]
  | [_], _ => simp [hdot]
  | [_, _], _ => simp [hdot]
  | [_, _, _], _ => simp [hdot]
  | _ :: _ :: _ :: _ :: d4 :: _, hi =>
    obtain ⟨g1, g2, g3⟩ := digit_nosep (hi d4 (by simp))
    simp [g1, g2, g3]
  | [_, _, _, _], _ =>
    match frac, hf with
    | [], _ => simp [h0]
    | [_], _ => simp [h0, h3]
    | [_, f1], hf => simp [hf f1 (by simp), h3]
    | _ :: f1 :: f2 :: _, hf => simp [hf f1 (by simp), (digit_nosep (hf f2 (by simp))).2.2]

/-- **A number is not a date**: `digits` … -/
theorem looksLikeDate_int (int rest : Bytes) (hi : ∀ c ∈ int, isDigit c = true) (hr : DateStop rest) :
    looksLikeDate (int ++ rest) = false := by
  unfold looksLikeDate
  split
  · rfl
  · exact looksLikeDateCore_int int rest hi hr

/-- … and `digits '.' digits`. -/
theorem looksLikeDate_frac (int frac rest : Bytes) (hi : ∀ c ∈ int, isDigit c = true)
    (hf : ∀ c ∈ frac, isDigit c = true) (hr : DateStop rest) :
    looksLikeDate (int ++ 0x2E :: frac ++ rest) = false := by
  unfold looksLikeDate
  split
  · rfl
  · exact looksLikeDateCore_frac int frac rest hi hf hr

end HL.Lex
