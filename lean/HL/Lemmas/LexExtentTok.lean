import HL.Lemmas.LexExtent
/-!
  Layer L3 of DESIGN 7.C03, part 2: one *extent lemma* per token class.

  If the unread input starts with the printed form of a lexeme followed by a continuation that
  satisfies an explicit stop predicate, `Next` returns that token with exactly that value and
  extent and leaves the lexer right behind it.  Every lemma holds for every lexer state (any
  line, column, consumed input), every lexeme length and every Unicode classifier `C`
  (`commodity` and `text` ask `C` about the ASCII letters they see; that is a hypothesis).

    next_date          line start:  digits and `- / .`
    next_indent        line start:  blanks, tabs
    next_blank_line    line start:  LF or CR LF (`next_blank_line_c`)
    next_inline        inside a line `Next` = `scanInLineAt` behind the skipped blanks
    scanInLineAt_text, _account, _sign, _number, _commodity, _newline, _eof
-/
namespace HL.Lex
open HL HL.Utf8

local notation "LF" => (0x0A : UInt8)

/-- a statement about all 256 bytes, checked by evaluation -/
theorem forall_uint8 (P : UInt8 → Bool) (h : (List.range 256).all (fun n => P (UInt8.ofNat n)) = true) :
    ∀ c, P c = true := by
  intro c
  have := List.all_eq_true.mp h c.toNat (List.mem_range.mpr c.toNat_lt)
  simpa using this

/-- `l.atStart = false` behind the first token of a line -/
def Z.started (z : Z) : Z := { z with atStart := false }

@[simp] theorem started_after (z : Z) : z.started.after = z.after := rfl
@[simp] theorem started_before (z : Z) : z.started.before = z.before := rfl
@[simp] theorem started_line (z : Z) : z.started.line = z.line := rfl
@[simp] theorem started_col (z : Z) : z.started.col = z.col := rfl
@[simp] theorem started_position (z : Z) : z.started.position = z.position := rfl

/-- the token of type `ty` and value `v` that starts at `z` and covers `n` ASCII bytes -/
def tokAt (ty : TokType) (v : Bytes) (z : Z) (n : Nat) : Token :=
  ⟨ty, v, z.position, ⟨z.line, z.col + n, z.before.length + n⟩⟩

theorem mkTok_over (ty : TokType) (v : Bytes) (z : Z) (l rest : Bytes) :
    mkTok ty v z (z.over l rest) = (tokAt ty v z l.length, z.over l rest) := by
  simp [mkTok, tokAt, over_position]

/-! ### byte facts -/

def dateByte (ch : UInt8) : Bool := isDigit ch || ch == 0x2D || ch == 0x2F || ch == 0x2E
def indentByte (c : UInt8) : Bool := isWhitespace c && c != 0x0A && c != 0x0D
def alnum (c : UInt8) : Bool := isLetter c || isDigit c
/-- a byte inside a text lexeme: none of LF, CR, `;`, `|` -/
def textByte (ch : UInt8) : Bool := !(ch == 0x0A || ch == 0x0D || ch == 0x3B || ch == 0x7C)
/-- the loop condition of `scanText` (line ends are tested separately, `atEol`) -/
def textP (ch : UInt8) : Bool := !(ch == 0x3B || ch == 0x7C)
def isLower (c : UInt8) : Bool := 0x61 ≤ c && c ≤ 0x7A
def isUpper (c : UInt8) : Bool := 0x41 ≤ c && c ≤ 0x5A

theorem dateByte_lt : ∀ c : UInt8, (!dateByte c || decide (c < 0x80)) = true :=
  forall_uint8 _ (by decide +kernel)
theorem indentByte_facts : ∀ c : UInt8, (!indentByte c || (decide (c < 0x80) && c != 0x3B)) = true :=
  forall_uint8 _ (by decide +kernel)
theorem indentByte_line : ∀ c : UInt8, (!indentByte c ||
    (isWhitespace c && decide (c < 0x80) && c != 0x0A && c != 0x0D)) = true :=
  forall_uint8 _ (by decide +kernel)
theorem textByte_line : ∀ c : UInt8, (!textByte c || (textP c && c != 0x0A && c != 0x0D)) = true :=
  forall_uint8 _ (by decide +kernel)
theorem not_cr_facts : ∀ c : UInt8, (!(isDigit c || isLetter c) || c != 0x0D) = true :=
  forall_uint8 _ (by decide +kernel)
theorem digit_not_ws : ∀ c : UInt8, (!isDigit c || !isWhitespace c) = true :=
  forall_uint8 _ (by decide +kernel)
theorem digit_facts : ∀ c : UInt8, (!isDigit c ||
    (decide (c < 0x80) && c != 0x3B && !indentByte c && c != 0x0A && c != 0x28 && c != 0x29 && c != 0x5B &&
     c != 0x5D && c != 0x7C && c != 0x40 && c != 0x3D && c != 0x2A && c != 0x21 && !isCurrencySymbol c.toNat &&
     c != 0x22 && c != 0x2D && c != 0x2B && !isBlank c)) = true :=
  forall_uint8 _ (by decide +kernel)
theorem letter_facts : ∀ c : UInt8, (!isLetter c ||
    (decide (c < 0x80) && c != 0x0A && c != 0x3B && c != 0x28 && c != 0x29 && c != 0x5B &&
     c != 0x5D && c != 0x7C && c != 0x40 && c != 0x3D && c != 0x2A && c != 0x21 && !isCurrencySymbol c.toNat &&
     c != 0x22 && c != 0x2D && c != 0x2B && !isDigit c && !isBlank c)) = true :=
  forall_uint8 _ (by decide +kernel)
theorem lower_facts : ∀ c : UInt8, (!isLower c ||
    (isLetter c && !isUpper c && decide (c < 0x80) && !(0x41 ≤ c && c ≤ 0x5A) && textByte c && c != 0x20 &&
     !asciiSpace c && acctByte c)) = true :=
  forall_uint8 _ (by decide +kernel)
theorem upper_facts : ∀ c : UInt8, (!isUpper c || (isLetter c && decide (c < 0x80) && (0x41 ≤ c && c ≤ 0x5A))) = true :=
  forall_uint8 _ (by decide +kernel)
theorem alnum_facts : ∀ c : UInt8, (alnum c || (!isLetter c && !isDigit c)) = true :=
  forall_uint8 _ (by decide +kernel)

theorem Stops.letter_of_alnum {rest : Bytes} (h : Stops alnum rest) : Stops isLetter rest := by
  intro c t hr
  have := h c t hr
  simp only [alnum, Bool.or_eq_false_iff] at this
  exact this.1

/-! ### line start -/

theorem next_date (C : Classes) {z : Z} {d rest : Bytes} (hs : z.atStart = true) (hc : z.col = 1)
    (hz : z.after = d ++ rest) (h0 : ∃ c t, d = c :: t ∧ isDigit c = true)
    (hd : ∀ c ∈ d, dateByte c = true) (hstop : Stops dateByte rest) :
    next C z = (tokAt .date d z d.length, z.started.over d rest) := by
  obtain ⟨c, t, rfl, hc0⟩ := h0
  have hz' : z.after = c :: (t ++ rest) := by simpa using hz
  have hf := digit_facts c
  simp only [hc0, Bool.not_true, Bool.false_or, Bool.and_eq_true, decide_eq_true_eq, bne_iff_ne, ne_eq,
    Bool.not_eq_true'] at hf
  unfold next
  simp only [hz', hs, hc, beq_self_eq_true, Bool.and_self, if_true]
  unfold scanLineStart scanLineStartAt
  have hp : peek { z with atStart := false } = c := by simp [peek, hz']
  have hw : isWhitespace c = false := by simpa [hc0] using digit_not_ws c
  simp only [hp, hw, hc0, Bool.false_and, Bool.false_eq_true, if_false, if_true]
  rw [if_neg (by simpa using hf.1.1.1.1.1.1.1.1.1.1.1.1.1.1.1.1.2)]
  unfold scanDate
  have he : advWhile (fun ch => isDigit ch || ch == 0x2D || ch == 0x2F || ch == 0x2E) z.started
      = z.started.over (c :: t) rest :=
    advWhile_over dateByte (z := z.started) hz
      (fun x hx => ⟨hd x hx, by simpa [hd x hx] using dateByte_lt x⟩) hstop
  show mkTok .date (between z.started (advWhile _ z.started)) z.started (advWhile _ z.started) = _
  rw [he, between_over, mkTok_over]
  rfl

theorem next_indent (C : Classes) {z : Z} {sp rest : Bytes} (hs : z.atStart = true) (hc : z.col = 1)
    (hz : z.after = sp ++ rest) (hne : sp ≠ []) (hsp : ∀ c ∈ sp, indentByte c = true)
    (hstop : StopsL isWhitespace rest) :
    next C z = (tokAt .indent sp z sp.length, z.started.over sp rest) := by
  obtain ⟨c, t, rfl⟩ := List.exists_cons_of_ne_nil hne
  have hz' : z.after = c :: (t ++ rest) := by simpa using hz
  have hc0 := hsp c (by simp)
  have hf := indentByte_facts c
  simp only [hc0, Bool.not_true, Bool.false_or, Bool.and_eq_true, decide_eq_true_eq, bne_iff_ne, ne_eq] at hf
  have hline : ∀ x ∈ c :: t, isWhitespace x = true ∧ x < 0x80 ∧ x ≠ LF ∧ x ≠ 0x0D := by
    intro x hx
    have := indentByte_line x
    simp only [hsp x hx, Bool.not_true, Bool.false_or, Bool.and_eq_true, decide_eq_true_eq, bne_iff_ne, ne_eq] at this
    exact ⟨this.1.1.1, this.1.1.2, this.1.2, this.2⟩
  unfold next
  simp only [hz', hs, hc, beq_self_eq_true, Bool.and_self, if_true]
  unfold scanLineStart scanLineStartAt
  have hp : peek { z with atStart := false } = c := by simp [peek, hz']
  have hw : (isWhitespace c && !atEol ({ z with atStart := false } : Z).after) = true := by
    have h1 := hline c (by simp)
    show (isWhitespace c && !atEol z.after) = true
    rw [hz', atEol_of_ne h1.2.2.1 h1.2.2.2, h1.1]; rfl
  simp only [hp, hw, if_true]
  rw [if_neg (by simpa using hf.2)]
  unfold scanIndent
  have he : advLine isWhitespace z.started = z.started.over (c :: t) rest :=
    advLine_over isWhitespace (z := z.started) hz hline hstop
  show mkTok .indent (between z.started (advLine _ z.started)) z.started (advLine _ z.started) = _
  rw [he, between_over, mkTok_over]
  rfl

/-- the state behind a line feed -/
def Z.nl (z : Z) (rest : Bytes) : Z := ⟨LF :: z.before, rest, z.line + 1, 1, true⟩

/-- the Newline token at `z` -/
def nlTok (z : Z) : Token := ⟨.newline, [LF], z.position, ⟨z.line + 1, 1, z.before.length + 1⟩⟩

theorem scanNewline_at {z : Z} {t : Bytes} (hz : z.after = LF :: t) : scanNewline z = (nlTok z, z.nl t) := by
  unfold scanNewline
  have h0 : advIf (· == 0x0D) z = z := by simp [advIf, hz]
  rw [h0, advance_over hz (by decide)]
  simp [mkTok, nlTok, Z.nl, Z.over, Z.position]

/-- a line end: LF, or CR LF -/
def eol (cr : Bool) : Bytes := if cr then [0x0D, LF] else [LF]

@[simp] theorem eol_false : eol false = [LF] := rfl
@[simp] theorem eol_true : eol true = [0x0D, LF] := rfl

theorem atEol_eol (cr : Bool) (t : Bytes) : atEol (eol cr ++ t) = true := by
  cases cr <;> rfl

/-- the state behind the line end `eol cr` -/
def Z.nlc (z : Z) (cr : Bool) (rest : Bytes) : Z :=
  ⟨(eol cr).reverse ++ z.before, rest, z.line + 1, 1, true⟩

/-- the Newline token at `z` for the line end `eol cr`: it starts at the CR, if there is one -/
def nlTokc (z : Z) (cr : Bool) : Token :=
  ⟨.newline, [LF], z.position, ⟨z.line + 1, 1, z.before.length + (eol cr).length⟩⟩

theorem nlc_false (z : Z) (t : Bytes) : z.nlc false t = z.nl t := rfl
theorem nlTokc_false (z : Z) : nlTokc z false = nlTok z := rfl

/-- **Newline.**  `"\n"` and `"\r\n"` are each ONE Newline token. -/
theorem scanNewline_atc {z : Z} {t : Bytes} (cr : Bool) (hz : z.after = eol cr ++ t) :
    scanNewline z = (nlTokc z cr, z.nlc cr t) := by
  cases cr with
  | false => exact scanNewline_at (by simpa using hz)
  | true =>
    have hz' : z.after = 0x0D :: LF :: t := by simpa using hz
    unfold scanNewline
    have h0 : advIf (· == 0x0D) z = z.over [0x0D] (LF :: t) := by
      simp only [advIf, hz', beq_self_eq_true, if_true]
      exact advance_over hz' (by decide)
    rw [h0, advance_over (z := z.over [0x0D] (LF :: t)) rfl (by decide)]
    simp [mkTok, nlTokc, Z.nlc, Z.over, Z.position]

theorem scanInLine_eol (C : Classes) {z : Z} {t : Bytes} (cr : Bool) (hz : z.after = eol cr ++ t) :
    scanInLine C z = scanNewline z := by
  have hb : Stops isBlank z.after := by
    rw [hz]; cases cr <;> exact Stops.cons _ (by decide)
  unfold scanInLine
  rw [skipSpaces_none hb]
  unfold scanInLineAt
  have ha := atEol_eol cr t
  rw [← hz] at ha
  cases hz2 : z.after with
  | nil => rw [hz2] at hz; cases cr <;> simp at hz
  | cons ch u => rw [hz2] at ha; simp only [ha, if_true]

/-- **Blank line** (at a line start): `Next` returns the Newline token for `"\n"` / `"\r\n"`. -/
theorem next_blank_line_c (C : Classes) {z : Z} {t : Bytes} (cr : Bool) (hz : z.after = eol cr ++ t) :
    next C z = (nlTokc z cr, z.nlc cr t) := by
  have hne : ∃ ch u, z.after = ch :: u := by
    cases cr
    · exact ⟨_, _, by simpa using hz⟩
    · exact ⟨_, _, by simpa using hz⟩
  obtain ⟨ch, u, hcu⟩ := hne
  unfold next
  simp only [hcu]
  split
  · unfold scanLineStart scanLineStartAt
    have ha : atEol ({ z with atStart := false } : Z).after = true := by
      show atEol z.after = true
      rw [hz]; exact atEol_eol cr t
    have hp : peek { z with atStart := false } = ch := by simp [peek, hcu]
    have hch : ch = 0x0A ∨ ch = 0x0D := by
      cases cr
      · left; have := hcu.symm.trans hz; simp at this; exact this.1
      · right; have := hcu.symm.trans hz; simp at this; exact this.1
    simp only [hp, ha, Bool.not_true, Bool.and_false]
    have h1 : (ch == 0x3B) = false := by rcases hch with rfl | rfl <;> decide
    have h2 : isDigit ch = false := by rcases hch with rfl | rfl <;> decide
    have h3 : isLetter ch = false := by rcases hch with rfl | rfl <;> decide
    simp only [h1, h2, h3, Bool.false_eq_true, if_false]
    rw [scanInLine_eol C cr (z := ({ z with atStart := false } : Z)) (t := t) hz]
    show scanNewline z.started = _
    rw [scanNewline_atc (z := z.started) cr hz]
    rfl
  · rw [scanInLine_eol C cr hz, scanNewline_atc cr hz]

theorem next_blank_line (C : Classes) {z : Z} {t : Bytes} (hz : z.after = LF :: t) :
    next C z = (nlTok z, z.nl t) :=
  next_blank_line_c C false (by simpa using hz)

/-! ### inside a line -/

/-- behind the first token of a line, `Next` skips blanks and dispatches on the next byte -/
theorem next_inline (C : Classes) {z : Z} (hs : z.atStart = false) :
    next C z = scanInLineAt C (skipSpaces z) := by
  unfold next
  cases hz : z.after with
  | nil =>
    have : skipSpaces z = z := skipSpaces_none (by rw [hz]; exact Stops.nil _)
    simp [this, scanInLineAt, hz]
  | cons c t => simp [hs, scanInLine]

/-- `Next` inside a line, with the blanks in front of the token made explicit -/
theorem next_skip (C : Classes) {z : Z} {sp rest : Bytes} (hs : z.atStart = false) (hz : z.after = sp ++ rest)
    (hsp : ∀ c ∈ sp, c = 0x20) (hstop : Stops isBlank rest) :
    next C z = scanInLineAt C (z.over sp rest) := by
  rw [next_inline C hs, skipSpaces_over hz hsp hstop]

theorem scanInLineAt_eof (C : Classes) {z : Z} (hz : z.after = []) :
    scanInLineAt C z = (⟨.eof, [], z.position, z.position⟩, z) := by
  simp [scanInLineAt, hz, mkTok]

theorem scanInLineAt_newline_c (C : Classes) {z : Z} {t : Bytes} (cr : Bool) (hz : z.after = eol cr ++ t) :
    scanInLineAt C z = (nlTokc z cr, z.nlc cr t) := by
  unfold scanInLineAt
  have ha := atEol_eol cr t
  rw [← hz] at ha
  cases hz2 : z.after with
  | nil => rw [hz2] at hz; cases cr <;> simp at hz
  | cons ch u =>
    rw [hz2] at ha
    simp only [ha, if_true]
    exact scanNewline_atc cr hz

theorem scanInLineAt_newline (C : Classes) {z : Z} {t : Bytes} (hz : z.after = LF :: t) :
    scanInLineAt C z = (nlTok z, z.nl t) :=
  scanInLineAt_newline_c C false (by simpa using hz)

theorem scanInLineAt_letter (C : Classes) {z : Z} {c : UInt8} {t : Bytes} (hz : z.after = c :: t)
    (hl : isLetter c = true) :
    scanInLineAt C z = if looksLikeAccount z.after then scanAccount z else scanCommodityOrText C z := by
  have hf := letter_facts c
  simp only [hl, Bool.not_true, Bool.false_or, Bool.and_eq_true, decide_eq_true_eq, bne_iff_ne, ne_eq,
    Bool.not_eq_true'] at hf
  obtain ⟨⟨⟨⟨⟨⟨⟨⟨⟨⟨⟨⟨⟨⟨⟨⟨⟨hlt, h1⟩, h2⟩, h3⟩, h4⟩, h5⟩, h6⟩, h7⟩, h8⟩, h9⟩, h10⟩, h11⟩, h12⟩, h13⟩, h14⟩, h15⟩, h16⟩, _⟩ := hf
  have hcr : c ≠ 0x0D := by simpa [hl] using not_cr_facts c
  have hae : atEol (c :: t) = false := atEol_of_ne h1 hcr
  unfold scanInLineAt
  simp [hz, hae, peekRune, decodeRune_ascii t hlt, h1, h2, h3, h4, h5, h6, h7, h8, h9, h10, h11, h12, h13, h14, h15,
    h16, hl]

theorem scanInLineAt_digit (C : Classes) {z : Z} {c : UInt8} {t : Bytes} (hz : z.after = c :: t)
    (hd : isDigit c = true) :
    scanInLineAt C z = if looksLikeDate z.after then scanDate z else scanNumber z := by
  have hf := digit_facts c
  simp only [hd, Bool.not_true, Bool.false_or, Bool.and_eq_true, decide_eq_true_eq, bne_iff_ne, ne_eq,
    Bool.not_eq_true'] at hf
  obtain ⟨⟨⟨⟨⟨⟨⟨⟨⟨⟨⟨⟨⟨⟨⟨⟨⟨hlt, h1⟩, _⟩, h2⟩, h3⟩, h4⟩, h5⟩, h6⟩, h7⟩, h8⟩, h9⟩, h10⟩, h11⟩, h12⟩, h13⟩, h14⟩, h15⟩, _⟩ := hf
  have hcr : c ≠ 0x0D := by simpa [hd] using not_cr_facts c
  have hae : atEol (c :: t) = false := atEol_of_ne h2 hcr
  unfold scanInLineAt
  simp [hz, hae, peekRune, decodeRune_ascii t hlt, h1, h2, h3, h4, h5, h6, h7, h8, h9, h10, h11, h12, h13, h14, h15, hd]

/-! ### number, sign -/

theorem scanNumber_over {z : Z} {l rest : Bytes} (hz : z.after = l ++ rest)
    (hl : ∀ c ∈ l, numByte c = true) (hstop : NumStop rest) :
    scanNumber z = (tokAt .number l z l.length, z.over l rest) := by
  unfold scanNumber
  rw [scanNumberF_over l _ z false rest hz (by simp [hz]) hl hstop]
  simp only [between_over, mkTok_over]

/-- **Number.**  Digits and `.`, first a digit, not shaped like a date. -/
theorem scanInLineAt_number (C : Classes) {z : Z} {l rest : Bytes} (hz : z.after = l ++ rest)
    (h0 : ∃ c t, l = c :: t ∧ isDigit c = true) (hl : ∀ c ∈ l, numByte c = true) (hstop : NumStop rest)
    (hdate : looksLikeDate z.after = false) :
    scanInLineAt C z = (tokAt .number l z l.length, z.over l rest) := by
  obtain ⟨c, t, rfl, hc0⟩ := h0
  rw [scanInLineAt_digit C (by simpa using hz) hc0, hdate]
  simp only [Bool.false_eq_true, if_false]
  exact scanNumber_over hz hl hstop

/-- **Sign.**  `-` directly in front of a digit. -/
theorem scanInLineAt_minus (C : Classes) {z : Z} {d : UInt8} {t : Bytes} (hz : z.after = 0x2D :: d :: t)
    (hd : isDigit d = true) :
    scanInLineAt C z = (tokAt .sign [0x2D] z 1, z.over [0x2D] (d :: t)) := by
  unfold scanInLineAt
  have hnd : nextIsDigit z.after = true := by simp [nextIsDigit, hz, headIsDigit, hd]
  have hr : peekRune z = 0x2D := by simp [peekRune, hz, decodeRune]
  simp only [hz, hr]
  rw [← hz, hnd]
  simp only [Bool.or_true, if_true]
  have hae : atEol z.after = false := by rw [hz]; rfl
  rw [if_neg (by simp [hae]), if_neg (by decide), if_neg (by decide), if_neg (by decide), if_neg (by decide),
    if_neg (by decide), if_neg (by decide), if_neg (by decide), if_neg (by decide), if_neg (by decide),
    if_neg (by decide), if_neg (by decide), if_pos (by decide)]
  unfold scanSign
  rw [advance_over hz (by decide)]
  have hp : peek z = 0x2D := by simp [peek, hz]
  rw [hp, mkTok_over]
  rfl

/-! ### account -/

theorem looksLikeAccountF_over (a : Bytes) :
    ∀ (n : Nat) (rest : Bytes) (hc : Bool), a.length ≤ n → (∀ c ∈ a, acctByte c = true) → AcctStop rest →
      looksLikeAccountF n (a ++ rest) hc = (hc || a.contains 0x3A) := by
  induction a with
  | nil =>
    intro n rest hc hn _ hstop
    simp only [List.nil_append, List.contains_nil, Bool.or_false]
    cases n with
    | zero => rfl
    | succ n =>
    rcases hstop with h | ⟨c, t, h, hlt, ht⟩ | ⟨t, h⟩
    · simp [h, looksLikeAccountF]
    · have h20 : c.toNat ≠ 0x20 := by
        intro h'; rw [h'] at ht; simp [isAccountTerminator] at ht
      have h3a : c.toNat ≠ 0x3A := by
        intro h'; rw [h'] at ht; simp [isAccountTerminator] at ht
      subst h
      unfold looksLikeAccountF
      simp only [decodeRune_ascii t hlt, ht, if_true]
      simp [h20, h3a]
    · subst h
      unfold looksLikeAccountF
      simp [decodeRune_ascii _ (by decide : (0x20 : UInt8) < 0x80), headIs]
  | cons c a ih =>
    intro n rest hc hn ha hstop
    obtain ⟨n, rfl⟩ : ∃ m, n = m + 1 := ⟨n - 1, by simp at hn; omega⟩
    have hc0 := ha c (by simp)
    simp only [acctByte, Bool.and_eq_true, decide_eq_true_eq, bne_iff_ne, ne_eq, Bool.not_eq_true'] at hc0
    obtain ⟨⟨hc1, hc2⟩, hc3⟩ := hc0
    have h20 : ¬ c.toNat = 0x20 := by
      intro h'; apply hc2; exact UInt8.toNat_inj.mp (by simpa using h')
    have ih' := fun hc' => ih n rest hc' (by simpa using hn) (fun x hx => ha x (by simp [hx])) hstop
    simp only [List.cons_append]
    unfold looksLikeAccountF
    simp only [decodeRune_ascii _ hc1, List.drop_one, List.tail_cons]
    by_cases h3a : c = 0x3A
    · subst h3a
      simp [ih']
    · have h3a' : ¬ c.toNat = 0x3A := by
        intro h'; apply h3a; exact UInt8.toNat_inj.mp (by simpa using h')
      rw [if_neg (by simpa using h3a'), if_neg (by simpa using h20), hc3]
      simp only [Bool.false_eq_true, if_false, ih', List.contains_cons]
      have : (0x3A == c) = false := by simpa using fun h => h3a h.symm
      simp [this]

/-- **Account.**  A blank-free name with a colon, first a letter, ended by `AcctStop`. -/
theorem scanInLineAt_account (C : Classes) {z : Z} {a rest : Bytes} (hz : z.after = a ++ rest)
    (h0 : ∃ c t, a = c :: t ∧ isLetter c = true) (ha : ∀ c ∈ a, acctByte c = true)
    (hcolon : a.contains 0x3A = true) (hstop : AcctStop rest) :
    scanInLineAt C z = (tokAt .account a z a.length, z.over a rest) := by
  obtain ⟨c, t, rfl, hc0⟩ := h0
  have hlla : looksLikeAccount z.after = true := by
    unfold looksLikeAccount
    rw [hz, looksLikeAccountF_over _ _ rest false (by simp) ha hstop, hcolon]; rfl
  rw [scanInLineAt_letter C (by simpa using hz) hc0, hlla]
  simp only [if_true]
  unfold scanAccount
  rw [scanAccountF_over (c :: t) _ z z rest hz (by simp [hz]) ha hstop]
  simp only [reduceCtorEq, if_false]
  rw [between_over, ← mkTok_over]
  rfl

/-! ### commodity, text -/

theorem runesF_ascii (u : Bytes) : ∀ n, u.length ≤ n → (∀ c ∈ u, c < 0x80) → runesF n u = u.map (·.toNat) := by
  induction u with
  | nil => intro n _ _; cases n <;> rfl
  | cons c u ih =>
    intro n hn hu
    obtain ⟨n, rfl⟩ : ∃ m, n = m + 1 := ⟨n - 1, by simp at hn; omega⟩
    unfold runesF
    simp only [decodeRune_ascii u (hu c (by simp)), List.drop_one, List.tail_cons, List.map_cons]
    rw [ih n (by simpa using hn) (fun x hx => hu x (by simp [hx]))]

theorem runes_ascii (u : Bytes) (hu : ∀ c ∈ u, c < 0x80) : runes u = u.map (·.toNat) :=
  runesF_ascii u _ (Nat.le_refl _) hu

theorem scanCommodityOrText_commodity (C : Classes) {z : Z} {u rest : Bytes} (hz : z.after = u ++ rest)
    (hne : u ≠ []) (hup : ∀ c ∈ u, isUpper c = true) (hC : ∀ c ∈ u, C.isUpper c.toNat = true)
    (hstop : Stops alnum rest) :
    scanCommodityOrText C z = (tokAt .commodity u z u.length, z.over u rest) := by
  have hu : ∀ c ∈ u, isLetter c = true ∧ c < 0x80 := by
    intro c hc
    have := upper_facts c
    simp only [hup c hc, Bool.not_true, Bool.false_or, Bool.and_eq_true, decide_eq_true_eq] at this
    exact ⟨this.1.1, this.1.2⟩
  have h1 : advWhile isLetter z = z.over u rest := advWhile_over isLetter hz hu hstop.letter_of_alnum
  have h2 : advWhile (fun c => isLetter c || isDigit c) (z.over u rest) = z.over u rest := by
    have := advWhile_over alnum (z := z.over u rest) (l := []) (rest := rest) rfl (by simp) hstop
    rw [over_nil (z.over u rest) rest rfl] at this
    exact this
  have h3 : looksLikeCommodity C u = true := by
    unfold looksLikeCommodity
    rw [runes_ascii u (fun c hc => (hu c hc).2)]
    simp only [Bool.and_eq_true, Bool.not_eq_true', List.isEmpty_eq_false_iff, ne_eq, hne, not_false_eq_true,
      List.all_map, List.all_eq_true, Function.comp_apply, Bool.or_eq_true, true_and]
    intro c hc
    exact Or.inl (hC c hc)
  unfold scanCommodityOrText
  simp only [h1, h2, between_over, h3, if_true, mkTok_over]
  split <;> rfl

/-- **Commodity.**  An upper-case ASCII word that `C` calls upper case, not followed by a letter
    or digit, on a line without a colon ahead. -/
theorem scanInLineAt_commodity (C : Classes) {z : Z} {u rest : Bytes} (hz : z.after = u ++ rest)
    (hne : u ≠ []) (hup : ∀ c ∈ u, isUpper c = true) (hC : ∀ c ∈ u, C.isUpper c.toNat = true)
    (hstop : Stops alnum rest) (hacc : looksLikeAccount z.after = false) :
    scanInLineAt C z = (tokAt .commodity u z u.length, z.over u rest) := by
  obtain ⟨c, t, rfl⟩ := List.exists_cons_of_ne_nil hne
  have hl : isLetter c = true := by
    have := upper_facts c
    simp only [hup c (by simp), Bool.not_true, Bool.false_or, Bool.and_eq_true] at this
    exact this.1.1
  rw [scanInLineAt_letter C (by simpa using hz) hl, hacc]
  simp only [Bool.false_eq_true, if_false]
  exact scanCommodityOrText_commodity C hz hne hup hC hstop

/-- `strings.TrimSpace` leaves a string alone that starts and ends with a non-blank ASCII byte -/
theorem trimSpace_id (c : UInt8) (m : Bytes) (d : UInt8) (hc : c < 0x80) (hcs : asciiSpace c = false)
    (hd : d < 0x80) (hds : asciiSpace d = false) : trimSpace (c :: (m ++ [d])) = c :: (m ++ [d]) := by
  have hc' : ¬ c ≥ 0x80 := by simpa using hc
  have hd' : ¬ d ≥ 0x80 := by simpa using hd
  unfold trimSpace
  rw [if_neg hc']
  simp only [hcs, Bool.false_eq_true, if_false]
  have : (c :: (m ++ [d])).reverse = d :: (m.reverse ++ [c]) := by simp
  rw [this]
  unfold trimSpaceRight
  rw [if_neg hd']
  simp [hds]

theorem trimSpace_single (c : UInt8) (hc : c < 0x80) (hcs : asciiSpace c = false) : trimSpace [c] = [c] := by
  have hc' : ¬ c ≥ 0x80 := by simpa using hc
  unfold trimSpace
  rw [if_neg hc']
  simp only [hcs, Bool.false_eq_true, if_false, List.reverse_cons, List.reverse_nil, List.nil_append]
  unfold trimSpaceRight
  rw [if_neg hc']
  simp [hcs]

theorem ascii_nonspace_rune : ∀ c : UInt8, (!(decide (c < 0x80)) || asciiSpace c || !isSpaceRune c.toNat) = true :=
  forall_uint8 _ (by decide +kernel)

/-- `strings.TrimRightFunc(s, unicode.IsSpace)` leaves a string alone that ends with a non-blank
    ASCII byte -/
theorem trimRightFunc_id (m : Bytes) (d : UInt8) (hd : d < 0x80) (hds : asciiSpace d = false) :
    trimRightFunc (m ++ [d]) = m ++ [d] := by
  have hsp : isSpaceRune d.toNat = false := by
    have := ascii_nonspace_rune d
    simpa [hd, hds] using this
  have hd' : ¬ d ≥ 0x80 := by simpa using hd
  have hrev : (m ++ [d]).reverse = d :: m.reverse := by simp
  have hl : (m ++ [d]).length = m.length + 1 := by simp
  have hget : (m ++ [d]).getD m.length 0 = d := by simp [List.getD]
  unfold trimRightFunc
  rw [hrev, hl]
  simp only [lastIndexNotSpaceF, decodeLastRuneRev, hd, if_true, hsp, Bool.not_false, List.drop_succ_cons,
    List.drop_zero, List.length_reverse, hget, if_neg hd']
  rw [← hl, List.take_length]

/-- **Text.**  A lower-case word `w` followed by more text `r` (no CR) up to a line end, `;` or `|`:
    one Text token for `w ++ r` (the lexer decides on the first word: it is neither a commodity
    for `C` nor, with no colon ahead, an account). -/
theorem scanInLineAt_text (C : Classes) {z : Z} {w r rest : Bytes} (hz : z.after = w ++ r ++ rest)
    (hne : w ≠ []) (hw : ∀ c ∈ w, isLower c = true)
    (hC : ∀ c ∈ w, C.isUpper c.toNat = false ∧ C.isDigit c.toNat = false)
    (hr : ∀ c ∈ r, textByte c = true ∧ c < 0x80) (hrs : Stops alnum (r ++ rest)) (hstop : StopsL textP rest)
    (hacc : looksLikeAccount z.after = false) (htrim : trimSpace (w ++ r) = w ++ r)
    (htrimR : trimRightFunc (w ++ r) = w ++ r) :
    scanInLineAt C z = (tokAt .text (w ++ r) z (w ++ r).length, z.over (w ++ r) rest) := by
  obtain ⟨c, t, rfl⟩ := List.exists_cons_of_ne_nil hne
  have hlow : ∀ x ∈ c :: t, isLetter x = true ∧ x < 0x80 ∧ textByte x = true ∧
      (decide (0x41 ≤ x) && decide (x ≤ 0x5A)) = false := by
    intro x hx
    have := lower_facts x
    simp only [hw x hx, Bool.not_true, Bool.false_or, Bool.and_eq_true, decide_eq_true_eq, Bool.not_eq_true'] at this
    exact ⟨this.1.1.1.1.1.1.1, this.1.1.1.1.1.2, this.1.1.1.2, this.1.1.1.1.2⟩
  have hz' : z.after = (c :: t) ++ (r ++ rest) := by simpa using hz
  rw [scanInLineAt_letter C (by simpa using hz) (hlow c (by simp)).1, hacc]
  simp only [Bool.false_eq_true, if_false]
  have h1 : advWhile isLetter z = z.over (c :: t) (r ++ rest) :=
    advWhile_over isLetter hz' (fun x hx => ⟨(hlow x hx).1, (hlow x hx).2.1⟩) hrs.letter_of_alnum
  have h2 : advWhile (fun c => isLetter c || isDigit c) (z.over (c :: t) (r ++ rest)) = z.over (c :: t) (r ++ rest) := by
    have := advWhile_over alnum (z := z.over (c :: t) (r ++ rest)) (l := []) (rest := r ++ rest) rfl (by simp) hrs
    rw [over_nil (z.over (c :: t) (r ++ rest)) (r ++ rest) rfl] at this
    exact this
  have h3 : looksLikeCommodity C (c :: t) = false := by
    unfold looksLikeCommodity
    rw [runes_ascii _ (fun x hx => (hlow x hx).2.1)]
    simp [(hC c (by simp)).1, (hC c (by simp)).2]
  have h4 : isAllUppercase (c :: t) = false := by
    simp [isAllUppercase, (hlow c (by simp)).2.2.2]
  have h5 : advLine (fun ch => !(ch == 0x3B || ch == 0x7C)) z = z.over (c :: t ++ r) rest := by
    have hline : ∀ x, textByte x = true → textP x = true ∧ x ≠ LF ∧ x ≠ 0x0D := by
      intro x hx
      have := textByte_line x
      simp only [hx, Bool.not_true, Bool.false_or, Bool.and_eq_true, bne_iff_ne, ne_eq] at this
      exact ⟨this.1.1, this.1.2, this.2⟩
    refine advLine_over textP (by simpa using hz) ?_ hstop
    intro x hx
    rcases List.mem_append.mp hx with hx | hx
    · have := hline x (hlow x hx).2.2.1
      exact ⟨this.1, (hlow x hx).2.1, this.2⟩
    · have := hline x (hr x hx).1
      exact ⟨this.1, (hr x hx).2, this.2⟩
  unfold scanCommodityOrText
  simp only [h1, h2, between_over, h3, h4, Bool.false_and, Bool.and_false, Bool.false_eq_true, if_false]
  have hasc : ∀ x ∈ c :: t ++ r, x < 0x80 := by
    intro x hx
    rcases List.mem_append.mp hx with hx | hx
    · exact (hlow x hx).2.1
    · exact (hr x hx).2
  unfold scanText
  simp only [h5, between_over, htrim, textStop, htrimR, runes_ascii _ hasc, List.length_map]
  rw [if_neg (by simp), ← mkTok_over]
  simp [mkTok, mkTokAt, over_position]

end HL.Lex
