import HL.Model.Num
import HL.Spec.Number
import HL.Lemmas.Dec

/-! Lemmas for `normalize_value`: the scanning loops of `normalizeMantissa`, digit grouping,
    `NewFromString` on canonical digit strings, and the arithmetic of `G.value`. -/
namespace HL
namespace Num

/-! ### the counting loop -/

theorem scan_append (c : UInt8) (X Y : Bytes) (i : Nat) (acc : Nat × Nat) :
    scan c (X ++ Y) i acc = scan c Y (i + X.length) (scan c X i acc) := by
  induction X generalizing i acc with
  | nil => simp [scan]
  | cons x r ih =>
    obtain ⟨cnt, last⟩ := acc
    simp only [List.cons_append, scan, List.length_cons]
    split
    · rw [ih]; congr 1; omega
    · rw [ih]; congr 1; omega

theorem scan_not_mem (c : UInt8) (Y : Bytes) (i : Nat) (acc : Nat × Nat) (h : c ∉ Y) :
    scan c Y i acc = acc := by
  induction Y generalizing i acc with
  | nil => obtain ⟨a, b⟩ := acc; simp [scan]
  | cons x r ih =>
    obtain ⟨cnt, last⟩ := acc
    simp only [List.mem_cons, not_or] at h
    have hx : (x == c) = false := by
      simp only [beq_eq_false_iff_ne, ne_eq]
      exact fun e => h.1 e.symm
    simp only [scan, hx, Bool.false_eq_true, if_false]
    exact ih _ _ h.2

theorem scan_fst (c : UInt8) (s : Bytes) (i cnt last : Nat) :
    (scan c s i (cnt, last)).1 = cnt + s.count c := by
  induction s generalizing i cnt last with
  | nil => simp [scan]
  | cons x r ih =>
    simp only [scan, List.count_cons]
    by_cases hx : (x == c) = true
    · simp only [hx, if_true]; rw [ih]; omega
    · simp only [hx, Bool.false_eq_true, if_false]; rw [ih]; omega

theorem countOf_eq (c : UInt8) (s : Bytes) : countOf c s = s.count c := by
  unfold countOf; rw [scan_fst]; omega

theorem scan_split (c : UInt8) (A B : Bytes) (i cnt last : Nat) (h : c ∉ B) :
    scan c (A ++ c :: B) i (cnt, last) = (cnt + A.count c + 1, i + A.length) := by
  rw [scan_append]
  simp only [scan, beq_self_eq_true, if_true]
  rw [scan_not_mem c B _ _ h]
  have := scan_fst c A i cnt last
  rw [this]

theorem lastOf_split (c : UInt8) (A B : Bytes) (h : c ∉ B) : lastOf c (A ++ c :: B) = A.length := by
  unfold lastOf; rw [scan_split c A B 0 0 0 h]; simp

/-- the last index found lies inside the string. -/
theorem scan_snd_lt (c : UInt8) (s : Bytes) (i cnt last : Nat) (h : c ∈ s) :
    (scan c s i (cnt, last)).2 < i + s.length := by
  induction s generalizing i cnt last with
  | nil => cases h
  | cons x r ih =>
    simp only [scan, List.length_cons]
    by_cases hx : (x == c) = true
    · simp only [hx, if_true]
      by_cases hr : c ∈ r
      · have := ih (i + 1) (cnt + 1) i hr; omega
      · rw [scan_not_mem c r _ _ hr]; simp only; omega
    · simp only [hx, Bool.false_eq_true, if_false]
      have hr : c ∈ r := by
        rcases List.mem_cons.1 h with e | e
        · subst e; simp at hx
        · exact e
      have := ih (i + 1) cnt last hr; omega

theorem lastOf_lt (c : UInt8) (s : Bytes) (h : c ∈ s) : lastOf c s < s.length := by
  have := scan_snd_lt c s 0 0 0 h
  unfold lastOf; omega

theorem lastOf_append_not_mem (c : UInt8) (X Y : Bytes) (h : c ∉ Y) : lastOf c (X ++ Y) = lastOf c X := by
  unfold lastOf; rw [scan_append, scan_not_mem c Y _ _ h]

/-! ### the rebuilding loop -/

def isMark (c : UInt8) : Bool := c == DOT || c == COMMA

theorem rebuild_past (p : Nat) (s : Bytes) (i : Nat) (h : p < i) :
    rebuild p s i = s.filter fun c => !isMark c := by
  induction s generalizing i with
  | nil => rfl
  | cons x r ih =>
    simp only [rebuild, List.filter_cons]
    by_cases hx : (x == DOT || x == COMMA) = true
    · have hne : (i == p) = false := by simp only [beq_eq_false_iff_ne, ne_eq]; omega
      simp only [hx, if_true, hne, Bool.false_eq_true, if_false, isMark, Bool.not_true]
      exact ih (i + 1) (by omega)
    · simp only [hx, Bool.false_eq_true, if_false, isMark, Bool.not_false, if_true]
      rw [ih (i + 1) (by omega)]
      rfl

theorem rebuild_split (A B : Bytes) (x : UInt8) (hx : isMark x = true) (i : Nat) :
    rebuild (i + A.length) (A ++ x :: B) i =
      (A.filter fun c => !isMark c) ++ DOT :: (B.filter fun c => !isMark c) := by
  induction A generalizing i with
  | nil =>
    simp only [List.length_nil, Nat.add_zero, List.nil_append, rebuild, List.filter_nil]
    have : (x == DOT || x == COMMA) = true := hx
    simp only [this, if_true, beq_self_eq_true]
    rw [rebuild_past i B (i + 1) (by omega)]
  | cons a r ih =>
    simp only [List.cons_append, rebuild, List.length_cons, List.filter_cons]
    have e : i + (r.length + 1) = (i + 1) + r.length := by omega
    by_cases ha : (a == DOT || a == COMMA) = true
    · have hne : (i == i + (r.length + 1)) = false := by simp only [beq_eq_false_iff_ne, ne_eq]; omega
      simp only [ha, if_true, hne, Bool.false_eq_true, if_false, isMark, Bool.not_true]
      rw [e]; exact ih (i + 1)
    · simp only [ha, Bool.false_eq_true, if_false, isMark, Bool.not_false, if_true]
      rw [e, ih (i + 1)]
      rfl

/-! ### digit bytes -/

theorem digitByte_isDigit : ∀ d : G.Digit, Dec.isDigit (G.digitByte d) = true := by decide

theorem isDigit_ne {b c : UInt8} (h : Dec.isDigit b = true) (hc : Dec.isDigit c = false) : b ≠ c := by
  intro e; rw [e, hc] at h; cases h

def AllDigits (s : Bytes) : Prop := ∀ b ∈ s, Dec.isDigit b = true

theorem allDigits_digitsBytes (ds : List G.Digit) : AllDigits (G.digitsBytes ds) := by
  intro b hb
  unfold G.digitsBytes at hb
  obtain ⟨d, _, rfl⟩ := List.mem_map.1 hb
  exact digitByte_isDigit d

theorem AllDigits.not_mem {s : Bytes} (h : AllDigits s) {c : UInt8} (hc : Dec.isDigit c = false) : c ∉ s :=
  fun hm => isDigit_ne (h c hm) hc rfl

theorem AllDigits.append {a b : Bytes} (ha : AllDigits a) (hb : AllDigits b) : AllDigits (a ++ b) := by
  intro x hx
  rcases List.mem_append.1 hx with h | h
  · exact ha x h
  · exact hb x h

theorem AllDigits.reverse {a : Bytes} (ha : AllDigits a) : AllDigits a.reverse :=
  fun x hx => ha x (List.mem_reverse.1 hx)

/-- strings without '.' and ','. -/
def NoMarks (s : Bytes) : Prop := ∀ b ∈ s, isMark b = false

theorem AllDigits.noMarks {s : Bytes} (h : AllDigits s) : NoMarks s := by
  intro b hb
  have hd := h b hb
  have h1 : b ≠ DOT := isDigit_ne hd (by decide)
  have h2 : b ≠ COMMA := isDigit_ne hd (by decide)
  simp [isMark, h1, h2]

theorem NoMarks.append {a b : Bytes} (ha : NoMarks a) (hb : NoMarks b) : NoMarks (a ++ b) := by
  intro x hx
  rcases List.mem_append.1 hx with h | h
  · exact ha x h
  · exact hb x h

theorem NoMarks.filter {s : Bytes} (h : NoMarks s) : (s.filter fun c => !isMark c) = s := by
  rw [List.filter_eq_self]
  intro b hb
  simp [h b hb]

theorem NoMarks.dot {s : Bytes} (h : NoMarks s) : DOT ∉ s := fun hm => by
  have := h DOT hm; simp [isMark] at this
theorem NoMarks.comma {s : Bytes} (h : NoMarks s) : COMMA ∉ s := fun hm => by
  have := h COMMA hm; simp [isMark] at this

theorem count_eq_zero_of_not_mem {c : UInt8} {s : Bytes} (h : c ∉ s) : s.count c = 0 :=
  List.count_eq_zero_of_not_mem h

/-! ### digit grouping -/

theorem groupRev_short (g : UInt8) (R : Bytes) (h : R.length ≤ 3) : G.groupRev g R = R := by
  match R, h with
  | [], _ => rfl
  | [_], _ => rfl
  | [_, _], _ => rfl
  | [_, _, _], _ => rfl
  | _ :: _ :: _ :: _ :: _, h => simp at h

theorem groupRev_long (g a b c : UInt8) (t : Bytes) (ht : t ≠ []) :
    G.groupRev g (a :: b :: c :: t) = a :: b :: c :: g :: G.groupRev g t := by
  cases t with
  | nil => exact absurd rfl ht
  | cons x r => simp [G.groupRev]

theorem groupRev_other (g : UInt8) (l : Bytes) (hl : ∀ (a b c : UInt8) (t : List UInt8), l = a :: b :: c :: t → False) :
    G.groupRev g l = l := by
  unfold G.groupRev
  split
  · rename_i a b c t; exact (hl a b c t rfl).elim
  · rfl

theorem filter_ne_self (g : UInt8) (R : Bytes) (h : g ∉ R) : R.filter (fun c => c != g) = R := by
  rw [List.filter_eq_self]
  intro x hx
  simp only [bne_iff_ne, ne_eq]
  intro e; subst e; exact h hx

theorem filter_groupRev (g : UInt8) (R : Bytes) (h : g ∉ R) :
    (G.groupRev g R).filter (fun c => c != g) = R := by
  induction R using G.groupRev.induct with
  | case1 a b c t ht =>
    have : t = [] := List.isEmpty_iff.1 ht
    subst this
    rw [groupRev_short g _ (by simp)]
    exact filter_ne_self g _ h
  | case2 a b c t ht ih =>
    have htne : t ≠ [] := fun e => ht (by simp [e])
    rw [groupRev_long g a b c t htne]
    simp only [List.mem_cons, not_or] at h
    obtain ⟨ha, hb, hc, ht'⟩ := h
    have e1 : (a != g) = true := by simp only [bne_iff_ne, ne_eq]; exact fun e => ha e.symm
    have e2 : (b != g) = true := by simp only [bne_iff_ne, ne_eq]; exact fun e => hb e.symm
    have e3 : (c != g) = true := by simp only [bne_iff_ne, ne_eq]; exact fun e => hc e.symm
    simp only [List.filter_cons, e1, e2, e3, if_true, bne_self_eq_false, Bool.false_eq_true, if_false]
    rw [ih ht']
  | case3 l hl =>
    rw [groupRev_other g l hl]
    exact filter_ne_self g _ h

theorem mem_groupRev (g x : UInt8) (R : Bytes) (h : x ∈ G.groupRev g R) : x ∈ R ∨ x = g := by
  induction R using G.groupRev.induct with
  | case1 a b c t ht =>
    have : t = [] := List.isEmpty_iff.1 ht
    subst this
    rw [groupRev_short g _ (by simp)] at h
    exact Or.inl h
  | case2 a b c t ht ih =>
    have htne : t ≠ [] := fun e => ht (by simp [e])
    rw [groupRev_long g a b c t htne] at h
    simp only [List.mem_cons] at h
    rcases h with h | h | h | h | h
    · left; simp [h]
    · left; simp [h]
    · left; simp [h]
    · right; exact h
    · rcases ih h with h' | h'
      · left; simp [h']
      · right; exact h'
  | case3 l hl =>
    rw [groupRev_other g l hl] at h; exact Or.inl h

/-! ### `normalizeMantissa` on the shapes a notation can take -/

def hasNZ (X : Bytes) : Bool := X.any fun c => c != ZERO && c != MINUS

theorem hasNonZero_prefix (X Y : Bytes) : hasNonZero (X ++ Y) X.length = hasNZ X := by
  unfold hasNonZero hasNZ
  rw [List.take_left']
  rfl

theorem count_split (c : UInt8) (X F : Bytes) (hX : c ∉ X) (hF : c ∉ F) : countOf c (X ++ c :: F) = 1 := by
  unfold countOf
  rw [scan_split c X F 0 0 0 hF, count_eq_zero_of_not_mem hX]

theorem count_zero (c : UInt8) (s : Bytes) (h : c ∉ s) : countOf c s = 0 := by
  rw [countOf_eq, count_eq_zero_of_not_mem h]

theorem mantissa_plain (s : Bytes) (h : NoMarks s) : normalizeMantissa s = s := by
  unfold normalizeMantissa
  simp [count_zero DOT s h.dot, count_zero COMMA s h.comma]

theorem ne_dot_comma : DOT ≠ COMMA := by decide

theorem mantissa_comma_decimal (X F : Bytes) (hX : NoMarks X) (hF : NoMarks F)
    (hc : ¬ (X.length ≥ 1 ∧ F.length = 3 ∧ hasNZ X = true)) :
    normalizeMantissa (X ++ COMMA :: F) = X ++ DOT :: F := by
  have hd : DOT ∉ X ++ COMMA :: F := by
    simp only [List.mem_append, List.mem_cons, not_or]
    exact ⟨hX.dot, ne_dot_comma, hF.dot⟩
  have h1 : countOf DOT (X ++ COMMA :: F) = 0 := count_zero _ _ hd
  have h2 : countOf COMMA (X ++ COMMA :: F) = 1 := count_split _ _ _ hX.comma hF.comma
  have h3 : lastOf COMMA (X ++ COMMA :: F) = X.length := lastOf_split _ _ _ hF.comma
  have h4 : (X ++ COMMA :: F).length - X.length - 1 = F.length := by simp
  unfold normalizeMantissa
  simp only [h1, h2, h3, h4, hasNonZero_prefix]
  have hcond : (decide (X.length ≥ 1) && F.length == 3 && hasNZ X) = false := by
    cases hh : (decide (X.length ≥ 1) && F.length == 3 && hasNZ X) with
    | false => rfl
    | true =>
      simp only [Bool.and_eq_true, decide_eq_true_eq, beq_iff_eq] at hh
      exact absurd ⟨hh.1.1, hh.1.2, hh.2⟩ hc
  simp [hcond, List.take_left']

theorem mantissa_comma_group (X L : Bytes) (hX : NoMarks X) (hL : NoMarks L)
    (h1x : X.length ≥ 1) (h3 : L.length = 3) (hnz : hasNZ X = true) :
    normalizeMantissa (X ++ COMMA :: L) = X ++ L := by
  have hd : DOT ∉ X ++ COMMA :: L := by
    simp only [List.mem_append, List.mem_cons, not_or]
    exact ⟨hX.dot, ne_dot_comma, hL.dot⟩
  have h1 : countOf DOT (X ++ COMMA :: L) = 0 := count_zero _ _ hd
  have h2 : countOf COMMA (X ++ COMMA :: L) = 1 := count_split _ _ _ hX.comma hL.comma
  have h3' : lastOf COMMA (X ++ COMMA :: L) = X.length := lastOf_split _ _ _ hL.comma
  have h4 : (X ++ COMMA :: L).length - X.length - 1 = L.length := by simp
  unfold normalizeMantissa
  simp only [h1, h2, h3', h4, hasNonZero_prefix]
  simp [h1x, h3, hnz, List.take_left']

theorem mantissa_dot_decimal (X F : Bytes) (hX : NoMarks X) (hF : NoMarks F)
    (hc : ¬ (X.length ≥ 1 ∧ F.length = 3 ∧ hasNZ X = true)) :
    normalizeMantissa (X ++ DOT :: F) = X ++ DOT :: F := by
  have hd : COMMA ∉ X ++ DOT :: F := by
    simp only [List.mem_append, List.mem_cons, not_or]
    exact ⟨hX.comma, ne_dot_comma.symm, hF.comma⟩
  have h1 : countOf COMMA (X ++ DOT :: F) = 0 := count_zero _ _ hd
  have h2 : countOf DOT (X ++ DOT :: F) = 1 := count_split _ _ _ hX.dot hF.dot
  have h3 : lastOf DOT (X ++ DOT :: F) = X.length := lastOf_split _ _ _ hF.dot
  have h4 : (X ++ DOT :: F).length - X.length - 1 = F.length := by simp
  unfold normalizeMantissa
  simp only [h1, h2, h3, h4, hasNonZero_prefix]
  have hcond : (decide (X.length ≥ 1) && F.length == 3 && hasNZ X) = false := by
    cases hh : (decide (X.length ≥ 1) && F.length == 3 && hasNZ X) with
    | false => rfl
    | true =>
      simp only [Bool.and_eq_true, decide_eq_true_eq, beq_iff_eq] at hh
      exact absurd ⟨hh.1.1, hh.1.2, hh.2⟩ hc
  simp [hcond]

theorem mantissa_dot_group (X L : Bytes) (hX : NoMarks X) (hL : NoMarks L)
    (h1x : X.length ≥ 1) (h3 : L.length = 3) (hnz : hasNZ X = true) :
    normalizeMantissa (X ++ DOT :: L) = X ++ L := by
  have hd : COMMA ∉ X ++ DOT :: L := by
    simp only [List.mem_append, List.mem_cons, not_or]
    exact ⟨hX.comma, ne_dot_comma.symm, hL.comma⟩
  have h1 : countOf COMMA (X ++ DOT :: L) = 0 := count_zero _ _ hd
  have h2 : countOf DOT (X ++ DOT :: L) = 1 := count_split _ _ _ hX.dot hL.dot
  have h3' : lastOf DOT (X ++ DOT :: L) = X.length := lastOf_split _ _ _ hL.dot
  have h4 : (X ++ DOT :: L).length - X.length - 1 = L.length := by simp
  unfold normalizeMantissa
  simp only [h1, h2, h3', h4, hasNonZero_prefix]
  simp [h1x, h3, hnz, List.take_left']

theorem mantissa_commas (s : Bytes) (hk : s.count COMMA ≥ 2) (hd : DOT ∉ s) :
    normalizeMantissa s = removeSeparator s COMMA := by
  have h1 : countOf DOT s = 0 := count_zero _ _ hd
  have h2 : countOf COMMA s = s.count COMMA := countOf_eq _ _
  unfold normalizeMantissa
  simp only [h1, h2]
  have e0 : (s.count COMMA == 0) = false := by rw [beq_eq_false_iff_ne]; omega
  have e1 : (s.count COMMA == 1) = false := by rw [beq_eq_false_iff_ne]; omega
  have e2 : decide (s.count COMMA > 1) = true := by rw [decide_eq_true_eq]; omega
  simp [e0, e1, e2]

theorem mantissa_dots (s : Bytes) (hk : s.count DOT ≥ 2) (hd : COMMA ∉ s) :
    normalizeMantissa s = removeSeparator s DOT := by
  have h1 : countOf COMMA s = 0 := count_zero _ _ hd
  have h2 : countOf DOT s = s.count DOT := countOf_eq _ _
  unfold normalizeMantissa
  simp only [h1, h2]
  have e0 : (s.count DOT == 0) = false := by rw [beq_eq_false_iff_ne]; omega
  have e1 : (s.count DOT == 1) = false := by rw [beq_eq_false_iff_ne]; omega
  have e2 : decide (s.count DOT > 1) = true := by rw [decide_eq_true_eq]; omega
  simp [e0, e1, e2]

theorem mem_of_count_pos {c : UInt8} {s : Bytes} (h : s.count c ≥ 1) : c ∈ s := by
  apply List.count_pos_iff.1; omega

/-- groups written with ',' and a decimal '.'. -/
theorem mantissa_commas_dot (Y F : Bytes) (hY : DOT ∉ Y) (hk : Y.count COMMA ≥ 1) (hF : NoMarks F) :
    normalizeMantissa (Y ++ DOT :: F) = (Y.filter fun c => !isMark c) ++ DOT :: F := by
  have h1 : countOf DOT (Y ++ DOT :: F) = 1 := count_split _ _ _ hY hF.dot
  have h2 : countOf COMMA (Y ++ DOT :: F) = Y.count COMMA := by
    rw [countOf_eq, List.count_append, List.count_cons]
    have : (DOT == COMMA) = false := by decide
    simp [this, count_eq_zero_of_not_mem hF.comma]
  have h3 : lastOf DOT (Y ++ DOT :: F) = Y.length := lastOf_split _ _ _ hF.dot
  have hcm : COMMA ∉ DOT :: F := by
    simp only [List.mem_cons, not_or]; exact ⟨ne_dot_comma.symm, hF.comma⟩
  have h4 : lastOf COMMA (Y ++ DOT :: F) = lastOf COMMA Y := lastOf_append_not_mem _ _ _ hcm
  have h5 : lastOf COMMA Y < Y.length := lastOf_lt _ _ (mem_of_count_pos hk)
  unfold normalizeMantissa
  simp only [h1, h2, h3, h4]
  have e0 : (Y.count COMMA == 0) = false := by rw [beq_eq_false_iff_ne]; omega
  have e1 : decide (lastOf COMMA Y > Y.length) = false := by rw [decide_eq_false_iff_not]; omega
  have e2 : decide (Y.length > lastOf COMMA Y) = true := by rw [decide_eq_true_eq]; omega
  have e3 : decide (Y.count COMMA > 0) = true := by rw [decide_eq_true_eq]; omega
  simp only [show ((1 : Nat) == 0) = false from rfl, Bool.false_and, Bool.false_eq_true, if_false, e0,
    Bool.and_false, show decide ((1 : Nat) > 1) = false from rfl, show ((1 : Nat) == 1) = true from rfl,
    show decide ((1 : Nat) > 0) = true from rfl, Bool.true_and, Bool.and_true, e1, e2, e3, if_true]
  have := rebuild_split Y F DOT (by decide) 0
  rw [Nat.zero_add] at this
  rw [this, hF.filter]

/-- groups written with '.' and a decimal ','. -/
theorem mantissa_dots_comma (Y F : Bytes) (hY : COMMA ∉ Y) (hk : Y.count DOT ≥ 1) (hF : NoMarks F) :
    normalizeMantissa (Y ++ COMMA :: F) = (Y.filter fun c => !isMark c) ++ DOT :: F := by
  have h1 : countOf COMMA (Y ++ COMMA :: F) = 1 := count_split _ _ _ hY hF.comma
  have h2 : countOf DOT (Y ++ COMMA :: F) = Y.count DOT := by
    rw [countOf_eq, List.count_append, List.count_cons]
    have : (COMMA == DOT) = false := by decide
    simp [this, count_eq_zero_of_not_mem hF.dot]
  have h3 : lastOf COMMA (Y ++ COMMA :: F) = Y.length := lastOf_split _ _ _ hF.comma
  have hcm : DOT ∉ COMMA :: F := by
    simp only [List.mem_cons, not_or]; exact ⟨ne_dot_comma, hF.dot⟩
  have h4 : lastOf DOT (Y ++ COMMA :: F) = lastOf DOT Y := lastOf_append_not_mem _ _ _ hcm
  have h5 : lastOf DOT Y < Y.length := lastOf_lt _ _ (mem_of_count_pos hk)
  unfold normalizeMantissa
  simp only [h1, h2, h3, h4]
  have e0 : (Y.count DOT == 0) = false := by rw [beq_eq_false_iff_ne]; omega
  have e2 : decide (Y.length > lastOf DOT Y) = true := by rw [decide_eq_true_eq]; omega
  have e3 : decide (Y.count DOT > 0) = true := by rw [decide_eq_true_eq]; omega
  simp only [show ((1 : Nat) == 0) = false from rfl, Bool.false_and, Bool.false_eq_true, if_false, e0,
    Bool.and_false, show decide ((1 : Nat) > 1) = false from rfl, show ((1 : Nat) == 1) = true from rfl,
    Bool.true_and, Bool.and_true, e2, e3, if_true]
  have := rebuild_split Y F COMMA (by decide) 0
  rw [Nat.zero_add] at this
  rw [this, hF.filter]

/-! ### `NewFromString` on canonical strings -/

theorem digitByte_val : ∀ d : G.Digit, (G.digitByte d).toNat - 48 = d.val := by decide

theorem parseNatAux_digits (ds : List G.Digit) (acc : Nat) :
    Dec.parseNatAux (G.digitsBytes ds) acc = some (ds.foldl (fun a d => a * 10 + d.val) acc) := by
  induction ds generalizing acc with
  | nil => rfl
  | cons d r ih =>
    simp only [G.digitsBytes, List.map_cons, Dec.parseNatAux, digitByte_isDigit d, if_true, digitByte_val d,
      List.foldl_cons]
    exact ih _

theorem parseNat_digits (ds : List G.Digit) (h : ds ≠ []) :
    Dec.parseNat (G.digitsBytes ds) = some (G.natOf ds) := by
  cases ds with
  | nil => exact absurd rfl h
  | cons d r =>
    unfold Dec.parseNat
    simp only [G.digitsBytes, List.map_cons]
    exact parseNatAux_digits (d :: r) 0

theorem digitsBytes_append (a b : List G.Digit) : G.digitsBytes (a ++ b) = G.digitsBytes a ++ G.digitsBytes b := by
  simp [G.digitsBytes]

theorem parseInt_digits (ds : List G.Digit) (h : ds ≠ []) :
    Dec.parseInt (G.digitsBytes ds) = some (G.natOf ds : Int) := by
  cases ds with
  | nil => exact absurd rfl h
  | cons d r =>
    have hd := digitByte_isDigit d
    have h1 : (G.digitByte d == 43) = false := by
      rw [beq_eq_false_iff_ne]; exact isDigit_ne hd (by decide)
    have h2 : (G.digitByte d == 45) = false := by
      rw [beq_eq_false_iff_ne]; exact isDigit_ne hd (by decide)
    have := parseNat_digits (d :: r) (by simp)
    simp only [G.digitsBytes, List.map_cons] at this
    simp only [G.digitsBytes, List.map_cons, Dec.parseInt, h1, h2, Bool.false_eq_true, if_false, this,
      Option.map_some, Int.ofNat_eq_natCast]

theorem parseInt_minus (ds : List G.Digit) (h : ds ≠ []) :
    Dec.parseInt (45 :: G.digitsBytes ds) = some (-(G.natOf ds : Int)) := by
  simp only [Dec.parseInt, show ((45 : UInt8) == 43) = false from by decide, Bool.false_eq_true, if_false,
    beq_self_eq_true, if_true, parseNat_digits ds h, Option.map_some, Int.ofNat_eq_natCast]

theorem parseInt_plus (ds : List G.Digit) (h : ds ≠ []) :
    Dec.parseInt (43 :: G.digitsBytes ds) = some (G.natOf ds : Int) := by
  simp only [Dec.parseInt, beq_self_eq_true, if_true, parseNat_digits ds h, Option.map_some,
    Int.ofNat_eq_natCast]

theorem splitAt1_none (p : UInt8 → Bool) (M : Bytes) (h : ∀ b ∈ M, p b = false) :
    Dec.splitAt1 p M = (M, none) := by
  induction M with
  | nil => rfl
  | cons x r ih =>
    have hx := h x (by simp)
    have hr := ih (fun b hb => h b (by simp [hb]))
    simp [Dec.splitAt1, hx, hr]

theorem splitAt1_some (p : UInt8 → Bool) (M : Bytes) (c : UInt8) (rest : Bytes)
    (h : ∀ b ∈ M, p b = false) (hc : p c = true) :
    Dec.splitAt1 p (M ++ c :: rest) = (M, some rest) := by
  induction M with
  | nil => simp [Dec.splitAt1, hc]
  | cons x r ih =>
    have hx := h x (by simp)
    have hr := ih (fun b hb => h b (by simp [hb]))
    simp [Dec.splitAt1, hx, hr]

theorem foldl_digits_shift (r : List G.Digit) (A : Nat) :
    r.foldl (fun acc (d : G.Digit) => acc * 10 + d.val) A =
      A * 10 ^ r.length + r.foldl (fun acc (d : G.Digit) => acc * 10 + d.val) 0 := by
  induction r generalizing A with
  | nil => simp
  | cons d r ih =>
    rw [List.foldl_cons, ih, List.foldl_cons, ih (0 * 10 + d.val)]
    simp only [List.length_cons, Nat.pow_succ]
    grind

theorem natOf_append (a b : List G.Digit) : G.natOf (a ++ b) = G.natOf a * 10 ^ b.length + G.natOf b := by
  unfold G.natOf
  rw [List.foldl_append, foldl_digits_shift]

def signBytes (neg : Bool) : Bytes := if neg then [MINUS] else []

theorem isE_digit {b : UInt8} (h : Dec.isDigit b = true) : Dec.isE b = false := by
  have h1 : b ≠ 69 := isDigit_ne h (by decide)
  have h2 : b ≠ 101 := isDigit_ne h (by decide)
  simp [Dec.isE, h1, h2]

theorem natOf_cons (d : G.Digit) (r : List G.Digit) : G.natOf (d :: r) = d.val * 10 ^ r.length + G.natOf r := by
  have := natOf_append [d] r
  simpa [G.natOf] using this

theorem expValue_some (e : G.Exponent) :
    G.expValue (some e) = (if e.sign = .minus then -(G.natOf e.digits : Int) else (G.natOf e.digits : Int)) := by
  unfold G.expValue
  cases hs : e.sign <;> simp [hs]

def expSignBytes (e : G.Exponent) : Bytes := match e.sign with | .none => [] | .plus => [43] | .minus => [45]

theorem renderExp_some (e : G.Exponent) :
    G.renderExp (some e) = (if e.upper then 69 else 101) :: (expSignBytes e ++ G.digitsBytes e.digits) := rfl

/-- the exponent part as `NewFromString` reads it. -/
theorem exp_parse (e : G.Exponent) (he : e.digits ≠ []) :
    Dec.parseInt (expSignBytes e ++ G.digitsBytes e.digits) = some (G.expValue (some e)) := by
  rw [expValue_some]
  unfold expSignBytes
  cases hs : e.sign with
  | none => simpa using parseInt_digits e.digits he
  | plus => simpa using parseInt_plus e.digits he
  | minus => simpa using parseInt_minus e.digits he

theorem parseExp_render (exp : Option G.Exponent)
    (hexp : ∀ e, exp = some e → e.digits ≠ [] ∧ G.natOf e.digits ≤ 2147483647) :
    Dec.parseExp (exp.map fun e => expSignBytes e ++ G.digitsBytes e.digits) = some (G.expValue exp) := by
  cases exp with
  | none => rfl
  | some e =>
    obtain ⟨h1, h2⟩ := hexp e rfl
    simp only [Option.map_some, Dec.parseExp, exp_parse e h1]
    have : ¬ (G.expValue (some e) < Dec.int32Min ∨ G.expValue (some e) > Dec.int32Max) := by
      rw [expValue_some]
      unfold Dec.int32Min Dec.int32Max
      split <;> omega
    simp [this]

def fracBytes (hasMark : Bool) (fs : List G.Digit) : Bytes := if hasMark then DOT :: G.digitsBytes fs else []

theorem ofMantissa_canon (neg : Bool) (ds fs : List G.Digit) (hasMark : Bool) (e0 : Int)
    (hds : ds ≠ []) (hm : hasMark = false → fs = [])
    (hlo : Dec.int32Min ≤ e0 - (fs.length : Int)) (hhi : e0 - (fs.length : Int) ≤ Dec.int32Max) :
    Dec.ofMantissa (signBytes neg ++ G.digitsBytes ds ++ fracBytes hasMark fs) e0 =
      some ⟨(if neg then -(G.natOf (ds ++ fs) : Int) else (G.natOf (ds ++ fs) : Int)), e0 - fs.length⟩ := by
  have hsignDot : ∀ b ∈ signBytes neg, (b == 46) = false := by
    intro b hb; unfold signBytes at hb
    cases neg <;> simp at hb
    subst hb; decide
  have hdig46 : ∀ ds' : List G.Digit, ∀ b ∈ G.digitsBytes ds', (b == 46) = false := by
    intro ds' b hb
    rw [beq_eq_false_iff_ne]; exact isDigit_ne (allDigits_digitsBytes ds' b hb) (by decide)
  have hX46 : ∀ b ∈ signBytes neg ++ G.digitsBytes ds, (b == 46) = false := by
    intro b hb
    rcases List.mem_append.1 hb with hb | hb
    · exact hsignDot b hb
    · exact hdig46 ds b hb
  have hcountX : (signBytes neg ++ G.digitsBytes ds).count 46 = 0 := by
    apply List.count_eq_zero_of_not_mem
    intro hm'; have := hX46 46 hm'; simp at this
  have hcountF : (G.digitsBytes fs).count 46 = 0 := by
    apply List.count_eq_zero_of_not_mem
    intro hm'; have := hdig46 fs 46 hm'; simp at this
  have hparse : Dec.parseInt (signBytes neg ++ G.digitsBytes ds ++ G.digitsBytes fs) =
      some (if neg then -(G.natOf (ds ++ fs) : Int) else (G.natOf (ds ++ fs) : Int)) := by
    rw [List.append_assoc, ← digitsBytes_append]
    have hne : ds ++ fs ≠ [] := by simp [hds]
    cases neg with
    | true => simpa [signBytes, MINUS] using parseInt_minus (ds ++ fs) hne
    | false => simpa [signBytes] using parseInt_digits (ds ++ fs) hne
  have hr : ¬ (e0 - (fs.length : Int) < Dec.int32Min ∨ e0 - (fs.length : Int) > Dec.int32Max) := by
    omega
  unfold Dec.ofMantissa fracBytes
  cases hasMark with
  | false =>
    have hfs := hm rfl
    subst hfs
    simp only [Bool.false_eq_true, if_false, List.append_nil]
    have hc : ¬ (signBytes neg ++ G.digitsBytes ds).count 46 > 1 := by rw [hcountX]; omega
    simp only [hc, if_false]
    rw [splitAt1_none _ _ hX46]
    simp only [Option.getD_none, List.append_nil, List.length_nil]
    have := hparse
    simp only [G.digitsBytes, List.map_nil, List.append_nil] at this
    simp only [G.digitsBytes] at hr ⊢
    rw [this]
    simp only [List.length_nil, Int.natCast_zero, Int.sub_zero] at hr ⊢
    simp [hr]
  | true =>
    simp only [if_true]
    have hc : ¬ (signBytes neg ++ G.digitsBytes ds ++ DOT :: G.digitsBytes fs).count 46 > 1 := by
      rw [List.count_append, hcountX, List.count_cons, hcountF]
      simp [DOT]
    simp only [hc, if_false]
    rw [splitAt1_some _ _ DOT _ hX46 (by decide)]
    simp only [Option.getD_some]
    rw [hparse]
    have hl : (G.digitsBytes fs).length = fs.length := by simp [G.digitsBytes]
    rw [hl]
    simp [hr]

theorem ofString_canon (neg : Bool) (ds fs : List G.Digit) (hasMark : Bool) (exp : Option G.Exponent)
    (hds : ds ≠ []) (hm : hasMark = false → fs = [])
    (hexp : ∀ e, exp = some e → e.digits ≠ [] ∧ G.natOf e.digits ≤ 2147483647)
    (hlo : Dec.int32Min ≤ G.expValue exp - (fs.length : Int)) (hhi : G.expValue exp - (fs.length : Int) ≤ Dec.int32Max) :
    Dec.ofString (signBytes neg ++ G.digitsBytes ds ++ fracBytes hasMark fs ++ G.renderExp exp) =
      some ⟨(if neg then -(G.natOf (ds ++ fs) : Int) else (G.natOf (ds ++ fs) : Int)), G.expValue exp - fs.length⟩ := by
  have hD := allDigits_digitsBytes ds
  have hF := allDigits_digitsBytes fs
  have hsignE : ∀ b ∈ signBytes neg, Dec.isE b = false := by
    intro b hb; unfold signBytes at hb
    cases neg <;> simp at hb
    subst hb; decide
  have hME : ∀ b ∈ signBytes neg ++ G.digitsBytes ds ++ fracBytes hasMark fs, Dec.isE b = false := by
    intro b hb
    simp only [List.mem_append] at hb
    rcases hb with (hb | hb) | hb
    · exact hsignE b hb
    · exact isE_digit (hD b hb)
    · unfold fracBytes at hb
      cases hasMark with
      | false => simp at hb
      | true =>
        simp only [if_true, List.mem_cons] at hb
        rcases hb with hb | hb
        · subst hb; decide
        · exact isE_digit (hF b hb)
  have hsplit : Dec.splitAt1 Dec.isE (signBytes neg ++ G.digitsBytes ds ++ fracBytes hasMark fs ++ G.renderExp exp) =
      (signBytes neg ++ G.digitsBytes ds ++ fracBytes hasMark fs,
       exp.map fun e => expSignBytes e ++ G.digitsBytes e.digits) := by
    cases exp with
    | none => simpa [G.renderExp] using splitAt1_none _ _ hME
    | some e =>
      rw [renderExp_some]
      simp only [Option.map_some]
      apply splitAt1_some _ _ _ _ hME
      cases e.upper <;> decide
  unfold Dec.ofString
  rw [hsplit]
  simp only
  rw [parseExp_render exp hexp]
  simp only
  exact ofMantissa_canon neg ds fs hasMark _ hds hm hlo hhi

/-! ### the value of a canonical decimal -/

theorem toRat_canon (neg : Bool) (ds fs : List G.Digit) (e0 : Int) :
    Dec.toRat ⟨(if neg then -(G.natOf (ds ++ fs) : Int) else (G.natOf (ds ++ fs) : Int)), e0 - fs.length⟩ =
      (if neg then -(((G.natOf ds : Rat) + (G.natOf fs : Rat) / (10 : Rat) ^ fs.length) * (10 : Rat) ^ e0)
       else ((G.natOf ds : Rat) + (G.natOf fs : Rat) / (10 : Rat) ^ fs.length) * (10 : Rat) ^ e0) := by
  have hP : (10 : Rat) ^ fs.length ≠ 0 := by
    have := Dec.pow10_ne_zero (fs.length : Int)
    rwa [Rat.zpow_natCast] at this
  have hpow : (10 : Rat) ^ (e0 - (fs.length : Int)) = (10 : Rat) ^ e0 * ((10 : Rat) ^ fs.length)⁻¹ := by
    rw [Int.sub_eq_add_neg, Rat.zpow_add Dec.ten_ne_zero, Rat.zpow_neg, Rat.zpow_natCast]
  have hN : ((G.natOf (ds ++ fs) : Int) : Rat) = (G.natOf ds : Rat) * (10 : Rat) ^ fs.length + (G.natOf fs : Rat) := by
    rw [natOf_append, Rat.intCast_natCast, Rat.natCast_add, Rat.natCast_mul, Rat.natCast_pow]
    rfl
  unfold Dec.toRat
  simp only [hpow]
  cases neg with
  | true =>
    simp only [if_true, Rat.intCast_neg, hN]
    grind
  | false =>
    simp only [Bool.false_eq_true, if_false, hN]
    grind

/-! ### the integer part as rendered -/

theorem renderInt_filter (g : UInt8) (ds : List G.Digit) (hg : Dec.isDigit g = false) :
    (G.renderInt (some g) ds).filter (fun c => c != g) = G.digitsBytes ds := by
  unfold G.renderInt
  simp only
  rw [List.filter_reverse, filter_groupRev g _ ((allDigits_digitsBytes ds).reverse.not_mem hg), List.reverse_reverse]

theorem renderInt_mem (g x : UInt8) (ds : List G.Digit) (h : x ∈ G.renderInt (some g) ds) :
    x ∈ G.digitsBytes ds ∨ x = g := by
  unfold G.renderInt at h
  simp only [List.mem_reverse] at h
  rcases mem_groupRev g x _ h with h' | h'
  · exact Or.inl (List.mem_reverse.1 h')
  · exact Or.inr h'

theorem renderInt_short (g : UInt8) (ds : List G.Digit) (h : ds.length ≤ 3) :
    G.renderInt (some g) ds = G.digitsBytes ds := by
  unfold G.renderInt
  simp only
  rw [groupRev_short g _ (by simp [G.digitsBytes]; exact h), List.reverse_reverse]

theorem renderInt_long (g : UInt8) (ds : List G.Digit) (h : ds.length > 3) :
    ∃ a b c t, t ≠ [] ∧ G.digitsBytes ds = t.reverse ++ [c, b, a] ∧
      G.renderInt (some g) ds = (G.groupRev g t).reverse ++ g :: [c, b, a] := by
  have hl : (G.digitsBytes ds).reverse.length > 3 := by simp [G.digitsBytes]; exact h
  match hR : (G.digitsBytes ds).reverse, hl with
  | a :: b :: c :: x :: r, _ =>
    refine ⟨a, b, c, x :: r, by simp, ?_, ?_⟩
    · have := congrArg List.reverse hR
      rw [List.reverse_reverse] at this
      rw [this]; simp
    · unfold G.renderInt
      simp only
      rw [hR, groupRev_long g a b c (x :: r) (by simp)]
      simp

theorem stripBlanks_eq_self (s : Bytes) (h : SPACE ∉ s) : stripBlanks s = s :=
  filter_ne_self SPACE s h

theorem stripBlanks_append (a b : Bytes) : stripBlanks (a ++ b) = stripBlanks a ++ stripBlanks b := by
  unfold stripBlanks; rw [List.filter_append]

theorem splitExp_append (M R : Bytes) (hM : ∀ b ∈ M, isE b = false)
    (hR : R = [] ∨ ∃ c r, R = c :: r ∧ isE c = true) : splitExp (M ++ R) = (M, R) := by
  induction M with
  | nil =>
    rcases hR with h | ⟨c, r, h, hc⟩
    · subst h; rfl
    · subst h; simp [splitExp, hc]
  | cons x r ih =>
    have hx := hM x (by simp)
    have hr := ih (fun b hb => hM b (by simp [hb]))
    simp [splitExp, hx, hr]

/-! ### non-zero test -/

theorem natOf_eq_zero (ds : List G.Digit) (h : G.natOf ds = 0) : ∀ d ∈ ds, d.val = 0 := by
  induction ds with
  | nil => intro d hd; cases hd
  | cons x r ih =>
    rw [natOf_cons] at h
    have hp : 0 < 10 ^ r.length := Nat.pow_pos (by omega)
    have hx : x.val = 0 := by
      rcases Nat.eq_zero_or_pos x.val with e | e
      · exact e
      · have : 0 < x.val * 10 ^ r.length := Nat.mul_pos e hp
        omega
    have hr : G.natOf r = 0 := by omega
    intro d hd
    rcases List.mem_cons.1 hd with e | e
    · subst e; exact hx
    · exact ih hr d e

theorem digitByte_zero : ∀ d : G.Digit, d.val = 0 → G.digitByte d = 48 := by decide
theorem digitByte_nonzero : ∀ d : G.Digit, d ≠ 0 → G.digitByte d ≠ 48 := by decide

theorem hasNZ_false_of_zero (neg : Bool) (ds : List G.Digit) (h : G.natOf ds = 0) :
    hasNZ (signBytes neg ++ G.digitsBytes ds) = false := by
  unfold hasNZ
  rw [List.any_eq_false]
  intro x hx
  rcases List.mem_append.1 hx with hx | hx
  · unfold signBytes at hx
    cases neg <;> simp at hx
    subst hx; decide
  · unfold G.digitsBytes at hx
    obtain ⟨d, hd, rfl⟩ := List.mem_map.1 hx
    rw [digitByte_zero d (natOf_eq_zero ds h d hd)]
    decide

theorem hasNZ_of_mem (X : Bytes) (b : UInt8) (hb : b ∈ X) (hd : Dec.isDigit b = true) (h0 : b ≠ 48) :
    hasNZ X = true := by
  unfold hasNZ
  rw [List.any_eq_true]
  refine ⟨b, hb, ?_⟩
  have h1 : b ≠ 45 := isDigit_ne hd (by decide)
  simp [ZERO, MINUS, h0, h1]

theorem noMarks_sign (neg : Bool) : NoMarks (signBytes neg) := by
  intro b hb; unfold signBytes at hb
  cases neg <;> simp at hb
  subst hb; decide

/-! ### `normalizeMantissa` on rendered mantissas -/

theorem mantissa_soft (neg : Bool) (ds fs : List G.Digit) (mark : Option UInt8)
    (hmark : match mark with | none => fs = [] | some m => m = 46 ∨ m = 44)
    (hA : mark.isSome = true → fs.length = 3 → G.natOf ds = 0) :
    normalizeMantissa (signBytes neg ++ G.digitsBytes ds ++ G.renderFrac mark fs) =
      signBytes neg ++ G.digitsBytes ds ++ fracBytes mark.isSome fs := by
  have hX : NoMarks (signBytes neg ++ G.digitsBytes ds) :=
    (noMarks_sign neg).append (allDigits_digitsBytes ds).noMarks
  have hF : NoMarks (G.digitsBytes fs) := (allDigits_digitsBytes fs).noMarks
  cases mark with
  | none =>
    simp only at hmark
    subst hmark
    simp only [G.renderFrac, fracBytes, Option.isSome_none, Bool.false_eq_true, if_false, List.append_nil]
    exact mantissa_plain _ hX
  | some m =>
    simp only at hmark
    have hc : ¬ ((signBytes neg ++ G.digitsBytes ds).length ≥ 1 ∧ (G.digitsBytes fs).length = 3 ∧
        hasNZ (signBytes neg ++ G.digitsBytes ds) = true) := by
      rintro ⟨_, h3, hnz⟩
      have h3' : fs.length = 3 := by simpa [G.digitsBytes] using h3
      rw [hasNZ_false_of_zero neg ds (hA rfl h3')] at hnz
      cases hnz
    simp only [G.renderFrac, fracBytes, Option.isSome_some, if_true]
    rcases hmark with e | e
    · subst e; exact mantissa_dot_decimal _ _ hX hF hc
    · subst e; exact mantissa_comma_decimal _ _ hX hF hc

theorem filter_noMark_renderInt (g : UInt8) (ds : List G.Digit) (hg : g = 44 ∨ g = 46) :
    (G.renderInt (some g) ds).filter (fun c => !isMark c) = G.digitsBytes ds := by
  have hgd : Dec.isDigit g = false := by rcases hg with e | e <;> subst e <;> decide
  rw [← renderInt_filter g ds hgd]
  apply List.filter_congr
  intro x hx
  rcases renderInt_mem g x ds hx with h | h
  · have hd := allDigits_digitsBytes ds x h
    have : x ≠ g := isDigit_ne hd hgd
    have hm := (allDigits_digitsBytes ds).noMarks x h
    simp [hm, this]
  · subst h
    rcases hg with e | e <;> subst e <;> decide

theorem mantissa_hard (neg : Bool) (ds fs : List G.Digit) (g : UInt8) (mark : Option UInt8)
    (hg : g = 44 ∨ g = 46) (hlen : ds.length > 3) (hhead : ds.head? ≠ some 0)
    (hmark : match mark with | none => fs = [] | some m => (m = 46 ∨ m = 44) ∧ m ≠ g) :
    normalizeMantissa (signBytes neg ++ G.renderInt (some g) ds ++ G.renderFrac mark fs) =
      signBytes neg ++ G.digitsBytes ds ++ fracBytes mark.isSome fs := by
  have hgd : Dec.isDigit g = false := by rcases hg with e | e <;> subst e <;> decide
  have hF : NoMarks (G.digitsBytes fs) := (allDigits_digitsBytes fs).noMarks
  obtain ⟨a, b, c, t, ht, hD, hI⟩ := renderInt_long g ds hlen
  have hgI : g ∈ G.renderInt (some g) ds := by rw [hI]; simp
  have hDall := allDigits_digitsBytes ds
  have htall : AllDigits t.reverse := fun x hx => hDall x (by rw [hD]; simp [hx])
  have hLall : AllDigits [c, b, a] := fun x hx => hDall x (by rw [hD]; simp only [List.mem_append, List.mem_reverse]; exact Or.inr hx)
  -- bytes of the rendered integer part
  have hmemI : ∀ x ∈ G.renderInt (some g) ds, Dec.isDigit x = true ∨ x = g := by
    intro x hx
    rcases renderInt_mem g x ds hx with h | h
    · exact Or.inl (hDall x h)
    · exact Or.inr h
  cases mark with
  | none =>
    simp only at hmark
    subst hmark
    simp only [G.renderFrac, fracBytes, Option.isSome_none, Bool.false_eq_true, if_false, List.append_nil]
    by_cases hcnt : (G.groupRev g t).count g = 0
    · -- exactly one group mark
      have hnot : g ∉ G.groupRev g t := fun hm => by
        have := List.count_pos_iff.2 hm; omega
      have hgt : G.groupRev g t = t := by
        have h1 := filter_groupRev g t (fun hm => htall.not_mem hgd (List.mem_reverse.2 hm))
        rw [filter_ne_self g _ hnot] at h1
        exact h1
      rw [hI, hgt, hD]
      have hXm : NoMarks (signBytes neg ++ t.reverse) := (noMarks_sign neg).append htall.noMarks
      have hlen1 : (signBytes neg ++ t.reverse).length ≥ 1 := by
        cases t with
        | nil => exact absurd rfl ht
        | cons x r => simp; omega
      -- leading digit is not 0
      have hnz : hasNZ (signBytes neg ++ t.reverse) = true := by
        cases ds with
        | nil => simp at hlen
        | cons d r =>
          have hd0 : d ≠ 0 := fun e => hhead (by simp [e])
          have hb : G.digitByte d ∈ t.reverse := by
            have h1 : (G.digitsBytes (d :: r)).head? = some (G.digitByte d) := by simp [G.digitsBytes]
            rw [hD] at h1
            cases htr : t.reverse with
            | nil => simp at htr; exact absurd htr ht
            | cons y ys =>
              rw [htr] at h1
              simp at h1
              rw [← h1]; simp
          exact hasNZ_of_mem _ _ (List.mem_append_right _ hb) (digitByte_isDigit d) (digitByte_nonzero d hd0)
      have hL3 : [c, b, a].length = 3 := rfl
      rcases hg with e | e
      · subst e
        have := mantissa_comma_group (signBytes neg ++ t.reverse) [c, b, a] hXm hLall.noMarks hlen1 hL3 hnz
        simp only [List.append_assoc] at this ⊢
        exact this
      · subst e
        have := mantissa_dot_group (signBytes neg ++ t.reverse) [c, b, a] hXm hLall.noMarks hlen1 hL3 hnz
        simp only [List.append_assoc] at this ⊢
        exact this
    · -- two or more group marks: removeSeparator
      have hcntI : (signBytes neg ++ G.renderInt (some g) ds).count g ≥ 2 := by
        rw [List.count_append, hI, List.count_append, List.count_reverse, List.count_cons_self]
        omega
      have hother : ∀ m : UInt8, isMark m = true → m ≠ g → m ∉ signBytes neg ++ G.renderInt (some g) ds := by
        intro m hm hne hmem
        rcases List.mem_append.1 hmem with h | h
        · have := noMarks_sign neg m h; rw [hm] at this; cases this
        · rcases hmemI m h with h' | h'
          · have := (fun (hh : Dec.isDigit m = true) => (AllDigits.noMarks (s := [m]) (by intro x hx; simp at hx; subst hx; exact hh)) m (by simp)) h'
            rw [hm] at this; cases this
          · exact hne h'
      have hres : removeSeparator (signBytes neg ++ G.renderInt (some g) ds) g = signBytes neg ++ G.digitsBytes ds := by
        unfold removeSeparator
        rw [List.filter_append, renderInt_filter g ds hgd]
        congr 1
        apply filter_ne_self
        intro hm
        unfold signBytes at hm
        cases neg <;> simp at hm
        rcases hg with e | e <;> subst e <;> simp [MINUS] at hm
      rcases hg with e | e
      · subst e
        rw [mantissa_commas _ hcntI (hother DOT (by decide) (by decide))]
        exact hres
      · subst e
        rw [mantissa_dots _ hcntI (hother COMMA (by decide) (by decide))]
        exact hres
  | some m =>
    simp only at hmark
    obtain ⟨hm, hmg⟩ := hmark
    simp only [G.renderFrac, fracBytes, Option.isSome_some, if_true]
    have hcntY : (signBytes neg ++ G.renderInt (some g) ds).count g ≥ 1 := by
      have : g ∈ signBytes neg ++ G.renderInt (some g) ds := List.mem_append_right _ hgI
      have := List.count_pos_iff.2 this
      omega
    have hmY : m ∉ signBytes neg ++ G.renderInt (some g) ds := by
      intro hmem
      have hmm : isMark m = true := by rcases hm with e | e <;> subst e <;> decide
      rcases List.mem_append.1 hmem with h | h
      · have := noMarks_sign neg m h; rw [hmm] at this; cases this
      · rcases hmemI m h with h' | h'
        · have hd46 : Dec.isDigit (46 : UInt8) = false := by decide
          have hd44 : Dec.isDigit (44 : UInt8) = false := by decide
          rcases hm with e | e <;> subst e
          · rw [hd46] at h'; cases h'
          · rw [hd44] at h'; cases h'
        · exact hmg h'
    have hfilt : (signBytes neg ++ G.renderInt (some g) ds).filter (fun c => !isMark c) =
        signBytes neg ++ G.digitsBytes ds := by
      rw [List.filter_append, (noMarks_sign neg).filter, filter_noMark_renderInt g ds hg]
    rcases hg with e | e
    · subst e
      have hm46 : m = 46 := by
        rcases hm with e | e
        · exact e
        · exact absurd e hmg
      subst hm46
      have := mantissa_commas_dot (signBytes neg ++ G.renderInt (some 44) ds) (G.digitsBytes fs) hmY hcntY hF
      rw [hfilt] at this
      exact this
    · subst e
      have hm44 : m = 44 := by
        rcases hm with e | e
        · exact absurd e hmg
        · exact e
      subst hm44
      have := mantissa_dots_comma (signBytes neg ++ G.renderInt (some 46) ds) (G.digitsBytes fs) hmY hcntY hF
      rw [hfilt] at this
      exact this

/-! ### from the rendered token to the canonical string -/

theorem mem_signBytes {neg : Bool} {b : UInt8} (h : b ∈ signBytes neg) : b = 45 := by
  unfold signBytes at h
  cases neg <;> simp at h
  exact h

/-- the string `NewFromString` receives for a well-formed notation. -/
def canon (n : G.Number) : Bytes :=
  signBytes n.neg ++ G.digitsBytes n.intDigits ++ fracBytes n.mark.isSome n.frac ++ G.renderExp n.exp

theorem prepare_render (n : G.Number) (hwf : G.wf n = true) (hA : G.shapeA n = false) :
    prepare n.neg (G.render n) = canon n := by
  simp only [G.wf, Bool.and_eq_true, decide_eq_true_eq] at hwf
  obtain ⟨⟨⟨⟨⟨⟨⟨w1, w2⟩, w3⟩, w4⟩, w5⟩, w6⟩, _⟩, _⟩ := hwf
  have hDall := allDigits_digitsBytes n.intDigits
  have hFall := allDigits_digitsBytes n.frac
  have hDne : G.digitsBytes n.intDigits ≠ [] := by
    cases hd : n.intDigits with
    | nil => exact absurd hd w1
    | cons d r => simp [G.digitsBytes]
  -- the group mark, when present
  have hgroup : ∀ g, n.group = some g → g = 44 ∨ g = 46 ∨ g = 32 := by
    intro g hg; rw [hg] at w2; simpa [or_assoc] using w2
  have hgnd : ∀ g, n.group = some g → Dec.isDigit g = false := by
    intro g hg
    rcases hgroup g hg with e | e | e <;> subst e <;> decide
  have hmarkv : ∀ m, n.mark = some m → m = 46 ∨ m = 44 := by
    intro m hm; rw [hm] at w3; simpa using w3
  -- members of the rendered integer part
  have hmemI : ∀ x ∈ G.renderInt n.group n.intDigits, Dec.isDigit x = true ∨ x = 44 ∨ x = 46 ∨ x = 32 := by
    intro x hx
    cases hg : n.group with
    | none => rw [hg] at hx; exact Or.inl (hDall x hx)
    | some g =>
      rw [hg] at hx
      rcases renderInt_mem g x _ hx with h | h
      · exact Or.inl (hDall x h)
      · subst h; exact Or.inr (hgroup x hg)
  have hIne : G.renderInt n.group n.intDigits ≠ [] := by
    cases hg : n.group with
    | none => exact hDne
    | some g =>
      intro e
      have := renderInt_filter g n.intDigits (hgnd g hg)
      rw [e] at this
      exact hDne this.symm
  -- members of the fraction and exponent parts
  have hmemF : ∀ x ∈ G.renderFrac n.mark n.frac, Dec.isDigit x = true ∨ x = 44 ∨ x = 46 := by
    intro x hx
    cases hm : n.mark with
    | none => rw [hm] at hx; cases hx
    | some m =>
      rw [hm] at hx
      simp only [G.renderFrac, List.mem_cons] at hx
      rcases hx with h | h
      · subst h; rcases hmarkv x hm with e | e <;> simp [e]
      · exact Or.inl (hFall x h)
  have hmemE : ∀ x ∈ G.renderExp n.exp, x ≠ 32 := by
    intro x hx
    cases he : n.exp with
    | none => rw [he] at hx; cases hx
    | some e =>
      rw [he, renderExp_some] at hx
      simp only [List.mem_cons, List.mem_append] at hx
      rcases hx with h | h | h
      · subst h; cases e.upper <;> decide
      · unfold expSignBytes at h
        cases hs : e.sign with
        | none => rw [hs] at h; cases h
        | plus => rw [hs] at h; simp at h; subst h; decide
        | minus => rw [hs] at h; simp at h; subst h; decide
      · exact isDigit_ne (allDigits_digitsBytes e.digits x h) (by decide)
  -- (1) the sign
  have hsigned : signed n.neg (G.render n) = signBytes n.neg ++ G.render n := by
    have hhead : (G.render n).head? ≠ some MINUS := by
      unfold G.render
      cases hI : G.renderInt n.group n.intDigits with
      | nil => exact absurd hI hIne
      | cons y ys =>
        simp only [List.cons_append, List.head?_cons, ne_eq, Option.some.injEq]
        intro e
        have := hmemI y (by rw [hI]; simp)
        rw [e] at this
        rcases this with h | h | h | h
        · exact absurd h (by decide)
        · exact absurd h (by decide)
        · exact absurd h (by decide)
        · exact absurd h (by decide)
    unfold signed signBytes
    cases n.neg with
    | false => simp
    | true =>
      have : ((G.render n).head? != some MINUS) = true := by
        simp only [bne_iff_ne, ne_eq]; exact hhead
      simp [this]
  -- (2) blanks
  have hstripF : stripBlanks (G.renderFrac n.mark n.frac) = G.renderFrac n.mark n.frac := by
    apply stripBlanks_eq_self
    intro hm
    rcases hmemF SPACE hm with h | h | h
    · exact absurd h (by decide)
    · exact absurd h (by decide)
    · exact absurd h (by decide)
  have hstripE : stripBlanks (G.renderExp n.exp) = G.renderExp n.exp := by
    apply stripBlanks_eq_self
    intro hm
    exact hmemE SPACE hm rfl
  have hstripS : stripBlanks (signBytes n.neg) = signBytes n.neg := by
    apply stripBlanks_eq_self
    intro hm
    exact absurd (mem_signBytes hm) (by decide)
  have hstrip : stripBlanks (signBytes n.neg ++ G.render n) =
      (signBytes n.neg ++ stripBlanks (G.renderInt n.group n.intDigits) ++ G.renderFrac n.mark n.frac) ++ G.renderExp n.exp := by
    unfold G.render
    simp only [stripBlanks_append, hstripF, hstripE, hstripS, List.append_assoc]
  -- (3) the exponent is split off
  have hmemI' : ∀ x ∈ stripBlanks (G.renderInt n.group n.intDigits), Dec.isDigit x = true ∨ x = 44 ∨ x = 46 := by
    intro x hx
    unfold stripBlanks at hx
    obtain ⟨h1, h2⟩ := List.mem_filter.1 hx
    rcases hmemI x h1 with h | h | h | h
    · exact Or.inl h
    · exact Or.inr (Or.inl h)
    · exact Or.inr (Or.inr h)
    · subst h; simp [SPACE] at h2
  have hisE : ∀ x, (Dec.isDigit x = true ∨ x = 44 ∨ x = 46) → isE x = false := by
    intro x hx
    rcases hx with h | h | h
    · have h1 : x ≠ 69 := isDigit_ne h (by decide)
      have h2 : x ≠ 101 := isDigit_ne h (by decide)
      simp [isE, h1, h2]
    · subst h; decide
    · subst h; decide
  have hME : ∀ b ∈ signBytes n.neg ++ stripBlanks (G.renderInt n.group n.intDigits) ++ G.renderFrac n.mark n.frac,
      isE b = false := by
    intro b hb
    simp only [List.mem_append] at hb
    rcases hb with (hb | hb) | hb
    · rw [mem_signBytes hb]; decide
    · exact hisE b (hmemI' b hb)
    · exact hisE b (hmemF b hb)
  have hER : G.renderExp n.exp = [] ∨ ∃ c r, G.renderExp n.exp = c :: r ∧ isE c = true := by
    cases he : n.exp with
    | none => exact Or.inl rfl
    | some e =>
      right
      rw [renderExp_some]
      exact ⟨_, _, rfl, by cases e.upper <;> decide⟩
  -- (4) the mantissa
  have hshape : n.mark.isSome = true → G.hardGrouped n = false → n.frac.length = 3 → G.natOf n.intDigits = 0 := by
    intro hm hh h3
    unfold G.shapeA at hA
    rw [hh, hm] at hA
    simp only [Bool.not_false, Bool.true_and, h3, beq_self_eq_true] at hA
    simpa using hA
  have hmarkSoft : match n.mark with | none => n.frac = [] | some m => m = 46 ∨ m = 44 := by
    cases hm : n.mark with
    | none => rw [hm] at w3; simpa using w3
    | some m => exact hmarkv m hm
  have hmant : normalizeMantissa (signBytes n.neg ++ stripBlanks (G.renderInt n.group n.intDigits) ++ G.renderFrac n.mark n.frac) =
      signBytes n.neg ++ G.digitsBytes n.intDigits ++ fracBytes n.mark.isSome n.frac := by
    cases hg : n.group with
    | none =>
      have hI : stripBlanks (G.renderInt none n.intDigits) = G.digitsBytes n.intDigits :=
        stripBlanks_eq_self _ (hDall.not_mem (by decide))
      rw [hI]
      apply mantissa_soft _ _ _ _ hmarkSoft
      intro hm h3
      exact hshape hm (by simp [G.hardGrouped, G.grouped, hg]) h3
    | some g =>
      by_cases hlen : n.intDigits.length ≤ 3
      · have hI : stripBlanks (G.renderInt (some g) n.intDigits) = G.digitsBytes n.intDigits := by
          rw [renderInt_short g _ hlen]
          exact stripBlanks_eq_self _ (hDall.not_mem (by decide))
        rw [hI]
        apply mantissa_soft _ _ _ _ hmarkSoft
        intro hm h3
        have : ¬ n.intDigits.length > 3 := by omega
        exact hshape hm (by simp [G.hardGrouped, G.grouped, hg, this]) h3
      · have hlen' : n.intDigits.length > 3 := by omega
        rcases hgroup g hg with e | e | e
        · -- ','
          have hI : stripBlanks (G.renderInt (some g) n.intDigits) = G.renderInt (some g) n.intDigits := by
            apply stripBlanks_eq_self
            intro hm
            rcases renderInt_mem g SPACE _ hm with h | h
            · exact absurd (hDall SPACE h) (by decide)
            · rw [e] at h; exact absurd h (by decide)
          rw [hI]
          apply mantissa_hard _ _ _ g _ (Or.inl e) hlen'
          · have : G.grouped n = true := by simp [G.grouped, hg, hlen']
            rw [this] at w5; simpa using w5
          · cases hm : n.mark with
            | none => rw [hm] at w3; simpa using w3
            | some m =>
              refine ⟨hmarkv m hm, ?_⟩
              rw [hg, hm] at w4
              intro e'; subst e'; simp at w4
        · -- '.'
          have hI : stripBlanks (G.renderInt (some g) n.intDigits) = G.renderInt (some g) n.intDigits := by
            apply stripBlanks_eq_self
            intro hm
            rcases renderInt_mem g SPACE _ hm with h | h
            · exact absurd (hDall SPACE h) (by decide)
            · rw [e] at h; exact absurd h (by decide)
          rw [hI]
          apply mantissa_hard _ _ _ g _ (Or.inr e) hlen'
          · have : G.grouped n = true := by simp [G.grouped, hg, hlen']
            rw [this] at w5; simpa using w5
          · cases hm : n.mark with
            | none => rw [hm] at w3; simpa using w3
            | some m =>
              refine ⟨hmarkv m hm, ?_⟩
              rw [hg, hm] at w4
              intro e'; subst e'; simp at w4
        · -- ' '
          subst e
          have hI : stripBlanks (G.renderInt (some 32) n.intDigits) = G.digitsBytes n.intDigits :=
            renderInt_filter 32 n.intDigits (by decide)
          rw [hI]
          apply mantissa_soft _ _ _ _ hmarkSoft
          intro hm h3
          exact hshape hm (by simp [G.hardGrouped, hg]) h3
  unfold prepare normalizeNumber canon
  rw [hsigned, hstrip, splitExp_append _ _ hME hER]
  simp only
  rw [hmant]

end Num
end HL
