import HL.Model.Num
import HL.Spec.Number
import HL.Lemmas.Dec

/-! Lemmas for `normalize_value`: the scanning loops of `normalizeMantissa`, digit grouping,
    `NewFromString` on canonical digit strings, and the arithmetic of `G.value`. -/
namespace HL
namespace Num

/-! ### the counting loop -/

theorem scan_append (c : UInt8) (X Y : Bytes) (i : Nat) (acc : Nat × Nat) :
    scan c (X ++ Y) i acc = scan c Y (i + X.length) (scan c X i acc) := by
  induction X generalizing i acc with
  | nil => simp [scan]
  | cons x r ih =>
    obtain ⟨cnt, last⟩ := acc
    simp only [List.cons_append, scan, List.length_cons]
    split
    · rw [ih]; congr 1; omega
    · rw [ih]; congr 1; omega

theorem scan_not_mem (c : UInt8) (Y : Bytes) (i : Nat) (acc : Nat × Nat) (h : c ∉ Y) :
    scan c Y i acc = acc := by
  induction Y generalizing i acc with
  | nil => obtain ⟨a, b⟩ := acc; simp [scan]
  | cons x r ih =>
    obtain ⟨cnt, last⟩ := acc
    simp only [List.mem_cons, not_or] at h
    have hx : (x == c) = false := by
      simp only [beq_eq_false_iff_ne, ne_eq]
      exact fun e => h.1 e.symm
    simp only [scan, hx, Bool.false_eq_true, if_false]
    exact ih _ _ h.2

theorem scan_fst (c : UInt8) (s : Bytes) (i cnt last : Nat) :
    (scan c s i (cnt, last)).1 = cnt + s.count c := by
  induction s generalizing i cnt last with
  | nil => simp [scan]
  | cons x r ih =>
    simp only [scan, List.count_cons]
    by_cases hx : (x == c) = true
    · simp only [hx, if_true]; rw [ih]; omega
    · simp only [hx, Bool.false_eq_true, if_false]; rw [ih]; omega

theorem countOf_eq (c : UInt8) (s : Bytes) : countOf c s = s.count c := by
  unfold countOf; rw [scan_fst]; omega

theorem scan_split (c : UInt8) (A B : Bytes) (i cnt last : Nat) (h : c ∉ B) :
    scan c (A ++ c :: B) i (cnt, last) = (cnt + A.count c + 1, i + A.length) := by
  rw [scan_append]
  simp only [scan, beq_self_eq_true, if_true]
  rw [scan_not_mem c B _ _ h]
  have := scan_fst c A i cnt last
  rw [this]

theorem lastOf_split (c : UInt8) (A B : Bytes) (h : c ∉ B) : lastOf c (A ++ c :: B) = A.length := by
  unfold lastOf; rw [scan_split c A B 0 0 0 h]; simp

/-- the last index found lies inside the string. -/
theorem scan_snd_lt (c : UInt8) (s : Bytes) (i cnt last : Nat) (h : c ∈ s) :
    (scan c s i (cnt, last)).2 < i + s.length := by
  induction s generalizing i cnt last with
  | nil => cases h
  | cons x r ih =>
    simp only [scan, List.length_cons]
    by_cases hx : (x == c) = true
    · simp only [hx, if_true]
      by_cases hr : c ∈ r
      · have := ih (i + 1) (cnt + 1) i hr; omega
      · rw [scan_not_mem c r _ _ hr]; simp only; omega
    · simp only [hx, Bool.false_eq_true, if_false]
      have hr : c ∈ r := by
        rcases List.mem_cons.1 h with e | e
        · subst e; simp at hx
        · exact e
      have := ih (i + 1) cnt last hr; omega

theorem lastOf_lt (c : UInt8) (s : Bytes) (h : c ∈ s) : lastOf c s < s.length := by
  have := scan_snd_lt c s 0 0 0 h
  unfold lastOf; omega

theorem lastOf_append_not_mem (c : UInt8) (X Y : Bytes) (h : c ∉ Y) : lastOf c (X ++ Y) = lastOf c X := by
  unfold lastOf; rw [scan_append, scan_not_mem c Y _ _ h]

/-! ### the rebuilding loop -/

def isMark (c : UInt8) : Bool := c == DOT || c == COMMA

theorem rebuild_past (p : Nat) (s : Bytes) (i : Nat) (h : p < i) :
    rebuild p s i = s.filter fun c => !isMark c := by
  induction s generalizing i with
  | nil => rfl
  | cons x r ih =>
    simp only [rebuild, List.filter_cons]
    by_cases hx : (x == DOT || x == COMMA) = true
    · have hne : (i == p) = false := by simp only [beq_eq_false_iff_ne, ne_eq]; omega
      simp only [hx, if_true, hne, Bool.false_eq_true, if_false, isMark, Bool.not_true]
      exact ih (i + 1) (by omega)
    · simp only [hx, Bool.false_eq_true, if_false, isMark, Bool.not_false, if_true]
      rw [ih (i + 1) (by omega)]
      rfl

theorem rebuild_split (A B : Bytes) (x : UInt8) (hx : isMark x = true) (i : Nat) :
    rebuild (i + A.length) (A ++ x :: B) i =
      (A.filter fun c => !isMark c) ++ DOT :: (B.filter fun c => !isMark c) := by
  induction A generalizing i with
  | nil =>
    simp only [List.length_nil, Nat.add_zero, List.nil_append, rebuild, List.filter_nil]
    have : (x == DOT || x == COMMA) = true := hx
    simp only [this, if_true, beq_self_eq_true]
    rw [rebuild_past i B (i + 1) (by omega)]
  | cons a r ih =>
    simp only [List.cons_append, rebuild, List.length_cons, List.filter_cons]
    have e : i + (r.length + 1) = (i + 1) + r.length := by omega
    by_cases ha : (a == DOT || a == COMMA) = true
    · have hne : (i == i + (r.length + 1)) = false := by simp only [beq_eq_false_iff_ne, ne_eq]; omega
      simp only [ha, if_true, hne, Bool.false_eq_true, if_false, isMark, Bool.not_true]
      rw [e]; exact ih (i + 1)
    · simp only [ha, Bool.false_eq_true, if_false, isMark, Bool.not_false, if_true]
      rw [e, ih (i + 1)]
      rfl

/-! ### digit bytes -/

theorem digitByte_isDigit : ∀ d : G.Digit, Dec.isDigit (G.digitByte d) = true := by decide

theorem isDigit_ne {b c : UInt8} (h : Dec.isDigit b = true) (hc : Dec.isDigit c = false) : b ≠ c := by
  intro e; rw [e, hc] at h; cases h

def AllDigits (s : Bytes) : Prop := ∀ b ∈ s, Dec.isDigit b = true

theorem allDigits_digitsBytes (ds : List G.Digit) : AllDigits (G.digitsBytes ds) := by
  intro b hb
  unfold G.digitsBytes at hb
  obtain ⟨d, _, rfl⟩ := List.mem_map.1 hb
  exact digitByte_isDigit d

theorem AllDigits.not_mem {s : Bytes} (h : AllDigits s) {c : UInt8} (hc : Dec.isDigit c = false) : c ∉ s :=
  fun hm => isDigit_ne (h c hm) hc rfl

theorem AllDigits.append {a b : Bytes} (ha : AllDigits a) (hb : AllDigits b) : AllDigits (a ++ b) := by
  intro x hx
  rcases List.mem_append.1 hx with h | h
  · exact ha x h
  · exact hb x h

theorem AllDigits.reverse {a : Bytes} (ha : AllDigits a) : AllDigits a.reverse :=
  fun x hx => ha x (List.mem_reverse.1 hx)

/-- strings without '.' and ','. -/
def NoMarks (s : Bytes) : Prop := ∀ b ∈ s, isMark b = false

theorem AllDigits.noMarks {s : Bytes} (h : AllDigits s) : NoMarks s := by
  intro b hb
  have hd := h b hb
  have h1 : b ≠ DOT := isDigit_ne hd (by decide)
  have h2 : b ≠ COMMA := isDigit_ne hd (by decide)
  simp [isMark, h1, h2]

theorem NoMarks.append {a b : Bytes} (ha : NoMarks a) (hb : NoMarks b) : NoMarks (a ++ b) := by
  intro x hx
  rcases List.mem_append.1 hx with h | h
  · exact ha x h
  · exact hb x h

theorem NoMarks.filter {s : Bytes} (h : NoMarks s) : (s.filter fun c => !isMark c) = s := by
  rw [List.filter_eq_self]
  intro b hb
  simp [h b hb]

theorem NoMarks.dot {s : Bytes} (h : NoMarks s) : DOT ∉ s := fun hm => by
  have := h DOT hm; simp [isMark] at this
theorem NoMarks.comma {s : Bytes} (h : NoMarks s) : COMMA ∉ s := fun hm => by
  have := h COMMA hm; simp [isMark] at this

theorem count_eq_zero_of_not_mem {c : UInt8} {s : Bytes} (h : c ∉ s) : s.count c = 0 :=
  List.count_eq_zero_of_not_mem h

/-! ### digit grouping -/

theorem groupRev_short (g : UInt8) (R : Bytes) (h : R.length ≤ 3) : G.groupRev g R = R := by
  match R, h with
  | [], _ => rfl
  | [_], _ => rfl
  | [_, _], _ => rfl
  | [_, _, _], _ => rfl
  | _ :: _ :: _ :: _ :: _, h => simp at h

theorem groupRev_long (g a b c : UInt8) (t : Bytes) (ht : t ≠ []) :
    G.groupRev g (a :: b :: c :: t) = a :: b :: c :: g :: G.groupRev g t := by
  cases t with
  | nil => exact absurd rfl ht
  | cons x r => simp [G.groupRev]

theorem groupRev_other (g : UInt8) (l : Bytes) (hl : ∀ (a b c : UInt8) (t : List UInt8), l = a :: b :: c :: t → False) :
    G.groupRev g l = l := by
  unfold G.groupRev
  split
  · rename_i a b c t; exact (hl a b c t rfl).elim
  · rfl

theorem filter_ne_self (g : UInt8) (R : Bytes) (h : g ∉ R) : R.filter (fun c => c != g) = R := by
  rw [List.filter_eq_self]
  intro x hx
  simp only [bne_iff_ne, ne_eq]
  intro e; subst e; exact h hx

theorem filter_groupRev (g : UInt8) (R : Bytes) (h : g ∉ R) :
    (G.groupRev g R).filter (fun c => c != g) = R := by
  induction R using G.groupRev.induct with
  | case1 a b c t ht =>
    have : t = [] := List.isEmpty_iff.1 ht
    subst this
    rw [groupRev_short g _ (by simp)]
    exact filter_ne_self g _ h
  | case2 a b c t ht ih =>
    have htne : t ≠ [] := fun e => ht (by simp [e])
    rw [groupRev_long g a b c t htne]
    simp only [List.mem_cons, not_or] at h
    obtain ⟨ha, hb, hc, ht'⟩ := h
    have e1 : (a != g) = true := by simp only [bne_iff_ne, ne_eq]; exact fun e => ha e.symm
    have e2 : (b != g) = true := by simp only [bne_iff_ne, ne_eq]; exact fun e => hb e.symm
    have e3 : (c != g) = true := by simp only [bne_iff_ne, ne_eq]; exact fun e => hc e.symm
    simp only [List.filter_cons, e1, e2, e3, if_true, bne_self_eq_false, Bool.false_eq_true, if_false]
    rw [ih ht']
  | case3 l hl =>
    rw [groupRev_other g l hl]
    exact filter_ne_self g _ h

theorem mem_groupRev (g x : UInt8) (R : Bytes) (h : x ∈ G.groupRev g R) : x ∈ R ∨ x = g := by
  induction R using G.groupRev.induct with
  | case1 a b c t ht =>
    have : t = [] := List.isEmpty_iff.1 ht
    subst this
    rw [groupRev_short g _ (by simp)] at h
    exact Or.inl h
  | case2 a b c t ht ih =>
    have htne : t ≠ [] := fun e => ht (by simp [e])
    rw [groupRev_long g a b c t htne] at h
    simp only [List.mem_cons] at h
    rcases h with h | h | h | h | h
    · left; simp [h]
    · left; simp [h]
    · left; simp [h]
    · right; exact h
    · rcases ih h with h' | h'
      · left; simp [h']
      · right; exact h'
  | case3 l hl =>
    rw [groupRev_other g l hl] at h; exact Or.inl h

/-! ### `normalizeMantissa` on the shapes a notation can take -/

def hasNZ (X : Bytes) : Bool := X.any fun c => c != ZERO && c != MINUS

theorem hasNonZero_prefix (X Y : Bytes) : hasNonZero (X ++ Y) X.length = hasNZ X := by
  unfold hasNonZero hasNZ
  rw [List.take_left']
  rfl

theorem count_split (c : UInt8) (X F : Bytes) (hX : c ∉ X) (hF : c ∉ F) : countOf c (X ++ c :: F) = 1 := by
  unfold countOf
  rw [scan_split c X F 0 0 0 hF, count_eq_zero_of_not_mem hX]

theorem count_zero (c : UInt8) (s : Bytes) (h : c ∉ s) : countOf c s = 0 := by
  rw [countOf_eq, count_eq_zero_of_not_mem h]

theorem mantissa_plain (s : Bytes) (h : NoMarks s) : normalizeMantissa s = s := by
  unfold normalizeMantissa
  simp [count_zero DOT s h.dot, count_zero COMMA s h.comma]

theorem ne_dot_comma : DOT ≠ COMMA := by decide

theorem mantissa_comma_decimal (X F : Bytes) (hX : NoMarks X) (hF : NoMarks F)
    (hc : ¬ (X.length ≥ 1 ∧ F.length = 3 ∧ hasNZ X = true)) :
    normalizeMantissa (X ++ COMMA :: F) = X ++ DOT :: F := by
  have hd : DOT ∉ X ++ COMMA :: F := by
    simp only [List.mem_append, List.mem_cons, not_or]
    exact ⟨hX.dot, ne_dot_comma, hF.dot⟩
  have h1 : countOf DOT (X ++ COMMA :: F) = 0 := count_zero _ _ hd
  have h2 : countOf COMMA (X ++ COMMA :: F) = 1 := count_split _ _ _ hX.comma hF.comma
  have h3 : lastOf COMMA (X ++ COMMA :: F) = X.length := lastOf_split _ _ _ hF.comma
  have h4 : (X ++ COMMA :: F).length - X.length - 1 = F.length := by simp
  unfold normalizeMantissa
  simp only [h1, h2, h3, h4, hasNonZero_prefix]
  have hcond : (decide (X.length ≥ 1) && F.length == 3 && hasNZ X) = false := by
    cases hh : (decide (X.length ≥ 1) && F.length == 3 && hasNZ X) with
    | false => rfl
    | true =>
      simp only [Bool.and_eq_true, decide_eq_true_eq, beq_iff_eq] at hh
      exact absurd ⟨hh.1.1, hh.1.2, hh.2⟩ hc
  simp [hcond, List.take_left', List.drop_left']

theorem mantissa_comma_group (X L : Bytes) (hX : NoMarks X) (hL : NoMarks L)
    (h1x : X.length ≥ 1) (h3 : L.length = 3) (hnz : hasNZ X = true) :
    normalizeMantissa (X ++ COMMA :: L) = X ++ L := by
  have hd : DOT ∉ X ++ COMMA :: L := by
    simp only [List.mem_append, List.mem_cons, not_or]
    exact ⟨hX.dot, ne_dot_comma, hL.dot⟩
  have h1 : countOf DOT (X ++ COMMA :: L) = 0 := count_zero _ _ hd
  have h2 : countOf COMMA (X ++ COMMA :: L) = 1 := count_split _ _ _ hX.comma hL.comma
  have h3' : lastOf COMMA (X ++ COMMA :: L) = X.length := lastOf_split _ _ _ hL.comma
  have h4 : (X ++ COMMA :: L).length - X.length - 1 = L.length := by simp
  unfold normalizeMantissa
  simp only [h1, h2, h3', h4, hasNonZero_prefix]
  simp [h1x, h3, hnz, List.take_left', List.drop_left']

theorem mantissa_dot_decimal (X F : Bytes) (hX : NoMarks X) (hF : NoMarks F)
    (hc : ¬ (X.length ≥ 1 ∧ F.length = 3 ∧ hasNZ X = true)) :
    normalizeMantissa (X ++ DOT :: F) = X ++ DOT :: F := by
  have hd : COMMA ∉ X ++ DOT :: F := by
    simp only [List.mem_append, List.mem_cons, not_or]
    exact ⟨hX.comma, ne_dot_comma.symm, hF.comma⟩
  have h1 : countOf COMMA (X ++ DOT :: F) = 0 := count_zero _ _ hd
  have h2 : countOf DOT (X ++ DOT :: F) = 1 := count_split _ _ _ hX.dot hF.dot
  have h3 : lastOf DOT (X ++ DOT :: F) = X.length := lastOf_split _ _ _ hF.dot
  have h4 : (X ++ DOT :: F).length - X.length - 1 = F.length := by simp
  unfold normalizeMantissa
  simp only [h1, h2, h3, h4, hasNonZero_prefix]
  have hcond : (decide (X.length ≥ 1) && F.length == 3 && hasNZ X) = false := by
    cases hh : (decide (X.length ≥ 1) && F.length == 3 && hasNZ X) with
    | false => rfl
    | true =>
      simp only [Bool.and_eq_true, decide_eq_true_eq, beq_iff_eq] at hh
      exact absurd ⟨hh.1.1, hh.1.2, hh.2⟩ hc
  simp [hcond]

theorem mantissa_dot_group (X L : Bytes) (hX : NoMarks X) (hL : NoMarks L)
    (h1x : X.length ≥ 1) (h3 : L.length = 3) (hnz : hasNZ X = true) :
    normalizeMantissa (X ++ DOT :: L) = X ++ L := by
  have hd : COMMA ∉ X ++ DOT :: L := by
    simp only [List.mem_append, List.mem_cons, not_or]
    exact ⟨hX.comma, ne_dot_comma.symm, hL.comma⟩
  have h1 : countOf COMMA (X ++ DOT :: L) = 0 := count_zero _ _ hd
  have h2 : countOf DOT (X ++ DOT :: L) = 1 := count_split _ _ _ hX.dot hL.dot
  have h3' : lastOf DOT (X ++ DOT :: L) = X.length := lastOf_split _ _ _ hL.dot
  have h4 : (X ++ DOT :: L).length - X.length - 1 = L.length := by simp
  unfold normalizeMantissa
  simp only [h1, h2, h3', h4, hasNonZero_prefix]
  simp [h1x, h3, hnz, List.take_left', List.drop_left']

theorem mantissa_commas (s : Bytes) (hk : s.count COMMA ≥ 2) (hd : DOT ∉ s) :
    normalizeMantissa s = removeSeparator s COMMA := by
  have h1 : countOf DOT s = 0 := count_zero _ _ hd
  have h2 : countOf COMMA s = s.count COMMA := countOf_eq _ _
  unfold normalizeMantissa
  simp only [h1, h2]
  have e0 : (s.count COMMA == 0) = false := by rw [beq_eq_false_iff_ne]; omega
  have e1 : (s.count COMMA == 1) = false := by rw [beq_eq_false_iff_ne]; omega
  have e2 : decide (s.count COMMA > 1) = true := by rw [decide_eq_true_eq]; omega
  simp [e0, e1, e2]

theorem mantissa_dots (s : Bytes) (hk : s.count DOT ≥ 2) (hd : COMMA ∉ s) :
    normalizeMantissa s = removeSeparator s DOT := by
  have h1 : countOf COMMA s = 0 := count_zero _ _ hd
  have h2 : countOf DOT s = s.count DOT := countOf_eq _ _
  unfold normalizeMantissa
  simp only [h1, h2]
  have e0 : (s.count DOT == 0) = false := by rw [beq_eq_false_iff_ne]; omega
  have e1 : (s.count DOT == 1) = false := by rw [beq_eq_false_iff_ne]; omega
  have e2 : decide (s.count DOT > 1) = true := by rw [decide_eq_true_eq]; omega
  simp [e0, e1, e2]

theorem mem_of_count_pos {c : UInt8} {s : Bytes} (h : s.count c ≥ 1) : c ∈ s := by
  apply List.count_pos_iff.1; omega

/-- groups written with ',' and a decimal '.'. -/
theorem mantissa_commas_dot (Y F : Bytes) (hY : DOT ∉ Y) (hk : Y.count COMMA ≥ 1) (hF : NoMarks F) :
    normalizeMantissa (Y ++ DOT :: F) = (Y.filter fun c => !isMark c) ++ DOT :: F := by
  have h1 : countOf DOT (Y ++ DOT :: F) = 1 := count_split _ _ _ hY hF.dot
  have h2 : countOf COMMA (Y ++ DOT :: F) = Y.count COMMA := by
    rw [countOf_eq, List.count_append, List.count_cons]
    have : (DOT == COMMA) = false := by decide
    simp [this, count_eq_zero_of_not_mem hF.comma]
  have h3 : lastOf DOT (Y ++ DOT :: F) = Y.length := lastOf_split _ _ _ hF.dot
  have hcm : COMMA ∉ DOT :: F := by
    simp only [List.mem_cons, not_or]; exact ⟨ne_dot_comma.symm, hF.comma⟩
  have h4 : lastOf COMMA (Y ++ DOT :: F) = lastOf COMMA Y := lastOf_append_not_mem _ _ _ hcm
  have h5 : lastOf COMMA Y < Y.length := lastOf_lt _ _ (mem_of_count_pos hk)
  unfold normalizeMantissa
  simp only [h1, h2, h3, h4]
  have e0 : (Y.count COMMA == 0) = false := by rw [beq_eq_false_iff_ne]; omega
  have e1 : decide (lastOf COMMA Y > Y.length) = false := by rw [decide_eq_false_iff_not]; omega
  have e2 : decide (Y.length > lastOf COMMA Y) = true := by rw [decide_eq_true_eq]; omega
  have e3 : decide (Y.count COMMA > 0) = true := by rw [decide_eq_true_eq]; omega
  simp only [show ((1 : Nat) == 0) = false from rfl, Bool.false_and, Bool.false_eq_true, if_false, e0,
    Bool.and_false, show decide ((1 : Nat) > 1) = false from rfl, show ((1 : Nat) == 1) = true from rfl,
    show decide ((1 : Nat) > 0) = true from rfl, Bool.true_and, Bool.and_true, e1, e2, e3, if_true]
  have := rebuild_split Y F DOT (by decide) 0
  rw [Nat.zero_add] at this
  rw [this, hF.filter]

/-- groups written with '.' and a decimal ','. -/
theorem mantissa_dots_comma (Y F : Bytes) (hY : COMMA ∉ Y) (hk : Y.count DOT ≥ 1) (hF : NoMarks F) :
    normalizeMantissa (Y ++ COMMA :: F) = (Y.filter fun c => !isMark c) ++ DOT :: F := by
  have h1 : countOf COMMA (Y ++ COMMA :: F) = 1 := count_split _ _ _ hY hF.comma
  have h2 : countOf DOT (Y ++ COMMA :: F) = Y.count DOT := by
    rw [countOf_eq, List.count_append, List.count_cons]
    have : (COMMA == DOT) = false := by decide
    simp [this, count_eq_zero_of_not_mem hF.dot]
  have h3 : lastOf COMMA (Y ++ COMMA :: F) = Y.length := lastOf_split _ _ _ hF.comma
  have hcm : DOT ∉ COMMA :: F := by
    simp only [List.mem_cons, not_or]; exact ⟨ne_dot_comma, hF.dot⟩
  have h4 : lastOf DOT (Y ++ COMMA :: F) = lastOf DOT Y := lastOf_append_not_mem _ _ _ hcm
  have h5 : lastOf DOT Y < Y.length := lastOf_lt _ _ (mem_of_count_pos hk)
  unfold normalizeMantissa
  simp only [h1, h2, h3, h4]
  have e0 : (Y.count DOT == 0) = false := by rw [beq_eq_false_iff_ne]; omega
  have e2 : decide (Y.length > lastOf DOT Y) = true := by rw [decide_eq_true_eq]; omega
  have e3 : decide (Y.count DOT > 0) = true := by rw [decide_eq_true_eq]; omega
  simp only [show ((1 : Nat) == 0) = false from rfl, Bool.false_and, Bool.false_eq_true, if_false, e0,
    Bool.and_false, show decide ((1 : Nat) > 1) = false from rfl, show ((1 : Nat) == 1) = true from rfl,
    Bool.true_and, Bool.and_true, e2, e3, if_true]
  have := rebuild_split Y F COMMA (by decide) 0
  rw [Nat.zero_add] at this
  rw [this, hF.filter]

end Num
end HL
