import HL.Model.Text
import HL.Spec.RefBuffer
namespace HL.Lemmas.Text
open HL.Text HL.Ref

theorem u16w_pos (c : Char) : 1 ≤ u16w c := by unfold u16w; split <;> omega
theorem u16w_le (c : Char) : u16w c ≤ 2 := by unfold u16w; split <;> omega

theorem encChar_length (c : Char) : (encChar c).length = u16w c := by
  unfold encChar u16w; simp only []; split <;> simp

theorem enc16_length (s : Txt) : (enc16 s).length = u16len s := by
  induction s with
  | nil => rfl
  | cons c cs ih => simp [enc16, u16len, encChar_length, ih]

theorem enc16_append (a b : Txt) : enc16 (a ++ b) = enc16 a ++ enc16 b := by
  induction a with
  | nil => rfl
  | cons c cs ih => simp [enc16, ih]

theorem u16len_append (a b : Txt) : u16len (a ++ b) = u16len a + u16len b := by
  induction a with
  | nil => simp [u16len]
  | cons c cs ih => simp [u16len, ih]; omega

theorem enc16_take (s : Txt) (k : Nat) :
    enc16 (s.take k) = (enc16 s).take (u16len (s.take k)) := by
  induction s generalizing k with
  | nil => simp [enc16, u16len]
  | cons c cs ih =>
    cases k with
    | zero => simp [enc16, u16len]
    | succ k =>
      simp only [List.take_succ_cons, enc16, u16len]
      rw [← encChar_length c, List.take_length_add_append]
      simp [ih k]

theorem enc16_drop (s : Txt) (k : Nat) :
    enc16 (s.drop k) = (enc16 s).drop (u16len (s.take k)) := by
  induction s generalizing k with
  | nil => simp [enc16, u16len]
  | cons c cs ih =>
    cases k with
    | zero => simp [enc16, u16len]
    | succ k =>
      simp only [List.take_succ_cons, List.drop_succ_cons, enc16, u16len]
      rw [← encChar_length c, List.drop_length_add_append]
      exact ih k

/-- Strict monotonicity: a longer char prefix has strictly more code units. -/
theorem u16len_take_lt (s : Txt) (a b : Nat) (hab : b < a) (ha : a ≤ s.length) :
    u16len (s.take b) < u16len (s.take a) := by
  induction s generalizing a b with
  | nil => simp at ha; omega
  | cons c cs ih =>
    cases a with
    | zero => omega
    | succ a =>
      cases b with
      | zero => simp [u16len]; have := u16w_pos c; omega
      | succ b =>
        simp only [List.take_succ_cons, u16len]
        have := ih a b (by omega) (by simpa using ha)
        omega


open HL.Text HL.Ref

/-! ### Newlines and carriage returns survive the encoding as single units -/

theorem char_eq_of_toNat {c d : Char} (h : c.val.toNat = d.val.toNat) : c = d := by
  apply Char.ext; apply UInt32.toNat_inj.mp; exact h

theorem encChar_nl : encChar '\n' = [10] := by decide
theorem encChar_cr : encChar '\r' = [13] := by decide

theorem encChar_small {c : Char} {k : Nat} (hk : k < 0xD800) (hc : c.val.toNat ≠ k) :
    ∀ u ∈ encChar c, u ≠ k := by
  intro u hu
  unfold encChar at hu
  simp only [] at hu
  split at hu
  · simp only [List.mem_cons, List.not_mem_nil, or_false] at hu; omega
  · simp only [List.mem_cons, List.not_mem_nil, or_false] at hu; omega

theorem encChar_ne_nl {c : Char} (hc : c ≠ '\n') : ∀ u ∈ encChar c, u ≠ 10 :=
  encChar_small (by omega) (fun h => hc (char_eq_of_toNat h))

theorem encChar_ne_nil (c : Char) : encChar c ≠ [] := by
  intro h; have := encChar_length c; rw [h] at this; have := u16w_pos c; simp at *; omega

theorem ref_firstLine_append {a b : Units} (h : ∀ u ∈ a, u ≠ 10) :
    Ref.firstLine (a ++ b) = a ++ Ref.firstLine b := by
  induction a with
  | nil => rfl
  | cons x xs ih =>
    have hx : x ≠ 10 := h x (by simp)
    simp [Ref.firstLine, hx, ih (fun u hu => h u (by simp [hu]))]

theorem ref_afterNL_append {a b : Units} (h : ∀ u ∈ a, u ≠ 10) :
    Ref.afterNL (a ++ b) = Ref.afterNL b := by
  induction a with
  | nil => rfl
  | cons x xs ih =>
    have hx : x ≠ 10 := h x (by simp)
    simp [Ref.afterNL, hx, ih (fun u hu => h u (by simp [hu]))]

theorem firstLine_enc16 (s : Txt) : Ref.firstLine (enc16 s) = enc16 (Text.firstLine s) := by
  induction s with
  | nil => rfl
  | cons c cs ih =>
    by_cases hc : c = '\n'
    · subst hc; simp [enc16, Text.firstLine, encChar_nl, Ref.firstLine]
    · simp [enc16, Text.firstLine, hc, ref_firstLine_append (encChar_ne_nl hc), ih]

theorem afterNL_enc16 (s : Txt) : Ref.afterNL (enc16 s) = (Text.afterNL s).map enc16 := by
  induction s with
  | nil => rfl
  | cons c cs ih =>
    by_cases hc : c = '\n'
    · subst hc; simp [enc16, Text.afterNL, encChar_nl, Ref.afterNL]
    · simp [enc16, Text.afterNL, hc, ref_afterNL_append (encChar_ne_nl hc), ih]

theorem split_some {s rest : Txt} (h : Text.afterNL s = some rest) :
    s = Text.firstLine s ++ '\n' :: rest := by
  induction s with
  | nil => simp [Text.afterNL] at h
  | cons c cs ih =>
    by_cases hc : c = '\n'
    · subst hc; simp [Text.afterNL] at h; simp [Text.firstLine, h]
    · simp [Text.afterNL, hc] at h; simp [Text.firstLine, hc]; exact ih h

theorem split_none {s : Txt} (h : Text.afterNL s = none) : Text.firstLine s = s := by
  induction s with
  | nil => rfl
  | cons c cs ih =>
    by_cases hc : c = '\n'
    · subst hc; simp [Text.afterNL] at h
    · simp [Text.afterNL, hc] at h; simp [Text.firstLine, hc, ih h]

theorem firstLine_prefix (s : Txt) : ∃ t, s = Text.firstLine s ++ t := by
  cases h : Text.afterNL s with
  | none => exact ⟨[], by simp [split_none h]⟩
  | some rest => exact ⟨'\n' :: rest, split_some h⟩

/-! ### Trailing CR -/

theorem enc16_getLast_cr (l : Txt) :
    (enc16 l).getLast? = some 13 ↔ l.getLast? = some '\r' := by
  induction l with
  | nil => simp [enc16]
  | cons c cs ih =>
    cases cs with
    | nil =>
      simp only [enc16, List.append_nil, List.getLast?_singleton, Option.some.injEq]
      constructor
      · intro h
        apply char_eq_of_toNat
        unfold encChar at h; simp only [] at h
        split at h
        · simp only [List.getLast?_cons_cons, List.getLast?_singleton, Option.some.injEq] at h; omega
        · simp only [List.getLast?_singleton, Option.some.injEq] at h; exact h
      · intro h; subst h; decide
    | cons d ds =>
      have hne : enc16 (d :: ds) ≠ [] := by
        simp [enc16, encChar_ne_nil]
      have hsome : ∃ x, (enc16 (d :: ds)).getLast? = some x := by
        cases hh : (enc16 (d :: ds)).getLast? with
        | none => simp at hh; exact absurd hh hne
        | some x => exact ⟨x, rfl⟩
      obtain ⟨x, hx⟩ := hsome
      rw [enc16, List.getLast?_append, hx, List.getLast?_cons_cons, ← ih, hx]
      simp

theorem contentLen_enc16 (l : Txt) :
    contentLen (enc16 l) = u16len (countable true l) := by
  unfold contentLen countable
  by_cases h : l.getLast? = some '\r'
  · have h' := (enc16_getLast_cr l).mpr h
    simp only [h', h, if_true, Bool.true_and, decide_true]
    obtain ⟨init, rfl⟩ := List.getLast?_eq_some_iff.mp h
    simp [enc16_length, u16len_append, u16len, u16w]
  · have h' : ¬ (enc16 l).getLast? = some 13 := fun x => h ((enc16_getLast_cr l).mp x)
    simp [h', h, enc16_length]

theorem countable_prefix (l : Txt) : ∃ t, l = countable true l ++ t := by
  unfold countable
  split
  · exact ⟨l.drop (l.length - 1), by simp [List.dropLast_eq_take]⟩
  · exact ⟨[], by simp⟩

/-! ### The UTF-16 → char-index loop -/

theorem takeU16_le (s : Txt) (n : Nat) : takeU16 s n ≤ s.length := by
  induction s generalizing n with
  | nil => simp [takeU16]
  | cons c cs ih =>
    simp only [takeU16]; split
    · omega
    · have := ih (n - u16w c); simp; omega

theorem u16len_take_takeU16 (s : Txt) (n : Nat) (h : noSplit s n = true) :
    u16len (s.take (takeU16 s n)) = min n (u16len s) := by
  induction s generalizing n with
  | nil => simp [takeU16, u16len]
  | cons c cs ih =>
    simp only [takeU16]
    by_cases hn : n = 0
    · simp [hn, u16len]
    · have hn' : (n == 0) = false := by simp [hn]
      simp only [noSplit, hn', Bool.false_or, Bool.and_eq_true, decide_eq_true_eq] at h
      simp only [hn, if_false]
      rw [Nat.add_comm 1, List.take_succ_cons]
      simp only [u16len, ih _ h.2]
      omega


/-! ### `LSPToByte` against the client's offset -/

theorem lspToIdx_le (s : Txt) (l ch : Nat) : lspToIdx true s l ch ≤ s.length := by
  induction l generalizing s with
  | zero =>
    simp only [lspToIdx]
    obtain ⟨t, ht⟩ := countable_prefix (Text.firstLine s)
    obtain ⟨t', ht'⟩ := firstLine_prefix s
    have h1 := takeU16_le (countable true (Text.firstLine s)) ch
    have h2 : (countable true (Text.firstLine s)).length ≤ (Text.firstLine s).length := by
      conv => rhs; rw [ht]
      simp
    have h3 : (Text.firstLine s).length ≤ s.length := by
      conv => rhs; rw [ht']
      simp
    omega
  | succ l ih =>
    simp only [lspToIdx]
    cases h : Text.afterNL s with
    | none => simp
    | some rest =>
      have := ih rest
      have hs := split_some h
      simp only []
      conv => rhs; rw [hs]
      simp; omega

/-- Main lemma: the number of code units before the char index computed by `LSPToByte`
    is the client's offset of the same position. -/
theorem u16len_take_lspToIdx (s : Txt) (l ch : Nat) (h : posOK s l ch = true) :
    u16len (s.take (lspToIdx true s l ch)) = offset (enc16 s) l ch := by
  induction l generalizing s with
  | zero =>
    simp only [lspToIdx, offset, posOK] at *
    rw [firstLine_enc16, contentLen_enc16]
    obtain ⟨t, ht⟩ := countable_prefix (Text.firstLine s)
    obtain ⟨t', ht'⟩ := firstLine_prefix s
    have hk := takeU16_le (countable true (Text.firstLine s)) ch
    have : s.take (takeU16 (countable true (Text.firstLine s)) ch)
        = (countable true (Text.firstLine s)).take (takeU16 (countable true (Text.firstLine s)) ch) := by
      conv => lhs; arg 2; rw [ht', ht]
      rw [List.append_assoc, List.take_append_of_le_length hk]
    rw [this, u16len_take_takeU16 _ _ h]
  | succ l ih =>
    simp only [lspToIdx, offset, posOK] at *
    rw [afterNL_enc16]
    cases hs : Text.afterNL s with
    | none => simp [enc16_length]
    | some rest =>
      simp only [hs] at h
      simp only [Option.map_some]
      have hsplit := split_some hs
      rw [firstLine_enc16, enc16_length, ← ih rest h]
      have : s.take ((Text.firstLine s).length + 1 + lspToIdx true rest l ch)
          = Text.firstLine s ++ '\n' :: rest.take (lspToIdx true rest l ch) := by
        conv => lhs; arg 2; rw [hsplit]
        rw [Nat.add_assoc, List.take_length_add_append, Nat.add_comm 1, List.take_succ_cons]
      rw [this, u16len_append]
      simp [u16len, u16w]
      omega

end HL.Lemmas.Text
