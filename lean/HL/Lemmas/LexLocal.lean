import HL.Lemmas.LexLines
import HL.Lemmas.LexShift
/-!
  Line-locality of the token stream, assembled from `next_ext` (nothing reads behind the next
  line feed), `lexF_shift` (nothing but blanks is read behind the current position) and
  `next_step` (only `scanNewline` consumes a line feed).
-/
namespace HL.Lex
open HL HL.Utf8

local notation "LF" => (0x0A : UInt8)

/-- number of line feeds -/
def countLF (s : Bytes) : Nat := (s.filter (· == LF)).length

theorem countLF_append (a b : Bytes) : countLF (a ++ b) = countLF a + countLF b := by
  simp [countLF]

theorem countLF_of_not_mem {s : Bytes} (h : LF ∉ s) : countLF s = 0 := by
  simp only [countLF, List.length_eq_zero_iff, List.filter_eq_nil_iff]
  intro a ha hb
  have : a = LF := by simpa using hb
  exact h (this ▸ ha)

/-- the canonical stream from a state: `Next` until EOF -/
def lexS (C : Classes) (z : Z) : List Token := lexF C (z.after.length + 1) z

theorem lexAll_eq_lexS (C : Classes) (input : Bytes) : lexAll C input = lexS C (Z.init input) :=
  lexF_fuel C _ _ _ (by simp [Z.init]) (by simp [Z.init])

theorem lexS_unfold (C : Classes) (z : Z) :
    lexS C z = if (next C z).1.ty = .eof then [(next C z).1] else (next C z).1 :: lexS C (next C z).2 := by
  unfold lexS
  rw [lexF]
  simp only [beq_iff_eq]
  split
  · rfl
  · rename_i hne
    have := next_lt_of_ne_eof C z hne
    rw [lexF_fuel C z.after.length ((next C z).2.after.length + 1) _ (by omega) (Nat.le_refl _)]

theorem lexS_ne_nil (C : Classes) (z : Z) : lexS C z ≠ [] := lexF_ne_nil C _ z (by omega)

theorem lexS_shift (C : Classes) (k : Nat) (pre' : Bytes) (z : Z) :
    lexS C (z.shift k (LF :: pre')) = (lexS C z).map (shiftTok k (pre'.length + 1)) :=
  lexF_shift k C pre' _ z

/-- the state right behind `s ++ [LF]`, at the start of the next line -/
def zEnd (z : Z) (s : Bytes) : Z := ⟨LF :: s.reverse ++ z.before, [], z.line + countLF s + 1, 1, true⟩

theorem suffix_split {p q s : Bytes} (h : p ++ q = s ++ [LF]) (hq : q ≠ []) :
    ∃ s', q = s' ++ [LF] ∧ s = p ++ s' := by
  induction p generalizing s with
  | nil => exact ⟨s, by simpa using h, by simp⟩
  | cons a p ih =>
    cases s with
    | nil =>
      simp only [List.cons_append, List.nil_append, List.cons.injEq, List.append_eq_nil_iff] at h
      exact absurd h.2.2 hq
    | cons a' s =>
      simp only [List.cons_append, List.cons.injEq] at h
      obtain ⟨s', h1, h2⟩ := ih h.2
      exact ⟨s', h1, by rw [h.1, h2]; rfl⟩

/-- coarse view of a step: what was consumed contains no line feed (same line), or it is blanks
    (and possibly a carriage return) followed by exactly one line feed (next line, column 1, at
    line start). -/
theorem Step.coarse {z : Z} {r : Token × Z} (h : Step z r) :
    ∃ cons, z.after = cons ++ r.2.after ∧ r.2.before = cons.reverse ++ z.before ∧
      ((LF ∉ cons ∧ r.2.line = z.line ∧ r.1.ty ≠ .newline) ∨
       (∃ sp, cons = sp ++ [LF] ∧ LF ∉ sp ∧ r.2.line = z.line + 1 ∧ r.2.col = 1 ∧ r.2.atStart = true ∧
          r.1.ty = .newline)) := by
  have nosp : ∀ sp : Bytes, (∀ c ∈ sp, isBlank c = true) → LF ∉ sp := by
    intro sp hsp hm
    exact absurd (hsp _ hm) (by decide)
  cases h with
  | tok sp pre hsp hpre hafter hbefore hline hty hpl hpo _hstopt =>
    refine ⟨sp ++ pre, hafter, by simp [hbefore], Or.inl ⟨?_, hline, hty⟩⟩
    intro hm
    rcases List.mem_append.mp hm with hm | hm
    · exact nosp sp hsp hm
    · exact hpre hm
  | newline sp cr hsp hcr hafter hbefore hline hcol hstart hty hpl hpo hstop =>
    have hnocr : LF ∉ sp ++ cr := by
      intro hm
      rcases List.mem_append.mp hm with hm | hm
      · exact nosp sp hsp hm
      · rcases hcr with rfl | rfl <;> simp at hm
    exact ⟨sp ++ cr ++ [LF], by simp [hafter], by simp [hbefore],
      Or.inr ⟨sp ++ cr, rfl, hnocr, hline, hcol, hstart, hty⟩⟩

theorem lexS_local_aux (C : Classes) (b : Bytes) (n : Nat) (z : Z) (s : Bytes) (hn : s.length ≤ n)
    (hz : z.after = s ++ [LF]) :
    lexS C (z.ext b) = (lexS C z).dropLast ++ lexS C ((zEnd z s).ext b) := by
  induction n generalizing z s with
  | zero =>
    -- s = []: the line feed is all that is left
    have hs : s = [] := List.eq_nil_of_length_eq_zero (by omega)
    subst hs
    have hlf : HasLF z := by simp [HasLF, hz]
    have hne : z.after ≠ [] := by simp [hz]
    obtain ⟨cons, h1, h2, h3⟩ := (next_step C z).coarse
    have hres := next_res C z
    have hprog := hres.prog hne
    rw [lexS_unfold C (z.ext b), next_ext b C hlf, lexS_unfold C z]
    have hcons : cons ≠ [] := by
      intro e; rw [e] at h1; simp at h1; rw [← h1] at hprog; omega
    rw [hz] at h1
    -- cons ++ rest = [LF] with cons ≠ []: cons = [LF], rest = []
    have hrest : (next C z).2.after = [] := by
      cases cons with
      | nil => exact absurd rfl hcons
      | cons c cs =>
        simp only [List.nil_append, List.cons_append, List.cons.injEq] at h1
        have := h1.2
        simp only [List.nil_eq, List.append_eq_nil_iff] at this
        exact this.2
    have hcons1 : cons = [LF] := by rw [hrest] at h1; simpa using h1.symm
    rcases h3 with ⟨hno, _, _⟩ | ⟨sp, hsp, hnosp, hline, hcol, hstart, hty⟩
    · rw [hcons1] at hno; simp at hno
    · have hsp0 : sp = [] := by
        rw [hcons1] at hsp
        cases sp with
        | nil => rfl
        | cons a t => simp at hsp
      have hne1 : (next C z).1.ty ≠ .eof := by rw [hty]; decide
      have hzeq : (next C z).2.ext b = (zEnd z []).ext b := by
        cases hr : (next C z).2 with
        | mk bf af ln cl st =>
          rw [hr] at h2 hrest hline hcol hstart
          simp only at h2 hrest hline hcol hstart
          simp [Z.ext, zEnd, h2, hrest, hline, hcol, hstart, hcons1, countLF]
      simp only [extR, hne1, if_false]
      rw [hzeq]
      have heof : lexS C (next C z).2 = [(next C (next C z).2).1] := by
        rw [lexS_unfold, next_nil C hrest]
        simp [mkTok]
      rw [heof]
      simp
  | succ n ih =>
    have hlf : HasLF z := by simp [HasLF, hz]
    have hne : z.after ≠ [] := by simp [hz]
    obtain ⟨cons, h1, h2, h3⟩ := (next_step C z).coarse
    have hres := next_res C z
    have hprog := hres.prog hne
    have hcons : cons ≠ [] := by
      intro e; rw [e] at h1; simp at h1; rw [← h1] at hprog; omega
    rw [lexS_unfold C (z.ext b), next_ext b C hlf, lexS_unfold C z]
    rw [hz] at h1
    rcases h3 with ⟨hno, hline, hty⟩ | ⟨sp, hsp, hnosp, hline, hcol, hstart, hty⟩
    · -- a token inside the line
      have hrne : (next C z).2.after ≠ [] := by
        intro e
        rw [e] at h1
        simp only [List.append_nil] at h1
        exact hno (by rw [← h1]; simp)
      obtain ⟨s', hs1, hs2⟩ := suffix_split h1.symm hrne
      have hne1 : (next C z).1.ty ≠ .eof := fun e => hrne (hres.eof e).1
      have hlen : s'.length ≤ n := by
        have : 0 < cons.length := List.length_pos_iff.mpr hcons
        rw [hs2] at hn; simp at hn; omega
      have := ih (next C z).2 s' hlen hs1
      simp only [extR, hne1, if_false]
      rw [this, List.dropLast_cons_of_ne_nil (lexS_ne_nil C _)]
      have hzeq : zEnd (next C z).2 s' = zEnd z s := by
        simp only [zEnd, h2, hline, hs2, countLF_append, countLF_of_not_mem hno]
        simp
      rw [hzeq]
      simp
    · -- the line feed itself
      have hne1 : (next C z).1.ty ≠ .eof := by rw [hty]; decide
      simp only [extR, hne1, if_false]
      by_cases hr0 : (next C z).2.after = []
      · have hs : s = sp := by
          rw [hr0, hsp] at h1
          simpa using h1
        have hzeq : (next C z).2.ext b = (zEnd z s).ext b := by
          cases hr : (next C z).2 with
          | mk bf af ln cl st =>
            rw [hr] at h2 hr0 hline hcol hstart
            simp only at h2 hr0 hline hcol hstart
            simp [Z.ext, zEnd, h2, hr0, hline, hcol, hstart, hsp, hs, countLF_of_not_mem hnosp]
        rw [hzeq]
        have heof : lexS C (next C z).2 = [(next C (next C z).2).1] := by
          rw [lexS_unfold, next_nil C hr0]
          simp [mkTok]
        rw [heof]
        simp
      · obtain ⟨s', hs1, hs2⟩ := suffix_split h1.symm hr0
        have hlen : s'.length ≤ n := by
          rw [hs2, hsp] at hn; simp at hn; omega
        have := ih (next C z).2 s' hlen hs1
        rw [this, List.dropLast_cons_of_ne_nil (lexS_ne_nil C _)]
        have hzeq : zEnd (next C z).2 s' = zEnd z s := by
          simp only [zEnd, h2, hline, hs2, hsp, countLF_append, countLF_of_not_mem hnosp]
          simp [countLF]
          omega
        rw [hzeq]
        simp

/-- **Line-locality.**  Lexing `a ++ "\\n" ++ b` = lexing `a ++ "\\n"` (without its EOF) followed
    by lexing `b` on its own with lines shifted by the number of line feeds in `a` plus one and
    offsets by `|a| + 1`.  No guard: it holds for all byte strings `a`, `b`. -/
theorem lexAll_line_local (C : Classes) (a b : Bytes) :
    lexAll C (a ++ LF :: b) =
      (lexAll C (a ++ [LF])).dropLast ++ (lexAll C b).map (shiftTok (countLF a + 1) (a.length + 1)) := by
  rw [lexAll_eq_lexS, lexAll_eq_lexS, lexAll_eq_lexS]
  have h0 : Z.init (a ++ LF :: b) = (Z.init (a ++ [LF])).ext b := by
    simp [Z.init, Z.ext]
  rw [h0, lexS_local_aux C b a.length (Z.init (a ++ [LF])) a (Nat.le_refl _) rfl]
  congr 1
  have h1 : (zEnd (Z.init (a ++ [LF])) a).ext b = (Z.init b).shift (countLF a + 1) (LF :: a.reverse) := by
    simp [zEnd, Z.init, Z.ext, Z.shift]
    omega
  rw [h1, lexS_shift]
  simp

end HL.Lex
