import HL.Lemmas.EditApply
import HL.Lemmas.LexGCoreL
import HL.Props.C05
/-!
  The formatter model on `GCore` journals (any layout `L` in, the layout of the options out):
  what `formatPostingWithOpts` writes for a posting of the core grammar, the lines of a printed
  journal, the edit list of `formatDocument` as splices of a segmented document, and the
  composition `format_printL`:

      applyEdits (printL L j) (formatDocument (expectedL L j) (printL L j) none o []) =
        some (printL (canonLayout o j) j)

  for journals of every size below the 4 GiB that LSP positions (`uint32`) can address.
-/
namespace HL.GCore
open HL HL.Ast HL.FmtText HL.Fmt HL.EditSpec HL.Lemmas.FmtText HL.Lemmas.Format HL.Lemmas.EditApply
open HL.Lex (forall_uint8)

local notation "LF" => (0x0A : UInt8)

/-! ### the bytes of a printed journal -/

/-- a byte of a line of the core grammar -/
def coreByte (c : UInt8) : Bool :=
  isDigitB c || isLowerB c || isUpperB c || c == 0x20 || c == 0x2D || c == 0x2E || c == 0x3A

theorem coreByte_facts : ∀ c : UInt8, (!coreByte c ||
    (decide (c < 0x80) && c != 0x0A && c != 0x0D && c != 0x22)) = true :=
  forall_uint8 _ (by decide +kernel)

theorem nonblank_facts : ∀ c : UInt8, (!(isDigitB c || isLowerB c || isUpperB c || c == 0x2D || c == 0x2E || c == 0x3A) ||
    (coreByte c && !isBlank c)) = true :=
  forall_uint8 _ (by decide +kernel)

theorem coreByte_spec {c : UInt8} (h : coreByte c = true) : c < 0x80 ∧ c ≠ 0x0A ∧ c ≠ 0x0D ∧ c ≠ 0x22 := by
  have := coreByte_facts c
  simp only [h, Bool.not_true, Bool.false_or, Bool.and_eq_true, decide_eq_true_eq, bne_iff_ne, ne_eq] at this
  exact ⟨this.1.1.1, this.1.1.2, this.1.2, this.2⟩

/-- a byte of a word: not a blank -/
def inkByte (c : UInt8) : Bool :=
  isDigitB c || isLowerB c || isUpperB c || c == 0x2D || c == 0x2E || c == 0x3A

theorem inkByte_spec {c : UInt8} (h : inkByte c = true) : coreByte c = true ∧ isBlank c = false := by
  have := nonblank_facts c
  unfold inkByte at h
  simp only [h, Bool.not_true, Bool.false_or, Bool.and_eq_true, Bool.not_eq_true'] at this
  exact this

theorem ink_digit {c : UInt8} (h : isDigitB c = true) : inkByte c = true := by simp [inkByte, h]
theorem ink_lower {c : UInt8} (h : isLowerB c = true) : inkByte c = true := by simp [inkByte, h]
theorem ink_upper {c : UInt8} (h : isUpperB c = true) : inkByte c = true := by simp [inkByte, h]

theorem core_blank : coreByte 0x20 = true := by decide

/-- the bytes of a list of words joined by `sep` -/
theorem joinWith_bytes {P : UInt8 → Prop} {sep : UInt8} {ws : List Bytes} (hs : P sep)
    (hw : ∀ w ∈ ws, ∀ c ∈ w, P c) : ∀ c ∈ joinWith sep ws, P c := by
  intro c hc
  rcases mem_joinWith hc with h | ⟨w, hw', hcw⟩
  · rw [h]; exact hs
  · exact hw w hw' c hcw

theorem acct_ink {p : Posting} (hp : p.wf = true) : p.acct ≠ [] ∧ ∀ c ∈ p.acct, inkByte c = true := by
  simp only [Posting.wf, Bool.and_eq_true, decide_eq_true_eq, List.all_eq_true] at hp
  obtain ⟨⟨h1, h2⟩, _⟩ := hp
  constructor
  · match hs : p.segs, h1 with
    | s1 :: s2 :: ss, _ =>
      have := (word_spec (h2 s1 (by simp [hs]))).1
      obtain ⟨c, t, hc⟩ := List.exists_cons_of_ne_nil this
      simp [Posting.acct, hs, joinWith, hc]
  · exact joinWith_bytes (P := fun c => inkByte c = true) (by decide)
      (fun w hw c hc => ink_lower ((word_spec (h2 w hw)).2 c hc))

theorem signNum_ink {a : Amount} (h : a.wf = true) :
    a.signText ++ a.numText ≠ [] ∧ ∀ c ∈ a.signText ++ a.numText, inkByte c = true := by
  simp only [Amount.wf, Bool.and_eq_true] at h
  obtain ⟨⟨h1, h2⟩, _⟩ := h
  have hi := word_spec h1
  constructor
  · obtain ⟨c, t, hc⟩ := List.exists_cons_of_ne_nil hi.1
    simp [Amount.numText, hc]
  · intro c hc
    simp only [Amount.signText, Amount.numText, List.mem_append] at hc
    rcases hc with hc | hc | hc
    · split at hc
      · simp at hc; rw [hc]; decide
      · cases hc
    · exact ink_digit (hi.2 c hc)
    · cases hf : a.frac with
      | none => simp [hf] at hc
      | some f =>
        rw [hf] at h2
        simp only [Bool.and_eq_true] at h2
        have := word_spec h2.1.1
        simp only [hf, List.mem_cons] at hc
        rcases hc with hc | hc
        · rw [hc]; decide
        · exact ink_digit (this.2 c hc)

theorem com_ink {a : Amount} (h : a.wf = true) {w : Bytes} (hw : a.com = some w) :
    w ≠ [] ∧ ∀ c ∈ w, inkByte c = true := by
  simp only [Amount.wf, Bool.and_eq_true] at h
  obtain ⟨_, h3⟩ := h
  rw [hw] at h3
  have := word_spec h3
  exact ⟨this.1, fun c hc => ink_upper (this.2 c hc)⟩

/-- the last word of an amount: `print = m ++ w`, `w` non-empty without blanks -/
theorem amount_tail {a : Amount} (h : a.wf = true) :
    ∃ m w, a.print = m ++ w ∧ w ≠ [] ∧ (∀ c ∈ w, inkByte c = true) ∧ (∀ c ∈ m, coreByte c = true) := by
  obtain ⟨hne, hink⟩ := signNum_ink h
  cases hc : a.com with
  | none =>
    exact ⟨[], a.signText ++ a.numText, by simp [Amount.print, Amount.comText, hc], hne, hink, by simp⟩
  | some w =>
    obtain ⟨hw, hwi⟩ := com_ink h hc
    refine ⟨a.signText ++ a.numText ++ [0x20], w, by simp [Amount.print, Amount.comText, hc], hw, hwi, ?_⟩
    intro c hc'
    rcases List.mem_append.mp hc' with h' | h'
    · exact (inkByte_spec (hink c h')).1
    · simp at h'; rw [h']; decide

theorem amount_core {a : Amount} (h : a.wf = true) : ∀ c ∈ a.print, coreByte c = true := by
  obtain ⟨m, w, he, _, hw, hm⟩ := amount_tail h
  intro c hc
  rw [he] at hc
  rcases List.mem_append.mp hc with h' | h'
  · exact hm c h'
  · exact (inkByte_spec (hw c h')).1

theorem mem_blanks_core {n : Nat} {c : UInt8} (h : c ∈ blanks n) : coreByte c = true := by
  rw [mem_blanks h]; decide

/-- a posting line: core bytes only, no trailing blank -/
theorem posting_line {p : Posting} (hp : p.wf = true) (L : Layout) :
    (∀ c ∈ p.printL L, coreByte c = true) ∧ trimRight (p.printL L) = p.printL L := by
  obtain ⟨hane, haink⟩ := acct_ink hp
  have hamt : ∀ a, p.amount = some a → a.wf = true := by
    intro a ha
    simp only [Posting.wf, Bool.and_eq_true] at hp
    have := hp.2; rw [ha] at this; exact this
  cases ha : p.amount with
  | none =>
    have e : p.printL L = blanks L.indent ++ p.acct := by simp [Posting.printL, Posting.amtTextL, ha]
    rw [e]
    constructor
    · intro c hc
      rcases List.mem_append.mp hc with h | h
      · exact mem_blanks_core h
      · exact (inkByte_spec (haink c h)).1
    · exact trimRight_append _ _ hane (trimRight_nonblank _ (fun c hc => (inkByte_spec (haink c hc)).2))
  | some a =>
    obtain ⟨m, w, he, hw, hwi, hm⟩ := amount_tail (hamt a ha)
    have e : p.printL L = (blanks L.indent ++ p.acct ++ blanks (L.gap p) ++ m) ++ w := by
      simp [Posting.printL, Posting.amtTextL, ha, he]
    rw [e]
    constructor
    · intro c hc
      simp only [List.mem_append] at hc
      rcases hc with ((((h | h) | h) | h) | h)
      · exact mem_blanks_core h
      · exact (inkByte_spec (haink c h)).1
      · exact mem_blanks_core h
      · exact hm c h
      · exact (inkByte_spec (hwi c h)).1
    · exact trimRight_append _ _ hw (trimRight_nonblank _ (fun c hc => (inkByte_spec (hwi c hc)).2))

/-- a header line: core bytes only, no trailing blank -/
theorem header_line {t : Tx} (ht : t.wf = true) :
    (∀ c ∈ t.header, coreByte c = true) ∧ trimRight t.header = t.header := by
  obtain ⟨hd, hne, hws, _⟩ := Tx.wf_spec ht
  simp only [Date.wf, Bool.and_eq_true, beq_iff_eq, List.all_eq_true] at hd
  obtain ⟨⟨⟨⟨⟨_, hyd⟩, _⟩, hmd⟩, _⟩, hdd⟩ := hd
  have hdescr : ∀ c ∈ t.descr, coreByte c = true :=
    joinWith_bytes (P := fun c => coreByte c = true) (by decide)
      (fun w hw c hc => (inkByte_spec (ink_lower ((word_spec (hws w hw)).2 c hc))).1)
  constructor
  · intro c hc
    simp only [Tx.header, Date.print, List.mem_append, List.mem_cons] at hc
    rcases hc with ((h | h | h) | h | h) | h | h
    · exact (inkByte_spec (ink_digit (hyd c h))).1
    · rw [h]; decide
    · exact (inkByte_spec (ink_digit (hmd c h))).1
    · rw [h]; decide
    · exact (inkByte_spec (ink_digit (hdd c h))).1
    · rw [h]; decide
    · exact hdescr c h
  · obtain ⟨m, d, w, hw, hdw, he⟩ := joinWith_last 0x20 t.words hne (fun w hw => (word_spec (hws w hw)).1)
    have e : t.header = (t.date.print ++ 0x20 :: m) ++ [d] := by
      simp only [Tx.header, Tx.descr, he]; simp
    rw [e]
    refine trimRight_append _ _ (by simp) (trimRight_nonblank _ ?_)
    intro c hc
    simp at hc; rw [hc]
    exact (inkByte_spec (ink_lower ((word_spec (hws w hw)).2 d hdw))).2

/-! ### the lines of a printed journal -/

def Tx.linesL (L : Layout) (t : Tx) : List Bytes := t.header :: t.postings.map (·.printL L)

def linesL (L : Layout) : Journal → List Bytes
  | [] => [[]]
  | [t] => t.linesL L ++ [[]]
  | t :: ts => t.linesL L ++ [] :: linesL L ts

/-- what every line of a printed journal satisfies -/
def GoodLine (l : Bytes) : Prop := (∀ c ∈ l, coreByte c = true) ∧ trimRight l = l

theorem goodLine_nil : GoodLine [] := ⟨by simp, rfl⟩

theorem tx_lines_good (L : Layout) {t : Tx} (ht : t.wf = true) : ∀ l ∈ t.linesL L, GoodLine l := by
  intro l hl
  simp only [Tx.linesL, List.mem_cons, List.mem_map] at hl
  rcases hl with rfl | ⟨p, hp, rfl⟩
  · exact header_line ht
  · exact posting_line ((Tx.wf_spec ht).2.2.2 p hp) L

theorem lines_good (L : Layout) (j : Journal) (hj : WF j = true) : ∀ l ∈ linesL L j, GoodLine l := by
  induction j with
  | nil => intro l hl; simp [linesL] at hl; rw [hl]; exact goodLine_nil
  | cons t ts ih =>
    simp only [WF, List.all_cons, Bool.and_eq_true] at hj
    intro l hl
    cases ts with
    | nil =>
      simp only [linesL, List.mem_append, List.mem_cons, List.not_mem_nil, or_false] at hl
      rcases hl with h | h
      · exact tx_lines_good L hj.1 l h
      · rw [h]; exact goodLine_nil
    | cons t2 ts =>
      simp only [linesL, List.mem_append, List.mem_cons] at hl
      rcases hl with h | h | h
      · exact tx_lines_good L hj.1 l h
      · rw [h]; exact goodLine_nil
      · exact ih hj.2 l h

theorem goodLine_noLF {l : Bytes} (h : GoodLine l) : ∀ c ∈ l, c ≠ 10 :=
  fun c hc => (coreByte_spec (h.1 c hc)).2.1

theorem goodLine_plain {l : Bytes} (h : GoodLine l) : Plain l := by
  refine ⟨fun c hc => (coreByte_spec (h.1 c hc)).1, ?_⟩
  intro hl
  have := List.mem_of_getLast? hl
  exact (coreByte_spec (h.1 13 this)).2.2.1 rfl

theorem splitLines_postings (L : Layout) (ps : List Posting) (hps : ∀ p ∈ ps, p.wf = true) (rest : Bytes) :
    splitLines (printPostingsL L ps ++ rest) = ps.map (·.printL L) ++ splitLines rest := by
  induction ps with
  | nil => simp [printPostingsL]
  | cons p ps ih =>
    have := splitLines_line (p.printL L) (printPostingsL L ps ++ rest)
      (goodLine_noLF (posting_line (hps p (by simp)) L))
    simp only [printPostingsL, List.append_assoc, List.cons_append, List.map_cons]
    rw [this, ih (fun q hq => hps q (by simp [hq]))]

theorem splitLines_tx (L : Layout) {t : Tx} (ht : t.wf = true) (rest : Bytes) :
    splitLines (t.printL L ++ rest) = t.linesL L ++ splitLines rest := by
  have := splitLines_line t.header (printPostingsL L t.postings ++ rest) (goodLine_noLF (header_line ht))
  simp only [Tx.printL, Tx.linesL, List.append_assoc, List.cons_append]
  rw [this, splitLines_postings L _ (Tx.wf_spec ht).2.2.2]

/-- **The lines of a printed journal.** -/
theorem splitLines_printL (L : Layout) (j : Journal) (hj : WF j = true) :
    splitLines (printL L j) = linesL L j := by
  induction j with
  | nil => rfl
  | cons t ts ih =>
    simp only [WF, List.all_cons, Bool.and_eq_true] at hj
    cases ts with
    | nil =>
      have := splitLines_tx L hj.1 []
      simpa [printL, linesL, splitLines] using this
    | cons t2 ts =>
      have := splitLines_tx L hj.1 (LF :: printL L (t2 :: ts))
      have h2 := splitLines_line [] (printL L (t2 :: ts)) (by simp)
      simp only [List.nil_append] at h2
      simp only [printL, linesL]
      rw [this, h2, ih hj.2]

theorem printL_core (L : Layout) (j : Journal) (hj : WF j = true) : ∀ c ∈ printL L j, c ≠ 0x22 := by
  have hp : ∀ (ps : List Posting), (∀ p ∈ ps, p.wf = true) → ∀ c ∈ printPostingsL L ps, c ≠ 0x22 := by
    intro ps
    induction ps with
    | nil => intro _ c hc; cases hc
    | cons p ps ih =>
      intro hps c hc
      simp only [printPostingsL, List.mem_append, List.mem_cons] at hc
      rcases hc with h | h | h
      · exact (coreByte_spec ((posting_line (hps p (by simp)) L).1 c h)).2.2.2
      · rw [h]; decide
      · exact ih (fun q hq => hps q (by simp [hq])) c h
  have ht : ∀ t : Tx, t.wf = true → ∀ c ∈ t.printL L, c ≠ 0x22 := by
    intro t ht c hc
    simp only [Tx.printL, List.mem_append, List.mem_cons] at hc
    rcases hc with h | h | h
    · exact (coreByte_spec ((header_line ht).1 c h)).2.2.2
    · rw [h]; decide
    · exact hp _ (Tx.wf_spec ht).2.2.2 c h
  induction j with
  | nil => intro c hc; cases hc
  | cons t ts ih =>
    simp only [WF, List.all_cons, Bool.and_eq_true] at hj
    intro c hc
    cases ts with
    | nil => exact ht t hj.1 c (by simpa [printL] using hc)
    | cons t2 ts =>
      simp only [printL, List.mem_append, List.mem_cons] at hc
      rcases hc with h | h | h
      · exact ht t hj.1 c h
      · rw [h]; decide
      · exact ih hj.2 c h

/-! ### what the formatter writes for a posting of the core grammar -/

theorem spaces_eq_blanks (n : Nat) : spaces n = blanks n := rfl

theorem isAscii_of_core {l : Bytes} (h : ∀ c ∈ l, coreByte c = true) : IsAscii l :=
  fun c hc => (coreByte_spec (h c hc)).1

/-- `writeAmountWithSign` without commodity formats: the quantity as written, a blank and the
    commodity. -/
theorem writeAmount_core {a : Amount} (h : a.wf = true) (ln c o : Nat) (doc : Bytes)
    (hdoc : ∀ b ∈ doc, b ≠ 0x22) :
    writeAmountWithSign (a.expected ln c o) (some []) doc = a.print := by
  obtain ⟨hne, _⟩ := signNum_ink h
  have hq : formatAmountQuantity (a.expected ln c o) (some []) = a.signText ++ a.numText := by
    simp [formatAmountQuantity, Formats.get, Amount.expected, hne]
  have hnq : ∀ i : Nat, (doc[i]? == some (34 : UInt8)) = false := by
    intro i
    cases hi : doc[i]? with
    | none => rfl
    | some b =>
      have hb := hdoc b (List.mem_of_getElem? hi)
      simp only [beq_eq_false_iff_ne, ne_eq, Option.some.injEq]
      exact hb
  unfold writeAmountWithSign
  rw [hq]
  cases hc : a.com with
  | none =>
    simp only [Amount.expected, hc, commodityText, hnq, Bool.false_and, Bool.false_eq_true, if_false,
      List.nil_append]
    cases hs : a.signText ++ a.numText with
    | nil => exact absurd hs hne
    | cons x r => simp [Amount.print, Amount.comText, hc, hs]
  | some w =>
    obtain ⟨hw, _⟩ := com_ink h hc
    have hsd : (Side.right == Side.left) = false := rfl
    simp [Amount.expected, hc, commodityText, hnq, Amount.print, Amount.comText, hw, hsd]

/-- the gap the formatter leaves in front of an amount -/
def gapOf (align : Bool) (g ind : Nat) (p : Posting) : Nat :=
  if align && g > 0 then max (g - (ind + p.acct.length)) 2 else 2

/-- the layout the formatter writes with indent `ind`, alignment column `g` -/
def outLayout (align : Bool) (g ind : Nat) : Layout := ⟨ind, gapOf align g ind⟩

/-- **`formatPostingWithOpts` on a posting of the core grammar** (no commodity formats): indent,
    account, the gap, the amount as written. -/
theorem formatPosting_core {p : Posting} (hp : p.wf = true) (L : Layout) (ln o : Nat) (al : AlignmentInfo)
    (ind : Nat) (align : Bool) (doc : Bytes) (hdoc : ∀ b ∈ doc, b ≠ 0x22) :
    formatPostingWithOpts (p.expectedL L ln o) al (some []) (spaces ind) align doc =
      p.printL (outLayout align al.accountCol ind) := by
  obtain ⟨_, haink⟩ := acct_ink hp
  have hamt : ∀ a, p.amount = some a → a.wf = true := by
    intro a ha
    simp only [Posting.wf, Bool.and_eq_true] at hp
    have := hp.2; rw [ha] at this; exact this
  have hasc : IsAscii p.acct := fun c hc => (coreByte_spec (inkByte_spec (haink c hc)).1).1
  have hhead : postingHead (p.expectedL L ln o) (spaces ind) = spaces ind ++ p.acct := by
    simp [postingHead, Posting.expectedL, statusMark, openMark, closeMark]
  have hrc : runeCount (spaces ind ++ p.acct) = ind + p.acct.length := by
    rw [runeCount_ascii_append _ _ (isAscii_spaces ind), spaces_length, runeCount_ascii _ hasc]
  have hgap : amountGap (p.expectedL L ln o) al (spaces ind) align = gapOf align al.accountCol ind p := by
    unfold amountGap gapOf minSpaces
    rw [hhead, hrc]
  have hcost : (p.expectedL L ln o).cost = none := rfl
  have hass : (p.expectedL L ln o).assertion = none := rfl
  have hcom : (p.expectedL L ln o).comment = [] := rfl
  have hamtE : (p.expectedL L ln o).amount =
      p.amount.map fun am => am.expected ln (1 + (L.indent + p.acct.length + L.gap p))
        (o + (L.indent + p.acct.length + L.gap p)) := rfl
  unfold formatPostingWithOpts postingUpToCost
  rw [hhead, hgap, hcost, hass, hcom, hamtE]
  cases ha : p.amount with
  | none =>
    simp [commentText, trimRightCR, Posting.printL, Posting.amtTextL, outLayout, spaces_eq_blanks, ha]
  | some a =>
    simp [commentText, trimRightCR, Posting.printL, Posting.amtTextL, outLayout, spaces_eq_blanks, ha,
      writeAmount_core (hamt a ha) ln _ _ doc hdoc]

/-! ### the edit list as splices of a segmented document -/

def postingSegs (L L' : Layout) (ps : List Posting) : List Seg :=
  ps.flatMap fun p => [.repl (p.printL L) (p.printL L'), .keep [LF]]

def txSegs (L L' : Layout) (t : Tx) : List Seg := .keep (t.header ++ [LF]) :: postingSegs L L' t.postings

def segsL (L L' : Layout) : Journal → List Seg
  | [] => []
  | [t] => txSegs L L' t
  | t :: ts => txSegs L L' t ++ .keep [LF] :: segsL L L' ts

theorem oldText_postingSegs (L L' : Layout) (ps : List Posting) :
    oldText (postingSegs L L' ps) = printPostingsL L ps := by
  induction ps with
  | nil => rfl
  | cons p ps ih =>
    have : postingSegs L L' (p :: ps) = .repl (p.printL L) (p.printL L') :: .keep [LF] :: postingSegs L L' ps := by
      simp [postingSegs]
    rw [this]
    simp only [oldText, printPostingsL, ih]; simp

theorem newText_postingSegs (L L' : Layout) (ps : List Posting) :
    newText (postingSegs L L' ps) = printPostingsL L' ps := by
  induction ps with
  | nil => rfl
  | cons p ps ih =>
    have : postingSegs L L' (p :: ps) = .repl (p.printL L) (p.printL L') :: .keep [LF] :: postingSegs L L' ps := by
      simp [postingSegs]
    rw [this]
    simp only [newText, printPostingsL, ih]; simp

theorem oldText_txSegs (L L' : Layout) (t : Tx) : oldText (txSegs L L' t) = t.printL L := by
  simp [txSegs, oldText, oldText_postingSegs, Tx.printL]

theorem newText_txSegs (L L' : Layout) (t : Tx) : newText (txSegs L L' t) = t.printL L' := by
  simp [txSegs, newText, newText_postingSegs, Tx.printL]

theorem oldText_segsL (L L' : Layout) (j : Journal) : oldText (segsL L L' j) = printL L j := by
  induction j with
  | nil => rfl
  | cons t ts ih =>
    cases ts with
    | nil => simp [segsL, printL, oldText_txSegs]
    | cons t2 ts =>
      simp only [segsL, printL, oldText_append, oldText, oldText_txSegs, ih]; simp

theorem newText_segsL (L L' : Layout) (j : Journal) : newText (segsL L L' j) = printL L' j := by
  induction j with
  | nil => rfl
  | cons t ts ih =>
    cases ts with
    | nil => simp [segsL, printL, newText_txSegs]
    | cons t2 ts =>
      simp only [segsL, printL, newText_append, newText, newText_txSegs, ih]; simp

theorem bytesOf_postings (L : Layout) (ps : List Posting) :
    bytesOf (ps.map (·.printL L)) = (printPostingsL L ps).length := by
  induction ps with
  | nil => rfl
  | cons p ps ih => simp only [List.map_cons, bytesOf, ih, printPostingsL, List.length_append, List.length_cons]; omega

theorem bytesOf_tx (L : Layout) (t : Tx) : bytesOf (t.linesL L) = (t.printL L).length := by
  simp only [Tx.linesL, bytesOf, bytesOf_postings, Tx.printL, List.length_append, List.length_cons]; omega

/-- the splice of one posting edit: the whole line `l` (line `A.length`, 0-based) is replaced -/
theorem posting_splice (lines A B : List Bytes) (l : Bytes) (hl : lines = A ++ l :: B) (hs : SmallLines lines)
    (hp : Plain l) (pe : Ast.Posting) (hline : pe.range.start.line = A.length + 1) (text : Bytes) :
    toSplice lines (postingEdit lines pe text) = ⟨bytesOf A, bytesOf A + l.length, text⟩ := by
  have hlen : lines.length = A.length + B.length + 1 := by rw [hl]; simp; omega
  have hlt : A.length < lines.length := by omega
  have hcount := hs.count
  have hpl : postingLine pe = ((A.length : Nat) : Int) := by unfold postingLine; omega
  have hu : (u32 (postingLine pe)).toNat = A.length := by
    rw [u32_toNat _ (by rw [hpl]; omega) (by rw [hpl]; omega), hpl]; simp
  have hget : lines.getD A.length [] = l := by rw [hl]; exact getD_append_head A l B
  have hw : l.length < 4294967296 := hs.width l (by rw [hl]; simp)
  have hu16 : lineU16 lines (postingLine pe) = l.length := by
    rw [hpl, lineU16_eq lines _ hlt, hget, content_plain l hp, u16len_ascii l hp.1]
  have hoff : ∀ ch, offset lines A.length ch = bytesOf A + lineOffset l ch := by
    intro ch
    have := offset_append A (l :: B) (by simp) 0 ch
    rw [hl]
    simpa [offset_head] using this
  simp only [toSplice, postingEdit, hu, hu16, ofNat_toNat _ hw, hoff]
  have z : (0 : UInt32).toNat = 0 := rfl
  rw [z, lineOffset_plain_zero, lineOffset_plain_all l hp]
  simp

/-- the posting edits of one transaction, as splices -/
theorem postings_splices (lines : List Bytes) (hs : SmallLines lines) (hgood : ∀ l ∈ lines, Plain l)
    (L L' : Layout) (F : Ast.Posting → Bytes) (ps : List Posting)
    (hF : ∀ p ∈ ps, ∀ ln o, F (p.expectedL L ln o) = p.printL L') :
    ∀ (A B : List Bytes), lines = A ++ ps.map (·.printL L) ++ B →
      (expectedPostingsL L ps (A.length + 1) (bytesOf A)).map
          (fun pe => toSplice lines (postingEdit lines pe (F pe))) =
        toSplices (postingSegs L L' ps) (bytesOf A) := by
  induction ps with
  | nil => intro A B _; rfl
  | cons p ps ih =>
    intro A B hl
    have hl1 : lines = A ++ p.printL L :: (ps.map (·.printL L) ++ B) := by rw [hl]; simp
    have hpl : Plain (p.printL L) := hgood _ (by rw [hl1]; simp)
    have e1 := posting_splice lines A _ (p.printL L) hl1 hs hpl (p.expectedL L (A.length + 1) (bytesOf A))
      rfl (F (p.expectedL L (A.length + 1) (bytesOf A)))
    have hl2 : lines = (A ++ [p.printL L]) ++ ps.map (·.printL L) ++ B := by rw [hl]; simp
    have e2 := ih (fun q hq => hF q (by simp [hq])) (A ++ [p.printL L]) B hl2
    have hb : bytesOf (A ++ [p.printL L]) = bytesOf A + (p.printL L).length + 1 := by
      rw [bytesOf_append]; simp [bytesOf]; omega
    have hn : (A ++ [p.printL L]).length + 1 = A.length + 1 + 1 := by simp
    rw [hb, hn] at e2
    have hseg : postingSegs L L' (p :: ps) =
        .repl (p.printL L) (p.printL L') :: .keep [LF] :: postingSegs L L' ps := by simp [postingSegs]
    rw [hF p (by simp)] at e1
    rw [hseg]
    simp only [expectedPostingsL, List.map_cons, toSplices, List.length_cons, List.length_nil]
    rw [hF p (by simp), e1, e2, show bytesOf A + (p.printL L).length + (0 + 1) = bytesOf A + (p.printL L).length + 1 by omega]

theorem filter_const_true {α} (l : List α) : l.filter (fun _ => true) = l := by
  induction l <;> simp_all

theorem outLayout_congr (align : Bool) (g ind : Nat) :
    outLayout align (if align then g else 0) ind = outLayout align g ind := by
  cases align <;> rfl

theorem alignment_col (ps : List Ast.Posting) (doc : Bytes) (g : Nat) (align : Bool) :
    (if align then alignmentWithGlobal ps (some []) g doc else (⟨0, 0⟩ : AlignmentInfo)).accountCol =
      if align then g else 0 := by
  cases align
  · rfl
  · simp only [if_true]; exact HL.Props.C05.alignmentWithGlobal_col ps _ g doc

/-- the edits of one transaction, as splices -/
theorem tx_splices (lines : List Bytes) (hs : SmallLines lines) (hgood : ∀ l ∈ lines, Plain l)
    (L : Layout) (doc : Bytes) (hdoc : ∀ b ∈ doc, b ≠ 0x22) (g ind : Nat) (align : Bool)
    (t : Tx) (ht : t.wf = true) (A B : List Bytes) (hl : lines = A ++ t.linesL L ++ B) :
    (formatTransaction (t.expectedL L (A.length + 1) (bytesOf A)) doc lines (some []) g ind align []).map
        (toSplice lines) =
      toSplices (txSegs L (outLayout align g ind) t) (bytesOf A) := by
  have hps := (Tx.wf_spec ht).2.2.2
  unfold formatTransaction
  simp only [List.contains_nil, Bool.not_false, filter_const_true, List.map_map, Function.comp_def]
  have hl2 : lines = (A ++ [t.header]) ++ t.postings.map (·.printL L) ++ B := by
    rw [hl]; simp [Tx.linesL]
  have hb : bytesOf (A ++ [t.header]) = bytesOf A + t.header.length + 1 := by
    rw [bytesOf_append]; simp [bytesOf]; omega
  have hn : (A ++ [t.header]).length + 1 = A.length + 1 + 1 := by simp
  have := postings_splices lines hs hgood L (outLayout align g ind)
    (fun pe => formatPostingWithOpts pe
      (if align then alignmentWithGlobal (t.expectedL L (A.length + 1) (bytesOf A)).postings (some []) g doc
        else ⟨0, 0⟩) (some []) (spaces ind) align doc)
    t.postings
    (by
      intro p hp ln o
      rw [formatPosting_core (hps p hp) L ln o _ ind align doc hdoc, alignment_col, outLayout_congr])
    (A ++ [t.header]) B hl2
  rw [hb, hn] at this
  simp only [txSegs, toSplices, List.length_append, List.length_cons, List.length_nil]
  rw [show bytesOf A + (t.header.length + (0 + 1)) = bytesOf A + t.header.length + 1 by omega, ← this]
  rfl

/-- the posting edits of a whole journal, as splices -/
theorem journal_splices (lines : List Bytes) (hs : SmallLines lines) (hgood : ∀ l ∈ lines, Plain l)
    (L : Layout) (doc : Bytes) (hdoc : ∀ b ∈ doc, b ≠ 0x22) (g ind : Nat) (align : Bool)
    (j : Journal) (hj : WF j = true) :
    ∀ A : List Bytes, lines = A ++ linesL L j →
      ((expectedTxsL L j (A.length + 1) (bytesOf A)).flatMap fun tx =>
          formatTransaction tx doc lines (some []) g ind align []).map (toSplice lines) =
        toSplices (segsL L (outLayout align g ind) j) (bytesOf A) := by
  induction j with
  | nil => intro A _; rfl
  | cons t ts ih =>
    intro A hl
    simp only [WF, List.all_cons, Bool.and_eq_true] at hj
    cases ts with
    | nil =>
      have := tx_splices lines hs hgood L doc hdoc g ind align t hj.1 A [[]] (by rw [hl]; simp [linesL])
      simp only [expectedTxsL, List.flatMap_cons, List.flatMap_nil, List.append_nil, segsL]
      exact this
    | cons t2 ts =>
      have h1 := tx_splices lines hs hgood L doc hdoc g ind align t hj.1 A ([] :: linesL L (t2 :: ts))
        (by rw [hl]; simp [linesL])
      have hl2 : lines = (A ++ t.linesL L ++ [[]]) ++ linesL L (t2 :: ts) := by rw [hl]; simp [linesL]
      have h2 := ih hj.2 (A ++ t.linesL L ++ [[]]) hl2
      have hb : bytesOf (A ++ t.linesL L ++ [[]]) = bytesOf A + (t.printL L).length + 1 := by
        rw [bytesOf_append, bytesOf_append, bytesOf_tx]; simp [bytesOf]
      have hn : (A ++ t.linesL L ++ [[]]).length + 1 = A.length + 1 + t.postings.length + 2 := by
        simp [Tx.linesL]; omega
      rw [hb, hn] at h2
      have er : segsL L (outLayout align g ind) (t :: t2 :: ts) =
          txSegs L (outLayout align g ind) t ++ .keep [LF] :: segsL L (outLayout align g ind) (t2 :: ts) := rfl
      rw [er, toSplices_append, oldText_txSegs]
      simp only [toSplices, List.length_cons, List.length_nil]
      rw [show bytesOf A + (t.printL L).length + (0 + 1) = bytesOf A + (t.printL L).length + 1 by omega,
        ← h1, ← h2, ← List.map_append]
      simp only [expectedTxsL, List.flatMap_cons]

/-! ### the alignment column -/

theorem accountDisplayLength_core {p : Posting} (hp : p.wf = true) (L : Layout) (ln o : Nat) :
    accountDisplayLength (p.expectedL L ln o) = p.acct.length := by
  obtain ⟨_, haink⟩ := acct_ink hp
  have hasc : IsAscii p.acct := fun c hc => (coreByte_spec (inkByte_spec (haink c hc)).1).1
  simp [accountDisplayLength, Posting.expectedL, runeCount_ascii _ hasc]

theorem maxAccountLen_core (L : Layout) (ps : List Posting) (hps : ∀ p ∈ ps, p.wf = true) :
    ∀ (ln o acc : Nat), maxAccountLen (expectedPostingsL L ps ln o) acc =
      ps.foldl (fun m p => max m p.acct.length) acc := by
  induction ps with
  | nil => intro _ _ _; rfl
  | cons p ps ih =>
    intro ln o acc
    have := ih (fun q hq => hps q (by simp [hq])) (ln + 1) (o + (p.printL L).length + 1)
    unfold maxAccountLen at this ⊢
    simp only [expectedPostingsL, List.foldl_cons, accountDisplayLength_core (hps p (by simp))]
    rw [show (if p.acct.length > acc then p.acct.length else acc) = max acc p.acct.length by
      simp only [Nat.max_def]; split <;> split <;> omega]
    exact this _

theorem maxAccountLenTxs_core (L : Layout) (j : Journal) (hj : WF j = true) :
    ∀ (ln o acc : Nat), (expectedTxsL L j ln o).foldl (fun m t => maxAccountLen t.postings m) acc =
      (j.flatMap (·.postings)).foldl (fun m p => max m p.acct.length) acc := by
  induction j with
  | nil => intro _ _ _; rfl
  | cons t ts ih =>
    intro ln o acc
    simp only [WF, List.all_cons, Bool.and_eq_true] at hj
    simp only [expectedTxsL, List.foldl_cons, List.flatMap_cons, List.foldl_append, Tx.expectedL,
      maxAccountLen_core L t.postings (Tx.wf_spec hj.1).2.2.2]
    exact ih hj.2 _ _ _

theorem effIndent_eq (o : Options) : effIndent o = canonIndent o := rfl

/-- the formatter's alignment column on the tree of a core journal -/
theorem effGlobalCol_core (L : Layout) (j : Journal) (hj : WF j = true) (o : Options)
    (h : o.alignAmounts = true) : effGlobalCol (expectedL L j) o = canonCol o j := by
  rw [HL.Props.C05.effGlobalCol_eq _ o h]
  unfold canonCol widest maxAccountLenTxs
  rw [effIndent_eq]
  show max (canonIndent o + (expectedTxsL L j 1 0).foldl _ 0 + 2) _ = _
  rw [maxAccountLenTxs_core L j hj]

theorem canonCol_pos (o : Options) (j : Journal) : 0 < canonCol o j := by
  unfold canonCol; omega

/-- the layout the formatter writes is the canonical one -/
theorem outLayout_canon (L : Layout) (j : Journal) (hj : WF j = true) (o : Options) :
    outLayout o.alignAmounts (effGlobalCol (expectedL L j) o) (effIndent o) = canonLayout o j := by
  unfold outLayout canonLayout
  rw [effIndent_eq]
  congr 1
  funext p
  unfold gapOf
  cases ha : o.alignAmounts with
  | false => simp
  | true =>
    rw [effGlobalCol_core L j hj o ha]
    simp [canonCol_pos]

/-! ### the composition -/

/-- **The formatter on a core journal printed under any layout.**  The edits `formatDocument`
    returns for the text `printL L j` and its tree, applied to that text by the reference
    applier, give the journal printed under the canonical layout of the options. -/
theorem format_printL (L : Layout) (o : Options) (j : Journal) (hj : WF j = true)
    (hsize : (printL L j).length < 4294967296) :
    applyEdits (printL L j) (formatDocument (expectedL L j) (printL L j) none o []) =
      some (printL (canonLayout o j) j) := by
  have hlines := splitLines_printL L j hj
  have hgood := lines_good L j hj
  have hs : SmallLines (linesL L j) := by rw [← hlines]; exact smallLines_of_doc _ hsize
  rw [HL.Props.C05.formatDocument_eq]
  have hfm : HL.Props.C05.effFormats (expectedL L j) none = [] := rfl
  have htrim : trimTrailingSpacesEdits (splitLines (printL L j))
      ((allPostings (expectedL L j)).map postingLine) [] = [] := by
    unfold trimTrailingSpacesEdits
    rw [hlines]
    exact trimLoop_nil _ _ _ (fun l hl => (hgood l hl).2) 0
  rw [hfm, htrim, List.append_nil]
  unfold HL.Props.C05.txEdits
  have := journal_splices (linesL L j) hs (fun l hl => goodLine_plain (hgood l hl)) L (printL L j)
    (printL_core L j hj) (effGlobalCol (expectedL L j) o) (effIndent o) o.alignAmounts j hj [] rfl
  simp only [List.length_nil, Nat.zero_add, bytesOf] at this
  rw [outLayout_canon L j hj o] at this
  have hseg := applyEdits_segs (segsL L (canonLayout o j) j)
    ((expectedL L j).transactions.flatMap fun tx =>
      formatTransaction tx (printL L j) (splitLines (printL L j)) (some []) (effGlobalCol (expectedL L j) o)
        (effIndent o) o.alignAmounts [])
    (by rw [oldText_segsL, hlines]; exact this)
  rw [oldText_segsL, newText_segsL] at hseg
  exact hseg

/-! ### the tree of a core journal fits its text (`TreeFits` of HL/Props/C05.lean) -/

theorem postings_linenos (L : Layout) (ps : List Posting) : ∀ ln o,
    (expectedPostingsL L ps ln o).map (·.range.start.line) = List.range' ln ps.length := by
  induction ps with
  | nil => intro _ _; rfl
  | cons p ps ih =>
    intro ln o
    simp only [expectedPostingsL, List.map_cons, List.length_cons, List.range'_succ, ih]
    rfl

theorem linesL_length_pos (L : Layout) (j : Journal) : 0 < (linesL L j).length := by
  cases j with
  | nil => simp [linesL]
  | cons t ts => cases ts <;> simp [linesL, Tx.linesL]

/-- the posting lines of the tree: strictly increasing, behind line `ln`, inside the text -/
theorem txs_linenos (L : Layout) (j : Journal) : ∀ ln o,
    (((expectedTxsL L j ln o).flatMap (·.postings)).map (·.range.start.line)).Pairwise (· < ·) ∧
    ∀ x ∈ ((expectedTxsL L j ln o).flatMap (·.postings)).map (·.range.start.line),
      ln < x ∧ x + 1 < ln + (linesL L j).length := by
  induction j with
  | nil => intro _ _; simp [expectedTxsL]
  | cons t ts ih =>
    intro ln o
    have ht : (t.expectedL L ln o).postings.map (·.range.start.line) = List.range' (ln + 1) t.postings.length :=
      postings_linenos L t.postings _ _
    cases ts with
    | nil =>
      simp only [expectedTxsL, List.flatMap_cons, List.flatMap_nil, List.append_nil, ht]
      refine ⟨List.pairwise_lt_range' .., ?_⟩
      intro x hx
      have := List.mem_range'_1.mp hx
      simp only [linesL, Tx.linesL, List.length_append, List.length_cons, List.length_map, List.length_nil]
      omega
    | cons t2 ts =>
      obtain ⟨ih1, ih2⟩ := ih (ln + t.postings.length + 2) (o + (t.printL L).length + 1)
      have hpos := linesL_length_pos L (t2 :: ts)
      simp only [expectedTxsL, List.flatMap_cons, List.map_append, ht] at ih1 ih2 ⊢
      have hlen : (linesL L (t :: t2 :: ts)).length = t.postings.length + 2 + (linesL L (t2 :: ts)).length := by
        simp only [linesL, Tx.linesL, List.length_append, List.length_cons, List.length_map]; omega
      constructor
      · rw [List.pairwise_append]
        refine ⟨List.pairwise_lt_range' .., ih1, ?_⟩
        intro a ha b hb
        have := List.mem_range'_1.mp ha
        have := (ih2 b hb).1
        omega
      · intro x hx
        rw [hlen]
        rcases List.mem_append.mp hx with h | h
        · have := List.mem_range'_1.mp h
          omega
        · have := ih2 x h
          omega

/-- **The tree of a printed core journal fits the text**: every posting starts on a line of the
    text, no two on the same line. -/
theorem treeFits_printL (L : Layout) (j : Journal) (hj : WF j = true)
    (hsize : (printL L j).length < 4294967296) : HL.Props.C05.TreeFits (printL L j) (expectedL L j) := by
  obtain ⟨h1, h2⟩ := txs_linenos L j 1 0
  refine ⟨hsize, ?_, ?_⟩
  · intro p hp
    have := h2 p.range.start.line (List.mem_map.mpr ⟨p, hp, rfl⟩)
    rw [splitLines_printL L j hj]
    omega
  · exact h1.imp (fun h => Nat.ne_of_lt h)

/-! ### line by line: everything but the posting lines is unchanged -/

/-- two lines are equal, or they are the same posting under the two layouts -/
def LineRel (L L' : Layout) (a b : Bytes) : Prop := a = b ∨ ∃ p : Posting, a = p.printL L ∧ b = p.printL L'

/-- two line lists of equal length, related line by line -/
inductive LinesRel (L L' : Layout) : List Bytes → List Bytes → Prop
  | nil : LinesRel L L' [] []
  | cons {a b : Bytes} {as bs : List Bytes} : LineRel L L' a b → LinesRel L L' as bs → LinesRel L L' (a :: as) (b :: bs)

theorem LinesRel.length {L L' : Layout} {as bs : List Bytes} (h : LinesRel L L' as bs) : as.length = bs.length := by
  induction h with
  | nil => rfl
  | cons _ _ ih => simp [ih]

theorem LinesRel.append {L L' : Layout} {a1 a2 b1 b2 : List Bytes}
    (h1 : LinesRel L L' a1 b1) (h2 : LinesRel L L' a2 b2) : LinesRel L L' (a1 ++ a2) (b1 ++ b2) := by
  induction h1 with
  | nil => exact h2
  | cons h _ ih => exact LinesRel.cons h ih

theorem tx_lines_rel (L L' : Layout) (t : Tx) : LinesRel L L' (t.linesL L) (t.linesL L') := by
  refine LinesRel.cons (Or.inl rfl) ?_
  induction t.postings with
  | nil => exact LinesRel.nil
  | cons p ps ih => exact LinesRel.cons (Or.inr ⟨p, rfl, rfl⟩) ih

/-- **The lines of one journal under two layouts**: as many lines, pairwise equal except that a
    posting line corresponds to the line of the same posting. -/
theorem lines_rel (L L' : Layout) (j : Journal) : LinesRel L L' (linesL L j) (linesL L' j) := by
  induction j with
  | nil => exact LinesRel.cons (Or.inl rfl) LinesRel.nil
  | cons t ts ih =>
    cases ts with
    | nil => exact (tx_lines_rel L L' t).append (LinesRel.cons (Or.inl rfl) LinesRel.nil)
    | cons t2 ts => exact (tx_lines_rel L L' t).append (LinesRel.cons (Or.inl rfl) ih)

end HL.GCore
