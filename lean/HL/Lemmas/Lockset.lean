/-
  Invariants of the lockset transition system (HL/Model/Lockset.lean), by induction over traces:
    * a thread holds exactly the locks its executed program prefix acquired and did not release
      (`heldEq` — this is what ties the *static* lock column of the access table to a run),
    * mutual exclusion of reader-writer locks (`mutex`),
    * a thread that was never started has not moved (`notStarted`),
    * once any goroutine other than the initialisation thread runs, the initialisation thread
      is finished (`initDone`).
-/
import HL.Model.Lockset
namespace HL.Lemmas.Lockset
open HL.Lockset
set_option linter.unusedSectionVars false

variable {ι κ : Type} [DecidableEq ι] [DecidableEq κ]

theorem heldAfter_take_succ (p : List (Instr ι κ)) (n : Nat) (i : Instr ι κ)
    (h : p[n]? = some i) :
    heldAfter (p.take (n + 1)) = applyInstr (heldAfter (p.take n)) i := by
  unfold heldAfter
  rw [List.take_add_one, List.foldl_append, h]
  rfl

theorem mem_applyInstr {h : Held κ} {i : Instr ι κ} {x : κ × Mode} (hx : x ∈ applyInstr h i) :
    x ∈ h ∨ i = .acq x.1 x.2 := by
  cases i with
  | acq l m =>
    simp only [applyInstr, List.mem_cons] at hx
    rcases hx with rfl | hx
    · exact Or.inr rfl
    · exact Or.inl hx
  | rel l => exact Or.inl (mem_of_mem_eraseLock hx)
  | acc a => exact Or.inl hx
  | spawn t => exact Or.inl hx

structure Inv (P : Pool ι κ) (σ : State κ) : Prop where
  heldEq : ∀ t, σ.held t = heldAfter ((P.prog t).take (σ.pc t))
  mutex : ∀ t1 t2 l m, (l, Mode.excl) ∈ σ.held t1 → (l, m) ∈ σ.held t2 → t1 = t2
  notStarted : ∀ t, σ.started t = false → σ.pc t = 0

theorem inv_init (P : Pool ι κ) : Inv P (State.init : State κ) where
  heldEq := by intro t; simp [State.init, heldAfter]
  mutex := by intro t1 t2 l m h; simp [State.init] at h
  notStarted := by intro t _; rfl

theorem fire_held_of_ne (σ : State κ) (t x : Nat) (i : Instr ι κ) (h : x ≠ t) :
    (fire σ t i).held x = σ.held x := by
  simp [fire, upd, h]

theorem fire_held_same (σ : State κ) (t : Nat) (i : Instr ι κ) :
    (fire σ t i).held t = applyInstr (σ.held t) i := by
  simp [fire, upd]

theorem fire_pc_of_ne (σ : State κ) (t x : Nat) (i : Instr ι κ) (h : x ≠ t) :
    (fire σ t i).pc x = σ.pc x := by
  simp [fire, upd, h]

theorem fire_pc_same (σ : State κ) (t : Nat) (i : Instr ι κ) :
    (fire σ t i).pc t = σ.pc t + 1 := by
  simp [fire, upd]

theorem fire_pc_ge (σ : State κ) (t x : Nat) (i : Instr ι κ) : σ.pc x ≤ (fire σ t i).pc x := by
  by_cases h : x = t
  · subst h; rw [fire_pc_same]; omega
  · rw [fire_pc_of_ne _ _ _ _ h]; omega

/-- a thread that is started stays started; a newly started thread was the target of a spawn -/
theorem fire_started (σ : State κ) (t x : Nat) (i : Instr ι κ)
    (h : (fire σ t i).started x = true) : σ.started x = true ∨ i = .spawn x := by
  cases i with
  | spawn t' =>
    simp only [fire, upd] at h
    by_cases hx : x = t'
    · subst hx; exact Or.inr rfl
    · simp [hx] at h; exact Or.inl h
  | acq l m => exact Or.inl h
  | rel l => exact Or.inl h
  | acc a => exact Or.inl h

theorem fire_started_mono (σ : State κ) (t x : Nat) (i : Instr ι κ)
    (h : σ.started x = true) : (fire σ t i).started x = true := by
  cases i with
  | spawn t' =>
    simp only [fire, upd]
    by_cases hx : x = t'
    · simp [hx]
    · simp [hx, h]
  | acq l m => exact h
  | rel l => exact h
  | acc a => exact h

/-- what a thread holds after a step: what it held before, or the lock just acquired -/
theorem mem_fire_held {σ : State κ} {t x : Nat} {i : Instr ι κ} {y : κ × Mode}
    (h : y ∈ (fire σ t i).held x) : y ∈ σ.held x ∨ (x = t ∧ i = .acq y.1 y.2) := by
  by_cases hx : x = t
  · subst hx
    rw [fire_held_same] at h
    rcases mem_applyInstr h with h | h
    · exact Or.inl h
    · exact Or.inr ⟨rfl, h⟩
  · rw [fire_held_of_ne _ _ _ _ hx] at h
    exact Or.inl h

theorem inv_step {P : Pool ι κ} {σ σ' : State κ} (hI : Inv P σ) (hS : Step P σ σ') : Inv P σ' := by
  obtain ⟨t, i, hst, hn, hc, rfl⟩ := hS
  refine ⟨?_, ?_, ?_⟩
  · intro x
    by_cases hx : x = t
    · subst hx
      rw [fire_held_same, fire_pc_same, heldAfter_take_succ _ _ i hn, ← hI.heldEq]
    · rw [fire_held_of_ne _ _ _ _ hx, fire_pc_of_ne _ _ _ _ hx]
      exact hI.heldEq x
  · intro t1 t2 l m h1 h2
    rcases mem_fire_held h1 with g1 | ⟨e1, hi1⟩
    · rcases mem_fire_held h2 with g2 | ⟨e2, hi2⟩
      · exact hI.mutex t1 t2 l m g1 g2
      · -- t2 = t acquires (l, m) while t1 holds l exclusively
        rw [hi2] at hc
        cases m with
        | excl => exact absurd g1 (hc t1 Mode.excl)
        | shared => exact absurd g1 (hc t1)
    · rw [hi1] at hc
      rcases mem_fire_held h2 with g2 | ⟨e2, _⟩
      · exact absurd g2 (hc t2 m)
      · rw [e1, e2]
  · intro x hx
    by_cases hxt : x = t
    · subst hxt
      have := fire_started_mono σ x x i hst
      rw [this] at hx
      cases hx
    · rw [fire_pc_of_ne _ _ _ _ hxt]
      apply hI.notStarted
      cases hsx : σ.started x with
      | false => rfl
      | true =>
        have := fire_started_mono σ t x i hsx
        rw [this] at hx
        cases hx

theorem inv_of_reachable {P : Pool ι κ} {σ : State κ} (h : Reachable P σ) : Inv P σ := by
  induction h with
  | init => exact inv_init P
  | step _ hs ih => exact inv_step ih hs

/-- Once a thread other than thread 0 is started, thread 0 has run to completion. -/
theorem initDone {P : Pool ι κ} (hW : WF P) {σ : State κ} (h : Reachable P σ) :
    ∀ t, t ≠ 0 → σ.started t = true → (P.prog 0).length ≤ σ.pc 0 := by
  induction h with
  | init =>
    intro t ht hs
    simp [State.init] at hs
    exact absurd hs ht
  | step _ hs ih =>
    obtain ⟨s, i, hst, hn, _, rfl⟩ := hs
    intro t ht hs'
    rcases fire_started _ s t i hs' with h0 | h0
    · exact Nat.le_trans (ih t ht h0) (fire_pc_ge _ s 0 i)
    · subst h0
      by_cases hs0 : s = 0
      · subst hs0
        have := hW.init_spawn_last _ t hn
        rw [fire_pc_same]; omega
      · exact Nat.le_trans (ih s hs0 hst) (fire_pc_ge _ s 0 _)

/-- A thread that holds a lock is started. -/
theorem started_of_holds {P : Pool ι κ} {σ : State κ} (hI : Inv P σ) {t : Nat} {x : κ × Mode}
    (hx : x ∈ σ.held t) : σ.started t = true := by
  cases hs : σ.started t with
  | true => rfl
  | false =>
    have h0 := hI.notStarted t hs
    have := hI.heldEq t
    rw [h0] at this
    rw [this] at hx
    simp [heldAfter] at hx

/-- In a balanced pool a thread that holds a lock is not finished. -/
theorem unfinished_of_holds {P : Pool ι κ} {σ : State κ} (hI : Inv P σ) (hB : Balanced P)
    {t : Nat} {x : κ × Mode} (hx : x ∈ σ.held t) : Unfinished P σ t := by
  refine ⟨started_of_holds hI hx, ?_⟩
  apply Nat.lt_of_not_le
  intro hle
  have := hI.heldEq t
  rw [List.take_of_length_le hle, hB t] at this
  rw [this] at hx
  cases hx

theorem next_some_of_unfinished {P : Pool ι κ} {σ : State κ} {t : Nat} (h : Unfinished P σ t) :
    ∃ i, next P σ t = some i := by
  unfold next
  exact ⟨(P.prog t)[σ.pc t]'h.2, List.getElem?_eq_getElem h.2⟩

theorem unfinished_of_next {P : Pool ι κ} {σ : State κ} {t : Nat} {i : Instr ι κ}
    (hs : σ.started t = true) (h : next P σ t = some i) : Unfinished P σ t := by
  refine ⟨hs, ?_⟩
  unfold next at h
  apply Nat.lt_of_not_le
  intro hle
  rw [List.getElem?_eq_none hle] at h
  cases h

/-! ### Fields and the stores behind them: the discipline of the combined table -/

section full
variable {σ : Type} [DecidableEq σ]

theorem beq_inl (a b : ι) :
    (@BEq.beq (ι ⊕ σ) instBEqOfDecidableEq (Sum.inl a) (Sum.inl b)) = (a == b) := by
  show decide ((Sum.inl a : ι ⊕ σ) = Sum.inl b) = decide (a = b)
  by_cases h : a = b
  · subst h; simp
  · have h' : (Sum.inl a : ι ⊕ σ) ≠ Sum.inl b := fun e => h (Sum.inl.inj e)
    simp [h]

theorem beq_inr (a b : σ) :
    (@BEq.beq (ι ⊕ σ) instBEqOfDecidableEq (Sum.inr a) (Sum.inr b)) = (a == b) := by
  show decide ((Sum.inr a : ι ⊕ σ) = Sum.inr b) = decide (a = b)
  by_cases h : a = b
  · subst h; simp
  · have h' : (Sum.inr a : ι ⊕ σ) ≠ Sum.inr b := fun e => h (Sum.inr.inj e)
    simp [h]

theorem beq_inl_inr (a : ι) (b : σ) :
    (@BEq.beq (ι ⊕ σ) instBEqOfDecidableEq (Sum.inl a) (Sum.inr b)) = false := by
  show decide ((Sum.inl a : ι ⊕ σ) = Sum.inr b) = false
  simp

theorem beq_inr_inl (a : σ) (b : ι) :
    (@BEq.beq (ι ⊕ σ) instBEqOfDecidableEq (Sum.inr a) (Sum.inl b)) = false := by
  show decide ((Sum.inr a : ι ⊕ σ) = Sum.inl b) = false
  simp

theorem pairOK_mapLoc_inl (r s : Row ι κ) :
    pairOK (r.mapLoc (Sum.inl : ι → ι ⊕ σ)) (s.mapLoc Sum.inl) = pairOK r s := by
  simp only [pairOK, rowConflict, commonLock, Row.mapLoc]
  rw [beq_inl]

theorem pairOK_mapLoc_inr (r s : Row σ κ) :
    pairOK (r.mapLoc (Sum.inr : σ → ι ⊕ σ)) (s.mapLoc Sum.inr) = pairOK r s := by
  simp only [pairOK, rowConflict, commonLock, Row.mapLoc]
  rw [beq_inr]

/-- a field and a store are different locations: their accesses never conflict -/
theorem pairOK_inl_inr (r : Row ι κ) (s : Row σ κ) :
    pairOK (r.mapLoc (Sum.inl : ι → ι ⊕ σ)) (s.mapLoc Sum.inr) = true := by
  simp only [pairOK, rowConflict, Row.mapLoc]
  rw [beq_inl_inr]
  simp

theorem pairOK_inr_inl (r : Row σ κ) (s : Row ι κ) :
    pairOK (r.mapLoc (Sum.inr : σ → ι ⊕ σ)) (s.mapLoc Sum.inl) = true := by
  simp only [pairOK, rowConflict, Row.mapLoc]
  rw [beq_inr_inl]
  simp

/-- If the field table and the store rows are each disciplined, so is the table over fields
    and stores together. -/
theorem disciplined_fullTable {T : List (Row ι κ)} {E : List (Escape σ κ)}
    (hT : disciplined T = true) (hE : disciplined (storeRows E) = true) :
    disciplined (fullTable T E) = true := by
  unfold disciplined at *
  apply List.all_eq_true.mpr
  intro r hr
  apply List.all_eq_true.mpr
  intro s hs
  unfold fullTable at hr hs
  rcases List.mem_append.mp hr with hr | hr <;> rcases List.mem_append.mp hs with hs | hs
  · obtain ⟨r0, hr0, rfl⟩ := List.mem_map.mp hr
    obtain ⟨s0, hs0, rfl⟩ := List.mem_map.mp hs
    rw [pairOK_mapLoc_inl]
    exact List.all_eq_true.mp (List.all_eq_true.mp hT r0 hr0) s0 hs0
  · obtain ⟨r0, _, rfl⟩ := List.mem_map.mp hr
    obtain ⟨s0, _, rfl⟩ := List.mem_map.mp hs
    exact pairOK_inl_inr r0 s0
  · obtain ⟨r0, _, rfl⟩ := List.mem_map.mp hr
    obtain ⟨s0, _, rfl⟩ := List.mem_map.mp hs
    exact pairOK_inr_inl r0 s0
  · obtain ⟨r0, hr0, rfl⟩ := List.mem_map.mp hr
    obtain ⟨s0, hs0, rfl⟩ := List.mem_map.mp hs
    rw [pairOK_mapLoc_inr]
    exact List.all_eq_true.mp (List.all_eq_true.mp hE r0 hr0) s0 hs0

theorem disciplined_of_aliasDisciplined {E : List (Escape σ κ)} (h : aliasDisciplined E = true) :
    disciplined (storeRows E) = true := by
  unfold aliasDisciplined at h
  exact (Bool.and_eq_true _ _ ▸ h).2

theorem noEscapedMutation_of_aliasDisciplined {E : List (Escape σ κ)} (h : aliasDisciplined E = true) :
    noEscapedMutation E = true := by
  unfold aliasDisciplined at h
  exact (Bool.and_eq_true _ _ ▸ h).1

/-- every member of the owner set of a store comes from an escape row on that store -/
theorem mem_accessors {E : List (Escape σ κ)} {s : σ} {x : Role × Kind × List (κ × Mode)}
    (h : x ∈ accessors E s) :
    ∃ e ∈ E, e.store = s ∧ e.fresh = false ∧ x = (e.role, (if e.mutated then Kind.write else Kind.read), e.locks) := by
  unfold accessors storeRows at h
  obtain ⟨r, hr, rfl⟩ := List.mem_map.mp h
  obtain ⟨hr1, hr2⟩ := List.mem_filter.mp hr
  obtain ⟨e, he, rfl⟩ := List.mem_map.mp hr1
  simp only [Escape.toRow, Bool.and_eq_true, beq_iff_eq, Bool.not_eq_true'] at hr2
  exact ⟨e, he, hr2.1, hr2.2, rfl⟩

end full

theorem rank_bound (rank : κ → Nat) (O : List (κ × κ)) :
    ∀ p ∈ O, rank p.2 ≤ (O.map fun q => rank q.2).sum := by
  induction O with
  | nil => intro p hp; cases hp
  | cons q r ih =>
    intro p hp
    simp only [List.map_cons, List.sum_cons]
    rcases List.mem_cons.mp hp with rfl | hp
    · omega
    · have := ih p hp; omega

end HL.Lemmas.Lockset
