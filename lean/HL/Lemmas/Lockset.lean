/-
  Invariants of the lockset transition system (HL/Model/Lockset.lean), by induction over traces:
    * a thread holds exactly the locks its executed program prefix acquired and did not release
      (`heldEq` — this is what ties the *static* lock column of the access table to a run),
    * mutual exclusion of reader-writer locks (`mutex`),
    * a thread that was never started has not moved (`notStarted`),
    * once any goroutine other than the initialisation thread runs, the initialisation thread
      is finished (`initDone`).
-/
import HL.Model.Lockset
namespace HL.Lemmas.Lockset
open HL.Lockset
set_option linter.unusedSectionVars false

variable {ι κ : Type} [DecidableEq ι] [DecidableEq κ]

theorem heldAfter_take_succ (p : List (Instr ι κ)) (n : Nat) (i : Instr ι κ)
    (h : p[n]? = some i) :
    heldAfter (p.take (n + 1)) = applyInstr (heldAfter (p.take n)) i := by
  unfold heldAfter
  rw [List.take_add_one, List.foldl_append, h]
  rfl

theorem mem_applyInstr {h : Held κ} {i : Instr ι κ} {x : κ × Mode} (hx : x ∈ applyInstr h i) :
    x ∈ h ∨ i = .acq x.1 x.2 := by
  cases i with
  | acq l m =>
    simp only [applyInstr, List.mem_cons] at hx
    rcases hx with rfl | hx
    · exact Or.inr rfl
    · exact Or.inl hx
  | rel l => exact Or.inl (mem_of_mem_eraseLock hx)
  | acc a => exact Or.inl hx
  | spawn t => exact Or.inl hx

structure Inv (P : Pool ι κ) (σ : State κ) : Prop where
  heldEq : ∀ t, σ.held t = heldAfter ((P.prog t).take (σ.pc t))
  mutex : ∀ t1 t2 l m, (l, Mode.excl) ∈ σ.held t1 → (l, m) ∈ σ.held t2 → t1 = t2
  notStarted : ∀ t, σ.started t = false → σ.pc t = 0

theorem inv_init (P : Pool ι κ) : Inv P (State.init : State κ) where
  heldEq := by intro t; simp [State.init, heldAfter]
  mutex := by intro t1 t2 l m h; simp [State.init] at h
  notStarted := by intro t _; rfl

theorem fire_held_of_ne (σ : State κ) (t x : Nat) (i : Instr ι κ) (h : x ≠ t) :
    (fire σ t i).held x = σ.held x := by
  simp [fire, upd, h]

theorem fire_held_same (σ : State κ) (t : Nat) (i : Instr ι κ) :
    (fire σ t i).held t = applyInstr (σ.held t) i := by
  simp [fire, upd]

theorem fire_pc_of_ne (σ : State κ) (t x : Nat) (i : Instr ι κ) (h : x ≠ t) :
    (fire σ t i).pc x = σ.pc x := by
  simp [fire, upd, h]

theorem fire_pc_same (σ : State κ) (t : Nat) (i : Instr ι κ) :
    (fire σ t i).pc t = σ.pc t + 1 := by
  simp [fire, upd]

theorem fire_pc_ge (σ : State κ) (t x : Nat) (i : Instr ι κ) : σ.pc x ≤ (fire σ t i).pc x := by
  by_cases h : x = t
  · subst h; rw [fire_pc_same]; omega
  · rw [fire_pc_of_ne _ _ _ _ h]; omega

/-- a thread that is started stays started; a newly started thread was the target of a spawn -/
theorem fire_started (σ : State κ) (t x : Nat) (i : Instr ι κ)
    (h : (fire σ t i).started x = true) : σ.started x = true ∨ i = .spawn x := by
  cases i with
  | spawn t' =>
    simp only [fire, upd] at h
    by_cases hx : x = t'
    · subst hx; exact Or.inr rfl
    · simp [hx] at h; exact Or.inl h
  | acq l m => exact Or.inl h
  | rel l => exact Or.inl h
  | acc a => exact Or.inl h

theorem fire_started_mono (σ : State κ) (t x : Nat) (i : Instr ι κ)
    (h : σ.started x = true) : (fire σ t i).started x = true := by
  cases i with
  | spawn t' =>
    simp only [fire, upd]
    by_cases hx : x = t'
    · simp [hx]
    · simp [hx, h]
  | acq l m => exact h
  | rel l => exact h
  | acc a => exact h

/-- what a thread holds after a step: what it held before, or the lock just acquired -/
theorem mem_fire_held {σ : State κ} {t x : Nat} {i : Instr ι κ} {y : κ × Mode}
    (h : y ∈ (fire σ t i).held x) : y ∈ σ.held x ∨ (x = t ∧ i = .acq y.1 y.2) := by
  by_cases hx : x = t
  · subst hx
    rw [fire_held_same] at h
    rcases mem_applyInstr h with h | h
    · exact Or.inl h
    · exact Or.inr ⟨rfl, h⟩
  · rw [fire_held_of_ne _ _ _ _ hx] at h
    exact Or.inl h

theorem inv_step {P : Pool ι κ} {σ σ' : State κ} (hI : Inv P σ) (hS : Step P σ σ') : Inv P σ' := by
  obtain ⟨t, i, hst, hn, hc, rfl⟩ := hS
  refine ⟨?_, ?_, ?_⟩
  · intro x
    by_cases hx : x = t
    · subst hx
      rw [fire_held_same, fire_pc_same, heldAfter_take_succ _ _ i hn, ← hI.heldEq]
    · rw [fire_held_of_ne _ _ _ _ hx, fire_pc_of_ne _ _ _ _ hx]
      exact hI.heldEq x
  · intro t1 t2 l m h1 h2
    rcases mem_fire_held h1 with g1 | ⟨e1, hi1⟩
    · rcases mem_fire_held h2 with g2 | ⟨e2, hi2⟩
      · exact hI.mutex t1 t2 l m g1 g2
      · -- t2 = t acquires (l, m) while t1 holds l exclusively
        rw [hi2] at hc
        cases m with
        | excl => exact absurd g1 (hc t1 Mode.excl)
        | shared => exact absurd g1 (hc t1)
    · rw [hi1] at hc
      rcases mem_fire_held h2 with g2 | ⟨e2, _⟩
      · exact absurd g2 (hc t2 m)
      · rw [e1, e2]
  · intro x hx
    by_cases hxt : x = t
    · subst hxt
      have := fire_started_mono σ x x i hst
      rw [this] at hx
      cases hx
    · rw [fire_pc_of_ne _ _ _ _ hxt]
      apply hI.notStarted
      cases hsx : σ.started x with
      | false => rfl
      | true =>
        have := fire_started_mono σ t x i hsx
        rw [this] at hx
        cases hx

theorem inv_of_reachable {P : Pool ι κ} {σ : State κ} (h : Reachable P σ) : Inv P σ := by
  induction h with
  | init => exact inv_init P
  | step _ hs ih => exact inv_step ih hs

/-- Once a thread other than thread 0 is started, thread 0 has run to completion. -/
theorem initDone {P : Pool ι κ} (hW : WF P) {σ : State κ} (h : Reachable P σ) :
    ∀ t, t ≠ 0 → σ.started t = true → (P.prog 0).length ≤ σ.pc 0 := by
  induction h with
  | init =>
    intro t ht hs
    simp [State.init] at hs
    exact absurd hs ht
  | step _ hs ih =>
    obtain ⟨s, i, hst, hn, _, rfl⟩ := hs
    intro t ht hs'
    rcases fire_started _ s t i hs' with h0 | h0
    · exact Nat.le_trans (ih t ht h0) (fire_pc_ge _ s 0 i)
    · subst h0
      by_cases hs0 : s = 0
      · subst hs0
        have := hW.init_spawn_last _ t hn
        rw [fire_pc_same]; omega
      · exact Nat.le_trans (ih s hs0 hst) (fire_pc_ge _ s 0 _)

/-- A thread that holds a lock is started. -/
theorem started_of_holds {P : Pool ι κ} {σ : State κ} (hI : Inv P σ) {t : Nat} {x : κ × Mode}
    (hx : x ∈ σ.held t) : σ.started t = true := by
  cases hs : σ.started t with
  | true => rfl
  | false =>
    have h0 := hI.notStarted t hs
    have := hI.heldEq t
    rw [h0] at this
    rw [this] at hx
    simp [heldAfter] at hx

/-- In a balanced pool a thread that holds a lock is not finished. -/
theorem unfinished_of_holds {P : Pool ι κ} {σ : State κ} (hI : Inv P σ) (hB : Balanced P)
    {t : Nat} {x : κ × Mode} (hx : x ∈ σ.held t) : Unfinished P σ t := by
  refine ⟨started_of_holds hI hx, ?_⟩
  apply Nat.lt_of_not_le
  intro hle
  have := hI.heldEq t
  rw [List.take_of_length_le hle, hB t] at this
  rw [this] at hx
  cases hx

theorem next_some_of_unfinished {P : Pool ι κ} {σ : State κ} {t : Nat} (h : Unfinished P σ t) :
    ∃ i, next P σ t = some i := by
  unfold next
  exact ⟨(P.prog t)[σ.pc t]'h.2, List.getElem?_eq_getElem h.2⟩

theorem unfinished_of_next {P : Pool ι κ} {σ : State κ} {t : Nat} {i : Instr ι κ}
    (hs : σ.started t = true) (h : next P σ t = some i) : Unfinished P σ t := by
  refine ⟨hs, ?_⟩
  unfold next at h
  apply Nat.lt_of_not_le
  intro hle
  rw [List.getElem?_eq_none hle] at h
  cases h

theorem rank_bound (rank : κ → Nat) (O : List (κ × κ)) :
    ∀ p ∈ O, rank p.2 ≤ (O.map fun q => rank q.2).sum := by
  induction O with
  | nil => intro p hp; cases hp
  | cons q r ih =>
    intro p hp
    simp only [List.map_cons, List.sum_cons]
    rcases List.mem_cons.mp hp with rfl | hp
    · omega
    · have := ih p hp; omega

end HL.Lemmas.Lockset
