/-
  Counters (`map[string]int`) of the workspace index: `addAll` adds, `subAll` subtracts a
  file's counts; nested tag-value counters; the transaction index; payee templates.
-/
import HL.Lemmas.AList
import HL.Spec.Rebuild
namespace HL.Lemmas.Counter
open HL.Index HL.Lemmas.AList HL.Spec.Rebuild

/-! ### flat counters -/

/-- every stored count is positive -/
def Pos (m : AList Nat) : Prop := ∀ k n, m.get k = some n → 0 < n

theorem cnt_addTo (m : AList Nat) (k : String) (n : Nat) (k' : String) :
    cnt (addTo m k n) k' = cnt m k' + (if k = k' then n else 0) := by
  unfold addTo cnt
  rw [get_set]
  by_cases h : k = k'
  · subst h; simp
  · simp [h]

theorem cnt_decrementBy (m : AList Nat) (k : String) (a : Nat) (k' : String) :
    cnt (decrementBy m k a) k' = cnt m k' - (if k = k' then a else 0) := by
  unfold decrementBy
  by_cases hle : cnt m k ≤ a
  · simp only [hle, if_true]
    unfold cnt at *
    rw [get_erase]
    by_cases h : k = k'
    · subst h; simp only [if_true, Option.getD_none]; omega
    · simp [h]
  · simp only [hle, if_false]
    unfold cnt at *
    rw [get_set]
    by_cases h : k = k'
    · subst h; simp
    · simp [h]

theorem sumFor_cons (e : String × Nat) (l : AList Nat) (k : String) :
    sumFor (e :: l) k = (if e.1 = k then e.2 else 0) + sumFor l k := by
  unfold sumFor
  by_cases h : e.1 = k <;> simp [List.filter_cons, h]

@[simp] theorem sumFor_nil (k : String) : sumFor [] k = 0 := rfl

theorem sumFor_append (l₁ l₂ : AList Nat) (k : String) :
    sumFor (l₁ ++ l₂) k = sumFor l₁ k + sumFor l₂ k := by
  unfold sumFor; simp [List.filter_append]

theorem cnt_addAll (m l : AList Nat) (k : String) : cnt (addAll m l) k = cnt m k + sumFor l k := by
  induction l generalizing m with
  | nil => simp [addAll]
  | cons e r ih =>
    simp only [addAll, List.foldl_cons] at *
    rw [ih, cnt_addTo, sumFor_cons]; omega

theorem cnt_subAll (m l : AList Nat) (k : String) : cnt (subAll m l) k = cnt m k - sumFor l k := by
  induction l generalizing m with
  | nil => simp [subAll]
  | cons e r ih =>
    simp only [subAll, List.foldl_cons] at *
    rw [ih, cnt_decrementBy, sumFor_cons]; omega

theorem pos_addTo (m : AList Nat) (k : String) (n : Nat) (h : Pos m) (hn : 0 < n) :
    Pos (addTo m k n) := by
  intro k' v hv
  unfold addTo at hv
  rw [get_set] at hv
  by_cases e : k = k'
  · simp only [e, if_true, Option.some.injEq] at hv; omega
  · simp only [e, if_false] at hv; exact h k' v hv

theorem pos_decrementBy (m : AList Nat) (k : String) (a : Nat) (h : Pos m) :
    Pos (decrementBy m k a) := by
  intro k' v hv
  unfold decrementBy at hv
  by_cases hle : cnt m k ≤ a
  · simp only [hle, if_true] at hv
    rw [get_erase] at hv
    by_cases e : k = k'
    · simp [e] at hv
    · simp only [e, if_false] at hv; exact h k' v hv
  · simp only [hle, if_false] at hv
    rw [get_set] at hv
    by_cases e : k = k'
    · subst e
      simp only [if_true, Option.some.injEq] at hv; omega
    · simp only [e, if_false] at hv; exact h k' v hv

theorem pos_addAll (m l : AList Nat) (h : Pos m) (hl : posCounts l = true) : Pos (addAll m l) := by
  induction l generalizing m with
  | nil => exact h
  | cons e r ih =>
    simp only [posCounts, List.all_cons, Bool.and_eq_true, decide_eq_true_eq] at hl
    simp only [addAll, List.foldl_cons]
    exact ih _ (pos_addTo m e.1 e.2 h hl.1) (by simpa [posCounts] using hl.2)

theorem pos_subAll (m l : AList Nat) (h : Pos m) : Pos (subAll m l) := by
  induction l generalizing m with
  | nil => exact h
  | cons e r ih =>
    simp only [subAll, List.foldl_cons]
    exact ih _ (pos_decrementBy m e.1 e.2 h)

theorem nodup_addTo (m : AList Nat) (k : String) (n : Nat) (h : m.keys.Nodup) :
    (addTo m k n).keys.Nodup := nodup_keys_set _ _ _ h

theorem nodup_decrementBy (m : AList Nat) (k : String) (a : Nat) (h : m.keys.Nodup) :
    (decrementBy m k a).keys.Nodup := by
  unfold decrementBy
  split
  · exact nodup_keys_erase _ _ h
  · exact nodup_keys_set _ _ _ h

theorem nodup_addAll (m l : AList Nat) (h : m.keys.Nodup) : (addAll m l).keys.Nodup := by
  induction l generalizing m with
  | nil => exact h
  | cons e r ih => simp only [addAll, List.foldl_cons]; exact ih _ (nodup_addTo m e.1 e.2 h)

theorem nodup_subAll (m l : AList Nat) (h : m.keys.Nodup) : (subAll m l).keys.Nodup := by
  induction l generalizing m with
  | nil => exact h
  | cons e r ih => simp only [subAll, List.foldl_cons]; exact ih _ (nodup_decrementBy m e.1 e.2 h)

theorem addTo_ne_nil (m : AList Nat) (k : String) (n : Nat) : addTo m k n ≠ [] := by
  unfold addTo
  cases m with
  | nil => simp [AList.set]
  | cons e r =>
    obtain ⟨a, b⟩ := e
    unfold AList.set
    split <;> simp

theorem addAll_ne_nil (m l : AList Nat) (h : m ≠ [] ∨ l ≠ []) : addAll m l ≠ [] := by
  induction l generalizing m with
  | nil => simpa [addAll] using h
  | cons e r ih =>
    simp only [addAll, List.foldl_cons]
    exact ih _ (Or.inl (addTo_ne_nil m e.1 e.2))

/-- with positive counts the keys are exactly the support -/
theorem mem_keys_iff_pos (m : AList Nat) (h : Pos m) (k : String) : k ∈ m.keys ↔ 0 < cnt m k := by
  rw [mem_keys_iff]
  unfold cnt
  cases e : m.get k with
  | none => simp
  | some n => simp [h k n e]

theorem get_eq_of_cnt (m : AList Nat) (h : Pos m) (k : String) (n : Nat) (hn : 0 < n) :
    m.get k = some n ↔ cnt m k = n := by
  unfold cnt
  cases e : m.get k with
  | none => simp; omega
  | some v => simp

/-! ### sums over contributions -/

theorem total_nil (proj : Contrib → AList Nat) (k : String) : total proj [] k = 0 := rfl

theorem total_cons (proj : Contrib → AList Nat) (c : Contrib) (cs : List Contrib) (k : String) :
    total proj (c :: cs) k = sumFor (proj c) k + total proj cs k := by
  simp [total]

theorem total_append (proj : Contrib → AList Nat) (cs₁ cs₂ : List Contrib) (k : String) :
    total proj (cs₁ ++ cs₂) k = total proj cs₁ k + total proj cs₂ k := by
  simp [total]

theorem total_perm (proj : Contrib → AList Nat) (cs₁ cs₂ : List Contrib) (h : cs₁.Perm cs₂)
    (k : String) : total proj cs₁ k = total proj cs₂ k := by
  unfold total
  exact List.Perm.sum_nat (h.map _)

/-! ### nested tag-value counters -/

/-- canonical nested counter: no empty inner map, positive counts -/
def TvCanon (m : AList (AList Nat)) : Prop :=
  ∀ t inner, m.get t = some inner → inner ≠ [] ∧ Pos inner ∧ inner.keys.Nodup

theorem tvCnt_tvAdd (m : AList (AList Nat)) (t : String) (vals : AList Nat) (t' v : String) :
    tvCnt (tvAdd m t vals) t' v = tvCnt m t' v + (if t = t' then sumFor vals v else 0) := by
  unfold tvCnt tvAdd
  rw [getD_set]
  by_cases h : t = t'
  · subst h; simp [cnt_addAll]
  · simp [h]

theorem tvCnt_tvDec (m : AList (AList Nat)) (t value : String) (a : Nat) (t' v : String) :
    tvCnt (tvDec m t value a) t' v = tvCnt m t' v - (if t = t' ∧ value = v then a else 0) := by
  unfold tvDec
  cases e : m.get t with
  | none =>
    simp only
    by_cases h : t = t' ∧ value = v
    · obtain ⟨h1, h2⟩ := h
      subst h1; subst h2
      simp [tvCnt, AList.getD, e, cnt]
    · simp [h]
  | some inner =>
    simp only
    by_cases hle : cnt inner value ≤ a
    · simp only [hle, if_true]
      by_cases hemp : (inner.erase value).isEmpty = true
      · simp only [hemp, if_true]
        unfold tvCnt
        rw [getD_erase]
        by_cases h : t = t'
        · subst h
          simp only [if_true, true_and]
          have hin : AList.getD m t [] = inner := by simp [AList.getD, e]
          rw [hin]
          have hnil : inner.erase value = [] := by simpa using hemp
          by_cases hv : value = v
          · subst hv
            simp only [if_true, cnt, get_nil, Option.getD_none]
            simp only [cnt] at hle
            omega
          · simp only [hv, if_false, Nat.sub_zero]
            have := get_erase inner value v
            rw [hnil] at this
            simp only [get_nil, hv, if_false] at this
            simp [cnt, ← this]
        · simp [h]
      · simp only [hemp, Bool.false_eq_true, if_false]
        unfold tvCnt
        rw [getD_set]
        by_cases h : t = t'
        · subst h
          simp only [if_true, true_and]
          have hin : AList.getD m t [] = inner := by simp [AList.getD, e]
          rw [hin]
          unfold cnt at *
          rw [get_erase]
          by_cases hv : value = v
          · subst hv; simp only [if_true, Option.getD_none]; omega
          · simp [hv]
        · simp [h]
    · simp only [hle, if_false]
      unfold tvCnt
      rw [getD_set]
      by_cases h : t = t'
      · subst h
        simp only [if_true, true_and]
        have hin : AList.getD m t [] = inner := by simp [AList.getD, e]
        rw [hin]
        unfold cnt at *
        rw [get_set]
        by_cases hv : value = v
        · subst hv; simp
        · simp [hv]
      · simp [h]

/-- the value counts of tag `t` in a list of (tag, value counts) -/
def tvFlatL (l : AList (AList Nat)) (t : String) : AList Nat := (l.filter fun e => e.1 = t).flatMap (·.2)

theorem tvFlatL_cons (e : String × AList Nat) (l : AList (AList Nat)) (t : String) :
    tvFlatL (e :: l) t = (if e.1 = t then e.2 else []) ++ tvFlatL l t := by
  unfold tvFlatL
  by_cases h : e.1 = t <;> simp [List.filter_cons, h]

theorem tvCnt_tvAddAll (m l : AList (AList Nat)) (t v : String) :
    tvCnt (tvAddAll m l) t v = tvCnt m t v + sumFor (tvFlatL l t) v := by
  induction l generalizing m with
  | nil => simp [tvAddAll, tvFlatL]
  | cons e r ih =>
    simp only [tvAddAll, List.foldl_cons] at *
    rw [ih, tvCnt_tvAdd, tvFlatL_cons, sumFor_append]
    by_cases h : e.1 = t <;> simp [h] <;> omega

theorem tvCnt_tvDecAll (m : AList (AList Nat)) (tag : String) (vals : AList Nat) (t v : String) :
    tvCnt (vals.foldl (fun m ve => tvDec m tag ve.1 ve.2) m) t v
      = tvCnt m t v - (if tag = t then sumFor vals v else 0) := by
  induction vals generalizing m with
  | nil => simp
  | cons e r ih =>
    simp only [List.foldl_cons]
    rw [ih, tvCnt_tvDec, sumFor_cons]
    by_cases h : tag = t
    · by_cases hv : e.1 = v <;> simp [h, hv] <;> omega
    · simp [h]

theorem tvCnt_tvSubAll (m l : AList (AList Nat)) (t v : String) :
    tvCnt (tvSubAll m l) t v = tvCnt m t v - sumFor (tvFlatL l t) v := by
  induction l generalizing m with
  | nil => simp [tvSubAll, tvFlatL]
  | cons e r ih =>
    simp only [tvSubAll, List.foldl_cons] at *
    rw [ih, tvCnt_tvDecAll, tvFlatL_cons, sumFor_append]
    by_cases h : e.1 = t <;> simp [h] <;> omega

theorem tvCanon_tvAdd (m : AList (AList Nat)) (t : String) (vals : AList Nat) (h : TvCanon m)
    (hv : vals ≠ []) (hp : posCounts vals = true) : TvCanon (tvAdd m t vals) := by
  intro t' inner hin
  unfold tvAdd at hin
  rw [get_set] at hin
  by_cases e : t = t'
  · simp only [e, if_true, Option.some.injEq] at hin
    subst hin
    have hold : Pos (m.getD t' []) ∧ (m.getD t' []).keys.Nodup := by
      unfold AList.getD
      cases e2 : m.get t' with
      | none => simp [Pos, AList.keys]
      | some i => exact ⟨(h t' i e2).2.1, (h t' i e2).2.2⟩
    exact ⟨addAll_ne_nil _ _ (Or.inr hv), pos_addAll _ _ hold.1 hp, nodup_addAll _ _ hold.2⟩
  · simp only [e, if_false] at hin
    exact h t' inner hin

theorem tvCanon_tvDec (m : AList (AList Nat)) (t value : String) (a : Nat) (h : TvCanon m) :
    TvCanon (tvDec m t value a) := by
  intro t' inner' hin
  unfold tvDec at hin
  cases e : m.get t with
  | none => simp only [e] at hin; exact h t' inner' hin
  | some inner =>
    simp only [e] at hin
    have hi := h t inner e
    by_cases hle : cnt inner value ≤ a
    · simp only [hle, if_true] at hin
      by_cases hemp : (inner.erase value).isEmpty = true
      · simp only [hemp, if_true] at hin
        rw [get_erase] at hin
        by_cases e2 : t = t'
        · simp [e2] at hin
        · simp only [e2, if_false] at hin; exact h t' inner' hin
      · simp only [hemp, Bool.false_eq_true, if_false] at hin
        rw [get_set] at hin
        by_cases e2 : t = t'
        · simp only [e2, if_true, Option.some.injEq] at hin
          subst hin
          refine ⟨by simpa using hemp, ?_, nodup_keys_erase _ _ hi.2.2⟩
          intro k n hk
          rw [get_erase] at hk
          by_cases e3 : value = k
          · simp [e3] at hk
          · simp only [e3, if_false] at hk; exact hi.2.1 k n hk
        · simp only [e2, if_false] at hin; exact h t' inner' hin
    · simp only [hle, if_false] at hin
      rw [get_set] at hin
      by_cases e2 : t = t'
      · simp only [e2, if_true, Option.some.injEq] at hin
        subst hin
        refine ⟨?_, ?_, nodup_keys_set _ _ _ hi.2.2⟩
        · intro hnil
          have := get_set_self inner value (cnt inner value - a)
          rw [hnil] at this; simp at this
        · intro k n hk
          rw [get_set] at hk
          by_cases e3 : value = k
          · subst e3
            simp only [if_true, Option.some.injEq] at hk; omega
          · simp only [e3, if_false] at hk; exact hi.2.1 k n hk
      · simp only [e2, if_false] at hin; exact h t' inner' hin

theorem tvCanon_tvAddAll (m l : AList (AList Nat)) (h : TvCanon m)
    (hl : l.all (fun e => !e.2.isEmpty && posCounts e.2) = true) : TvCanon (tvAddAll m l) := by
  induction l generalizing m with
  | nil => exact h
  | cons e r ih =>
    simp only [List.all_cons, Bool.and_eq_true, Bool.not_eq_true'] at hl
    simp only [tvAddAll, List.foldl_cons]
    refine ih _ (tvCanon_tvAdd m e.1 e.2 h ?_ hl.1.2) (by simpa using hl.2)
    intro hnil; simp [hnil] at hl

theorem tvCanon_tvSubAll (m l : AList (AList Nat)) (h : TvCanon m) : TvCanon (tvSubAll m l) := by
  induction l generalizing m with
  | nil => exact h
  | cons e r ih =>
    simp only [tvSubAll, List.foldl_cons]
    apply ih
    generalize e.2 = vals
    induction vals generalizing m with
    | nil => exact h
    | cons ve vr ih2 =>
      simp only [List.foldl_cons]
      exact ih2 _ (tvCanon_tvDec m e.1 ve.1 ve.2 h)

theorem nodup_tvAdd (m : AList (AList Nat)) (t : String) (vals : AList Nat) (h : m.keys.Nodup) :
    (tvAdd m t vals).keys.Nodup := nodup_keys_set _ _ _ h

theorem nodup_tvDec (m : AList (AList Nat)) (t value : String) (a : Nat) (h : m.keys.Nodup) :
    (tvDec m t value a).keys.Nodup := by
  unfold tvDec
  split
  · exact h
  · split
    · simp only
      split
      · exact nodup_keys_erase _ _ h
      · exact nodup_keys_set _ _ _ h
    · exact nodup_keys_set _ _ _ h

theorem nodup_tvAddAll (m l : AList (AList Nat)) (h : m.keys.Nodup) : (tvAddAll m l).keys.Nodup := by
  induction l generalizing m with
  | nil => exact h
  | cons e r ih => simp only [tvAddAll, List.foldl_cons]; exact ih _ (nodup_tvAdd m e.1 e.2 h)

theorem nodup_tvSubAll (m l : AList (AList Nat)) (h : m.keys.Nodup) : (tvSubAll m l).keys.Nodup := by
  induction l generalizing m with
  | nil => exact h
  | cons e r ih =>
    simp only [tvSubAll, List.foldl_cons]
    apply ih
    generalize e.2 = vals
    induction vals generalizing m with
    | nil => exact h
    | cons ve vr ih2 =>
      simp only [List.foldl_cons]
      exact ih2 _ (nodup_tvDec m e.1 ve.1 ve.2 h)

end HL.Lemmas.Counter
