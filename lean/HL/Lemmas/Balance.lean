import HL.Model.Balance
import HL.Spec.BalanceSpec
import HL.Lemmas.Dec

/-! Lemmas tying `Balance.check` / `Balance.accountBalances` to the rational specification. -/
namespace HL
namespace KV

def keys {β} (m : List (Bytes × β)) : List Bytes := m.map (·.1)

theorem get_set_self {β} (m : List (Bytes × β)) (k : Bytes) (v z : β) : get (set m k v) k z = v := by
  induction m with
  | nil => simp [set, get]
  | cons a r ih =>
    obtain ⟨k', v'⟩ := a
    by_cases h : k' = k
    · simp [set, get, h]
    · simp [set, get, h, ih]

theorem get_set_ne {β} (m : List (Bytes × β)) {k k' : Bytes} (v z : β) (h : k ≠ k') :
    get (set m k v) k' z = get m k' z := by
  induction m with
  | nil => simp [set, get, h]
  | cons a r ih =>
    obtain ⟨k0, v0⟩ := a
    by_cases h0 : k0 = k
    · subst h0
      simp [set, get, h]
    · by_cases h1 : k0 = k'
      · subst h1
        simp [set, get, h0]
      · simp [set, get, h0, h1, ih]

theorem find?_set_self {β} (m : List (Bytes × β)) (k : Bytes) (v : β) : find? (set m k v) k = some v := by
  induction m with
  | nil => simp [set, find?]
  | cons a r ih =>
    obtain ⟨k', v'⟩ := a
    by_cases h : k' = k
    · simp [set, find?, h]
    · simp [set, find?, h, ih]

theorem find?_set_ne {β} (m : List (Bytes × β)) {k k' : Bytes} (v : β) (h : k ≠ k') :
    find? (set m k v) k' = find? m k' := by
  induction m with
  | nil => simp [set, find?, h]
  | cons a r ih =>
    obtain ⟨k0, v0⟩ := a
    by_cases h0 : k0 = k
    · subst h0
      simp [set, find?, h]
    · by_cases h1 : k0 = k'
      · subst h1
        simp [set, find?, h0]
      · simp [set, find?, h0, h1, ih]

theorem get_eq_find? {β} (m : List (Bytes × β)) (k : Bytes) (z : β) : get m k z = (find? m k).getD z := by
  induction m with
  | nil => simp [get, find?]
  | cons a r ih =>
    obtain ⟨k', v'⟩ := a
    by_cases h : k' = k <;> simp [get, find?, h, ih]

theorem mem_keys_set {β} (m : List (Bytes × β)) (k : Bytes) (v : β) (c : Bytes) :
    c ∈ keys (set m k v) ↔ c ∈ keys m ∨ c = k := by
  induction m with
  | nil => simp [set, keys]
  | cons a r ih =>
    obtain ⟨k', v'⟩ := a
    by_cases h : k' = k
    · subst h
      simp only [set, if_true]
      show c ∈ k' :: keys r ↔ c ∈ k' :: keys r ∨ c = k'
      simp only [List.mem_cons]
      constructor
      · intro h; exact Or.inl h
      · rintro (h | h)
        · exact h
        · exact Or.inl h
    · simp only [set, h, if_false]
      show c ∈ k' :: keys (set r k v) ↔ c ∈ k' :: keys r ∨ c = k
      simp only [List.mem_cons, ih, or_assoc]

theorem nodup_keys_set {β} (m : List (Bytes × β)) (k : Bytes) (v : β) (h : (keys m).Nodup) :
    (keys (set m k v)).Nodup := by
  induction m with
  | nil => simp [set, keys]
  | cons a r ih =>
    obtain ⟨k', v'⟩ := a
    simp only [keys, List.map_cons, List.nodup_cons] at h
    by_cases h0 : k' = k
    · subst h0
      simp only [set, if_true, keys, List.map_cons, List.nodup_cons]
      exact h
    · simp only [set, h0, if_false, keys, List.map_cons, List.nodup_cons]
      refine ⟨?_, ih h.2⟩
      intro hm
      have := (mem_keys_set r k v k').1 hm
      rcases this with h1 | h1
      · exact h.1 h1
      · exact h0 h1

theorem find?_none_of_not_mem {β} (m : List (Bytes × β)) (c : Bytes) (h : c ∉ keys m) : find? m c = none := by
  induction m with
  | nil => rfl
  | cons a r ih =>
    obtain ⟨k', v'⟩ := a
    simp only [keys, List.map_cons, List.mem_cons, not_or] at h
    have hne : ¬ k' = c := fun e => h.1 e.symm
    simp only [find?, hne, if_false]
    exact ih h.2

theorem mem_keys_of_find? {β} (m : List (Bytes × β)) (c : Bytes) (v : β) (h : find? m c = some v) : c ∈ keys m := by
  induction m with
  | nil => simp [find?] at h
  | cons a r ih =>
    obtain ⟨k', v'⟩ := a
    by_cases h0 : k' = c
    · simp [keys, h0]
    · simp only [find?, h0, if_false] at h
      simp only [keys, List.map_cons, List.mem_cons]
      exact Or.inr (ih h)

end KV

namespace Balance
open Ast Spec.Bal

/-! ### real postings, missing amounts -/

theorem isReal_image (p : Posting) :
    isReal (imagePosting p) = (p.virt == .none || p.virt == .balanced) := by
  unfold isReal imagePosting
  cases p.virt <;> rfl

theorem real_image (tx : Transaction) : real (image tx) = (filterReal tx.postings).map imagePosting := by
  unfold real image filterReal
  rw [List.filter_map]
  congr 1
  apply List.filter_congr
  intro p _
  simp only [Function.comp, isReal_image]

theorem countInferred_fst (l : List Posting) (i cnt : Nat) (last : Int) :
    (countInferred l i (cnt, last)).1 = cnt + (l.filter fun p => p.amount.isNone).length := by
  induction l generalizing i cnt last with
  | nil => simp [countInferred]
  | cons p r ih =>
    unfold countInferred
    cases hA : p.amount with
    | none =>
      simp only [Option.isNone_none, if_true, List.filter_cons, hA, List.length_cons]
      rw [ih]; omega
    | some a =>
      simp only [Option.isNone_some, Bool.false_eq_true, if_false, List.filter_cons, hA]
      rw [ih]

theorem missing_image (tx : Transaction) :
    missing (image tx) = (countInferred (filterReal tx.postings) 0 (0, -1)).1 := by
  rw [countInferred_fst]
  unfold missing
  rw [real_image, List.filter_map, List.length_map]
  simp only [Nat.zero_add]
  congr 1
  apply List.filter_congr
  intro p _
  simp [imagePosting]

/-! ### one posting -/

/-- `Mul` would panic on this posting. -/
def mulOverflow (p : Posting) : Prop :=
  ∃ a c, p.amount = some a ∧ p.cost = some c ∧ c.isTotal = false ∧
    (c.amount.quantity.exp + a.quantity.exp > Dec.int32Max ∨ c.amount.quantity.exp + a.quantity.exp < Dec.int32Min)

theorem abs_exp (a : Dec) : (Dec.abs a).exp = a.exp := by
  unfold Dec.abs; split <;> rfl

theorem contribution_none_iff (p : Posting) : contribution p = none ↔ p.amount = none := by
  unfold contribution
  cases hA : p.amount with
  | none => simp
  | some a =>
    simp only [reduceCtorEq, iff_false]
    cases hC : p.cost with
    | none => simp
    | some c =>
      simp only
      split <;> simp

theorem contribution_panic_iff (p : Posting) : contribution p = some none ↔ mulOverflow p := by
  unfold contribution mulOverflow
  cases hA : p.amount with
  | none => simp
  | some a =>
    cases hC : p.cost with
    | none => simp
    | some c =>
      simp only
      by_cases ht : c.isTotal = true
      · simp [ht]
      · have ht' : c.isTotal = false := by simpa using ht
        simp only [ht', Bool.false_eq_true, if_false]
        cases hm : Dec.mul c.amount.quantity (Dec.abs a.quantity) with
        | none =>
          have := (Dec.mul_eq_none_iff _ _).1 hm
          rw [abs_exp] at this
          simp only [true_iff]
          exact ⟨a, c, rfl, rfl, ht', this⟩
        | some m =>
          simp only [Option.some.injEq, reduceCtorEq, false_iff]
          rintro ⟨a', c', ha, hc, _, hov⟩
          cases ha; cases hc
          have : Dec.mul c.amount.quantity (Dec.abs a.quantity) = none := by
            rw [Dec.mul_eq_none_iff, abs_exp]; exact hov
          rw [this] at hm
          cases hm

theorem signTransfer_exact (a x : Dec) :
    Dec.toRat (if Dec.isNegative a then Dec.neg x else x) =
      if Dec.toRat a < 0 then -Dec.toRat x else Dec.toRat x := by
  cases h : Dec.isNegative a with
  | true =>
    have := (Dec.isNegative_iff a).1 h
    simp [this, Dec.neg_exact]
  | false =>
    have : ¬ Dec.toRat a < 0 := fun e => by
      have := (Dec.isNegative_iff a).2 e
      rw [h] at this; cases this
    simp [this]

theorem zeroOr_exact (a x : Dec) :
    Dec.toRat (if Dec.isZero a then Dec.zeroValue else x) = if Dec.toRat a = 0 then 0 else Dec.toRat x := by
  cases h : Dec.isZero a with
  | true =>
    have := (Dec.isZero_iff a).1 h
    simp [this, Dec.toRat_zeroValue]
  | false =>
    have : ¬ Dec.toRat a = 0 := fun e => by
      have := (Dec.isZero_iff a).2 e
      rw [h] at this; cases this
    simp [this]

/-- The decimal a posting contributes is exactly the statement's cost-converted quantity. -/
theorem contribution_exact (p : Posting) (k : Bytes) (q : Dec)
    (h : contribution p = some (some (k, q))) :
    converted totalBySignum (imagePosting p) = some (k, Dec.toRat q) := by
  unfold contribution at h
  unfold converted imagePosting
  cases hA : p.amount with
  | none => simp [hA] at h
  | some a =>
    simp only [hA] at h
    cases hC : p.cost with
    | none =>
      simp only [hC, Option.some.injEq, Prod.mk.injEq] at h
      obtain ⟨h1, h2⟩ := h
      subst h1; subst h2
      simp [imageAmount]
    | some c =>
      simp only [hC] at h
      simp only [Option.map_some, imageAmount, imageCost]
      cases ht : c.isTotal with
      | true =>
        simp only [ht, if_true, Option.some.injEq, Prod.mk.injEq] at h
        obtain ⟨h1, h2⟩ := h
        subst h1; subst h2
        simp only [if_true]
        congr 2
        rw [signTransfer_exact, zeroOr_exact]
        unfold totalBySignum signum
        by_cases hlt : Dec.toRat a.quantity < 0
        · have hne : ¬ Dec.toRat a.quantity = 0 := fun e => by
            rw [e] at hlt; exact Rat.lt_irrefl hlt
          simp only [hlt, hne, if_true, if_false]
          grind
        · by_cases hz : Dec.toRat a.quantity = 0
          · simp only [hlt, hz, if_true, if_false]
            grind
          · simp only [hlt, hz, if_false]
            grind
      | false =>
        simp only [ht, Bool.false_eq_true, if_false] at h
        cases hm : Dec.mul c.amount.quantity (Dec.abs a.quantity) with
        | none => simp [hm] at h
        | some m =>
          simp only [hm, Option.some.injEq, Prod.mk.injEq] at h
          obtain ⟨h1, h2⟩ := h
          subst h1; subst h2
          simp only [Bool.false_eq_true, if_false]
          congr 2
          have hmul := Dec.mul_exact hm
          rw [Dec.abs_exact] at hmul
          rw [signTransfer_exact, hmul]
          unfold Dec.rabs
          by_cases hlt : Dec.toRat a.quantity < 0
          · simp only [hlt, if_true]
            grind
          · simp only [hlt, if_false]

/-! ### the summation loop -/

/-- contributions of a list of syntax-tree postings to commodity `c` (statement's rule). -/
def contribs (l : List Posting) (c : Bytes) : List Rat :=
  l.filterMap fun p => match converted totalBySignum (imagePosting p) with
    | some (c', v) => if c' = c then some v else none
    | none => none

theorem contribs_cons (p : Posting) (r : List Posting) (c : Bytes) :
    contribs (p :: r) c = (match converted totalBySignum (imagePosting p) with
      | some (c', v) => if c' = c then [v] else []
      | none => []) ++ contribs r c := by
  unfold contribs
  rw [List.filterMap_cons]
  cases converted totalBySignum (imagePosting p) with
  | none => simp
  | some cv =>
    obtain ⟨c', v⟩ := cv
    by_cases h : c' = c <;> simp [h]

theorem converted_none_of_amount_none (p : Posting) (h : p.amount = none) :
    converted totalBySignum (imagePosting p) = none := by
  unfold converted imagePosting; simp [h]

theorem sumRat_cons (a : Rat) (l : List Rat) : sumRat (a :: l) = a + sumRat l := rfl
theorem sumRat_nil : sumRat [] = 0 := rfl

theorem sum_spec (l : List Posting) (m m' : Sums) (h : sumByCommodity l m = some m')
    (hn : (KV.keys m).Nodup) :
    (KV.keys m').Nodup ∧
    ∀ c, Dec.toRat (KV.get m' c Dec.zero) = Dec.toRat (KV.get m c Dec.zero) + sumRat (contribs l c) := by
  induction l generalizing m with
  | nil =>
    simp only [sumByCommodity, Option.some.injEq] at h
    subst h
    refine ⟨hn, fun c => ?_⟩
    simp [contribs, sumRat_nil, Rat.add_zero]
  | cons p r ih =>
    unfold sumByCommodity at h
    cases hc : contribution p with
    | none =>
      simp only [hc] at h
      obtain ⟨h1, h2⟩ := ih m h hn
      refine ⟨h1, fun c => ?_⟩
      rw [h2 c, contribs_cons, converted_none_of_amount_none p ((contribution_none_iff p).1 hc)]
      simp
    | some o =>
      cases o with
      | none => simp [hc] at h
      | some kq =>
        obtain ⟨k, q⟩ := kq
        simp only [hc] at h
        obtain ⟨h1, h2⟩ := ih _ h (KV.nodup_keys_set m k _ hn)
        refine ⟨h1, fun c => ?_⟩
        rw [h2 c, contribs_cons, contribution_exact p k q hc]
        by_cases hk : k = c
        · subst hk
          simp only [if_true, KV.get_set_self, Dec.add_exact, List.cons_append, List.nil_append, sumRat_cons]
          grind
        · simp only [hk, if_false, List.nil_append]
          rw [KV.get_set_ne m _ _ hk]

theorem sum_none_iff (l : List Posting) (m : Sums) :
    sumByCommodity l m = none ↔ ∃ p ∈ l, mulOverflow p := by
  induction l generalizing m with
  | nil => simp [sumByCommodity]
  | cons p r ih =>
    unfold sumByCommodity
    cases hc : contribution p with
    | none =>
      simp only [List.mem_cons, exists_eq_or_imp]
      rw [ih]
      have : ¬ mulOverflow p := fun h => by
        have := (contribution_panic_iff p).2 h
        rw [hc] at this; cases this
      simp [this]
    | some o =>
      cases o with
      | none =>
        simp only [List.mem_cons, exists_eq_or_imp, true_iff]
        exact Or.inl ((contribution_panic_iff p).1 hc)
      | some kq =>
        obtain ⟨k, q⟩ := kq
        simp only [List.mem_cons, exists_eq_or_imp]
        rw [ih]
        have : ¬ mulOverflow p := fun h => by
          have := (contribution_panic_iff p).2 h
          rw [hc] at this; cases this
        simp [this]

/-! ### differences -/

theorem differencesOf_cons (k : Bytes) (v : Dec) (r : Sums) :
    differencesOf ((k, v) :: r) =
      if Dec.isZero v then differencesOf r else (k, Dec.abs v) :: differencesOf r := by
  unfold differencesOf
  rw [List.filterMap_cons]
  cases h : Dec.isZero v <;> simp [h]

theorem find?_differencesOf (sums : Sums) (hn : (KV.keys sums).Nodup) (c : Bytes) :
    KV.find? (differencesOf sums) c =
      match KV.find? sums c with
      | some v => if Dec.isZero v then none else some (Dec.abs v)
      | none => none := by
  induction sums with
  | nil => simp [differencesOf, KV.find?]
  | cons a r ih =>
    obtain ⟨k, v⟩ := a
    simp only [KV.keys, List.map_cons, List.nodup_cons] at hn
    have ih' := ih hn.2
    rw [differencesOf_cons]
    by_cases hk : k = c
    · subst hk
      have hnone : KV.find? r k = none := KV.find?_none_of_not_mem r k hn.1
      cases hz : Dec.isZero v with
      | true =>
        simp only [if_true, KV.find?]
        rw [ih', hnone]
        simp [hz]
      | false => simp [KV.find?, hz]
    · cases hz : Dec.isZero v with
      | true =>
        simp only [if_true, KV.find?, hk, if_false]
        exact ih'
      | false =>
        simp only [Bool.false_eq_true, if_false, KV.find?, hk]
        exact ih'

/-! ### the specification side -/

theorem mem_dedup (l : List Bytes) (c : Bytes) : c ∈ dedup l ↔ c ∈ l := by
  induction l with
  | nil => simp [dedup]
  | cons a r ih =>
    unfold dedup
    by_cases h : a ∈ dedup r
    · simp only [h, if_true, List.mem_cons, ih]
      constructor
      · exact Or.inr
      · rintro (h1 | h1)
        · subst h1; exact ih.1 h
        · exact h1
    · simp only [h, if_false, List.mem_cons, ih]

theorem nodup_dedup (l : List Bytes) : (dedup l).Nodup := by
  induction l with
  | nil => simp [dedup]
  | cons a r ih =>
    unfold dedup
    by_cases h : a ∈ dedup r
    · simp [h, ih]
    · simp [h, ih]

theorem contributions_nil_of_not_mem (rule : TotalRule) (tx : RTx) (c : Bytes)
    (h : c ∉ commodities rule tx) : contributions rule tx c = [] := by
  unfold commodities at h
  rw [mem_dedup] at h
  unfold contributions
  rw [List.filterMap_eq_nil_iff]
  intro p hp
  cases hc : converted rule p with
  | none => rfl
  | some cv =>
    obtain ⟨c', v⟩ := cv
    by_cases hcc : c' = c
    · exfalso
      apply h
      rw [List.mem_filterMap]
      exact ⟨p, hp, by simp [hc, hcc]⟩
    · simp [hcc]

theorem find?_filterMap_keys (keys : List Bytes) (f : Bytes → Option Rat) (hn : keys.Nodup) (c : Bytes) :
    KV.find? (keys.filterMap fun k => (f k).map fun v => (k, v)) c = if c ∈ keys then f c else none := by
  induction keys with
  | nil => simp [KV.find?]
  | cons k r ih =>
    simp only [List.nodup_cons] at hn
    rw [List.filterMap_cons]
    by_cases hk : k = c
    · subst hk
      cases hf : f k with
      | none =>
        simp only [Option.map_none, List.mem_cons, true_or, if_true]
        rw [ih hn.2, if_neg hn.1]
      | some v => simp [KV.find?]
    · have hk' : ¬ c = k := fun e => hk e.symm
      cases hf : f k with
      | none =>
        simp only [Option.map_none, List.mem_cons, hk', false_or]
        exact ih hn.2
      | some v =>
        simp only [Option.map_some, KV.find?, hk, if_false, List.mem_cons, hk', false_or]
        exact ih hn.2

theorem find?_diffs (rule : TotalRule) (tx : RTx) (c : Bytes) :
    KV.find? (diffs rule tx) c =
      if residual rule tx c = 0 then none else some (rabs (residual rule tx c)) := by
  have h := find?_filterMap_keys (commodities rule tx)
    (fun k => if residual rule tx k = 0 then none else some (rabs (residual rule tx k)))
    (nodup_dedup _) c
  have e : diffs rule tx = (commodities rule tx).filterMap fun k =>
      ((fun k => if residual rule tx k = 0 then none else some (rabs (residual rule tx k))) k).map fun v => (k, v) := by
    unfold diffs
    congr 1
    funext k
    by_cases hz : residual rule tx k = 0 <;> simp [hz]
  rw [e, h]
  by_cases hm : c ∈ commodities rule tx
  · simp [hm]
  · have : residual rule tx c = 0 := by
      unfold residual
      rw [contributions_nil_of_not_mem rule tx c hm]
      rfl
    simp [hm, this]

theorem contributions_image (tx : Transaction) (c : Bytes) :
    contributions totalBySignum (image tx) c = contribs (filterReal tx.postings) c := by
  unfold contributions contribs
  rw [real_image, List.filterMap_map]
  rfl

end Balance
end HL
