/-
  `refreshIncludeTreeLocked`: one round (compute reachable, remove unreachable, add missing
  reachable) and the fixpoint.  Result: the workspace invariant holds again and the indexed
  files are exactly the existing files reachable from the root (`Closed`).  Termination:
  after the first round nothing is removed any more and every further round indexes at
  least one more file of the directory, so `len(directory) + 2` rounds suffice.
-/
import HL.Lemmas.WsInv
namespace HL.Lemmas.Refresh
open HL.Index HL.Workspace HL.Lemmas.AList HL.Lemmas.ReachIdx HL.Lemmas.Edges HL.Lemmas.Index
open HL.Lemmas.WsInv HL.Spec.Rebuild

/-! ### removing one unreachable file -/

/-- the loop body of `removeUnreachableLocked` -/
def dropFile (cfg : Cfg) (w : WS) (path : String) : WS :=
  let w := match w.idx.files.get path with
    | some old => updateIncludeEdges w path old.includes []
    | none => w
  { w with idx := removeFile cfg.fixT w.idx path
           incG := w.incG.erase path
           revG := w.revG.erase path
           rfiles := if w.hasResolved then w.rfiles.erase path else w.rfiles
           order := if w.hasResolved then removeString w.order path else w.order }

theorem removeUnreachable_eq (cfg : Cfg) (w : WS) (R : List String) :
    removeUnreachable cfg w R = (w.idx.files.keys.filter (· ∉ R)).foldl (dropFile cfg) w := rfl

theorem dropFile_fields (cfg : Cfg) (w : WS) (t : String) (fi : FileIdx)
    (hg : w.idx.files.get t = some fi) :
    (dropFile cfg w t).root = w.root ∧ (dropFile cfg w t).hasResolved = w.hasResolved ∧
    (dropFile cfg w t).primary = w.primary ∧
    (dropFile cfg w t).cFormats = w.cFormats ∧ (dropFile cfg w t).cComms = w.cComms ∧
    (dropFile cfg w t).cAccts = w.cAccts ∧
    (dropFile cfg w t).idx = removeFile cfg.fixT w.idx t ∧
    (dropFile cfg w t).incG = (w.incG.set t []).erase t ∧
    (dropFile cfg w t).revG = (revRemove w.revG t fi.includes).erase t ∧
    (dropFile cfg w t).rfiles = (if w.hasResolved then w.rfiles.erase t else w.rfiles) ∧
    (dropFile cfg w t).order = (if w.hasResolved then removeString w.order t else w.order) := by
  unfold dropFile
  simp only [hg, updateIncludeEdges_eq, revAdd, List.foldl_nil]
  simp

theorem files_dropFile (cfg : Cfg) (w : WS) (t : String) (fi : FileIdx)
    (hg : w.idx.files.get t = some fi) (y : String) :
    (dropFile cfg w t).idx.files.get y = if t = y then none else w.idx.files.get y := by
  rw [(dropFile_fields cfg w t fi hg).2.2.2.2.2.2.1, files_removeFile, get_erase]

theorem includesOf_dropFile (cfg : Cfg) (w : WS) (t : String) (fi : FileIdx)
    (hg : w.idx.files.get t = some fi) (y : String) :
    includesOf (dropFile cfg w t) y = if t = y then [] else includesOf w y := by
  unfold includesOf
  rw [files_dropFile cfg w t fi hg y]
  by_cases e : t = y <;> simp [e]

theorem dropFile_ginv (cfg : Cfg) (fs : FS) (w : WS) (D : String → Prop) (t : String)
    (fi : FileIdx) (h : GInv cfg fs w D) (hg : w.idx.files.get t = some fi) :
    GInv cfg fs (dropFile cfg w t) (fun q => q = t ∨ D q) := by
  obtain ⟨_, _, _, _, _, _, hidx, hinc, hrev, _, _⟩ := dropFile_fields cfg w t fi hg
  refine ⟨?_, ?_, ?_, ?_⟩
  · rw [hidx]; exact idxInv_removeFile cfg.fixT w.idx t h.idx
  · intro p fi' hg'
    rw [files_dropFile cfg w t fi hg p] at hg'
    by_cases e : t = p
    · simp [e] at hg'
    · simp only [e, if_false] at hg'; exact h.fresh p fi' hg'
  · intro p
    rw [hinc, includesOf_dropFile cfg w t fi hg p, getD_erase, getD_set]
    by_cases e : t = p
    · simp [e]
    · simp only [e, if_false]; exact h.incOk p
  · intro q x
    rw [hrev, includesOf_dropFile cfg w t fi hg x, getD_erase]
    have hti : includesOf w t = fi.includes := includesOf_eq w t fi hg
    by_cases e : t = q
    · subst e; simp
    · have e' : ¬ q = t := fun h => e h.symm
      simp only [e, if_false, mem_revRemove, h.revOk q x, e', false_or]
      by_cases e2 : t = x
      · subst e2
        simp only [if_true, List.not_mem_nil, and_false, iff_false, and_true, not_and]
        intro ⟨_, h2⟩ h3
        rw [hti] at h2; exact h3 h2
      · have e2' : ¬ x = t := fun h => e2 h.symm
        simp [e2, e2']

theorem dropFile_rinv (cfg : Cfg) (fs : FS) (w : WS) (t : String) (fi : FileIdx)
    (h : RInv fs w) (hg : w.idx.files.get t = some fi) (ht : t ≠ w.root) :
    RInv fs (dropFile cfg w t) := by
  obtain ⟨hroot, hhas, hprim, _, _, _, _, _, _, hrf, hord⟩ := dropFile_fields cfg w t fi hg
  refine ⟨by rw [hhas]; exact h.has, by rw [hprim, hroot]; exact h.primary, ?_, ?_⟩
  · intro p
    rw [hrf, h.has, hroot, files_dropFile cfg w t fi hg p]
    simp only [if_true, get_erase]
    by_cases e : t = p
    · subst e; simp
    · simp only [e, if_false]; exact h.rfiles p
  · intro p
    rw [hord, hrf, h.has]
    simp only [if_true, get_erase, removeString, List.mem_filter, ne_eq, decide_eq_true_eq]
    by_cases e : t = p
    · subst e; simp
    · have e' : ¬ p = t := fun h => e h.symm
      simp only [e, if_false, e', not_false_eq_true, and_true]
      exact h.order p

theorem succG_dropFile (cfg : Cfg) (w : WS) (t : String) (fi : FileIdx)
    (hg : w.idx.files.get t = some fi) (u : String) :
    succG (dropFile cfg w t).incG u = if t = u then [] else succG w.incG u := by
  unfold succG
  rw [(dropFile_fields cfg w t fi hg).2.2.2.2.2.2.2.1, getD_erase, getD_set]
  by_cases e : t = u <;> simp [e]

theorem reach_dropFile (cfg : Cfg) (w : WS) (t : String) (fi : FileIdx)
    (hg : w.idx.files.get t = some fi) (root : String) (ht : ¬ ReachS (succG w.incG) root t)
    (x : String) :
    ReachS (succG (dropFile cfg w t).incG) root x ↔ ReachS (succG w.incG) root x := by
  constructor
  · intro h
    apply reachS_mono h
    intro p _ q hq
    rw [succG_dropFile cfg w t fi hg p] at hq
    by_cases e : t = p
    · simp [e] at hq
    · simpa [e] using hq
  · intro h
    apply reachS_drop_unreachable (t := t) _ ht h
    intro u hu
    rw [succG_dropFile cfg w t fi hg u]
    simp [Ne.symm hu]

/-! ### removing a batch -/

structure DropAll (cfg : Cfg) (fs : FS) (w w' : WS) (T : List String) (D : String → Prop) : Prop where
  files : ∀ y, w'.idx.files.get y = if y ∈ T then none else w.idx.files.get y
  g : GInv cfg fs w' (fun q => q ∈ T ∨ D q)
  r : RInv fs w'
  reach : ∀ x, ReachS (succG w'.incG) w.root x ↔ ReachS (succG w.incG) w.root x
  root : w'.root = w.root
  caches : w'.cFormats = w.cFormats ∧ w'.cComms = w.cComms ∧ w'.cAccts = w.cAccts

theorem dropAll (cfg : Cfg) (fs : FS) :
    ∀ (T : List String) (w : WS) (D : String → Prop), GInv cfg fs w D → RInv fs w → T.Nodup →
      (∀ t ∈ T, (w.idx.files.get t).isSome ∧ t ≠ w.root ∧ ¬ ReachS (succG w.incG) w.root t) →
      DropAll cfg fs w (T.foldl (dropFile cfg) w) T D := by
  intro T
  induction T with
  | nil =>
    intro w D hg hr _ _
    exact ⟨fun y => by simp, by simpa using hg, hr, fun x => Iff.rfl, rfl, ⟨rfl, rfl, rfl⟩⟩
  | cons t T ih =>
    intro w D hg hr hn hT
    rw [List.nodup_cons] at hn
    obtain ⟨ht1, ht2, ht3⟩ := hT t List.mem_cons_self
    obtain ⟨fi, hfi⟩ := Option.isSome_iff_exists.mp ht1
    have hf := dropFile_fields cfg w t fi hfi
    have hroot : (dropFile cfg w t).root = w.root := hf.1
    have hg1 := dropFile_ginv cfg fs w D t fi hg hfi
    have hr1 := dropFile_rinv cfg fs w t fi hr hfi ht2
    have hT1 : ∀ t' ∈ T, ((dropFile cfg w t).idx.files.get t').isSome ∧ t' ≠ (dropFile cfg w t).root ∧
        ¬ ReachS (succG (dropFile cfg w t).incG) (dropFile cfg w t).root t' := by
      intro t' ht'
      obtain ⟨a1, a2, a3⟩ := hT t' (List.mem_cons_of_mem _ ht')
      have hne : ¬ t = t' := fun e => hn.1 (e ▸ ht')
      refine ⟨by rw [files_dropFile cfg w t fi hfi t']; simpa [hne] using a1, by rw [hroot]; exact a2, ?_⟩
      rw [hroot, reach_dropFile cfg w t fi hfi w.root ht3 t']; exact a3
    have := ih (dropFile cfg w t) _ hg1 hr1 hn.2 hT1
    simp only [List.foldl_cons]
    refine ⟨?_, ?_, this.r, ?_, this.root.trans hroot, ?_⟩
    · intro y
      rw [this.files y, files_dropFile cfg w t fi hfi y]
      by_cases e1 : y ∈ T
      · simp [e1]
      · by_cases e2 : t = y
        · simp [e2]
        · have : ¬ y = t := fun h => e2 h.symm
          simp [e1, e2, this]
    · have hg2 := this.g
      refine ⟨hg2.idx, hg2.fresh, hg2.incOk, ?_⟩
      intro q x
      rw [hg2.revOk q x]
      simp only [List.mem_cons]
      constructor
      · rintro ⟨h1, h2⟩
        exact ⟨fun h => h1 (by rcases h with (h | h) | h; exact Or.inr (Or.inl h); exact Or.inl h; exact Or.inr (Or.inr h)), h2⟩
      · rintro ⟨h1, h2⟩
        exact ⟨fun h => h1 (by rcases h with h | h | h; exact Or.inl (Or.inr h); exact Or.inl (Or.inl h); exact Or.inr h), h2⟩
    · intro x
      rw [← reach_dropFile cfg w t fi hfi w.root ht3 x, ← hroot]
      exact this.reach x
    · obtain ⟨c1, c2, c3⟩ := this.caches
      exact ⟨c1.trans hf.2.2.2.1, c2.trans hf.2.2.2.2.1, c3.trans hf.2.2.2.2.2.1⟩

/-! ### computeReachable -/

theorem mem_computeReachable (w : WS) (h : w.root ≠ "") (x : String) :
    x ∈ computeReachable w ↔ ReachS (succG w.incG) w.root x := by
  unfold computeReachable
  simp only [h, if_false]
  exact mem_bfs_iff w.incG w.root x

/-- the state after `removeUnreachableLocked`: invariant restored, every indexed file reachable
    in the include graph of the index -/
theorem removeUnreachable_spec (cfg : Cfg) (fs : FS) (w : WS) (h : PInv cfg fs w) :
    let w' := removeUnreachable cfg w (computeReachable w)
    PInv cfg fs w' ∧
    (∀ y, w'.idx.files.get y =
      if y ∈ computeReachable w then w.idx.files.get y else none) ∧
    (∀ x, ReachS (succG w'.incG) w.root x ↔ ReachS (succG w.incG) w.root x) ∧
    w'.root = w.root ∧
    (w'.cFormats = w.cFormats ∧ w'.cComms = w.cComms ∧ w'.cAccts = w.cAccts) := by
  intro w'
  have hR := mem_computeReachable w h.root_ne
  have hT : ∀ t ∈ w.idx.files.keys.filter (· ∉ computeReachable w),
      (w.idx.files.get t).isSome ∧ t ≠ w.root ∧ ¬ ReachS (succG w.incG) w.root t := by
    intro t ht
    simp only [List.mem_filter, decide_eq_true_eq] at ht
    refine ⟨(mem_keys_iff _ _).mp ht.1, ?_, fun hr => ht.2 ((hR t).mpr hr)⟩
    intro e
    exact ht.2 ((hR t).mpr (e ▸ .base))
  have hd := dropAll cfg fs _ w NoDead h.g h.r (h.g.idx.nodup.filter _) hT
  rw [← removeUnreachable_eq] at hd
  have hfiles : ∀ y, w'.idx.files.get y = if y ∈ computeReachable w then w.idx.files.get y else none := by
    intro y
    rw [hd.files y]
    by_cases e : y ∈ computeReachable w
    · simp [e]
    · simp only [e, if_false, List.mem_filter, decide_eq_true_eq, not_false_eq_true, and_true]
      by_cases e2 : y ∈ w.idx.files.keys
      · simp [e2]
      · simp [e2, (get_eq_none_iff _ _).mpr e2]
  refine ⟨⟨by rw [hd.root]; exact h.root_ne, ?_, ?_, hd.r⟩, hfiles, hd.reach, hd.root, hd.caches⟩
  · rw [hd.root, hfiles, if_pos ((hR _).mpr .base)]; exact h.rootIdx
  · -- the dead set is empty again: nothing indexed includes a removed path
    have hg := hd.g
    refine ⟨hg.idx, hg.fresh, hg.incOk, ?_⟩
    intro q x
    rw [hg.revOk q x]
    simp only [NoDead, not_false_eq_true, true_and, or_false]
    constructor
    · exact fun h => h.2
    · intro hq
      refine ⟨?_, hq⟩
      intro hqT
      simp only [List.mem_filter, decide_eq_true_eq] at hqT
      apply hqT.2
      -- x is indexed, hence reachable; q is one of its include targets
      have hx : (w'.idx.files.get x).isSome := by
        unfold includesOf at hq
        cases e : w'.idx.files.get x with
        | some _ => rfl
        | none => simp [e] at hq
      rw [hfiles x] at hx
      by_cases e : x ∈ computeReachable w
      · have hxr : ReachS (succG w'.incG) w.root x := (hd.reach x).mpr ((hR x).mp e)
        have : ReachS (succG w'.incG) w.root q := .step hxr (by unfold succG; rw [hg.incOk x]; exact hq)
        exact (hR q).mpr ((hd.reach q).mp this)
      · simp [e] at hx

/-! ### adding the missing reachable files -/

/-- the loop body of `addMissingReachableLocked` -/
def addStep (cfg : Cfg) (fsr : FS) (wa : WS × Bool) (path : String) : WS × Bool :=
  match fsr.get path with
  | none => wa
  | some c => (updateResolved (putFile cfg wa.1 path c []) path c, true)

/-- the paths `addMissingReachableLocked` tries, in its order -/
def missingOf (w : WS) (R : List String) : List String :=
  isort (R.filter fun p => (w.idx.files.get p).isNone)

theorem addMissing_eq (cfg : Cfg) (fsr : FS) (w : WS) (R : List String) :
    addMissingReachable cfg fsr w R =
      (let r := (missingOf w R).foldl (addStep cfg fsr) (w, false)
       if r.2 then (clearCaches r.1, true) else r) := rfl

/-- what the disk shows for files that are not indexed is what the invariant is about -/
def Agree (fsr fsd : FS) (w : WS) : Prop := ∀ q, w.idx.files.get q = none → fsr.get q = fsd.get q

theorem succG_putFile (cfg : Cfg) (w : WS) (x : String) (c : Contrib) (old : List String) (u : String) :
    succG (putFile cfg w x c old).incG u = if x = u then (mkFileIdx x c).includes else succG w.incG u := by
  unfold succG putFile
  rw [incG_update]

/-- indexing a file that was not indexed -/
theorem addOne (cfg : Cfg) (fsr fsd : FS) (w : WS) (x : String) (c : Contrib)
    (h : PInv cfg fsd w) (hok : fsOk fsd = true) (hag : Agree fsr fsd w)
    (hx : w.idx.files.get x = none) (hc : fsr.get x = some c) :
    let w' := updateResolved (putFile cfg w x c []) x c
    PInv cfg fsd w' ∧ Agree fsr fsd w' ∧
    (∀ y, w'.idx.files.get y = if x = y then some (mkFileIdx x c) else w.idx.files.get y) ∧
    (∀ u, ReachS (succG w.incG) w.root u → ReachS (succG w'.incG) w.root u) ∧
    w'.root = w.root ∧
    (w'.cFormats = w.cFormats ∧ w'.cComms = w.cComms ∧ w'.cAccts = w.cAccts) := by
  intro w'
  have hcd : fsd.get x = some c := by rw [← hag x hx]; exact hc
  obtain ⟨hxne, hcok⟩ := fsOk_get fsd hok x c hcd
  have hinc0 : includesOf w x = [] := includesOf_none w x hx
  have hput := putFile_ginv cfg fsd fsd w x c h.g hxne hcok hcd (fun _ _ => rfl)
  rw [hinc0] at hput
  obtain ⟨f1, f2, f3, f4, _, f6, f7, f8⟩ := updateResolved_fields (putFile cfg w x c []) x c
  obtain ⟨p1, _, p3, p4, p5, p6, p7, p8⟩ := putFile_other cfg w x c []
  have hfiles : ∀ y, w'.idx.files.get y = if x = y then some (mkFileIdx x c) else w.idx.files.get y := by
    intro y
    show (updateResolved (putFile cfg w x c []) x c).idx.files.get y = _
    rw [f2]; exact files_putFile cfg w x c [] hxne y
  have hroot : w'.root = w.root := f1.trans p1
  refine ⟨⟨?_, ?_, updateResolved_ginv cfg fsd _ NoDead x c hput, ?_⟩, ?_, hfiles, ?_, hroot,
    ⟨f6.trans p6, f7.trans p7, f8.trans p8⟩⟩
  · rw [hroot]; exact h.root_ne
  · rw [hroot, hfiles]
    by_cases e : x = w.root
    · simp [e]
    · simp only [e, if_false]; exact h.rootIdx
  · exact updateResolved_rinv fsd fsd w (putFile cfg w x c []) x c h.r p1 ⟨p3, p4, p5⟩
      (fun y => files_putFile cfg w x c [] hxne y) hcd (fun _ _ => rfl)
  · intro q hq
    rw [hfiles q] at hq
    by_cases e : x = q
    · simp [e] at hq
    · simp only [e, if_false] at hq; exact hag q hq
  · intro u hu
    apply reachS_mono hu
    intro p _ q hq
    show q ∈ succG (updateResolved (putFile cfg w x c []) x c).incG p
    rw [f3, succG_putFile]
    by_cases e : x = p
    · subst e
      unfold succG at hq
      rw [h.g.incOk x, hinc0] at hq
      simp at hq
    · simpa [e] using hq

structure AddAll (cfg : Cfg) (fsr fsd : FS) (w : WS) (b : Bool) (L : List String)
    (w' : WS) (b' : Bool) : Prop where
  pinv : PInv cfg fsd w'
  agree : Agree fsr fsd w'
  files : ∀ y, (w'.idx.files.get y).isSome ↔
    ((w.idx.files.get y).isSome ∨ (y ∈ L ∧ (fsr.get y).isSome))
  keep : ∀ y fi, w.idx.files.get y = some fi → w'.idx.files.get y = some fi
  flag : b' = true ↔ (b = true ∨ ∃ y ∈ L, (fsr.get y).isSome)
  reach : ∀ u, ReachS (succG w.incG) w.root u → ReachS (succG w'.incG) w.root u
  root : w'.root = w.root
  caches : w'.cFormats = w.cFormats ∧ w'.cComms = w.cComms ∧ w'.cAccts = w.cAccts

/-- the loop over the missing files: distinct paths, none of them indexed -/
theorem addAll (cfg : Cfg) (fsr fsd : FS) (hok : fsOk fsd = true) :
    ∀ (L : List String) (w : WS) (b : Bool), PInv cfg fsd w → Agree fsr fsd w → L.Nodup →
      (∀ x ∈ L, w.idx.files.get x = none) →
      AddAll cfg fsr fsd w b L ((L.foldl (addStep cfg fsr) (w, b)).1)
        ((L.foldl (addStep cfg fsr) (w, b)).2) := by
  intro L
  induction L with
  | nil =>
    intro w b h hag _ _
    exact ⟨h, hag, fun y => by simp, fun y fi h => h, by simp, fun u h => h, rfl, ⟨rfl, rfl, rfl⟩⟩
  | cons x L ih =>
    intro w b h hag hn hL
    rw [List.nodup_cons] at hn
    have hxn : w.idx.files.get x = none := hL x List.mem_cons_self
    simp only [List.foldl_cons]
    cases hc : fsr.get x with
    | none =>
      have e : addStep cfg fsr (w, b) x = (w, b) := by simp [addStep, hc]
      rw [e]
      have := ih w b h hag hn.2 (fun y hy => hL y (List.mem_cons_of_mem _ hy))
      refine ⟨this.pinv, this.agree, ?_, this.keep, ?_, this.reach, this.root, this.caches⟩
      · intro y
        rw [this.files y]
        constructor
        · rintro (h1 | ⟨h1, h2⟩)
          · exact Or.inl h1
          · exact Or.inr ⟨List.mem_cons_of_mem _ h1, h2⟩
        · rintro (h1 | ⟨h1, h2⟩)
          · exact Or.inl h1
          · rcases List.mem_cons.mp h1 with h1 | h1
            · subst h1; rw [hc] at h2; simp at h2
            · exact Or.inr ⟨h1, h2⟩
      · rw [this.flag]
        constructor
        · rintro (h1 | ⟨y, h1, h2⟩)
          · exact Or.inl h1
          · exact Or.inr ⟨y, List.mem_cons_of_mem _ h1, h2⟩
        · rintro (h1 | ⟨y, h1, h3⟩)
          · exact Or.inl h1
          · rcases List.mem_cons.mp h1 with h1 | h1
            · subst h1; rw [hc] at h3; simp at h3
            · exact Or.inr ⟨y, h1, h3⟩
    | some c =>
      have e : addStep cfg fsr (w, b) x = (updateResolved (putFile cfg w x c []) x c, true) := by
        simp [addStep, hc]
      rw [e]
      obtain ⟨a1, a2, a3, a4, a5, a6⟩ := addOne cfg fsr fsd w x c h hok hag hxn hc
      have := ih _ true a1 a2 hn.2 (by
        intro y hy
        have hne : ¬ x = y := fun e => hn.1 (e ▸ hy)
        rw [a3 y]
        simp only [hne, if_false]
        exact hL y (List.mem_cons_of_mem _ hy))
      refine ⟨this.pinv, this.agree, ?_, ?_, ?_, ?_, this.root.trans a5, ?_⟩
      · intro y
        rw [this.files y, a3 y]
        by_cases e2 : x = y
        · subst e2
          simp [hc]
        · have : ¬ y = x := fun h => e2 h.symm
          simp [e2, this]
      · intro y fi hy
        apply this.keep
        rw [a3 y]
        by_cases e2 : x = y
        · subst e2; rw [hxn] at hy; simp at hy
        · simp [e2, hy]
      · rw [this.flag]
        simp only [true_or, true_iff]
        exact Or.inr ⟨x, List.mem_cons_self, by rw [hc]; rfl⟩
      · intro u hu
        rw [← a5]
        exact this.reach u (a5 ▸ a4 u hu)
      · obtain ⟨c1, c2, c3⟩ := this.caches
        exact ⟨c1.trans a6.1, c2.trans a6.2.1, c3.trans a6.2.2⟩

/-! ### one round -/

theorem bfsF_nodup (g : AList (List String)) :
    ∀ (n : Nat) (q r : List String), r.Nodup → (bfsF g n q r).Nodup := by
  intro n
  induction n with
  | zero => intro q r h; simpa [bfsF] using h
  | succ n ih =>
    intro q r h
    cases q with
    | nil => simpa [bfsF] using h
    | cons p q =>
      unfold bfsF
      split
      · exact ih _ _ h
      · rename_i hp
        apply ih
        rw [List.nodup_append]
        exact ⟨h, by simp, fun a ha b hb => by
          simp only [List.mem_singleton] at hb; subst hb; exact fun e => hp (e ▸ ha)⟩

theorem computeReachable_nodup (w : WS) : (computeReachable w).Nodup := by
  unfold computeReachable
  split
  · simp
  · exact bfsF_nodup _ _ _ _ (by simp)

theorem mem_missingOf (w : WS) (R : List String) (x : String) :
    x ∈ missingOf w R ↔ (x ∈ R ∧ w.idx.files.get x = none) := by
  simp [missingOf, List.mem_filter, Option.isNone_iff_eq_none]

theorem missingOf_nodup (w : WS) (R : List String) (h : R.Nodup) : (missingOf w R).Nodup :=
  isort_nodup _ (List.Pairwise.filter _ h)

/-- one iteration of the loop of `refreshIncludeTreeLocked` -/
def round (cfg : Cfg) (fsr : FS) (w : WS) : WS × Bool :=
  addMissingReachable cfg fsr (removeUnreachable cfg w (computeReachable w)) (computeReachable w)

theorem refreshF_succ (cfg : Cfg) (fsr : FS) (n : Nat) (w : WS) :
    refreshF cfg fsr (n + 1) w =
      if (round cfg fsr w).2 then refreshF cfg fsr n (round cfg fsr w).1
      else (round cfg fsr w).1 := rfl

theorem clearCaches_of_none (w : WS) (h : CachesNone w) : clearCaches w = w := by
  obtain ⟨h1, h2, h3⟩ := h
  cases w
  simp only [clearCaches] at *
  simp [h1, h2, h3]

/-- every indexed file is reachable in the include graph of the index -/
def Sound (w : WS) : Prop := ∀ y, (w.idx.files.get y).isSome → ReachS (succG w.incG) w.root y

/-- a file whose disk content is not the content the invariant speaks of stays reachable -/
def Keep (fsr fsd : FS) (w : WS) : Prop :=
  ∀ q, fsr.get q ≠ fsd.get q → ReachS (succG w.incG) w.root q

/-- number of files on disk that are not indexed -/
def mu (fsr : FS) (w : WS) : Nat := (fsr.keys.filter fun q => (w.idx.files.get q).isNone).length

theorem length_filter_lt {α : Type} (l : List α) (p p' : α → Bool)
    (h1 : ∀ a ∈ l, p' a = true → p a = true) (h2 : ∃ a ∈ l, p a = true ∧ p' a = false) :
    (l.filter p').length < (l.filter p).length := by
  induction l with
  | nil => obtain ⟨a, ha, _⟩ := h2; simp at ha
  | cons b r ih =>
    have hle : (r.filter p').length ≤ (r.filter p).length := by
      clear ih h2
      induction r with
      | nil => simp
      | cons c r ih2 =>
        have := ih2 (fun a ha => h1 a (by
          rcases List.mem_cons.mp ha with h | h
          · exact h ▸ List.mem_cons_self
          · exact List.mem_cons_of_mem _ (List.mem_cons_of_mem _ h)))
        have hc := h1 c (List.mem_cons_of_mem _ List.mem_cons_self)
        simp only [List.filter_cons]
        cases e1 : p' c <;> cases e2 : p c <;> simp_all <;> omega
    obtain ⟨a, ha, hpa, hpa'⟩ := h2
    simp only [List.filter_cons]
    rcases List.mem_cons.mp ha with h | h
    · subst h
      simp only [hpa, hpa', if_true, Bool.false_eq_true, if_false, List.length_cons]
      omega
    · have := ih (fun a ha => h1 a (List.mem_cons_of_mem _ ha)) ⟨a, h, hpa, hpa'⟩
      have hb := h1 b List.mem_cons_self
      cases e1 : p' b <;> cases e2 : p b <;> simp_all <;> omega

structure RoundOk (cfg : Cfg) (fsr fsd : FS) (w w' : WS) (b : Bool) : Prop where
  pinv : PInv cfg fsd w'
  none : CachesNone w'
  agree : Agree fsr fsd w'
  keep : Keep fsr fsd w'
  sound : Sound w'
  root : w'.root = w.root
  closed : b = false → Closed fsd w'
  less : Sound w → b = true → mu fsr w' < mu fsr w

theorem round_ok (cfg : Cfg) (fsr fsd : FS) (w : WS)
    (h : PInv cfg fsd w) (hok : fsOk fsd = true) (hnone : CachesNone w)
    (hag : Agree fsr fsd w) (hkeep : Keep fsr fsd w) :
    RoundOk cfg fsr fsd w (round cfg fsr w).1 (round cfg fsr w).2 := by
  have hR := mem_computeReachable w h.root_ne
  obtain ⟨r1, r2, r3, r4, r5⟩ := removeUnreachable_spec cfg fsd w h
  generalize hw1 : removeUnreachable cfg w (computeReachable w) = w1 at r1 r2 r3 r4 r5
  have hag1 : Agree fsr fsd w1 := by
    intro q hq
    rw [r2 q] at hq
    by_cases e : q ∈ computeReachable w
    · simp only [e, if_true] at hq; exact hag q hq
    · apply Classical.byContradiction
      intro hne
      exact e ((hR q).mpr (hkeep q hne))
  have ha := addAll cfg fsr fsd hok (missingOf w1 (computeReachable w)) w1 false r1 hag1
    (missingOf_nodup _ _ (computeReachable_nodup w))
    (fun x hx => ((mem_missingOf _ _ _).mp hx).2)
  generalize hw2 : (List.foldl (addStep cfg fsr) (w1, false) (missingOf w1 (computeReachable w))) = r at ha
  have hnone1 : CachesNone w1 := by
    obtain ⟨c1, c2, c3⟩ := r5
    exact ⟨c1.trans hnone.1, c2.trans hnone.2.1, c3.trans hnone.2.2⟩
  have hnone2 : CachesNone r.1 := by
    obtain ⟨c1, c2, c3⟩ := ha.caches
    exact ⟨c1.trans hnone1.1, c2.trans hnone1.2.1, c3.trans hnone1.2.2⟩
  have hround : round cfg fsr w = (r.1, r.2) := by
    unfold round
    rw [hw1, addMissing_eq]
    simp only [hw2]
    cases e : r.2 with
    | true => simp [clearCaches_of_none r.1 hnone2]
    | false =>
      simp only [Bool.false_eq_true, if_false]
      rw [← e]
  rw [hround]
  simp only
  have hroot2 : r.1.root = w.root := ha.root.trans r4
  -- indexed files of w1 are reachable
  have hidx1 : ∀ y, (w1.idx.files.get y).isSome → ReachS (succG w.incG) w.root y := by
    intro y hy
    rw [r2 y] at hy
    by_cases e : y ∈ computeReachable w
    · exact (hR y).mp e
    · simp [e] at hy
  have hreach12 : ∀ u, ReachS (succG w.incG) w.root u → ReachS (succG r.1.incG) r.1.root u := by
    intro u hu
    rw [hroot2, ← r4]
    exact ha.reach u (r4 ▸ (r3 u).mpr hu)
  refine ⟨ha.pinv, hnone2, ha.agree, ?_, ?_, hroot2, ?_, ?_⟩
  · intro q hq; exact hreach12 q (hkeep q hq)
  · intro y hy
    rcases (ha.files y).mp hy with h1 | ⟨h1, _⟩
    · exact hreach12 y (hidx1 y h1)
    · exact hreach12 y ((hR y).mp ((mem_missingOf _ _ _).mp h1).1)
  · -- no file was added: the indexed files are the reachable existing files
    intro hb
    have hno : ∀ y, y ∈ computeReachable w → w1.idx.files.get y = none → fsr.get y = none := by
      intro y hy hyn
      cases e : fsr.get y with
      | none => rfl
      | some c =>
        have : r.2 = true := ha.flag.mpr (Or.inr ⟨y, (mem_missingOf _ _ _).mpr ⟨hy, hyn⟩, by rw [e]; rfl⟩)
        rw [hb] at this; simp at this
    have hsame : ∀ y, r.1.idx.files.get y = w1.idx.files.get y := by
      intro y
      cases e : w1.idx.files.get y with
      | some fi => exact ha.keep y fi e
      | none =>
        cases e2 : r.1.idx.files.get y with
        | none => rfl
        | some fi =>
          have := (ha.files y).mp (by rw [e2]; rfl)
          rcases this with h1 | ⟨h1, h2⟩
          · rw [e] at h1; simp at h1
          · rw [hno y ((mem_missingOf _ _ _).mp h1).1 e] at h2; simp at h2
    intro p
    rw [hroot2, hsame p]
    constructor
    · intro hp
      obtain ⟨fi, hfi⟩ := Option.isSome_iff_exists.mp hp
      obtain ⟨c, hc, _⟩ := r1.g.fresh p fi hfi
      refine ⟨?_, by rw [hc]; rfl⟩
      have := reachG_sound cfg fsd w1 NoDead r1.g p (r4 ▸ (r3 p).mpr (hidx1 p hp))
      rw [r4] at this; exact this
    · rintro ⟨hp, hex⟩
      have key : ∀ x, Reach fsd w.root x →
          ReachS (succG w1.incG) w.root x ∧ ((fsd.get x).isSome → (w1.idx.files.get x).isSome) := by
        intro x hx
        induction hx with
        | base => exact ⟨.base, fun _ => r4 ▸ r1.rootIdx⟩
        | @step u v _ hq ih =>
          have hu : (fsd.get u).isSome := by
            cases e : fsd.get u with
            | some _ => rfl
            | none => simp [succs, e] at hq
          have hiu := ih.2 hu
          obtain ⟨fi, hfi⟩ := Option.isSome_iff_exists.mp hiu
          obtain ⟨c, hc, hfic⟩ := r1.g.fresh u fi hfi
          have hv : v ∈ c.incs := by simpa [succs, hc] using hq
          have hrv : ReachS (succG w1.incG) w.root v := by
            by_cases e : v = u
            · exact e ▸ ih.1
            · refine .step ih.1 ?_
              unfold succG
              rw [r1.g.incOk u, includesOf_eq w1 u fi hfi, hfic]
              exact (mem_resolveIncl u c.incs v).mpr ⟨hv, e⟩
          refine ⟨hrv, ?_⟩
          intro hexv
          cases e : w1.idx.files.get v with
          | some _ => rfl
          | none =>
            have hvR : v ∈ computeReachable w := (hR v).mpr ((r3 v).mp hrv)
            have := hno v hvR e
            rw [hag1 v e] at this
            rw [this] at hexv; simp at hexv
      exact (key p hp).2 hex
  · -- progress
    intro hs hb
    unfold mu
    have hw1eq : ∀ y, w1.idx.files.get y = w.idx.files.get y := by
      intro y
      rw [r2 y]
      by_cases e : y ∈ computeReachable w
      · simp [e]
      · cases e2 : w.idx.files.get y with
        | none => simp
        | some fi => exact absurd ((hR y).mpr (hs y (by rw [e2]; rfl))) e
    apply length_filter_lt
    · intro a _ ha'
      have : r.1.idx.files.get a = none := by simpa using ha'
      cases e : w.idx.files.get a with
      | none => rfl
      | some fi =>
        have := ha.keep a fi (by rw [hw1eq a]; exact e)
        simp_all
    · obtain hf | ⟨y, hy1, hy3⟩ := ha.flag.mp hb
      · simp at hf
      · have hy2 := ((mem_missingOf _ _ _).mp hy1).2
        refine ⟨y, (mem_keys_iff _ _).mpr hy3, ?_, ?_⟩
        · rw [← hw1eq y, hy2]; rfl
        · have := (ha.files y).mpr (Or.inr ⟨hy1, hy3⟩)
          cases e : r.1.idx.files.get y with
          | none => rw [e] at this; simp at this
          | some _ => rfl

/-! ### the fixpoint -/

structure RefreshOk (cfg : Cfg) (fsd : FS) (w w' : WS) : Prop where
  pinv : PInv cfg fsd w'
  closed : Closed fsd w'
  none : CachesNone w'
  root : w'.root = w.root

theorem refreshF_ok (cfg : Cfg) (fsr fsd : FS) (hok : fsOk fsd = true) :
    ∀ (n : Nat) (w : WS), PInv cfg fsd w → CachesNone w → Agree fsr fsd w → Keep fsr fsd w →
      Sound w → mu fsr w < n → RefreshOk cfg fsd w (refreshF cfg fsr n w) := by
  intro n
  induction n with
  | zero => intro w _ _ _ _ _ h; omega
  | succ n ih =>
    intro w h hnone hag hkeep hs hmu
    rw [refreshF_succ]
    have hr := round_ok cfg fsr fsd w h hok hnone hag hkeep
    cases hb : (round cfg fsr w).2 with
    | false =>
      simp only [Bool.false_eq_true, if_false]
      exact ⟨hr.pinv, hr.closed hb, hr.none, hr.root⟩
    | true =>
      simp only [if_true]
      have hlt := hr.less hs hb
      have := ih _ hr.pinv hr.none hr.agree hr.keep hr.sound (by omega)
      exact ⟨this.pinv, this.closed, this.none, this.root.trans hr.root⟩

/-- `refreshIncludeTreeLocked` restores the invariant and makes the index hold exactly the
    existing files reachable from the root; the fuel `len(disk) + 2` suffices. -/
theorem refresh_ok (cfg : Cfg) (fsr fsd : FS) (w : WS) (hok : fsOk fsd = true)
    (h : PInv cfg fsd w) (hnone : CachesNone w) (hag : Agree fsr fsd w) (hkeep : Keep fsr fsd w) :
    RefreshOk cfg fsd w (refreshIncludeTree cfg fsr w) := by
  unfold refreshIncludeTree
  simp only [h.root_ne, if_false]
  rw [refreshF_succ]
  have hr := round_ok cfg fsr fsd w h hok hnone hag hkeep
  cases hb : (round cfg fsr w).2 with
  | false =>
    simp only [Bool.false_eq_true, if_false]
    exact ⟨hr.pinv, hr.closed hb, hr.none, hr.root⟩
  | true =>
    simp only [if_true]
    have hmu : mu fsr (round cfg fsr w).1 < fsr.length + 1 := by
      unfold mu
      have := List.length_filter_le (fun q => ((round cfg fsr w).1.idx.files.get q).isNone) fsr.keys
      simp only [AList.keys, List.length_map] at this ⊢
      omega
    have := refreshF_ok cfg fsr fsd hok _ _ hr.pinv hr.none hr.agree hr.keep hr.sound hmu
    exact ⟨this.pinv, this.closed, this.none, this.root.trans hr.root⟩

end HL.Lemmas.Refresh
