import HL.Lemmas.LexLocal
/-!
  Stream-level consequences of `next_step`, stated with the executable oracle of
  HL/Spec/LexSpec.lean: the Newline tokens are exactly the LF bytes; what no token covers is
  blanks;
  token line numbers count the line feeds before the token.
-/
namespace HL.Lex
open HL HL.Utf8 HL.Spec.LexSpec

local notation "LF" => (0x0A : UInt8)

theorem spaces_noLF {sp : Bytes} (h : ∀ c ∈ sp, isBlank c = true) : LF ∉ sp := fun hm =>
  absurd (h _ hm) (by decide)

theorem lfOffsetsFrom_append_noLF (i : Nat) (p q : Bytes) (h : LF ∉ p) :
    lfOffsetsFrom i (p ++ q) = lfOffsetsFrom (i + p.length) q := by
  induction p generalizing i with
  | nil => simp
  | cons c t ih =>
    have hc : (c == LF) = false := by
      cases hcc : (c == LF)
      · rfl
      · simp only [beq_iff_eq] at hcc; subst hcc; simp at h
    have ht : LF ∉ t := fun hm => h (List.mem_cons_of_mem _ hm)
    simp only [List.cons_append, lfOffsetsFrom, hc, Bool.false_eq_true, if_false, ih _ ht, List.length_cons]
    congr 1; omega

theorem newlineOffsets_cons (t : Token) (rest : List Token) :
    newlineOffsets (t :: rest) = (if t.ty == .newline then [t.stop.off - 1] else []) ++ newlineOffsets rest := by
  simp only [newlineOffsets, List.filter_cons]
  split <;> simp

/-- Every LF byte becomes exactly one Newline token, which ends with it, in order — and there
    are no other Newline tokens. -/
theorem lexS_newlines (C : Classes) (n : Nat) (z : Z) (hn : z.after.length ≤ n) :
    newlineOffsets (lexS C z) = lfOffsetsFrom z.before.length z.after := by
  induction n generalizing z with
  | zero =>
    have h0 : z.after = [] := List.eq_nil_of_length_eq_zero (by omega)
    rw [lexS_unfold, next_nil C h0, h0]
    simp [mkTok, newlineOffsets, lfOffsetsFrom]
  | succ n ih =>
    have hres := next_res C z
    have hstep := next_step C z
    rw [lexS_unfold]
    split
    · rename_i he
      have hr0 := (hres.eof he).1
      cases hstep with
      | tok sp pre hsp hpre hafter hbefore hline hty hpl hpo _hstopt =>
        rw [hr0] at hafter
        simp only [List.append_nil] at hafter
        have hno : LF ∉ sp ++ pre := by
          intro hm
          rcases List.mem_append.mp hm with hm | hm
          · exact spaces_noLF hsp hm
          · exact hpre hm
        have := lfOffsetsFrom_append_noLF z.before.length (sp ++ pre) [] hno
        simp only [List.append_nil] at this
        rw [hafter, this]
        simp [newlineOffsets, he, lfOffsetsFrom]
      | newline sp cr hsp hcr hafter hbefore hline hcol hstart hty hpl hpo hstop =>
        rw [hty] at he; exact absurd he (by decide)
    · rename_i hne
      have hlt := next_lt_of_ne_eof C z hne
      have hih := ih (next C z).2 (by omega)
      rw [newlineOffsets_cons, hih]
      cases hstep with
      | tok sp pre hsp hpre hafter hbefore hline hty hpl hpo _hstopt =>
        have hno : LF ∉ sp ++ pre := by
          intro hm
          rcases List.mem_append.mp hm with hm | hm
          · exact spaces_noLF hsp hm
          · exact hpre hm
        have hty' : ((next C z).1.ty == TokType.newline) = false := by simpa using hty
        rw [hafter, lfOffsetsFrom_append_noLF _ _ _ hno, hbefore, hty']
        simp; congr 1; omega
      | newline sp cr hsp hcr hafter hbefore hline hcol hstart hty hpl hpo hstop =>
        have hno : LF ∉ sp ++ cr := by
          intro hm
          rcases List.mem_append.mp hm with hm | hm
          · exact spaces_noLF hsp hm
          · rcases hcr with rfl | rfl <;> simp at hm
        rw [hafter, lfOffsetsFrom_append_noLF _ _ _ hno, hbefore, hty, hstop]
        simp [lfOffsetsFrom, Z.position, hbefore]
        constructor
        · omega
        · congr 1; omega

theorem input_drop_before (z : Z) : z.input.drop z.before.length = z.after := by
  have : z.before.length = z.before.reverse.length := by simp
  rw [Z.input, this, List.drop_left]

theorem mem_take_prefix {sp rest : Bytes} {k : Nat} (hk : k ≤ sp.length) (h : ∀ c ∈ sp, isBlank c = true) :
    ∀ c ∈ (sp ++ rest).take k, isBlank c = true := by
  intro c hc
  rw [List.take_append_of_le_length hk] at hc
  exact h c (List.mem_of_mem_take hc)

/-- the bytes between the lexer position and the start of the next token are exactly the
    blanks and tabs `skipSpaces` stepped over -/
theorem first_gap {z : Z} {r : Token × Z} (h : Step z r) :
    ∀ c ∈ (z.input.drop z.before.length).take (r.1.pos.off - z.before.length), isBlank c = true := by
  rw [input_drop_before]
  cases h with
  | tok sp pre hsp hpre hafter hbefore hline hty hpl hpo _hstopt =>
    rw [hafter, List.append_assoc]
    exact mem_take_prefix (by omega) hsp
  | newline sp cr hsp hcr hafter hbefore hline hcol hstart hty hpl hpo hstop =>
    rw [hafter, List.append_assoc]
    exact mem_take_prefix (by omega) hsp

theorem isGapByte_eq (c : UInt8) : isGapByte c = isBlank c := rfl

theorem gapOk_nil (ty : Option TokType) : gapOk ty [] = true := by
  unfold gapOk; split
  · exact wsOnly_nil
  · rfl

/-- blanks and tabs may follow whatever may lie behind a token -/
theorem gapOk_append_blanks (ty : Option TokType) (g sp : Bytes) (hg : gapOk ty g = true)
    (hsp : ∀ c ∈ sp, isBlank c = true) : gapOk ty (g ++ sp) = true := by
  unfold gapOk at hg ⊢
  split
  · rename_i ht
    rw [if_pos ht] at hg
    exact wsOnly_append _ _ hg (wsOnly_blanks sp hsp)
  · rename_i ht
    rw [if_neg ht] at hg
    rw [List.all_append, hg, Bool.true_and, List.all_eq_true]
    exact fun c hc => hsp c hc

/-- what a scan consumed behind the End of its token may lie behind a token of that type -/
theorem gapOk_of_tail {ty : TokType} {tl : Bytes} (h : TailOk ty tl) : gapOk (some ty) tl = true := by
  unfold TailOk at h
  unfold gapOk
  by_cases ht : ty = .text
  · subst ht
    simpa using h
  · rw [if_neg ht] at h
    have hne : ¬ ((some ty == some TokType.text) = true) := by simpa using ht
    rw [if_neg hne]
    split at h
    · rcases h with rfl | rfl <;> decide
    · subst h; rfl

/-- the gap behind the token and the state behind it, as a decomposition of the consumed input -/
theorem before_split_stop {r : Token × Z} (h : r.1.stop.off ≤ r.2.before.length) :
    r.2.before.reverse = (r.2.before.drop (r.2.before.length - r.1.stop.off)).reverse ++ gapBehind r ∧
      (r.2.before.drop (r.2.before.length - r.1.stop.off)).reverse.length = r.1.stop.off := by
  constructor
  · rw [gapBehind, ← List.reverse_append, List.take_append_drop]
  · simp only [List.length_reverse, List.length_drop]; omega

/-- Cover, from any state: `A ++ g` is what was consumed, `A` ends with the previous token
    (type `ty`), `g` is the gap consumed behind it so far. -/
theorem lexS_gapsOk (C : Classes) (n : Nat) (z : Z) (hn : z.after.length ≤ n) (ty : Option TokType)
    (A g : Bytes) (hb : z.before.reverse = A ++ g) (hg : gapOk ty g = true) :
    gapsOk z.input ty A.length (lexS C z) = true := by
  induction n generalizing z ty A g with
  | zero =>
    have h0 : z.after = [] := List.eq_nil_of_length_eq_zero (by omega)
    have hlen : z.before.length = A.length + g.length := by
      have := congrArg List.length hb; simpa using this
    rw [lexS_unfold, next_nil C h0]
    simp only [mkTok, if_true, gapsOk, Z.position, Z.input, hb, h0, List.append_nil, Bool.and_eq_true]
    constructor
    · rw [List.drop_left, hlen, Nat.add_sub_cancel_left, List.take_length]
      exact hg
    · rw [← hb]
      have : z.before.length = z.before.reverse.length := by simp
      rw [this, List.drop_length]
      exact gapOk_nil _
  | succ n ih =>
    have hres := next_res C z
    have hstep := next_step C z
    have hlen : z.before.length = A.length + g.length := by
      have := congrArg List.length hb; simpa using this
    -- the gap in front of the token: `g` and the blanks `skipSpaces` stepped over
    have hfirst : ∀ sp rest, (∀ c ∈ sp, isBlank c = true) → z.after = sp ++ rest →
        (next C z).1.pos.off = z.before.length + sp.length →
        gapOk ty ((z.input.drop A.length).take ((next C z).1.pos.off - A.length)) = true := by
      intro sp rest hsp hafter hpo
      rw [Z.input, hb, hafter, List.append_assoc, List.drop_left, hpo, hlen, ← List.append_assoc]
      have : A.length + g.length + sp.length - A.length = (g ++ sp).length := by simp; omega
      rw [this, List.take_left]
      exact gapOk_append_blanks ty g sp hg hsp
    -- behind the token
    have hnext : (next C z).1.stop.off ≤ (next C z).2.before.length → 
        gapOk (some (next C z).1.ty) (gapBehind (next C z)) = true →
        (next C z).2.after.length ≤ n →
        gapsOk z.input (some (next C z).1.ty) (next C z).1.stop.off (lexS C (next C z).2) = true := by
      intro hle htl hlt
      obtain ⟨e1, e2⟩ := before_split_stop hle
      have := ih (next C z).2 hlt (some (next C z).1.ty) _ _ e1 htl
      rw [e2, hres.adv.input] at this
      exact this
    rw [lexS_unfold]
    split
    · rename_i he
      have hr0 := (hres.eof he).1
      have hse := hres.stop_eof he
      simp only [gapsOk, Bool.and_eq_true]
      constructor
      · cases hstep with
        | tok sp pre hsp hpre hafter hbefore hline hty hpl hpo hstop =>
          exact hfirst sp _ hsp (by rw [hafter, List.append_assoc]) hpo
        | newline sp cr hsp hcr hafter hbefore hline hcol hstart hty hpl hpo hstop =>
          rw [hty] at he; exact absurd he (by decide)
      · rw [hse, ← hres.adv.input, input_drop_before, hr0]
        exact gapOk_nil _
    · rename_i hne
      have hlt := next_lt_of_ne_eof C z hne
      simp only [gapsOk, Bool.and_eq_true]
      cases hstep with
      | tok sp pre hsp hpre hafter hbefore hline hty hpl hpo hstop =>
        exact ⟨hfirst sp _ hsp (by rw [hafter, List.append_assoc]) hpo,
          hnext hstop.le (gapOk_of_tail hstop.tail) (by omega)⟩
      | newline sp cr hsp hcr hafter hbefore hline hcol hstart hty hpl hpo hstop =>
        refine ⟨hfirst sp _ hsp (by rw [hafter, List.append_assoc]) hpo, hnext (by rw [hstop]; exact Nat.le_refl _) ?_ (by omega)⟩
        have : gapBehind (next C z) = [] := by
          simp [gapBehind, hstop, Z.position]
        rw [this]
        exact gapOk_nil _

/-- Pure list fact: for an ordered stream the gaps and the token extents, concatenated in
    order, are the input — every byte lies in exactly one gap or one token extent. -/
theorem ordered_pieces (input : Bytes) (prev : Nat) (toks : List Token)
    (h : ordered input.length prev toks = true) : pieces input prev toks = input.drop prev := by
  induction toks generalizing prev with
  | nil => rfl
  | cons t rest ih =>
    have split2 : ∀ (a b : Nat), a ≤ b → input.drop a = (input.drop a).take (b - a) ++ input.drop b := by
      intro a b hab
      have h1 := (List.take_append_drop (b - a) (input.drop a)).symm
      rw [List.drop_drop] at h1
      have : a + (b - a) = b := by omega
      rw [this] at h1
      exact h1
    cases rest with
    | nil =>
      simp only [ordered, Bool.and_eq_true, decide_eq_true_eq, beq_iff_eq] at h
      obtain ⟨⟨⟨_, h2⟩, h3⟩, h4⟩ := h
      simp only [pieces]
      rw [h4, h3]
      simp only [Nat.sub_self, List.take_zero, List.append_nil, List.drop_length]
      have := split2 prev input.length (by omega)
      rw [List.drop_length, List.append_nil] at this
      exact this.symm
    | cons t2 rest =>
      rw [ordered_cons_cons] at h
      simp only [Bool.and_eq_true, decide_eq_true_eq, bne_iff_ne, ne_eq] at h
      obtain ⟨⟨⟨⟨_, h2⟩, h3⟩, _⟩, h5⟩ := h
      rw [pieces, ih _ h5]
      rw [List.append_assoc, ← split2 t.pos.off t.stop.off (by omega), ← split2 prev t.pos.off h2]

/-! ### line numbers -/

theorem countLF_reverse (s : Bytes) : countLF s.reverse = countLF s := by
  simp [countLF, List.filter_reverse]

theorem take_input {z : Z} {p rest : Bytes} (h : z.after = p ++ rest) :
    z.input.take (z.before.length + p.length) = z.before.reverse ++ p := by
  have : z.before.length + p.length = (z.before.reverse ++ p).length := by simp
  rw [Z.input, h, ← List.append_assoc, this, List.take_left]

/-- the line of a token = `L` + number of line feeds in front of it, and the invariant
    "`line` = `L` + line feeds consumed" is kept by every step -/
theorem step_lines {z : Z} {r : Token × Z} (L : Nat) (h : Step z r) (hinv : z.line = L + countLF z.before) :
    r.1.pos.line = L + countLF (z.input.take r.1.pos.off) ∧ r.2.line = L + countLF r.2.before := by
  cases h with
  | tok sp pre hsp hpre hafter hbefore hline hty hpl hpo _hstopt =>
    have ha : z.after = sp ++ (pre ++ r.2.after) := by rw [hafter, List.append_assoc]
    rw [hpo, take_input ha, hpl, hline, hbefore, hinv]
    simp only [countLF_append, countLF_reverse, countLF_of_not_mem hpre, countLF_of_not_mem (spaces_noLF hsp)]
    omega
  | newline sp cr hsp hcr hafter hbefore hline hcol hstart hty hpl hpo hstop =>
    have ha : z.after = sp ++ (cr ++ LF :: r.2.after) := by rw [hafter, List.append_assoc]
    have hb : r.2.before = [LF] ++ cr.reverse ++ sp.reverse ++ z.before := by simp [hbefore]
    have hcr0 : countLF cr = 0 := by rcases hcr with rfl | rfl <;> decide
    rw [hpo, take_input ha, hpl, hline, hb, hinv]
    simp only [countLF_append, countLF_reverse, countLF_of_not_mem (spaces_noLF hsp), hcr0]
    simp [countLF]
    omega

theorem lexS_lines (C : Classes) (L n : Nat) (z : Z) (hn : z.after.length ≤ n)
    (hinv : z.line = L + countLF z.before) :
    ∀ t ∈ lexS C z, t.pos.line = L + countLF (z.input.take t.pos.off) := by
  induction n generalizing z with
  | zero =>
    have h0 : z.after = [] := List.eq_nil_of_length_eq_zero (by omega)
    have hs := step_lines L (next_step C z) hinv
    rw [lexS_unfold]
    rw [next_nil C h0] at hs ⊢
    intro t ht
    simp only [mkTok, if_true, List.mem_singleton] at ht
    subst ht
    exact hs.1
  | succ n ih =>
    have hres := next_res C z
    have hs := step_lines L (next_step C z) hinv
    rw [lexS_unfold]
    split
    · intro t ht
      simp only [List.mem_singleton] at ht
      subst ht
      exact hs.1
    · rename_i hne
      have hlt := next_lt_of_ne_eof C z hne
      have hih := ih (next C z).2 (by omega) hs.2
      intro t ht
      rcases List.mem_cons.mp ht with rfl | ht
      · exact hs.1
      · rw [← hres.adv.input]
        exact hih t ht

/-! ### per-token facts lifted to the stream, and the oracle's verdict -/

theorem lexS_forall (C : Classes) (P : Token → Prop) (h : ∀ z, P (next C z).1) (n : Nat) (z : Z)
    (hn : z.after.length ≤ n) : ∀ t ∈ lexS C z, P t := by
  induction n generalizing z with
  | zero =>
    have h0 : z.after = [] := List.eq_nil_of_length_eq_zero (by omega)
    rw [lexS_unfold]
    have he : (next C z).1.ty = .eof := by rw [next_nil C h0]; rfl
    simp only [he, if_true, List.mem_singleton]
    intro t ht; subst ht; exact h z
  | succ n ih =>
    rw [lexS_unfold]
    split
    · intro t ht
      simp only [List.mem_singleton] at ht
      subst ht; exact h z
    · rename_i hne
      have hlt := next_lt_of_ne_eof C z hne
      intro t ht
      rcases List.mem_cons.mp ht with rfl | ht
      · exact h z
      · exact ih (next C z).2 (by omega) t ht

/-- the same for facts that depend on the input the lexer is working on -/
theorem lexS_forall_input (C : Classes) (input : Bytes) (P : Token → Prop)
    (h : ∀ z, z.input = input → P (next C z).1) (n : Nat) (z : Z)
    (hn : z.after.length ≤ n) (hi : z.input = input) : ∀ t ∈ lexS C z, P t := by
  induction n generalizing z with
  | zero =>
    have h0 : z.after = [] := List.eq_nil_of_length_eq_zero (by omega)
    rw [lexS_unfold]
    have he : (next C z).1.ty = .eof := by rw [next_nil C h0]; rfl
    simp only [he, if_true, List.mem_singleton]
    intro t ht; subst ht; exact h z hi
  | succ n ih =>
    rw [lexS_unfold]
    split
    · intro t ht
      simp only [List.mem_singleton] at ht
      subst ht; exact h z hi
    · rename_i hne
      have hlt := next_lt_of_ne_eof C z hne
      intro t ht
      rcases List.mem_cons.mp ht with rfl | ht
      · exact h z hi
      · exact ih (next C z).2 (by omega) (by rw [(next_res C z).adv.input, hi]) t ht

/-- a Newline token spans exactly one line end — one byte, or two of which the first is a
    carriage return — and ends at column 1 of the next line -/
theorem next_newline_shape (C : Classes) (z : Z) :
    (next C z).1.ty = .newline → newlineShape z.input (next C z).1 = true := by
  intro hty
  cases next_step C z with
  | tok sp pre hsp hpre hafter hbefore hline hty' hpl hpo _hstopt => exact absurd hty hty'
  | newline sp cr hsp hcr hafter hbefore hline hcol hstart hty' hpl hpo hstop =>
    have hin : z.input[z.before.length + sp.length]? = (cr ++ LF :: (next C z).2.after)[0]? := by
      have : z.before.length + sp.length = (z.before.reverse ++ sp).length := by simp
      rw [Z.input, hafter, List.append_assoc, ← List.append_assoc z.before.reverse, this,
        List.getElem?_append_right (Nat.le_refl _)]
      simp
    simp only [newlineShape, hstop, hpo, hpl, Z.position, hbefore, hline, hcol, hin]
    rcases hcr with rfl | rfl
    · simp; omega
    · simp; omega

end HL.Lex
