import HL.Lemmas.ParseGCore
import HL.Lemmas.LexGCoreL
/-!
  The parser model on the token streams of `GCore` journals printed under an arbitrary layout
  (`toksFromL`, HL/Lemmas/LexGCoreL.lean): layout-general versions of `parsePosting_toks`,
  `postingsF_toks`, `parseTransaction_toks`, `parseJournalF_toks`, `parseTokens_toks` of
  HL/Lemmas/ParseGCore.lean (`parseAmount_toks`, the number layer and the date are used from
  there: they do not depend on the layout).
-/
namespace HL.GCore
open HL HL.Ast HL.Parser HL.PStr

variable (cls : Parser.Classes)

/-- **`parsePosting` on the tokens of a posting line** under layout `L`. -/
theorem parsePosting_toksL (L : Layout) (p : Posting) (hp : p.wf = true) (ln o : Nat) (R : List Token)
    (errs : List ParseError) (dy : Int) :
    parsePosting (E cls) (stOf (p.toksL L ln o ++ R) errs dy) =
      (some (p.expectedL L ln o), ⟨R, nlP ln o (p.printL L).length, errs, dy⟩) := by
  simp only [Posting.wf, Bool.and_eq_true] at hp
  obtain ⟨_, hamt⟩ := hp
  cases hamtv : p.amount with
  | none =>
    have e : p.toksL L ln o ++ R = tokP .indent (blanks L.indent) ln o 0 :: tokP .account p.acct ln o L.indent ::
        nlP ln o (p.printL L).length :: R := by simp [Posting.toksL, hamtv]
    rw [e]
    unfold parsePosting
    simp only [stOf_cons, tokP, ne_eq, not_true_eq_false, if_false, advance_cons, reduceCtorEq, or_self]
    unfold postingOpen
    simp only [reduceCtorEq, if_false, not_true_eq_false, advance_cons]
    unfold postingTail postingClosing postingAmount postingCost postingAssertion lineComment
    simp only [reduceCtorEq, if_false, or_self, nlP_ty, toRange, nlP_pos]
    simp [Posting.expectedL, hamtv]
  | some a =>
    rw [hamtv] at hamt
    have hpa := parseAmount_toks cls a hamt ln o (L.indent + p.acct.length + L.gap p)
      (nlP ln o (p.printL L).length) R errs dy rfl
      (by simp only [nlP_pos, Posting.printL, Posting.amtTextL, hamtv, List.length_append, blanks_length]
          simp only [Pos.mk.injEq, true_and]; omega)
    have hty : ∃ t ts, a.toks ln o (L.indent + p.acct.length + L.gap p) = t :: ts ∧
        (t.ty = .commodity ∨ t.ty = .number ∨ t.ty = .sign) := by
      cases hneg : a.neg
      · exact ⟨_, _, by simp only [Amount.toks, hneg]; rfl, Or.inr (Or.inl rfl)⟩
      · exact ⟨_, _, by simp only [Amount.toks, hneg]; rfl, Or.inr (Or.inr rfl)⟩
    obtain ⟨t, ts, hts, hty⟩ := hty
    have hst : stOf (a.toks ln o (L.indent + p.acct.length + L.gap p) ++ nlP ln o (p.printL L).length :: R) errs dy =
        ⟨ts ++ nlP ln o (p.printL L).length :: R, t, errs, dy⟩ := by rw [hts]; rfl
    rw [hst] at hpa
    have e : p.toksL L ln o ++ R = tokP .indent (blanks L.indent) ln o 0 :: tokP .account p.acct ln o L.indent ::
        t :: (ts ++ nlP ln o (p.printL L).length :: R) := by simp [Posting.toksL, hamtv, hts]
    rw [e]
    unfold parsePosting
    simp only [stOf_cons, tokP, ne_eq, not_true_eq_false, if_false, advance_cons, reduceCtorEq, or_self]
    unfold postingOpen
    simp only [reduceCtorEq, if_false, not_true_eq_false, advance_cons]
    unfold postingTail postingClosing postingAmount postingCost postingAssertion lineComment
    simp only [reduceCtorEq, if_false, hty, if_true, hpa, nlP_ty, or_self, toRange, nlP_pos]
    simp [Posting.expectedL, hamtv]

theorem postingsToksL_length (L : Layout) (ps : List Posting) :
    ∀ ln o, ps.length ≤ (postingsToksL L ps ln o).length := by
  induction ps with
  | nil => intro _ _; simp [postingsToksL]
  | cons p ps ih =>
    intro ln o
    have := ih (ln + 1) (o + (p.printL L).length + 1)
    simp only [postingsToksL, List.length_append, List.length_cons, Posting.toksL]
    omega

/-- **The postings loop**, for any number of postings, up to the first token that is not an
    Indent. -/
theorem postingsF_toksL (L : Layout) (ps : List Posting) (hps : ∀ p ∈ ps, p.wf = true) :
    ∀ (ln o n : Nat) (x : Token) (R : List Token) (errs : List ParseError) (dy : Int),
      ps.length ≤ n → x.ty ≠ .indent →
      postingsF (E cls) n (stOf (postingsToksL L ps ln o ++ x :: R) errs dy) =
        (expectedPostingsL L ps ln o, ⟨R, x, errs, dy⟩) := by
  induction ps with
  | nil =>
    intro ln o n x R errs dy _ hx
    simp only [postingsToksL, List.nil_append, stOf_cons, expectedPostingsL]
    cases n with
    | zero => rfl
    | succ n => simp [postingsF, hx]
  | cons p ps ih =>
    intro ln o n x R errs dy hn hx
    obtain ⟨n, rfl⟩ : ∃ m, n = m + 1 := ⟨n - 1, by simp at hn; omega⟩
    have e : postingsToksL L (p :: ps) ln o ++ x :: R =
        p.toksL L ln o ++ (postingsToksL L ps (ln + 1) (o + (p.printL L).length + 1) ++ x :: R) := by
      simp [postingsToksL]
    have hind : (stOf (p.toksL L ln o ++ (postingsToksL L ps (ln + 1) (o + (p.printL L).length + 1) ++ x :: R))
        errs dy).current.ty = .indent := by simp [Posting.toksL, tokP]
    rw [e]
    unfold postingsF
    simp only [hind, ne_eq, not_true_eq_false, if_false, parsePosting_toksL cls L p (hps p (by simp)), nlP_ty, if_true,
      advance_stOf, ih (fun q hq => hps q (by simp [hq])) _ _ n x R errs dy (by simpa using hn) hx,
      expectedPostingsL]

/-- **`parseTransaction` on the tokens of a transaction**, any number of postings. -/
theorem parseTransaction_toksL (L : Layout) (t : Tx) (ht : t.wf = true) (ln o : Nat) (x : Token) (R : List Token)
    (errs : List ParseError) (dy : Int) (hx : x.ty ≠ .indent)
    (hpos : x.pos = ⟨ln + 1 + t.postings.length, 1, o + (t.printL L).length⟩) :
    parseTransaction (E cls) (stOf (t.toksL L ln o ++ x :: R) errs dy) =
      (some (t.expectedL L ln o), ⟨R, x, errs, dy⟩) := by
  simp only [Tx.wf, Bool.and_eq_true, Bool.not_eq_true', List.all_eq_true] at ht
  obtain ⟨⟨⟨hd, _⟩, _⟩, hps⟩ := ht
  obtain ⟨hs, hy, hm, hdd⟩ := date_parse t.date hd
  have e : t.toksL L ln o ++ x :: R = tokP .date t.date.print ln o 0 ::
      tokP .text t.descr ln o (t.date.print.length + 1) :: nlP ln o t.header.length ::
      (postingsToksL L t.postings (ln + 1) (o + t.header.length + 1) ++ x :: R) := by
    simp [Tx.toksL, Tx.headerToks]
  rw [e]
  unfold parseTransaction parseDate
  simp only [stOf_cons, tokP, ne_eq, not_true_eq_false, if_false, advance_cons, hs, hy, hm, hdd]
  unfold txHeader txDate2 txStatus txCode txComment txDescription
  simp only [reduceCtorEq, if_false, if_true, advance_cons, nlP_ty]
  simp only [advance_stOf]
  rw [postingsF_toksL cls L t.postings hps _ _ _ x R errs dy
    (Nat.le_trans (Nat.le_trans (postingsToksL_length L t.postings (ln + 1) (o + t.header.length + 1)) (by simp))
      (fuelOf_stOf cls _ _ _)) hx]
  simp only [toRange, hpos]
  simp [Tx.expectedL]

theorem toksFromL_length (L : Layout) (j : Journal) : ∀ ln o, 2 * j.length + 1 ≤ (toksFromL L j ln o).length := by
  induction j with
  | nil => intro _ _; simp [toksFromL]
  | cons t ts ih =>
    intro ln o
    cases ts with
    | nil => simp [toksFromL, Tx.toksL, Tx.headerToks]
    | cons t2 ts =>
      have := ih (ln + t.postings.length + 2) (o + (t.printL L).length + 1)
      simp only [toksFromL, List.length_append, List.length_cons, Tx.toksL, Tx.headerToks, List.length_nil] at this ⊢
      omega

/-- **The journal loop** on the token stream of a journal printed under `L`. -/
theorem parseJournalF_toksL (L : Layout) (j : Journal) (hj : WF j = true) :
    ∀ (ln o n : Nat) (errs : List ParseError) (dy : Int), 2 * j.length ≤ n →
      ∃ st', parseJournalF (E cls) n (stOf (toksFromL L j ln o) errs dy) =
        (⟨expectedTxsL L j ln o, [], [], []⟩, st') ∧ st'.errors = errs := by
  induction j with
  | nil =>
    intro ln o n errs dy _
    refine ⟨stOf (toksFromL L [] ln o) errs dy, ?_, rfl⟩
    cases n with
    | zero => rfl
    | succ n => simp [parseJournalF, toksFromL, eofP_ty, expectedTxsL, jempty]
  | cons t ts ih =>
    intro ln o n errs dy hn
    simp only [WF, List.all_cons, Bool.and_eq_true] at hj
    obtain ⟨n, rfl⟩ : ∃ m, n = m + 1 := ⟨n - 1, by simp at hn; omega⟩
    have hdate : ∀ R, (stOf (t.toksL L ln o ++ R) errs dy).current.ty = .date := by
      intro R; simp [Tx.toksL, Tx.headerToks, tokP]
    cases ts with
    | nil =>
      have hpt := parseTransaction_toksL cls L t hj.1 ln o
        (eofP (ln + 1 + t.postings.length) (o + (t.printL L).length)) []
        errs dy (by simp [eofP_ty]) rfl
      refine ⟨⟨[], eofP (ln + 1 + t.postings.length) (o + (t.printL L).length), errs, dy⟩, ?_, rfl⟩
      simp only [toksFromL]
      unfold parseJournalF journalStep
      simp only [hdate, reduceCtorEq, if_false, if_true, hpt]
      cases n with
      | zero => simp [parseJournalF, jpush, jempty, expectedTxsL]
      | succ n => simp [parseJournalF, eofP_ty, jpush, jempty, expectedTxsL]
    | cons t2 ts =>
      obtain ⟨n, rfl⟩ : ∃ m, n = m + 1 := ⟨n - 1, by simp at hn; omega⟩
      have hpt := parseTransaction_toksL cls L t hj.1 ln o
        (nlP (ln + 1 + t.postings.length) (o + (t.printL L).length) 0)
        (toksFromL L (t2 :: ts) (ln + t.postings.length + 2) (o + (t.printL L).length + 1)) errs dy
        (by simp [nlP_ty]) (by simp [nlP_pos])
      obtain ⟨st', h1, h2⟩ := ih hj.2 (ln + t.postings.length + 2) (o + (t.printL L).length + 1) n errs dy
        (by simp only [List.length_cons] at hn ⊢; omega)
      refine ⟨st', ?_, h2⟩
      simp only [toksFromL]
      unfold parseJournalF journalStep
      simp only [hdate, reduceCtorEq, if_false, if_true, hpt]
      unfold parseJournalF journalStep
      simp only [nlP_ty, reduceCtorEq, if_false, if_true, advance_stOf, h1]
      simp [jpush, expectedTxsL]

/-- **`Parse` on the token stream of a journal printed under `L`.** -/
theorem parseTokens_toksL (L : Layout) (j : Journal) (hj : WF j = true) :
    parseTokens defaultNumDeps cls (toksFromL L j 1 0) = (expectedL L j, []) := by
  unfold parseTokens parseWith parseJournal
  have e : advance (⟨listSrc, defaultNumDeps, cls⟩ : Env (List Token)) ⟨toksFromL L j 1 0, eofToken, [], 0⟩ =
      stOf (toksFromL L j 1 0) [] 0 := advance_stOf cls _ _ _ _
  simp only [e]
  obtain ⟨st', h1, h2⟩ := parseJournalF_toksL cls L j hj 1 0
    (fuelOf (E cls) (stOf (toksFromL L j 1 0) [] 0)) [] 0
    (Nat.le_trans (by have := toksFromL_length L j 1 0; omega) (fuelOf_stOf cls _ _ _))
  have h1' : parseJournalF (⟨listSrc, defaultNumDeps, cls⟩ : Env (List Token))
      (fuelOf (⟨listSrc, defaultNumDeps, cls⟩ : Env (List Token)) (stOf (toksFromL L j 1 0) [] 0))
      (stOf (toksFromL L j 1 0) [] 0) = (⟨expectedTxsL L j 1 0, [], [], []⟩, st') := h1
  rw [h1']
  simp [h2, expectedL]

end HL.GCore
