import HL.Lemmas.ParserFuel
/-
  Facts specific to the complete-token-list source `listSrc` (the one the correspondence uses).
-/
namespace HL.Parser
open HL HL.Ast

/-- The environment over a token list. -/
def listEnv (num : NumDeps) (cls : Classes) : Env (List Token) := ⟨listSrc, num, cls⟩

theorem listEnv_decr (num cls) : Decr (listEnv num cls) := by
  intro s h
  cases s with
  | nil => simp [listEnv, listSrc, eofToken] at h
  | cons t r => simp [listEnv, listSrc]

/-- The token stream a state still has in front of it (current token first). -/
def strm (st : PState (List Token)) : List Token := st.current :: st.src

variable (num : NumDeps) (cls : Classes)

/-- Everything consumed, and everything still ahead, comes from the original stream (or is the
    EOF the exhausted list answers with). -/
theorem Reach.mem_stream {a C b} (h : Reach (listEnv num cls) a C b) :
    ∀ t ∈ C ++ strm b, t ∈ strm a ∨ t = eofToken := by
  induction h with
  | refl st => intro t ht; simp at ht; exact Or.inl ht
  | adv st _ =>
    intro t ht
    simp only [strm, advance, listEnv, listSrc] at ht ⊢
    cases hs : st.src with
    | nil => simp [hs] at ht ⊢; rcases ht with h | h | h <;> simp_all
    | cons x r => simp [hs] at ht ⊢; rcases ht with h | h | h <;> simp_all
  | err st msg => intro t ht; simp at ht; exact Or.inl ht
  | errPrev t' msg _ _ ih => intro t ht; exact ih t (by simpa [strm, errorAt] using ht)
  | year st y => intro t ht; simp at ht; exact Or.inl ht
  | @trans a C1 b C2 c _ _ ih1 ih2 =>
    intro t ht
    simp only [List.append_assoc, List.mem_append] at ht
    rcases ht with h | h
    · exact ih1 t (by simp [h])
    · rcases ih2 t (by simpa using h) with h2 | h2
      · exact ih1 t (by simp [h2])
      · exact Or.inr h2

/-- Prefix form: if the stream in front of `a` reaches its first EOF after `P`, the consumed
    tokens are a prefix of `P` and the rest is what `b` has in front of it. -/
theorem Reach.stream {a C b} (h : Reach (listEnv num cls) a C b) :
    ∀ P e Q, strm a = P ++ e :: Q → e.ty = .eof → (∀ t ∈ P, t.ty ≠ .eof) →
      ∃ P', P = C ++ P' ∧ strm b = P' ++ e :: Q := by
  induction h with
  | refl st => intro P e Q h _ _; exact ⟨P, rfl, h⟩
  | adv st hne =>
    intro P e Q h he hP
    cases P with
    | nil => simp [strm] at h; rw [h.1] at hne; exact absurd he hne
    | cons p P' =>
      simp only [strm, List.cons_append, List.cons.injEq] at h
      refine ⟨P', by simp [h.1], ?_⟩
      simp only [strm, advance, listEnv, listSrc, h.2]
      cases P' <;> simp
  | err st msg => intro P e Q h _ _; exact ⟨P, rfl, h⟩
  | errPrev t msg _ _ ih => intro P e Q h he hP; exact ih P e Q h he hP
  | year st y => intro P e Q h _ _; exact ⟨P, rfl, h⟩
  | @trans a C1 b C2 c _ _ ih1 ih2 =>
    intro P e Q h he hP
    obtain ⟨P1, e1, s1⟩ := ih1 P e Q h he hP
    obtain ⟨P2, e2, s2⟩ := ih2 P1 e Q s1 he (fun t ht => hP t (by rw [e1]; simp [ht]))
    exact ⟨P2, by rw [e1, e2, List.append_assoc], s2⟩

end HL.Parser
