import HL.Model.Lexer
import HL.Lemmas.Utf8
import HL.Spec.LexSpec
/-!
  General lemmas about the lexer model (every byte string, every `Classes` instance):
  the zipper only moves forward (`Adv`), every loop consumes (`*_lt`), fuel never runs out
  (`*_fuel`), every scan function returns a well-placed token (`Good`) and makes progress.
-/
namespace HL.Lex
open HL HL.Utf8

instance : LawfulBEq TokType where
  rfl := by intro a; cases a <;> rfl
  eq_of_beq := by
    intro a b h
    cases a <;> cases b <;> first | rfl | exact absurd h (by decide)

/-! ### the zipper moves forward -/

/-- `z'` is reached from `z` by consuming a prefix of `z.after` (line/column are not constrained). -/
def Adv (z z' : Z) : Prop := ∃ pre, z.after = pre ++ z'.after ∧ z'.before = pre.reverse ++ z.before

theorem Adv.refl (z : Z) : Adv z z := ⟨[], by simp, by simp⟩

theorem Adv.trans {a b c : Z} (h1 : Adv a b) (h2 : Adv b c) : Adv a c := by
  obtain ⟨p, h1a, h1b⟩ := h1
  obtain ⟨q, h2a, h2b⟩ := h2
  exact ⟨p ++ q, by simp [h1a, h2a], by simp [h1b, h2b]⟩

/-- `Adv` only looks at `before` / `after`. -/
theorem Adv.congr {a b b' : Z} (h : Adv a b) (hb : b'.before = b.before) (ha : b'.after = b.after) :
    Adv a b' := by
  obtain ⟨p, h1, h2⟩ := h
  exact ⟨p, by rw [ha]; exact h1, by rw [hb]; exact h2⟩

theorem Adv.bump (z : Z) (w : Nat) : Adv z (z.bump w) :=
  ⟨z.after.take w, by simp [Z.bump], by simp [Z.bump]⟩

theorem Adv.advance (z : Z) : Adv z (advance z) := by
  unfold HL.Lex.advance
  split
  · exact Adv.refl z
  · exact Adv.bump z _

theorem Adv.after_le {z z' : Z} (h : Adv z z') : z'.after.length ≤ z.after.length := by
  obtain ⟨p, h1, _⟩ := h
  simp [h1]

theorem Adv.before_le {z z' : Z} (h : Adv z z') : z.before.length ≤ z'.before.length := by
  obtain ⟨p, _, h2⟩ := h
  simp [h2]

theorem Adv.total {z z' : Z} (h : Adv z z') :
    z'.before.length + z'.after.length = z.before.length + z.after.length := by
  obtain ⟨p, h1, h2⟩ := h
  simp [h1, h2]; omega

theorem Adv.input {z z' : Z} (h : Adv z z') : z'.input = z.input := by
  obtain ⟨p, h1, h2⟩ := h
  simp [Z.input, h1, h2]

/-- `advance` consumes at least one byte of a non-empty rest. -/
theorem advance_rem_lt (z : Z) (h : z.after ≠ []) : (advance z).after.length < z.after.length := by
  unfold advance
  split
  · contradiction
  · rename_i b t heq
    have := decodeRune_width_pos b t
    simp [Z.bump, heq]
    omega

theorem advance_cons {z : Z} {b : UInt8} {t : Bytes} (h : z.after = b :: t) :
    advance z = z.bump (decodeRune (b :: t)).2 := by
  unfold advance; rw [h]

/-! ### `advWhile` -/

theorem advWhileF_adv (p : UInt8 → Bool) (n : Nat) (z : Z) : Adv z (advWhileF p n z) := by
  induction n generalizing z with
  | zero => exact Adv.refl z
  | succ n ih =>
    unfold advWhileF
    split
    · exact Adv.refl z
    · split
      · exact (Adv.advance z).trans (ih _)
      · exact Adv.refl z

theorem advWhile_adv (p : UInt8 → Bool) (z : Z) : Adv z (advWhile p z) := advWhileF_adv p _ z

/-- With fuel ≥ the number of remaining bytes the loop result does not depend on the fuel:
    the fuel of `advWhile` is never exhausted. -/
theorem advWhileF_fuel (p : UInt8 → Bool) (n m : Nat) (z : Z)
    (hn : z.after.length ≤ n) (hm : z.after.length ≤ m) : advWhileF p n z = advWhileF p m z := by
  induction n generalizing m z with
  | zero =>
    have h0 : z.after = [] := List.eq_nil_of_length_eq_zero (by omega)
    cases m <;> simp [advWhileF, h0]
  | succ n ih =>
    cases m with
    | zero =>
      have h0 : z.after = [] := List.eq_nil_of_length_eq_zero (by omega)
      simp [advWhileF, h0]
    | succ m =>
      unfold advWhileF
      split
      · rfl
      · rename_i b t heq
        split
        · have := advance_rem_lt z (by simp [heq])
          exact ih m (advance z) (by omega) (by omega)
        · rfl

theorem advWhile_eq_fuel (p : UInt8 → Bool) (z : Z) (n : Nat) (hn : z.after.length ≤ n) :
    advWhile p z = advWhileF p n z := advWhileF_fuel p _ n z (Nat.le_refl _) hn

/-- the loop consumes the first byte if it satisfies the condition -/
theorem advWhile_lt (p : UInt8 → Bool) (z : Z) {b : UInt8} {t : Bytes} (h : z.after = b :: t) (hp : p b = true) :
    (advWhile p z).after.length < z.after.length := by
  unfold advWhile
  rw [h]
  simp only [List.length_cons, advWhileF, h, hp, if_true]
  have h1 := advance_rem_lt z (by simp [h])
  have h2 := (advWhileF_adv p t.length (advance z)).after_le
  simp [h] at h1
  omega

/-- where the loop stops, the condition is false -/
theorem advWhileF_stop (p : UInt8 → Bool) (n : Nat) (z : Z) (hn : z.after.length ≤ n) :
    ∀ b t, (advWhileF p n z).after = b :: t → p b = false := by
  induction n generalizing z with
  | zero =>
    intro b t h
    have h0 : z.after = [] := List.eq_nil_of_length_eq_zero (by omega)
    simp [advWhileF, h0] at h
  | succ n ih =>
    intro b t
    unfold advWhileF
    split
    · rename_i h0; simp [h0]
    · rename_i c u heq
      split
      · have := advance_rem_lt z (by simp [heq])
        exact ih (advance z) (by omega) b t
      · rename_i hp
        intro h
        rw [heq] at h
        cases h
        simpa using hp

theorem advWhile_stop (p : UInt8 → Bool) (z : Z) :
    ∀ b t, (advWhile p z).after = b :: t → p b = false :=
  advWhileF_stop p _ z (Nat.le_refl _)

/-! ### `advLine` (the loops that stop at a line end) and `atEol` -/

theorem atEol_cons (c : UInt8) (t : Bytes) : atEol (c :: t) = (c == 0x0A || (c == 0x0D && headIs 0x0A t)) := rfl

theorem atEol_nil : atEol [] = false := rfl

/-- at a byte that is neither CR nor LF the lexer is not at a line end -/
theorem atEol_of_ne {c : UInt8} {t : Bytes} (h1 : c ≠ 0x0A) (h2 : c ≠ 0x0D) : atEol (c :: t) = false := by
  simp [atEol, h1, h2]

theorem atEol_lf (t : Bytes) : atEol (0x0A :: t) = true := rfl

theorem atEol_crlf (t : Bytes) : atEol (0x0D :: 0x0A :: t) = true := rfl

/-- at a line end the next byte is LF, or CR with LF behind it -/
theorem atEol_cases {a : Bytes} (h : atEol a = true) :
    (∃ t, a = 0x0A :: t) ∨ (∃ t, a = 0x0D :: 0x0A :: t) := by
  cases a with
  | nil => simp [atEol] at h
  | cons c t =>
    simp only [atEol, Bool.or_eq_true, Bool.and_eq_true, beq_iff_eq] at h
    rcases h with rfl | ⟨rfl, h⟩
    · exact Or.inl ⟨t, rfl⟩
    · cases t with
      | nil => simp [headIs] at h
      | cons d u =>
        simp only [headIs, beq_iff_eq] at h
        subst h
        exact Or.inr ⟨u, rfl⟩

theorem advLineF_adv (p : UInt8 → Bool) (n : Nat) (z : Z) : Adv z (advLineF p n z) := by
  induction n generalizing z with
  | zero => exact Adv.refl z
  | succ n ih =>
    unfold advLineF
    split
    · exact Adv.refl z
    · split
      · exact (Adv.advance z).trans (ih _)
      · exact Adv.refl z

theorem advLine_adv (p : UInt8 → Bool) (z : Z) : Adv z (advLine p z) := advLineF_adv p _ z

theorem advLineF_fuel (p : UInt8 → Bool) (n m : Nat) (z : Z)
    (hn : z.after.length ≤ n) (hm : z.after.length ≤ m) : advLineF p n z = advLineF p m z := by
  induction n generalizing m z with
  | zero =>
    have h0 : z.after = [] := List.eq_nil_of_length_eq_zero (by omega)
    cases m <;> simp [advLineF, h0]
  | succ n ih =>
    cases m with
    | zero =>
      have h0 : z.after = [] := List.eq_nil_of_length_eq_zero (by omega)
      simp [advLineF, h0]
    | succ m =>
      unfold advLineF
      split
      · rfl
      · rename_i b t heq
        split
        · have := advance_rem_lt z (by simp [heq])
          exact ih m (advance z) (by omega) (by omega)
        · rfl

theorem advLine_eq_fuel (p : UInt8 → Bool) (z : Z) (n : Nat) (hn : z.after.length ≤ n) :
    advLine p z = advLineF p n z := advLineF_fuel p _ n z (Nat.le_refl _) hn

/-- the loop consumes the first byte if it satisfies the condition and is not at a line end -/
theorem advLine_lt (p : UInt8 → Bool) (z : Z) {b : UInt8} {t : Bytes} (h : z.after = b :: t)
    (hp : (p b && !atEol (b :: t)) = true) : (advLine p z).after.length < z.after.length := by
  unfold advLine
  rw [h]
  simp only [List.length_cons, advLineF, h, hp, if_true]
  have h1 := advance_rem_lt z (by simp [h])
  have h2 := (advLineF_adv p t.length (advance z)).after_le
  simp [h] at h1
  omega

/-- where the loop stops: end of input, a line end, or a byte failing the condition -/
theorem advLineF_stop (p : UInt8 → Bool) (n : Nat) (z : Z) (hn : z.after.length ≤ n) :
    ∀ b t, (advLineF p n z).after = b :: t → (p b && !atEol (b :: t)) = false := by
  induction n generalizing z with
  | zero =>
    intro b t h
    have h0 : z.after = [] := List.eq_nil_of_length_eq_zero (by omega)
    simp [advLineF, h0] at h
  | succ n ih =>
    intro b t
    unfold advLineF
    split
    · rename_i h0; simp [h0]
    · rename_i c u heq
      split
      · have := advance_rem_lt z (by simp [heq])
        exact ih (advance z) (by omega) b t
      · rename_i hp
        intro h
        rw [heq] at h
        cases h
        simpa using hp

theorem advLine_stop (p : UInt8 → Bool) (z : Z) :
    ∀ b t, (advLine p z).after = b :: t → (p b && !atEol (b :: t)) = false :=
  advLineF_stop p _ z (Nat.le_refl _)

/-! ### the loops of `scanAccount` and `scanNumber` -/

theorem bump_after_lt (z : Z) {b : UInt8} {t : Bytes} (h : z.after = b :: t) :
    (z.bump (decodeRune (b :: t)).2).after.length < z.after.length := by
  have := decodeRune_width_pos b t
  simp [Z.bump, h]
  omega

theorem scanAccountF_adv (n : Nat) (z l : Z) (hl : Adv l z) :
    Adv z (scanAccountF n z l).1 ∧ Adv l (scanAccountF n z l).2 ∧
      Adv (scanAccountF n z l).2 (scanAccountF n z l).1 := by
  induction n generalizing z l with
  | zero => exact ⟨Adv.refl _, Adv.refl _, hl⟩
  | succ n ih =>
    unfold scanAccountF
    split
    · exact ⟨Adv.refl _, Adv.refl _, hl⟩
    · rename_i b t heq
      have hb := Adv.bump z (decodeRune (b :: t)).2
      simp only []
      split
      · split
        · exact ⟨Adv.refl _, Adv.refl _, hl⟩
        · have := ih _ l (hl.trans hb)
          exact ⟨hb.trans this.1, this.2.1, this.2.2⟩
      · split
        · exact ⟨Adv.refl _, Adv.refl _, hl⟩
        · have := ih _ _ (Adv.refl (z.bump (decodeRune (b :: t)).2))
          exact ⟨hb.trans this.1, (hl.trans hb).trans this.2.1, this.2.2⟩

theorem scanAccountF_fuel (n m : Nat) (z l : Z)
    (hn : z.after.length ≤ n) (hm : z.after.length ≤ m) : scanAccountF n z l = scanAccountF m z l := by
  induction n generalizing m z l with
  | zero =>
    have h0 : z.after = [] := List.eq_nil_of_length_eq_zero (by omega)
    cases m <;> simp [scanAccountF, h0]
  | succ n ih =>
    cases m with
    | zero =>
      have h0 : z.after = [] := List.eq_nil_of_length_eq_zero (by omega)
      simp [scanAccountF, h0]
    | succ m =>
      unfold scanAccountF
      split
      · rfl
      · rename_i b t heq
        have hlt := bump_after_lt z heq
        simp only []
        split
        · split
          · rfl
          · exact ih m _ _ (by omega) (by omega)
        · split
          · rfl
          · exact ih m _ _ (by omega) (by omega)

theorem advIf_adv (p : UInt8 → Bool) (z : Z) : Adv z (advIf p z) := by
  unfold advIf
  split
  · exact Adv.refl z
  · split
    · exact Adv.advance z
    · exact Adv.refl z

theorem scanNumberF_adv (n : Nat) (z : Z) (hd : Bool) : Adv z (scanNumberF n z hd) := by
  induction n generalizing z hd with
  | zero => exact Adv.refl z
  | succ n ih =>
    unfold scanNumberF
    split
    · exact Adv.refl z
    · have ha := Adv.advance z
      repeat' split
      all_goals first
        | exact Adv.refl z
        | exact ha.trans (ih _ _)
        | exact (ha.trans (advIf_adv _ _)).trans (ih _ _)

theorem scanNumberF_fuel (n m : Nat) (z : Z) (hd : Bool)
    (hn : z.after.length ≤ n) (hm : z.after.length ≤ m) : scanNumberF n z hd = scanNumberF m z hd := by
  induction n generalizing m z hd with
  | zero =>
    have h0 : z.after = [] := List.eq_nil_of_length_eq_zero (by omega)
    cases m <;> simp [scanNumberF, h0]
  | succ n ih =>
    cases m with
    | zero =>
      have h0 : z.after = [] := List.eq_nil_of_length_eq_zero (by omega)
      simp [scanNumberF, h0]
    | succ m =>
      unfold scanNumberF
      split
      · rfl
      · rename_i ch rest heq
        have hlt := advance_rem_lt z (by simp [heq])
        have hlt2 := (advIf_adv isSign (advance z)).after_le
        repeat' split
        all_goals first
          | rfl
          | exact ih m _ _ (by omega) (by omega)

/-! ### well-placed tokens -/

/-- The token lies between the old and the new lexer position; the new state is ahead. -/
structure Good (z : Z) (r : Token × Z) : Prop where
  adv : Adv z r.2
  pos_ge : z.before.length ≤ r.1.pos.off
  pos_le : r.1.pos.off ≤ r.1.stop.off
  /-- the token ends at or before the position the lexer is left in (before it: an account
      token behind whose name a single blank was scanned, a text token behind whose value white
      space was scanned) -/
  stop_le : r.1.stop.off ≤ r.2.before.length

theorem mkTok_good {z s e : Z} (ty : TokType) (v : Bytes) (hs : Adv z s) (he : Adv s e) :
    Good z (mkTok ty v s e) :=
  ⟨hs.trans he, hs.before_le, he.before_le, Nat.le_refl _⟩

theorem mkTokAt_good {z s e : Z} (ty : TokType) (v : Bytes) (stop : Pos) (hs : Adv z s) (he : Adv s e)
    (h1 : s.before.length ≤ stop.off) (h2 : stop.off ≤ e.before.length) :
    Good z (mkTokAt ty v s stop e) :=
  ⟨hs.trans he, hs.before_le, h1, h2⟩

theorem Good.of_adv {z0 z : Z} {r : Token × Z} (h0 : Adv z0 z) (h : Good z r) : Good z0 r :=
  ⟨h0.trans h.adv, Nat.le_trans h0.before_le h.pos_ge, h.pos_le, h.stop_le⟩

/-- Good, starting exactly where the lexer stands, strictly consuming, not an EOF token, and
    not empty. -/
structure Ok (z : Z) (r : Token × Z) : Prop extends Good z r where
  prog : r.2.after.length < z.after.length
  ne_eof : r.1.ty ≠ .eof
  pos_eq : r.1.pos.off = z.before.length
  nonempty : r.1.pos.off < r.1.stop.off

theorem mkTok_ok {z e : Z} (ty : TokType) (v : Bytes) (_hs : Adv z z) (he : Adv z e)
    (hlt : e.after.length < z.after.length) (hty : ty ≠ .eof) : Ok z (mkTok ty v z e) :=
  ⟨mkTok_good ty v (Adv.refl z) he, hlt, hty, rfl, by
    have := he.total
    simp only [mkTok, Z.position]
    omega⟩

theorem mkTokAt_ok {z e : Z} (ty : TokType) (v : Bytes) (stop : Pos) (he : Adv z e)
    (hlt : e.after.length < z.after.length) (hty : ty ≠ .eof)
    (h1 : z.before.length < stop.off) (h2 : stop.off ≤ e.before.length) :
    Ok z (mkTokAt ty v z stop e) :=
  ⟨mkTokAt_good ty v stop (Adv.refl z) he (Nat.le_of_lt h1) h2, hlt, hty, rfl, h1⟩

/-- what `Next` guarantees in every case (EOF included) -/
structure Res (z : Z) (r : Token × Z) : Prop extends Good z r where
  prog : z.after ≠ [] → r.2.after.length < z.after.length
  eof : r.1.ty = .eof → r.2.after = [] ∧ r.1.pos = r.1.stop
  nonempty : r.1.ty ≠ .eof → r.1.pos.off < r.1.stop.off
  /-- the EOF token ends where the lexer stands (at the end of the input) -/
  stop_eof : r.1.ty = .eof → r.1.stop.off = r.2.before.length

theorem Ok.res {z : Z} {r : Token × Z} (h : Ok z r) : Res z r :=
  ⟨h.toGood, fun _ => h.prog, fun e => absurd e h.ne_eof, fun _ => h.nonempty, fun e => absurd e h.ne_eof⟩

/-! ### every scan function -/

theorem scanDate_ok (z : Z) {b : UInt8} {t : Bytes} (h : z.after = b :: t) (hb : isDigit b = true) :
    Ok z (scanDate z) :=
  mkTok_ok _ _ (Adv.refl z) (advWhile_adv _ z) (advWhile_lt _ z h (by simp [hb])) (by decide)

theorem scanStatus_ok (z : Z) (h : z.after ≠ []) : Ok z (scanStatus z) :=
  mkTok_ok _ _ (Adv.refl z) (Adv.advance z) (advance_rem_lt z h) (by decide)

theorem scanSign_ok (z : Z) (h : z.after ≠ []) : Ok z (scanSign z) :=
  mkTok_ok _ _ (Adv.refl z) (Adv.advance z) (advance_rem_lt z h) (by decide)

theorem punct_ok (ty : TokType) (v : Bytes) (z : Z) (h : z.after ≠ []) (hty : ty ≠ .eof) :
    Ok z (punct ty v z) :=
  mkTok_ok _ _ (Adv.refl z) (Adv.advance z) (advance_rem_lt z h) hty

theorem scanCode_ok (z : Z) (h : z.after ≠ []) : Ok z (scanCode z) := by
  have h1 := Adv.advance z
  have h2 := advLine_adv (fun c => c != 0x29) (advance z)
  have h3 := advIf_adv (· == 0x29) (advLine (fun c => c != 0x29) (advance z))
  have hlt := advance_rem_lt z h
  have := (h2.trans h3).after_le
  exact mkTok_ok _ _ (Adv.refl z) (h1.trans (h2.trans h3)) (by omega) (by decide)

theorem scanQuotedCommodity_ok (z : Z) (h : z.after ≠ []) : Ok z (scanQuotedCommodity z) := by
  have h1 := Adv.advance z
  have h2 := advLine_adv (fun c => c != 0x22) (advance z)
  have h3 := advIf_adv (· == 0x22) (advLine (fun c => c != 0x22) (advance z))
  have hlt := advance_rem_lt z h
  have := (h2.trans h3).after_le
  exact mkTok_ok _ _ (Adv.refl z) (h1.trans (h2.trans h3)) (by omega) (by decide)

theorem scanComment_ok (z : Z) (h : z.after ≠ []) : Ok z (scanComment z) := by
  have h1 := Adv.advance z
  have h2 := advLine_adv (fun _ => true) (advance z)
  have hlt := advance_rem_lt z h
  have := h2.after_le
  exact mkTok_ok _ _ (Adv.refl z) (h1.trans h2) (by omega) (by decide)

theorem scanIndent_ok (z : Z) {b : UInt8} {t : Bytes} (h : z.after = b :: t)
    (hb : (isWhitespace b && !atEol (b :: t)) = true) : Ok z (scanIndent z) :=
  mkTok_ok _ _ (Adv.refl z) (advLine_adv _ z) (advLine_lt _ z h hb) (by decide)

theorem scanNewline_ok (z : Z) (h : z.after ≠ []) : Ok z (scanNewline z) := by
  have h0 := advIf_adv (· == 0x0D) z
  have h1 := Adv.advance (advIf (· == 0x0D) z)
  have hlt : (advance (advIf (· == 0x0D) z)).after.length < z.after.length := by
    by_cases hz : (advIf (· == 0x0D) z).after = []
    · have h3 : (advance (advIf (· == 0x0D) z)).after.length ≤ 0 := by simpa [hz] using h1.after_le
      have h4 : 0 < z.after.length := List.length_pos_iff.mpr h
      omega
    · have := advance_rem_lt _ hz
      have := h0.after_le
      omega
  exact mkTok_ok _ _ (Adv.refl z) ((h0.trans h1).congr rfl rfl) hlt (by decide)

theorem scanAt_ok (z : Z) (h : z.after ≠ []) : Ok z (scanAt z) := by
  have h1 := Adv.advance z
  have hlt := advance_rem_lt z h
  have := (Adv.advance (advance z)).after_le
  unfold scanAt
  simp only []
  split
  · exact mkTok_ok _ _ (Adv.refl z) (h1.trans (Adv.advance _)) (by omega) (by decide)
  · exact mkTok_ok _ _ (Adv.refl z) h1 hlt (by decide)

theorem scanEquals_ok (z : Z) (h : z.after ≠ []) : Ok z (scanEquals z) := by
  have h1 := Adv.advance z
  have hlt := advance_rem_lt z h
  have := (Adv.advance (advance z)).after_le
  unfold scanEquals
  simp only []
  split
  · exact mkTok_ok _ _ (Adv.refl z) (h1.trans (Adv.advance _)) (by omega) (by decide)
  · exact mkTok_ok _ _ (Adv.refl z) h1 hlt (by decide)

theorem scanCurrencySymbol_ok (z : Z) {b : UInt8} {t : Bytes} (h : z.after = b :: t) :
    Ok z (scanCurrencySymbol z) := by
  unfold scanCurrencySymbol
  rw [h]
  exact mkTok_ok _ _ (Adv.refl z) (Adv.bump z _) (bump_after_lt z h) (by decide)

theorem trimRightFunc_length_le (s : Bytes) : (trimRightFunc s).length ≤ s.length := by
  unfold trimRightFunc
  split
  · simp
  · split <;> (rw [List.length_take]; exact Nat.min_le_right _ _)

theorem between_length {s e : Z} (h : s.before.length ≤ e.before.length) :
    (between s e).length = e.before.length - s.before.length := by
  simp [between]

/-- the End of a text token lies behind its Pos (strictly, when something was scanned) and not
    behind the position the scan stopped at -/
theorem textStop_bounds {z e : Z} (h : Adv z e) :
    z.before.length ≤ (textStop z e).off ∧ (textStop z e).off ≤ e.before.length ∧
      (z.before.length < e.before.length → z.before.length < (textStop z e).off) := by
  have hle := h.before_le
  have hlen := between_length hle
  have htr := trimRightFunc_length_le (between z e)
  unfold textStop
  simp only []
  split
  · exact ⟨hle, Nat.le_refl _, fun h => h⟩
  · rename_i hne
    have : 0 < (trimRightFunc (between z e)).length := List.length_pos_iff.mpr hne
    refine ⟨by simp, by simp only []; omega, fun _ => by simp only []; omega⟩

theorem scanText_ok (z : Z) {b : UInt8} {t : Bytes} (h : z.after = b :: t)
    (hb : ((!(b == 0x3B || b == 0x7C)) && !atEol (b :: t)) = true) : Ok z (scanText z) := by
  have ha := advLine_adv (fun ch => !(ch == 0x3B || ch == 0x7C)) z
  have hlt := advLine_lt (fun ch => !(ch == 0x3B || ch == 0x7C)) z h hb
  have hb := textStop_bounds ha
  have := ha.total
  exact mkTokAt_ok _ _ _ ha hlt (by decide) (hb.2.2 (by omega)) hb.2.1

theorem scanNumber_ok (z : Z) {b : UInt8} {t : Bytes} (h : z.after = b :: t) (hb : isDigit b = true) :
    Ok z (scanNumber z) := by
  unfold scanNumber
  refine mkTok_ok _ _ (Adv.refl z) (scanNumberF_adv _ z false) ?_ (by decide)
  rw [h]
  simp only [List.length_cons, scanNumberF, h, hb, if_true]
  have h1 := advance_rem_lt z (by simp [h])
  have h2 := (scanNumberF_adv t.length (advance z) true).after_le
  simp [h] at h1
  omega

/-- where `looksLikeAccount` finds a colon, the loop of `scanAccount` passes it: the state at
    `lastNonSpace` lies strictly behind the start -/
theorem scanAccountF_last_gt (n : Nat) (z l : Z) (h : looksLikeAccountF n z.after false = true) :
    z.before.length < (scanAccountF n z l).2.before.length := by
  induction n generalizing z l with
  | zero => simp [looksLikeAccountF] at h
  | succ n ih =>
    cases hz : z.after with
    | nil => rw [hz] at h; simp [looksLikeAccountF] at h
    | cons b t =>
      rw [hz] at h
      have hw := decodeRune_width_pos b t
      have hbump : z.before.length < (z.bump (decodeRune (b :: t)).2).before.length := by
        have hl : 1 ≤ (List.take (decodeRune (b :: t)).2 (b :: t)).length := by
          rw [List.length_take]
          simp only [List.length_cons]
          omega
        simp only [Z.bump, hz, List.length_append, List.length_reverse]
        omega
      have hafter : (z.bump (decodeRune (b :: t)).2).after = (b :: t).drop (decodeRune (b :: t)).2 := by
        simp [Z.bump, hz]
      have hself := (scanAccountF_adv n (z.bump (decodeRune (b :: t)).2) (z.bump (decodeRune (b :: t)).2)
        (Adv.refl _)).2.1.before_le
      simp only [looksLikeAccountF] at h
      simp only [scanAccountF, hz]
      by_cases hsp : ((decodeRune (b :: t)).1 == 0x20) = true
      · have hne : ((decodeRune (b :: t)).1 == 0x3A) = false := by
          simp only [beq_iff_eq] at hsp
          rw [hsp]; decide
        simp only [hne, hsp, if_true, Bool.false_eq_true, if_false] at h
        simp only [hsp, if_true]
        by_cases h2 : headIs 0x20 t = true
        · simp [h2] at h
        · simp only [h2, Bool.false_eq_true, if_false] at h ⊢
          have := ih (z.bump (decodeRune (b :: t)).2) l (by rw [hafter]; exact h)
          omega
      · simp only [hsp, Bool.false_eq_true, if_false] at h ⊢
        by_cases hterm : isAccountTerminator (decodeRune (b :: t)).1 = true
        · have hne : ((decodeRune (b :: t)).1 == 0x3A) = false := by
            cases hc : ((decodeRune (b :: t)).1 == 0x3A)
            · rfl
            · simp only [beq_iff_eq] at hc
              rw [hc] at hterm
              exact absurd hterm (by decide)
          simp [hne, hterm] at h
        · simp only [hterm, Bool.false_eq_true, if_false]
          omega

/-- if `looksLikeAccount` says yes, the account token is not empty: its End lies behind the
    colon at least (and the loop takes at least its first rune) -/
theorem scanAccount_ok (z : Z) {b : UInt8} {t : Bytes} (_h : z.after = b :: t)
    (hl : looksLikeAccount z.after = true) : Ok z (scanAccount z) := by
  have hadv := scanAccountF_adv z.after.length z z (Adv.refl z)
  have hgt := scanAccountF_last_gt z.after.length z z hl
  have h1 := hadv.2.2.before_le
  have h2 := hadv.1.total
  show Ok z (mkTokAt .account _ z (scanAccountF z.after.length z z).2.position (scanAccountF z.after.length z z).1)
  exact mkTokAt_ok _ _ _ hadv.1 (by omega) (by decide) hgt h1

/-- a letter is none of `;`, `|`, CR, LF: `scanText` consumes it -/
theorem letter_text_ok {b : UInt8} {t : Bytes} (hb : isLetter b = true) :
    ((!(b == 0x3B || b == 0x7C)) && !atEol (b :: t)) = true := by
  have h1 : b ≠ 0x0A := by intro e; subst e; revert hb; decide
  have h2 : b ≠ 0x0D := by intro e; subst e; revert hb; decide
  have h3 : b ≠ 0x3B := by intro e; subst e; revert hb; decide
  have h4 : b ≠ 0x7C := by intro e; subst e; revert hb; decide
  simp [atEol_of_ne h1 h2, h3, h4]

theorem scanDirectiveOrAccount_ok (z : Z) {b : UInt8} {t : Bytes} (h : z.after = b :: t)
    (hb : isLetter b = true) : Ok z (scanDirectiveOrAccount z) := by
  unfold scanDirectiveOrAccount
  simp only []
  split
  · exact mkTok_ok _ _ (Adv.refl z) (advWhile_adv _ z) (advWhile_lt _ z h hb) (by decide)
  · split
    · rename_i hl
      exact scanAccount_ok z h hl
    · exact scanText_ok z h (letter_text_ok hb)

theorem between_ne_nil_lt {s e : Z} (h : between s e ≠ []) : s.before.length < e.before.length := by
  unfold between at h
  by_cases hc : s.before.length < e.before.length
  · exact hc
  · have : e.before.length - s.before.length = 0 := by omega
    simp [this] at h

theorem scanCommodityOrText_ok (C : Classes) (z : Z) {b : UInt8} {t : Bytes} (h : z.after = b :: t)
    (hb : ((!(b == 0x3B || b == 0x7C)) && !atEol (b :: t)) = true) : Ok z (scanCommodityOrText C z) := by
  unfold scanCommodityOrText
  simp only []
  have h1 := advWhile_adv isLetter z
  split
  · rename_i he
    simp only [Bool.and_eq_true, decide_eq_true_eq] at he
    have := h1.total
    exact mkTok_ok _ _ (Adv.refl z) h1 (by omega) (by decide)
  · have h2 := advWhile_adv (fun c => isLetter c || isDigit c) (advWhile isLetter z)
    split
    · rename_i hc
      simp only [looksLikeCommodity, Bool.and_eq_true, Bool.not_eq_true', List.isEmpty_eq_false_iff] at hc
      have hlt := between_ne_nil_lt hc.1
      have := (h1.trans h2).total
      exact mkTok_ok _ _ (Adv.refl z) (h1.trans h2) (by omega) (by decide)
    · exact scanText_ok z h hb

/-! ### the dispatchers -/

theorem Res.of_ok_adv {z0 z : Z} {r : Token × Z} (h0 : Adv z0 z) (h : Ok z r) : Res z0 r :=
  ⟨h.toGood.of_adv h0, fun _ => Nat.lt_of_lt_of_le h.prog h0.after_le, fun e => absurd e h.ne_eof,
    fun _ => h.nonempty, fun e => absurd e h.ne_eof⟩

theorem ok_ite {c : Prop} [Decidable c] {z : Z} {a b : Token × Z}
    (ha : c → Ok z a) (hb : ¬c → Ok z b) : Ok z (if c then a else b) := by
  split
  · exact ha ‹_›
  · exact hb ‹_›

theorem scanInLine_res (C : Classes) (z0 : Z) : Res z0 (scanInLine C z0) := by
  unfold scanInLine
  have hs : Adv z0 (skipSpaces z0) := advWhile_adv _ z0
  generalize skipSpaces z0 = z at hs ⊢
  unfold scanInLineAt
  simp only []
  split
  · rename_i heq
    refine ⟨mkTok_good _ _ hs (Adv.refl z), ?_, ?_, ?_, fun _ => rfl⟩
    · intro hne
      have : 0 < z0.after.length := List.length_pos_iff.mpr hne
      simpa [mkTok, heq] using this
    · intro _
      exact ⟨heq, rfl⟩
    · intro h; exact absurd rfl h
  · rename_i ch t heq
    have hne : z.after ≠ [] := by simp [heq]
    refine Res.of_ok_adv hs ?_
    refine ok_ite (fun _ => scanNewline_ok z hne) fun c1 => ?_
    refine ok_ite (fun _ => scanComment_ok z hne) fun c2 => ?_
    refine ok_ite (fun _ => ok_ite (fun _ => punct_ok _ _ z hne (by decide)) fun _ => scanCode_ok z hne) fun _ => ?_
    refine ok_ite (fun _ => punct_ok _ _ z hne (by decide)) fun _ => ?_
    refine ok_ite (fun _ => punct_ok _ _ z hne (by decide)) fun _ => ?_
    refine ok_ite (fun _ => punct_ok _ _ z hne (by decide)) fun _ => ?_
    refine ok_ite (fun _ => punct_ok _ _ z hne (by decide)) fun c3 => ?_
    refine ok_ite (fun _ => scanAt_ok z hne) fun _ => ?_
    refine ok_ite (fun _ => scanEquals_ok z hne) fun _ => ?_
    refine ok_ite (fun _ => scanStatus_ok z hne) fun _ => ?_
    refine ok_ite (fun _ => scanCurrencySymbol_ok z heq) fun _ => ?_
    refine ok_ite (fun _ => scanQuotedCommodity_ok z hne) fun _ => ?_
    have hb : ((!(ch == 0x3B || ch == 0x7C)) && !atEol (ch :: t)) = true := by
      simp only [Bool.not_eq_true] at c1 c2 c3
      simp [c1, c2, c3]
    refine ok_ite (fun _ => ok_ite (fun _ => scanSign_ok z hne) fun _ => scanText_ok z heq hb) fun _ => ?_
    refine ok_ite (fun hd => ok_ite (fun _ => scanDate_ok z heq hd) fun _ => scanNumber_ok z heq hd) fun _ => ?_
    refine ok_ite (fun _ => ok_ite (fun hl => scanAccount_ok z heq hl) fun _ => scanCommodityOrText_ok C z heq hb) fun _ => ?_
    exact scanText_ok z heq hb

theorem scanLineStartAt_res (C : Classes) (z : Z) {b : UInt8} {t : Bytes} (heq : z.after = b :: t) :
    Res z (scanLineStartAt C z) := by
  unfold scanLineStartAt
  have hne : z.after ≠ [] := by simp [heq]
  have hp : peek z = b := by simp [peek, heq]
  simp only [hp, heq]
  split
  · exact (scanComment_ok z hne).res
  split
  · rename_i hw
    exact (scanIndent_ok z heq hw).res
  split
  · rename_i hd
    exact (scanDate_ok z heq hd).res
  split
  · rename_i hl
    exact (scanDirectiveOrAccount_ok z heq hl).res
  · exact scanInLine_res C z

theorem scanLineStart_res (C : Classes) (z0 : Z) {b : UInt8} {t : Bytes} (h : z0.after = b :: t) :
    Res z0 (scanLineStart C z0) := by
  unfold scanLineStart
  have hs : Adv z0 { z0 with atStart := false } := (Adv.refl z0).congr rfl rfl
  have := scanLineStartAt_res C { z0 with atStart := false } (b := b) (t := t) h
  exact ⟨this.toGood.of_adv hs, this.prog, this.eof, this.nonempty, this.stop_eof⟩

/-- Everything `Next` guarantees, for every state, every byte string, every classifier. -/
theorem next_res (C : Classes) (z : Z) : Res z (next C z) := by
  unfold next
  split
  · rename_i heq
    exact ⟨mkTok_good _ _ (Adv.refl z) (Adv.refl z), fun h => absurd heq h, fun _ => ⟨heq, rfl⟩,
      fun h => absurd rfl h, fun _ => rfl⟩
  · rename_i b t heq
    split
    · exact scanLineStart_res C z heq
    · exact scanInLine_res C z

/-! ### the token stream -/

theorem next_nil (C : Classes) {z : Z} (h : z.after = []) : next C z = mkTok .eof [] z z := by
  unfold next; rw [h]

theorem next_eof_iff (C : Classes) (z : Z) : (next C z).1.ty = .eof → (next C z).2.after = [] :=
  fun h => ((next_res C z).eof h).1

/-- a non-EOF token means at least one byte was consumed -/
theorem next_lt_of_ne_eof (C : Classes) (z : Z) (h : (next C z).1.ty ≠ .eof) :
    (next C z).2.after.length < z.after.length := by
  apply (next_res C z).prog
  intro h0
  rw [next_nil C h0] at h
  exact h rfl

theorem lexF_ne_nil (C : Classes) (n : Nat) (z : Z) (h : 0 < n) : lexF C n z ≠ [] := by
  cases n with
  | zero => omega
  | succ n =>
    unfold lexF
    simp only []
    split <;> simp

/-- The fuel of `lexF` is never exhausted: any fuel above the number of remaining bytes gives
    the same stream. -/
theorem lexF_fuel (C : Classes) (n m : Nat) (z : Z)
    (hn : z.after.length + 1 ≤ n) (hm : z.after.length + 1 ≤ m) : lexF C n z = lexF C m z := by
  induction n generalizing m z with
  | zero => omega
  | succ n ih =>
    cases m with
    | zero => omega
    | succ m =>
      unfold lexF
      simp only []
      split
      · rfl
      · rename_i hne
        have hne' : (next C z).1.ty ≠ .eof := by simpa using hne
        have := next_lt_of_ne_eof C z hne'
        rw [ih m (next C z).2 (by omega) (by omega)]

open HL.Spec.LexSpec in
/-- a stream that is ordered behind `p` is ordered behind every earlier offset -/
theorem ordered_mono (n p q : Nat) (l : List Token) (hpq : q ≤ p) (h : ordered n p l = true) :
    ordered n q l = true := by
  cases l with
  | nil => simp [ordered] at h
  | cons t rest =>
    cases rest with
    | nil =>
      simp only [ordered, Bool.and_eq_true, decide_eq_true_eq, beq_iff_eq] at h ⊢
      exact ⟨⟨⟨h.1.1.1, by omega⟩, h.1.2⟩, h.2⟩
    | cons t2 rest =>
      simp only [ordered, Bool.and_eq_true, decide_eq_true_eq, bne_iff_ne, ne_eq] at h ⊢
      exact ⟨⟨⟨⟨h.1.1.1.1, by omega⟩, h.1.1.2⟩, h.1.2⟩, h.2⟩

open HL.Spec.LexSpec in
/-- The oracle `ordered` (left to right, no overlap, inside the input, strict progress, one EOF
    at the very end) holds for the stream lexed from any state. -/
theorem lexF_ordered (C : Classes) (n : Nat) (z : Z) (hn : z.after.length + 1 ≤ n) :
    ordered (z.before.length + z.after.length) z.before.length (lexF C n z) = true := by
  induction n generalizing z with
  | zero => omega
  | succ n ih =>
    have hr := next_res C z
    unfold lexF
    simp only []
    split
    · rename_i he
      have he' : (next C z).1.ty = .eof := by simpa using he
      obtain ⟨h1, h2⟩ := hr.eof he'
      have ht := hr.adv.total
      have hs := hr.stop_eof he'
      have hg := hr.pos_ge
      simp only [ordered, he, Bool.true_and, Bool.and_eq_true, decide_eq_true_eq, beq_iff_eq]
      rw [h1] at ht
      rw [h2]
      simp only [List.length_nil, Nat.add_zero] at ht
      rw [h2] at hg
      omega
    · rename_i hne
      have hne' : (next C z).1.ty ≠ .eof := by simpa using hne
      have hlt := next_lt_of_ne_eof C z hne'
      have hrest := ih (next C z).2 (by omega)
      have hnn := lexF_ne_nil C n (next C z).2 (by omega)
      have ht := hr.adv.total
      have hs := hr.stop_le
      have hg := hr.pos_ge
      have hl := hr.pos_le
      rw [ht] at hrest
      replace hrest := ordered_mono _ _ _ _ hs hrest
      cases hlex : lexF C n (next C z).2 with
      | nil => exact absurd hlex hnn
      | cons t2 rest =>
        rw [hlex] at hrest
        have hnon := hr.nonempty hne'
        simp only [ordered, Bool.and_eq_true, decide_eq_true_eq, bne_iff_ne, ne_eq]
        refine ⟨⟨⟨⟨hne', hg⟩, hnon⟩, ?_⟩, hrest⟩
        omega

/-! ### consequences of the oracle `ordered` (pure list facts) -/
section
open HL.Spec.LexSpec

theorem ordered_cons_cons (n p : Nat) (t t2 : Token) (rest : List Token) :
    ordered n p (t :: t2 :: rest) =
      (t.ty != .eof && decide (p ≤ t.pos.off) && decide (t.pos.off < t.stop.off) &&
        decide (t.stop.off ≤ n) && ordered n t.stop.off (t2 :: rest)) := by
  simp [ordered]

/-- the stream is `ts ++ [eof]`, EOF sits at `n`, no other token is EOF, every other token is
    non-empty and inside -/
theorem ordered_last (n p : Nat) (l : List Token) (h : ordered n p l = true) :
    ∃ ts e, l = ts ++ [e] ∧ e.ty = .eof ∧ e.pos.off = n ∧ e.stop.off = n ∧
      ∀ t ∈ ts, t.ty ≠ .eof ∧ t.pos.off < t.stop.off ∧ t.stop.off ≤ n := by
  induction l generalizing p with
  | nil => simp [ordered] at h
  | cons t rest ih =>
    cases rest with
    | nil =>
      simp only [ordered, Bool.and_eq_true, decide_eq_true_eq, beq_iff_eq] at h
      obtain ⟨⟨⟨h1, _⟩, h3⟩, h4⟩ := h
      exact ⟨[], t, rfl, h1, h3, h4, by simp⟩
    | cons t2 rest =>
      rw [ordered_cons_cons] at h
      simp only [Bool.and_eq_true, decide_eq_true_eq, bne_iff_ne, ne_eq] at h
      obtain ⟨⟨⟨⟨h1, _⟩, h3⟩, h4⟩, h5⟩ := h
      obtain ⟨ts, e, g1, g2, g3, g4, g5⟩ := ih _ h5
      refine ⟨t :: ts, e, by simp [g1], g2, g3, g4, ?_⟩
      intro x hx
      rcases List.mem_cons.mp hx with rfl | hx
      · exact ⟨h1, h3, h4⟩
      · exact g5 x hx

theorem ordered_stop_gt (n q : Nat) (l : List Token) (h : ordered n q l = true) :
    ∀ x ∈ l, x.ty ≠ .eof → q < x.stop.off := by
  induction l generalizing q with
  | nil => simp
  | cons y ys ih =>
    intro x hx hxe
    cases ys with
    | nil =>
      simp only [ordered, Bool.and_eq_true, decide_eq_true_eq, beq_iff_eq] at h
      rcases List.mem_cons.mp hx with rfl | hx
      · exact absurd h.1.1.1 hxe
      · simp at hx
    | cons y2 ys =>
      rw [ordered_cons_cons] at h
      simp only [Bool.and_eq_true, decide_eq_true_eq, bne_iff_ne, ne_eq] at h
      obtain ⟨⟨⟨⟨_, h2⟩, h3⟩, _⟩, h5⟩ := h
      rcases List.mem_cons.mp hx with rfl | hx
      · omega
      · have := ih _ h5 x hx hxe
        omega

/-- no overlap, left to right: every token starts at or behind the end of every earlier one,
    and ends strictly behind it (progress) -/
theorem ordered_pairwise (n p : Nat) (l : List Token) (h : ordered n p l = true) :
    (∀ t ∈ l, p ≤ t.pos.off) ∧
      l.Pairwise (fun a b => a.stop.off ≤ b.pos.off ∧ (b.ty ≠ .eof → a.stop.off < b.stop.off)) := by
  induction l generalizing p with
  | nil => simp [ordered] at h
  | cons t rest ih =>
    cases rest with
    | nil =>
      simp only [ordered, Bool.and_eq_true, decide_eq_true_eq, beq_iff_eq] at h
      exact ⟨by simp [h.1.1.2], by simp⟩
    | cons t2 rest =>
      rw [ordered_cons_cons] at h
      simp only [Bool.and_eq_true, decide_eq_true_eq, bne_iff_ne, ne_eq] at h
      obtain ⟨⟨⟨⟨_, h2⟩, h3⟩, _⟩, h5⟩ := h
      obtain ⟨ih1, ih2⟩ := ih _ h5
      constructor
      · intro x hx
        rcases List.mem_cons.mp hx with rfl | hx
        · exact h2
        · have := ih1 x hx
          omega
      · refine List.pairwise_cons.mpr ⟨?_, ih2⟩
        intro x hx
        exact ⟨ih1 x hx, fun hxe => ordered_stop_gt n _ _ h5 x hx hxe⟩
end

end HL.Lex
