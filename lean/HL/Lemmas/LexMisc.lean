import HL.Lemmas.Lexer
/-!
  Remaining loops and index arithmetic of the lexer model: the checked version of
  `looksLikeDate` never fails (no index out of range), and the fuel of the value-level loops
  (`strings.TrimSpace`, `range value`) is never exhausted.
-/
namespace HL.Lex
open HL HL.Utf8

/-- `looksLikeDate` never indexes out of range: the version with checked reads always returns
    `some`, and it returns the value of the model's `looksLikeDate`. -/
theorem looksLikeDateChk_eq (a : Bytes) : looksLikeDateChk a = some (looksLikeDate a) := by
  by_cases hl : a.length < 8
  · simp [looksLikeDateChk, looksLikeDate, hl]
  · rcases a with _ | ⟨d0, _ | ⟨d1, _ | ⟨d2, _ | ⟨d3, _ | ⟨sep, _ | ⟨m, _ | ⟨x, _ | ⟨y, rest⟩⟩⟩⟩⟩⟩⟩⟩
    all_goals try (simp at hl; done)
    have hlen : ¬ ((d0 :: d1 :: d2 :: d3 :: sep :: m :: x :: y :: rest).length < 8) := by simp
    simp only [looksLikeDateChk, looksLikeDate, looksLikeDateCore, hlen, if_false]
    simp only [List.getElem?_cons_zero, List.getElem?_cons_succ, List.getD_cons_zero, List.getD_cons_succ,
      List.length_cons]
    cases h0 : (isDigit d0 && isDigit d1 && isDigit d2 && isDigit d3)
    · simp
    · cases hs : (sep == 0x2D || sep == 0x2F || sep == 0x2E)
      · have : (sep != 0x2D && sep != 0x2F && sep != 0x2E) = true := by
          simp only [Bool.or_eq_false_iff] at hs
          simp [bne, hs.1.1, hs.1.2, hs.2]
        simp [this]
      · have : (sep != 0x2D && sep != 0x2F && sep != 0x2E) = false := by
          cases h1 : (sep == 0x2D) <;> cases h2 : (sep == 0x2F) <;> cases h3 : (sep == 0x2E) <;> simp_all [bne]
        simp only [this]
        cases hm : isDigit m
        · simp
        · cases hx : isDigit x <;> simp

theorem trimLeftFuncF_fuel (n m : Nat) (s : Bytes) (hn : s.length ≤ n) (hm : s.length ≤ m) :
    trimLeftFuncF n s = trimLeftFuncF m s := by
  induction n generalizing m s with
  | zero =>
    have h0 : s = [] := List.eq_nil_of_length_eq_zero (by omega)
    subst h0
    cases m <;> simp [trimLeftFuncF]
  | succ n ih =>
    cases m with
    | zero =>
      have h0 : s = [] := List.eq_nil_of_length_eq_zero (by omega)
      subst h0
      simp [trimLeftFuncF]
    | succ m =>
      cases s with
      | nil => simp [trimLeftFuncF]
      | cons b t =>
        have hw := decodeRune_width_pos b t
        simp only [List.length_cons] at hn hm
        simp only [trimLeftFuncF]
        split
        · exact ih m _ (by simp only [List.length_drop, List.length_cons]; omega)
            (by simp only [List.length_drop, List.length_cons]; omega)
        · rfl

theorem lastIndexNotSpaceF_fuel (n m : Nat) (s : Bytes) (hn : s.length ≤ n) (hm : s.length ≤ m) :
    lastIndexNotSpaceF n s = lastIndexNotSpaceF m s := by
  induction n generalizing m s with
  | zero =>
    have h0 : s = [] := List.eq_nil_of_length_eq_zero (by omega)
    subst h0
    cases m <;> simp [lastIndexNotSpaceF]
  | succ n ih =>
    cases m with
    | zero =>
      have h0 : s = [] := List.eq_nil_of_length_eq_zero (by omega)
      subst h0
      simp [lastIndexNotSpaceF]
    | succ m =>
      cases s with
      | nil => simp [lastIndexNotSpaceF]
      | cons b t =>
        have hw := decodeLastRuneRev_width_pos b t
        simp only [List.length_cons] at hn hm
        simp only [lastIndexNotSpaceF]
        split
        · rfl
        · exact ih m _ (by simp only [List.length_drop, List.length_cons]; omega)
            (by simp only [List.length_drop, List.length_cons]; omega)

theorem runesF_fuel (n m : Nat) (s : Bytes) (hn : s.length ≤ n) (hm : s.length ≤ m) :
    runesF n s = runesF m s := by
  induction n generalizing m s with
  | zero =>
    have h0 : s = [] := List.eq_nil_of_length_eq_zero (by omega)
    subst h0
    cases m <;> simp [runesF]
  | succ n ih =>
    cases m with
    | zero =>
      have h0 : s = [] := List.eq_nil_of_length_eq_zero (by omega)
      subst h0
      simp [runesF]
    | succ m =>
      cases s with
      | nil => simp [runesF]
      | cons b t =>
        have hw := decodeRune_width_pos b t
        simp only [List.length_cons] at hn hm
        simp only [runesF]
        congr 1
        exact ih m _ (by simp only [List.length_drop, List.length_cons]; omega)
          (by simp only [List.length_drop, List.length_cons]; omega)

end HL.Lex
