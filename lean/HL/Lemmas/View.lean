/-
  From the workspace invariant to the judgement `viewOk`: the observed view of a workspace
  satisfying `WInv` is the view of a rebuild, component by component.
-/
import HL.Lemmas.Init
namespace HL.Lemmas.View
open HL.Index HL.Workspace HL.Lemmas.AList HL.Lemmas.ReachIdx HL.Lemmas.Edges HL.Lemmas.Index
open HL.Lemmas.Counter HL.Lemmas.WsInv HL.Lemmas.Update HL.Spec.Rebuild

/-! ### members -/

theorem bfsF_nodup (g : AList (List String)) :
    ∀ (n : Nat) (q r : List String), r.Nodup → (bfsF g n q r).Nodup := by
  intro n
  induction n with
  | zero => intro q r h; simpa [bfsF] using h
  | succ n ih =>
    intro q r h
    cases q with
    | nil => simpa [bfsF] using h
    | cons p q =>
      unfold bfsF
      split
      · exact ih _ _ h
      · rename_i hp
        apply ih
        rw [List.nodup_append]
        exact ⟨h, by simp, fun a ha b hb => by
          simp only [List.mem_singleton] at hb; subst hb; exact fun e => hp (e ▸ ha)⟩

theorem mem_members (fs : FS) (root p : String) :
    p ∈ members fs root ↔ (Reach fs root p ∧ (fs.get p).isSome) := by
  simp [members, List.mem_filter, mem_reach_iff]

theorem members_nodup (fs : FS) (root : String) : (members fs root).Nodup := by
  unfold members
  apply isort_nodup
  exact List.Pairwise.filter _ (bfsF_nodup _ _ _ _ (by simp))

theorem keys_perm_members (cfg : Cfg) (fs : FS) (w : WS) (h : WInv cfg fs w) :
    w.idx.files.keys.Perm (members fs w.root) := by
  rw [List.perm_ext_iff_of_nodup h.pinv.g.idx.nodup (members_nodup fs w.root)]
  intro a
  rw [mem_keys_iff, mem_members, h.closed a]

theorem members_eq (cfg : Cfg) (fs : FS) (w : WS) (h : WInv cfg fs w) :
    isort w.idx.files.keys = members fs w.root := by
  have := isort_unique _ _ (keys_perm_members cfg fs w h)
  rw [this]
  unfold members
  exact isort_eq_of_sorted _ _ (List.Perm.refl _) (isort_sorted _)

/-! ### contributions and entries of the indexed files -/

theorem contribsOf_eq (fs : FS) : ∀ (l : AList FileIdx), (∀ e ∈ l, fs.get e.1 = some e.2.c) →
    contribsOf l = l.keys.filterMap fs.get := by
  intro l
  induction l with
  | nil => intro _; rfl
  | cons e r ih =>
    intro h
    have h1 := h e List.mem_cons_self
    simp only [contribsOf, AList.keys, List.map_cons, List.filterMap_cons, h1] at *
    rw [ih (fun e he => h e (List.mem_cons_of_mem _ he))]

theorem files_get_fs (cfg : Cfg) (fs : FS) (w : WS) (h : WInv cfg fs w) :
    ∀ e ∈ w.idx.files, fs.get e.1 = some e.2.c ∧ e.2 = mkFileIdx e.1 e.2.c := by
  intro e he
  have hg := mem_get_of_nodup _ e.1 e.2 h.pinv.g.idx.nodup he
  obtain ⟨c, hc, hfi⟩ := h.pinv.g.fresh e.1 e.2 hg
  have : e.2.c = c := by rw [hfi]; rfl
  exact ⟨by rw [this]; exact hc, by rw [this]; exact hfi⟩

/-- the contributions of the indexed files are those of the member files -/
theorem contribs_perm (cfg : Cfg) (fs : FS) (w : WS) (h : WInv cfg fs w) :
    (contribsOf w.idx.files).Perm ((members fs w.root).filterMap fs.get) := by
  rw [contribsOf_eq fs _ (fun e he => (files_get_fs cfg fs w h e he).1)]
  exact (keys_perm_members cfg fs w h).filterMap _

theorem entriesOfFiles_eq (fs : FS) : ∀ (l : AList FileIdx),
    (∀ e ∈ l, fs.get e.1 = some e.2.c ∧ e.2 = mkFileIdx e.1 e.2.c) →
    entriesOfFiles l = l.keys.flatMap (entriesOf fs) := by
  intro l
  induction l with
  | nil => intro _; rfl
  | cons e r ih =>
    intro h
    have h1 := h e List.mem_cons_self
    simp only [entriesOfFiles, AList.keys, List.map_cons, List.flatMap_cons] at *
    rw [ih (fun e he => h e (List.mem_cons_of_mem _ he))]
    congr 1
    simp only [entriesOf, h1.1]
    rw [← h1.2]

theorem entries_perm (cfg : Cfg) (fs : FS) (w : WS) (h : WInv cfg fs w) :
    (entriesOfFiles w.idx.files).Perm ((members fs w.root).flatMap (entriesOf fs)) := by
  rw [entriesOfFiles_eq fs _ (files_get_fs cfg fs w h)]
  exact (keys_perm_members cfg fs w h).flatMap_right _

/-! ### counters -/

theorem sumFor_pos_mem (l : AList Nat) (k : String) (h : 0 < sumFor l k) : k ∈ l.keys := by
  induction l with
  | nil => simp [sumFor] at h
  | cons e r ih =>
    rw [sumFor_cons] at h
    simp only [AList.keys, List.map_cons, List.mem_cons]
    by_cases e1 : e.1 = k
    · exact Or.inl e1.symm
    · simp only [e1, if_false, Nat.zero_add] at h
      exact Or.inr (ih h)

theorem total_pos_mem (proj : Contrib → AList Nat) (cs : List Contrib) (k : String)
    (h : 0 < total proj cs k) : k ∈ cs.flatMap fun c => (proj c).keys := by
  induction cs with
  | nil => simp [total] at h
  | cons c r ih =>
    rw [total_cons] at h
    simp only [List.flatMap_cons, List.mem_append]
    by_cases e : 0 < sumFor (proj c) k
    · exact Or.inl (sumFor_pos_mem _ _ e)
    · exact Or.inr (ih (by omega))

theorem mem_support (proj : Contrib → AList Nat) (cs : List Contrib) (k : String) :
    k ∈ support proj cs ↔ 0 < total proj cs k := by
  simp only [support, mem_isort, mem_dedup, List.mem_filter, decide_eq_true_eq]
  constructor
  · exact fun h => h.2
  · exact fun h => ⟨total_pos_mem proj cs k h, h⟩

theorem support_nodup (proj : Contrib → AList Nat) (cs : List Contrib) : (support proj cs).Nodup :=
  isort_nodup _ (dedup_nodup _)

theorem counter_keys (proj : Contrib → AList Nat) (cs : List Contrib) :
    (counter proj cs).keys = support proj cs := by
  simp [counter, AList.keys, Function.comp_def]

/-- a stored counter with the right sums, positive entries and unique keys is judged correct -/
theorem mapOk_of (proj : Contrib → AList Nat) (cs : List Contrib) (m : AList Nat)
    (hsum : ∀ k, cnt m k = total proj cs k) (hpos : Pos m) (hn : m.keys.Nodup) :
    mapOk (counter proj cs) m = true := by
  have hkeys : sortedKeys m = support proj cs := by
    unfold sortedKeys
    have : isort m.keys = isort (support proj cs) := by
      apply isort_ext _ _ hn (support_nodup proj cs)
      intro a
      rw [mem_keys_iff_pos m hpos a, mem_support, hsum a]
    rw [this]
    exact isort_eq_of_sorted _ _ (List.Perm.refl _) (isort_sorted _)
  simp only [mapOk, Bool.and_eq_true, beq_iff_eq, List.all_eq_true]
  refine ⟨by rw [hkeys, counter_keys], ?_⟩
  intro e he
  simp only [counter, List.mem_map] at he
  obtain ⟨k, hk, rfl⟩ := he
  have hp := (mem_support proj cs k).mp hk
  simp only
  rw [(get_eq_of_cnt m hpos k _ hp).mpr (hsum k)]

theorem counterOk_mapOk (proj : Contrib → AList Nat) (files : AList FileIdx) (m : AList Nat)
    (cs : List Contrib) (hperm : (contribsOf files).Perm cs) (h : CounterOk proj files m) :
    mapOk (counter proj cs) m = true ∧ sortedKeys m = support proj cs := by
  have hsum : ∀ k, cnt m k = total proj cs k := fun k => by
    rw [h.sum k, total_perm proj _ _ hperm k]
  have := mapOk_of proj cs m hsum h.pos h.nodup
  refine ⟨this, ?_⟩
  simp only [mapOk, Bool.and_eq_true, beq_iff_eq] at this
  rw [this.1, counter_keys]

/-! ### nested tag-value counters -/

theorem map_pair_get {α : Type} (l : List String) (f : String → α) (t : String) :
    AList.get (l.map fun k => (k, f k)) t = if t ∈ l then some (f t) else none := by
  induction l with
  | nil => simp
  | cons a r ih =>
    simp only [List.map_cons, get_cons, List.mem_cons, ih]
    by_cases e : a = t
    · subst e; simp
    · have : ¬ t = a := fun h => e h.symm
      simp [e, this]

theorem map_pair_keys {α : Type} (l : List String) (f : String → α) :
    AList.keys (l.map fun k => (k, f k)) = l := by
  simp [AList.keys, Function.comp_def]

theorem sumFor_tvFlat_pos (t : String) (c : Contrib) (v : String) (h : 0 < sumFor (tvFlat t c) v) :
    t ∈ c.tvc.keys := by
  unfold tvFlat at h
  have hne : (c.tvc.filter fun e => e.1 = t) ≠ [] := by
    intro hnil; rw [hnil] at h; simp [sumFor] at h
  obtain ⟨e, he⟩ := List.exists_mem_of_ne_nil _ hne
  have := List.mem_filter.mp he
  simp only [decide_eq_true_eq] at this
  exact List.mem_map.mpr ⟨e, this.1, this.2⟩

theorem mem_tvTags (cs : List Contrib) (t : String) : t ∈ tvTags cs ↔ support (tvFlat t) cs ≠ [] := by
  simp only [tvTags, mem_isort, mem_dedup, List.mem_filter, decide_eq_true_eq]
  constructor
  · exact fun h => h.2
  · intro h
    refine ⟨?_, h⟩
    obtain ⟨v, hv⟩ := List.exists_mem_of_ne_nil _ h
    have hp := (mem_support _ _ _).mp hv
    -- some contribution has a positive count for (t, v)
    have : ∃ c ∈ cs, 0 < sumFor (tvFlat t c) v := by
      clear hv h
      induction cs with
      | nil => simp [total] at hp
      | cons c r ih =>
        rw [total_cons] at hp
        by_cases e : 0 < sumFor (tvFlat t c) v
        · exact ⟨c, List.mem_cons_self, e⟩
        · obtain ⟨c', hc', h'⟩ := ih (by omega)
          exact ⟨c', List.mem_cons_of_mem _ hc', h'⟩
    obtain ⟨c, hc, hcp⟩ := this
    exact List.mem_flatMap.mpr ⟨c, hc, sumFor_tvFlat_pos t c v hcp⟩

theorem tvOk_nested (files : AList FileIdx) (m : AList (AList Nat)) (cs : List Contrib)
    (hperm : (contribsOf files).Perm cs) (h : TvOk files m) :
    nestedOk ((tvTags cs).map fun t => (t, counter (tvFlat t) cs)) m = true ∧
    (∀ t, (m.get t).map sortedKeys =
      if t ∈ tvTags cs then some (support (tvFlat t) cs) else none) := by
  have hsum : ∀ t v, tvCnt m t v = total (tvFlat t) cs v := fun t v => by
    rw [h.sum t v, total_perm _ _ _ hperm v]
  have hinner : ∀ t inner, m.get t = some inner →
      mapOk (counter (tvFlat t) cs) inner = true ∧ sortedKeys inner = support (tvFlat t) cs ∧
      support (tvFlat t) cs ≠ [] := by
    intro t inner hg
    obtain ⟨hne, hpos, hnd⟩ := h.canon t inner hg
    have hs : ∀ k, cnt inner k = total (tvFlat t) cs k := by
      intro k
      rw [← hsum t k]
      simp [tvCnt, AList.getD, hg]
    have hm := mapOk_of (tvFlat t) cs inner hs hpos hnd
    have hk : sortedKeys inner = support (tvFlat t) cs := by
      have := hm
      simp only [mapOk, Bool.and_eq_true, beq_iff_eq] at this
      rw [this.1, counter_keys]
    refine ⟨hm, hk, ?_⟩
    cases inner with
    | nil => exact absurd rfl hne
    | cons e r =>
      obtain ⟨v, n⟩ := e
      have hgv : AList.get ((v, n) :: r) v = some n := by simp [get_cons]
      have hn := hpos v n hgv
      have : 0 < total (tvFlat t) cs v := by
        rw [← hs v]; simp [cnt, hgv]; exact hn
      intro hnil
      have := (mem_support _ _ _).mpr this
      rw [hnil] at this; simp at this
  have hkeys : ∀ t, t ∈ m.keys ↔ t ∈ tvTags cs := by
    intro t
    rw [mem_keys_iff, mem_tvTags]
    constructor
    · intro hs
      obtain ⟨inner, hi⟩ := Option.isSome_iff_exists.mp hs
      exact (hinner t inner hi).2.2
    · intro hs
      obtain ⟨v, hv⟩ := List.exists_mem_of_ne_nil _ hs
      have hp := (mem_support _ _ _).mp hv
      rw [← hsum t v] at hp
      cases e : m.get t with
      | some _ => rfl
      | none => simp [tvCnt, AList.getD, e, cnt] at hp
  have hsorted : sortedKeys m = tvTags cs := by
    unfold sortedKeys
    have : isort m.keys = isort (tvTags cs) := by
      apply isort_ext _ _ h.nodup (isort_nodup _ (dedup_nodup _)) hkeys
    rw [this]
    exact isort_eq_of_sorted _ _ (List.Perm.refl _) (isort_sorted _)
  constructor
  · simp only [nestedOk, Bool.and_eq_true, beq_iff_eq, List.all_eq_true]
    refine ⟨by rw [hsorted, map_pair_keys], ?_⟩
    intro e he
    obtain ⟨t, ht, rfl⟩ := List.mem_map.mp he
    have := (hkeys t).mpr ht
    obtain ⟨inner, hi⟩ := Option.isSome_iff_exists.mp ((mem_keys_iff _ _).mp this)
    simp only [hi]
    exact (hinner t inner hi).1
  · intro t
    by_cases ht : t ∈ tvTags cs
    · simp only [ht, if_true]
      have := (hkeys t).mpr ht
      obtain ⟨inner, hi⟩ := Option.isSome_iff_exists.mp ((mem_keys_iff _ _).mp this)
      rw [hi]; simp [(hinner t inner hi).2.1]
    · simp only [ht, if_false]
      have : t ∉ m.keys := fun hk => ht ((hkeys t).mp hk)
      rw [(get_eq_none_iff _ _).mpr this]; rfl

/-! ### derived lists -/

theorem accountIndexOf_all (names : List String) : (accountIndexOf names).all = names := by
  unfold accountIndexOf
  have : ∀ (l : List String) (acc : AccountIndex),
      (l.foldl (fun idx name =>
        ({ all := idx.all ++ [name],
           byPrefix := (prefixesOf name).foldl
             (fun bp p => bp.set p (bp.getD p [] ++ [name])) idx.byPrefix } : AccountIndex)) acc).all
        = acc.all ++ l := by
    intro l
    induction l with
    | nil => intro acc; simp
    | cons a r ih => intro acc; simp only [List.foldl_cons]; rw [ih]; simp
  rw [this]; rfl

theorem listMapEqv_of_ext (a b : AList (List String)) (h : ∀ k, a.get k = b.get k) :
    listMapEqv a b = true := by
  simp only [listMapEqv, Bool.and_eq_true, List.all_eq_true, beq_iff_eq]
  exact ⟨fun e _ => (h e.1).symm, fun e _ => h e.1⟩

theorem get_buildTagValues (m : AList (AList Nat)) (hn : m.keys.Nodup) (t : String) :
    (buildTagValues m).get t = (m.get t).map sortedKeys := by
  unfold buildTagValues
  have : ∀ (l : AList (AList Nat)) (acc : AList (List String)), l.keys.Nodup →
      (l.foldl (fun r e => r.set e.1 (sortedKeys e.2)) acc).get t =
        match l.get t with
        | some inner => some (sortedKeys inner)
        | none => acc.get t := by
    intro l
    induction l with
    | nil => intro acc _; simp
    | cons e r ih =>
      intro acc hn
      obtain ⟨k, inner⟩ := e
      simp only [AList.keys, List.map_cons, List.nodup_cons] at hn
      simp only [List.foldl_cons]
      rw [ih _ hn.2, get_cons]
      by_cases e1 : k = t
      · subst e1
        have : AList.get r k = none := (get_eq_none_iff r k).mpr hn.1
        simp [this, get_set_self]
      · simp only [e1, if_false]
        cases AList.get r t with
        | some _ => rfl
        | none => simp [get_set_ne _ _ _ _ e1]
  rw [this m [] hn]
  cases m.get t <;> simp

/-! ### transaction index -/

theorem txOk_of (files : AList FileIdx) (m : AList (List Entry)) (es : List Entry)
    (hperm : (entriesOfFiles files).Perm es) (h : TxOk files m) :
    (sortedKeys m == AList.keys ((isort (dedup (es.map (·.key)))).map fun k => (k, es.filter fun e => e.key = k)) &&
     ((isort (dedup (es.map (·.key)))).map fun k => (k, es.filter fun e => e.key = k)).all
       fun e => (m.getD e.1 []).isPerm e.2) = true := by
  have hp : ∀ key, (m.getD key []).Perm (es.filter fun e => e.key = key) :=
    fun key => (h.perm key).trans (hperm.filter _)
  simp only [Bool.and_eq_true, beq_iff_eq, List.all_eq_true]
  constructor
  · rw [map_pair_keys]
    unfold sortedKeys
    have : isort m.keys = isort (isort (dedup (es.map (·.key)))) := by
      apply isort_ext _ _ h.nodup (isort_nodup _ (dedup_nodup _))
      intro k
      rw [mem_keys_iff, mem_isort, mem_dedup]
      constructor
      · intro hs
        obtain ⟨l, hl⟩ := Option.isSome_iff_exists.mp hs
        have hne := h.nonempty k l hl
        have hgd : m.getD k [] = l := by simp [AList.getD, hl]
        have hpk := hp k
        rw [hgd] at hpk
        obtain ⟨x, hx⟩ := List.exists_mem_of_ne_nil _ hne
        have := hpk.mem_iff.mp hx
        have := List.mem_filter.mp this
        simp only [decide_eq_true_eq] at this
        exact List.mem_map.mpr ⟨x, this.1, this.2⟩
      · intro hk
        obtain ⟨x, hx, hxk⟩ := List.mem_map.mp hk
        have : x ∈ es.filter fun e => e.key = k := List.mem_filter.mpr ⟨hx, by simpa using hxk⟩
        have := (hp k).mem_iff.mpr this
        cases e : m.get k with
        | some _ => rfl
        | none => simp [AList.getD, e] at this
    rw [this]
    exact isort_eq_of_sorted _ _ (List.Perm.refl _) (isort_sorted _)
  · intro e he
    obtain ⟨k, _, rfl⟩ := List.mem_map.mp he
    exact List.isPerm_iff.mpr (hp k)

/-! ### payee templates -/

theorem mem_contribsOf (files : AList FileIdx) (hn : files.keys.Nodup) (c : Contrib) :
    c ∈ contribsOf files ↔ ∃ f fi, files.get f = some fi ∧ fi.c = c := by
  simp only [contribsOf, List.mem_map]
  constructor
  · rintro ⟨e, he, rfl⟩
    exact ⟨e.1, e.2, mem_get_of_nodup _ _ _ hn he, rfl⟩
  · rintro ⟨f, fi, hg, rfl⟩
    exact ⟨(f, fi), get_mem _ _ _ hg, rfl⟩

theorem ptOk_of (fixT : Bool) (files : AList FileIdx) (m : AList String) (cs : List Contrib)
    (hn : files.keys.Nodup) (hperm : (contribsOf files).Perm cs) (h : PtOk fixT files m)
    (hfix : fixT = true) :
    (sortedKeys m == AList.keys ((isort (dedup (cs.flatMap fun c => c.pts.keys))).map fun p =>
        (p, cs.filterMap fun c => c.pts.get p)) &&
     ((isort (dedup (cs.flatMap fun c => c.pts.keys))).map fun p =>
        (p, cs.filterMap fun c => c.pts.get p)).all fun e => match m.get e.1 with
      | some t => e.2.contains t
      | none => false) = true := by
  simp only [Bool.and_eq_true, beq_iff_eq, List.all_eq_true]
  have hkeys : ∀ p, p ∈ m.keys ↔ p ∈ cs.flatMap fun c => c.pts.keys := by
    intro p
    rw [mem_keys_iff]
    constructor
    · intro hs
      obtain ⟨t, ht⟩ := Option.isSome_iff_exists.mp hs
      obtain ⟨f, fi, hf, hfi⟩ := h.sound p t ht
      have : fi.c ∈ cs := hperm.mem_iff.mp ((mem_contribsOf files hn fi.c).mpr ⟨f, fi, hf, rfl⟩)
      exact List.mem_flatMap.mpr ⟨fi.c, this, (mem_keys_iff _ _).mpr (by rw [hfi]; rfl)⟩
    · intro hp
      obtain ⟨c, hc, hpc⟩ := List.mem_flatMap.mp hp
      obtain ⟨f, fi, hf, hfi⟩ := (mem_contribsOf files hn c).mp (hperm.mem_iff.mpr hc)
      exact h.complete hfix f fi p hf (by rw [hfi]; exact (mem_keys_iff _ _).mp hpc)
  constructor
  · rw [map_pair_keys]
    unfold sortedKeys
    have : isort m.keys = isort (isort (dedup (cs.flatMap fun c => c.pts.keys))) := by
      apply isort_ext _ _ h.nodup (isort_nodup _ (dedup_nodup _))
      intro p; rw [hkeys p, mem_isort, mem_dedup]
    rw [this]
    exact isort_eq_of_sorted _ _ (List.Perm.refl _) (isort_sorted _)
  · intro e he
    obtain ⟨p, hp, rfl⟩ := List.mem_map.mp he
    simp only [mem_isort, mem_dedup] at hp
    have := (mem_keys_iff _ _).mp ((hkeys p).mpr hp)
    obtain ⟨t, ht⟩ := Option.isSome_iff_exists.mp this
    simp only [ht, List.contains_iff_mem, List.mem_filterMap]
    obtain ⟨f, fi, hf, hfi⟩ := h.sound p t ht
    exact ⟨fi.c, hperm.mem_iff.mp ((mem_contribsOf files hn fi.c).mpr ⟨f, fi, hf, rfl⟩), hfi⟩

/-! ### declared accounts and commodities -/

theorem foldl_addKey (l : List String) : ∀ (acc : List String), acc.Nodup →
    (l.foldl addKey acc).Nodup ∧ ∀ a, a ∈ l.foldl addKey acc ↔ (a ∈ acc ∨ a ∈ l) := by
  induction l with
  | nil => intro acc h; exact ⟨h, by simp⟩
  | cons x r ih =>
    intro acc h
    simp only [List.foldl_cons]
    have hn : (addKey acc x).Nodup := by
      unfold addKey
      split
      · exact h
      · rename_i hx
        rw [List.nodup_append]
        exact ⟨h, by simp, fun a ha b hb => by
          simp only [List.mem_singleton] at hb; subst hb; exact fun e => hx (e ▸ ha)⟩
    obtain ⟨h1, h2⟩ := ih (addKey acc x) hn
    refine ⟨h1, ?_⟩
    intro a
    rw [h2 a]
    unfold addKey
    by_cases hx : x ∈ acc
    · simp only [hx, if_true, List.mem_cons]
      constructor
      · rintro (h | h)
        · exact Or.inl h
        · exact Or.inr (Or.inr h)
      · rintro (h | h | h)
        · exact Or.inl h
        · exact Or.inl (h ▸ hx)
        · exact Or.inr h
    · simp only [hx, if_false, List.mem_append, List.mem_cons, List.not_mem_nil, or_false]
      constructor
      · rintro ((h | h) | h)
        · exact Or.inl h
        · exact Or.inr (Or.inl h)
        · exact Or.inr (Or.inr h)
      · rintro (h | h | h)
        · exact Or.inl (Or.inl h)
        · exact Or.inl (Or.inr h)
        · exact Or.inr h

/-- `resolved.AllDirectives()` projected -/
def allOf {α : Type} (proj : Contrib → List α) (w : WS) : List α :=
  (match w.primary with | some c => proj c | none => []) ++
    w.order.flatMap fun p => match w.rfiles.get p with | some c => proj c | none => []

theorem mem_allOf {α : Type} (proj : Contrib → List α) (cfg : Cfg) (fs : FS) (w : WS)
    (h : WInv cfg fs w) (x : α) :
    x ∈ allOf proj w ↔ ∃ c ∈ (members fs w.root).filterMap fs.get, x ∈ proj c := by
  have hR := h.pinv.r
  obtain ⟨cr, hcr⟩ := Option.isSome_iff_exists.mp ((h.closed w.root).mp h.pinv.rootIdx).2
  simp only [allOf, List.mem_append, List.mem_flatMap, List.mem_filterMap, mem_members]
  rw [hR.primary, hcr]
  constructor
  · rintro (hx | ⟨p, hp, hx⟩)
    · exact ⟨cr, ⟨w.root, (h.closed w.root).mp h.pinv.rootIdx, hcr⟩, hx⟩
    · have hs := (hR.order p).mp hp
      obtain ⟨c, hc⟩ := Option.isSome_iff_exists.mp hs
      rw [hc] at hx
      have hrf := hR.rfiles p
      rw [hc] at hrf
      by_cases e1 : p = w.root
      · simp [e1] at hrf
      · by_cases e2 : (w.idx.files.get p).isSome
        · simp only [e1, e2, if_false, if_true] at hrf
          exact ⟨c, ⟨p, (h.closed p).mp e2, hrf.symm⟩, hx⟩
        · simp [e1, e2] at hrf
  · rintro ⟨c, ⟨p, hp, hpc⟩, hx⟩
    by_cases e1 : p = w.root
    · subst e1
      rw [hcr] at hpc
      simp only [Option.some.injEq] at hpc
      exact Or.inl (hpc ▸ hx)
    · have hidx := (h.closed p).mpr hp
      have hrf := hR.rfiles p
      simp only [e1, if_false, hidx, if_true] at hrf
      refine Or.inr ⟨p, (hR.order p).mpr (by rw [hrf, hpc]; rfl), ?_⟩
      rw [hrf, hpc]; exact hx

theorem newA_eq (cfg : Cfg) (fs : FS) (w : WS) (h : WInv cfg fs w) : newA w = some (computeAccts w) := by
  unfold newA
  cases e : w.cAccts with
  | some f => simp [h.cache.2.2 f e]
  | none => simp [h.pinv.r.has]

theorem newC_eq (cfg : Cfg) (fs : FS) (w : WS) (h : WInv cfg fs w) : newC w = some (computeComms w) := by
  unfold newC
  cases e : w.cComms with
  | some f => simp [h.cache.2.1 f e]
  | none => simp [h.pinv.r.has]

theorem newF_eq (cfg : Cfg) (fs : FS) (w : WS) (h : WInv cfg fs w) : newF w = some (computeFormats w) := by
  unfold newF
  cases e : w.cFormats with
  | some f => simp [h.cache.1 f e]
  | none => simp [h.pinv.r.has]

theorem declA_ok (cfg : Cfg) (fs : FS) (w : WS) (h : WInv cfg fs w) :
    isort (computeAccts w) =
      isort (dedup (((members fs w.root).filterMap fs.get).flatMap (·.declA))) := by
  obtain ⟨h1, h2⟩ := foldl_addKey (allAcctDirs w) [] (by simp)
  apply isort_ext _ _ h1 (dedup_nodup _)
  intro a
  show a ∈ (allAcctDirs w).foldl addKey [] ↔ _
  rw [h2 a, mem_dedup]
  simp only [List.not_mem_nil, false_or, List.mem_flatMap]
  exact mem_allOf (·.declA) cfg fs w h a

theorem declC_ok (cfg : Cfg) (fs : FS) (w : WS) (h : WInv cfg fs w) :
    isort (computeComms w) =
      isort (dedup (((members fs w.root).filterMap fs.get).flatMap fun c => c.cds.map (·.sym))) := by
  have hc : computeComms w = ((allCommDirs w).map (·.sym)).foldl addKey [] := by
    unfold computeComms; rw [List.foldl_map]
  obtain ⟨h1, h2⟩ := foldl_addKey ((allCommDirs w).map (·.sym)) [] (by simp)
  rw [hc]
  apply isort_ext _ _ h1 (dedup_nodup _)
  intro a
  rw [h2 a, mem_dedup]
  simp only [List.not_mem_nil, false_or, List.mem_flatMap, List.mem_map]
  constructor
  · rintro ⟨cd, hcd, rfl⟩
    obtain ⟨c, hc, hx⟩ := (mem_allOf (·.cds) cfg fs w h cd).mp hcd
    exact ⟨c, hc, cd, hx, rfl⟩
  · rintro ⟨c, hc, cd, hx, rfl⟩
    exact ⟨cd, (mem_allOf (·.cds) cfg fs w h cd).mpr ⟨c, hc, hx⟩, rfl⟩

/-- two workspaces satisfying the invariant for the same directory and root index the same
    files with the same file indexes -/
theorem files_get_eq (cfg : Cfg) (fs : FS) (w1 w2 : WS) (h1 : WInv cfg fs w1) (h2 : WInv cfg fs w2)
    (hr : w1.root = w2.root) (f : String) : w1.idx.files.get f = w2.idx.files.get f := by
  have key : ∀ (wa wb : WS), WInv cfg fs wa → WInv cfg fs wb → wa.root = wb.root →
      ∀ fi, wa.idx.files.get f = some fi → wb.idx.files.get f = some fi := by
    intro wa wb ha hb hab fi hfi
    have hm := (ha.closed f).mp (by rw [hfi]; rfl)
    rw [hab] at hm
    obtain ⟨fi', hfi'⟩ := Option.isSome_iff_exists.mp ((hb.closed f).mpr hm)
    obtain ⟨c, hc, e1⟩ := ha.pinv.g.fresh f fi hfi
    obtain ⟨c', hc', e2⟩ := hb.pinv.g.fresh f fi' hfi'
    rw [hc] at hc'
    simp only [Option.some.injEq] at hc'
    rw [hfi', e2, e1, hc']
  cases e : w1.idx.files.get f with
  | some fi => exact (key w1 w2 h1 h2 hr fi e).symm
  | none =>
    cases e2 : w2.idx.files.get f with
    | none => rfl
    | some fi =>
      have := key w2 w1 h2 h1 hr.symm fi e2
      rw [e] at this; simp at this

/-- repaired template code: the stored templates are a function of the directory and the root -/
theorem pts_get_eq (cfg : Cfg) (fs : FS) (w1 w2 : WS) (h1 : WInv cfg fs w1) (h2 : WInv cfg fs w2)
    (hr : w1.root = w2.root) (hfix : cfg.fixT = true) (p : String) :
    w1.idx.pts.get p = w2.idx.pts.get p := by
  rw [h1.pinv.g.idx.pts.exact hfix p, h2.pinv.g.idx.pts.exact hfix p]
  have hcongr : ∀ f fi, (w1.idx.files.get f = some fi ∧ (fi.c.pts.get p).isSome) ↔
      (w2.idx.files.get f = some fi ∧ (fi.c.pts.get p).isSome) := by
    intro f fi; rw [files_get_eq cfg fs w1 w2 h1 h2 hr f]
  cases e1 : ptRestoreVal w1.idx.files p with
  | some t =>
    exact ((ptRestoreVal_iff _ h2.pinv.g.idx.nodup p t).mpr
      ((isMinTemplate_congr _ _ p hcongr t).mp ((ptRestoreVal_iff _ h1.pinv.g.idx.nodup p t).mp e1))).symm
  | none =>
    cases e2 : ptRestoreVal w2.idx.files p with
    | none => rfl
    | some t =>
      have := (ptRestoreVal_iff _ h1.pinv.g.idx.nodup p t).mpr
        ((isMinTemplate_congr _ _ p hcongr t).mpr ((ptRestoreVal_iff _ h2.pinv.g.idx.nodup p t).mp e2))
      rw [e1] at this; simp at this

/-! ### all components but formats (and, for the pinned code, templates) -/

theorem view_ok (cfg : Cfg) (fs : FS) (w : WS) (h : WInv cfg fs w) :
    let r := rebuildAt cfg.limit w.root fs
    let v := (observe w).1
    membersOk r v = true ∧ countsOk r v = true ∧ namesOk r v = true ∧ txOk r v = true ∧
    declOk r v = true ∧ (cfg.fixT = true → ptOk r v = true) := by
  intro r v
  have hv : v = { members := isort w.idx.files.keys, idx := w.idx, formats := newF w,
                  comms := newC w, accts := newA w } := observe_fst w
  have hI := h.pinv.g.idx
  have hperm := contribs_perm cfg fs w h
  obtain ⟨a1, a2⟩ := counterOk_mapOk (·.ac) _ _ _ hperm hI.ac
  obtain ⟨b1, b2⟩ := counterOk_mapOk (·.pc) _ _ _ hperm hI.pc
  obtain ⟨c1, c2⟩ := counterOk_mapOk (·.cc) _ _ _ hperm hI.cc
  obtain ⟨d1, d2⟩ := counterOk_mapOk (·.tc) _ _ _ hperm hI.tc
  obtain ⟨_, e2⟩ := counterOk_mapOk dateCounts _ _ _ hperm hI.dc
  obtain ⟨t1, t2⟩ := tvOk_nested _ _ _ hperm hI.tvc
  obtain ⟨g1, g2, g3, g4, g5, g6⟩ := hI.derived
  rw [hv]
  refine ⟨?_, ?_, ?_, ?_, ?_, ?_⟩
  · simp only [membersOk, beq_iff_eq]
    exact members_eq cfg fs w h
  · simp only [countsOk, Bool.and_eq_true]
    exact ⟨⟨⟨⟨a1, b1⟩, c1⟩, d1⟩, t1⟩
  · simp only [namesOk, Bool.and_eq_true, beq_iff_eq]
    refine ⟨⟨⟨⟨⟨⟨?_, ?_⟩, ?_⟩, ?_⟩, ?_⟩, ?_⟩, ?_⟩
    · show w.idx.accounts.all = (counter (·.ac) _).keys
      rw [g1, buildAccountIndex, accountIndexOf_all, a2, counter_keys]
    · show listMapEqv w.idx.accounts.byPrefix (accountIndexOf (counter (·.ac) _).keys).byPrefix = true
      rw [g1, buildAccountIndex, a2, counter_keys]
      exact listMapEqv_of_ext _ _ (fun _ => rfl)
    · show w.idx.payees = (counter (·.pc) _).keys
      rw [g2, b2, counter_keys]
    · show w.idx.commodities = (counter (·.cc) _).keys
      rw [g3, c2, counter_keys]
    · show w.idx.tags = (counter (·.tc) _).keys
      rw [g4, d2, counter_keys]
    · show w.idx.dates = support dateCounts _
      rw [g6, e2]
    · show listMapEqv w.idx.tagValues _ = true
      apply listMapEqv_of_ext
      intro t
      rw [g5, get_buildTagValues _ hI.tvc.nodup, t2 t]
      show _ = AList.get (List.map (fun e => (e.1, e.2.keys))
        ((tvTags _).map fun t => (t, counter (tvFlat t) _))) t
      rw [List.map_map]
      show _ = AList.get ((tvTags _).map fun t => (t, (counter (tvFlat t) _).keys)) t
      rw [map_pair_get]
      by_cases ht : t ∈ tvTags ((members fs w.root).filterMap fs.get)
      · simp [ht, counter_keys]
      · simp [ht]
  · exact txOk_of _ _ _ (entries_perm cfg fs w h) hI.txs
  · simp only [declOk, Bool.and_eq_true, setOk]
    rw [newA_eq cfg fs w h, newC_eq cfg fs w h]
    simp only [beq_iff_eq]
    exact ⟨declA_ok cfg fs w h, declC_ok cfg fs w h⟩
  · intro hfix
    exact ptOk_of cfg.fixT _ _ _ hI.nodup hperm hI.pts hfix

end HL.Lemmas.View
