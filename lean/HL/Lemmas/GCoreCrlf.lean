import HL.Lemmas.LexGCoreP
import HL.Lemmas.LexCrlfFile
import HL.Lemmas.ParserShift
/-!
  `GCore` journals printed with CR LF line ends (`GCore.printC true`) and the tree they were
  written from (`GCore.expectedC true`):
    * `printC_true`      the text is `toCrlf (print j)`: the LF text with every LF made CR LF;
    * `print_noCR`       the LF text of a well-formed journal contains no carriage return;
    * `expectedC_true`   the tree is `crlfShift.journal (expected j)`: the LF tree with every
                         offset grown by the number of line ends in front of it;
    * `printC_false`, `expectedC_false`: with LF line ends both are the originals.
-/
namespace HL.Parser

/-- The position map of `HL.Lex.crShift` as a shift of the parser's positions: nothing inserted in
    front, one byte more for every line end that precedes the position. -/
def crlfShift : Shift := { dl := 0, doff := 0, perLine := 1 }

/-- what `crlfShift` does to a position: line and column stay, the offset grows by line − 1
    (positions with line 0 are the parser's "not set" placeholders and stay as they are) -/
theorem crlfShift_pos (p : Pos) : crlfShift.pos p = ⟨p.line, p.col, p.off + (p.line - 1)⟩ := by
  cases p with
  | mk l c o =>
    by_cases h : l = 0
    · subst h; rfl
    · simp [Shift.pos, crlfShift, h]

theorem crShift_eq_tok (x : Token) : HL.Lex.crShift x = crlfShift.tok x := by
  cases x with
  | mk ty v p e =>
    simp only [HL.Lex.crShift, HL.Lex.crLine, Shift.tok, crlfShift_pos]

end HL.Parser

namespace HL.GCore
open HL HL.Lex HL.Parser

local notation "LF" => (0x0A : UInt8)
local notation "CR" => (0x0D : UInt8)

/-! ### the bytes of a printed line -/

/-- neither CR nor LF -/
def plainB (c : UInt8) : Bool := c != 0x0A && c != 0x0D

theorem plain_classes : ∀ c : UInt8, (!(isDigit c || isLower c || isUpper c) || plainB c) = true :=
  forall_uint8 _ (by decide +kernel)

theorem plain_of_digit {c : UInt8} (h : isDigit c = true) : plainB c = true := by
  simpa [h] using plain_classes c
theorem plain_of_lower {c : UInt8} (h : isLower c = true) : plainB c = true := by
  simpa [h] using plain_classes c
theorem plain_of_upper {c : UInt8} (h : isUpper c = true) : plainB c = true := by
  simpa [h] using plain_classes c

theorem plain_joinWith {sep : UInt8} (hs : plainB sep = true) {ws : List Bytes}
    (h : ∀ w ∈ ws, ∀ c ∈ w, plainB c = true) : ∀ c ∈ joinWith sep ws, plainB c = true := by
  intro c hc
  rcases mem_joinWith hc with e | ⟨w, hw, hcw⟩
  · rw [e]; exact hs
  · exact h w hw c hcw

theorem Date.print_plain {d : Date} (h : d.wf = true) : ∀ c ∈ d.print, plainB c = true := by
  obtain ⟨_, _, _, _, _, hy, hm, hd⟩ := Date.wf_spec h
  intro c hc
  simp only [Date.print, List.mem_append, List.mem_cons] at hc
  rcases hc with (hc | hc | hc) | hc | hc
  · exact plain_of_digit (hy c hc)
  · rw [hc]; decide
  · exact plain_of_digit (hm c hc)
  · rw [hc]; decide
  · exact plain_of_digit (hd c hc)

theorem Tx.header_plain {t : Tx} (h : t.wf = true) : ∀ c ∈ t.header, plainB c = true := by
  obtain ⟨hd, _, hws, _⟩ := Tx.wf_spec h
  intro c hc
  simp only [Tx.header, List.mem_append, List.mem_cons] at hc
  rcases hc with hc | hc | hc
  · exact Date.print_plain hd c hc
  · rw [hc]; decide
  · refine plain_joinWith (by decide) ?_ c hc
    intro w hw x hx
    have := (word_spec (hws w hw)).2 x hx
    rw [isLowerB_eq] at this
    exact plain_of_lower this

theorem Amount.print_plain {a : Amount} (h : a.wf = true) : ∀ c ∈ a.print, plainB c = true := by
  obtain ⟨⟨_, hi⟩, hf, hw⟩ := Amount.wf_spec h
  intro c hc
  simp only [Amount.print, Amount.signText, Amount.numText, Amount.comText, List.mem_append] at hc
  rcases hc with (hc | hc | hc) | hc
  · split at hc
    · simp at hc; rw [hc]; decide
    · simp at hc
  · exact plain_of_digit (hi c hc)
  · cases hfr : a.frac with
    | none => simp [hfr] at hc
    | some f =>
      simp only [hfr, List.mem_cons] at hc
      rcases hc with hc | hc
      · rw [hc]; decide
      · exact plain_of_digit ((hf f hfr).2.1 c hc)
  · cases hcm : a.com with
    | none => simp [hcm] at hc
    | some w =>
      simp only [hcm, List.mem_cons] at hc
      rcases hc with hc | hc
      · rw [hc]; decide
      · exact plain_of_upper ((hw w hcm).2 c hc)

theorem Posting.print_plain {p : Posting} (h : p.wf = true) : ∀ c ∈ p.print, plainB c = true := by
  obtain ⟨_, hab, _, hamt⟩ := Posting.wf_spec h
  intro c hc
  simp only [Posting.print, List.mem_append, List.mem_cons, List.not_mem_nil, or_false] at hc
  rcases hc with (hc | hc) | hc
  · rcases hc with hc | hc | hc | hc <;> (rw [hc]; decide)
  · have := hab c hc
    have hf : ∀ x : UInt8, (!acctByte x || plainB x) = true := forall_uint8 _ (by decide +kernel)
    simpa [this] using hf c
  · cases ha : p.amount with
    | none => simp [Posting.amtText, ha] at hc
    | some a =>
      simp only [Posting.amtText, ha, List.mem_cons] at hc
      rcases hc with hc | hc | hc
      · rw [hc]; decide
      · rw [hc]; decide
      · exact Amount.print_plain (hamt a ha) c hc

theorem plain_spec {s : Bytes} (h : ∀ c ∈ s, plainB c = true) : LF ∉ s ∧ CR ∉ s := by
  constructor
  · intro m; exact absurd (h _ m) (by decide)
  · intro m; exact absurd (h _ m) (by decide)

/-! ### the text -/

theorem eolB_false : eolB false = [LF] := rfl
theorem eolB_true : eolB true = [CR, LF] := rfl

theorem printPostingsC_false (ps : List Posting) : printPostingsC false ps = printPostings ps := by
  induction ps with
  | nil => rfl
  | cons p ps ih => simp [printPostingsC, printPostings, eolB_false, ih]

theorem Tx.printC_false (t : Tx) : t.printC false = t.print := by
  simp [Tx.printC, Tx.print, eolB_false, printPostingsC_false]

theorem printC_false (j : Journal) : printC false j = print j := by
  induction j with
  | nil => rfl
  | cons t ts ih =>
    cases ts with
    | nil => simp [printC, print, Tx.printC_false]
    | cons t2 ts => simp only [printC, print, Tx.printC_false, eolB_false, ih]; simp

theorem toCrlf_line {a : Bytes} (ha : LF ∉ a) (b : Bytes) : toCrlf (a ++ LF :: b) = a ++ CR :: LF :: toCrlf b := by
  rw [toCrlf_append, toCrlf_noLF ha]; simp [toCrlf]

theorem printPostingsC_true (ps : List Posting) (h : ∀ p ∈ ps, p.wf = true) :
    printPostingsC true ps = toCrlf (printPostings ps) := by
  induction ps with
  | nil => rfl
  | cons p ps ih =>
    have hp := (plain_spec (Posting.print_plain (h p (by simp)))).1
    simp only [printPostingsC, printPostings, eolB_true]
    rw [toCrlf_line hp, ih (fun q hq => h q (by simp [hq]))]
    simp

theorem Tx.printC_true {t : Tx} (h : t.wf = true) : t.printC true = toCrlf t.print := by
  have hh := (plain_spec (Tx.header_plain h)).1
  simp only [Tx.printC, Tx.print, eolB_true]
  rw [toCrlf_line hh, printPostingsC_true _ (Tx.wf_spec h).2.2.2]
  simp

/-- **The CR LF text is the LF text with every LF made CR LF.** -/
theorem printC_true (j : Journal) (h : WF j = true) : printC true j = toCrlf (print j) := by
  induction j with
  | nil => rfl
  | cons t ts ih =>
    simp only [WF, List.all_cons, Bool.and_eq_true] at h
    cases ts with
    | nil => simp only [printC, print]; exact Tx.printC_true h.1
    | cons t2 ts =>
      simp only [printC, print, eolB_true]
      rw [toCrlf_append, ← Tx.printC_true h.1]
      have : toCrlf (LF :: print (t2 :: ts)) = CR :: LF :: toCrlf (print (t2 :: ts)) := by simp [toCrlf]
      rw [this, ih h.2]
      simp

theorem printPostings_noCR (ps : List Posting) (h : ∀ p ∈ ps, p.wf = true) : CR ∉ printPostings ps := by
  induction ps with
  | nil => simp [printPostings]
  | cons p ps ih =>
    intro m
    simp only [printPostings, List.mem_append, List.mem_cons] at m
    rcases m with m | m | m
    · exact (plain_spec (Posting.print_plain (h p (by simp)))).2 m
    · exact absurd m (by decide)
    · exact ih (fun q hq => h q (by simp [hq])) m

theorem Tx.print_noCR {t : Tx} (h : t.wf = true) : CR ∉ t.print := by
  intro m
  simp only [Tx.print, List.mem_append, List.mem_cons] at m
  rcases m with m | m | m
  · exact (plain_spec (Tx.header_plain h)).2 m
  · exact absurd m (by decide)
  · exact printPostings_noCR _ (Tx.wf_spec h).2.2.2 m

/-- the LF text of a well-formed journal contains no carriage return -/
theorem print_noCR (j : Journal) (h : WF j = true) : CR ∉ print j := by
  induction j with
  | nil => simp [print]
  | cons t ts ih =>
    simp only [WF, List.all_cons, Bool.and_eq_true] at h
    cases ts with
    | nil => simpa [print] using Tx.print_noCR h.1
    | cons t2 ts =>
      intro m
      simp only [print, List.mem_append, List.mem_cons] at m
      rcases m with m | m | m
      · exact Tx.print_noCR h.1 m
      · exact absurd m (by decide)
      · exact ih h.2 m

/-! ### the tree -/

theorem expectedPostingsC_false (ps : List Posting) :
    ∀ ln o, expectedPostingsC false ps ln o = expectedPostings ps ln o := by
  induction ps with
  | nil => intro _ _; rfl
  | cons p ps ih => intro ln o; simp [expectedPostingsC, expectedPostings, eolB_false, ih]

theorem Tx.expectedC_false (t : Tx) (ln o : Nat) : t.expectedC false ln o = t.expected ln o := by
  simp [Tx.expectedC, Tx.expected, expectedPostingsC_false, Tx.printC_false, eolB_false]

theorem expectedTxsC_false (ts : List Tx) : ∀ ln o, expectedTxsC false ts ln o = expectedTxs ts ln o := by
  induction ts with
  | nil => intro _ _; rfl
  | cons t ts ih =>
    intro ln o
    simp [expectedTxsC, expectedTxs, Tx.expectedC_false, Tx.printC_false, eolB_false, ih]

/-- with LF line ends the tree is the original ground truth -/
theorem expectedC_false (j : Journal) : expectedC false j = expected j := by
  simp [expectedC, expected, expectedTxsC_false]

/-- a position on a line ≥ 1 under `crlfShift` -/
theorem sh_pos (ln c o : Nat) : crlfShift.pos ⟨ln, c, o⟩ = ⟨ln, c, o + (ln - 1)⟩ := crlfShift_pos _

theorem sh_amount (a : Amount) (ln c o : Nat) :
    crlfShift.amount (a.expected ln c o) = a.expected ln c (o + (ln - 1)) := by
  cases hc : a.com with
  | none =>
    simp only [Amount.expected, hc, Shift.amount, Shift.commodity, Shift.rng, sh_pos, Shift.rng_zero]
    simp only [Ast.Amount.mk.injEq, Rng.mk.injEq, Pos.mk.injEq, true_and, and_true]
    repeat' constructor
    all_goals first | rfl | omega
  | some w =>
    simp only [Amount.expected, hc, Shift.amount, Shift.commodity, Shift.rng, sh_pos]
    simp only [Ast.Amount.mk.injEq, Ast.Commodity.mk.injEq, Rng.mk.injEq, Pos.mk.injEq, true_and, and_true]
    repeat' constructor
    all_goals first | rfl | omega

theorem sh_posting (p : Posting) (ln o : Nat) :
    crlfShift.posting (p.expected ln o) = p.expected ln (o + (ln - 1)) := by
  have hamt : ∀ c x, (p.amount.map fun am => am.expected ln c (o + x)).map crlfShift.amount =
      p.amount.map fun am => am.expected ln c (o + (ln - 1) + x) := by
    intro c x
    cases p.amount with
    | none => rfl
    | some a =>
      simp only [Option.map_some, sh_amount, Option.some.injEq]
      congr 1; omega
  have e : ∀ x, o + 4 + p.acct.length + x = o + (4 + p.acct.length + x) := by intro x; omega
  have e' : ∀ x, o + (ln - 1) + 4 + p.acct.length + x = o + (ln - 1) + (4 + p.acct.length + x) := by intro x; omega
  simp only [Posting.expected, Shift.posting, Shift.account, Shift.rng, sh_pos, Option.map_none, List.map_nil,
    e, e', hamt]
  simp only [Ast.Posting.mk.injEq, Ast.Account.mk.injEq, Rng.mk.injEq, Pos.mk.injEq, true_and, and_true]
  repeat' constructor
  all_goals first | rfl | omega

theorem sh_postings (ps : List Posting) : ∀ (ln o : Nat), 1 ≤ ln →
    (expectedPostings ps ln o).map crlfShift.posting = expectedPostingsC true ps ln (o + (ln - 1)) := by
  induction ps with
  | nil => intro _ _ _; rfl
  | cons p ps ih =>
    intro ln o h
    simp only [expectedPostings, expectedPostingsC, List.map_cons, sh_posting, eolB_true, List.length_cons,
      List.length_nil, ih (ln + 1) _ (by omega)]
    congr 2; omega

theorem printPostingsC_true_length (ps : List Posting) :
    (printPostingsC true ps).length = (printPostings ps).length + ps.length := by
  induction ps with
  | nil => rfl
  | cons p ps ih => simp [printPostingsC, printPostings, eolB_true, ih]; omega

theorem Tx.printC_true_length (t : Tx) : (t.printC true).length = t.print.length + 1 + t.postings.length := by
  simp [Tx.printC, Tx.print, eolB_true, printPostingsC_true_length]; omega

theorem sh_tx (t : Tx) (ln o : Nat) (h : 1 ≤ ln) :
    crlfShift.tx (t.expected ln o) = t.expectedC true ln (o + (ln - 1)) := by
  have hps : (expectedPostings t.postings (ln + 1) (o + t.header.length + 1)).map crlfShift.posting =
      expectedPostingsC true t.postings (ln + 1) (o + (ln - 1) + t.header.length + 2) := by
    rw [sh_postings t.postings (ln + 1) _ (by omega)]
    congr 1; omega
  simp only [Tx.expected, Tx.expectedC, Shift.tx, Shift.date, Shift.rng, sh_pos, Option.map_none, List.map_nil,
    hps, Tx.printC_true_length, eolB_true, List.length_cons, List.length_nil]
  simp only [Ast.Transaction.mk.injEq, Ast.Date.mk.injEq, Rng.mk.injEq, Pos.mk.injEq, true_and, and_true]
  repeat' constructor
  all_goals first | rfl | omega

theorem sh_txs (ts : List Tx) : ∀ (ln o : Nat), 1 ≤ ln →
    (expectedTxs ts ln o).map crlfShift.tx = expectedTxsC true ts ln (o + (ln - 1)) := by
  induction ts with
  | nil => intro _ _ _; rfl
  | cons t ts ih =>
    intro ln o h
    simp only [expectedTxs, expectedTxsC, List.map_cons, sh_tx t ln o h, eolB_true, List.length_cons,
      List.length_nil, ih _ _ (show 1 ≤ ln + t.postings.length + 2 by omega), Tx.printC_true_length]
    congr 2; omega

/-- **The CR LF tree is the LF tree with every offset moved by the line ends in front of it.** -/
theorem expectedC_true (j : Journal) : expectedC true j = crlfShift.journal (expected j) := by
  simp only [expectedC, expected, Shift.journal, List.map_nil]
  rw [sh_txs j 1 0 (Nat.le_refl _)]

end HL.GCore
