/-
  Helper lemmas for C18 (model `HL.Undeclared` against spec `HL.Spec.Undeclared`).
-/
import HL.Model.Undeclared
import HL.Spec.UndeclaredSpec
namespace HL.Lemmas.Undeclared
open HL HL.Ast HL.Undeclared
open HL.Spec.Undeclared

/-- How a spec warning appears as an analyzer diagnostic (code, severity Warning, message text). -/
def render (w : Warning) : Diag :=
  match w.kind with
  | .account => ⟨w.range, 1, accountMsg w.subject, .undeclaredAccount⟩
  | .commodity => ⟨w.range, 1, commodityMsg w.subject, .undeclaredCommodity⟩

/-- … and as a published protocol diagnostic. -/
def renderPub (w : Warning) : PubDiag := toPub (render w)

/-! ### Declarations -/

theorem collectAccounts_eq (j : Journal) : collectDeclaredAccounts j = declaredAccountsOf j := by
  unfold collectDeclaredAccounts declaredAccountsOf
  induction j.directives with
  | nil => rfl
  | cons d ds ih =>
    cases d <;> simp [List.flatMap_cons, ih]

theorem collectCommodities_eq (j : Journal) : collectDeclaredCommodities j = declaredCommoditiesOf j := by
  unfold collectDeclaredCommodities declaredCommoditiesOf
  induction j.directives with
  | nil => rfl
  | cons d ds ih =>
    cases d <;> simp [List.flatMap_cons, ih]

/-! ### Accounts -/

theorem takeWhile_colon (l : Bytes) : l.takeWhile (· != colon) = firstSegment l := by
  induction l with
  | nil => rfl
  | cons b r ih =>
    by_cases h : b = 58
    · subst h; simp [firstSegment, colon]
    · have : (b != colon) = true := by simpa [colon] using h
      simp [firstSegment, this, h, ih]

theorem predefined_eq : predefinedAccountTypes = categories := rfl

theorem isAccountDeclared_eq (lower : Bytes → Bytes) (name : Bytes) (D : List Bytes) :
    isAccountDeclared lower name D = accountCovered lower D name := by
  unfold isAccountDeclared accountCovered below
  simp only [takeWhile_colon, predefined_eq, List.contains_eq_mem]
  simp only [colon]
  by_cases h1 : firstSegment (lower name) ∈ categories <;> by_cases h2 : name ∈ D <;> simp [h1, h2]

theorem checkAccounts_eq (lower : Bytes → Bytes) (tx : Transaction) (D : List Bytes) (h : D ≠ []) :
    checkUndeclaredAccounts lower tx D = (accountWarnings lower D tx).map render := by
  unfold checkUndeclaredAccounts accountWarnings
  simp only [h, if_false, List.map_map, isAccountDeclared_eq]
  induction tx.postings with
  | nil => rfl
  | cons p ps ih =>
    simp only [List.filterMap_cons, List.filter_cons]
    by_cases hc : accountCovered lower D p.account.name = true
    · simp only [hc, Bool.not_true, Bool.false_eq_true, if_false]
      exact ih
    · have hc' : accountCovered lower D p.account.name = false := by simpa using hc
      simp only [hc', Bool.not_false, if_true, List.map_cons, ih]
      rfl

/-! ### Commodities -/

def renderUse (u : Use) : Diag := ⟨u.range, 1, commodityMsg u.symbol, .undeclaredCommodity⟩

/-- The closure `checkCommodity` applied to a use. -/
def stepUse (D : List Bytes) (st : ComState) (u : Use) : ComState :=
  checkCommodity D st u.symbol u.range

theorem checkCommodity_empty (D : List Bytes) (st : ComState) (r : Rng) :
    checkCommodity D st [] r = st := by
  simp [checkCommodity]

theorem amount_fold (D : List Bytes) (st : ComState) (a : Amount) :
    checkCommodity D st a.commodity.symbol a.commodity.range = (amountUse a).foldl (stepUse D) st := by
  unfold amountUse
  by_cases h : a.commodity.symbol = []
  · simp [h, checkCommodity_empty]
  · simp [h, stepUse]

theorem checkPosting_eq (D : List Bytes) (st : ComState) (p : Posting) :
    checkPosting D st p = (postingUses p).foldl (stepUse D) st := by
  unfold checkPosting postingUses
  simp only [List.foldl_append]
  cases p.amount <;> cases p.cost <;> cases p.assertion <;> simp [amount_fold]

theorem postings_fold (D : List Bytes) (ps : List Posting) (st : ComState) :
    ps.foldl (checkPosting D) st = (ps.flatMap postingUses).foldl (stepUse D) st := by
  induction ps generalizing st with
  | nil => rfl
  | cons p ps ih => simp [List.flatMap_cons, List.foldl_append, checkPosting_eq, ih]

theorem postingUses_nonempty (p : Posting) : ∀ u ∈ postingUses p, u.symbol ≠ [] := by
  intro u hu
  unfold postingUses at hu
  have key : ∀ a : Amount, u ∈ amountUse a → u.symbol ≠ [] := by
    intro a ha
    unfold amountUse at ha
    by_cases h : a.commodity.symbol = []
    · simp [h] at ha
    · simp [h] at ha; subst ha; exact h
  simp only [List.mem_append] at hu
  rcases hu with (hu | hu) | hu
  · cases hp : p.amount with
    | none => simp [hp] at hu
    | some a => simp only [hp] at hu; exact key a hu
  · cases hp : p.cost with
    | none => simp [hp] at hu
    | some a => simp only [hp] at hu; exact key a.amount hu
  · cases hp : p.assertion with
    | none => simp [hp] at hu
    | some a => simp only [hp] at hu; exact key a.amount hu

theorem uses_nonempty (tx : Transaction) : ∀ u ∈ uses tx, u.symbol ≠ [] := by
  intro u hu
  unfold uses at hu
  obtain ⟨p, _, hp⟩ := List.mem_flatMap.mp hu
  exact postingUses_nonempty p u hp

/-- The loop with its `seen` map, started in any state, against "first use of each symbol". -/
theorem fold_onceEach (D : List Bytes) (us : List Use) (hne : ∀ u ∈ us, u.symbol ≠ []) (st : ComState) :
    (us.foldl (stepUse D) st).diags =
      st.diags ++ ((onceEach (us.filter fun u => !decide (u.symbol ∈ D))).filter
        fun u => !decide (u.symbol ∈ st.seen)).map renderUse := by
  induction us generalizing st with
  | nil => simp [onceEach]
  | cons u us ih =>
    have hne' : ∀ v ∈ us, v.symbol ≠ [] := fun v hv => hne v (List.mem_cons_of_mem _ hv)
    have hu : u.symbol ≠ [] := hne u List.mem_cons_self
    simp only [List.foldl_cons]
    rw [ih hne']
    by_cases hD : u.symbol ∈ D
    · -- declared: no warning, state unchanged
      have : stepUse D st u = st := by simp [stepUse, checkCommodity, hD]
      simp [this, hD]
    · by_cases hS : u.symbol ∈ st.seen
      · -- already warned about in this transaction
        have : stepUse D st u = st := by simp [stepUse, checkCommodity, hS]
        rw [this]
        simp only [List.filter_cons, hD, decide_false, Bool.not_false, if_true, onceEach, hS,
          decide_true, Bool.not_true, Bool.false_eq_true, if_false, List.filter_filter]
        congr 2
        apply List.filter_congr
        intro v _
        by_cases hv : v.symbol ∈ st.seen
        · simp [hv]
        · have : v.symbol ≠ u.symbol := fun e => hv (e ▸ hS)
          simp [hv, this]
      · -- first undeclared use: one warning, symbol remembered
        have : stepUse D st u = ⟨u.symbol :: st.seen, st.diags ++ [renderUse u]⟩ := by
          simp [stepUse, checkCommodity, hD, hS, hu, renderUse]
        rw [this]
        simp only [List.filter_cons, hD, decide_false, Bool.not_false, if_true, onceEach, hS,
          List.filter_filter, List.map_cons, List.append_assoc, List.singleton_append]
        congr 2
        congr 1
        apply List.filter_congr
        intro v _
        by_cases hv : v.symbol = u.symbol
        · simp [hv]
        · simp [hv, List.mem_cons]

theorem checkCommodities_eq (tx : Transaction) (D : List Bytes) (h : D ≠ []) :
    checkUndeclaredCommodities tx D = (commodityWarnings D tx).map render := by
  unfold checkUndeclaredCommodities commodityWarnings
  have key := fold_onceEach D (uses tx) (uses_nonempty tx) ⟨[], []⟩
  unfold uses at key
  rw [postings_fold, key]
  unfold uses
  simp only [h, if_false, List.nil_append, List.not_mem_nil, decide_false, Bool.not_false,
    List.map_map]
  rw [List.filter_eq_self.mpr (fun _ _ => rfl)]
  rfl

/-! ### `onceEach` is "once each" -/

theorem mem_onceEach {l : List Use} {u : Use} (h : u ∈ onceEach l) : u ∈ l := by
  induction l with
  | nil => simp [onceEach] at h
  | cons v vs ih =>
    simp only [onceEach, List.mem_cons, List.mem_filter] at h
    rcases h with h | ⟨h, _⟩
    · exact h ▸ List.mem_cons_self
    · exact List.mem_cons_of_mem _ (ih h)

theorem onceEach_sublist (l : List Use) : (onceEach l).Sublist l := by
  induction l with
  | nil => simp [onceEach]
  | cons v vs ih =>
    simp only [onceEach]
    exact List.Sublist.cons_cons _ ((List.filter_sublist).trans ih)

theorem onceEach_symbols (l : List Use) (s : Bytes) :
    (∃ u ∈ onceEach l, u.symbol = s) ↔ (∃ u ∈ l, u.symbol = s) := by
  induction l with
  | nil => simp [onceEach]
  | cons v vs ih =>
    constructor
    · rintro ⟨u, hu, rfl⟩
      exact ⟨u, mem_onceEach hu, rfl⟩
    · rintro ⟨u, hu, rfl⟩
      by_cases hv : u.symbol = v.symbol
      · exact ⟨v, by simp [onceEach], hv.symm⟩
      · rcases List.mem_cons.mp hu with rfl | hu'
        · exact absurd rfl hv
        · obtain ⟨w, hw, hws⟩ := (ih.mpr ⟨u, hu', rfl⟩)
          refine ⟨w, ?_, hws⟩
          simp only [onceEach, List.mem_cons, List.mem_filter]
          right
          exact ⟨hw, by simpa [hws] using hv⟩

theorem onceEach_nodup (l : List Use) : ((onceEach l).map (·.symbol)).Nodup := by
  induction l with
  | nil => simp [onceEach]
  | cons v vs ih =>
    simp only [onceEach, List.map_cons, List.nodup_cons]
    constructor
    · intro h
      obtain ⟨w, hw, hws⟩ := List.mem_map.mp h
      have := (List.mem_filter.mp hw).2
      simp [hws] at this
    · exact (ih.sublist ((List.filter_sublist).map _))


/-! ### Membership congruence, file lookup, lower-casing helpers -/

theorem accountCovered_congr (lower : Bytes → Bytes) {D D' : List Bytes} (h : ∀ x, x ∈ D ↔ x ∈ D')
    (acc : Bytes) : accountCovered lower D acc = accountCovered lower D' acc := by
  unfold accountCovered
  have h1 : decide (acc ∈ D) = decide (acc ∈ D') := by simp [h acc]
  have h2 : D.any (below acc) = D'.any (below acc) := by
    rw [Bool.eq_iff_iff]
    simp only [List.any_eq_true]
    constructor
    · rintro ⟨d, hd, hb⟩; exact ⟨d, (h d).mp hd, hb⟩
    · rintro ⟨d, hd, hb⟩; exact ⟨d, (h d).mpr hd, hb⟩
  rw [h1, h2]

theorem nil_congr {D D' : List Bytes} (h : ∀ x, x ∈ D ↔ x ∈ D') : D = [] ↔ D' = [] := by
  constructor
  · intro e; subst e
    exact List.eq_nil_iff_forall_not_mem.mpr fun x hx => by simpa using (h x).mpr hx
  · intro e; subst e
    exact List.eq_nil_iff_forall_not_mem.mpr fun x hx => by simpa using (h x).mp hx

theorem fileAt_eq (files : List Journal) (cur : Nat) (t : List Nat) (w : Option (List Nat)) (i : Nat) :
    fileAt files i = Workspace.file ⟨files, cur, t, w⟩ i := rfl

theorem asciiLower_ne (b : UInt8) (hb : b ≠ 58) : asciiLower b ≠ 58 := by
  unfold asciiLower
  split
  · rename_i hh
    intro e
    have h1 : 65 ≤ b.toNat := by simpa using UInt8.le_iff_toNat_le.mp hh.1
    have h2 : b.toNat ≤ 90 := by simpa using UInt8.le_iff_toNat_le.mp hh.2
    have h3 := congrArg UInt8.toNat e
    simp [UInt8.toNat_add] at h3
    omega
  · exact hb

theorem firstSegment_cons {r t : Bytes} {x : UInt8} (h : firstSegment r = x :: t) :
    ∃ r', r = x :: r' ∧ firstSegment r' = t := by
  cases r with
  | nil => simp [firstSegment] at h
  | cons y ys =>
    by_cases hy : y = 58
    · simp [firstSegment, hy] at h
    · simp only [firstSegment, hy, if_false, List.cons.injEq] at h
      exact ⟨ys, by rw [h.1], h.2⟩

end HL.Lemmas.Undeclared
