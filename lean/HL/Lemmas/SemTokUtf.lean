/-
  Helper lemmas for C17, byte-string part: `utf8.DecodeRuneInString` as modelled in
  HL/Model/SemTok.lean (`decodeRune`, `chunks`), `strings.TrimSpace` / `leadingSpace`,
  `strings.Split`, and the UTF-16 column cursor `colAt`.
-/
import HL.Model.SemTok

namespace HL.Lemmas.SemTok
open HL HL.SemTok

/-! ### `decodeRune` -/

theorem decodeRune_width_pos (b : UInt8) (t : Bytes) : 1 ≤ (decodeRune (b :: t)).2 := by
  simp only [decodeRune]
  repeat' split
  all_goals simp

theorem decodeRune_width_le (b : UInt8) (t : Bytes) : (decodeRune (b :: t)).2 ≤ (b :: t).length := by
  simp only [decodeRune]
  repeat' split
  all_goals simp

/-! ### `chunks` -/

theorem unchunk_append (a b : List (Nat × Bytes)) : unchunk (a ++ b) = unchunk a ++ unchunk b := by
  simp [unchunk]

theorem unchunk_chunksF (f : Nat) (s : Bytes) (h : s.length ≤ f) : unchunk (chunksF f s) = s := by
  induction f generalizing s with
  | zero =>
    have : s = [] := by cases s with | nil => rfl | cons _ _ => simp at h
    subst this; simp [chunksF, unchunk]
  | succ f ih =>
    cases s with
    | nil => simp [chunksF, unchunk]
    | cons b t =>
      have hk1 := decodeRune_width_pos b t
      have hk2 := decodeRune_width_le b t
      have hl : ((b :: t).drop (decodeRune (b :: t)).2).length ≤ f := by
        simp only [List.length_drop, List.length_cons] at h hk2 ⊢; omega
      simp only [chunksF, unchunk, List.flatMap_cons]
      have := ih _ hl
      simp only [unchunk] at this
      rw [this, List.take_append_drop]

theorem unchunk_chunks (s : Bytes) : unchunk (chunks s) = s := unchunk_chunksF _ _ (Nat.le_refl _)

/-! ### `strings.TrimSpace`, `leadingSpace` -/

theorem reverse_dropWhile_decomp {α} (p : α → Bool) (x : List α) :
    x = (x.reverse.dropWhile p).reverse ++ (x.reverse.takeWhile p).reverse := by
  have h := List.takeWhile_append_dropWhile (p := p) (l := x.reverse)
  have h2 := congrArg List.reverse h
  simp only [List.reverse_append, List.reverse_reverse] at h2
  exact h2.symm

/-- A byte string is its leading white space, its trimmed middle and a rest. -/
theorem trim_decomp (s : Bytes) :
    ∃ post, s = s.take (leadWs s) ++ trimSpace s ++ post ∧ leadWs s ≤ s.length := by
  let p : Nat × Bytes → Bool := fun c => isSpaceRune c.1
  have h1 : s = unchunk ((chunks s).takeWhile p) ++ unchunk ((chunks s).dropWhile p) := by
    rw [← unchunk_append, List.takeWhile_append_dropWhile, unchunk_chunks]
  have h2 := reverse_dropWhile_decomp p ((chunks s).dropWhile p)
  refine ⟨unchunk ((((chunks s).dropWhile p).reverse.takeWhile p).reverse), ?_, ?_⟩
  · have hlw : leadWs s = (unchunk ((chunks s).takeWhile p)).length := rfl
    have htr : trimSpace s = unchunk ((((chunks s).dropWhile p).reverse.dropWhile p).reverse) := rfl
    have htake : s.take (leadWs s) = unchunk ((chunks s).takeWhile p) := by
      rw [hlw]
      conv => lhs; arg 2; rw [h1]
      simp
    rw [htake, htr, List.append_assoc, ← unchunk_append, ← h2]
    exact h1
  · have hlw : leadWs s = (unchunk ((chunks s).takeWhile p)).length := rfl
    rw [hlw]
    conv => rhs; rw [h1]
    simp

theorem leadWs_trim_le (s : Bytes) : leadWs s + (trimSpace s).length ≤ s.length := by
  obtain ⟨post, h, hl⟩ := trim_decomp s
  have := congrArg List.length h
  simp only [List.length_append, List.length_take, Nat.min_eq_left hl] at this
  omega

theorem drop_leadWs (s : Bytes) : ∃ post, s.drop (leadWs s) = trimSpace s ++ post := by
  obtain ⟨post, h, _⟩ := trim_decomp s
  have h0 := (List.take_append_drop (leadWs s) s).symm
  refine ⟨post, ?_⟩
  have : s.take (leadWs s) ++ s.drop (leadWs s) = s.take (leadWs s) ++ (trimSpace s ++ post) := by
    rw [← List.append_assoc, ← h, ← h0]
  exact List.append_cancel_left this

theorem drop_take_trim (s : Bytes) : (s.drop (leadWs s)).take (trimSpace s).length = trimSpace s := by
  obtain ⟨post, h1⟩ := drop_leadWs s
  rw [h1]; simp

/-! ### UTF-16 units never outnumber bytes -/

theorem u16w_le_two (r : Nat) : u16w r ≤ 2 := by unfold u16w; split <;> omega
theorem u16w_pos (r : Nat) : 1 ≤ u16w r := by unfold u16w; split <;> omega

theorem decodeRune_u16w_le (b0 : UInt8) (t : Bytes) :
    u16w (decodeRune (b0 :: t)).1 ≤ (decodeRune (b0 :: t)).2 := by
  simp only [decodeRune]
  repeat' split
  all_goals simp only [runeError, u16w]
  all_goals try (split <;> omega)
  all_goals simp_all [isCont, UInt8.le_iff_toNat_le, UInt8.lt_iff_toNat_lt, ← UInt8.toNat_inj]
  all_goals try (split <;> omega)

theorem colF_le (f : Nat) (s : Bytes) (pos col off : Nat) : colF f s pos col off ≤ col + s.length := by
  induction f generalizing s pos col with
  | zero => simp [colF]
  | succ f ih =>
    cases s with
    | nil => simp [colF]
    | cons b0 t =>
      simp only [colF]
      split
      · have h1 := decodeRune_u16w_le b0 t
        have h2 := decodeRune_width_le b0 t
        generalize hc : (if ((decodeRune (b0 :: t)).1 == 0x0A) = true then 0
          else col + u16w (decodeRune (b0 :: t)).1) = col'
        have hc' : col' ≤ col + u16w (decodeRune (b0 :: t)).1 := by
          rw [← hc]; split <;> omega
        have := ih ((b0 :: t).drop (decodeRune (b0 :: t)).2) (pos + (decodeRune (b0 :: t)).2) col'
        simp only [List.length_drop] at this
        omega
      · omega

theorem colAt_le (text : Bytes) (off : Nat) : colAt text off ≤ text.length := by
  have := colF_le text.length text 0 0 off
  simpa [colAt] using this

theorem u16sum_chunksF_le (f : Nat) (s : Bytes) : u16sum ((chunksF f s).map (·.1)) ≤ s.length := by
  induction f generalizing s with
  | zero => simp [chunksF, u16sum]
  | succ f ih =>
    cases s with
    | nil => simp [chunksF, u16sum]
    | cons b0 t =>
      have h1 := decodeRune_u16w_le b0 t
      have h2 := decodeRune_width_le b0 t
      have := ih ((b0 :: t).drop (decodeRune (b0 :: t)).2)
      simp only [List.length_drop] at this
      simp only [chunksF, List.map_cons, u16sum]
      omega

theorem u16lenB_le (s : Bytes) : u16lenB s ≤ s.length := u16sum_chunksF_le _ _

theorem u16lenB_cons_ascii (b : UInt8) (s : Bytes) (h : b < 0x80) : u16lenB (b :: s) = 1 + u16lenB s := by
  have hd : decodeRune (b :: s) = (b.toNat, 1) := by simp [decodeRune, h]
  have hb : b.toNat < 0x10000 := by have := UInt8.toNat_lt b; omega
  simp only [u16lenB, runes, chunks, List.length_cons, chunksF, hd, List.map_cons, u16sum,
    List.drop_succ_cons, List.drop_zero]
  simp only [u16w]
  rw [if_neg (by omega)]

/-! ### the UTF-16 column cursor -/

theorem decodeRune_lf (b0 : UInt8) (t : Bytes) (h : (decodeRune (b0 :: t)).1 = 0x0A) : b0 = 0x0A := by
  rw [← UInt8.toNat_inj]
  simp only [decodeRune] at h
  repeat' split at h
  all_goals simp only [runeError] at h
  all_goals try omega
  all_goals simp_all [isCont, UInt8.le_iff_toNat_le, UInt8.lt_iff_toNat_lt, ← UInt8.toNat_inj]
  all_goals try omega

def lfB : UInt8 := 0x0A

/-- Without a line feed between `pos` and `b` the cursor only counts up. -/
theorem colF_ge (f : Nat) (s : Bytes) (pos col b : Nat)
    (h : ∀ i, pos + i < b → s[i]? ≠ some lfB) : col ≤ colF f s pos col b := by
  induction f generalizing s pos col with
  | zero => simp [colF]
  | succ f ih =>
    cases s with
    | nil => simp [colF]
    | cons b0 t =>
      simp only [colF]
      split
      · rename_i hlt
        have h0 : b0 ≠ lfB := by
          have := h 0 (by simpa using hlt)
          simpa using this
        have hr : (decodeRune (b0 :: t)).1 ≠ 0x0A := fun e => h0 (decodeRune_lf b0 t e)
        have hr' : ((decodeRune (b0 :: t)).1 == 0x0A) = false := by simpa using hr
        simp only [hr', Bool.false_eq_true, if_false]
        refine Nat.le_trans (Nat.le_add_right _ _) (ih _ _ _ ?_)
        intro i hi
        rw [List.getElem?_drop]
        exact h _ (by omega)
      · exact Nat.le_refl _

/-- The cursor's column does not decrease along a line. -/
theorem colF_mono (f : Nat) (s : Bytes) (pos col a b : Nat) (hab : a ≤ b)
    (h : ∀ i, a ≤ pos + i → pos + i < b → s[i]? ≠ some lfB) :
    colF f s pos col a ≤ colF f s pos col b := by
  induction f generalizing s pos col with
  | zero => simp [colF]
  | succ f ih =>
    cases s with
    | nil => simp [colF]
    | cons b0 t =>
      by_cases hlt : pos < a
      · have hlt' : pos < b := by omega
        simp only [colF, hlt, hlt', if_true]
        apply ih
        intro i h1 h2
        rw [List.getElem?_drop]
        exact h _ (by omega) (by omega)
      · have e : colF (f + 1) (b0 :: t) pos col a = col := by simp [colF, hlt]
        rw [e]
        exact colF_ge _ _ _ _ _ (fun i hi => h i (by omega) hi)

/-- No line feed in `text[a:b)`, pointwise. -/
def NoLfP (text : Bytes) (a b : Nat) : Prop := ∀ i, a ≤ i → i < b → text[i]? ≠ some lfB

theorem colAt_mono (text : Bytes) (a b : Nat) (hab : a ≤ b) (h : NoLfP text a b) :
    colAt text a ≤ colAt text b :=
  colF_mono _ _ _ _ _ _ hab (fun i h1 h2 => h i (by simpa using h1) (by simpa using h2))

theorem noLfP_of_slice (text : Bytes) (a b : Nat) (h : lfB ∉ sliceB text a b) : NoLfP text a b := by
  intro i h1 h2 e
  apply h
  have : (sliceB text a b)[i - a]? = some lfB := by
    simp only [sliceB, List.getElem?_take, List.getElem?_drop]
    have : i - a < b - a := by omega
    simp [this, show a + (i - a) = i by omega, e]
  exact List.mem_of_getElem? this

theorem noLfP_sub {text : Bytes} {a b a' b' : Nat} (h : NoLfP text a b) (h1 : a ≤ a') (h2 : b' ≤ b) :
    NoLfP text a' b' := fun i hi hj => h i (by omega) (by omega)

theorem noLfP_append {text : Bytes} {a b c : Nat} (h1 : NoLfP text a b) (h2 : NoLfP text b c) :
    NoLfP text a c := fun i hi hj => by
  by_cases hb : i < b
  · exact h1 i hi hb
  · exact h2 i (by omega) hj

/-! ### `content[a:b]` -/

theorem sliceB_length (text : Bytes) (a b : Nat) (h : b ≤ text.length) :
    (sliceB text a b).length = b - a := by
  simp only [sliceB, List.length_take, List.length_drop]; omega

theorem sliceB_sub (text : Bytes) (a b k m : Nat) (h : k + m ≤ b - a) :
    sliceB text (a + k) (a + k + m) = ((sliceB text a b).drop k).take m := by
  simp only [sliceB, List.drop_take, List.drop_drop, List.take_take]
  have e1 : a + k + m - (a + k) = m := by omega
  have e2 : min m (b - a - k) = m := by omega
  rw [e1, e2]

/-! ### `strings.Split` -/

/-- `strings.Join(parts, string(sep))`. -/
def joinParts (sep : UInt8) : List Bytes → Bytes
  | [] => []
  | [p] => p
  | p :: q :: r => p ++ sep :: joinParts sep (q :: r)

theorem joinParts_cons_cons (sep b : UInt8) (p : Bytes) (ps : List Bytes) :
    joinParts sep ((b :: p) :: ps) = b :: joinParts sep (p :: ps) := by
  cases ps <;> simp [joinParts]

def partsLen : List Bytes → Nat
  | [] => 0
  | p :: ps => p.length + 1 + partsLen ps

theorem splitOn_ne_nil (sep : UInt8) (s : Bytes) : splitOn sep s ≠ [] := by
  induction s with
  | nil => simp [splitOn]
  | cons b bs ih =>
    simp only [splitOn]
    split
    · simp
    · split <;> simp

theorem splitOn_join (sep : UInt8) (s : Bytes) : joinParts sep (splitOn sep s) = s := by
  induction s with
  | nil => simp [splitOn, joinParts]
  | cons b bs ih =>
    simp only [splitOn]
    split
    · rename_i hb
      cases hs : splitOn sep bs with
      | nil => exact absurd hs (splitOn_ne_nil sep bs)
      | cons q r => rw [hs] at ih; simp [joinParts, ih, hb]
    · split
      · rename_i p ps hp
        rw [hp] at ih
        rw [joinParts_cons_cons, ih]
      · rename_i hp
        exact absurd hp (splitOn_ne_nil sep bs)

theorem splitOn_partsLen (sep : UInt8) (s : Bytes) : partsLen (splitOn sep s) = s.length + 1 := by
  induction s with
  | nil => simp [splitOn, partsLen]
  | cons b bs ih =>
    simp only [splitOn]
    split
    · simp [partsLen, ih]; omega
    · split
      · rename_i p ps hp
        rw [hp] at ih
        simp only [partsLen, List.length_cons] at ih ⊢
        omega
      · rename_i hp
        exact absurd hp (splitOn_ne_nil sep bs)

end HL.Lemmas.SemTok
