import HL.Lemmas.ParserErrPre
/-
  The default year is changed by `parseYearDirective` only, which runs only when the journal
  loop stands on a Directive token: every other parse function leaves it as it is.
-/
namespace HL.Parser
open HL HL.Ast

variable {σ : Type} (E : Env σ)

@[simp, grind =] theorem advance_dy (st : PState σ) : (advance E st).defaultYear = st.defaultYear := rfl
@[simp, grind =] theorem errorAt_dy (st : PState σ) (p m) : (errorAt st p m).defaultYear = st.defaultYear := rfl
@[simp, grind =] theorem error_dy (st : PState σ) (m) : (error st m).defaultYear = st.defaultYear := rfl
@[grind =] theorem parseComment_dy (st : PState σ) : (parseComment E st).2.defaultYear = st.defaultYear := rfl

@[grind =] theorem skipLoopF_dy (n : Nat) (st : PState σ) : (skipLoopF E n st).defaultYear = st.defaultYear := by
  induction n generalizing st with
  | zero => rfl
  | succ n ih => unfold skipLoopF; grind

@[grind =] theorem skipToNextLine_dy (st : PState σ) : (skipToNextLine E st).defaultYear = st.defaultYear := by
  unfold skipToNextLine; grind

@[grind =] theorem skipUntilF_dy (b : Bool) (n : Nat) (st : PState σ) :
    (skipUntilF E b n st).defaultYear = st.defaultYear := by
  induction n generalizing st with
  | zero => rfl
  | succ n ih => unfold skipUntilF; grind

@[grind =] theorem subValueF_dy (n : Nat) (st : PState σ) (acc : Bytes) :
    (subValueF E n st acc).2.defaultYear = st.defaultYear := by
  induction n generalizing st acc with
  | zero => rfl
  | succ n ih => unfold subValueF; grind

@[grind =] theorem includePathF_dy (n : Nat) (st : PState σ) (acc : Bytes) :
    (includePathF E n st acc).2.defaultYear = st.defaultYear := by
  induction n generalizing st acc with
  | zero => rfl
  | succ n ih => unfold includePathF; grind

@[grind =] theorem parseDate_dy (st : PState σ) : (parseDate E st).2.defaultYear = st.defaultYear := by
  fun_cases parseDate E st <;> (try simp +zetaDelta only [] at *) <;> (first | grind | (simp_all; done) | (simp_all; grind))

@[grind =] theorem parseStatus_dy (st : PState σ) : (parseStatus E st).2.defaultYear = st.defaultYear := by
  fun_cases parseStatus E st <;> (try simp +zetaDelta only [] at *) <;> (first | grind | (simp_all; done) | (simp_all; grind))

@[grind =] theorem amountLeadSign_dy (st : PState σ) : (amountLeadSign E st).2.defaultYear = st.defaultYear := by
  fun_cases amountLeadSign E st <;> (try simp +zetaDelta only [] at *) <;> (first | grind | (simp_all; done) | (simp_all; grind))

@[grind =] theorem amountLeftCommodity_dy (sg : Bytes) (sb : Bool) (st : PState σ) : (amountLeftCommodity E sg sb st).2.defaultYear = st.defaultYear := by
  fun_cases amountLeftCommodity E sg sb st <;> (try simp +zetaDelta only [] at *) <;> (first | grind | (simp_all; done) | (simp_all; grind))

@[grind =] theorem amountSecondSign_dy (sg : Bytes) (st : PState σ) : (amountSecondSign E sg st).2.defaultYear = st.defaultYear := by
  fun_cases amountSecondSign E sg st <;> (try simp +zetaDelta only [] at *) <;> (first | grind | (simp_all; done) | (simp_all; grind))

@[grind =] theorem amountRightCommodity_dy (c : Commodity) (stop : Pos) (st : PState σ) : (amountRightCommodity E c stop st).2.defaultYear = st.defaultYear := by
  fun_cases amountRightCommodity E c stop st <;> (try simp +zetaDelta only [] at *) <;> (first | grind | (simp_all; done) | (simp_all; grind))

@[grind =] theorem amountNumber_dy (sp : Pos) (sg : Bytes) (c : Commodity) (sb : Bool) (st : PState σ) : (amountNumber E sp sg c sb st).2.defaultYear = st.defaultYear := by
  fun_cases amountNumber E sp sg c sb st <;> (try simp +zetaDelta only [] at *) <;> (first | grind | (simp_all; done) | (simp_all; grind))

@[grind =] theorem parseAmount_dy (st : PState σ) : (parseAmount E st).2.defaultYear = st.defaultYear := by
  fun_cases parseAmount E st <;> (try simp +zetaDelta only [] at *) <;> (first | grind | (simp_all; done) | (simp_all; grind))

@[grind =] theorem parseCost_dy (st : PState σ) : (parseCost E st).2.defaultYear = st.defaultYear := by
  fun_cases parseCost E st <;> (try simp +zetaDelta only [] at *) <;> (first | grind | (simp_all; done) | (simp_all; grind))

@[grind =] theorem parseBalanceAssertion_dy (st : PState σ) : (parseBalanceAssertion E st).2.defaultYear = st.defaultYear := by
  fun_cases parseBalanceAssertion E st <;> (try simp +zetaDelta only [] at *) <;> (first | grind | (simp_all; done) | (simp_all; grind))

@[grind =] theorem postingOpen_dy (st : PState σ) : (postingOpen E st).2.defaultYear = st.defaultYear := by
  fun_cases postingOpen E st <;> (try simp +zetaDelta only [] at *) <;> (first | grind | (simp_all; done) | (simp_all; grind))

@[grind =] theorem lineComment_dy (st : PState σ) : (lineComment E st).2.defaultYear = st.defaultYear := by
  fun_cases lineComment E st <;> (try simp +zetaDelta only [] at *) <;> (first | grind | (simp_all; done) | (simp_all; grind))

@[grind =] theorem postingClosing_dy (cl : Option TokType) (st : PState σ) :
    (postingClosing E cl st).defaultYear = st.defaultYear := by
  unfold postingClosing; grind

@[grind =] theorem postingAmount_dy (st : PState σ) : (postingAmount E st).2.defaultYear = st.defaultYear := by
  fun_cases postingAmount E st <;> (try simp +zetaDelta only [] at *) <;> (first | grind | (simp_all; done) | (simp_all; grind))

@[grind =] theorem postingCost_dy (st : PState σ) : (postingCost E st).2.defaultYear = st.defaultYear := by
  fun_cases postingCost E st <;> (try simp +zetaDelta only [] at *) <;> (first | grind | (simp_all; done) | (simp_all; grind))

@[grind =] theorem postingAssertion_dy (st : PState σ) : (postingAssertion E st).2.defaultYear = st.defaultYear := by
  fun_cases postingAssertion E st <;> (try simp +zetaDelta only [] at *) <;> (first | grind | (simp_all; done) | (simp_all; grind))

@[grind =] theorem postingTail_dy (cl : Option TokType) (st : PState σ) : (postingTail E cl st).2.defaultYear = st.defaultYear := by
  fun_cases postingTail E cl st <;> (try simp +zetaDelta only [] at *) <;> (first | grind | (simp_all; done) | (simp_all; grind))

@[grind =] theorem parsePosting_dy (st : PState σ) : (parsePosting E st).2.defaultYear = st.defaultYear := by
  fun_cases parsePosting E st <;> (try simp +zetaDelta only [] at *) <;> (first | grind | (simp_all; done) | (simp_all; grind))

@[grind =] theorem postingsF_dy (n : Nat) (st : PState σ) : (postingsF E n st).2.defaultYear = st.defaultYear := by
  induction n generalizing st with
  | zero => rfl
  | succ n ih => unfold postingsF; grind

@[grind =] theorem txDescription_dy (st : PState σ) : (txDescription E st).2.defaultYear = st.defaultYear := by
  fun_cases txDescription E st <;> (try simp +zetaDelta only [] at *) <;> (first | grind | (simp_all; done) | (simp_all; grind))

@[grind =] theorem txDate2_dy (st : PState σ) : (txDate2 E st).2.defaultYear = st.defaultYear := by
  fun_cases txDate2 E st <;> (try simp +zetaDelta only [] at *) <;> (first | grind | (simp_all; done) | (simp_all; grind))

@[grind =] theorem txStatus_dy (st : PState σ) : (txStatus E st).2.defaultYear = st.defaultYear := by
  fun_cases txStatus E st <;> (try simp +zetaDelta only [] at *) <;> (first | grind | (simp_all; done) | (simp_all; grind))

@[grind =] theorem txCode_dy (st : PState σ) : (txCode E st).2.defaultYear = st.defaultYear := by
  fun_cases txCode E st <;> (try simp +zetaDelta only [] at *) <;> (first | grind | (simp_all; done) | (simp_all; grind))

@[grind =] theorem txComment_dy (st : PState σ) : (txComment E st).2.defaultYear = st.defaultYear := by
  fun_cases txComment E st <;> (try simp +zetaDelta only [] at *) <;> (first | grind | (simp_all; done) | (simp_all; grind))

@[grind =] theorem txHeader_dy (st : PState σ) : (txHeader E st).2.defaultYear = st.defaultYear := by
  unfold txHeader
  simp only []
  split <;> simp [advance_dy, txComment_dy, txDescription_dy, txCode_dy, txStatus_dy, txDate2_dy]

@[grind =] theorem parseTransaction_dy (st : PState σ) : (parseTransaction E st).2.defaultYear = st.defaultYear := by
  fun_cases parseTransaction E st <;> (try simp +zetaDelta only [] at *) <;> (first | grind | (simp_all; done) | (simp_all; grind))

@[grind =] theorem parseSubdirectivesF_dy (n : Nat) (st : PState σ) (m : Subdirs) :
    (parseSubdirectivesF E n st m).2.defaultYear = st.defaultYear := by
  induction n generalizing st m with
  | zero => rfl
  | succ n ih => unfold parseSubdirectivesF; grind

@[grind =] theorem parseSubdirectives_dy (st : PState σ) : (parseSubdirectives E st).2.defaultYear = st.defaultYear := by
  unfold parseSubdirectives; grind

@[grind =] theorem commodityInline_dy (st : PState σ) : (commodityInline E st).2.defaultYear = st.defaultYear := by
  fun_cases commodityInline E st <;> (try simp +zetaDelta only [] at *) <;> (first | grind | (simp_all; done) | (simp_all; grind))

@[grind =] theorem accountNameRest_dy (nm : Bytes) (st : PState σ) : (accountNameRest E nm st).2.defaultYear = st.defaultYear := by
  fun_cases accountNameRest E nm st <;> (try simp +zetaDelta only [] at *) <;> (first | grind | (simp_all; done) | (simp_all; grind))

@[grind =] theorem parseAccountDirective_dy (sp : Pos) (st : PState σ) : (parseAccountDirective E sp st).2.defaultYear = st.defaultYear := by
  fun_cases parseAccountDirective E sp st <;> (try simp +zetaDelta only [] at *) <;> (first | grind | (simp_all; done) | (simp_all; grind))

@[grind =] theorem parseCommodityDirective_dy (sp : Pos) (st : PState σ) : (parseCommodityDirective E sp st).2.defaultYear = st.defaultYear := by
  fun_cases parseCommodityDirective E sp st <;> (try simp +zetaDelta only [] at *) <;> (first | grind | (simp_all; done) | (simp_all; grind))

@[grind =] theorem parseIncludeDirective_dy (sp : Pos) (st : PState σ) : (parseIncludeDirective E sp st).2.defaultYear = st.defaultYear := by
  fun_cases parseIncludeDirective E sp st <;> (try simp +zetaDelta only [] at *) <;> (first | grind | (simp_all; done) | (simp_all; grind))

@[grind =] theorem parsePriceDirective_dy (sp : Pos) (st : PState σ) : (parsePriceDirective E sp st).2.defaultYear = st.defaultYear := by
  fun_cases parsePriceDirective E sp st <;> (try simp +zetaDelta only [] at *) <;> (first | grind | (simp_all; done) | (simp_all; grind))

@[grind =] theorem parseDefaultCommodityDirective_dy (sp : Pos) (st : PState σ) : (parseDefaultCommodityDirective E sp st).2.defaultYear = st.defaultYear := by
  fun_cases parseDefaultCommodityDirective E sp st <;> (try simp +zetaDelta only [] at *) <;> (first | grind | (simp_all; done) | (simp_all; grind))

/-- An iteration of the journal loop that does not start on a Directive token leaves the
    default year alone. -/
theorem journalStep_dy (st : PState σ) (h : st.current.ty ≠ .directive) :
    (journalStep E st).2.defaultYear = st.defaultYear := by
  unfold journalStep
  grind

end HL.Parser
