import HL.Lemmas.ParserReach
/-
  Progress and fuel: for every token source whose bound `rem` strictly decreases on every
  non-EOF token (`Decr`), every parser loop consumes at least one token per iteration and
  therefore never reaches its fuel-exhausted case with work left: each `…F n` agrees with the
  run on any other fuel `m` as soon as both are at least `measure st` (`…_fuel`).
-/
namespace HL.Parser
open HL HL.Ast

variable {σ : Type} (E : Env σ)

section
variable (hd : Decr E)
include hd

/-! ### the measure never increases -/

theorem advance_lt (st : PState σ) (h : st.current.ty ≠ .eof) : measure E (advance E st) < measure E st :=
  measure_advance_lt E hd st h

theorem L_le {a b : PState σ} (h : ∀ {x : PState σ}, ReachL E x a → ReachL E x b) : measure E b ≤ measure E a :=
  (h (ReachL.refl E a)).measure_le E hd

theorem RC_le {a b : PState σ} {tl} (h : RC E a tl b) : measure E b ≤ measure E a := (RC.any E h).measure_le E hd

theorem parseDate_le (st : PState σ) : measure E (parseDate E st).2 ≤ measure E st := L_le E hd (parseDate_reachL E)
theorem parseStatus_le (st : PState σ) : measure E (parseStatus E st).2 ≤ measure E st := L_le E hd (parseStatus_reachL E)
theorem parseAmount_le (st : PState σ) : measure E (parseAmount E st).2 ≤ measure E st := L_le E hd (parseAmount_reachL E)
theorem parseCost_le (st : PState σ) (h : st.current.ty = .at ∨ st.current.ty = .atAt) :
    measure E (parseCost E st).2 ≤ measure E st := L_le E hd (fun hx => parseCost_reachL E hx h)
theorem parseBalanceAssertion_le (st : PState σ) (h : st.current.ty = .equals ∨ st.current.ty = .doubleEquals) :
    measure E (parseBalanceAssertion E st).2 ≤ measure E st := L_le E hd (fun hx => parseBalanceAssertion_reachL E hx h)
theorem postingOpen_le (st : PState σ) : measure E (postingOpen E st).2 ≤ measure E st := L_le E hd (postingOpen_reachL E)
theorem postingTail_le {cl} (hc : ClosingOk cl) (st : PState σ) : measure E (postingTail E cl st).2 ≤ measure E st :=
  L_le E hd (postingTail_reachL E hc)
theorem txDescription_le (st : PState σ) : measure E (txDescription E st).2 ≤ measure E st := L_le E hd (txDescription_reachL E)
theorem skipLoopF_le (n) (st : PState σ) : measure E (skipLoopF E n st) ≤ measure E st := L_le E hd (skipLoopF_reachL E n)
theorem skipUntilF_le (b n) (st : PState σ) : measure E (skipUntilF E b n st) ≤ measure E st := L_le E hd (skipUntilF_reachL E b n)
theorem subValueF_le (n acc) (st : PState σ) : measure E (subValueF E n st acc).2 ≤ measure E st := L_le E hd (subValueF_reachL E n acc)
theorem includePathF_le (n acc) (st : PState σ) : measure E (includePathF E n st acc).2 ≤ measure E st := L_le E hd (includePathF_reachL E n acc)
theorem skipToNextLine_le (st : PState σ) : measure E (skipToNextLine E st) ≤ measure E st :=
  RC_le E hd (skipToNextLine_RC E (RC.refl E st))
theorem txHeader_le (st : PState σ) : measure E (txHeader E st).2 ≤ measure E st := RC_le E hd (txHeader_RC E (RC.refl E st))
theorem postingsF_le (n) (st : PState σ) : measure E (postingsF E n st).2 ≤ measure E st :=
  RC_le E hd (postingsF_RC E n (RC.refl E st) (by omega))
theorem parseSubdirectives_le (st : PState σ) : measure E (parseSubdirectives E st).2 ≤ measure E st :=
  RC_le E hd (parseSubdirectives_RC E (RC.refl E st))
theorem parseAccountDirective_le (p) (st : PState σ) : measure E (parseAccountDirective E p st).2 ≤ measure E st :=
  RC_le E hd (parseAccountDirective_RC E p (RC.refl E st))
theorem parseCommodityDirective_le (p) (st : PState σ) : measure E (parseCommodityDirective E p st).2 ≤ measure E st :=
  RC_le E hd (parseCommodityDirective_RC E p (RC.refl E st))
theorem parseIncludeDirective_le (p) (st : PState σ) : measure E (parseIncludeDirective E p st).2 ≤ measure E st :=
  RC_le E hd (parseIncludeDirective_RC E p (RC.refl E st))
theorem parsePriceDirective_le (p) (st : PState σ) : measure E (parsePriceDirective E p st).2 ≤ measure E st :=
  RC_le E hd (parsePriceDirective_RC E p (RC.refl E st))
theorem parseDefaultCommodityDirective_le (p) (st : PState σ) :
    measure E (parseDefaultCommodityDirective E p st).2 ≤ measure E st :=
  RC_le E hd (parseDefaultCommodityDirective_RC E p (RC.refl E st))
theorem parseYearDirective_le (p) (st : PState σ) : measure E (parseYearDirective E p st).2 ≤ measure E st :=
  RC_le E hd (parseYearDirective_RC E p (RC.refl E st))
theorem journalStep_le (st : PState σ) : measure E (journalStep E st).2 ≤ measure E st :=
  RC_le E hd (journalStep_RC E st)

/-! ### strict decrease: every loop body consumes a token -/

theorem parseComment_lt (st : PState σ) (h : st.current.ty ≠ .eof) :
    measure E (parseComment E st).2 < measure E st := advance_lt E hd st h

theorem parsePosting_lt (st : PState σ) (h : st.current.ty = .indent) :
    measure E (parsePosting E st).2 < measure E st := by
  have h1 := advance_lt E hd st (by simp [h])
  have h2 := RC_le E hd (parsePosting_RC' E (RC.refl E (advance E st)) h)
  omega

theorem parseDirective_lt (st : PState σ) (h : st.current.ty ≠ .eof) :
    measure E (parseDirective E st).2 < measure E st := by
  have h1 := advance_lt E hd st h
  have h2 := RC_le E hd (parseDirective_RC' E (RC.refl E (advance E st)))
  omega

theorem parseDate_lt (st : PState σ) (h : st.current.ty = .date) :
    measure E (parseDate E st).2 < measure E st := by
  have h1 := advance_lt E hd st (by simp [h])
  unfold parseDate
  grind [measure_errorAt]

theorem parseTransaction_lt (st : PState σ) (h : st.current.ty = .date) :
    measure E (parseTransaction E st).2 < measure E st := by
  have h1 := parseDate_lt E hd st h
  unfold parseTransaction
  split
  · rename_i st1 heq
    rw [heq] at h1
    have := skipToNextLine_le E hd st1
    simp only at *; omega
  · rename_i d st1 heq
    rw [heq] at h1
    have h2 := txHeader_le E hd st1
    have h3 := postingsF_le E hd (fuelOf E (txHeader E st1).2) (txHeader E st1).2
    simp only at *; omega

theorem skipLoopF_succ_lt (n) (st : PState σ) (h : ¬ isLineEnd st.current = true) :
    measure E (skipLoopF E (n+1) st) < measure E st := by
  have h1 := advance_lt E hd st (isLineEnd_false h).2
  have h2 := skipLoopF_le E hd n (advance E st)
  unfold skipLoopF
  simp only [h]
  simp only [Bool.false_eq_true, if_false]
  omega

theorem skipToNextLine_lt (st : PState σ) (h : st.current.ty ≠ .eof) :
    measure E (skipToNextLine E st) < measure E st := by
  unfold skipToNextLine
  by_cases hl : isLineEnd st.current = true
  · have hnl : st.current.ty = .newline := by
      unfold isLineEnd at hl; simp at hl; rcases hl with h1 | h1
      · exact h1
      · exact absurd h1 h
    have : skipLoopF E (fuelOf E st) st = st := by
      unfold fuelOf skipLoopF; simp [hl]
    simp only [this, hnl, if_true]
    exact advance_lt E hd st h
  · have h1 : measure E (skipLoopF E (fuelOf E st) st) < measure E st := skipLoopF_succ_lt E hd _ st hl
    simp only
    split
    · rename_i h2
      have := advance_lt E hd (skipLoopF E (fuelOf E st) st) (by simp [h2])
      omega
    · exact h1

theorem journalStep_lt (st : PState σ) (h : st.current.ty ≠ .eof) :
    measure E (journalStep E st).2 < measure E st := by
  unfold journalStep
  split
  · exact advance_lt E hd st h
  · split
    · exact parseComment_lt E hd st h
    · split
      · rename_i hdt
        have := parseTransaction_lt E hd st hdt
        split <;> (rename_i heq; rw [heq] at this; exact this)
      · split
        · have := parseDirective_lt E hd st h
          split <;> (rename_i heq; rw [heq] at this; exact this)
        · exact skipToNextLine_lt E hd (error st _) h

/-! ### fuel never runs out -/

omit hd in
theorem eof_of_measure_le_zero {st : PState σ} (h : measure E st ≤ 0) : st.current.ty = .eof :=
  (measure_zero_iff E st).1 (by omega)

omit hd in
theorem isLineEnd_of_eof {t : Token} (h : t.ty = .eof) : isLineEnd t = true := by
  unfold isLineEnd; simp [h]

theorem skipLoopF_fuel (n m : Nat) (st : PState σ) (hn : measure E st ≤ n) (hm : measure E st ≤ m) :
    skipLoopF E n st = skipLoopF E m st := by
  induction n generalizing m st with
  | zero =>
    have he := isLineEnd_of_eof (eof_of_measure_le_zero E hn)
    cases m <;> simp [skipLoopF, he]
  | succ n ih =>
    cases m with
    | zero =>
      have he := isLineEnd_of_eof (eof_of_measure_le_zero E hm)
      simp [skipLoopF, he]
    | succ m =>
      unfold skipLoopF
      split
      · rfl
      · rename_i h
        have := advance_lt E hd st (isLineEnd_false h).2
        exact ih m _ (by omega) (by omega)

theorem skipUntilF_fuel (b : Bool) (n m : Nat) (st : PState σ) (hn : measure E st ≤ n) (hm : measure E st ≤ m) :
    skipUntilF E b n st = skipUntilF E b m st := by
  induction n generalizing m st with
  | zero =>
    have he := isLineEnd_of_eof (eof_of_measure_le_zero E hn)
    cases m <;> simp [skipUntilF, he]
  | succ n ih =>
    cases m with
    | zero =>
      have he := isLineEnd_of_eof (eof_of_measure_le_zero E hm)
      simp [skipUntilF, he]
    | succ m =>
      unfold skipUntilF
      split
      · rfl
      · rename_i h
        have := advance_lt E hd st (isLineEnd_false (t := st.current) (by grind)).2
        exact ih m _ (by omega) (by omega)

theorem subValueF_fuel (n m : Nat) (st : PState σ) (acc) (hn : measure E st ≤ n) (hm : measure E st ≤ m) :
    subValueF E n st acc = subValueF E m st acc := by
  induction n generalizing m st acc with
  | zero =>
    have he := isLineEnd_of_eof (eof_of_measure_le_zero E hn)
    cases m <;> simp [subValueF, he]
  | succ n ih =>
    cases m with
    | zero =>
      have he := isLineEnd_of_eof (eof_of_measure_le_zero E hm)
      simp [subValueF, he]
    | succ m =>
      unfold subValueF
      split
      · rfl
      · rename_i h
        have := advance_lt E hd st (isLineEnd_false (t := st.current) (by grind)).2
        exact ih m _ _ (by omega) (by omega)

theorem includePathF_fuel (n m : Nat) (st : PState σ) (acc) (hn : measure E st ≤ n) (hm : measure E st ≤ m) :
    includePathF E n st acc = includePathF E m st acc := by
  induction n generalizing m st acc with
  | zero =>
    have he := isLineEnd_of_eof (eof_of_measure_le_zero E hn)
    cases m <;> simp [includePathF, he]
  | succ n ih =>
    cases m with
    | zero =>
      have he := isLineEnd_of_eof (eof_of_measure_le_zero E hm)
      simp [includePathF, he]
    | succ m =>
      unfold includePathF
      split
      · rfl
      · rename_i h
        have := advance_lt E hd st (isLineEnd_false (t := st.current) (by grind)).2
        exact ih m _ _ (by omega) (by omega)

theorem postingsF_fuel (n m : Nat) (st : PState σ) (hn : measure E st ≤ n) (hm : measure E st ≤ m) :
    postingsF E n st = postingsF E m st := by
  induction n generalizing m st with
  | zero =>
    have he := eof_of_measure_le_zero E hn
    cases m <;> simp [postingsF, he]
  | succ n ih =>
    cases m with
    | zero =>
      have he := eof_of_measure_le_zero E hm
      simp [postingsF, he]
    | succ m =>
      unfold postingsF
      split
      · rfl
      · rename_i h
        have hi : st.current.ty = .indent := by simpa using h
        have h1 := parsePosting_lt E hd st hi
        simp only
        have h2 : measure E (if (parsePosting E st).2.current.ty = .newline then advance E (parsePosting E st).2
            else (parsePosting E st).2) ≤ measure E (parsePosting E st).2 := by
          split
          · rename_i hnl; have := advance_lt E hd (parsePosting E st).2 (by simp [hnl]); omega
          · exact Nat.le_refl _
        rw [ih m _ (by omega) (by omega)]

theorem parseSubdirectivesF_fuel (n m : Nat) (st : PState σ) (mp) (hn : measure E st ≤ n) (hm : measure E st ≤ m) :
    parseSubdirectivesF E n st mp = parseSubdirectivesF E m st mp := by
  induction n generalizing m st mp with
  | zero =>
    have he := eof_of_measure_le_zero E hn
    cases m <;> simp [parseSubdirectivesF, he]
  | succ n ih =>
    cases m with
    | zero =>
      have he := eof_of_measure_le_zero E hm
      simp [parseSubdirectivesF, he]
    | succ m =>
      unfold parseSubdirectivesF
      split
      · rfl
      · rename_i h
        have hnl : st.current.ty = .newline := by simpa using h
        have h1 := advance_lt E hd st (by simp [hnl])
        simp only
        split
        · rfl
        · rename_i h2
          have hi : (advance E st).current.ty = .indent := by simpa using h2
          have h3 := advance_lt E hd (advance E st) (by simp [hi])
          split
          · rename_i hc
            have := advance_lt E hd (advance E (advance E st)) (by simp [hc])
            exact ih m _ _ (by omega) (by omega)
          · split
            · exact ih m _ _ (by omega) (by omega)
            · split
              · rename_i ht
                have := advance_lt E hd (advance E (advance E st)) (by simp [ht])
                exact ih m _ _ (by omega) (by omega)
              · split
                · rename_i hdv
                  have h4 := advance_lt E hd (advance E (advance E st)) (by simp [hdv])
                  have h5 := subValueF_le E hd (fuelOf E (advance E (advance E (advance E st))))
                    [] (advance E (advance E (advance E st)))
                  exact ih m _ _ (by omega) (by omega)
                · have := skipToNextLine_le E hd (advance E (advance E st))
                  exact ih m _ _ (by omega) (by omega)

theorem parseJournalF_fuel (n m : Nat) (st : PState σ) (hn : measure E st ≤ n) (hm : measure E st ≤ m) :
    parseJournalF E n st = parseJournalF E m st := by
  induction n generalizing m st with
  | zero =>
    have he := eof_of_measure_le_zero E hn
    cases m <;> simp [parseJournalF, he]
  | succ n ih =>
    cases m with
    | zero =>
      have he := eof_of_measure_le_zero E hm
      simp [parseJournalF, he]
    | succ m =>
      unfold parseJournalF
      split
      · rfl
      · rename_i h
        have h1 := journalStep_lt E hd st h
        simp only
        rw [ih m _ (by omega) (by omega)]

end
end HL.Parser
