/-
  `Decimal.String()` as modelled in HL/Model/Hover.lean (`decStr`) prints exactly the value:
  reading the printed text back (`HoverSpec.readDec?`) gives `decToRat`.
-/
import HL.Lemmas.Hover
namespace HL.Lemmas.HoverDec
open HL HL.Hover HL.HoverSpec HL.Lemmas.Hover

def IsDigits (l : Bytes) : Prop := ∀ b ∈ l, 48 ≤ b.toNat ∧ b.toNat ≤ 57

def val (l : Bytes) : Nat := l.foldl (fun a b => a * 10 + (b.toNat - 48)) 0

theorem foldl_val (l : Bytes) (a : Nat) :
    l.foldl (fun a b => a * 10 + (b.toNat - 48)) a = a * 10 ^ l.length + val l := by
  induction l generalizing a with
  | nil => simp [val]
  | cons b bs ih =>
    simp only [List.foldl_cons, List.length_cons, val]
    rw [ih, ih (0 * 10 + (b.toNat - 48))]
    simp only [Nat.pow_succ, Nat.zero_mul, Nat.zero_add]
    rw [Nat.add_mul, Nat.mul_assoc, Nat.mul_comm 10]
    omega

theorem val_append (l1 l2 : Bytes) : val (l1 ++ l2) = val l1 * 10 ^ l2.length + val l2 := by
  simp only [val, List.foldl_append]
  rw [foldl_val]
  rfl

theorem val_replicate_zero (n : Nat) : val (List.replicate n 48) = 0 := by
  induction n with
  | zero => rfl
  | succ n ih =>
    rw [List.replicate_succ, show (48 : UInt8) :: List.replicate n 48 = [48] ++ List.replicate n 48 from rfl,
      val_append, ih]
    simp [val]

theorem isDigits_append {l1 l2 : Bytes} : IsDigits (l1 ++ l2) ↔ IsDigits l1 ∧ IsDigits l2 := by
  simp only [IsDigits, List.mem_append]
  constructor
  · intro h; exact ⟨fun b hb => h b (Or.inl hb), fun b hb => h b (Or.inr hb)⟩
  · rintro ⟨h1, h2⟩ b (hb | hb)
    · exact h1 b hb
    · exact h2 b hb

theorem digitVal_of (b : UInt8) (h : 48 ≤ b.toNat ∧ b.toNat ≤ 57) : digitVal? b = some (b.toNat - 48) := by
  unfold digitVal?
  have h1 : (48 : UInt8) ≤ b := by rw [UInt8.le_iff_toNat_le]; exact h.1
  have h2 : b ≤ (57 : UInt8) := by rw [UInt8.le_iff_toNat_le]; exact h.2
  simp [h1, h2]

theorem readNat_digits (l : Bytes) (hd : IsDigits l) (hne : l ≠ []) : readNat? l = some (val l) := by
  have key : ∀ (l : Bytes) (n : Nat), IsDigits l →
      l.foldl (fun acc b => match acc, digitVal? b with
        | some n, some d => some (n * 10 + d)
        | _, _ => none) (some n)
      = some (l.foldl (fun a b => a * 10 + (b.toNat - 48)) n) := by
    intro l
    induction l with
    | nil => intro n _; rfl
    | cons b bs ih =>
      intro n hd
      have hb := hd b List.mem_cons_self
      simp only [List.foldl_cons, digitVal_of b hb]
      exact ih _ (fun x hx => hd x (List.mem_cons_of_mem _ hx))
  cases l with
  | nil => exact absurd rfl hne
  | cons b bs => exact key (b :: bs) 0 hd

theorem digit_byte (d : Nat) (h : d < 10) : (UInt8.ofNat (48 + d)).toNat = 48 + d := by
  simp only [UInt8.toNat_ofNat']
  omega

theorem digitsF_spec (f n : Nat) (acc : Bytes) (h : n < 10 ^ (f + 1)) :
    ∃ ds, digitsF (f + 1) n acc = ds ++ acc ∧ IsDigits ds ∧ ds ≠ [] ∧ val ds = n := by
  induction f generalizing n acc with
  | zero =>
    have hn : n / 10 = 0 := by omega
    have hm : n % 10 = n := by omega
    refine ⟨[UInt8.ofNat (48 + n % 10)], by simp [digitsF, hn], ?_, by simp, ?_⟩
    · intro b hb
      simp only [List.mem_singleton] at hb
      subst hb
      rw [digit_byte _ (Nat.mod_lt _ (by decide))]; omega
    · simp only [val, List.foldl_cons, List.foldl_nil]
      rw [digit_byte _ (Nat.mod_lt _ (by decide))]; omega
  | succ f ih =>
    have hd : (UInt8.ofNat (48 + n % 10)).toNat = 48 + n % 10 := digit_byte _ (Nat.mod_lt _ (by decide))
    by_cases hn : n / 10 = 0
    · refine ⟨[UInt8.ofNat (48 + n % 10)], by simp [digitsF, hn], ?_, by simp, ?_⟩
      · intro b hb
        simp only [List.mem_singleton] at hb
        subst hb
        rw [hd]; omega
      · simp only [val, List.foldl_cons, List.foldl_nil]
        rw [hd]; omega
    · have hlt : n / 10 < 10 ^ (f + 1) := by
        rw [Nat.pow_succ] at h
        omega
      obtain ⟨ds, h1, h2, h3, h4⟩ := ih (n / 10) (UInt8.ofNat (48 + n % 10) :: acc) hlt
      refine ⟨ds ++ [UInt8.ofNat (48 + n % 10)], ?_, ?_, by simp, ?_⟩
      · rw [show digitsF (f + 1 + 1) n acc = digitsF (f + 1) (n / 10) (UInt8.ofNat (48 + n % 10) :: acc) by
          simp [digitsF, hn]]
        rw [h1]; simp
      · rw [isDigits_append]
        refine ⟨h2, ?_⟩
        intro b hb
        simp only [List.mem_singleton] at hb
        subst hb
        rw [hd]; omega
      · rw [val_append, h4]
        simp only [val, List.foldl_cons, List.foldl_nil, List.length_singleton, hd]
        omega

theorem lt_ten_pow (n : Nat) : n < 10 ^ (n + 1) := by
  have h1 : n < 2 ^ n := Nat.lt_two_pow_self
  have h2 : 2 ^ n ≤ 10 ^ n := Nat.pow_le_pow_left (by decide) n
  have h3 : 10 ^ n ≤ 10 ^ (n + 1) := Nat.pow_le_pow_right (by decide) (by omega)
  omega

theorem natStr_spec (n : Nat) : IsDigits (natStr n) ∧ natStr n ≠ [] ∧ val (natStr n) = n := by
  obtain ⟨ds, h1, h2, h3, h4⟩ := digitsF_spec n n [] (lt_ten_pow n)
  unfold natStr
  rw [h1]
  simp only [List.append_nil]
  exact ⟨h2, h3, h4⟩

/-! ### Reading back -/

theorem split_at_mark (ip rest : Bytes) (h : IsDigits ip) (hr : rest = [] ∨ ∃ t, rest = 46 :: t) :
    (ip ++ rest).takeWhile (· != 46) = ip ∧ (ip ++ rest).dropWhile (· != 46) = rest := by
  induction ip with
  | nil =>
    rcases hr with hr | ⟨t, hr⟩ <;> subst hr <;> simp
  | cons b bs ih =>
    have hb := h b List.mem_cons_self
    have hne : (b != 46) = true := by
      simp only [bne_iff_ne, ne_eq]
      intro e; subst e; simp at hb
    have := ih (fun x hx => h x (List.mem_cons_of_mem _ hx))
    simp [hne, this]

/-- The value `readDec?` assigns to `ip [. fp]`. -/
def shapeVal (ip fp : Bytes) : Rat :=
  if fp = [] then (val ip : Rat) else (val ip : Rat) + (val fp : Rat) / ((10 ^ fp.length : Nat) : Rat)

theorem readBody_shape (ip fp : Bytes) (hip : IsDigits ip) (hne : ip ≠ []) (hfp : IsDigits fp) :
    readBody? (ip ++ (if fp = [] then [] else 46 :: fp)) = some (shapeVal ip fp) := by
  unfold readBody?
  by_cases hf : fp = []
  · have hs := split_at_mark ip [] hip (Or.inl rfl)
    simp only [hf, if_true, hs.1, hs.2, readNat_digits ip hip hne, shapeVal]
  · have hs := split_at_mark ip (46 :: fp) hip (Or.inr ⟨fp, rfl⟩)
    simp only [hf, if_false, hs.1, hs.2, readNat_digits ip hip hne, readNat_digits fp hfp hf, shapeVal]

theorem readDec_shape (neg : Bool) (ip fp : Bytes) (hip : IsDigits ip) (hne : ip ≠ []) (hfp : IsDigits fp) :
    readDec? ((if neg then [45] else []) ++ (ip ++ (if fp = [] then [] else 46 :: fp))) =
      some (if neg then -(shapeVal ip fp) else shapeVal ip fp) := by
  have hb := readBody_shape ip fp hip hne hfp
  cases neg with
  | true =>
    simp only [if_true, List.singleton_append, readDec?, hb]
  | false =>
    obtain ⟨b, bs, rfl⟩ : ∃ b bs, ip = b :: bs := by
      cases ip with
      | nil => exact absurd rfl hne
      | cons b bs => exact ⟨b, bs, rfl⟩
    have hb45 : b ≠ 45 := by
      intro e; subst e
      have := hip 45 List.mem_cons_self
      simp at this
    simp only [Bool.false_eq_true, if_false, List.nil_append]
    unfold readDec?
    split
    · next r heq => simp only [List.cons_append] at heq; cases heq; exact absurd rfl hb45
    · exact hb

/-! ### `decStr` has that shape and that value -/

theorem takeWhile_all {α} (p : α → Bool) (l : List α) : ∀ b ∈ l.takeWhile p, p b = true := by
  induction l with
  | nil => intro b hb; cases hb
  | cons x xs ih =>
    intro b hb
    by_cases hx : p x = true
    · rw [List.takeWhile_cons_of_pos hx] at hb
      rcases List.mem_cons.mp hb with e | e
      · subst e; exact hx
      · exact ih b e
    · rw [List.takeWhile_cons_of_neg hx] at hb; cases hb

theorem trim_spec (l : Bytes) : ∃ m, l = trimZeros l ++ List.replicate m 48 := by
  unfold trimZeros
  refine ⟨(l.reverse.takeWhile (· == 48)).length, ?_⟩
  have h := List.takeWhile_append_dropWhile (p := (· == (48 : UInt8))) (l := l.reverse)
  have hr : (l.reverse.takeWhile (· == 48)) = List.replicate (l.reverse.takeWhile (· == 48)).length 48 := by
    rw [List.eq_replicate_iff]
    refine ⟨rfl, fun b hb => ?_⟩
    have := takeWhile_all _ _ b hb
    simpa using this
  have h2 : l = (l.reverse.dropWhile (· == 48)).reverse ++ (l.reverse.takeWhile (· == 48)).reverse := by
    rw [← List.reverse_append, h, List.reverse_reverse]
  rw [hr, List.reverse_replicate] at h2
  simpa using h2

theorem rat_split (A B P Q : Nat) (hP : P ≠ 0) (hQ : Q ≠ 0) :
    ((A * (Q * P) + B * P : Nat) : Rat) / ((Q * P : Nat) : Rat) = (A : Rat) + (B : Rat) / (Q : Rat) := by
  have hp : (P : Rat) ≠ 0 := by simpa using hP
  have hq : (Q : Rat) ≠ 0 := by simpa using hQ
  simp only [Rat.natCast_add, Rat.natCast_mul]
  grind

theorem rat_split0 (A P : Nat) (hP : P ≠ 0) : ((A * P : Nat) : Rat) / ((P : Nat) : Rat) = (A : Rat) := by
  have hp : (P : Rat) ≠ 0 := by simpa using hP
  simp only [Rat.natCast_mul]
  grind

theorem pow_ne (n : Nat) : 10 ^ n ≠ 0 := Nat.pos_iff_ne_zero.mp (Nat.pow_pos (by decide))

/-- The fractional notation: integer digits `ip`, `k` fractional digits `fp0` (zeros trimmed). -/
theorem shape_value (ip fp0 : Bytes) (k n : Nat) (hlen : fp0.length = k)
    (hval : val ip * 10 ^ k + val fp0 = n) :
    shapeVal ip (trimZeros fp0) = (n : Rat) / ((10 ^ k : Nat) : Rat) := by
  obtain ⟨m, hm⟩ := trim_spec fp0
  have hk : k = (trimZeros fp0).length + m := by
    rw [← hlen]; conv => lhs; rw [hm]
    simp
  have hv : val fp0 = val (trimZeros fp0) * 10 ^ m := by
    conv => lhs; rw [hm]
    rw [val_append, val_replicate_zero]; simp
  unfold shapeVal
  split
  · next he =>
    have hv0 : val fp0 = 0 := by rw [hv, he]; simp [val]
    rw [← hval, hv0, Nat.add_zero]
    exact (rat_split0 _ _ (pow_ne k)).symm
  · rw [← hval, hv, hk, Nat.pow_add]
    exact (rat_split _ _ _ _ (pow_ne m) (pow_ne _)).symm

theorem natAbs_rat (v : Int) : (if v < 0 then -((v.natAbs : Nat) : Rat) else ((v.natAbs : Nat) : Rat)) = (v : Rat) := by
  split
  · next h =>
    have : v = -((v.natAbs : Nat) : Int) := by omega
    conv => rhs; rw [this]
    rw [Rat.intCast_neg, Rat.intCast_natCast]
  · next h =>
    have : v = ((v.natAbs : Nat) : Int) := by omega
    conv => rhs; rw [this]
    rw [Rat.intCast_natCast]

theorem neg_div' (a b : Rat) : -(a / b) = (-a) / b := by
  simp only [Rat.div_def, Rat.neg_mul]

/-- `Decimal.String()` denotes exactly the decimal's value. -/
theorem decStr_exact (d : Dec) : readDec? (decStr d) = some (decToRat d) := by
  unfold decStr
  split
  · next he =>
    -- exponent ≥ 0: the integer coef * 10^exp
    obtain ⟨h1, h2, h3⟩ := natStr_spec (d.coef * (10 : Int) ^ d.exp.toNat).natAbs
    have := readDec_shape (decide (d.coef * (10 : Int) ^ d.exp.toNat < 0)) _ [] h1 h2 (by intro b hb; cases hb)
    simp only [if_true, List.append_nil, decide_eq_true_eq, shapeVal, h3] at this
    simp only [this, natAbs_rat]
    congr 1
    unfold decToRat
    have hexp : d.exp = ((d.exp.toNat : Nat) : Int) := by omega
    conv => rhs; rw [hexp, Rat.zpow_natCast]
    simp [Rat.intCast_mul, Rat.intCast_pow]
  · next he =>
    have hk : d.exp = -(((-d.exp).toNat : Nat) : Int) := by omega
    generalize hkk : (-d.exp).toNat = k at hk
    obtain ⟨h1, h2, h3⟩ := natStr_spec d.coef.natAbs
    generalize hstr : natStr d.coef.natAbs = str at h1 h2 h3
    -- integer part and k fractional digits
    have hparts : ∃ ip fp0, IsDigits ip ∧ ip ≠ [] ∧ IsDigits fp0 ∧ fp0.length = k ∧
        val ip * 10 ^ k + val fp0 = d.coef.natAbs ∧
        (if str.length > k then str.take (str.length - k) else [48]) = ip ∧
        (if str.length > k then str.drop (str.length - k)
          else List.replicate (k - str.length) 48 ++ str) = fp0 := by
      by_cases hl : str.length > k
      · refine ⟨str.take (str.length - k), str.drop (str.length - k), ?_, ?_, ?_, ?_, ?_, by simp [hl], by simp [hl]⟩
        · exact fun b hb => h1 b (List.mem_of_mem_take hb)
        · intro e
          have := congrArg List.length e
          simp at this; omega
        · exact fun b hb => h1 b (List.mem_of_mem_drop hb)
        · simp; omega
        · have := val_append (str.take (str.length - k)) (str.drop (str.length - k))
          rw [List.take_append_drop] at this
          have hl2 : (str.drop (str.length - k)).length = k := by simp; omega
          rw [← h3, this, hl2]
      · refine ⟨[48], List.replicate (k - str.length) 48 ++ str, ?_, by simp, ?_, ?_, ?_, by simp [hl], by simp [hl]⟩
        · intro b hb; simp at hb; subst hb; decide
        · rw [isDigits_append]
          refine ⟨?_, h1⟩
          intro b hb
          rw [List.mem_replicate] at hb
          rw [hb.2]; decide
        · simp; omega
        · rw [val_append, val_replicate_zero, h3]
          simp [val]
    obtain ⟨ip, fp0, d1, d2, d3, d4, d5, e1, e2⟩ := hparts
    simp only [e1, e2]
    have dt : IsDigits (trimZeros fp0) := by
      obtain ⟨m, hm⟩ := trim_spec fp0
      intro b hb
      exact d3 b (by rw [hm]; exact List.mem_append_left _ hb)
    have := readDec_shape (decide (d.coef < 0)) ip (trimZeros fp0) d1 d2 dt
    have hnum : (if (trimZeros fp0).isEmpty = true then ip else ip ++ [46] ++ trimZeros fp0)
        = ip ++ (if trimZeros fp0 = [] then [] else 46 :: trimZeros fp0) := by
      by_cases h : trimZeros fp0 = []
      · simp [h]
      · have : (trimZeros fp0).isEmpty = false := by simpa [List.isEmpty_iff] using h
        simp [h, this]
    rw [hnum]
    have hpre : (if d.coef < 0 then 45 :: (ip ++ if trimZeros fp0 = [] then [] else 46 :: trimZeros fp0)
        else ip ++ if trimZeros fp0 = [] then [] else 46 :: trimZeros fp0)
        = (if decide (d.coef < 0) = true then [45] else []) ++
          (ip ++ if trimZeros fp0 = [] then [] else 46 :: trimZeros fp0) := by
      by_cases h : d.coef < 0 <;> simp [h]
    rw [hpre, this, shape_value ip fp0 k d.coef.natAbs d4 d5]
    congr 1
    unfold decToRat
    rw [hk, Rat.zpow_neg, Rat.zpow_natCast, ← Rat.div_def]
    simp only [decide_eq_true_eq, Rat.natCast_pow]
    have h10 : ((10 : Nat) : Rat) = 10 := rfl
    rw [h10]
    split
    · next hneg =>
      rw [neg_div']
      have := natAbs_rat d.coef
      simp only [hneg, if_true] at this
      rw [this]
    · next hneg =>
      have := natAbs_rat d.coef
      simp only [hneg, if_false] at this
      rw [this]

/-! ### What the markdown shows, as the specification's judge reads it -/

/-- The figures as shown: decimals printed by `Decimal.String()`. -/
def shownOf : Figures → Shown
  | .account name bal n => .account name (bal.map fun e => (e.1, decStr e.2)) n
  | .amount q com cost => .amount (decStr q) com (cost.map fun c => (c.1, decStr c.2.1, c.2.2))
  | .payee name n => .payee name n
  | .date _ _ _ _ _ => .date
  | .tag name n _ => .tag name n
  | .tagValue name v n => .tagValue name v n

theorem insertBy_perm {α} (le : α → α → Bool) (x : α) (l : List α) : (insertBy le x l).Perm (x :: l) := by
  induction l with
  | nil => exact List.Perm.refl _
  | cons y ys ih =>
    unfold insertBy
    split
    · exact List.Perm.refl _
    · exact (List.Perm.cons y ih).trans (List.Perm.swap x y ys)

theorem sortBy_perm {α} (le : α → α → Bool) (l : List α) : (sortBy le l).Perm l := by
  induction l with
  | nil => exact List.Perm.refl _
  | cons y ys ih =>
    simp only [sortBy, List.foldr_cons] at ih ⊢
    exact (insertBy_perm le y _).trans (List.Perm.cons y ih)

theorem nodup_filter_commodities (m : Balances) (a : Bytes) (h : (keys m).Nodup) :
    ((m.filter (fun e => e.1.1 == a)).map (fun e => e.1.2)).Nodup := by
  induction m with
  | nil => simp
  | cons e r ih =>
    simp only [keys, List.map_cons, List.nodup_cons] at h
    by_cases he : e.1.1 = a
    · have hb : (e.1.1 == a) = true := by simpa using he
      simp only [List.filter_cons, hb, if_true, List.map_cons, List.nodup_cons]
      refine ⟨?_, ih h.2⟩
      intro hm
      obtain ⟨e', he', heq⟩ := List.mem_map.mp hm
      obtain ⟨hr, ha'⟩ := List.mem_filter.mp he'
      have ha'' : e'.1.1 = a := by simpa using ha'
      apply h.1
      have : e'.1 = e.1 := Prod.ext (ha''.trans he.symm) heq
      exact List.mem_map.mpr ⟨e', hr, this⟩
    · have hb : (e.1.1 == a) = false := by simpa using he
      simp only [List.filter_cons, hb, Bool.false_eq_true, if_false]
      exact ih h.2

theorem nodup_line_commodities (m : Balances) (a : Bytes) (h : (keys m).Nodup) :
    ((accountBalanceLines m a).map (·.1)).Nodup := by
  unfold accountBalanceLines
  have hp := (sortBy_perm (fun (x y : Bytes × Dec) => bytesLe x.1 y.1)
    ((m.filter (fun e => e.1.1 == a)).map (fun e => (e.1.2, e.2)))).map (·.1)
  rw [hp.nodup_iff]
  simp only [List.map_map]
  exact nodup_filter_commodities m a h

end HL.Lemmas.HoverDec
