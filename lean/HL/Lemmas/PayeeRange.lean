/-
  Lemmas about the header walk of HL/Model/PayeeRange.lean: on every line printed from the
  header grammar (HL/Spec/HeaderG.lean) the walk stops exactly in front of the payee.
-/
import HL.Model.PayeeRange
import HL.Spec.HeaderG
namespace HL.Lemmas.PayeeRange
open HL HL.Text HL.PayeeRange HL.Spec.HeaderG

theorem dropWhile_append_all {p : Char → Bool} (b t : Txt) (hb : b.all p = true) :
    (b ++ t).dropWhile p = t.dropWhile p := by
  induction b with
  | nil => rfl
  | cons x xs ih =>
    simp only [List.all_cons, Bool.and_eq_true] at hb
    simp [hb.1, ih hb.2]

theorem dropWhile_suffix_length (p : Char → Bool) (s : Txt) : (s.dropWhile p).length ≤ s.length := by
  induction s with
  | nil => simp
  | cons x xs ih =>
    simp only [List.dropWhile_cons]
    split
    · simp; omega
    · simp

/-- The first character that is not a blank. -/
def firstNB (s : Txt) : Option Char := (skipBlanks s).head?

theorem skipBlanks_append (b t : Txt) (hb : blanks b = true) : skipBlanks (b ++ t) = skipBlanks t :=
  dropWhile_append_all b t hb

theorem skipBlanks_cons (c : Char) (t : Txt) (hc : isBlank c = false) : skipBlanks (c :: t) = c :: t := by
  simp [skipBlanks, hc]

theorem skipBlanks_idem (s : Txt) : skipBlanks (skipBlanks s) = skipBlanks s := by
  induction s with
  | nil => rfl
  | cons x xs ih =>
    cases hx : isBlank x
    · simp [skipBlanks, hx]
    · simpa [skipBlanks, hx] using ih

theorem firstNB_append (b t : Txt) (hb : blanks b = true) : firstNB (b ++ t) = firstNB t := by
  simp [firstNB, skipBlanks_append b t hb]

theorem firstNB_cons (c : Char) (t : Txt) (hc : isBlank c = false) : firstNB (c :: t) = some c := by
  simp [firstNB, skipBlanks_cons c t hc]

theorem firstNB_skip (s : Txt) : firstNB (skipBlanks s) = firstNB s := by
  simp [firstNB, skipBlanks_idem]

/-- What `skipBlanks` returns starts with a character that is not a blank. -/
theorem skipBlanks_head (s : Txt) (c : Char) (r : Txt) (h : skipBlanks s = c :: r) : isBlank c = false := by
  induction s with
  | nil => simp [skipBlanks] at h
  | cons x xs ih =>
    cases hx : isBlank x
    · simp [skipBlanks, hx] at h
      rw [← h.1]; exact hx
    · simp [skipBlanks, hx] at h
      exact ih h

/-! ### The stages depend on their input only up to leading blanks -/

theorem afterStatus_skip (s : Txt) : afterStatus (skipBlanks s) = afterStatus s := by
  simp [afterStatus, skipBlanks_idem]

theorem afterCode_skip (s : Txt) : afterCode (skipBlanks s) = afterCode s := by
  simp [afterCode, skipBlanks_idem]

theorem isSpace_of_isBlank (c : Char) (h : isBlank c = true) : isSpace c = true := by
  simp only [isBlank, Bool.or_eq_true, beq_iff_eq] at h
  rcases h with rfl | rfl <;> decide

theorem dropSpace_skip (s : Txt) : (skipBlanks s).dropWhile isSpace = s.dropWhile isSpace := by
  induction s with
  | nil => rfl
  | cons x xs ih =>
    cases hx : isBlank x
    · simp [skipBlanks, hx]
    · have := isSpace_of_isBlank x hx
      simpa [skipBlanks, hx, this] using ih

/-! ### Each stage on its part of the header -/

theorem afterDate2_none (R : Txt) (h : firstNB R ≠ some '=') : afterDate2 R = skipBlanks R := by
  unfold afterDate2
  cases hs : skipBlanks R with
  | nil => rfl
  | cons c r =>
    have : c ≠ '=' := by
      intro hc; apply h; simp [firstNB, hs, hc]
    simp [this]

theorem afterDate2_some (b0 b1 d R : Txt) (hb0 : blanks b0 = true) (hb1 : blanks b1 = true)
    (hd : d.all isDateRune = true) (hd0 : (d.head?.map isDigit).getD false = true)
    (hR : (R.head?.map fun c => !isDateRune c).getD true = true) :
    afterDate2 (b0 ++ '=' :: (b1 ++ (d ++ R))) = R := by
  unfold afterDate2
  rw [skipBlanks_append _ _ hb0, skipBlanks_cons _ _ (by decide)]
  simp only [beq_self_eq_true, if_true]
  rw [skipBlanks_append _ _ hb1]
  cases d with
  | nil => simp at hd0
  | cons d0 ds =>
    simp only [List.head?_cons, Option.map_some, Option.getD_some] at hd0
    have hnb : isBlank d0 = false := by
      cases hb : isBlank d0
      · rfl
      · simp only [isBlank, Bool.or_eq_true, beq_iff_eq] at hb
        rcases hb with rfl | rfl <;> simp [isDigit] at hd0 <;> exact absurd hd0 (by decide)
    rw [List.cons_append, skipBlanks_cons _ _ hnb]
    simp only [hd0, if_true]
    rw [← List.cons_append, dropWhile_append_all _ _ hd]
    cases R with
    | nil => rfl
    | cons r0 rs =>
      simp only [List.head?_cons, Option.map_some, Option.getD_some, Bool.not_eq_true'] at hR
      simp [hR]

theorem afterStatus_none (R : Txt) (h : firstNB R ≠ some '*' ∧ firstNB R ≠ some '!') :
    afterStatus R = skipBlanks R := by
  unfold afterStatus
  cases hs : skipBlanks R with
  | nil => rfl
  | cons c r =>
    have h1 : c ≠ '*' := by intro hc; apply h.1; simp [firstNB, hs, hc]
    have h2 : c ≠ '!' := by intro hc; apply h.2; simp [firstNB, hs, hc]
    simp [h1, h2]

theorem afterStatus_some (b : Txt) (m : Char) (R : Txt) (hb : blanks b = true)
    (hm : (m == '*' || m == '!') = true) : afterStatus (b ++ m :: R) = R := by
  unfold afterStatus
  have hnb : isBlank m = false := by
    simp only [Bool.or_eq_true, beq_iff_eq] at hm
    rcases hm with rfl | rfl <;> decide
  rw [skipBlanks_append _ _ hb, skipBlanks_cons _ _ hnb]
  simp only [hm, if_true]

theorem afterCode_none (R : Txt) (h : firstNB R ≠ some '(') : afterCode R = some (skipBlanks R) := by
  unfold afterCode
  cases hs : skipBlanks R with
  | nil => rfl
  | cons c r =>
    have : c ≠ '(' := by intro hc; apply h; simp [firstNB, hs, hc]
    simp [this]

theorem afterCode_some (b c R : Txt) (hb : blanks b = true) (hc : (c.all fun x => x != ')') = true) :
    afterCode (b ++ '(' :: (c ++ ')' :: R)) = some R := by
  unfold afterCode
  rw [skipBlanks_append _ _ hb, skipBlanks_cons _ _ (by decide)]
  simp only [beq_self_eq_true, if_true]
  rw [dropWhile_append_all _ _ hc]
  simp

/-! ### The whole walk on a grammar header -/

theorem textOK_head {p : Txt} (h : textOK p = true) :
    ∃ c t, p = c :: t ∧ isSpace c = false ∧ c ≠ '=' ∧ c ≠ '*' ∧ c ≠ '!' ∧ c ≠ '(' := by
  cases p with
  | nil => simp [textOK] at h
  | cons c t =>
    simp only [textOK, List.head?_cons, Bool.and_eq_true, Bool.not_eq_true', bne_iff_ne, ne_eq] at h
    exact ⟨c, t, rfl, h.1.1.1.1.1.1, h.1.1.1.1.1.2, h.1.1.1.1.2, h.1.1.1.2, h.1.1.2⟩

theorem isBlank_false_of_isSpace_false {c : Char} (h : isSpace c = false) : isBlank c = false := by
  cases hb : isBlank c
  · rfl
  · rw [isSpace_of_isBlank c hb] at h; cases h

/-- **On every line printed from a well-formed header the walk stops in front of the payee**,
    whatever follows the payee (`rest`: the printed tail, possibly with the CR of a CRLF line
    end). -/
theorem descriptionRest_header (h : Header) (rest : Txt) (hw : h.wf = true) :
    descriptionRest (h.lead ++ (h.payee ++ rest)) = some (h.payee ++ rest) := by
  obtain ⟨d2, st, cd, gap, payee, note, cmt⟩ := h
  simp only [Header.wf, Bool.and_eq_true] at hw
  obtain ⟨⟨⟨⟨⟨⟨hd2, hst⟩, hcd⟩, hgap⟩, hpay⟩, _⟩, _⟩ := hw
  obtain ⟨c, t, rfl, hsp, hne, hns, hnp, hnc⟩ := textOK_head hpay
  have hnb : isBlank c = false := isBlank_false_of_isSpace_false hsp
  simp only [Header.lead, Header.afterDate2] at hd2 ⊢
  -- what the last loop sees
  have hlast : ∀ R : Txt, skipBlanks R = skipBlanks (gap ++ (c :: t ++ rest)) →
      (match R.dropWhile isSpace with | [] => (none : Option Txt) | x :: r => some (x :: r)) = some (c :: t ++ rest) := by
    intro R hR
    rw [← dropSpace_skip R, hR, dropSpace_skip, dropWhile_append_all _ _ (by
      simp only [blanks, List.all_eq_true] at hgap ⊢
      intro x hx; exact isSpace_of_isBlank x (hgap x hx))]
    simp [hsp]
  -- the code stage
  have hcode : ∀ R : Txt, skipBlanks R = skipBlanks (codePart cd ++ (gap ++ (c :: t ++ rest))) →
      ∃ R', afterCode R = some R' ∧ skipBlanks R' = skipBlanks (gap ++ (c :: t ++ rest)) := by
    intro R hR
    rw [← afterCode_skip R, hR, afterCode_skip]
    cases cd with
    | none =>
      refine ⟨_, afterCode_none _ ?_, skipBlanks_idem _⟩
      simp [codePart, firstNB_append _ _ hgap, firstNB_cons _ _ hnb, hnc]
    | some bc =>
      obtain ⟨b, cc⟩ := bc
      simp only [Bool.and_eq_true] at hcd
      refine ⟨gap ++ (c :: t ++ rest), ?_, rfl⟩
      have hcc : (cc.all fun x => x != ')') = true := by
        simp only [List.all_eq_true, Bool.and_eq_true] at hcd ⊢
        intro x hx; exact (hcd.2 x hx).1
      have := afterCode_some b cc (gap ++ (c :: t ++ rest)) hcd.1 hcc
      simpa [codePart, List.append_assoc] using this
  -- the status stage
  have hstatus : ∀ R : Txt, skipBlanks R = skipBlanks (statusPart st ++ (codePart cd ++ (gap ++ (c :: t ++ rest)))) →
      skipBlanks (afterStatus R) = skipBlanks (codePart cd ++ (gap ++ (c :: t ++ rest))) := by
    intro R hR
    rw [← afterStatus_skip R, hR, afterStatus_skip]
    cases st with
    | none =>
      rw [afterStatus_none _ ?_, skipBlanks_idem]; · rfl
      cases cd with
      | none => simp [statusPart, codePart, firstNB_append _ _ hgap, firstNB_cons _ _ hnb, hns, hnp]
      | some bc =>
        obtain ⟨b, cc⟩ := bc
        simp only [Bool.and_eq_true] at hcd
        simp [statusPart, codePart, List.append_assoc, firstNB_append _ _ hcd.1,
          firstNB_cons '(' _ (by decide)]
    | some bm =>
      obtain ⟨b, m⟩ := bm
      simp only [Bool.and_eq_true] at hst
      have := afterStatus_some b m (codePart cd ++ (gap ++ (c :: t ++ rest))) hst.1 hst.2
      simp only [statusPart, List.append_assoc, List.singleton_append] at this ⊢
      rw [this]
  -- the secondary date
  have hdate : skipBlanks (afterDate2 (date2Part d2 ++ (statusPart st ++ (codePart cd ++ (gap ++ (c :: t ++ rest)))))) =
      skipBlanks (statusPart st ++ (codePart cd ++ (gap ++ (c :: t ++ rest)))) := by
    cases d2 with
    | none =>
      rw [date2Part, List.nil_append, afterDate2_none _ ?_, skipBlanks_idem]
      cases st with
      | none =>
        cases cd with
        | none => simp [statusPart, codePart, firstNB_append _ _ hgap, firstNB_cons _ _ hnb, hne]
        | some bc =>
          obtain ⟨b, cc⟩ := bc
          simp only [Bool.and_eq_true] at hcd
          simp [statusPart, codePart, List.append_assoc, firstNB_append _ _ hcd.1,
            firstNB_cons '(' _ (by decide)]
      | some bm =>
        obtain ⟨b, m⟩ := bm
        simp only [Bool.and_eq_true, Bool.or_eq_true, beq_iff_eq] at hst
        have hmb : isBlank m = false := by rcases hst.2 with rfl | rfl <;> decide
        have hme : m ≠ '=' := by rcases hst.2 with rfl | rfl <;> decide
        simp [statusPart, List.append_assoc, firstNB_append _ _ hst.1, firstNB_cons m _ hmb, hme]
    | some x =>
      obtain ⟨b0, b1, d⟩ := x
      simp only [Bool.and_eq_true] at hd2
      obtain ⟨⟨⟨⟨hb0, hb1⟩, hd⟩, hd0⟩, hR⟩ := hd2
      have hR' : ((statusPart st ++ (codePart cd ++ (gap ++ (c :: t ++ rest)))).head?.map fun c => !isDateRune c).getD true = true := by
        cases st with
        | some bm => obtain ⟨b, m⟩ := bm; cases b <;> simpa [statusPart] using hR
        | none =>
          cases cd with
          | some bc => obtain ⟨b, cc⟩ := bc; cases b <;> simpa [statusPart, codePart] using hR
          | none => cases gap <;> simpa [statusPart, codePart] using hR
      have := afterDate2_some b0 b1 d _ hb0 hb1 hd hd0 hR'
      simp only [date2Part, List.append_assoc, List.cons_append] at this ⊢
      rw [this]
  unfold descriptionRest
  simp only [List.append_assoc]
  obtain ⟨R', hR', hR''⟩ := hcode _ (hstatus _ (by rw [hdate]))
  rw [hR']
  exact hlast R' hR''

theorem skipBlanks_length (s : Txt) : (skipBlanks s).length ≤ s.length :=
  dropWhile_suffix_length isBlank s

theorem afterDate2_length (s : Txt) : (afterDate2 s).length ≤ s.length := by
  have h0 := skipBlanks_length s
  unfold afterDate2
  split
  · simp
  · rename_i c r hs
    rw [hs] at h0; simp only [List.length_cons] at h0
    split
    · have h1 := skipBlanks_length r
      split
      · simp
      · rename_i d r' hr
        rw [hr] at h1; simp only [List.length_cons] at h1
        split
        · have := dropWhile_suffix_length isDateRune (d :: r')
          simp only [List.length_cons] at this; omega
        · simp only [List.length_cons]; omega
    · simp only [List.length_cons]; omega

theorem afterStatus_length (s : Txt) : (afterStatus s).length ≤ s.length := by
  have h0 := skipBlanks_length s
  unfold afterStatus
  split
  · simp
  · rename_i c r hs
    rw [hs] at h0; simp only [List.length_cons] at h0
    split
    · omega
    · simp only [List.length_cons]; omega

theorem afterCode_length (s r : Txt) (h : afterCode s = some r) : r.length ≤ s.length := by
  have h0 := skipBlanks_length s
  unfold afterCode at h
  split at h
  · simp at h; subst h; simp
  · rename_i c r0 hs
    rw [hs] at h0; simp only [List.length_cons] at h0
    split at h
    · have h1 := dropWhile_suffix_length (fun x => x != ')') r0
      split at h
      · cases h
      · rename_i x r' hx
        rw [hx] at h1; simp only [List.length_cons] at h1
        simp at h; subst h; omega
    · simp at h; subst h; simp only [List.length_cons]; omega

/-- Every stage returns a suffix of its input, so the column lies on the line. -/
theorem descriptionRest_length (s r : Txt) (h : descriptionRest s = some r) : r.length ≤ s.length := by
  unfold descriptionRest at h
  split at h
  · cases h
  · rename_i r0 hr0
    have h1 := afterCode_length _ _ hr0
    have h2 := afterStatus_length (afterDate2 s)
    have h3 := afterDate2_length s
    have h4 := dropWhile_suffix_length isSpace r0
    split at h
    · cases h
    · rename_i c r' hc
      rw [hc] at h4
      simp at h; subst h
      omega

/-- The column found on a line that is `pre` (everything up to the end of the date) followed by
    a well-formed header: the payee's. -/
theorem descriptionColumn_header (pre : Txt) (h : Header) (rest : Txt) (dateEnd : Nat)
    (hw : h.wf = true) (hde : 1 ≤ dateEnd) (hpre : pre.length = dateEnd - 1) :
    descriptionColumn (pre ++ (h.lead ++ (h.payee ++ rest))) dateEnd = some (dateEnd + h.lead.length) := by
  unfold descriptionColumn
  have h0 : dateEnd ≠ 0 := by omega
  have h1 : ¬ (pre ++ (h.lead ++ (h.payee ++ rest))).length < dateEnd - 1 := by
    simp only [List.length_append]; omega
  simp only [h0, h1, if_false]
  rw [← hpre, List.drop_left, descriptionRest_header h rest hw]
  simp only [Option.map_some, List.length_append, Option.some.injEq]
  omega

/-- The column found on any line lies on the line, after the date. -/
theorem descriptionColumn_bounds (ln : Txt) (dateEnd col : Nat) (h : descriptionColumn ln dateEnd = some col) :
    dateEnd ≤ col ∧ col ≤ ln.length := by
  unfold descriptionColumn at h
  split at h
  · cases h
  · split at h
    · cases h
    · simp only [Option.map_eq_some_iff] at h
      obtain ⟨r, hr, rfl⟩ := h
      have h1 := descriptionRest_length _ _ hr
      have h2 : r ≠ [] := by
        unfold descriptionRest at hr
        split at hr
        · cases hr
        · split at hr
          · cases hr
          · simp at hr; subst hr; simp
      have h3 : 0 < r.length := List.length_pos_iff.mpr h2
      simp only [List.length_drop] at h1
      omega

end HL.Lemmas.PayeeRange
