import HL.Lemmas.Lexer
/-!
  Shift invariance of the lexer (half of line-locality): the lexer looks at consumed input only
  through `followsAmountNumber`, which walks back over blanks and stops at the first other
  byte.  Lexing the rest of a document after a line feed therefore equals lexing that rest as
  a document of its own, with line numbers and offsets shifted.
-/
namespace HL.Lex
open HL HL.Utf8

/-- the same state with `pre` (reversed) underneath the consumed input and `k` more lines -/
def Z.shift (k : Nat) (pre : Bytes) (z : Z) : Z :=
  { z with before := z.before ++ pre, line := z.line + k }

def shiftR (k : Nat) (pre : Bytes) (r : Token × Z) : Token × Z :=
  (shiftTok k pre.length r.1, r.2.shift k pre)

variable (k : Nat) (pre : Bytes)

@[simp] theorem shift_after (z : Z) : (z.shift k pre).after = z.after := rfl
@[simp] theorem shift_col (z : Z) : (z.shift k pre).col = z.col := rfl
@[simp] theorem shift_atStart (z : Z) : (z.shift k pre).atStart = z.atStart := rfl
@[simp] theorem shift_before (z : Z) : (z.shift k pre).before = z.before ++ pre := rfl
@[simp] theorem shift_line (z : Z) : (z.shift k pre).line = z.line + k := rfl
@[simp] theorem peek_shift (z : Z) : peek (z.shift k pre) = peek z := rfl
@[simp] theorem peekRune_shift (z : Z) : peekRune (z.shift k pre) = peekRune z := rfl

@[simp] theorem bump_shift (z : Z) (w : Nat) : (z.shift k pre).bump w = (z.bump w).shift k pre := by
  simp [Z.bump, Z.shift]

@[simp] theorem advance_shift (z : Z) : advance (z.shift k pre) = (advance z).shift k pre := by
  unfold advance
  simp only [shift_after]
  split
  · rfl
  · simp

@[simp] theorem position_shift (z : Z) :
    (z.shift k pre).position = shiftPos k pre.length z.position := by
  simp [Z.position, Z.shift, shiftPos]

@[simp] theorem between_shift (s e : Z) : between (s.shift k pre) (e.shift k pre) = between s e := by
  simp only [between, shift_before, List.length_append]
  rw [Nat.add_sub_add_right, List.take_append_of_le_length (by omega)]

@[simp] theorem mkTok_shift (ty : TokType) (v : Bytes) (s e : Z) :
    mkTok ty v (s.shift k pre) (e.shift k pre) = shiftR k pre (mkTok ty v s e) := by
  simp [mkTok, shiftR, shiftTok]

@[simp] theorem mkTokAt_shift (ty : TokType) (v : Bytes) (s e : Z) (stop : Pos) :
    mkTokAt ty v (s.shift k pre) (shiftPos k pre.length stop) (e.shift k pre) =
      shiftR k pre (mkTokAt ty v s stop e) := by
  simp [mkTokAt, shiftR, shiftTok]

@[simp] theorem textStop_shift (z e : Z) :
    textStop (z.shift k pre) (e.shift k pre) = shiftPos k pre.length (textStop z e) := by
  simp only [textStop, between_shift]
  split
  · exact position_shift k pre e
  · simp only [shiftPos, shift_line, shift_col, shift_before, List.length_append, Pos.mk.injEq, true_and]
    omega

@[simp] theorem advWhileF_shift (p : UInt8 → Bool) (n : Nat) (z : Z) :
    advWhileF p n (z.shift k pre) = (advWhileF p n z).shift k pre := by
  induction n generalizing z with
  | zero => rfl
  | succ n ih =>
    unfold advWhileF
    simp only [shift_after]
    split
    · rfl
    · split
      · rw [advance_shift, ih]
      · rfl

@[simp] theorem advWhile_shift (p : UInt8 → Bool) (z : Z) :
    advWhile p (z.shift k pre) = (advWhile p z).shift k pre := by
  simp [advWhile]

@[simp] theorem advLineF_shift (p : UInt8 → Bool) (n : Nat) (z : Z) :
    advLineF p n (z.shift k pre) = (advLineF p n z).shift k pre := by
  induction n generalizing z with
  | zero => rfl
  | succ n ih =>
    unfold advLineF
    simp only [shift_after]
    split
    · rfl
    · split
      · rw [advance_shift, ih]
      · rfl

@[simp] theorem advLine_shift (p : UInt8 → Bool) (z : Z) :
    advLine p (z.shift k pre) = (advLine p z).shift k pre := by
  simp [advLine]

@[simp] theorem skipSpaces_shift (z : Z) : skipSpaces (z.shift k pre) = (skipSpaces z).shift k pre := by
  simp [skipSpaces]

@[simp] theorem advIf_shift (p : UInt8 → Bool) (z : Z) :
    advIf p (z.shift k pre) = (advIf p z).shift k pre := by
  unfold advIf
  simp only [shift_after]
  split
  · rfl
  · split
    · simp
    · rfl

theorem scanAccountF_shift (n : Nat) (z l : Z) :
    scanAccountF n (z.shift k pre) (l.shift k pre) =
      ((scanAccountF n z l).1.shift k pre, (scanAccountF n z l).2.shift k pre) := by
  induction n generalizing z l with
  | zero => rfl
  | succ n ih =>
    unfold scanAccountF
    simp only [shift_after]
    split
    · rfl
    · simp only [bump_shift]
      split
      · split
        · rfl
        · exact ih _ _
      · split
        · rfl
        · exact ih _ _

@[simp] theorem scanNumberF_shift (n : Nat) (z : Z) (hd : Bool) :
    scanNumberF n (z.shift k pre) hd = (scanNumberF n z hd).shift k pre := by
  induction n generalizing z hd with
  | zero => rfl
  | succ n ih =>
    unfold scanNumberF
    simp only [shift_after]
    split
    · rfl
    · simp only [advance_shift, advIf_shift, ih]
      repeat' split
      all_goals rfl

/-- Look-behind: walking back over blanks from a position at or behind a line feed never
    reaches a digit of an earlier line. -/
theorem followsAmountNumber_shift (pre' : Bytes) (z : Z) :
    followsAmountNumber (z.shift k (0x0A :: pre')) = followsAmountNumber z := by
  unfold followsAmountNumber
  simp only [shift_before]
  generalize z.before = l
  induction l with
  | nil => simp [List.dropWhile, isDigit]
  | cons c t ih =>
    simp only [List.cons_append, List.dropWhile_cons]
    by_cases hc : (c == 32) = true
    · simpa [hc] using ih
    · simp [hc]

/-! ### every scan function commutes with the shift -/

@[simp] theorem scanDate_shift (z : Z) : scanDate (z.shift k pre) = shiftR k pre (scanDate z) := by
  simp [scanDate]
@[simp] theorem scanStatus_shift (z : Z) : scanStatus (z.shift k pre) = shiftR k pre (scanStatus z) := by
  simp [scanStatus]
@[simp] theorem scanSign_shift (z : Z) : scanSign (z.shift k pre) = shiftR k pre (scanSign z) := by
  simp [scanSign]
@[simp] theorem punct_shift (ty : TokType) (v : Bytes) (z : Z) :
    punct ty v (z.shift k pre) = shiftR k pre (punct ty v z) := by
  simp [punct]
@[simp] theorem scanCode_shift (z : Z) : scanCode (z.shift k pre) = shiftR k pre (scanCode z) := by
  simp [scanCode]
@[simp] theorem scanQuotedCommodity_shift (z : Z) :
    scanQuotedCommodity (z.shift k pre) = shiftR k pre (scanQuotedCommodity z) := by
  simp [scanQuotedCommodity]
@[simp] theorem scanComment_shift (z : Z) : scanComment (z.shift k pre) = shiftR k pre (scanComment z) := by
  simp [scanComment]
@[simp] theorem scanIndent_shift (z : Z) : scanIndent (z.shift k pre) = shiftR k pre (scanIndent z) := by
  simp [scanIndent]
@[simp] theorem scanText_shift (z : Z) : scanText (z.shift k pre) = shiftR k pre (scanText z) := by
  simp [scanText]

@[simp] theorem scanNewline_shift (z : Z) : scanNewline (z.shift k pre) = shiftR k pre (scanNewline z) := by
  simp only [scanNewline, advIf_shift, advance_shift]
  generalize advance (advIf (· == 0x0D) z) = z1
  have : ({ z1.shift k pre with line := (z1.shift k pre).line + 1, col := 1, atStart := true } : Z)
      = ({ z1 with line := z1.line + 1, col := 1, atStart := true } : Z).shift k pre := by
    simp [Z.shift]; omega
  rw [this, mkTok_shift]

@[simp] theorem scanAt_shift (z : Z) : scanAt (z.shift k pre) = shiftR k pre (scanAt z) := by
  simp only [scanAt, advance_shift, shift_after]
  split <;> simp

@[simp] theorem scanEquals_shift (z : Z) : scanEquals (z.shift k pre) = shiftR k pre (scanEquals z) := by
  simp only [scanEquals, advance_shift, shift_after]
  split <;> simp

@[simp] theorem scanCurrencySymbol_shift (z : Z) :
    scanCurrencySymbol (z.shift k pre) = shiftR k pre (scanCurrencySymbol z) := by
  simp [scanCurrencySymbol]

@[simp] theorem scanNumber_shift (z : Z) : scanNumber (z.shift k pre) = shiftR k pre (scanNumber z) := by
  simp [scanNumber]

@[simp] theorem scanAccount_shift (z : Z) : scanAccount (z.shift k pre) = shiftR k pre (scanAccount z) := by
  simp only [scanAccount, shift_after, scanAccountF_shift, between_shift, position_shift, mkTokAt_shift]

@[simp] theorem scanDirectiveOrAccount_shift (z : Z) :
    scanDirectiveOrAccount (z.shift k pre) = shiftR k pre (scanDirectiveOrAccount z) := by
  simp only [scanDirectiveOrAccount, advWhile_shift, between_shift, shift_after, scanAccount_shift,
    scanText_shift, mkTok_shift, apply_ite (shiftR k pre)]

theorem scanCommodityOrText_shift (C : Classes) (pre' : Bytes) (z : Z) :
    scanCommodityOrText C (z.shift k (0x0A :: pre')) = shiftR k (0x0A :: pre') (scanCommodityOrText C z) := by
  simp only [scanCommodityOrText, advWhile_shift, between_shift, shift_after, followsAmountNumber_shift,
    shift_before, List.length_append, Nat.add_lt_add_iff_right, scanText_shift, mkTok_shift,
    apply_ite (shiftR k (0x0A :: pre'))]

theorem scanInLine_shift (C : Classes) (pre' : Bytes) (z : Z) :
    scanInLine C (z.shift k (0x0A :: pre')) = shiftR k (0x0A :: pre') (scanInLine C z) := by
  simp only [scanInLine, scanInLineAt, skipSpaces_shift, shift_after, peekRune_shift]
  cases (skipSpaces z).after with
  | nil => simp
  | cons ch t =>
    simp only [scanNewline_shift, scanComment_shift, punct_shift, scanCode_shift, scanAt_shift,
      scanEquals_shift, scanStatus_shift, scanCurrencySymbol_shift, scanQuotedCommodity_shift,
      scanSign_shift, scanText_shift, scanDate_shift, scanNumber_shift, scanAccount_shift,
      scanCommodityOrText_shift, apply_ite (shiftR k (0x0A :: pre'))]

theorem scanLineStart_shift (C : Classes) (pre' : Bytes) (z : Z) :
    scanLineStart C (z.shift k (0x0A :: pre')) = shiftR k (0x0A :: pre') (scanLineStart C z) := by
  have : ({ z.shift k (0x0A :: pre') with atStart := false } : Z)
      = ({ z with atStart := false } : Z).shift k (0x0A :: pre') := rfl
  simp only [scanLineStart, this]
  generalize ({ z with atStart := false } : Z) = z1
  simp only [scanLineStartAt, peek_shift, shift_after, scanComment_shift, scanIndent_shift, scanDate_shift,
    scanDirectiveOrAccount_shift, scanInLine_shift, apply_ite (shiftR k (0x0A :: pre'))]

/-- `Next` on the rest of a document behind a line feed = `Next` on that rest alone, shifted. -/
theorem next_shift (C : Classes) (pre' : Bytes) (z : Z) :
    next C (z.shift k (0x0A :: pre')) = shiftR k (0x0A :: pre') (next C z) := by
  simp only [next, shift_after, shift_atStart, shift_col]
  cases z.after with
  | nil => simp
  | cons b t =>
    simp only [scanLineStart_shift, scanInLine_shift, apply_ite (shiftR k (0x0A :: pre'))]

theorem lexF_shift (C : Classes) (pre' : Bytes) (n : Nat) (z : Z) :
    lexF C n (z.shift k (0x0A :: pre')) = (lexF C n z).map (shiftTok k (pre'.length + 1)) := by
  induction n generalizing z with
  | zero => rfl
  | succ n ih =>
    unfold lexF
    simp only [next_shift]
    have hty : (shiftR k (0x0A :: pre') (next C z)).1.ty = (next C z).1.ty := rfl
    rw [hty]
    split
    · simp [shiftR]
    · simp only [List.map_cons]
      congr 1
      exact ih _

end HL.Lex
