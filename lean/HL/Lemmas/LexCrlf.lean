import HL.Lemmas.LexCover
/-!
  Carriage returns and the repaired lexer, part 1: what a Comment token's value can end with.

  `advLine` (the loops that run to the end of the line) steps over a carriage return only if no
  line feed follows it (`advLineF_last_cr`).  So in a text in which every CR is directly followed
  by LF (`CrOk`) no Comment value ends with a CR (`lexAll_comment_no_cr`) — the lexer-side half of
  C17's `ordered_disjoint_inline` / `covers_lexeme`.
-/
namespace HL.Lex
open HL HL.Utf8

local notation "LF" => (0x0A : UInt8)
local notation "CR" => (0x0D : UInt8)

/-- every carriage return is directly followed by a line feed -/
def CrOk : Bytes → Bool
  | a :: b :: rest => (a != CR || b == LF) && CrOk (b :: rest)
  | [a] => a != CR
  | [] => true

theorem crOk_append_cr {a b : Bytes} (h : CrOk (a ++ CR :: b) = true) : headIs LF b = true := by
  induction a with
  | nil =>
    cases b with
    | nil => simp [CrOk] at h
    | cons c t =>
      simp only [List.nil_append, CrOk, Bool.and_eq_true, Bool.or_eq_true, bne_iff_ne, ne_eq,
        not_true_eq_false, false_or, beq_iff_eq] at h
      simp [headIs, h.1]
  | cons x a ih =>
    cases a with
    | nil =>
      simp only [List.cons_append, List.nil_append, CrOk, Bool.and_eq_true] at h
      exact ih h.2
    | cons y a =>
      simp only [List.cons_append, CrOk, Bool.and_eq_true] at h
      exact ih h.2

/-! ### ahead of the lexer only: the last byte a loop stepped over -/

/-- `advance` from a byte that is not a carriage return does not end on a carriage return -/
theorem advance_head_ne_cr {z : Z} {b : UInt8} {t : Bytes} (hz : z.after = b :: t) (hb : b ≠ CR) :
    (advance z).before.head? ≠ some CR := by
  rw [advance_cons hz]
  simp only [Z.bump, hz]
  have hw := decodeRune_width_pos b t
  have hno := decodeRune_take_noCR b t hb
  intro h
  have hne : ((b :: t).take (decodeRune (b :: t)).2).reverse ≠ [] := by
    obtain ⟨w, hw'⟩ : ∃ w, (decodeRune (b :: t)).2 = w + 1 := ⟨_, (Nat.succ_pred_eq_of_pos hw).symm⟩
    simp [hw']
  obtain ⟨x, l, hl⟩ := List.exists_cons_of_ne_nil hne
  rw [hl] at h
  simp only [List.cons_append, List.head?_cons, Option.some.injEq] at h
  have : CR ∈ ((b :: t).take (decodeRune (b :: t)).2).reverse := by rw [hl, h]; simp
  exact hno (List.mem_reverse.mp this)

theorem advance_cr {z : Z} {t : Bytes} (hz : z.after = CR :: t) :
    (advance z).after = t ∧ (advance z).before = CR :: z.before := by
  rw [advance_ascii hz (by decide)]
  exact ⟨rfl, rfl⟩

/-- If `advLine` consumed anything and the last byte it consumed is a carriage return, no line
    feed follows: the loop does not step over the CR of a CR LF. -/
theorem advLineF_last_cr (p : UInt8 → Bool) (n : Nat) (z : Z)
    (hlt : z.before.length < (advLineF p n z).before.length)
    (hcr : (advLineF p n z).before.head? = some CR) : headIs LF (advLineF p n z).after = false := by
  induction n generalizing z with
  | zero => simp [advLineF] at hlt
  | succ n ih =>
    unfold advLineF at hlt hcr ⊢
    split at hlt
    · omega
    · rename_i b t hz
      simp only [hz] at hcr ⊢
      split at hlt
      · rename_i hc
        simp only [hc, if_true] at hcr ⊢
        by_cases hmore : (advance z).before.length < (advLineF p n (advance z)).before.length
        · exact ih (advance z) hmore hcr
        · -- the loop stopped right behind this byte
          have hadv := advLineF_adv p n (advance z)
          have hle := hadv.before_le
          have heq : (advLineF p n (advance z)).before.length = (advance z).before.length := by omega
          obtain ⟨pre, h1, h2⟩ := hadv
          have hpre : pre = [] := by
            have : ((advLineF p n (advance z)).before).length = pre.length + (advance z).before.length := by
              rw [h2]; simp
            exact List.eq_nil_of_length_eq_zero (by omega)
          subst hpre
          simp only [List.nil_append, List.reverse_nil] at h1 h2
          rw [h2] at hcr
          rw [← h1]
          simp only [Bool.and_eq_true, Bool.not_eq_true'] at hc
          by_cases hb : b = CR
          · subst hb
            rw [(advance_cr hz).1]
            have := hc.2
            simp only [atEol, Bool.or_eq_false_iff, Bool.and_eq_false_iff] at this
            rcases this.2 with h | h
            · exact absurd h (by decide)
            · exact h
          · exact absurd hcr (advance_head_ne_cr hz hb)
      · omega

theorem advLine_last_cr (p : UInt8 → Bool) (z : Z)
    (hlt : z.before.length < (advLine p z).before.length)
    (hcr : (advLine p z).before.head? = some CR) : headIs LF (advLine p z).after = false :=
  advLineF_last_cr p _ z hlt hcr

/-- the value between two states ends with the byte the lexer stepped over last -/
theorem between_getLast {s e : Z} (h : s.before.length < e.before.length) :
    (between s e).getLast? = e.before.head? := by
  unfold between
  rw [List.getLast?_reverse]
  cases hb : e.before with
  | nil => rw [hb] at h; simp at h
  | cons c r =>
    have : 0 < (c :: r).length - s.before.length := by rw [hb] at h; omega
    obtain ⟨k, hk⟩ : ∃ k, (c :: r).length - s.before.length = k + 1 := ⟨_, (Nat.succ_pred_eq_of_pos this).symm⟩
    rw [hk]; rfl

/-- **A comment's value does not end with the CR of a CR LF.**  If the value of the token
    `scanComment` returns ends with a carriage return, that carriage return is not followed by a
    line feed in the input. -/
theorem scanComment_no_cr (z : Z) (hok : CrOk z.input = true) :
    (scanComment z).1.val.getLast? ≠ some CR := by
  intro h
  simp only [scanComment, mkTok] at h
  have hne : between (advance z) (advLine (fun _ => true) (advance z)) ≠ [] := by
    intro e; rw [e] at h; simp at h
  have hlt := between_ne_nil_lt hne
  rw [between_getLast hlt] at h
  have hno := advLine_last_cr _ _ hlt h
  have hin : (advLine (fun _ => true) (advance z)).input = z.input :=
    ((Adv.advance z).trans (advLine_adv _ _)).input
  generalize advLine (fun _ => true) (advance z) = e at h hno hin
  cases hb : e.before with
  | nil => rw [hb] at h; simp at h
  | cons c r =>
    rw [hb] at h
    simp only [List.head?_cons, Option.some.injEq] at h
    subst h
    rw [← hin, Z.input, hb] at hok
    simp only [List.reverse_cons, List.append_assoc, List.singleton_append] at hok
    have := crOk_append_cr hok
    rw [hno] at this
    exact absurd this (by decide)

/-! ### only `scanComment` makes Comment tokens -/

/-- not a Comment token -/
def NC (r : Token × Z) : Prop := r.1.ty ≠ .comment

theorem nc_mk (ty : TokType) (v : Bytes) (s e : Z) (h : ty ≠ .comment) : NC (mkTok ty v s e) := h

theorem nc_ite {c : Prop} [Decidable c] {a b : Token × Z} (ha : NC a) (hb : NC b) : NC (if c then a else b) := by
  split <;> assumption

theorem nc_mkAt (ty : TokType) (v : Bytes) (s : Z) (stop : Pos) (e : Z) (h : ty ≠ .comment) :
    NC (mkTokAt ty v s stop e) := h

theorem scanText_nc (z : Z) : NC (scanText z) := nc_mkAt _ _ _ _ _ (by decide)
theorem scanAccount_nc (z : Z) : NC (scanAccount z) := by
  unfold scanAccount; exact nc_mkAt _ _ _ _ _ (by decide)
theorem scanDirectiveOrAccount_nc (z : Z) : NC (scanDirectiveOrAccount z) := by
  unfold scanDirectiveOrAccount
  exact nc_ite (nc_mk _ _ _ _ (by decide)) (nc_ite (scanAccount_nc z) (scanText_nc z))
theorem scanCommodityOrText_nc (C : Classes) (z : Z) : NC (scanCommodityOrText C z) := by
  unfold scanCommodityOrText
  exact nc_ite (nc_mk _ _ _ _ (by decide)) (nc_ite (nc_mk _ _ _ _ (by decide)) (scanText_nc z))
theorem scanAt_nc (z : Z) : NC (scanAt z) := by
  unfold scanAt; exact nc_ite (nc_mk _ _ _ _ (by decide)) (nc_mk _ _ _ _ (by decide))
theorem scanEquals_nc (z : Z) : NC (scanEquals z) := by
  unfold scanEquals; exact nc_ite (nc_mk _ _ _ _ (by decide)) (nc_mk _ _ _ _ (by decide))
theorem scanCurrencySymbol_nc (z : Z) : NC (scanCurrencySymbol z) := by
  unfold scanCurrencySymbol; exact nc_mk _ _ _ _ (by decide)

/-- a Comment token returned by `scanInLineAt` is the one `scanComment` makes at that state -/
theorem scanInLineAt_comment_inv (C : Classes) (z : Z) (h : (scanInLineAt C z).1.ty = .comment) :
    scanInLineAt C z = scanComment z := by
  unfold scanInLineAt at h ⊢
  cases hz : z.after with
  | nil => rw [hz] at h; exact absurd h (by simp [mkTok])
  | cons ch t =>
    rw [hz] at h
    simp only [] at h ⊢
    by_cases h1 : atEol (ch :: t) = true
    · rw [if_pos h1] at h; exact absurd h (by simp [scanNewline, mkTok])
    · rw [if_neg h1] at h ⊢
      by_cases h2 : (ch == 0x3B) = true
      · rw [if_pos h2]
      · rw [if_neg h2] at h
        exfalso
        revert h
        show NC _
        refine nc_ite (nc_ite (nc_mk _ _ _ _ (by decide)) (nc_mk _ _ _ _ (by decide))) ?_
        refine nc_ite (nc_mk _ _ _ _ (by decide)) ?_
        refine nc_ite (nc_mk _ _ _ _ (by decide)) ?_
        refine nc_ite (nc_mk _ _ _ _ (by decide)) ?_
        refine nc_ite (nc_mk _ _ _ _ (by decide)) ?_
        refine nc_ite (scanAt_nc z) ?_
        refine nc_ite (scanEquals_nc z) ?_
        refine nc_ite (nc_mk _ _ _ _ (by decide)) ?_
        refine nc_ite (scanCurrencySymbol_nc z) ?_
        refine nc_ite (nc_mk _ _ _ _ (by decide)) ?_
        refine nc_ite (nc_ite (nc_mk _ _ _ _ (by decide)) (scanText_nc z)) ?_
        refine nc_ite (nc_ite (nc_mk _ _ _ _ (by decide)) (nc_mk _ _ _ _ (by decide))) ?_
        refine nc_ite (nc_ite (scanAccount_nc z) (scanCommodityOrText_nc C z)) ?_
        exact scanText_nc z

/-- a Comment token returned by `Next` is made by `scanComment` at a state that works on the
    same input -/
theorem next_comment_inv (C : Classes) (z : Z) (h : (next C z).1.ty = .comment) :
    ∃ z', z'.input = z.input ∧ (next C z).1 = (scanComment z').1 := by
  unfold next at h ⊢
  split at h
  · exact absurd h (by simp [mkTok])
  · rename_i b t hz
    try simp only [hz] at h ⊢
    have inl : ∀ z0 : Z, z0.input = z.input → (scanInLine C z0).1.ty = .comment →
        ∃ z', z'.input = z.input ∧ (scanInLine C z0).1 = (scanComment z').1 := by
      intro z0 hi h0
      unfold scanInLine at h0 ⊢
      refine ⟨skipSpaces z0, ?_, by rw [scanInLineAt_comment_inv C _ h0]⟩
      exact ((advWhile_adv isBlank z0).input).trans hi
    split at h
    · rename_i hs
      rw [if_pos hs]
      unfold scanLineStart scanLineStartAt at h ⊢
      have hi : ({ z with atStart := false } : Z).input = z.input := rfl
      generalize ({ z with atStart := false } : Z) = z1 at h hi ⊢
      simp only [] at h ⊢
      split at h
      · rename_i h1; rw [if_pos h1]; exact ⟨z1, hi, rfl⟩
      · rename_i h1
        rw [if_neg h1]
        split at h
        · exact absurd h (by simp [scanIndent, mkTok])
        · rename_i h2
          rw [if_neg h2]
          split at h
          · exact absurd h (by simp [scanDate, mkTok])
          · rename_i h3
            rw [if_neg h3]
            split at h
            · exact absurd h (scanDirectiveOrAccount_nc z1)
            · rename_i h4
              rw [if_neg h4]
              exact inl z1 hi h
    · rename_i hs
      rw [if_neg hs]
      exact inl z rfl h

/-- **No Comment value ends with the CR of a line end**: in a text in which every carriage
    return is directly followed by a line feed, no Comment token's value ends with a carriage
    return — for every such text and every classifier. -/
theorem lexAll_comment_no_cr (C : Classes) (input : Bytes) (hok : CrOk input = true) :
    ∀ t ∈ lexAll C input, t.ty = .comment → t.val.getLast? ≠ some CR := by
  rw [lexAll_eq_lexS]
  refine lexS_forall_input C input (fun t => t.ty = .comment → t.val.getLast? ≠ some CR) ?_
    input.length (Z.init input) (by simp [Z.init]) (by simp [Z.init, Z.input])
  intro z hz hty
  obtain ⟨z', hi, he⟩ := next_comment_inv C z hty
  rw [he]
  exact scanComment_no_cr z' (by rw [hi, hz]; exact hok)

end HL.Lex
