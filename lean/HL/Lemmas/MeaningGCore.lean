import HL.Spec.Meaning
import HL.Spec.GCoreLayout
/-!
  `HL.Meaning.journalEqv` (the comparison the C04 oracle applies to the trees the real parser
  returns before and after formatting) on the trees of one core journal under two layouts.
-/
namespace HL.GCore
open HL HL.Ast HL.Meaning

theorem side_l : (Side.left == Side.left) = true := rfl
theorem side_r : (Side.right == Side.right) = true := rfl
theorem status_n : (Status.none == Status.none) = true := rfl
theorem virt_n : (Virtual.none == Virtual.none) = true := rfl

theorem decEqv_refl (d : Dec) : decEqv d d = true := by simp [decEqv]

theorem amountEqv_expected (a : Amount) (ln c o ln' c' o' : Nat) :
    amountEqv (a.expected ln c o) (a.expected ln' c' o') = true := by
  cases hc : a.com <;> simp [amountEqv, commodityEqv, Amount.expected, hc, decEqv_refl, side_l, side_r]

theorem postingEqv_expectedL (L L' : Layout) (p : Posting) (ln o ln' o' : Nat) :
    postingEqv (p.expectedL L ln o) (p.expectedL L' ln' o') = true := by
  cases ha : p.amount <;>
    simp [postingEqv, Posting.expectedL, ha, optEqv, listEqv, amountEqv_expected, status_n, virt_n]

theorem postingsEqv_expectedL (L L' : Layout) (ps : List Posting) : ∀ ln o ln' o',
    listEqv postingEqv (expectedPostingsL L ps ln o) (expectedPostingsL L' ps ln' o') = true := by
  induction ps with
  | nil => intro _ _ _ _; rfl
  | cons p ps ih =>
    intro ln o ln' o'
    simp only [expectedPostingsL, listEqv, postingEqv_expectedL, ih, Bool.and_self]

theorem txEqv_expectedL (L L' : Layout) (t : Tx) (ln o ln' o' : Nat) :
    txEqv (t.expectedL L ln o) (t.expectedL L' ln' o') = true := by
  simp [txEqv, Tx.expectedL, dateEqv, optEqv, listEqv, postingsEqv_expectedL, status_n]

theorem txsEqv_expectedL (L L' : Layout) (j : Journal) : ∀ ln o ln' o',
    listEqv txEqv (expectedTxsL L j ln o) (expectedTxsL L' j ln' o') = true := by
  induction j with
  | nil => intro _ _ _ _; rfl
  | cons t ts ih =>
    intro ln o ln' o'
    simp only [expectedTxsL, listEqv, txEqv_expectedL, ih, Bool.and_self]

/-- The trees of one journal under two layouts say the same (`journalEqv`). -/
theorem journalEqv_expectedL (L L' : Layout) (j : Journal) :
    journalEqv (expectedL L j) (expectedL L' j) = true := by
  simp [journalEqv, expectedL, listEqv, txsEqv_expectedL]

end HL.GCore
