import HL.Model.Srv
/-!
# The inductive invariant of the repaired publish protocol (`guarded := true`)

`Inv diag s` holds in the initial state and is preserved by every enabled transition of
`HL.Srv.step? diag true` (`inv_step`), hence in every state reached by any finite trace
(`inv_run`).  `Props/C13.lean` reads the property off the invariant.
-/
set_option linter.unusedSimpArgs false

namespace HL.Srv
variable {Text Diags : Type}

/-- * `task_le`, `ver_le`, `pub_le`: every version in use was issued by the counter.
    * `docs_ver`: `documents` and `docVersions` have the same keys (both are written by the handler
      thread in the same event).
    * `task_ver`: the version table of a URI always holds the newest version issued for it, so no
      task is ahead of it.
    * `cur_text`: the task that carries the current version carries the current text.
    * `pc_diag`: the diagnostics a task carries were computed from the text it captured.
    * `owner`: mutual exclusion — whoever is between Lock and Unlock is the owner of `publishMu`.
    * `unpub`: a task that has not yet published has no entry in the client's log.
    * `checked_max`: a task that passed the version check (and still holds the mutex) is newer
      than everything published for its URI.
    * `pub_ver`: nothing newer than the current version has been published.
    * `main`: for each open URI, either the task of the current version is still in flight and has
      not published yet, or the client's last notification for the URI is that version's, with
      the diagnostics of the current text.
    * `sorted`: the versions in the client's log of a URI are strictly increasing. -/
structure Inv (diag : Text → Diags) (s : St Text Diags) : Prop where
  task_le : ∀ i k, s.tasks i = some k → i ≤ s.seq
  ver_le : ∀ u v, s.ver u = some v → v ≤ s.seq
  pub_le : ∀ u p, p ∈ s.log u → p.1 ≤ s.seq
  docs_ver : ∀ u, (s.docs u).isSome = (s.ver u).isSome
  task_ver : ∀ i k v, s.tasks i = some k → s.ver k.uri = some v → i ≤ v
  cur_text : ∀ i k, s.tasks i = some k → s.ver k.uri = some i → s.docs k.uri = some k.text
  pc_diag : ∀ i k d, s.tasks i = some k → k.pc.diag? = some d → d = diag k.text
  owner : ∀ i k, s.tasks i = some k → k.pc.holds = true → s.lock = some i
  unpub : ∀ i k, s.tasks i = some k → k.pc ≠ .unlocking → ∀ p ∈ s.log k.uri, p.1 ≠ i
  checked_max : ∀ i k d, s.tasks i = some k → k.pc = .checked d → ∀ p ∈ s.log k.uri, p.1 < i
  pub_ver : ∀ u v, s.ver u = some v → ∀ p ∈ s.log u, p.1 ≤ v
  main : ∀ u t v, s.docs u = some t → s.ver u = some v →
     (∃ k, s.tasks v = some k ∧ k.uri = u ∧ k.pc ≠ .unlocking) ∨
     ((s.log u).getLast? = some (v, diag t))
  sorted : ∀ u, ((s.log u).map (·.1)).Pairwise (· < ·)

theorem inv_spawn {diag : Text → Diags} {s : St Text Diags} (h : Inv diag s) (u : Uri) (t : Text) :
    Inv diag (spawn s u t) := by
  obtain ⟨h1,h2,h3,h4,h5,h6,h7,h8,h9,h10,h11,h12,h13⟩ := h
  constructor
  case main =>
    intro u' t' v' hd hv
    simp only [spawn, upd] at hd hv ⊢
    by_cases hu : u' = u
    · subst hu
      simp at hd hv
      subst hv
      left; simp
    · simp [hu] at hd hv
      have hle := h2 _ _ hv
      have : v' ≠ s.seq + 1 := by omega
      simp [this]
      exact h12 _ _ _ hd hv
  all_goals (simp only [spawn, upd]; grind [PC.diag?, PC.holds])
theorem inv_close {diag : Text → Diags} {s : St Text Diags} (h : Inv diag s) (u : Uri) :
    Inv diag { s with docs := upd s.docs u none, ver := upd s.ver u none } := by
  obtain ⟨h1,h2,h3,h4,h5,h6,h7,h8,h9,h10,h11,h12,h13⟩ := h
  constructor
  all_goals (simp only [upd]; grind [PC.diag?, PC.holds])
theorem inv_analyse {diag : Text → Diags} {s : St Text Diags} (h : Inv diag s) (i : Nat) (k : Task Text Diags)
    (hk : s.tasks i = some k) (hpc : k.pc = .start) :
    Inv diag (setPc s i k (.ready (diag k.text))) := by
  obtain ⟨h1,h2,h3,h4,h5,h6,h7,h8,h9,h10,h11,h12,h13⟩ := h
  constructor
  all_goals (simp only [setPc, upd]; grind [PC.diag?, PC.holds])
theorem inv_lock {diag : Text → Diags} {s : St Text Diags} (h : Inv diag s) (i : Nat) (k : Task Text Diags) (d : Diags)
    (hl : s.lock = none) (hk : s.tasks i = some k) (hpc : k.pc = .ready d) :
    Inv diag { setPc s i k (.locked d) with lock := some i } := by
  obtain ⟨h1,h2,h3,h4,h5,h6,h7,h8,h9,h10,h11,h12,h13⟩ := h
  constructor
  all_goals (simp only [setPc, upd]; grind [PC.diag?, PC.holds])
theorem inv_check {diag : Text → Diags} {s : St Text Diags} (h : Inv diag s) (i : Nat) (k : Task Text Diags) (d : Diags)
    (hk : s.tasks i = some k) (hpc : k.pc = .locked d) :
    Inv diag (setPc s i k (if s.ver k.uri = some i then .checked d else .unlocking)) := by
  obtain ⟨h1,h2,h3,h4,h5,h6,h7,h8,h9,h10,h11,h12,h13⟩ := h
  constructor
  all_goals (simp only [setPc, upd]; grind [PC.diag?, PC.holds])
theorem inv_publish {diag : Text → Diags} {s : St Text Diags} (h : Inv diag s) (i : Nat) (k : Task Text Diags) (d : Diags)
    (hk : s.tasks i = some k) (hpc : k.pc = .checked d) :
    Inv diag { setPc s i k .unlocking with log := upd s.log k.uri (s.log k.uri ++ [(i, d)]) } := by
  obtain ⟨h1,h2,h3,h4,h5,h6,h7,h8,h9,h10,h11,h12,h13⟩ := h
  constructor
  case task_le => simp only [setPc, upd]; grind [PC.diag?, PC.holds]
  case ver_le => simp only [setPc, upd]; grind [PC.diag?, PC.holds]
  case pub_le => simp only [setPc, upd]; grind [PC.diag?, PC.holds]
  case docs_ver => simp only [setPc, upd]; grind [PC.diag?, PC.holds]
  case task_ver => simp only [setPc, upd]; grind [PC.diag?, PC.holds]
  case cur_text => simp only [setPc, upd]; grind [PC.diag?, PC.holds]
  case pc_diag => simp only [setPc, upd]; grind [PC.diag?, PC.holds]
  case owner => simp only [setPc, upd]; grind [PC.diag?, PC.holds]
  case unpub => simp only [setPc, upd]; grind [PC.diag?, PC.holds]
  case checked_max => simp only [setPc, upd]; grind [PC.diag?, PC.holds]
  case pub_ver => simp only [setPc, upd]; grind [PC.diag?, PC.holds]
  case main =>
    intro u t v hd hv
    simp only [setPc, upd] at hd hv ⊢
    by_cases hu : u = k.uri
    · subst hu
      simp only [if_true]
      by_cases hvi : v = i
      · subst hvi
        right
        have ht := h6 _ _ hk hv
        have hdd := h7 v k d hk (by simp [hpc, PC.diag?])
        rw [ht] at hd
        simp at hd
        simp [hdd, hd]
      · left
        rcases h12 _ _ _ hd hv with ⟨k', hk', hu', hp'⟩ | hlast
        · exact ⟨k', by simp [hvi, hk'], hu', hp'⟩
        · exfalso
          have hm := List.mem_of_getLast? hlast
          have h1' := h10 _ _ _ hk hpc _ hm
          have h2' := h5 _ _ _ hk hv
          simp at h1'
          omega
    · simp only [hu, if_false]
      rcases h12 _ _ _ hd hv with ⟨k', hk', hu', hp'⟩ | hlast
      · left
        have hvi : v ≠ i := by
          intro hvi; subst hvi; rw [hk] at hk'; simp at hk'; subst hk'; exact hu hu'.symm
        exact ⟨k', by simp [hvi, hk'], hu', hp'⟩
      · right; exact hlast
  case sorted => simp only [setPc, upd]; grind [PC.diag?, PC.holds]

theorem inv_unlock {diag : Text → Diags} {s : St Text Diags} (h : Inv diag s) (i : Nat) (k : Task Text Diags)
    (hk : s.tasks i = some k) (hpc : k.pc = .unlocking) :
    Inv diag { s with tasks := upd s.tasks i none, lock := none } := by
  obtain ⟨h1,h2,h3,h4,h5,h6,h7,h8,h9,h10,h11,h12,h13⟩ := h
  constructor
  all_goals (simp only [upd]; grind [PC.diag?, PC.holds])

theorem inv_init (diag : Text → Diags) : Inv diag (St.init : St Text Diags) := by
  constructor <;> simp [St.init]

theorem inv_step {diag : Text → Diags} {s s' : St Text Diags} (h : Inv diag s) (e : Ev Text)
    (hs : step? diag true s e = some s') : Inv diag s' := by
  cases e with
  | openDoc u t => simp only [step?, Option.some.injEq] at hs; subst hs; exact inv_spawn h u t
  | change u t =>
    simp only [step?] at hs
    split at hs <;> simp only [Option.some.injEq] at hs <;> subst hs
    · exact h
    · exact inv_spawn h u t
  | close u => simp only [step?, Option.some.injEq] at hs; subst hs; exact inv_close h u
  | analyse i =>
    simp only [step?] at hs
    split at hs
    · split at hs
      · simp only [Option.some.injEq] at hs; subst hs; exact inv_analyse h i _ ‹_› ‹_›
      · simp at hs
    · simp at hs
  | lock i =>
    simp only [step?] at hs
    split at hs
    · split at hs
      · simp only [Option.some.injEq] at hs; subst hs; exact inv_lock h i _ _ ‹_› ‹_› ‹_›
      · simp at hs
    · simp at hs
  | check i =>
    simp only [step?] at hs
    split at hs
    · split at hs
      · simp only [Option.some.injEq] at hs; subst hs; exact inv_check h i _ _ ‹_› ‹_›
      · simp at hs
    · simp at hs
  | publish i =>
    simp only [step?] at hs
    split at hs
    · split at hs
      · simp only [Option.some.injEq] at hs; subst hs; exact inv_publish h i _ _ ‹_› ‹_›
      · simp at *
      · simp at hs
    · simp at hs
  | unlock i =>
    simp only [step?] at hs
    split at hs
    · split at hs
      · simp only [Option.some.injEq] at hs; subst hs; exact inv_unlock h i _ ‹_› ‹_›
      · simp at hs
    · simp at hs

theorem inv_step_total {diag : Text → Diags} {s : St Text Diags} (h : Inv diag s) (e : Ev Text) :
    Inv diag (step diag true s e) := by
  unfold step
  cases hs : step? diag true s e with
  | none => exact h
  | some s' => exact inv_step h e hs

theorem inv_foldl {diag : Text → Diags} (es : List (Ev Text)) {s : St Text Diags} (h : Inv diag s) :
    Inv diag (es.foldl (step diag true) s) := by
  induction es generalizing s with
  | nil => exact h
  | cons e es ih => exact ih (inv_step_total h e)

/-- The invariant holds after every finite trace of the repaired server. -/
theorem inv_run (diag : Text → Diags) (es : List (Ev Text)) : Inv diag (run diag true es) :=
  inv_foldl es (inv_init diag)

end HL.Srv
