import HL.Model.Srv
/-!
# The inductive invariant of the repaired publish protocol (`guarded := true`)

`Inv diag s` holds in the initial state and is preserved by every enabled transition of
`HL.Srv.step? diag true` (`inv_step`), hence in every state reached by any finite trace
(`inv_run`).  `Props/C13.lean` reads the property off the invariant.
-/
set_option linter.unusedSimpArgs false

namespace HL.Srv
variable {Text Diags : Type}

/-- * `task_le`, `ver_le`, `pub_le`: every version in use was issued by the counter.
    * `docs_ver`: `documents` and `docVersions` have the same keys (both are written by the handler
      thread in the same event).
    * `task_ver`: the version table of a URI always holds the newest version issued for it, so no
      task is ahead of it.
    * `cur_text`: the task that carries the current version carries the current text.
    * `pc_diag`: the diagnostics a task carries were computed from the text it captured.
    * `owner`: mutual exclusion — whoever is between Lock and Unlock is the owner of `publishMu`.
    * `unpub`: a task that has not yet published has no entry in the client's log.
    * `checked_max`: a task that passed the version check (and still holds the mutex) is newer
      than everything published for its URI.
    * `pub_ver`: nothing newer than the current version has been published.
    * `main`: for each open URI, either the task of the current version is still in flight and has
      not published yet, or the client's last notification for the URI is that version's, with
      the diagnostics of the current text.
    * `sorted`: the versions in the client's log of a URI are strictly increasing.
    * `lock_live`: `publishMu` is only ever held by a task that is still running (used for progress). -/
structure Inv (diag : Text → Diags) (s : St Text Diags) : Prop where
  task_le : ∀ i k, s.tasks i = some k → i ≤ s.seq
  ver_le : ∀ u v, s.ver u = some v → v ≤ s.seq
  pub_le : ∀ u p, p ∈ s.log u → p.1 ≤ s.seq
  docs_ver : ∀ u, (s.docs u).isSome = (s.ver u).isSome
  task_ver : ∀ i k v, s.tasks i = some k → s.ver k.uri = some v → i ≤ v
  cur_text : ∀ i k, s.tasks i = some k → s.ver k.uri = some i → s.docs k.uri = some k.text
  pc_diag : ∀ i k d, s.tasks i = some k → k.pc.diag? = some d → d = diag k.text
  owner : ∀ i k, s.tasks i = some k → k.pc.holds = true → s.lock = some i
  unpub : ∀ i k, s.tasks i = some k → k.pc ≠ .unlocking → ∀ p ∈ s.log k.uri, p.1 ≠ i
  checked_max : ∀ i k d, s.tasks i = some k → k.pc = .checked d → ∀ p ∈ s.log k.uri, p.1 < i
  pub_ver : ∀ u v, s.ver u = some v → ∀ p ∈ s.log u, p.1 ≤ v
  main : ∀ u t v, s.docs u = some t → s.ver u = some v →
     (∃ k, s.tasks v = some k ∧ k.uri = u ∧ k.pc ≠ .unlocking) ∨
     ((s.log u).getLast? = some (v, diag t))
  sorted : ∀ u, ((s.log u).map (·.1)).Pairwise (· < ·)
  lock_live : ∀ i, s.lock = some i → ∃ k, s.tasks i = some k ∧ k.pc.holds = true

theorem inv_spawn {diag : Text → Diags} {s : St Text Diags} (h : Inv diag s) (u : Uri) (t : Text) :
    Inv diag (spawn s u t) := by
  obtain ⟨h1,h2,h3,h4,h5,h6,h7,h8,h9,h10,h11,h12,h13,h14⟩ := h
  constructor
  case main =>
    intro u' t' v' hd hv
    simp only [spawn, upd] at hd hv ⊢
    by_cases hu : u' = u
    · subst hu
      simp at hd hv
      subst hv
      left; simp
    · simp [hu] at hd hv
      have hle := h2 _ _ hv
      have : v' ≠ s.seq + 1 := by omega
      simp [this]
      exact h12 _ _ _ hd hv
  all_goals (simp only [spawn, upd]; grind [PC.diag?, PC.holds])
theorem inv_close {diag : Text → Diags} {s : St Text Diags} (h : Inv diag s) (u : Uri) :
    Inv diag { s with docs := upd s.docs u none, ver := upd s.ver u none } := by
  obtain ⟨h1,h2,h3,h4,h5,h6,h7,h8,h9,h10,h11,h12,h13,h14⟩ := h
  constructor
  all_goals (simp only [upd]; grind [PC.diag?, PC.holds])
theorem inv_analyse {diag : Text → Diags} {s : St Text Diags} (h : Inv diag s) (i : Nat) (k : Task Text Diags)
    (hk : s.tasks i = some k) (hpc : k.pc = .start) :
    Inv diag (setPc s i k (.ready (diag k.text))) := by
  obtain ⟨h1,h2,h3,h4,h5,h6,h7,h8,h9,h10,h11,h12,h13,h14⟩ := h
  constructor
  all_goals (simp only [setPc, upd]; grind [PC.diag?, PC.holds])
theorem inv_lock {diag : Text → Diags} {s : St Text Diags} (h : Inv diag s) (i : Nat) (k : Task Text Diags) (d : Diags)
    (hl : s.lock = none) (hk : s.tasks i = some k) (hpc : k.pc = .ready d) :
    Inv diag { setPc s i k (.locked d) with lock := some i } := by
  obtain ⟨h1,h2,h3,h4,h5,h6,h7,h8,h9,h10,h11,h12,h13,h14⟩ := h
  constructor
  all_goals (simp only [setPc, upd]; grind [PC.diag?, PC.holds])
theorem inv_check {diag : Text → Diags} {s : St Text Diags} (h : Inv diag s) (i : Nat) (k : Task Text Diags) (d : Diags)
    (hk : s.tasks i = some k) (hpc : k.pc = .locked d) :
    Inv diag (setPc s i k (if s.ver k.uri = some i then .checked d else .unlocking)) := by
  obtain ⟨h1,h2,h3,h4,h5,h6,h7,h8,h9,h10,h11,h12,h13,h14⟩ := h
  constructor
  all_goals (simp only [setPc, upd]; grind [PC.diag?, PC.holds])
theorem inv_publish {diag : Text → Diags} {s : St Text Diags} (h : Inv diag s) (i : Nat) (k : Task Text Diags) (d : Diags)
    (hk : s.tasks i = some k) (hpc : k.pc = .checked d) :
    Inv diag { setPc s i k .unlocking with log := upd s.log k.uri (s.log k.uri ++ [(i, d)]) } := by
  obtain ⟨h1,h2,h3,h4,h5,h6,h7,h8,h9,h10,h11,h12,h13,h14⟩ := h
  constructor
  case task_le => simp only [setPc, upd]; grind [PC.diag?, PC.holds]
  case ver_le => simp only [setPc, upd]; grind [PC.diag?, PC.holds]
  case pub_le => simp only [setPc, upd]; grind [PC.diag?, PC.holds]
  case docs_ver => simp only [setPc, upd]; grind [PC.diag?, PC.holds]
  case task_ver => simp only [setPc, upd]; grind [PC.diag?, PC.holds]
  case cur_text => simp only [setPc, upd]; grind [PC.diag?, PC.holds]
  case pc_diag => simp only [setPc, upd]; grind [PC.diag?, PC.holds]
  case owner => simp only [setPc, upd]; grind [PC.diag?, PC.holds]
  case unpub => simp only [setPc, upd]; grind [PC.diag?, PC.holds]
  case checked_max => simp only [setPc, upd]; grind [PC.diag?, PC.holds]
  case pub_ver => simp only [setPc, upd]; grind [PC.diag?, PC.holds]
  case main =>
    intro u t v hd hv
    simp only [setPc, upd] at hd hv ⊢
    by_cases hu : u = k.uri
    · subst hu
      simp only [if_true]
      by_cases hvi : v = i
      · subst hvi
        right
        have ht := h6 _ _ hk hv
        have hdd := h7 v k d hk (by simp [hpc, PC.diag?])
        rw [ht] at hd
        simp at hd
        simp [hdd, hd]
      · left
        rcases h12 _ _ _ hd hv with ⟨k', hk', hu', hp'⟩ | hlast
        · exact ⟨k', by simp [hvi, hk'], hu', hp'⟩
        · exfalso
          have hm := List.mem_of_getLast? hlast
          have h1' := h10 _ _ _ hk hpc _ hm
          have h2' := h5 _ _ _ hk hv
          simp at h1'
          omega
    · simp only [hu, if_false]
      rcases h12 _ _ _ hd hv with ⟨k', hk', hu', hp'⟩ | hlast
      · left
        have hvi : v ≠ i := by
          intro hvi; subst hvi; rw [hk] at hk'; simp at hk'; subst hk'; exact hu hu'.symm
        exact ⟨k', by simp [hvi, hk'], hu', hp'⟩
      · right; exact hlast
  case sorted => simp only [setPc, upd]; grind [PC.diag?, PC.holds]
  case lock_live => simp only [setPc, upd]; grind [PC.diag?, PC.holds]

theorem inv_unlock {diag : Text → Diags} {s : St Text Diags} (h : Inv diag s) (i : Nat) (k : Task Text Diags)
    (hk : s.tasks i = some k) (hpc : k.pc = .unlocking) :
    Inv diag { s with tasks := upd s.tasks i none, lock := none } := by
  obtain ⟨h1,h2,h3,h4,h5,h6,h7,h8,h9,h10,h11,h12,h13,h14⟩ := h
  constructor
  all_goals (simp only [upd]; grind [PC.diag?, PC.holds])

theorem inv_init (diag : Text → Diags) : Inv diag (St.init : St Text Diags) := by
  constructor <;> simp [St.init]

theorem inv_step {diag : Text → Diags} {s s' : St Text Diags} (h : Inv diag s) (e : Ev Text)
    (hs : step? diag true s e = some s') : Inv diag s' := by
  cases e with
  | openDoc u t => simp only [step?, Option.some.injEq] at hs; subst hs; exact inv_spawn h u t
  | change u t =>
    simp only [step?] at hs
    split at hs <;> simp only [Option.some.injEq] at hs <;> subst hs
    · exact h
    · exact inv_spawn h u t
  | close u => simp only [step?, Option.some.injEq] at hs; subst hs; exact inv_close h u
  | analyse i =>
    simp only [step?] at hs
    split at hs
    · split at hs
      · simp only [Option.some.injEq] at hs; subst hs; exact inv_analyse h i _ ‹_› ‹_›
      · simp at hs
    · simp at hs
  | lock i =>
    simp only [step?] at hs
    split at hs
    · split at hs
      · simp only [Option.some.injEq] at hs; subst hs; exact inv_lock h i _ _ ‹_› ‹_› ‹_›
      · simp at hs
    · simp at hs
  | check i =>
    simp only [step?] at hs
    split at hs
    · split at hs
      · simp only [Option.some.injEq] at hs; subst hs; exact inv_check h i _ _ ‹_› ‹_›
      · simp at hs
    · simp at hs
  | publish i =>
    simp only [step?] at hs
    split at hs
    · split at hs
      · simp only [Option.some.injEq] at hs; subst hs; exact inv_publish h i _ _ ‹_› ‹_›
      · simp at *
      · simp at hs
    · simp at hs
  | unlock i =>
    simp only [step?] at hs
    split at hs
    · split at hs
      · simp only [Option.some.injEq] at hs; subst hs; exact inv_unlock h i _ ‹_› ‹_›
      · simp at hs
    · simp at hs

theorem inv_step_total {diag : Text → Diags} {s : St Text Diags} (h : Inv diag s) (e : Ev Text) :
    Inv diag (step diag true s e) := by
  unfold step
  cases hs : step? diag true s e with
  | none => exact h
  | some s' => exact inv_step h e hs

theorem inv_foldl {diag : Text → Diags} (es : List (Ev Text)) {s : St Text Diags} (h : Inv diag s) :
    Inv diag (es.foldl (step diag true) s) := by
  induction es generalizing s with
  | nil => exact h
  | cons e es ih => exact ih (inv_step_total h e)

/-- The invariant holds after every finite trace of the repaired server. -/
theorem inv_run (diag : Text → Diags) (es : List (Ev Text)) : Inv diag (run diag true es) :=
  inv_foldl es (inv_init diag)

/-! ## Progress: the tasks can always run to completion -/

def Ev.isTask : Ev Text → Bool
  | .openDoc _ _ | .change _ _ | .close _ => false
  | _ => true

/-- Steps a task still has to take. -/
def PC.rem : PC Diags → Nat
  | .start => 5 | .ready _ => 4 | .locked _ => 3 | .checked _ => 2 | .unlocking => 1

def remT : Option (Task Text Diags) → Nat
  | none => 0
  | some k => k.pc.rem

def sumTo (f : Nat → Nat) : Nat → Nat
  | 0 => f 0
  | n + 1 => sumTo f n + f (n + 1)

theorem sumTo_upd (f : Nat → Nat) (i v n : Nat) (h : i ≤ n) :
    sumTo (upd f i v) n + f i = sumTo f n + v := by
  induction n with
  | zero => have : i = 0 := by omega
            subst this; simp [sumTo, upd]; omega
  | succ n ih =>
    simp only [sumTo]
    by_cases hi : i = n + 1
    · subst hi
      have : sumTo (upd f (n+1) v) n = sumTo f n := by
        clear ih h
        have : ∀ m, m ≤ n → sumTo (upd f (n+1) v) m = sumTo f m := by
          intro m hm
          induction m with
          | zero => simp [sumTo, upd]
          | succ m ihm => simp only [sumTo]; rw [ihm (by omega)]; simp [upd]; omega
        exact this n (Nat.le_refl n)
      rw [this]; simp [upd]; omega
    · have := ih (by omega)
      have h2 : upd f i v (n+1) = f (n+1) := by simp [upd]; omega
      rw [h2]; omega

/-- Total number of task steps outstanding. -/
def work (s : St Text Diags) : Nat := sumTo (fun i => remT (s.tasks i)) s.seq

theorem work_upd (s : St Text Diags) (i : Nat) (x : Option (Task Text Diags)) (h : i ≤ s.seq) :
    sumTo (fun j => remT (upd s.tasks i x j)) s.seq + remT (s.tasks i) = work s + remT x := by
  have : (fun j => remT (upd s.tasks i x j)) = upd (fun j => remT (s.tasks j)) i (remT x) := by
    funext j; simp only [upd]; split <;> rfl
  rw [this]; exact sumTo_upd _ i _ _ h

theorem work_lt (s s' : St Text Diags) (i : Nat) (x : Option (Task Text Diags)) (k : Task Text Diags)
    (hk : s.tasks i = some k) (hi : i ≤ s.seq) (hx : remT x < k.pc.rem)
    (ht : s'.tasks = upd s.tasks i x) (hseq : s'.seq = s.seq) : work s' < work s := by
  have h := work_upd s i x hi
  rw [hk] at h
  have h2 : remT (some k) = k.pc.rem := rfl
  rw [h2] at h
  have : work s' = sumTo (fun j => remT (upd s.tasks i x j)) s.seq := by
    simp only [work, ht, hseq]
  omega

/-- In every reachable state that is not quiescent some task step is enabled, and it reduces the
    outstanding work: no deadlock on `publishMu`, no livelock. -/
theorem progress {diag : Text → Diags} {s : St Text Diags} (h : Inv diag s) (hq : ¬ Quiescent s) :
    ∃ e s', Ev.isTask e = true ∧ step? diag true s e = some s' ∧ work s' < work s ∧ s'.docs = s.docs := by
  have ⟨i, hi⟩ := Classical.not_forall.mp hq
  have ⟨hi, hne⟩ := Classical.not_imp.mp hi
  cases hk : s.tasks i with
  | none => exact absurd hk hne
  | some k =>
  cases hl : s.lock with
  | none =>
    have nh : k.pc.holds = false := by
      cases hh : k.pc.holds with
      | false => rfl
      | true => have := h.owner i k hk hh; rw [hl] at this; cases this
    cases hpc : k.pc with
    | start =>
      refine ⟨.analyse i, setPc s i k (.ready (diag k.text)), rfl, by simp [step?, hk, hpc], ?_, rfl⟩
      exact work_lt s _ i _ k hk hi (by simp [remT, hpc, PC.rem]) rfl rfl
    | ready d =>
      refine ⟨.lock i, { setPc s i k (.locked d) with lock := some i }, rfl, by simp [step?, hk, hpc, hl], ?_, rfl⟩
      exact work_lt s _ i _ k hk hi (by simp [remT, hpc, PC.rem]) rfl rfl
    | locked d => simp [hpc, PC.holds] at nh
    | checked d => simp [hpc, PC.holds] at nh
    | unlocking => simp [hpc, PC.holds] at nh
  | some j =>
    obtain ⟨kj, hkj, hh⟩ := h.lock_live j hl
    have hj := h.task_le j kj hkj
    cases hpc : kj.pc with
    | start => simp [hpc, PC.holds] at hh
    | ready d => simp [hpc, PC.holds] at hh
    | locked d =>
      refine ⟨.check j, setPc s j kj (if s.ver kj.uri = some j then .checked d else .unlocking), rfl,
        by simp [step?, hkj, hpc], ?_, rfl⟩
      refine work_lt s _ j _ kj hkj hj ?_ rfl rfl
      by_cases hv : s.ver kj.uri = some j <;> simp [remT, hpc, hv, PC.rem]
    | checked d =>
      refine ⟨.publish j, { setPc s j kj .unlocking with log := upd s.log kj.uri (s.log kj.uri ++ [(j, d)]) }, rfl,
        by simp [step?, hkj, hpc], ?_, rfl⟩
      exact work_lt s _ j _ kj hkj hj (by simp [remT, hpc, PC.rem]) rfl rfl
    | unlocking =>
      refine ⟨.unlock j, { s with tasks := upd s.tasks j none, lock := none }, rfl,
        by simp [step?, hkj, hpc], ?_, rfl⟩
      exact work_lt s _ j _ kj hkj hj (by simp [remT, hpc, PC.rem]) rfl rfl

/-- From every state satisfying the invariant, some finite sequence of task steps (no
    notification) leads to a quiescent state, leaving the documents as they are. -/
theorem drain {diag : Text → Diags} (n : Nat) (s : St Text Diags) (h : Inv diag s) (hw : work s ≤ n) :
    ∃ es : List (Ev Text), (∀ e ∈ es, Ev.isTask e = true) ∧
      Quiescent (es.foldl (step diag true) s) ∧ (es.foldl (step diag true) s).docs = s.docs := by
  induction n generalizing s with
  | zero =>
    by_cases hq : Quiescent s
    · exact ⟨[], by simp, hq, rfl⟩
    · obtain ⟨e, s', _, _, hlt, _⟩ := progress h hq; omega
  | succ n ih =>
    by_cases hq : Quiescent s
    · exact ⟨[], by simp, hq, rfl⟩
    · obtain ⟨e, s', het, hs, hlt, hd⟩ := progress h hq
      obtain ⟨es, hall, hqq, hdd⟩ := ih s' (inv_step h e hs) (by omega)
      have hstep : step diag true s e = s' := by simp [step, hs]
      refine ⟨e :: es, ?_, ?_, ?_⟩
      · intro x hx
        rcases List.mem_cons.mp hx with rfl | hx
        · exact het
        · exact hall x hx
      · simpa [List.foldl_cons, hstep] using hqq
      · simp only [List.foldl_cons, hstep]; rw [hdd, hd]

end HL.Srv
