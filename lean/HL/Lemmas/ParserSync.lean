import HL.Lemmas.ParserYear
/-
  Resynchronisation at blank lines (token level, list source).

  `sync`: if the token stream in front of the journal loop is `X ++ nl :: y0 :: Y'` with `nl`
  a Newline token, `y0` neither an Indent nor a Newline (the first token of a line that starts
  in column 1) and no EOF inside `X`, then the loop comes back to its head with exactly
  `y0 :: Y'` in front of it: the result of the whole run is the items parsed from `X ++ [nl]`
  pushed onto the result of the run from `y0 :: Y'`, and every error raised on the way sits on
  a token of `X ++ [nl]`.  (`X` may itself end in Newline tokens: blank lines.)
-/
namespace HL.Parser
open HL HL.Ast

variable (num : NumDeps) (cls : Classes)

/-- The journal after the items of several loop iterations have been pushed onto the journal
    of the rest (`parseJournalF` conses in iteration order). -/
def pushAll (items : List Item) (j : Journal) : Journal := items.foldr (fun it j => jpush j it) j

def itemsTx : List Item → List Transaction
  | [] => []
  | .tx t :: r => t :: itemsTx r
  | _ :: r => itemsTx r
def itemsDir : List Item → List Directive
  | [] => []
  | .dir d :: r => d :: itemsDir r
  | _ :: r => itemsDir r
def itemsComment : List Item → List Comment
  | [] => []
  | .comment c :: r => c :: itemsComment r
  | _ :: r => itemsComment r
def itemsIncl : List Item → List Include
  | [] => []
  | .incl i :: r => i :: itemsIncl r
  | _ :: r => itemsIncl r

/-- Pushing items only adds in front of each list of the journal, in order. -/
theorem pushAll_eq (items : List Item) (j : Journal) :
    pushAll items j = ⟨itemsTx items ++ j.transactions, itemsDir items ++ j.directives,
      itemsComment items ++ j.comments, itemsIncl items ++ j.includes⟩ := by
  induction items with
  | nil => simp [pushAll, itemsTx, itemsDir, itemsComment, itemsIncl]
  | cons it r ih =>
    have : pushAll (it :: r) j = jpush (pushAll r j) it := rfl
    rw [this, ih]
    cases it <;> simp [jpush, itemsTx, itemsDir, itemsComment, itemsIncl]

theorem pushAll_append (a b : List Item) (j : Journal) : pushAll (a ++ b) j = pushAll a (pushAll b j) := by
  simp [pushAll, List.foldr_append]

theorem strm_eq_cons {st : PState (List Token)} {y Y} (h : strm st = y :: Y) :
    st = ⟨Y, y, st.errors, st.defaultYear⟩ := by
  cases st; simp [strm] at h; simp [h.1, h.2]

theorem measure_list (st : PState (List Token)) :
    measure (listEnv num cls) st = if st.current.ty = .eof then 0 else st.src.length + 1 := rfl

theorem exists_first_eof (L : List Token) (h : ∃ t ∈ L, t.ty = .eof) :
    ∃ Y1 e Q, L = Y1 ++ e :: Q ∧ e.ty = .eof ∧ ∀ t ∈ Y1, t.ty ≠ .eof := by
  induction L with
  | nil => simp at h
  | cons x r ih =>
    by_cases hx : x.ty = .eof
    · exact ⟨[], x, r, rfl, hx, by simp⟩
    · obtain ⟨t, ht, he⟩ := h
      simp at ht
      rcases ht with ht | ht
      · rw [ht] at he; exact absurd he hx
      · obtain ⟨Y1, e, Q, h1, h2, h3⟩ := ih ⟨t, ht, he⟩
        refine ⟨x :: Y1, e, Q, by simp [h1], h2, ?_⟩
        intro t' ht'
        simp at ht'
        rcases ht' with h | h
        · rw [h]; exact hx
        · exact h3 t' h

theorem nc_cross (tl : Nat) (X R : List Token) (t1 t2 : Token) (h1 : t1.ty = .newline)
    (h2 : t2.ty ≠ .indent) (h3 : t2.ty ≠ .newline) : nc tl (X ++ t1 :: t2 :: R) = none := by
  rw [nc_append]
  cases nc tl X with
  | none => rfl
  | some k =>
    simp only [Option.bind_some, nc]
    have hs1 : ncStep k t1 = some 1 := by simp [ncStep, h1]
    simp only [hs1]
    simp [ncStep, h2, h3]

theorem journalStep_newline {σ} (E : Env σ) (st : PState σ) (h : st.current.ty = .newline) :
    journalStep E st = (.nothing, advance E st) := by
  unfold journalStep; simp [h]

/-- One iteration of the journal loop, seen on the token stream. -/
theorem step_stream (st : PState (List Token)) (P : List Token) (e : Token) (Q : List Token)
    (hs : strm st = P ++ e :: Q) (he : e.ty = .eof) (hP : ∀ t ∈ P, t.ty ≠ .eof)
    (hne : st.current.ty ≠ .eof) :
    ∃ C P' new, C ≠ [] ∧ P = C ++ P' ∧ strm (journalStep (listEnv num cls) st).2 = P' ++ e :: Q ∧
      (nc 0 C).isSome ∧ (journalStep (listEnv num cls) st).2.errors = st.errors ++ new ∧
      ∀ x ∈ new, ∃ t ∈ okSites (C ++ [(journalStep (listEnv num cls) st).2.current]), x.pos = t.pos := by
  obtain ⟨C, new, r, hnc, herr, hpos⟩ := RC.elim _ (journalStep_RC (listEnv num cls) st)
  obtain ⟨P', hP', hs'⟩ := Reach.stream num cls r P e Q hs he hP
  refine ⟨C, P', new, ?_, hP', hs', hnc, herr, hpos⟩
  intro hC
  have hlt := journalStep_lt (listEnv num cls) (listEnv_decr num cls) st hne
  have hsame := r.nil_same _ hC
  rw [measure_list, measure_list, hsame.1, hsame.2] at hlt
  omega

theorem measure_le_strm (st : PState (List Token)) : measure (listEnv num cls) st ≤ (strm st).length := by
  rw [measure_list]; split <;> simp [strm]

theorem lastNL_seed {p q : Bool} {L : List Token} (h : L ≠ []) : lastNL p L = lastNL q L := by
  cases L with
  | nil => exact absurd rfl h
  | cons t r => rfl

/-- Where the errors raised while consuming `X ++ [nl]` may sit: on a token of `X`, or on the
    closing Newline `nl` when `X` is non-empty and does not itself end in a Newline. -/
def ErrZone (X : List Token) (nl : Token) (new : List ParseError) : Prop :=
  ∀ x ∈ new, ∃ t, x.pos = t.pos ∧ (t ∈ X ∨ (t = nl ∧ lastNL true X = false))

theorem ErrZone.weaken {X nl new} (h : ErrZone X nl new) : ∀ x ∈ new, ∃ t ∈ X ++ [nl], x.pos = t.pos := by
  intro x hx
  obtain ⟨t, hp, ht⟩ := h x hx
  refine ⟨t, ?_, hp⟩
  rcases ht with h | h
  · simp [h]
  · simp [h.1]

/-- Error sites of one iteration that consumed `C` and stopped in front of the Newline `nl`. -/
theorem okSites_before_nl {C : List Token} {nl t : Token} (hC : C ≠ []) (ht : t ∈ okSites (C ++ [nl])) :
    t ∈ C ∨ (t = nl ∧ lastNL true C = false) := by
  unfold okSites at ht
  rw [okSitesAux_append] at ht
  simp only [List.mem_append] at ht
  rcases ht with h | h
  · exact Or.inl (okSitesAux_sub _ _ t h)
  · right
    rw [lastNL_seed (p := true) (q := false) hC]
    cases hl : lastNL false C with
    | true => rw [hl] at h; simp [okSitesAux] at h
    | false => rw [hl] at h; simp [okSitesAux] at h; exact ⟨h, rfl⟩

/-- Error sites of one iteration that consumed `X ++ [nl]` and stopped in front of `y0`. -/
theorem okSites_after_nl {X : List Token} {nl y0 t : Token} (h1 : nl.ty = .newline) (hX : X ≠ [])
    (ht : t ∈ okSites (X ++ [nl] ++ [y0])) : t ∈ X ∨ (t = nl ∧ lastNL true X = false) := by
  unfold okSites at ht
  rw [okSitesAux_append, okSitesAux_append] at ht
  have hl : lastNL false (X ++ [nl]) = true := by rw [lastNL_append]; simp [lastNL, h1]
  rw [hl] at ht
  simp only [List.mem_append] at ht
  rcases ht with (h | h) | h
  · exact Or.inl (okSitesAux_sub _ _ t h)
  · right
    rw [lastNL_seed (p := true) (q := false) hX]
    cases hl2 : lastNL false X with
    | true => rw [hl2] at h; simp [okSitesAux] at h
    | false => rw [hl2] at h; simp [okSitesAux] at h; exact ⟨h, rfl⟩
  · simp [okSitesAux] at h

/-- The line-end resynchronisation theorem (see the file header). -/
theorem sync (y0 : Token) (Y' : List Token) (nl : Token) (h1 : nl.ty = .newline)
    (hy : y0.ty ≠ .indent) (hy' : y0.ty ≠ .newline) (hE : ∃ t ∈ y0 :: Y', t.ty = .eof) :
    ∀ (k : Nat) (X : List Token) (st : PState (List Token)), X.length ≤ k → (∀ t ∈ X, t.ty ≠ .eof) →
      strm st = X ++ nl :: y0 :: Y' →
      ∃ items new dy, ErrZone X nl new ∧ ((∀ t ∈ X, t.ty ≠ .directive) → dy = st.defaultYear) ∧
        ∀ n m, measure (listEnv num cls) st ≤ n →
          measure (listEnv num cls) ⟨Y', y0, st.errors ++ new, dy⟩ ≤ m →
          parseJournalF (listEnv num cls) n st =
            (pushAll items (parseJournalF (listEnv num cls) m ⟨Y', y0, st.errors ++ new, dy⟩).1,
             (parseJournalF (listEnv num cls) m ⟨Y', y0, st.errors ++ new, dy⟩).2) := by
  obtain ⟨Y1, e, Q, hY, he, hY1⟩ := exists_first_eof _ hE
  intro k
  induction k with
  | zero =>
    intro X st hk hX hs
    have hX0 : X = [] := List.eq_nil_of_length_eq_zero (by omega)
    subst hX0
    -- one Newline iteration
    have hc1 : st.current = nl := by simp [strm] at hs; exact hs.1
    have hsrc : st.src = y0 :: Y' := by simp [strm] at hs; exact hs.2
    refine ⟨[.nothing], [], st.defaultYear, by simp [ErrZone], fun _ => rfl, ?_⟩
    intro n m hn hm
    have hne : st.current.ty ≠ .eof := by rw [hc1, h1]; simp
    have hm1 : measure (listEnv num cls) st = Y'.length + 2 := by
      rw [measure_list, if_neg hne, hsrc]; simp
    obtain ⟨n1, rfl⟩ : ∃ n1, n = n1 + 1 := ⟨n - 1, by omega⟩
    have hst1 : advance (listEnv num cls) st = ⟨Y', y0, st.errors, st.defaultYear⟩ := by
      simp [advance, listEnv, listSrc, hsrc]
    have e1 : parseJournalF (listEnv num cls) (n1 + 1) st =
        (jpush (parseJournalF (listEnv num cls) n1 (advance (listEnv num cls) st)).1 .nothing,
         (parseJournalF (listEnv num cls) n1 (advance (listEnv num cls) st)).2) := by
      rw [parseJournalF]
      simp only [hne, if_false]
      rw [journalStep_newline _ st (by rw [hc1]; exact h1)]
    rw [e1, hst1]
    simp only [List.append_nil] at hm ⊢
    have hfuel := parseJournalF_fuel (listEnv num cls) (listEnv_decr num cls) n1 m
      ⟨Y', y0, st.errors, st.defaultYear⟩ (by
        have := measure_le_strm num cls ⟨Y', y0, st.errors, st.defaultYear⟩
        simp [strm] at this; omega) hm
    rw [hfuel]
    rfl
  | succ k ih =>
    intro X st hk hX hs
    by_cases hXlen : X.length ≤ k
    · exact ih X st hXlen hX hs
    have hXne : X ≠ [] := by intro h; rw [h] at hXlen; simp at hXlen
    -- the stream up to its first EOF
    have hs' : strm st = (X ++ nl :: Y1) ++ e :: Q := by
      rw [hs, hY]; simp
    have hPne : ∀ t ∈ X ++ nl :: Y1, t.ty ≠ .eof := by
      intro t ht
      simp only [List.mem_append, List.mem_cons] at ht
      rcases ht with h | h | h
      · exact hX t h
      · rw [h, h1]; simp
      · exact hY1 t h
    have hne : st.current.ty ≠ .eof := by
      cases X with
      | nil => exact absurd rfl hXne
      | cons x X' =>
        have : st.current = x := by simp [strm] at hs; exact hs.1
        rw [this]; exact hX x (by simp)
    obtain ⟨C, P', new1, hCne, hP', hstrm1, hnc, herr1, hpos1⟩ :=
      step_stream num cls st _ e Q hs' he hPne hne
    -- unfold one iteration
    have hstep : ∀ n, measure (listEnv num cls) st ≤ n →
        ∃ n1, n = n1 + 1 ∧ parseJournalF (listEnv num cls) n st =
          (jpush (parseJournalF (listEnv num cls) n1 (journalStep (listEnv num cls) st).2).1
              (journalStep (listEnv num cls) st).1,
           (parseJournalF (listEnv num cls) n1 (journalStep (listEnv num cls) st).2).2) := by
      intro n hn
      have : 1 ≤ measure (listEnv num cls) st := by rw [measure_list, if_neg hne]; omega
      refine ⟨n - 1, by omega, ?_⟩
      obtain ⟨n1, rfl⟩ : ∃ n1, n = n1 + 1 := ⟨n - 1, by omega⟩
      rw [parseJournalF]
      simp only [hne, if_false, Nat.add_sub_cancel]
    have hlt := journalStep_lt (listEnv num cls) (listEnv_decr num cls) st hne
    have hdy1 : (∀ t ∈ X, t.ty ≠ .directive) →
        (journalStep (listEnv num cls) st).2.defaultYear = st.defaultYear := by
      intro hnd
      apply journalStep_dy
      cases X with
      | nil => exact absurd rfl hXne
      | cons x X' =>
        have : st.current = x := by simp [strm] at hs; exact hs.1
        rw [this]; exact hnd x (by simp)
    generalize hst1 : (journalStep (listEnv num cls) st).2 = st1 at *
    generalize hit : (journalStep (listEnv num cls) st).1 = item at *
    -- continue from a state whose stream is `a' ++ nl :: y0 :: Y'` with `a'` shorter than `X`
    have hcont : ∀ a', a'.length ≤ k → (∀ t ∈ a', t.ty ≠ .eof) → X = C ++ a' →
        strm st1 = a' ++ nl :: y0 :: Y' →
        ∃ items new dy, ErrZone X nl new ∧ ((∀ t ∈ X, t.ty ≠ .directive) → dy = st.defaultYear) ∧
          ∀ n m, measure (listEnv num cls) st ≤ n →
            measure (listEnv num cls) ⟨Y', y0, st.errors ++ new, dy⟩ ≤ m →
            parseJournalF (listEnv num cls) n st =
              (pushAll items (parseJournalF (listEnv num cls) m ⟨Y', y0, st.errors ++ new, dy⟩).1,
               (parseJournalF (listEnv num cls) m ⟨Y', y0, st.errors ++ new, dy⟩).2) := by
      intro a' ha'len ha'X hXa hs1
      obtain ⟨items, new2, dy, hpos2, hdy2, hrun⟩ := ih a' st1 ha'len ha'X hs1
      refine ⟨item :: items, new1 ++ new2, dy, ?_, ?_, ?_⟩
      · intro x hx
        simp only [List.mem_append] at hx
        rcases hx with hx | hx
        · obtain ⟨t, ht, hp⟩ := hpos1 x hx
          refine ⟨t, hp, ?_⟩
          cases a' with
          | nil =>
            have hcur : st1.current = nl := by simp [strm] at hs1; exact hs1.1
            rw [hcur] at ht
            have hXC : X = C := by simpa using hXa
            rw [hXC]
            exact okSites_before_nl hCne ht
          | cons z zs =>
            have hcur : st1.current = z := by simp [strm] at hs1; exact hs1.1
            rw [hcur] at ht
            have := okSitesAux_sub _ _ t ht
            left
            rw [hXa]
            simp only [List.mem_append, List.mem_singleton] at this
            rcases this with h | h
            · simp [h]
            · simp [h]
        · obtain ⟨t, hp, ht⟩ := hpos2 x hx
          refine ⟨t, hp, ?_⟩
          rcases ht with h | h
          · left; rw [hXa]; simp [h]
          · right
            refine ⟨h.1, ?_⟩
            have hne' : a' ≠ [] := by
              intro h0; rw [h0] at h; simp [lastNL] at h
            rw [hXa, lastNL_append, lastNL_seed (q := true) hne']
            exact h.2
      · intro hnd
        rw [hdy2 (fun t ht => hnd t (by rw [hXa]; simp [ht]))]
        exact hdy1 hnd
      · intro n m hn hm
        obtain ⟨n1, rfl, hun⟩ := hstep n hn
        rw [hun]
        have hm' : measure (listEnv num cls) ⟨Y', y0, st1.errors ++ new2, dy⟩ ≤ m := by
          simpa [measure_list] using hm
        have := hrun n1 m (by omega) hm'
        rw [this, herr1, List.append_assoc]
        rfl
    rcases (List.append_eq_append_iff.1 hP') with ⟨c', hCa, hrest⟩ | ⟨a', hXa, hrest⟩
    · -- C = X ++ c' : the iteration consumed all of X and `c'` of what follows
      have hCX : C = X ++ c' := hCa
      match c', hrest with
      | [], hrest =>
        have hP'' : P' = nl :: Y1 := by simpa using hrest.symm
        have hs1 : strm st1 = [] ++ nl :: y0 :: Y' := by rw [hstrm1, hP'', hY]; simp
        exact hcont [] (by simp) (by simp) (by simpa using hCX.symm) hs1
      | [t1], hrest =>
        -- consumed X ++ [nl]: the loop is at its head in front of y0
        have ht : t1 = nl ∧ P' = Y1 := by simp at hrest; exact ⟨hrest.1.symm, hrest.2.symm⟩
        have hs1 : strm st1 = y0 :: Y' := by rw [hstrm1, ht.2, hY]
        refine ⟨[item], new1, st1.defaultYear, ?_, hdy1, ?_⟩
        · intro x hx
          obtain ⟨t, htm, hp⟩ := hpos1 x hx
          refine ⟨t, hp, ?_⟩
          have hcur : st1.current = y0 := by simp [strm] at hs1; exact hs1.1
          rw [hCX, ht.1, hcur] at htm
          exact okSites_after_nl h1 hXne htm
        · intro n m hn hm
          obtain ⟨n1, rfl, hun⟩ := hstep n hn
          rw [hun]
          have hEq : st1 = ⟨Y', y0, st.errors ++ new1, st1.defaultYear⟩ := by
            have := strm_eq_cons hs1; rw [herr1] at this; exact this
          generalize st1.defaultYear = dy1 at hEq hm ⊢
          subst hEq
          have hfuel := parseJournalF_fuel (listEnv num cls) (listEnv_decr num cls) n1 m
            ⟨Y', y0, st.errors ++ new1, dy1⟩ (by omega) hm
          rw [hfuel]
          rfl
      | t1 :: t2 :: r, hrest =>
        -- impossible: after a Newline the iteration continues only with a Newline or an Indent
        exfalso
        have ht : t1 = nl ∧ t2 :: (r ++ P') = Y1 := by
          simp at hrest; exact ⟨hrest.1.symm, by simp [hrest.2]⟩
        have hy0 : t2 = y0 := by
          have := ht.2
          rw [← this] at hY
          simp at hY
          exact hY.1.symm
        rw [hCX, ht.1, hy0, nc_cross 0 X r nl y0 h1 hy hy'] at hnc
        simp at hnc
    · -- X = C ++ a' : the iteration stopped inside X (or exactly at its end)
      have hs1 : strm st1 = a' ++ nl :: y0 :: Y' := by
        rw [hstrm1, hrest, hY]; simp
      have ha'len : a'.length ≤ k := by
        have : X.length = C.length + a'.length := by rw [hXa]; simp
        have : 0 < C.length := List.length_pos_iff.2 hCne
        omega
      exact hcont a' ha'len (fun t ht => hX t (by rw [hXa]; simp [ht])) hXa hs1

end HL.Parser
