import HL.Model.Parser
/-!
  Where `Amount.Range` ends (repo_patches/fix-trailing-blank-ranges.diff): with the last token of
  the amount — the right-hand commodity, or the number —, not at the token that follows.  For
  every token source and every parser state.
-/
namespace HL.Parser
open HL HL.Parser HL.Ast
variable {σ : Type} (E : Env σ)

theorem amountNumber_stop (start : Pos) (sign : Bytes) (com : Commodity) (sbc : Bool) (st st' : PState σ) (a : Amount)
    (h : amountNumber E start sign com sbc st = (some a, st')) :
    a.range.start = start ∧ st.current.ty = .number ∧
      ((a.commodity.side = .right ∧ a.range.stop = a.commodity.range.stop) ∨ a.range.stop = st.current.stop) := by
  unfold amountNumber at h
  split at h
  · simp at h
  · rename_i hty
    have hty' : st.current.ty = .number := by simpa using hty
    simp only [] at h
    split at h
    · simp at h
    · split at h
      · simp at h
      · unfold amountRightCommodity at h
        simp only [Prod.mk.injEq, Option.some.injEq] at h
        obtain ⟨h1, _⟩ := h
        subst h1
        refine ⟨rfl, hty', ?_⟩
        simp only [toRange]
        split
        · split
          · left; exact ⟨rfl, rfl⟩
          · right; rfl
        · right; rfl

/-- **Where the range of a parsed amount ends**: with its right-hand commodity, if it has one,
    otherwise with its number — one of the first four tokens `parseAmount` looks at (behind an
    optional sign, a left-hand commodity and a second sign). -/
theorem amount_range_stop (st st' : PState σ) (a : Amount) (h : parseAmount E st = (some a, st')) :
    a.range.start = st.current.pos ∧
    ((a.commodity.side = .right ∧ a.range.stop = a.commodity.range.stop) ∨
     (∃ s1, (s1 = st ∨ s1 = advance E st ∨ s1 = advance E (advance E st) ∨ s1 = advance E (advance E (advance E st))) ∧
        s1.current.ty = .number ∧ a.range.stop = s1.current.stop)) := by
  unfold parseAmount at h
  simp only [] at h
  obtain ⟨h1, h2, h3⟩ := amountNumber_stop E _ _ _ _ _ _ _ h
  refine ⟨h1, ?_⟩
  rcases h3 with h3 | h3
  · exact Or.inl h3
  · right
    refine ⟨_, ?_, h2, h3⟩
    unfold amountSecondSign amountLeftCommodity amountLeadSign
    by_cases c1 : st.current.ty = .sign
    · simp only [c1, if_true]
      by_cases c2 : (advance E st).current.ty = .commodity
      · simp only [c2, if_true]
        split <;> simp
      · simp only [c2, if_false]
        split <;> simp
    · simp only [c1, if_false]
      by_cases c2 : st.current.ty = .commodity
      · simp only [c2, if_true]
        split <;> simp
      · simp only [c2, if_false]
        split <;> simp

end HL.Parser
