/-!
# Executable oracle for C13 (written independently of the server model)

The client's view: a list of notifications it sent, and for every URI the list of
PublishDiagnostics notifications it received.  "Converged" means: for every document that is
open after the notifications, the last notification received for it carries the diagnostics of
the document's final text.  `diagOf u t` is what a fresh server says about text `t` of document `u`.
-/
namespace HL.Spec.Converge

inductive Note where
  | openDoc (u t : Nat)
  | change (u t : Nat)     -- replaces the whole content by text `t`
  | close (u : Nat)
  deriving Repr

/-- The client's own buffers after the notifications: URI ↦ text, for the open documents. -/
def finalDocs : List Note → List (Nat × Nat) :=
  List.foldl (fun ds n =>
    match n with
    | .openDoc u t => (u, t) :: ds.filter (·.1 ≠ u)
    | .change u t => if ds.any (·.1 == u) then (u, t) :: ds.filter (·.1 ≠ u) else ds
    | .close u => ds.filter (·.1 ≠ u)) []

/-- Last received diagnostics of every open document are those of its final text. -/
def converged {D : Type} [BEq D] (notes : List Note) (diagOf : Nat → Nat → D) (log : Nat → List D) : Bool :=
  (finalDocs notes).all fun (u, t) => (log u).getLast? == some (diagOf u t)

end HL.Spec.Converge
