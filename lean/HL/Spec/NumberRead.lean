/-
  Specification side for C04's number clause: what a formatted number says when it is read
  with the notation of the format that wrote it.  Group marks and blanks carry no value, an
  optional minus sign, integer digits, and after the format's decimal mark the fraction digits.
  The result is (coefficient, number of decimals): the value `coefficient / 10^decimals`.

  (The journal parser does not know the format; it applies the documented single-mark rule
  `singleMarkGrouped` below.  Where the two readings differ the formatter must not use the
  format: that is what `formatIsFaithful` checks, see HL/Props/C04.lean.)
-/
import HL.Model.Format
namespace HL.NumberRead
open HL HL.Fmt HL.FmtText

def digitVal (b : UInt8) : Nat := b.toNat - 48

def digitsVal (s : Bytes) : Nat := s.foldl (fun a b => a * 10 + digitVal b) 0

def isDigit (b : UInt8) : Bool := 48 ≤ b && b ≤ 57

/-- A notation the journal's commodity directives can express: point or comma as decimal
    mark, no group mark or one of comma / point / blank, different from the decimal mark. -/
def WellFormed (f : NumberFormat) : Prop :=
  (f.mark = 46 ∨ f.mark = 44) ∧ (f.sep = [] ∨ f.sep = [44] ∨ f.sep = [46] ∨ f.sep = [32]) ∧
    f.sep ≠ [UInt8.ofNat f.mark]

instance (f : NumberFormat) : Decidable (WellFormed f) := by unfold WellFormed; infer_instance

/-- Bytes that carry no value under the format: blanks and the group mark. -/
def isFiller (f : NumberFormat) (b : UInt8) : Bool := b == 32 || f.sep == [b]

/-- Read `s` in the notation of `f`: (coefficient, decimals). -/
def readWith (f : NumberFormat) (s : Bytes) : Int × Nat :=
  let s := s.filter (fun b => !isFiller f b)
  let neg := s.head? == some 45
  let s := if neg then s.drop 1 else s
  let m := UInt8.ofNat f.mark
  let ip := s.takeWhile (· != m)
  let fp := s.drop (ip.length + 1)
  let c : Int := (digitsVal (ip ++ fp) : Nat)
  (if neg then -c else c, fp.length)

/-- The parser's documented rule for a number with exactly one mark (`normalizeNumber`,
    pinned by parser_test.go): three digits after the mark and a non-zero integer part make
    it a group mark.  `s` is the text without blanks. -/
def singleMarkGrouped (s : Bytes) : Bool :=
  let marks := s.filter (fun b => b == 46 || b == 44)
  let ip := s.takeWhile (fun b => b != 46 && b != 44)
  marks.length == 1 && (s.length - ip.length - 1 == 3) && ip.length ≥ 1 &&
    ip.any (fun b => b != 48 && b != 45)

end HL.NumberRead
