import HL.Spec.GCore
import HL.Model.Format
/-!
  `GCore` with a free layout of the posting lines, and the canonical layout the formatter gives
  a core journal (C04/C05 for the core grammar, HL/Props/C04Core.lean).

  `HL/Spec/GCore.lean` prints a posting line with four blanks of indent and two blanks in front
  of the amount.  The formatter writes other layouts (any configured indent, the amount padded
  to the alignment column), so the same journals are printed here under a `Layout`:

  ```
  posting ::= ' '{indent} seg ( ':' seg )+ [ ' '{gap p} amount ]        indent ≥ 1, gap p ≥ 2
  ```

  `printL L`, `expectedL L` are `GCore.print`, `GCore.expected` with the two widths taken from
  `L` (`printL_std`, `expectedL_std`: the standard layout gives back the originals).

  `canonLayout o j` / `canon o j` describe — without mentioning the formatter's functions — the
  text the formatter is claimed to produce for options `o`: every posting line is indent blanks,
  the account, padding to the alignment column (or two blanks when alignment is off), the
  quantity as written, a blank and the commodity; every other byte is unchanged.
  `HL.Props.C04.format_core` proves the claim.
-/
namespace HL.GCore
open HL

/-- `strings.Repeat(" ", n)` -/
def blanks (n : Nat) : Bytes := List.replicate n 0x20

/-- The two free widths of a posting line. -/
structure Layout where
  indent : Nat
  gap : Posting → Nat

/-- the layout of `GCore.print` -/
def Layout.std : Layout := ⟨4, fun _ => 2⟩

/-- what the lexer needs: an indent, and at least two blanks behind an account -/
def Layout.ok (L : Layout) : Prop := 1 ≤ L.indent ∧ ∀ p, 2 ≤ L.gap p

/-! ### the printer -/

def Posting.amtTextL (L : Layout) (p : Posting) : Bytes :=
  match p.amount with | none => [] | some a => blanks (L.gap p) ++ a.print

/-- a posting line without its line feed -/
def Posting.printL (L : Layout) (p : Posting) : Bytes := blanks L.indent ++ p.acct ++ p.amtTextL L

def printPostingsL (L : Layout) : List Posting → Bytes
  | [] => []
  | p :: ps => p.printL L ++ 0x0A :: printPostingsL L ps

def Tx.printL (L : Layout) (t : Tx) : Bytes := t.header ++ 0x0A :: printPostingsL L t.postings

def printL (L : Layout) : Journal → Bytes
  | [] => []
  | [t] => t.printL L
  | t :: ts => t.printL L ++ 0x0A :: printL L ts

/-! ### the tree the text was written from -/

/-- A posting on line `ln` whose line starts at offset `o`. -/
def Posting.expectedL (L : Layout) (p : Posting) (ln o : Nat) : Ast.Posting :=
  let i := L.indent
  let a := p.acct.length
  let e := (p.printL L).length
  { status := .none
    account := ⟨p.acct, ⟨⟨ln, 1 + i, o + i⟩, ⟨ln, 1 + i + a, o + i + a⟩⟩⟩
    amount := p.amount.map fun am => am.expected ln (1 + (i + a + L.gap p)) (o + (i + a + L.gap p))
    assertion := none
    cost := none
    comment := []
    tags := []
    virt := .none
    range := ⟨⟨ln, 1 + i, o + i⟩, ⟨ln, 1 + e, o + e⟩⟩ }

def expectedPostingsL (L : Layout) : List Posting → Nat → Nat → List Ast.Posting
  | [], _, _ => []
  | p :: ps, ln, o => p.expectedL L ln o :: expectedPostingsL L ps (ln + 1) (o + (p.printL L).length + 1)

def Tx.expectedL (L : Layout) (t : Tx) (ln o : Nat) : Ast.Transaction :=
  let d := t.date.print.length
  { date := ⟨digitsNat t.date.y, digitsNat t.date.m, digitsNat t.date.d, ⟨⟨ln, 1, o⟩, ⟨ln, 1 + d, o + d⟩⟩⟩
    date2 := none
    status := .none
    code := []
    description := t.descr
    payee := []
    note := []
    postings := expectedPostingsL L t.postings (ln + 1) (o + t.header.length + 1)
    tags := []
    comments := []
    range := ⟨⟨ln, 1, o⟩, ⟨ln + 1 + t.postings.length, 1, o + (t.printL L).length⟩⟩ }

def expectedTxsL (L : Layout) : List Tx → Nat → Nat → List Ast.Transaction
  | [], _, _ => []
  | t :: ts, ln, o =>
    t.expectedL L ln o :: expectedTxsL L ts (ln + t.postings.length + 2) (o + (t.printL L).length + 1)

def expectedL (L : Layout) (j : Journal) : Ast.Journal := ⟨expectedTxsL L j 1 0, [], [], []⟩

/-! ### the canonical layout under formatting options -/

/-- `opts.IndentSize`, or four when it is not positive -/
def canonIndent (o : Fmt.Options) : Nat := if o.indentSize ≤ 0 then 4 else o.indentSize.toNat

/-- the longest account name of the journal (bytes = characters: the names are ASCII) -/
def widest (j : Journal) : Nat := (j.flatMap (·.postings)).foldl (fun m p => max m p.acct.length) 0

/-- the column (0-based count of characters in front of it) every amount starts at when
    alignment is on: indent + longest account + 2, or the configured minimum if that is larger -/
def canonCol (o : Fmt.Options) (j : Journal) : Nat := max (canonIndent o + widest j + 2) o.minCol.toNat

def canonLayout (o : Fmt.Options) (j : Journal) : Layout :=
  { indent := canonIndent o
    gap := fun p => if o.alignAmounts then max (canonCol o j - (canonIndent o + p.acct.length)) 2 else 2 }

/-- **The formatted text of a core journal.** -/
def canon (o : Fmt.Options) (j : Journal) : Bytes := printL (canonLayout o j) j

end HL.GCore
