/-
  Specification for C09: the occurrences of a symbol in a workspace.

  Ground truth is what the text was written from: for every file the list of *spans* — one per
  written occurrence of an account, commodity or payee name, with the exact range of the lexeme
  in LSP coordinates (zero-based line, UTF-16 units) and whether the occurrence is a declaration
  (`account` / `commodity` directive).  The generator knows them by construction.

    occurrences files kind name incl = every span of that symbol in every file of the include
                                        tree, attributed to its file; declarations when asked.
    spanAt spans pos                  = the span the cursor is on (both ends inclusive).

  `treeNodes` is the independent reading of a syntax tree: the catalogue of its name-bearing
  nodes with the range the tree gives for the lexeme (rune columns), converted to LSP
  coordinates with the lines of the file's text.  A tree is *faithful* to a text's spans
  when the two coincide; the theorems of HL.Props.C09 assume it, the driver checks it on every
  case and classifies every way in which the real parser's trees fall short of it.
-/
import HL.Model.Refs
namespace HL.Spec.Occ
open HL HL.Ast HL.Refs

structure Span where
  kind : Kind
  name : Bytes
  range : LRange
  decl : Bool
deriving Repr, DecidableEq, Inhabited, BEq

/-- The cursor is on the span: same line, between start and end, ends included. -/
def Span.has (s : Span) (p : LPos) : Bool :=
  s.range.start.line == p.line && s.range.stop.line == p.line &&
  decide (s.range.start.char ≤ p.char) && decide (p.char ≤ s.range.stop.char)

def spanAt (spans : List Span) (p : LPos) : Option Span := spans.find? (·.has p)

def Span.isSym (s : Span) (kind : Kind) (name : Bytes) (incl : Bool) : Bool :=
  decide (s.kind = kind) && s.name == name && (incl || !s.decl)

/-- Every occurrence of the symbol in every file, attributed to the file that contains it. -/
def occurrences (files : List (Path × List Span)) (kind : Kind) (name : Bytes) (incl : Bool) : List Loc :=
  files.flatMap fun f => (f.2.filter fun s => s.isSym kind name incl).map fun s => ⟨f.1, s.range⟩

/-- A workspace as the property sees it: the root file and the files of its include tree, each
    with its syntax tree and the spans of its text. -/
structure FileT where
  path : Path
  tree : Journal
  spans : List Span
  /-- the lines of the file's text (`[]`: positions are read without a text, columns as they
      are — enough for files without characters outside the BMP) -/
  lns : Lines := []
deriving Repr, Inhabited

structure Workspace where
  root : FileT
  members : List FileT
deriving Repr, Inhabited

def Workspace.files (ws : Workspace) : List FileT := ws.root :: ws.members
def Workspace.spanFiles (ws : Workspace) : List (Path × List Span) := ws.files.map fun f => (f.path, f.spans)

/-- Paths are pairwise different and the root has a name. -/
def Workspace.WF (ws : Workspace) : Prop := ws.root.path ≠ "" ∧ (ws.files.map (·.path)).Nodup

/-- The resolved journal of the workspace: the root's tree is the primary, the members are the
    files; `order` (FileOrder) is not read by references / rename. -/
def resolvedOf (ws : Workspace) (order : List Path) : Resolved :=
  ⟨some ws.root.tree, ws.members.map fun f => (f.path, f.tree), order⟩

/-- The text the server's `fileMappers` hand out for every path of the workspace. -/
def textsOf (ws : Workspace) : Texts := fun p =>
  match ws.files.find? (fun f => f.path == p) with
  | some f => f.lns
  | none => []

/-! ### Reading a syntax tree -/

/-- A name-bearing node: the range is in the tree's own coordinates (1-based line, column). -/
structure TNode where
  kind : Kind
  name : Bytes
  range : ARange
  decl : Bool
deriving Repr, DecidableEq, Inhabited, BEq

/-- The tree gives where a name starts; the lexeme is as long as the name. -/
def lexeme (start : Pos) (name : Bytes) : ARange :=
  ⟨start.line, start.col, start.line, start.col + runeLen name⟩

def tokenRange (r : Rng) : ARange := ⟨r.start.line, r.start.col, r.stop.line, r.stop.col⟩

def commodityNode (c : Commodity) : List TNode :=
  if c.symbol == [] then [] else [⟨.commodity, c.symbol, tokenRange c.range, false⟩]

def postingNodes (p : Posting) : List TNode :=
  [⟨.account, p.account.name, lexeme p.account.range.start p.account.name, false⟩] ++
  (match p.amount with | some a => commodityNode a.commodity | none => []) ++
  (match p.cost with | some c => commodityNode c.amount.commodity | none => []) ++
  (match p.assertion with | some b => commodityNode b.amount.commodity | none => [])

/-- The tree has no position for the payee (the description when there is no `payee | note`
    split): it is read off the header line of the file's text (`lns`) — the first character
    after the date, an optional `=DATE`, an optional status mark and an optional `(code)` that
    is not white space (`HL.PayeeRange.payeeStart`; that this is where the payee stands on every
    header of the grammar is `HL.Props.C09.payeeNode_header`).  Without the text: one blank
    after the date, or after date, blank, status mark, blank. -/
def payeeNode (lns : Lines) (tx : Transaction) : List TNode :=
  let payee := if tx.payee == [] then tx.description else tx.payee
  if payee == [] then [] else
    let col := match HL.PayeeRange.payeeStart lns tx.date.range.start.line tx.date.range.stop.col with
      | some col => col
      | none => tx.date.range.stop.col + 1 + (if tx.status == .none then 0 else 2)
    [⟨.payee, payee, ⟨tx.date.range.start.line, col, tx.date.range.start.line, col + runeLen payee⟩, false⟩]

def txNodes (lns : Lines) (tx : Transaction) : List TNode := payeeNode lns tx ++ tx.postings.flatMap postingNodes

/-- The commodity of a `commodity` / `P` directive: the tree gives the token's extent when the
    parser recorded its End (quotes included, as for a commodity in a posting); otherwise only
    where the symbol starts. -/
def directiveLexeme (c : Commodity) : ARange :=
  if c.range.stop != Pos.zero then tokenRange c.range else lexeme c.range.start c.symbol

def directiveNodes : Directive → List TNode
  | .account a _ _ _ _ => [⟨.account, a.name, lexeme a.range.start a.name, true⟩]
  | .commodity c _ _ _ _ =>
    if c.symbol == [] then [] else [⟨.commodity, c.symbol, directiveLexeme c, true⟩]
  | .price _ c p _ =>
    (if c.symbol == [] then [] else [⟨.commodity, c.symbol, directiveLexeme c, false⟩]) ++
    commodityNode p.commodity
  | _ => []

def treeTNodes (lns : Lines) (j : Journal) : List TNode :=
  j.transactions.flatMap (txNodes lns) ++ j.directives.flatMap directiveNodes

def TNode.toSpan (lns : Lines) (n : TNode) : Span := ⟨n.kind, n.name, toLsp lns n.range, n.decl⟩

def treeNodes (lns : Lines) (j : Journal) : List Span := (treeTNodes lns j).map (TNode.toSpan lns)

/-- A node's range is one line of a real file: 1-based, within `uint32` after the shift; and
    where the text has that line, the range lies inside it and the line is shorter than 2³²
    UTF-16 units. -/
def TNode.sane (lns : Lines) (n : TNode) : Bool :=
  decide (1 ≤ n.range.sl) && n.range.sl == n.range.el && decide (n.range.sl ≤ 4294967296) &&
  decide (1 ≤ n.range.sc) && decide (n.range.sc ≤ n.range.ec) && decide (n.range.ec ≤ 4294967296) &&
  (match lns[n.range.sl - 1]? with
   | some ln => decide (n.range.ec - 1 ≤ ln.length) && decide (HL.Text.u16len ln < 4294967296)
   | none => true)

/-- The tree says exactly what the text's spans say. -/
def faithful (lns : Lines) (j : Journal) (spans : List Span) : Prop :=
  (∀ n ∈ treeTNodes lns j, n.sane lns = true) ∧ ∀ s, s ∈ treeNodes lns j ↔ s ∈ spans

def faithfulB (lns : Lines) (j : Journal) (spans : List Span) : Bool :=
  (treeTNodes lns j).all (TNode.sane lns) &&
  (treeNodes lns j).all (fun s => spans.any fun t => decide (t = s)) &&
  spans.all (fun s => (treeNodes lns j).any fun t => decide (t = s))

def Workspace.faithful (ws : Workspace) : Prop := ∀ f ∈ ws.files, HL.Spec.Occ.faithful f.lns f.tree f.spans

/-- The cursor is a position of the text: where the text has the cursor's line, the character
    is the UTF-16 length of a whole number of the line's chars (not past the end of the line,
    not inside a surrogate pair). -/
def cursorOK (lns : Lines) (p : LPos) : Prop :=
  ∀ ln, lns[p.line]? = some ln → ∃ k, k ≤ ln.length ∧ p.char = HL.Text.u16len (ln.take k)

/-- Decidable form (the driver judges only requests whose cursor passes it; LSP 3.17 leaves a
    character beyond the line's length to the server, which "defaults back to the line length"). -/
def cursorOKB (lns : Lines) (p : LPos) : Bool :=
  match lns[p.line]? with
  | some ln => HL.Text.u16len (ln.take (HL.Text.takeU16 ln p.char)) == p.char
  | none => true

/-- No cursor position lies on two different spans. -/
def separated (spans : List Span) : Prop :=
  ∀ a ∈ spans, ∀ b ∈ spans, ∀ p, a.has p = true → b.has p = true → a = b

/-- Occurrences that the syntax tree cannot carry because the node has no position at all:
    the symbol of a `D` directive (counted here) and the symbol inside a `format` sub-directive
    (only known to the generator). -/
def unrangedSites (j : Journal) (name : Bytes) : Nat :=
  (j.directives.filter fun d => match d with
    | .defaultCommodity s _ _ => s == name
    | _ => false).length

/-! ### Renaming: the structure a journal must have after the symbol was renamed -/

def isPrefix : Bytes → Bytes → Bool
  | [], _ => true
  | _ :: _, [] => false
  | a :: as, b :: bs => a == b && isPrefix as bs

/-- A commodity directive's format repeats the symbol before or after the number. -/
def substFormat (old new fmt : Bytes) : Bytes :=
  if fmt == [] then fmt
  else if isPrefix (old.reverse ++ [32]) fmt.reverse then (fmt.take (fmt.length - old.length)) ++ new
  else if isPrefix old fmt then new ++ fmt.drop old.length
  else fmt

def substCommodity (old new : Bytes) (c : Commodity) : Commodity :=
  if c.symbol == old then { c with symbol := new } else c
def substAmount (old new : Bytes) (a : Amount) : Amount :=
  { a with commodity := substCommodity old new a.commodity }

def substPosting (kind : Kind) (old new : Bytes) (p : Posting) : Posting :=
  match kind with
  | .account => if p.account.name == old then { p with account := { p.account with name := new } } else p
  | .commodity =>
    { p with amount := p.amount.map (substAmount old new),
             cost := p.cost.map fun c => { c with amount := substAmount old new c.amount },
             assertion := p.assertion.map fun b => { b with amount := substAmount old new b.amount } }
  | .payee => p

def substTx (kind : Kind) (old new : Bytes) (tx : Transaction) : Transaction :=
  match kind with
  | .payee =>
    if (if tx.payee == [] then tx.description else tx.payee) == old then
      if tx.payee == [] then { tx with description := new }
      else { tx with payee := new, description := if tx.note == [] then new else new ++ [32, 124, 32] ++ tx.note }
    else tx
  | _ => { tx with postings := tx.postings.map (substPosting kind old new) }

def substDirective (kind : Kind) (old new : Bytes) : Directive → Directive
  | .account a t c s r =>
    if kind == .account && a.name == old then .account { a with name := new } t c s r else .account a t c s r
  | .commodity c f n s r =>
    if kind == .commodity && c.symbol == old then .commodity { c with symbol := new } (substFormat old new f) n s r
    else .commodity c f n s r
  | .price d c p r =>
    if kind == .commodity then .price d (substCommodity old new c) (substAmount old new p) r else .price d c p r
  | d => d

def substJournal (kind : Kind) (old new : Bytes) (j : Journal) : Journal :=
  { j with transactions := j.transactions.map (substTx kind old new),
           directives := j.directives.map (substDirective kind old new) }

/-! Erasing every position, to compare structures whose texts have different lengths. -/
def zTag (t : Tag) : Tag := { t with range := Rng.zero }
def zComment (c : Comment) : Comment := { c with range := Rng.zero, tags := c.tags.map zTag }
def zDate (d : Date) : Date := { d with range := Rng.zero }
def zCommodity (c : Commodity) : Commodity := { c with range := Rng.zero }
def zAmount (a : Amount) : Amount := { a with range := Rng.zero, commodity := zCommodity a.commodity }
def zPosting (p : Posting) : Posting :=
  { p with range := Rng.zero, account := { p.account with range := Rng.zero },
           amount := p.amount.map zAmount,
           cost := p.cost.map fun c => { c with range := Rng.zero, amount := zAmount c.amount },
           assertion := p.assertion.map fun b => { b with range := Rng.zero, amount := zAmount b.amount },
           tags := p.tags.map zTag }
def zTx (t : Transaction) : Transaction :=
  { t with range := Rng.zero, date := zDate t.date, date2 := t.date2.map zDate,
           postings := t.postings.map zPosting, tags := t.tags.map zTag, comments := t.comments.map zComment }
def zDirective : Directive → Directive
  | .account a t c s _ => .account { a with range := Rng.zero } (t.map zTag) c s Rng.zero
  | .commodity c f n s _ => .commodity (zCommodity c) f n s Rng.zero
  | .price d c p _ => .price (zDate d) (zCommodity c) (zAmount p) Rng.zero
  | .year y _ => .year y Rng.zero
  | .defaultCommodity s f _ => .defaultCommodity s f Rng.zero
def zJournal (j : Journal) : Journal :=
  { transactions := j.transactions.map zTx, directives := j.directives.map zDirective,
    comments := j.comments.map zComment,
    includes := j.includes.map fun i => { i with range := Rng.zero } }

/-- The renamed text parses to the original structure with the name substituted. -/
def sameStructure (kind : Kind) (old new : Bytes) (before after : Journal) : Bool :=
  zJournal after == zJournal (substJournal kind old new before)

/-! ### Applying edits to one line -/

/-- Replace `[s, e)` by `new`. -/
def applyEdit {α} (l : List α) (se : Nat × Nat) (new : List α) : List α :=
  l.take se.1 ++ new ++ l.drop se.2

/-- What a client does with several edits of one document version: apply them from the last
    to the first, so that earlier offsets stay valid. -/
def applyEditsBackwards {α} (l : List α) (spans : List (Nat × Nat)) (new : List α) : List α :=
  spans.reverse.foldl (fun acc se => applyEdit acc se new) l

/-- The line with every span replaced and every gap kept: one pass from the left, `off` is how
    much of the original line has been consumed. -/
def substSpans {α} (l : List α) (off : Nat) : List (Nat × Nat) → List α → List α
  | [], _ => l
  | (s, e) :: rest, new => l.take (s - off) ++ new ++ substSpans (l.drop (e - off)) e rest new

/-- Spans in increasing order, none empty-reversed, none overlapping, all inside the line. -/
def spansOK (len : Nat) (off : Nat) : List (Nat × Nat) → Prop
  | [] => True
  | (s, e) :: rest => off ≤ s ∧ s ≤ e ∧ e ≤ len ∧ spansOK len e rest

end HL.Spec.Occ
