/-
  Specification for C09: the occurrences of a symbol in a workspace.

  Ground truth is what the text was written from: for every file the list of *spans* — one per
  written occurrence of an account, commodity or payee name, with the exact range of the lexeme
  in LSP coordinates (zero-based line, UTF-16 units) and whether the occurrence is a declaration
  (`account` / `commodity` directive).  The generator knows them by construction.

    occurrences files kind name incl = every span of that symbol in every file of the include
                                        tree, attributed to its file; declarations when asked.
    spanAt spans pos                  = the span the cursor is on (both ends inclusive).

  `treeNodes` is the independent reading of a syntax tree: the catalogue of its name-bearing
  nodes with the range the tree gives for the lexeme.  A tree is *faithful* to a text's spans
  when the two coincide; the theorems of HL.Props.C09 assume it, the driver checks it on every
  case and classifies every way in which the real parser's trees fall short of it.
-/
import HL.Model.Refs
namespace HL.Spec.Occ
open HL HL.Ast HL.Refs

structure Span where
  kind : Kind
  name : Bytes
  range : LRange
  decl : Bool
deriving Repr, DecidableEq, Inhabited, BEq

/-- The cursor is on the span: same line, between start and end, ends included. -/
def Span.has (s : Span) (p : LPos) : Bool :=
  s.range.start.line == p.line && s.range.stop.line == p.line &&
  decide (s.range.start.char ≤ p.char) && decide (p.char ≤ s.range.stop.char)

def spanAt (spans : List Span) (p : LPos) : Option Span := spans.find? (·.has p)

def Span.isSym (s : Span) (kind : Kind) (name : Bytes) (incl : Bool) : Bool :=
  s.kind == kind && s.name == name && (incl || !s.decl)

/-- Every occurrence of the symbol in every file, attributed to the file that contains it. -/
def occurrences (files : List (Path × List Span)) (kind : Kind) (name : Bytes) (incl : Bool) : List Loc :=
  files.flatMap fun f => (f.2.filter fun s => s.isSym kind name incl).map fun s => ⟨f.1, s.range⟩

/-! ### Reading a syntax tree -/

/-- A name-bearing node: the range is in the tree's own coordinates (1-based line, column). -/
structure TNode where
  kind : Kind
  name : Bytes
  range : ARange
  decl : Bool
deriving Repr, DecidableEq, Inhabited, BEq

/-- The tree gives where a name starts; the lexeme is as long as the name. -/
def lexeme (start : Pos) (name : Bytes) : ARange :=
  ⟨start.line, start.col, start.line, start.col + utf16Len name⟩

def tokenRange (r : Rng) : ARange := ⟨r.start.line, r.start.col, r.stop.line, r.stop.col⟩

def commodityNode (c : Commodity) : List TNode :=
  if c.symbol == [] then [] else [⟨.commodity, c.symbol, tokenRange c.range, false⟩]

def postingNodes (p : Posting) : List TNode :=
  [⟨.account, p.account.name, lexeme p.account.range.start p.account.name, false⟩] ++
  (match p.amount with | some a => commodityNode a.commodity | none => []) ++
  (match p.cost with | some c => commodityNode c.amount.commodity | none => []) ++
  (match p.assertion with | some b => commodityNode b.amount.commodity | none => [])

/-- The payee (description when there is no `payee | note` split) starts one blank after the
    date, or after date, blank, status mark, blank. -/
def payeeNode (tx : Transaction) : List TNode :=
  let payee := if tx.payee == [] then tx.description else tx.payee
  if payee == [] then [] else
    let col := tx.date.range.stop.col + 1 + (if tx.status == .none then 0 else 2)
    [⟨.payee, payee, ⟨tx.date.range.start.line, col, tx.date.range.start.line, col + utf16Len payee⟩, false⟩]

def txNodes (tx : Transaction) : List TNode := payeeNode tx ++ tx.postings.flatMap postingNodes

def directiveNodes : Directive → List TNode
  | .account a _ _ _ _ => [⟨.account, a.name, lexeme a.range.start a.name, true⟩]
  | .commodity c _ _ _ _ =>
    if c.symbol == [] then [] else [⟨.commodity, c.symbol, lexeme c.range.start c.symbol, true⟩]
  | .price _ c p _ =>
    (if c.symbol == [] then [] else [⟨.commodity, c.symbol, lexeme c.range.start c.symbol, false⟩]) ++
    commodityNode p.commodity
  | _ => []

def treeTNodes (j : Journal) : List TNode :=
  j.transactions.flatMap txNodes ++ j.directives.flatMap directiveNodes

def TNode.toSpan (n : TNode) : Span := ⟨n.kind, n.name, toLsp n.range, n.decl⟩

def treeNodes (j : Journal) : List Span := (treeTNodes j).map TNode.toSpan

/-- A node's range is one line of a real file: 1-based, within `uint32` after the shift. -/
def TNode.sane (n : TNode) : Bool :=
  decide (1 ≤ n.range.sl) && n.range.sl == n.range.el && decide (n.range.sl ≤ 4294967296) &&
  decide (1 ≤ n.range.sc) && decide (n.range.sc ≤ n.range.ec) && decide (n.range.ec ≤ 4294967296)

/-- The tree says exactly what the text's spans say. -/
def faithful (j : Journal) (spans : List Span) : Prop :=
  (∀ n ∈ treeTNodes j, n.sane = true) ∧ ∀ s, s ∈ treeNodes j ↔ s ∈ spans

def faithfulB (j : Journal) (spans : List Span) : Bool :=
  (treeTNodes j).all TNode.sane && (treeNodes j).all (spans.contains ·) && spans.all ((treeNodes j).contains ·)

/-- No cursor position lies on two different spans. -/
def separated (spans : List Span) : Prop :=
  ∀ a ∈ spans, ∀ b ∈ spans, ∀ p, a.has p = true → b.has p = true → a = b

/-- Occurrences that the syntax tree cannot carry because the node has no position at all:
    the symbol of a `D` directive (counted here) and the symbol inside a `format` sub-directive
    (only known to the generator). -/
def unrangedSites (j : Journal) (name : Bytes) : Nat :=
  (j.directives.filter fun d => match d with
    | .defaultCommodity s _ _ => s == name
    | _ => false).length

end HL.Spec.Occ
