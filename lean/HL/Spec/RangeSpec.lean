/-
  Executable specification for C08, written independently of the model:

    rangeOK doc r        the range lies inside `doc` (line exists, character ≤ UTF-16 length of
                         the line), start ≤ end, and neither end is inside a surrogate pair
    covers doc r lexeme  rangeOK and the text between the two positions is exactly `lexeme`
    laminar…             any two fold regions / outline symbols are disjoint or nested

  A document is a `List Char`; its lines are the pieces between `'\n'`; a trailing `'\r'`
  belongs to the line terminator, not to the line (LSP 3.17, "text documents").
-/
import HL.Model.Text
import HL.Model.Ast
namespace HL.RangeSpec
open HL HL.Ast HL.Text

/-- An LSP range with natural-number components (the wire values). -/
structure NRange where
  sl : Nat
  sc : Nat
  el : Nat
  ec : Nat
deriving Repr, DecidableEq, Inhabited

def stripCR (l : Txt) : Txt := if l.getLast? = some '\r' then l.dropLast else l

/-- The lines of the document as the client sees them. -/
def docLines (doc : Txt) : List Txt := (lines doc).map stripCR

/-- Number of chars of `l` that make up exactly `n` units when char `c` counts `w c` units
    (`none`: `n` is past the end of the line or inside a char). -/
def charsOf (w : Char → Nat) : Txt → Nat → Option Nat
  | _, 0 => some 0
  | [], _ + 1 => none
  | c :: cs, n + 1 =>
    if w c ≤ n + 1 then (charsOf w cs (n + 1 - w c)).map (· + 1) else none

/-- … in UTF-16 code units (LSP). -/
def charsOfUnits (l : Txt) (n : Nat) : Option Nat := charsOf u16w l n

/-- The position exists in the document and is a code point boundary. -/
def posOK (doc : Txt) (l c : Nat) : Bool :=
  match (docLines doc)[l]? with
  | none => false
  | some ln => (charsOfUnits ln c).isSome

def leqPos (l1 c1 l2 c2 : Nat) : Bool := l1 < l2 || (l1 == l2 && c1 ≤ c2)

def rangeOK (doc : Txt) (r : NRange) : Bool :=
  posOK doc r.sl r.sc && posOK doc r.el r.ec && leqPos r.sl r.sc r.el r.ec

/-- The text between the two positions of a single-line range (lexemes never span lines). -/
def slice (doc : Txt) (r : NRange) : Option Txt :=
  if r.sl ≠ r.el then none else
  match (docLines doc)[r.sl]? with
  | none => none
  | some ln =>
    match charsOfUnits ln r.sc, charsOfUnits ln r.ec with
    | some a, some b => if a ≤ b then some ((ln.drop a).take (b - a)) else none
    | _, _ => none

def covers (doc : Txt) (r : NRange) (lexeme : Txt) : Bool :=
  rangeOK doc r && slice doc r == some lexeme

/-! ### Laminar families -/

/-- All unordered pairs of a list satisfy `rel`. -/
def allPairs {α} (rel : α → α → Bool) : List α → Bool
  | [] => true
  | a :: rest => rest.all (rel a) && allPairs rel rest

/-- Fold regions are closed line intervals `[s, e]`: disjoint or nested. -/
def foldRel (a b : Nat × Nat) : Bool :=
  a.2 < b.1 || b.2 < a.1 || (a.1 ≤ b.1 && b.2 ≤ a.2) || (b.1 ≤ a.1 && a.2 ≤ b.2)

def laminarFolds (fs : List (Nat × Nat)) : Bool := allPairs foldRel fs

/-- Outline symbols are half-open position intervals `[start, end)`: disjoint or nested. -/
def symRel (a b : NRange) : Bool :=
  leqPos a.el a.ec b.sl b.sc || leqPos b.el b.ec a.sl a.sc ||
  (leqPos a.sl a.sc b.sl b.sc && leqPos b.el b.ec a.el a.ec) ||
  (leqPos b.sl b.sc a.sl a.sc && leqPos a.el a.ec b.el b.ec)

def laminarSymbols (rs : List NRange) : Bool := allPairs symRel rs

/-! ### Hypotheses about the syntax tree (to be discharged by the lexer / parser models)

    `w` is the number of columns one char occupies: `one` for the syntax tree (the lexer's
    columns count runes), `u16w` for columns that count UTF-16 units (what LSP wants; the
    server converts at the protocol boundary: repo_patches/fix-utf16-positions.diff). -/

def one : Char → Nat := fun _ => 1

/-- `p` is a position of the text: its line exists and its column is reached after a whole
    number of chars of that line. -/
def posSound (w : Char → Nat) (doc : Txt) (p : Pos) : Bool :=
  decide (1 ≤ p.line) && decide (1 ≤ p.col) &&
  match (docLines doc)[p.line - 1]? with
  | none => false
  | some ln => (charsOf w ln (p.col - 1)).isSome

def posLe (a b : Pos) : Bool := a.line < b.line || (a.line == b.line && a.col ≤ b.col)

def rngSound (w : Char → Nat) (doc : Txt) (r : Rng) : Bool :=
  posSound w doc r.start && posSound w doc r.stop && posLe r.start r.stop

/-- The range is on one line and the chars between its two columns are exactly `lex`. -/
def lexSound (w : Char → Nat) (doc : Txt) (r : Rng) (lex : Txt) : Bool :=
  decide (1 ≤ r.start.line) && r.start.line == r.stop.line && decide (1 ≤ r.start.col) && decide (1 ≤ r.stop.col) &&
  match (docLines doc)[r.start.line - 1]? with
  | none => false
  | some ln =>
    match charsOf w ln (r.start.col - 1), charsOf w ln (r.stop.col - 1) with
    | some a, some b => decide (a ≤ b) && (ln.drop a).take (b - a) == lex
    | _, _ => false

/-- Every component survives the conversion to `uint32`. -/
def rngSmall (r : Rng) : Bool :=
  decide (r.start.line < 4294967296) && decide (r.start.col < 4294967296) &&
  decide (r.stop.line < 4294967296) && decide (r.stop.col < 4294967296)

/-- No rune outside the BMP precedes the column of `p` on its line. -/
def bmpBefore (doc : Txt) (p : Pos) : Bool :=
  match (docLines doc)[p.line - 1]? with
  | none => true
  | some ln => (ln.take (p.col - 1)).all fun c => decide (c.val.toNat < 0x10000)

def amountRanges (a : Amount) : List Rng := [a.range, a.commodity.range]

def postingRanges (p : Posting) : List Rng :=
  [p.range, p.account.range] ++
  (match p.amount with | some a => amountRanges a | none => []) ++
  (match p.cost with | some c => c.range :: amountRanges c.amount | none => []) ++
  (match p.assertion with | some b => b.range :: amountRanges b.amount | none => [])

def txRanges (tx : Transaction) : List Rng :=
  [tx.range, tx.date.range] ++
  (match tx.date2 with | some d => [d.range] | none => []) ++
  tx.postings.flatMap postingRanges

def directiveRanges : Directive → List Rng
  | .account a _ _ _ r => [r, a.range]
  | .commodity c _ _ _ r => [r, c.range]
  | .price d c p r => [r, d.range, c.range] ++ amountRanges p
  | .year _ r => [r]
  | .defaultCommodity _ _ r => [r]

/-- Every position range the parser copies from token positions into the tree.  (Tag ranges
    are not among them: parseTags computes them by adding the rune count of the comment text
    before the tag to the comment's column, see `pinned_tag_byte_offsets_counterexample`.) -/
def nodeRanges (j : Journal) : List Rng :=
  j.transactions.flatMap txRanges ++ j.directives.flatMap directiveRanges ++ j.includes.map (·.range)

/-- Every range of the tree that has an End is a range of the text, in columns of unit `w`.
    (Ranges without End — the name ranges of account / commodity directives, the commodity of
    an amount that has none — are left out; the guards of the theorems name them.) -/
def TreePositionsSound (w : Char → Nat) (doc : Txt) (j : Journal) : Bool :=
  (nodeRanges j).all fun r => r.stop == Pos.zero || rngSound w doc r

/-- The range has an End (the name ranges of account / commodity directives have none; no
    feature converts them any more). -/
def hasEnd (r : Rng) : Bool := r.stop != Pos.zero

/-- Every line number and every UTF-16 offset of the document survives the conversion to
    `uint32` (a hypothesis on the document alone: fewer than 2³² lines, each shorter than 2³²
    UTF-16 units). -/
def docSmall (doc : Txt) : Bool :=
  decide ((lines doc).length < 4294967296) && (lines doc).all fun ln => decide (u16len ln < 4294967296)

end HL.RangeSpec
