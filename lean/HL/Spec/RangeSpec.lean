/-
  Executable specification for C08, written independently of the model:

    rangeOK doc r        the range lies inside `doc` (line exists, character ≤ UTF-16 length of
                         the line), start ≤ end, and neither end is inside a surrogate pair
    covers doc r lexeme  rangeOK and the text between the two positions is exactly `lexeme`
    laminar…             any two fold regions / outline symbols are disjoint or nested

  A document is a `List Char`; its lines are the pieces between `'\n'`; a trailing `'\r'`
  belongs to the line terminator, not to the line (LSP 3.17, "text documents").
-/
import HL.Model.Text
namespace HL.RangeSpec
open HL.Text

/-- An LSP range with natural-number components (the wire values). -/
structure NRange where
  sl : Nat
  sc : Nat
  el : Nat
  ec : Nat
deriving Repr, DecidableEq, Inhabited

def stripCR (l : Txt) : Txt := if l.getLast? = some '\r' then l.dropLast else l

/-- The lines of the document as the client sees them. -/
def docLines (doc : Txt) : List Txt := (lines doc).map stripCR

/-- Number of chars of `l` that make up exactly `n` units when char `c` counts `w c` units
    (`none`: `n` is past the end of the line or inside a char). -/
def charsOf (w : Char → Nat) : Txt → Nat → Option Nat
  | _, 0 => some 0
  | [], _ + 1 => none
  | c :: cs, n + 1 =>
    if w c ≤ n + 1 then (charsOf w cs (n + 1 - w c)).map (· + 1) else none

/-- … in UTF-16 code units (LSP). -/
def charsOfUnits (l : Txt) (n : Nat) : Option Nat := charsOf u16w l n

/-- The position exists in the document and is a code point boundary. -/
def posOK (doc : Txt) (l c : Nat) : Bool :=
  match (docLines doc)[l]? with
  | none => false
  | some ln => (charsOfUnits ln c).isSome

def leqPos (l1 c1 l2 c2 : Nat) : Bool := l1 < l2 || (l1 == l2 && c1 ≤ c2)

def rangeOK (doc : Txt) (r : NRange) : Bool :=
  posOK doc r.sl r.sc && posOK doc r.el r.ec && leqPos r.sl r.sc r.el r.ec

/-- The text between the two positions of a single-line range (lexemes never span lines). -/
def slice (doc : Txt) (r : NRange) : Option Txt :=
  if r.sl ≠ r.el then none else
  match (docLines doc)[r.sl]? with
  | none => none
  | some ln =>
    match charsOfUnits ln r.sc, charsOfUnits ln r.ec with
    | some a, some b => if a ≤ b then some ((ln.drop a).take (b - a)) else none
    | _, _ => none

def covers (doc : Txt) (r : NRange) (lexeme : Txt) : Bool :=
  rangeOK doc r && slice doc r == some lexeme

/-! ### Laminar families -/

/-- All unordered pairs of a list satisfy `rel`. -/
def allPairs {α} (rel : α → α → Bool) : List α → Bool
  | [] => true
  | a :: rest => rest.all (rel a) && allPairs rel rest

/-- Fold regions are closed line intervals `[s, e]`: disjoint or nested. -/
def foldRel (a b : Nat × Nat) : Bool :=
  a.2 < b.1 || b.2 < a.1 || (a.1 ≤ b.1 && b.2 ≤ a.2) || (b.1 ≤ a.1 && a.2 ≤ b.2)

def laminarFolds (fs : List (Nat × Nat)) : Bool := allPairs foldRel fs

/-- Outline symbols are half-open position intervals `[start, end)`: disjoint or nested. -/
def symRel (a b : NRange) : Bool :=
  leqPos a.el a.ec b.sl b.sc || leqPos b.el b.ec a.sl a.sc ||
  (leqPos a.sl a.sc b.sl b.sc && leqPos b.el b.ec a.el a.ec) ||
  (leqPos b.sl b.sc a.sl a.sc && leqPos a.el a.ec b.el b.ec)

def laminarSymbols (rs : List NRange) : Bool := allPairs symRel rs

end HL.RangeSpec
