/-
  Specification for property C18, written from the statement, independently of the code:

    "When the current file, its include tree or its workspace declares at least one account,
     exactly those postings are warned about whose account is neither declared, nor below a
     declared account, nor under a standard top-level category; when at least one commodity is
     declared, each undeclared commodity used in a transaction's amounts, costs or assertions is
     warned about once in that transaction.  Each kind of warning disappears entirely when its
     setting is off and is unaffected by the other settings."

  Readings fixed here (each one is a choice the statement leaves open):
  * "its workspace" is the workspace's journal: the root journal the server selects for the
    opened folder together with every file that journal includes, which is how the project
    defines and tests a workspace (`TestServer_Diagnostics_WithWorkspaceDeclarations`).  A file
    that merely lies in the folder but is reached neither from the workspace's root journal nor
    from the current file contributes nothing.  Which files these are is part of the input
    (`Workspace.includeTree`, `Workspace.workspace`): ground truth of the generated case.
  * "under a standard top-level category": the top-level segment of the account name (the part
    before the first ':'), compared without regard to letter case, is one of assets, liabilities,
    equity, expenses, revenues, income.  The notion of lower-casing is a parameter `lower`
    (every theorem holds for every function); the name is lower-cased, then cut at its first
    colon (`Props/C18.goLower_firstSegment` shows that for the lower-casing used at run time
    the order of the two steps does not matter).
  * "below a declared account d": the name starts with d followed by ':'.
  * a commodity is "used" where an amount, a cost or a balance assertion of a posting names a
    non-empty symbol; "once in that transaction": at its first use, postings in order and inside a
    posting amount, cost, assertion.
  * warnings are listed transaction by transaction, accounts before commodities; the property
    theorems prove equality of these lists, the run-time oracle compares them as multisets.
-/
import HL.Model.Ast
namespace HL.Spec.Undeclared
open HL HL.Ast

inductive Kind where | account | commodity
deriving Repr, DecidableEq, Inhabited, BEq

/-- A warning: what is undeclared, and where (posting range for an account, the range of the
    commodity symbol at its first use for a commodity). -/
structure Warning where
  kind : Kind
  subject : Bytes
  range : Rng
deriving Repr, DecidableEq, Inhabited, BEq

def declaredAccountsOf (j : Journal) : List Bytes :=
  j.directives.flatMap fun d => match d with
    | .account a _ _ _ _ => [a.name]
    | _ => []

def declaredCommoditiesOf (j : Journal) : List Bytes :=
  j.directives.flatMap fun d => match d with
    | .commodity c _ _ _ _ => [c.symbol]
    | _ => []

/-- assets, liabilities, equity, expenses, revenues, income. -/
def categories : List Bytes := [
  [97, 115, 115, 101, 116, 115],
  [108, 105, 97, 98, 105, 108, 105, 116, 105, 101, 115],
  [101, 113, 117, 105, 116, 121],
  [101, 120, 112, 101, 110, 115, 101, 115],
  [114, 101, 118, 101, 110, 117, 101, 115],
  [105, 110, 99, 111, 109, 101]]

/-- The part of an account name before its first ':' (58). -/
def firstSegment : Bytes → Bytes
  | [] => []
  | b :: r => if b = 58 then [] else b :: firstSegment r

/-- `acc` is a proper sub-account of `d`: `acc = d ++ ":" ++ rest`. -/
def below (acc d : Bytes) : Bool := (d ++ [58]).isPrefixOf acc

/-- Declared, below a declared account, or under a standard category. -/
def accountCovered (lower : Bytes → Bytes) (D : List Bytes) (acc : Bytes) : Bool :=
  decide (acc ∈ D) || D.any (below acc) || decide (firstSegment (lower acc) ∈ categories)

def accountWarnings (lower : Bytes → Bytes) (D : List Bytes) (tx : Transaction) : List Warning :=
  if D = [] then []
  else (tx.postings.filter fun p => !accountCovered lower D p.account.name).map
    fun p => ⟨.account, p.account.name, p.range⟩

/-- A use of a commodity symbol inside a transaction. -/
structure Use where
  symbol : Bytes
  range : Rng
deriving Repr, DecidableEq, Inhabited, BEq

def amountUse (a : Amount) : List Use :=
  if a.commodity.symbol = [] then [] else [⟨a.commodity.symbol, a.commodity.range⟩]

def postingUses (p : Posting) : List Use :=
  (match p.amount with | some a => amountUse a | none => []) ++
  (match p.cost with | some c => amountUse c.amount | none => []) ++
  (match p.assertion with | some b => amountUse b.amount | none => [])

def uses (tx : Transaction) : List Use := tx.postings.flatMap postingUses

/-- Keep the first use of every symbol, in order. -/
def onceEach : List Use → List Use
  | [] => []
  | u :: us => u :: (onceEach us).filter (fun v => v.symbol != u.symbol)

def commodityWarnings (D : List Bytes) (tx : Transaction) : List Warning :=
  if D = [] then []
  else (onceEach ((uses tx).filter fun u => !decide (u.symbol ∈ D))).map
    fun u => ⟨.commodity, u.symbol, u.range⟩

/-- Warnings for one journal under declared sets `dAcc`, `dCom`. -/
def journalWarnings (lower : Bytes → Bytes) (dAcc dCom : List Bytes) (j : Journal) : List Warning :=
  j.transactions.flatMap fun tx => accountWarnings lower dAcc tx ++ commodityWarnings dCom tx

/-! ### Where declarations come from -/

/-- A workspace as the statement sees it: the files (syntax trees), the one the editor has open,
    the files of its include tree, and the files of the workspace's journal (`none`: the server
    was started without a workspace folder, or the folder holds no journal). -/
structure Workspace where
  files : List Journal
  cur : Nat
  includeTree : List Nat
  workspace : Option (List Nat)

def Workspace.file (w : Workspace) (i : Nat) : Journal := (w.files[i]?).getD ⟨[], [], [], []⟩

/-- The files whose declarations count: the current file, its include tree, its workspace. -/
def relevant (w : Workspace) : List Nat :=
  w.cur :: (w.includeTree ++ (match w.workspace with | some l => l | none => []))

def declaredAccounts (w : Workspace) : List Bytes :=
  (relevant w).flatMap fun i => declaredAccountsOf (w.file i)

def declaredCommodities (w : Workspace) : List Bytes :=
  (relevant w).flatMap fun i => declaredCommoditiesOf (w.file i)

/-- The two switches that concern these warnings (the third diagnostics switch,
    unbalancedTransactions, and every other setting do not occur: "unaffected by the others"). -/
structure Switches where
  undeclaredAccounts : Bool
  undeclaredCommodities : Bool
deriving Repr, DecidableEq, Inhabited, BEq

def enabled (s : Switches) : Kind → Bool
  | .account => s.undeclaredAccounts
  | .commodity => s.undeclaredCommodities

/-- The warnings the editor must show for the current file. -/
def published (lower : Bytes → Bytes) (w : Workspace) (s : Switches) : List Warning :=
  (journalWarnings lower (declaredAccounts w) (declaredCommodities w) (w.file w.cur)).filter
    fun x => enabled s x.kind

end HL.Spec.Undeclared
