/-
  C17, the CLIENT side, written from the LSP specification (3.17, "Semantic Tokens"), not from
  the server's code:

  * `decode`     integer array → absolute tokens (relative line / start, 5 numbers per token);
                 the client computes in unbounded integers (no wrap-around)
  * `applyEdit(s)` how a client applies `SemanticTokensDelta.edits` to the array it holds
  * `Client`     what a client remembers: every result it received, by (document, resultId),
                 and the array it currently shows per document
  * `restrict`   the tokens of a line range
  * validators   `legendOk`, `inLine`, `orderedDisjoint`, `coversOk` (+ line lengths in UTF-16)

  Only the wire types (`Data`, `Edit`, `Resp`, `Req`) and the UTF-8 decoder are shared with the
  model.
-/
import HL.Model.SemTok

namespace HL.SemTokSpec
open HL HL.SemTok

/-- A token in absolute coordinates: line, start (UTF-16 units), length (UTF-16 units),
    index into the legend's token types, modifier bit set. -/
structure AbsTok where
  line : Nat
  start : Nat
  len : Nat
  ty : Nat
  mods : Nat
deriving Repr, DecidableEq, Inhabited, BEq

/-- LSP: "deltaLine: token line number, relative to the previous token; deltaStart: token start
    character, relative to the previous token (relative to 0 or the previous token's start if
    they are on the same line)". -/
def decodeGo : Nat → Nat → List Nat → List AbsTok
  | pl, pc, dl :: dc :: len :: ty :: mods :: rest =>
    let line := pl + dl
    let start := if dl = 0 then pc + dc else dc
    ⟨line, start, len, ty, mods⟩ :: decodeGo line start rest
  | _, _, _ => []

def decode (d : Data) : List AbsTok := decodeGo 0 0 (d.map (·.toNat))

/-- LSP `SemanticTokensEdit`: delete `deleteCount` elements at `start`, insert `data` there. -/
def applyEdit (a : Data) (e : Edit) : Data :=
  a.take e.start.toNat ++ e.data ++ a.drop (e.start.toNat + e.deleteCount.toNat)

/-- All edits of one delta refer to positions in the array the client holds BEFORE the delta;
    applying them from the highest start downwards keeps the lower positions valid. -/
def applyEdits (a : Data) (es : List Edit) : Data :=
  (es.mergeSort (fun x y => x.start ≥ y.start)).foldl applyEdit a

/-! ### The client -/

/-- A client that remembers every result it has received (so that it can name a stale one). -/
structure Client where
  mem : List ((Uri × String) × Data) := []
  cur : List (Uri × Data) := []

def Client.lookup (c : Client) (u : Uri) (id : String) : Option Data :=
  (c.mem.find? (fun e => e.1 == (u, id))).map (·.2)

def Client.shown (c : Client) (u : Uri) : Option Data :=
  (c.cur.find? (·.1 == u)).map (·.2)

/-- A result without a result id cannot be named in a later delta request: it is shown but
    not remembered. -/
def Client.store (c : Client) (u : Uri) (id : String) (d : Data) : Client :=
  { mem := if id = "" then c.mem else ((u, id), d) :: c.mem, cur := (u, d) :: c.cur }

/-- The client receives the response to a full request (`prev = none`) or to a delta request
    that carried `previousResultId = prev`.  A delta is applied to the array the client
    remembers for `prev` (the empty array if it remembers none). -/
def Client.recv (c : Client) (u : Uri) (prev : Option String) : Resp → Client
  | .none => c
  | .tokens id d => c.store u id d
  | .delta id es =>
    let base := ((prev.bind (c.lookup u)).getD [])
    c.store u id (applyEdits base es)

/-- Requests that change what the client shows: full and delta.  (Range results are
    displayed separately and do not take part in delta computation.) -/
def Client.step {δ} (c : Client) (rq : Req δ) (rs : Resp) : Client :=
  match rq with
  | .full u => c.recv u none rs
  | .delta u prev => c.recv u (some prev) rs
  | _ => c

/-- A client that keeps only the latest result per document (what editors do). -/
abbrev Client1 := List (Uri × (String × Data))

def Client1.get (c : Client1) (u : Uri) : Option (String × Data) := (c.find? (·.1 == u)).map (·.2)

def Client1.recv (c : Client1) (u : Uri) : Resp → Client1
  | .none => c
  | .tokens id d => (u, (id, d)) :: c
  | .delta id es => (u, (id, applyEdits ((Client1.get c u).map (·.2) |>.getD []) es)) :: c

def Client1.step {δ} (c : Client1) (rq : Req δ) (rs : Resp) : Client1 :=
  match rq with
  | .full u => Client1.recv c u rs
  | .delta u _ => Client1.recv c u rs
  | _ => c

/-! ### Ranges -/

def restrict (lo hi : Nat) (ts : List AbsTok) : List AbsTok :=
  ts.filter fun t => lo ≤ t.line && t.line ≤ hi

/-! ### Validators -/

/-- Type from the advertised legend, modifier bits within the advertised modifiers. -/
def legendOk (nTypes nMods : Nat) (t : AbsTok) : Bool := t.ty < nTypes && t.mods < 2 ^ nMods

/-- Document order, no overlap (tokens never span lines). -/
def orderedDisjoint : List AbsTok → Bool
  | a :: b :: rest =>
    (a.line < b.line || (a.line == b.line && a.start + a.len ≤ b.start)) && orderedDisjoint (b :: rest)
  | _ => true

/-- Document order only (what relative encoding needs). -/
def weaklyOrdered : List AbsTok → Bool
  | a :: b :: rest =>
    (a.line < b.line || (a.line == b.line && a.start ≤ b.start)) && weaklyOrdered (b :: rest)
  | _ => true

/-- Inside its line: `lens[i]` = length of line `i` in UTF-16 units. -/
def inLine (lens : List Nat) (t : AbsTok) : Bool :=
  match lens[t.line]? with
  | some n => t.start + t.len ≤ n
  | none => false

/-! ### Text geometry (lines in UTF-16 units) -/

def lf : UInt8 := 0x0A
def cr : UInt8 := 0x0D

/-- Lines as LSP counts them for documents whose line ends are LF or CRLF: split at LF and
    drop one trailing CR. -/
def stripCR (l : Bytes) : Bytes := if l.getLast? = some cr then l.dropLast else l

def lineBytes (text : Bytes) : List Bytes := (splitOn lf text).map stripCR

/-- Every line as code points. -/
def lineRunes (text : Bytes) : List (List Nat) := (lineBytes text).map runes

def lineLens16 (text : Bytes) : List Nat := (lineRunes text).map u16sum

/-- The code points covered by UTF-16 units `[start, start+len)` of a line; `none` when the
    span leaves the line or cuts a surrogate pair. -/
def slice16 : List Nat → Nat → Nat → Option (List Nat)
  | _, 0, 0 => some []
  | [], _, _ => none
  | r :: rs, 0, len => if u16w r ≤ len then (slice16 rs 0 (len - u16w r)).map (r :: ·) else none
  | r :: rs, start, len => if u16w r ≤ start then slice16 rs (start - u16w r) len else none

/-- LSP position (line, UTF-16 column) of byte offset `off`. -/
def posOfOffset (text : Bytes) (off : Nat) : Nat × Nat :=
  let pre := text.take off
  let ls := splitOn lf pre
  (ls.length - 1, u16lenB (ls.getLast?.getD []))

/-- The lexeme a lexer token stands for, as a byte range of the text: the source span
    `[Pos.Offset, End.Offset)` (`sliceB`, `leadWs` = leading white space as `unicode.IsSpace`,
    in bytes) without surrounding white space; a comment keeps its trailing blanks (but not
    the CR of a CRLF line end).  The pinned lexer reported `|` with `Pos = End =` the position
    after the character (finding pipe-position, repaired). -/
def lexemeRange (text : Bytes) (t : Token) : Nat × Nat :=
  if t.ty == .pipe && t.pos.off == t.stop.off then (t.pos.off - 1, t.pos.off)
  else if t.ty == .comment then
    let raw := sliceB text t.pos.off t.stop.off
    (t.pos.off, t.pos.off + (stripCR raw).length)
  else
    let raw := sliceB text t.pos.off t.stop.off
    let a := leadWs raw
    (t.pos.off + a, t.pos.off + a + (trimSpace raw).length)

/-- Legend indices acceptable for a lexeme of the given lexer kind
    (0 account, 1 commodity, 2 payee, 3 date, 4 amount, 5 tag, 6 directive, 7 code, 8 status,
     9 comment, 10 string, 11 operator). -/
def kindTypes : TokType → List Nat
  | .date => [3] | .account => [0] | .number => [4] | .commodity => [1] | .comment => [9]
  | .at | .atAt | .equals | .doubleEquals | .pipe => [11]
  | .text => [10, 2] | .code => [7] | .status => [8] | .directive => [6] | .tag => [5]
  | _ => []

/-- Expected span (line, start, len) of a lexer token's lexeme. -/
def lexemeSpan (text : Bytes) (t : Token) : Nat × Nat × Nat :=
  let (a, b) := lexemeRange text t
  let (l, c) := posOfOffset text a
  (l, c, u16lenB (sliceB text a b))

/-- The token covers exactly the lexeme of lexer token `t`, with a type of `t`'s kind. -/
def coversTok (text : Bytes) (t : Token) (a : AbsTok) : Bool :=
  a.len > 0 && (kindTypes t.ty).contains a.ty && lexemeSpan text t == (a.line, a.start, a.len)

def isTagNameRune (cls : Classes) (r : Nat) : Bool :=
  cls.isLetter r || cls.isDigit r || r == 0x5F || r == 0x2D

/-- A tag token (legend index 5) covers `name:` inside comment `t`, `name` a whole word of
    tag-name characters; a tag value token (index 12) covers a non-empty piece of the comment
    without surrounding blanks and commas that follows a `:` and ends where the
    comma-separated part ends. -/
def coversTag (cls : Classes) (text : Bytes) (t : Token) (a : AbsTok) : Bool :=
  t.ty == .comment &&
  (let (cl, cs, clen) := lexemeSpan text t
   match (lineRunes text)[a.line]? with
   | none => false
   | some line =>
     a.line == cl && cs + 1 ≤ a.start && a.start + a.len ≤ cs + clen &&
     match slice16 line a.start a.len, slice16 line 0 a.start, slice16 line (a.start + a.len) (cs + clen - (a.start + a.len)) with
     | some body, some before, some after =>
       if a.ty == 5 then
         body.length ≥ 2 && body.getLast? == some 0x3A &&
         body.dropLast.all (isTagNameRune cls) &&
         !(match before.getLast? with | some r => isTagNameRune cls r | none => false)
       else if a.ty == 12 then
         !body.isEmpty && !body.contains 0x2C &&
         !(match body.head? with | some r => isSpaceRune r | none => true) &&
         !(match body.getLast? with | some r => isSpaceRune r | none => true) &&
         ((before.reverse.dropWhile isSpaceRune).head? == some 0x3A) &&
         (match (after.dropWhile isSpaceRune).head? with | none => true | some r => r == 0x2C)
       else false
     | _, _, _ => false)

/-- "Each covers exactly one lexeme of that kind": some lexer token of the document explains it. -/
def coversOk (cls : Classes) (text : Bytes) (toks : List Token) (a : AbsTok) : Bool :=
  toks.any fun t => t.ty != .eof && (coversTok text t a || coversTag cls text t a)

/-! ### Guards of the known deviations (see known_findings.json, property C17)

  Each is a decidable predicate on the text and ONE lexer token (the token a semantic token was
  made from).  None is open.  `devCrComment` names the shape the PINNED LEXER
  (HL/Model/LexerPinned.lean) produced on CRLF lines; the current lexer never produces it on a
  text of the domain (`HL.Props.C17.lexer_comment_no_cr`).  The others name the shapes on which
  the PINNED tokenizer (HL/Model/SemTokPinned.lean) failed; the defects are repaired, the
  predicates are kept for the `pinned_*_counterexample` theorems. -/

/-- `|` reported at the position AFTER the character with an empty extent (the pinned lexer;
    repaired by the `scanPunct` fix — the current lexer never produces this shape). -/
def devPipe (t : Token) : Bool := t.ty == .pipe && t.pos.off == t.stop.off

/-- (repaired) A code's value has no parentheses, its length was computed from the value. -/
def devCode (t : Token) : Bool := t.ty == .code

/-- (repaired) A quoted commodity's value has no quotes, its length was computed from the value. -/
def devQuoted (t : Token) : Bool := t.ty == .commodity && t.stop.off - t.pos.off != t.val.length

/-- (repaired) A text token's value is trimmed but its position was where scanning started; an
    empty value gave a zero-length token. -/
def devTextTrim (text : Bytes) (t : Token) : Bool :=
  t.ty == .text && (t.val.isEmpty || leadWs (sliceB text t.pos.off t.stop.off) > 0)

/-- (repaired, in the lexer) A comment on a CRLF line: the value (and so the length) included
    the CR. -/
def devCrComment (t : Token) : Bool := t.ty == .comment && t.val.getLast? == some cr

/-- (repaired) A character outside the BMP earlier on the line: the lexer's column counts it
    once, LSP counts two UTF-16 units. -/
def devNonBmpBefore (text : Bytes) (off : Nat) : Bool :=
  ((runes ((splitOn lf (text.take off)).getLast?.getD [])).any (· ≥ 0x10000))

/-- (repaired) Tag tokens were placed by BYTE offsets inside the comment: wrong after a
    non-ASCII byte. -/
def devTagBytes (t : Token) (endByte : Nat) : Bool := (t.val.take endByte).any (· ≥ 0x80)

/-- (repaired) A comma-separated part of the comment that contains `:` but whose name is not a
    tag name (empty, or with blanks or other characters) was skipped WITHOUT advancing the search
    position; `strings.Index` could then find a later tag's `name:` inside that part. -/
def devTagSkippedPart (cls : Classes) (t : Token) : Bool :=
  t.ty == .comment &&
  (splitOn comma t.val).any fun part =>
    let trimmed := trimSpace part
    match indexOf [colon] trimmed with
    | none => false
    | some i =>
      let name := trimSpace (trimmed.take i)
      name.isEmpty || !isValidTagName cls name

/-! ### Hypotheses on the lexer's output

  The tokenizer model takes the text and the lexer's tokens as input; the theorems about
  positions assume the lexer's CONTRACT about that output — `extentsB` (extents in bytes),
  `cutsB` (offsets on rune boundaries, defined further down) and `lineOk` (line numbers) — as
  decidable facts which the driver evaluates on every generated case.  They do not mention
  token values (except a comment's) or the lexer's columns.  `measured` / `measB` / `placed` are
  intermediate notions (the cursor agrees with UTF-16 lengths and LSP characters) which
  HL/Lemmas/SemTokPlace.lean derives from the contract; `inlineB` (every piece ends inside its
  line) follows from the contract and the fact that no comment's value ends with a CR
  (HL/Lemmas/SemTokLines.lean; for the lexer's output that fact is `lexer_comment_no_cr`). -/

/-- No line feed in `text[a:b)`. -/
def noLf (text : Bytes) (a b : Nat) : Bool := !(sliceB text a b).contains lf

/-- The tokens `tokenizeForSemantics` looks at (up to the EOF token) that it maps to a
    semantic type. -/
def mappedBody : List Token → List Token
  | [] => []
  | t :: rest =>
    if t.ty == .eof then []
    else if (mapTokenType t.ty).isSome then t :: mappedBody rest else mappedBody rest

/-- The lexer's contract for one token: a positive 32-bit line number, an extent inside the
    text (which is addressable with 32 bits) and inside one line; a comment's value is its
    extent without the semicolon. -/
def extentOk (text : Bytes) (t : Token) : Bool :=
  1 ≤ t.pos.line && t.pos.line < 2 ^ 32 && t.pos.off ≤ t.stop.off && t.stop.off ≤ text.length &&
  text.length < 2 ^ 32 && noLf text t.pos.off t.stop.off &&
  (t.ty != .comment || sliceB text t.pos.off t.stop.off == 0x3B :: t.val)

/-- `t'` starts where `t` ends or later; on the same line iff the lexer says so. -/
def follows (text : Bytes) (t t' : Token) : Bool :=
  t.stop.off ≤ t'.pos.off &&
  (t.pos.line < t'.pos.line || (t.pos.line == t'.pos.line && noLf text t.stop.off t'.pos.off))

def chainB (text : Bytes) : List Token → Bool
  | t :: t' :: rest => follows text t t' && chainB text (t' :: rest)
  | _ => true

/-- Extents are well-formed and laid out in document order without overlap (in bytes). -/
def extentsB (text : Bytes) (toks : List Token) : Bool :=
  (mappedBody toks).all (extentOk text) && chainB text (mappedBody toks)

/-- The pieces of the text (absolute byte offset, byte length, UTF-16 length) that the semantic
    tokenizer turns into tokens for lexer token `t`. -/
def emitted (cls : Classes) (text : Bytes) (t : Token) : List TagSpan :=
  let tags := if t.ty == .comment then extractSpans cls t.val else []
  if !tags.isEmpty then tags.map fun sp => { sp with off := t.pos.off + 1 + sp.off }
  else
    let sp := plainSpan text t 0
    if sp.len16 == 0 then [] else [sp]

/-- The cursor's columns at both ends of a piece are at least its UTF-16 length apart (they
    are exactly that far apart when both ends are rune boundaries of the text). -/
def measured (text : Bytes) (sp : TagSpan) : Bool :=
  colAt text sp.off + sp.len16 ≤ colAt text (sp.off + sp.len) && colAt text (sp.off + sp.len) < 2 ^ 32

def measB (cls : Classes) (text : Bytes) (toks : List Token) : Bool :=
  (mappedBody toks).all fun t => (emitted cls text t).all (measured text)

/-- Every piece ends inside its line (`lens` = UTF-16 length of every line without its line
    end): false for a comment that includes the CR of a CRLF line end. -/
def inlineB (lens : List Nat) (cls : Classes) (text : Bytes) (toks : List Token) : Bool :=
  (mappedBody toks).all fun t => (emitted cls text t).all fun sp =>
    match lens[t.pos.line - 1]? with
    | some n => colAt text (sp.off + sp.len) ≤ n
    | none => false

/-- The lexer's line number and the cursor's column are the LSP position of the lexeme's first
    byte. -/
def placed (text : Bytes) (t : Token) : Bool :=
  let a := (lexemeRange text t).1
  posOfOffset text a == (t.pos.line - 1, colAt text a)

/-! ### Rune boundaries (the lexer's offsets never fall inside a rune) -/

/-- `n` is a rune boundary of `s`: the start of a rune, or the end of the string, when `s` is
    decoded from its start (`for i := range s`). -/
def isCutF : Nat → Bytes → Nat → Bool
  | _, _, 0 => true
  | 0, _, _+1 => false
  | _+1, [], _+1 => false
  | f+1, s@(_ :: _), n+1 =>
    let k := (decodeRune s).2
    k ≤ n+1 && isCutF f (s.drop k) (n+1-k)

def isCut (s : Bytes) (n : Nat) : Bool := isCutF s.length s n

/-- Both ends of the token's extent are rune boundaries of the text. -/
def cutOk (text : Bytes) (t : Token) : Bool := isCut text t.pos.off && isCut text t.stop.off

/-- The lexer's contract about offsets: every mapped token starts and ends on a rune boundary. -/
def cutsB (text : Bytes) (toks : List Token) : Bool := (mappedBody toks).all (cutOk text)

/-- The lexer's contract about line numbers: `Pos.Line` is one more than the number of line
    feeds before `Pos.Offset`. -/
def lineOk (text : Bytes) (t : Token) : Bool := (posOfOffset text t.pos.off).1 == t.pos.line - 1

/-- The property's domain: valid UTF-8 (no U+FFFD produced by decoding unless present), and CR
    only as part of CRLF. -/
def crOnlyBeforeLf : Bytes → Bool
  | a :: b :: rest => (a != cr || b == lf) && crOnlyBeforeLf (b :: rest)
  | [a] => a != cr
  | [] => true

def validUtf8 (s : Bytes) : Bool :=
  (chunks s).all fun c => c.1 != runeError || c.2 == [0xEF, 0xBF, 0xBD]

def inDomain (text : Bytes) : Bool := validUtf8 text && crOnlyBeforeLf text

end HL.SemTokSpec
