/-
  C17, the CLIENT side, written from the LSP specification (3.17, "Semantic Tokens"), not from
  the server's code:

  * `decode`     integer array → absolute tokens (relative line / start, 5 numbers per token);
                 the client computes in unbounded integers (no wrap-around)
  * `applyEdit(s)` how a client applies `SemanticTokensDelta.edits` to the array it holds
  * `Client`     what a client remembers: every result it received, by (document, resultId),
                 and the array it currently shows per document
  * `restrict`   the tokens of a line range
  * validators   `legendOk`, `inLine`, `orderedDisjoint`, `coversOk` (+ line lengths in UTF-16)

  Only the wire types (`Data`, `Edit`, `Resp`, `Req`) and the UTF-8 decoder are shared with the
  model.
-/
import HL.Model.SemTok

namespace HL.SemTokSpec
open HL HL.SemTok

/-- A token in absolute coordinates: line, start (UTF-16 units), length (UTF-16 units),
    index into the legend's token types, modifier bit set. -/
structure AbsTok where
  line : Nat
  start : Nat
  len : Nat
  ty : Nat
  mods : Nat
deriving Repr, DecidableEq, Inhabited, BEq

/-- LSP: "deltaLine: token line number, relative to the previous token; deltaStart: token start
    character, relative to the previous token (relative to 0 or the previous token's start if
    they are on the same line)". -/
def decodeGo : Nat → Nat → List Nat → List AbsTok
  | pl, pc, dl :: dc :: len :: ty :: mods :: rest =>
    let line := pl + dl
    let start := if dl = 0 then pc + dc else dc
    ⟨line, start, len, ty, mods⟩ :: decodeGo line start rest
  | _, _, _ => []

def decode (d : Data) : List AbsTok := decodeGo 0 0 (d.map (·.toNat))

/-- LSP `SemanticTokensEdit`: delete `deleteCount` elements at `start`, insert `data` there. -/
def applyEdit (a : Data) (e : Edit) : Data :=
  a.take e.start.toNat ++ e.data ++ a.drop (e.start.toNat + e.deleteCount.toNat)

/-- All edits of one delta refer to positions in the array the client holds BEFORE the delta;
    applying them from the highest start downwards keeps the lower positions valid. -/
def applyEdits (a : Data) (es : List Edit) : Data :=
  (es.mergeSort (fun x y => x.start ≥ y.start)).foldl applyEdit a

/-! ### The client -/

/-- A client that remembers every result it has received (so that it can name a stale one). -/
structure Client where
  mem : List ((Uri × String) × Data) := []
  cur : List (Uri × Data) := []

def Client.lookup (c : Client) (u : Uri) (id : String) : Option Data :=
  (c.mem.find? (fun e => e.1 == (u, id))).map (·.2)

def Client.shown (c : Client) (u : Uri) : Option Data :=
  (c.cur.find? (·.1 == u)).map (·.2)

/-- A result without a result id cannot be named in a later delta request: it is shown but
    not remembered. -/
def Client.store (c : Client) (u : Uri) (id : String) (d : Data) : Client :=
  { mem := if id = "" then c.mem else ((u, id), d) :: c.mem, cur := (u, d) :: c.cur }

/-- The client receives the response to a full request (`prev = none`) or to a delta request
    that carried `previousResultId = prev`.  A delta is applied to the array the client
    remembers for `prev` (the empty array if it remembers none). -/
def Client.recv (c : Client) (u : Uri) (prev : Option String) : Resp → Client
  | .none => c
  | .tokens id d => c.store u id d
  | .delta id es =>
    let base := ((prev.bind (c.lookup u)).getD [])
    c.store u id (applyEdits base es)

/-- Requests that change what the client shows: full and delta.  (Range results are
    displayed separately and do not take part in delta computation.) -/
def Client.step {δ} (c : Client) (rq : Req δ) (rs : Resp) : Client :=
  match rq with
  | .full u => c.recv u none rs
  | .delta u prev => c.recv u (some prev) rs
  | _ => c

/-- A client that keeps only the latest result per document (what editors do). -/
abbrev Client1 := List (Uri × (String × Data))

def Client1.get (c : Client1) (u : Uri) : Option (String × Data) := (c.find? (·.1 == u)).map (·.2)

def Client1.recv (c : Client1) (u : Uri) : Resp → Client1
  | .none => c
  | .tokens id d => (u, (id, d)) :: c
  | .delta id es => (u, (id, applyEdits ((Client1.get c u).map (·.2) |>.getD []) es)) :: c

def Client1.step {δ} (c : Client1) (rq : Req δ) (rs : Resp) : Client1 :=
  match rq with
  | .full u => Client1.recv c u rs
  | .delta u _ => Client1.recv c u rs
  | _ => c

/-! ### Ranges -/

def restrict (lo hi : Nat) (ts : List AbsTok) : List AbsTok :=
  ts.filter fun t => lo ≤ t.line && t.line ≤ hi

/-! ### Validators -/

/-- Type from the advertised legend, modifier bits within the advertised modifiers. -/
def legendOk (nTypes nMods : Nat) (t : AbsTok) : Bool := t.ty < nTypes && t.mods < 2 ^ nMods

/-- Document order, no overlap (tokens never span lines). -/
def orderedDisjoint : List AbsTok → Bool
  | a :: b :: rest =>
    (a.line < b.line || (a.line == b.line && a.start + a.len ≤ b.start)) && orderedDisjoint (b :: rest)
  | _ => true

/-- Document order only (what relative encoding needs). -/
def weaklyOrdered : List AbsTok → Bool
  | a :: b :: rest =>
    (a.line < b.line || (a.line == b.line && a.start ≤ b.start)) && weaklyOrdered (b :: rest)
  | _ => true

/-- Inside its line: `lens[i]` = length of line `i` in UTF-16 units. -/
def inLine (lens : List Nat) (t : AbsTok) : Bool :=
  match lens[t.line]? with
  | some n => t.start + t.len ≤ n
  | none => false

/-! ### Text geometry (lines in UTF-16 units) -/

def lf : UInt8 := 0x0A
def cr : UInt8 := 0x0D

/-- Lines as LSP counts them for documents whose line ends are LF or CRLF: split at LF and
    drop one trailing CR. -/
def stripCR (l : Bytes) : Bytes := if l.getLast? = some cr then l.dropLast else l

def lineBytes (text : Bytes) : List Bytes := (splitOn lf text).map stripCR

/-- Every line as code points. -/
def lineRunes (text : Bytes) : List (List Nat) := (lineBytes text).map runes

def lineLens16 (text : Bytes) : List Nat := (lineRunes text).map u16sum

/-- The code points covered by UTF-16 units `[start, start+len)` of a line; `none` when the
    span leaves the line or cuts a surrogate pair. -/
def slice16 : List Nat → Nat → Nat → Option (List Nat)
  | _, 0, 0 => some []
  | [], _, _ => none
  | r :: rs, 0, len => if u16w r ≤ len then (slice16 rs 0 (len - u16w r)).map (r :: ·) else none
  | r :: rs, start, len => if u16w r ≤ start then slice16 rs (start - u16w r) len else none

/-- LSP position (line, UTF-16 column) of byte offset `off`. -/
def posOfOffset (text : Bytes) (off : Nat) : Nat × Nat :=
  let pre := text.take off
  let ls := splitOn lf pre
  (ls.length - 1, u16lenB (ls.getLast?.getD []))

def sliceB (text : Bytes) (a b : Nat) : Bytes := (text.take b).drop a

/-- Leading white space (as `unicode.IsSpace`) of a byte string, in bytes. -/
def leadWs (s : Bytes) : Nat := (unchunk ((chunks s).takeWhile (fun c => isSpaceRune c.1))).length

/-- The lexeme a lexer token stands for, as a byte range of the text: the source span
    `[Pos.Offset, End.Offset)` without surrounding white space.  `|` is reported by the lexer
    with `Pos = End =` the position after the character; a comment keeps its trailing blanks
    (but not the CR of a CRLF line end). -/
def lexemeRange (text : Bytes) (t : Token) : Nat × Nat :=
  match t.ty with
  | .pipe => (t.pos.off - 1, t.pos.off)
  | .comment =>
    let raw := sliceB text t.pos.off t.stop.off
    (t.pos.off, t.pos.off + (stripCR raw).length)
  | _ =>
    let raw := sliceB text t.pos.off t.stop.off
    let a := leadWs raw
    (t.pos.off + a, t.pos.off + a + (trimSpace raw).length)

/-- Legend indices acceptable for a lexeme of the given lexer kind
    (0 account, 1 commodity, 2 payee, 3 date, 4 amount, 5 tag, 6 directive, 7 code, 8 status,
     9 comment, 10 string, 11 operator). -/
def kindTypes : TokType → List Nat
  | .date => [3] | .account => [0] | .number => [4] | .commodity => [1] | .comment => [9]
  | .at | .atAt | .equals | .doubleEquals | .pipe => [11]
  | .text => [10, 2] | .code => [7] | .status => [8] | .directive => [6] | .tag => [5]
  | _ => []

/-- Expected span (line, start, len) of a lexer token's lexeme. -/
def lexemeSpan (text : Bytes) (t : Token) : Nat × Nat × Nat :=
  let (a, b) := lexemeRange text t
  let (l, c) := posOfOffset text a
  (l, c, u16lenB (sliceB text a b))

/-- The token covers exactly the lexeme of lexer token `t`, with a type of `t`'s kind. -/
def coversTok (text : Bytes) (t : Token) (a : AbsTok) : Bool :=
  a.len > 0 && (kindTypes t.ty).contains a.ty && lexemeSpan text t == (a.line, a.start, a.len)

def isTagNameRune (cls : Classes) (r : Nat) : Bool :=
  cls.isLetter r || cls.isDigit r || r == 0x5F || r == 0x2D

/-- A tag token (legend index 5) covers `name:` inside comment `t`, `name` a whole word of
    tag-name characters; a tag value token (index 12) covers a non-empty piece of the comment
    without surrounding blanks and commas that follows a `:` and ends where the
    comma-separated part ends. -/
def coversTag (cls : Classes) (text : Bytes) (t : Token) (a : AbsTok) : Bool :=
  t.ty == .comment &&
  (let (cl, cs, clen) := lexemeSpan text t
   match (lineRunes text)[a.line]? with
   | none => false
   | some line =>
     a.line == cl && cs + 1 ≤ a.start && a.start + a.len ≤ cs + clen &&
     match slice16 line a.start a.len, slice16 line 0 a.start, slice16 line (a.start + a.len) (cs + clen - (a.start + a.len)) with
     | some body, some before, some after =>
       if a.ty == 5 then
         body.length ≥ 2 && body.getLast? == some 0x3A &&
         body.dropLast.all (isTagNameRune cls) &&
         !(match before.getLast? with | some r => isTagNameRune cls r | none => false)
       else if a.ty == 12 then
         !body.isEmpty && !body.contains 0x2C &&
         !(match body.head? with | some r => isSpaceRune r | none => true) &&
         !(match body.getLast? with | some r => isSpaceRune r | none => true) &&
         ((before.reverse.dropWhile isSpaceRune).head? == some 0x3A) &&
         (match (after.dropWhile isSpaceRune).head? with | none => true | some r => r == 0x2C)
       else false
     | _, _, _ => false)

/-- "Each covers exactly one lexeme of that kind": some lexer token of the document explains it. -/
def coversOk (cls : Classes) (text : Bytes) (toks : List Token) (a : AbsTok) : Bool :=
  toks.any fun t => t.ty != .eof && (coversTok text t a || coversTag cls text t a)

/-! ### Guards of the known deviations (see known_findings.json, property C17)

  Each is a decidable predicate on the text and ONE lexer token (the token a semantic token was
  made from); the `_partial` theorems assume their negations. -/

/-- `|` is reported at the position AFTER the character. -/
def devPipe (t : Token) : Bool := t.ty == .pipe

/-- A code's value has no parentheses, its length is computed from the value. -/
def devCode (t : Token) : Bool := t.ty == .code

/-- A quoted commodity's value has no quotes, its length is computed from the value. -/
def devQuoted (t : Token) : Bool := t.ty == .commodity && t.stop.off - t.pos.off != t.val.length

/-- A text token's value is trimmed but its position is where scanning started; an empty
    value gives a zero-length token. -/
def devTextTrim (text : Bytes) (t : Token) : Bool :=
  t.ty == .text && (t.val.isEmpty || leadWs (sliceB text t.pos.off t.stop.off) > 0)

/-- A comment on a CRLF line: the value (and so the length) includes the CR. -/
def devCrComment (t : Token) : Bool := t.ty == .comment && t.val.getLast? == some cr

/-- A character outside the BMP earlier on the line: the lexer's column counts it once, LSP
    counts two UTF-16 units. -/
def devNonBmpBefore (text : Bytes) (off : Nat) : Bool :=
  ((runes ((splitOn lf (text.take off)).getLast?.getD [])).any (· ≥ 0x10000))

/-- Tag tokens are placed by BYTE offsets inside the comment: wrong after a non-ASCII byte. -/
def devTagBytes (t : Token) (endByte : Nat) : Bool := (t.val.take endByte).any (· ≥ 0x80)

/-- A comma-separated part of the comment that contains `:` but whose name is not a tag name
    (empty, or with blanks or other characters) is skipped WITHOUT advancing the search
    position; `strings.Index` may then find a later tag's `name:` inside that part. -/
def devTagSkippedPart (cls : Classes) (t : Token) : Bool :=
  t.ty == .comment &&
  (splitOn comma t.val).any fun part =>
    let trimmed := trimSpace part
    match indexOf [colon] trimmed with
    | none => false
    | some i =>
      let name := trimSpace (trimmed.take i)
      name.isEmpty || !isValidTagName cls name

/-! ### Hypotheses on the lexer's output

  The tokenizer model takes the lexer's tokens as input; the theorems about positions assume
  the following decidable facts about them (the driver evaluates them on every generated case:
  they hold on every case outside the guards above).  Columns are the lexer's (1-based, runes). -/

/-- The cells a lexer token claims on its line, as the semantic tokenizer will use them:
    the UTF-16 length of the value (+1 for the `;` of a comment; a comment in which tags are
    found is cut up by byte offsets: byte length + 1); nothing for kinds that are not mapped. -/
def claimWidth (cls : Classes) (t : Token) : Nat :=
  match mapTokenType t.ty with
  | none => 0
  | some _ =>
    if t.ty == .comment then
      (if (extractSpans cls t.val).isEmpty then u16lenB t.val + 1 else t.val.length + 1)
    else u16lenB t.val

/-- Line and column are positive and everything fits in `uint32`. -/
def tokBounds (cls : Classes) (t : Token) : Bool :=
  1 ≤ t.pos.line && t.pos.line < 2 ^ 32 && 1 ≤ t.pos.col && t.pos.col + claimWidth cls t < 2 ^ 32

/-- `t'` starts after the cells `t` claims. -/
def boxLe (cls : Classes) (t t' : Token) : Bool :=
  t.pos.line < t'.pos.line || (t.pos.line == t'.pos.line && t.pos.col + claimWidth cls t ≤ t'.pos.col)

/-- The tokens `tokenizeForSemantics` looks at (up to the EOF token) that it maps to a
    semantic type. -/
def mappedBody : List Token → List Token
  | [] => []
  | t :: rest =>
    if t.ty == .eof then []
    else if (mapTokenType t.ty).isSome then t :: mappedBody rest else mappedBody rest

def chainB (cls : Classes) : List Token → Bool
  | t :: t' :: rest => boxLe cls t t' && chainB cls (t' :: rest)
  | _ => true

/-- Bounds, and every mapped token starts after the cells claimed by the mapped token before it. -/
def spacedB (cls : Classes) (toks : List Token) : Bool :=
  (mappedBody toks).all (tokBounds cls) && chainB cls (mappedBody toks)

/-- The cells claimed lie inside the token's line (`lens` = UTF-16 length of every line). -/
def inlineB (lens : List Nat) (cls : Classes) (toks : List Token) : Bool :=
  (mappedBody toks).all fun t =>
    match lens[t.pos.line - 1]? with
    | some n => t.pos.col - 1 + claimWidth cls t ≤ n
    | none => false

/-- The lexer's line, column and value describe where the lexeme really is in the text (in LSP
    coordinates) and how long it is: false exactly for the deviations listed above. -/
def faithful (text : Bytes) (t : Token) : Bool :=
  let w := u16lenB t.val + (if t.ty == .comment then 1 else 0)
  w > 0 && lexemeSpan text t == (t.pos.line - 1, t.pos.col - 1, w)

/-- The property's domain: valid UTF-8 (no U+FFFD produced by decoding unless present), and CR
    only as part of CRLF. -/
def crOnlyBeforeLf : Bytes → Bool
  | a :: b :: rest => (a != cr || b == lf) && crOnlyBeforeLf (b :: rest)
  | [a] => a != cr
  | [] => true

def validUtf8 (s : Bytes) : Bool :=
  (chunks s).all fun c => c.1 != runeError || c.2 == [0xEF, 0xBF, 0xBD]

def inDomain (text : Bytes) : Bool := validUtf8 text && crOnlyBeforeLf text

end HL.SemTokSpec
