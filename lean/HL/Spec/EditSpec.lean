/-
  Specification side for text edits (C04/C05; also usable for rename and completion edits).

  The client's view of a document (LSP 3.17, "Text Documents"/"Position"): lines are separated
  by LF; a CR directly before the LF (or at the end of the text) belongs to the line terminator,
  so the *content* of a line excludes it.  A position is (line, character) with the character
  counted in UTF-16 code units of the content.  A range is inside the document when both ends
  name an existing line, a character ≤ the content's length that does not split a surrogate
  pair, and start ≤ end.  The edits of one response are applied simultaneously to the original
  text, so they must be pairwise non-overlapping.

  Written independently of the formatter model: only the byte-level helpers of
  HL/Model/FmtText.lean (Go's rune decoding, line splitting) and the `Edit` record are shared.
-/
import HL.Model.Format
namespace HL.EditSpec
open HL HL.FmtText HL.Fmt

/-- A line without the CR of a CRLF terminator. -/
def content (l : Bytes) : Bytes := if l.getLast? = some 13 then l.dropLast else l

/-- Bytes covered by the longest run of whole runes whose UTF-16 length is ≤ `ch`. -/
def takeU16 : List (Nat × Nat) → Nat → Nat
  | [], _ => 0
  | (r, sz) :: rs, ch => if u16w r ≤ ch then sz + takeU16 rs (ch - u16w r) else 0

/-- `ch` is a rune boundary of the rune list (or its end). -/
def onBoundary : List (Nat × Nat) → Nat → Bool
  | [], ch => ch == 0
  | (r, _) :: rs, ch => ch == 0 || (u16w r ≤ ch && onBoundary rs (ch - u16w r))

/-- Byte offset of character `ch` inside line `l` (clamped to the content's end). -/
def lineOffset (l : Bytes) (ch : Nat) : Nat := takeU16 (runes (content l)) ch

/-- Byte offset of an LSP position; a line past the last one is the end of the text. -/
def offset : List Bytes → Nat → Nat → Nat
  | [], _, _ => 0
  | [l], 0, ch => lineOffset l ch
  | [l], _ + 1, _ => l.length
  | l :: _ :: _, 0, ch => lineOffset l ch
  | l :: l' :: ls, n + 1, ch => l.length + 1 + offset (l' :: ls) n ch

/-- The position names a place of the document. -/
def posInside (lines : List Bytes) (line ch : Nat) : Bool :=
  match lines[line]? with
  | some l => onBoundary (runes (content l)) ch
  | none => false

def posLe (l1 c1 l2 c2 : Nat) : Bool := l1 < l2 || (l1 == l2 && c1 ≤ c2)

def editInside (lines : List Bytes) (e : Edit) : Bool :=
  posInside lines e.sl.toNat e.sc.toNat && posInside lines e.el.toNat e.ec.toNat &&
    posLe e.sl.toNat e.sc.toNat e.el.toNat e.ec.toNat

/-- Two edits do not overlap: one ends before (or where) the other starts. -/
def disjoint (a b : Edit) : Bool :=
  posLe a.el.toNat a.ec.toNat b.sl.toNat b.sc.toNat || posLe b.el.toNat b.ec.toNat a.sl.toNat a.sc.toNat

def pairwiseDisjoint : List Edit → Bool
  | [] => true
  | e :: es => es.all (disjoint e) && pairwiseDisjoint es

/-- The validator of C05: every range inside the document, start ≤ end, no two overlap. -/
def editsWellFormed (doc : Bytes) (edits : List Edit) : Bool :=
  let lines := splitLines doc
  edits.all (editInside lines) && pairwiseDisjoint edits

/-! ### Reference applier -/

structure Splice where
  start : Nat
  stop : Nat
  text : Bytes
deriving Repr, DecidableEq, Inhabited

def toSplice (lines : List Bytes) (e : Edit) : Splice :=
  ⟨offset lines e.sl.toNat e.sc.toNat, offset lines e.el.toNat e.ec.toNat, e.newText⟩

/-- Stable insertion by start offset. -/
def insertSplice (s : Splice) : List Splice → List Splice
  | [] => [s]
  | t :: ts => if s.start < t.start then s :: t :: ts else t :: insertSplice s ts

def sortSplices (l : List Splice) : List Splice := l.foldl (fun acc s => insertSplice s acc) []

/-- Rebuild the text from sorted splices; `pos` = bytes of the original already consumed.
    `none` when a splice starts before `pos` (overlap) or ends before it starts. -/
def spliceAll (doc : Bytes) : List Splice → Nat → Option Bytes
  | [], pos => some (doc.drop pos)
  | s :: ss, pos =>
    if s.start < pos || s.stop < s.start then none
    else match spliceAll doc ss s.stop with
      | some rest => some ((doc.drop pos).take (s.start - pos) ++ s.text ++ rest)
      | none => none

/-- Apply the edits of one response simultaneously to the original text. -/
def applyEdits (doc : Bytes) (edits : List Edit) : Option Bytes :=
  let lines := splitLines doc
  spliceAll doc (sortSplices (edits.map (toSplice lines))) 0

/-! ### C04: what may change -/

/-- `new` is `old` minus some trailing blanks/tabs. -/
def lostOnlyTrailingBlanks (old new : Bytes) : Bool :=
  new.length ≤ old.length && old.take new.length == new && (old.drop new.length).all isBlank

/-- Every line that is not a posting line changed at most by loss of trailing blanks; the
    number of lines is unchanged.  `postingLines` are 0-based. -/
def nonPostingLinesOnlyLoseTrailingBlanks (doc doc' : Bytes) (postingLines : List Nat) : Bool :=
  let ls := splitLines doc
  let ls' := splitLines doc'
  ls.length == ls'.length &&
    (List.range ls.length).all fun i =>
      postingLines.contains i || lostOnlyTrailingBlanks (ls.getD i []) (ls'.getD i [])

/-- An edit that is exactly the removal of trailing blanks of one line. -/
def isTrailingBlankRemoval (lines : List Bytes) (e : Edit) : Bool :=
  e.newText.isEmpty && e.sl == e.el &&
    match lines[e.sl.toNat]? with
    | some l =>
      let t := trimRight l
      t.length < l.length && e.sc.toNat == u16len t && e.ec.toNat == u16len l
    | none => false

/-- Bytes of `l` from rune column `col` (1-based) on, without trailing blanks and CR. -/
def tailFromCol (l : Bytes) (col : Nat) : Bytes :=
  let skip := ((runes l).take (col - 1)).foldl (fun n r => n + r.2) 0
  trimRight (content (trimRight (l.drop skip)))

def isSuffixOf (s l : Bytes) : Bool := s.length ≤ l.length && l.drop (l.length - s.length) == s

/-- No text the parser failed to understand is deleted: for every parse error at (line, col)
    the rest of that line from the error column on is still the end of the same line. -/
def unparsedTextKept (doc doc' : Bytes) (errs : List (Nat × Nat)) : Bool :=
  let ls := splitLines doc
  let ls' := splitLines doc'
  errs.all fun (line, col) =>
    match ls[line - 1]? with
    | some l => isSuffixOf (tailFromCol l col) (trimRight (content (trimRight (ls'.getD (line - 1) []))))
    | none => true

end HL.EditSpec
