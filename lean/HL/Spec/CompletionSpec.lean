/-
  Executable specification for C16, written independently of the model's pipeline: what a
  completion answer has to satisfy, judged on the answer alone (context, edit range, labels in
  order) against the symbol table, the line and the cursor.

  * `subseqCI` / `prefixCI`      how a name matches a typed fragment (fuzzy on / off)
  * `namesOf`                    symbol-table membership per context
  * `nonIncreasing`              "more frequently used names come first"
  * `fragOf`                     the text a range covers on the line (UTF-16 columns)
  The data types (`Table`, `Ctx`) are shared with the model; nothing else is.
-/
import HL.Model.Completion
namespace HL.CompletionSpec
open HL.Text HL.Completion

/-- `q` is a subsequence of `name`, letter case ignored. -/
def subseqCI (lower : Char → Char) (q name : Str) : Bool := (q.map lower).isSublist (name.map lower)

/-- `name` starts with `q`, letter case ignored. -/
def prefixCI (lower : Char → Char) (q name : Str) : Bool := (q.map lower).isPrefixOf (name.map lower)

/-- The match the property demands: subsequence with fuzzy matching on, prefix with it off. -/
def matchesQ (lower : Char → Char) (fuzzy : Bool) (q name : Str) : Bool :=
  if fuzzy then subseqCI lower q name else prefixCI lower q name

/-- The names that exist in the document or its workspace, for a context. -/
def namesOf (t : Table) : Ctx → List Str
  | .account => t.accounts
  | .payee => t.payees
  | .commodity => t.commodities
  | .tagName => t.tags
  | _ => []

/-- Usage count of a name in its context (0 when never used). -/
def usage (t : Table) (c : Ctx) (l : Str) : Nat :=
  let m := match c with
    | .account => t.accountCounts | .payee => t.payeeCounts
    | .commodity => t.commodityCounts | .tagName => t.tagCounts | _ => []
  match m.find? (·.1 == l) with
  | some p => p.2
  | none => 0

def nonIncreasing : List Nat → Bool
  | a :: b :: r => decide (b ≤ a) && nonIncreasing (b :: r)
  | _ => true

/-- The chars of `line` between the UTF-16 columns `s` and `e`. -/
def fragOf (line : Str) (s e : Nat) : Str := (line.take (takeU16 line e)).drop (takeU16 line s)

/-- A UTF-16 column that addresses a character boundary of the line. -/
def validCursor (line : Str) (ch : Nat) : Bool :=
  decide (ch ≤ u16len line) && u16len (line.take (takeU16 line ch)) == ch

/-- The by-prefix index is what the property's completeness needs of it: every list holds at
    least the names that start with its key. -/
def indexSuperset (t : Table) : Bool :=
  t.byPrefix.all fun (k, l) => t.accounts.all fun n => !k.isPrefixOf n || l.contains n

/-- ... and nothing that is not an account of the table. -/
def indexSubset (t : Table) : Bool :=
  t.byPrefix.all fun (_, l) => l.all fun n => t.accounts.contains n

/-! ### The judgement on one answer -/

structure Answer where
  ctx : Ctx
  range : Option (Nat × Nat)
  items : List Str
deriving Repr, Inhabited

def judged (c : Ctx) : Bool := c == .account || c == .payee || c == .commodity || c == .tagName

/-- sound: every label exists in its context's table and matches the fragment. -/
def soundOK (lower : Char → Char) (fuzzy : Bool) (t : Table) (c : Ctx) (frag : Str) (items : List Str) : Bool :=
  items.all fun l => (namesOf t c).contains l && matchesQ lower fuzzy frag l

/-- prefix-complete when the limit allows: fewer items than the limit ⇒ every name that starts
    with the fragment is there. -/
def completeOK (lower : Char → Char) (t : Table) (c : Ctx) (frag : Str) (items : List Str) (max : Nat) : Bool :=
  decide (items.length ≥ max) || (namesOf t c).all fun n => !prefixCI lower frag n || items.contains n

def boundedOK (items : List Str) (max : Nat) : Bool := decide (items.length ≤ max)

/-- frequency-ranked: with nothing typed, usage counts do not increase along the list. -/
def rankedOK (t : Table) (c : Ctx) (frag : Str) (items : List Str) : Bool :=
  !frag.isEmpty || nonIncreasing (items.map (usage t c))

/-- the edit replaces `[s, cursor]` with `s ≤ cursor`. -/
def editOK (ch : Nat) (r : Nat × Nat) : Bool := r.2 == ch && decide (r.1 ≤ ch)

/-- `a` is what a smaller limit `m` must return, given `b` returned for a larger one. -/
def limitPrefixOK (m : Nat) (a b : List Str) : Bool := a == b.take m

end HL.CompletionSpec
