import HL.Model.Ast
import HL.Model.Dec

/-!
  The balance rule of property C02 and the aggregates of C20 over exact rationals, written
  directly from the property texts (no decimals, no maps, no code structure).

  C02: R = ordinary ∪ bracketed postings; `missing` = those of R without amount; an amount with a
  cost is converted to the cost commodity (unit cost: quantity × price; total cost: the total,
  carrying the sign of the quantity — a zero quantity costs nothing); residual c = Σ converted
  quantities in c; verdict `multiple` iff |missing| > 1; else `unbalanced D` iff |missing| = 0
  and D = {c ↦ |residual c| : residual c ≠ 0} ≠ ∅; else `ok`.
-/
namespace HL
namespace Spec
namespace Bal
open Ast

structure RAmount where
  q : Rat
  c : Bytes
deriving Repr, DecidableEq, Inhabited, BEq

structure RCost where
  total : Bool
  q : Rat
  c : Bytes
deriving Repr, DecidableEq, Inhabited, BEq

structure RPosting where
  kind : Virtual
  account : Bytes
  amount : Option RAmount
  cost : Option RCost
deriving Repr, DecidableEq, Inhabited, BEq

abbrev RTx := List RPosting

def isReal (p : RPosting) : Bool := p.kind != .unbalanced

def signum (q : Rat) : Rat := if q < 0 then -1 else if q = 0 then 0 else 1

/-- How an amount with a total cost is converted: parameter so that the code's rule and the
    statement's rule can be compared. -/
abbrev TotalRule := Rat → Rat → Rat

/-- the statement's rule: the total carries the sign of the quantity; nothing for quantity 0. -/
def totalBySignum : TotalRule := fun q total => total * signum q

/-- commodity and quantity a posting contributes to the sum (`none`: no amount). -/
def converted (rule : TotalRule) (p : RPosting) : Option (Bytes × Rat) :=
  match p.amount with
  | none => none
  | some a =>
    match p.cost with
    | none => some (a.c, a.q)
    | some k => some (k.c, if k.total then rule a.q k.q else k.q * a.q)

def real (tx : RTx) : RTx := tx.filter isReal

def missing (tx : RTx) : Nat := ((real tx).filter fun p => p.amount.isNone).length

def sumRat (l : List Rat) : Rat := l.foldr (· + ·) 0

/-- contributions to commodity `c`, in posting order. -/
def contributions (rule : TotalRule) (tx : RTx) (c : Bytes) : List Rat :=
  (real tx).filterMap fun p => match converted rule p with
    | some (c', v) => if c' = c then some v else none
    | none => none

def residual (rule : TotalRule) (tx : RTx) (c : Bytes) : Rat := sumRat (contributions rule tx c)

def dedup : List Bytes → List Bytes
  | [] => []
  | a :: r => if a ∈ dedup r then dedup r else a :: dedup r

/-- commodities that receive a contribution. -/
def commodities (rule : TotalRule) (tx : RTx) : List Bytes :=
  dedup ((real tx).filterMap fun p => (converted rule p).map (·.1))

inductive Verdict where
  | ok
  | multiple
  | unbalanced (d : List (Bytes × Rat))
deriving Repr, DecidableEq, Inhabited, BEq

def rabs (q : Rat) : Rat := if q < 0 then -q else q

def diffs (rule : TotalRule) (tx : RTx) : List (Bytes × Rat) :=
  (commodities rule tx).filterMap fun c =>
    let r := residual rule tx c
    if r = 0 then none else some (c, rabs r)

def verdictWith (rule : TotalRule) (tx : RTx) : Verdict :=
  if missing tx > 1 then .multiple
  else if missing tx = 1 then .ok
  else
    let d := diffs rule tx
    if d.isEmpty then .ok else .unbalanced d

/-- The verdict of property C02. -/
def verdict (tx : RTx) : Verdict := verdictWith totalBySignum tx

/-! ### C20 -/

/-- all (account, commodity, quantity) explicitly posted, in order. -/
def explicit (txs : List RTx) : List (Bytes × Bytes × Rat) :=
  txs.flatMap fun tx => tx.filterMap fun p => p.amount.map fun a => (p.account, a.c, a.q)

def accountSum (txs : List RTx) (acct c : Bytes) : Rat :=
  sumRat ((explicit txs).filterMap fun (a, c', q) => if a = acct ∧ c' = c then some q else none)

/-- number of postings to `acct` with an explicit amount in commodity `c`. -/
def explicitCount (txs : List RTx) (acct c : Bytes) : Nat :=
  ((explicit txs).filter fun (a, c', _) => a = acct ∧ c' = c).length

/-- number of postings naming `acct` (with or without amount). -/
def postingCount (txs : List RTx) (acct : Bytes) : Nat :=
  (txs.flatMap id |>.filter fun p => p.account = acct).length

/-! ### the rational image of a syntax tree (bridge between the AST and the spec's input) -/

def imageAmount (a : Amount) : RAmount := ⟨Dec.toRat a.quantity, a.commodity.symbol⟩
def imageCost (c : Cost) : RCost := ⟨c.isTotal, Dec.toRat c.amount.quantity, c.amount.commodity.symbol⟩
def imagePosting (p : Posting) : RPosting :=
  ⟨p.virt, p.account.name, p.amount.map imageAmount, p.cost.map imageCost⟩
def image (tx : Transaction) : RTx := tx.postings.map imagePosting

end Bal
end Spec
end HL
