/-
  "What the journal says" (C04): two syntax trees say the same when they agree on everything
  except source ranges and raw spellings.  Quantities are compared as rationals
  (`coef * 10^exp`), comment texts modulo surrounding blanks (the formatter owns the spacing
  around `;` and removes trailing blanks), everything else literally.
-/
import HL.Model.Ast
import HL.Model.FmtText
namespace HL.Meaning
open HL HL.Ast HL.FmtText

/-- Equal as rationals. -/
def decEqv (a b : Dec) : Bool :=
  let m := min a.exp b.exp
  a.coef * 10 ^ (a.exp - m).toNat == b.coef * 10 ^ (b.exp - m).toNat

def isSp (b : UInt8) : Bool := b == 32 || b == 9 || b == 13

/-- Trim blanks, tabs and CR on both sides. -/
def trimB (s : Bytes) : Bytes := ((s.dropWhile isSp).reverse.dropWhile isSp).reverse

def optEqv {α} (f : α → α → Bool) : Option α → Option α → Bool
  | none, none => true
  | some a, some b => f a b
  | _, _ => false

def listEqv {α} (f : α → α → Bool) : List α → List α → Bool
  | [], [] => true
  | a :: as, b :: bs => f a b && listEqv f as bs
  | _, _ => false

def tagEqv (a b : Tag) : Bool := a.name == b.name && trimB a.value == trimB b.value
def commentEqv (a b : Comment) : Bool := trimB a.text == trimB b.text && listEqv tagEqv a.tags b.tags
def dateEqv (a b : Date) : Bool := a.year == b.year && a.month == b.month && a.day == b.day
def commodityEqv (a b : Commodity) : Bool := a.symbol == b.symbol && a.side == b.side
def amountEqv (a b : Amount) : Bool := decEqv a.quantity b.quantity && commodityEqv a.commodity b.commodity
def costEqv (a b : Cost) : Bool := amountEqv a.amount b.amount && a.isTotal == b.isTotal
def assertionEqv (a b : Assertion) : Bool :=
  amountEqv a.amount b.amount && a.isStrict == b.isStrict && a.isInclusive == b.isInclusive

def postingEqv (a b : Posting) : Bool :=
  a.status == b.status && a.account.name == b.account.name && a.virt == b.virt &&
    optEqv amountEqv a.amount b.amount && optEqv costEqv a.cost b.cost &&
    optEqv assertionEqv a.assertion b.assertion && trimB a.comment == trimB b.comment &&
    listEqv tagEqv a.tags b.tags

/- A code that is not closed on its line (`(chk `) runs to the end of the line, trailing blanks
   included; the property lets every line that is not a posting lose its trailing blanks, so the
   code is compared without them (like comments and tag values). -/
def txEqv (a b : Transaction) : Bool :=
  dateEqv a.date b.date && optEqv dateEqv a.date2 b.date2 && a.status == b.status && trimB a.code == trimB b.code &&
    a.description == b.description && a.payee == b.payee && a.note == b.note &&
    listEqv postingEqv a.postings b.postings && listEqv tagEqv a.tags b.tags &&
    listEqv commentEqv a.comments b.comments

def subEqv (a b : Subdirs) : Bool :=
  a.length == b.length && a.all fun (k, v) => b.any fun (k', v') => k == k' && v == v'

def directiveEqv : Directive → Directive → Bool
  | .account a t c s _, .account a' t' c' s' _ =>
    a.name == a'.name && listEqv tagEqv t t' && trimB c == trimB c' && subEqv s s'
  | .commodity c f n s _, .commodity c' f' n' s' _ =>
    c.symbol == c'.symbol && f == f' && n == n' && subEqv s s'
  | .price d c p _, .price d' c' p' _ => dateEqv d d' && c.symbol == c'.symbol && amountEqv p p'
  | .year y _, .year y' _ => y == y'
  | .defaultCommodity s f _, .defaultCommodity s' f' _ => s == s' && f == f'
  | _, _ => false

def includeEqv (a b : Include) : Bool := a.path == b.path

/-- The two trees say the same. -/
def journalEqv (a b : Journal) : Bool :=
  listEqv txEqv a.transactions b.transactions && listEqv directiveEqv a.directives b.directives &&
    listEqv commentEqv a.comments b.comments && listEqv includeEqv a.includes b.includes

/-- Parse errors agree modulo positions. -/
def errsEqv (a b : List ParseError) : Bool := listEqv (fun x y => x.msg == y.msg) a b

/-- First difference, for the replay file. -/
def firstDiff (a b : Journal) : String :=
  if !(a.transactions.length == b.transactions.length) then "number of transactions"
  else match (a.transactions.zip b.transactions).find? (fun (x, y) => !txEqv x y) with
    | some (x, y) =>
      if !(x.postings.length == y.postings.length) then s!"transaction at line {x.range.start.line}: number of postings"
      else match (x.postings.zip y.postings).find? (fun (p, q) => !postingEqv p q) with
        | some (p, q) =>
          let what :=
            if !(optEqv amountEqv p.amount q.amount) then "amount"
            else if !(optEqv costEqv p.cost q.cost) then "cost"
            else if !(optEqv assertionEqv p.assertion q.assertion) then "assertion"
            else if !(trimB p.comment == trimB q.comment) then "comment"
            else if !(listEqv tagEqv p.tags q.tags) then "tags"
            else if !(p.account.name == q.account.name) then "account"
            else "status/virtual"
          s!"posting at line {p.range.start.line}: {what}"
        | none => s!"transaction header at line {x.range.start.line}"
    | none =>
      if !(listEqv directiveEqv a.directives b.directives) then "directives"
      else if !(listEqv commentEqv a.comments b.comments) then "comments"
      else if !(listEqv includeEqv a.includes b.includes) then "includes" else ""

end HL.Meaning
