/-
  Executable specification for C20 (hover figures), written independently of the model.

  Ground truth is what the journal texts were written from: per file a list of transactions,
  each with the payee it shows, its tags, and its postings (account, optional explicit amount
  as an exact rational with its commodity, optional cost, tags).  The statement's aggregates
  range over the root file and each member file of the include tree ONCE.
-/
import HL.Model.Ast
namespace HL.HoverSpec
open HL

structure GAmount where
  q : Rat
  com : Bytes
deriving Repr, DecidableEq, Inhabited

structure GCost where
  total : Bool
  q : Rat
  com : Bytes
deriving Repr, DecidableEq, Inhabited

structure GPosting where
  account : Bytes
  amount : Option GAmount
  cost : Option GCost
  tags : List (Bytes × Bytes)
deriving Repr, DecidableEq, Inhabited

structure GTx where
  payee : Bytes
  tags : List (Bytes × Bytes)
  postings : List GPosting
deriving Repr, DecidableEq, Inhabited

abbrev GFile := List GTx

/-! ### Which files count: the root and everything reachable from it, each once -/

/-- Depth-first reachability in the include graph (`adj[i]` = files included by file `i`).
    Every file is visited at most once, whatever the shape of the graph (diamonds, cycles,
    repeated directives). -/
def reachF : Nat → List (List Nat) → List Nat → List Nat → List Nat
  | 0, _, _, vis => vis
  | _ + 1, _, [], vis => vis
  | f + 1, adj, x :: st, vis =>
    if vis.contains x then reachF f adj st vis
    else reachF f adj (adj.getD x [] ++ st) (vis ++ [x])

def reach (adj : List (List Nat)) (start : Nat) : List Nat :=
  reachF ((adj.map List.length).sum + adj.length + 2) adj [start] []

/-- Union of two duplicate-free lists, keeping the first's order. -/
def union (a b : List Nat) : List Nat := a ++ b.filter (fun x => !a.contains x)

/-- The transactions of the given files, each file once. -/
def txsOf (files : List GFile) (members : List Nat) : List GTx :=
  members.eraseDups.flatMap (fun i => files.getD i [])

/-! ### Aggregates -/

def sum : List Rat → Rat
  | [] => 0
  | x :: xs => x + sum xs

def postingsOf (txs : List GTx) : List GPosting := txs.flatMap (·.postings)

/-- What one posting contributes to (account, commodity): its amount if it is a posting to
    that account with an explicit amount in that commodity. -/
def contrib (account commodity : Bytes) (p : GPosting) : Option Rat :=
  if p.account = account then
    match p.amount with
    | some m => if m.com = commodity then some m.q else none
    | none => none
  else none

/-- The amounts explicitly posted to `account` in `commodity`. -/
def amountsOf (txs : List GTx) (account commodity : Bytes) : List Rat :=
  (postingsOf txs).filterMap (contrib account commodity)

/-- Exact sum per (account, commodity); `none` when nothing was explicitly posted. -/
def accountSum? (txs : List GTx) (account commodity : Bytes) : Option Rat :=
  match amountsOf txs account commodity with
  | [] => none
  | l => some (sum l)

/-- The commodities explicitly posted to `account` (with repetitions). -/
def accountCommodities (txs : List GTx) (account : Bytes) : List Bytes :=
  (postingsOf txs).filterMap fun p =>
    if p.account = account then p.amount.map (·.com) else none

/-- Number of postings to the account (with or without an amount). -/
def postingCount (txs : List GTx) (account : Bytes) : Nat :=
  (postingsOf txs).countP (fun p => p.account == account)

/-- Number of transactions showing this payee. -/
def payeeCount (txs : List GTx) (payee : Bytes) : Nat :=
  txs.countP (fun t => t.payee == payee)

/-- Every tag use: on the transaction and on its postings. -/
def tagsOf (txs : List GTx) : List (Bytes × Bytes) :=
  txs.flatMap fun t => t.tags ++ t.postings.flatMap (·.tags)

def tagCount (txs : List GTx) (name : Bytes) : Nat :=
  (tagsOf txs).countP (fun t => t.1 == name)

def tagValueCount (txs : List GTx) (name value : Bytes) : Nat :=
  (tagsOf txs).countP (fun t => t.1 == name && t.2 == value)

/-! ### Reading the numbers a hover shows -/

def digitVal? (b : UInt8) : Option Nat := if 48 ≤ b && b ≤ 57 then some (b.toNat - 48) else none

def readNat? : List UInt8 → Option Nat
  | [] => none
  | l => l.foldl (fun acc b => match acc, digitVal? b with
      | some n, some d => some (n * 10 + d)
      | _, _ => none) (some 0)

/-- `digits[.digits]` as an exact rational. -/
def readBody? (body : Bytes) : Option Rat :=
  match body.dropWhile (· != 46) with
  | [] =>
    match readNat? (body.takeWhile (· != 46)) with
    | some n => some (n : Rat)
    | none => none
  | _ :: fp =>
    match readNat? (body.takeWhile (· != 46)), readNat? fp with
    | some n, some f => some ((n : Rat) + (f : Rat) / ((10 ^ fp.length : Nat) : Rat))
    | _, _ => none

/-- `[-]digits[.digits]` as an exact rational. -/
def readDec? (s : Bytes) : Option Rat :=
  match s with
  | 45 :: r =>
    match readBody? r with
    | some v => some (-v)
    | none => none
  | r => readBody? r

/-! ### Judging what a hover shows -/

/-- What the markdown of a hover says, numbers still as the strings shown. -/
inductive Shown where
  | nothing
  | account (name : Bytes) (balance : List (Bytes × Bytes)) (postings : Nat)
  | amount (quantity commodity : Bytes) (cost : Option (Bool × Bytes × Bytes))
  | payee (name : Bytes) (transactions : Nat)
  | date
  | tag (name : Bytes) (usage : Nat)
  | tagValue (name value : Bytes) (usage : Nat)
deriving Repr, DecidableEq, Inhabited

/-- Account hover: one line per commodity explicitly posted to the account, each showing the
    exact sum, and the exact number of postings. -/
def accountOk (txs : List GTx) (account : Bytes) : Shown → Bool
  | .account name bal n =>
    name == account && n == postingCount txs account &&
    decide (bal.map (·.1)).Nodup &&
    bal.all (fun (c, s) => match accountSum? txs account c, readDec? s with
      | some want, some got => want == got
      | _, _ => false) &&
    (accountCommodities txs account).all (fun c => bal.any (fun e => e.1 == c))
  | _ => false

def payeeOk (txs : List GTx) (payee : Bytes) : Shown → Bool
  | .payee name n => name == payee && n == payeeCount txs payee
  | _ => false

def tagOk (txs : List GTx) (name : Bytes) : Shown → Bool
  | .tag n k => n == name && k == tagCount txs name
  | _ => false

def tagValueOk (txs : List GTx) (name value : Bytes) : Shown → Bool
  | .tagValue n v k => n == name && v == value && k == tagValueCount txs name value
  | _ => false

/-- Amount hover: the exact value and commodity of the amount under the cursor and its cost. -/
def amountOk (a : GAmount) (cost : Option GCost) : Shown → Bool
  | .amount q com c =>
    readDec? q == some a.q && com == a.com &&
    (match cost, c with
     | none, none => true
     | some w, some (total, cq, ccom) => total == w.total && readDec? cq == some w.q && ccom == w.com
     | _, _ => false)
  | _ => false

end HL.HoverSpec
