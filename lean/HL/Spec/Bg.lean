/-
  C14, "every response equals the response computed from the document state at the moment the
  request was handled": abstract model of the one piece of request-visible state that a
  background goroutine writes without the handler thread waiting for it — `Server.resolved`
  (internal/server/server.go: DidOpen/DidChange store the text and start
  `go s.publishDiagnostics(ctx, uri, content)`, which later does
  `s.resolved.Store(docURI, loader.LoadFromContent(path, content))`; Completion, Hover,
  Definition, References, Rename and inline completion read it through `getWorkspaceResolved`
  when the workspace has no resolved journal).

  `load` (text ↦ resolved journal) and the handlers are parameters: the theorems hold for every
  instance.  Core Lean only (the driver imports the guard).
-/
namespace HL.Bg

def upd {α : Type} (f : Nat → α) (u : Nat) (v : α) : Nat → α := fun x => if x = u then v else f x

structure St (Text Res : Type) where
  /-- Server.documents -/
  docs : Nat → Option Text
  /-- Server.resolved -/
  resolved : Nat → Option Res
  /-- per document: the captured texts of the publish goroutines still in flight, in start order -/
  pending : Nat → List Text
  /-- ghost: a task for this document was started while another one was still in flight, or a
      task of it ended without storing, and no task has been started on an idle document since -/
  overlap : Nat → Bool

inductive Ev (Text : Type)
  /-- didOpen / didChange: store the text, start a background task that captured it -/
  | change (u : Nat) (t : Text)
  /-- the `i`-th in-flight task of document `u` stores its result (any order: the scheduler) -/
  | finish (u : Nat) (i : Nat)
  /-- the `i`-th in-flight task of document `u` ends WITHOUT storing: publishDiagnostics returns
      before the load when it finds `Features.Diagnostics` switched off -/
  | skip (u : Nat) (i : Nat)

variable {Text Res : Type}

def St.init : St Text Res := ⟨fun _ => none, fun _ => none, fun _ => [], fun _ => false⟩

def step (load : Text → Res) (σ : St Text Res) : Ev Text → St Text Res
  | .change u t =>
    { docs := upd σ.docs u (some t), resolved := σ.resolved,
      pending := upd σ.pending u (σ.pending u ++ [t]),
      overlap := upd σ.overlap u (decide ((σ.pending u).length > 0)) }
  | .finish u i =>
    match (σ.pending u)[i]? with
    | none => σ
    | some t =>
      { σ with resolved := upd σ.resolved u (some (load t)),
               pending := upd σ.pending u ((σ.pending u).eraseIdx i) }
  | .skip u i =>
    match (σ.pending u)[i]? with
    | none => σ
    | some _ =>
      { σ with pending := upd σ.pending u ((σ.pending u).eraseIdx i),
               overlap := upd σ.overlap u true }

def run (load : Text → Res) (es : List (Ev Text)) : St Text Res := es.foldl (step load) St.init

/-- What a handler that reads `Server.resolved` answers in state `σ`. -/
def respond {Resp : Type} (h : Text → Option Res → Resp) (σ : St Text Res) (u : Nat) : Option Resp :=
  (σ.docs u).map fun t => h t (σ.resolved u)

/-- The response computed from the document state alone (what a server that awaits its
    background task before answering returns). -/
def specRespond {Resp : Type} (load : Text → Res) (h : Text → Option Res → Resp) (σ : St Text Res)
    (u : Nat) : Option Resp :=
  (σ.docs u).map fun t => h t (some (load t))

/-- The document's resolved journal is guaranteed current: nothing in flight and no overlap. -/
def settled (σ : St Text Res) (u : Nat) : Bool := (σ.pending u).isEmpty && !σ.overlap u

/-! The executable guard used by the driver on the facts the harness records per response. -/

/-- request kinds of the harness whose handler reads Server.resolved -/
def readsResolved (k : String) : Bool :=
  k == "completion" || k == "hover" || k == "definition" || k == "references"

/-- Known finding `stale-resolved`: a handler that reads `Server.resolved`, no resolved journal
    from the workspace, and the document not settled (a task of it in flight; or a task of it
    was started while another one was in flight; or a task may have ended without storing
    because a configuration with diagnostics switched off had been sent). -/
def staleGuard (k : String) (ws : Bool) (inflight : Nat) (overlap diagOff : Bool) : Bool :=
  readsResolved k && !ws && (inflight > 0 || overlap || diagOff)

end HL.Bg
