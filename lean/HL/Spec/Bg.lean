/-
  C14, "every response equals the response computed from the document state at the moment the
  request was handled": abstract model of the one piece of request-visible state that a
  background goroutine writes without the handler thread waiting for it — `Server.resolved`.

  internal/server/server.go (after "caches derived from a document never outlive the text they
  were computed from"):
    * DidOpen / didChange store the text, then `nextDocVersion` (under docVerMu) draws a fresh
      number from the server-wide counter `docSeq`, records it in `docVersions[uri]`, DELETES
      `resolved[uri]`, and `go s.publishDiagnosticsVersion(ctx, uri, content, version)` starts
      the background task with the captured text and number;
    * the task loads the include tree and `storeResolvedIfCurrent` (under docVerMu) stores it
      only if `docVersions[uri]` still equals its number; a task that finds
      `Features.Diagnostics` off returns before the load;
    * DidClose (`dropDocVersion`) deletes the number and the tree;
    * Completion, Hover, Definition, References (also Rename and inline completion) read
      `resolved[uri]` through `getWorkspaceResolved` / `resolvedForDocument` /
      `resolvedWithPrimaryPath` when the workspace has no resolved journal or — all but the two
      completions — the document is outside the workspace root's include tree
      (`workspaceResolvedFor`), and fall back to the document alone when there is none.
    * DidOpen, like didChange and DidSave, also passes the text to `workspace.UpdateFile` and
      drops the file from the loader cache before the task is started: handler-thread work
      under `Workspace.mu` / `Loader.mu` (lock discipline: HL.Generated.Access), not part of
      this model (HL/Model/WsDocs.lean models it).

  `load` (text ↦ include tree) and the handlers are parameters: the theorems hold for every
  instance.  Core Lean only (the driver imports the guard).
-/
namespace HL.Bg

def upd {α : Type} (f : Nat → α) (u : Nat) (v : α) : Nat → α := fun x => if x = u then v else f x

structure St (Text Res : Type) where
  /-- Server.documents -/
  docs : Nat → Option Text
  /-- Server.resolved -/
  resolved : Nat → Option Res
  /-- Server.docSeq -/
  seq : Nat
  /-- Server.docVersions (0 = no entry; numbers start at 1) -/
  ver : Nat → Nat
  /-- per document: captured text and number of the tasks still in flight, in start order -/
  pending : Nat → List (Text × Nat)
  /-- ghost: the task of the document's current number ended without storing -/
  skipped : Nat → Bool

inductive Ev (Text : Type)
  /-- didOpen / didChange -/
  | change (u : Nat) (t : Text)
  /-- didClose -/
  | close (u : Nat)
  /-- the `i`-th in-flight task of document `u` reaches storeResolvedIfCurrent (any order) -/
  | finish (u : Nat) (i : Nat)
  /-- the `i`-th in-flight task of document `u` ends without loading (diagnostics off) -/
  | skip (u : Nat) (i : Nat)

variable {Text Res : Type}

def St.init : St Text Res := ⟨fun _ => none, fun _ => none, 0, fun _ => 0, fun _ => [], fun _ => false⟩

def step (load : Text → Res) (σ : St Text Res) : Ev Text → St Text Res
  | .change u t =>
    { docs := upd σ.docs u (some t), resolved := upd σ.resolved u none,
      seq := σ.seq + 1, ver := upd σ.ver u (σ.seq + 1),
      pending := upd σ.pending u (σ.pending u ++ [(t, σ.seq + 1)]),
      skipped := upd σ.skipped u false }
  | .close u =>
    { σ with docs := upd σ.docs u none, resolved := upd σ.resolved u none, ver := upd σ.ver u 0 }
  | .finish u i =>
    match (σ.pending u)[i]? with
    | none => σ
    | some (t, v) =>
      { σ with resolved := if v = σ.ver u then upd σ.resolved u (some (load t)) else σ.resolved,
               pending := upd σ.pending u ((σ.pending u).eraseIdx i) }
  | .skip u i =>
    match (σ.pending u)[i]? with
    | none => σ
    | some (_, v) =>
      { σ with pending := upd σ.pending u ((σ.pending u).eraseIdx i),
               skipped := if v = σ.ver u then upd σ.skipped u true else σ.skipped }

def run (load : Text → Res) (es : List (Ev Text)) : St Text Res := es.foldl (step load) St.init

/-- What a handler that reads `Server.resolved` answers in state `σ`. -/
def respond {Resp : Type} (h : Text → Option Res → Resp) (σ : St Text Res) (u : Nat) : Option Resp :=
  (σ.docs u).map fun t => h t (σ.resolved u)

/-- The response computed from the document state alone (what a server that awaits its
    background task before answering returns). -/
def specRespond {Resp : Type} (load : Text → Res) (h : Text → Option Res → Resp) (σ : St Text Res)
    (u : Nat) : Option Resp :=
  (σ.docs u).map fun t => h t (some (load t))

/-- The fall-back response: the handler without an include tree. -/
def bareRespond {Resp : Type} (h : Text → Option Res → Resp) (σ : St Text Res) (u : Nat) : Option Resp :=
  (σ.docs u).map fun t => h t none

/-- The task of the document's current content has stored its tree: no task carrying the
    current number is in flight and it did not end without storing. -/
def settled (σ : St Text Res) (u : Nat) : Bool :=
  (σ.pending u).all (fun p => p.2 != σ.ver u) && !σ.skipped u

/-! The executable guard used by the driver on the facts the harness records per response. -/

/-- request kinds of the harness whose handler reads Server.resolved -/
def readsResolved (k : String) : Bool :=
  k == "completion" || k == "hover" || k == "definition" || k == "references"

/-- Known finding `resolved-pending`: a handler that reads `Server.resolved`, no resolved
    journal from the workspace, a document with an include directive, and its include tree
    possibly not stored yet (a task of the document still in flight, or a configuration with
    diagnostics switched off had been sent, so that the task may have ended without loading). -/
def pendingGuard (k : String) (ws hasInclude : Bool) (inflight : Nat) (diagOff : Bool) : Bool :=
  readsResolved k && !ws && hasInclude && (inflight > 0 || diagOff)

end HL.Bg
