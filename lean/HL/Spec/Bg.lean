/-
  C14, "every response equals the response computed from the document state at the moment the
  request was handled" (and C01, "every feature answer is computed from that text and from no
  older version"): the transition system of the one piece of request-visible state that a
  background goroutine writes without the handler thread waiting for it — `Server.resolved`,
  the per-document include tree.

  internal/server/server.go, with repo_patches/fix-resolved-pending.diff applied
  (`fixed := true`; `fixed := false` is the code before that patch):
    * DidOpen / didChange store the text, then `nextDocVersion` (under docVerMu) draws a fresh
      number from the server-wide counter `docSeq`, records it in `docVersions[uri]`, DELETES
      `resolved[uri]` (`dropDocCaches`), and `go s.publishDiagnosticsVersion(ctx, uri, content,
      version)` starts the background task with the captured text and number;
    * the task first reads the settings (`getSettings`, event `start`): with
      `Features.Diagnostics` off it ends without loading; otherwise it loads the include tree of
      its captured text and `storeResolvedIfCurrent` (under docVerMu, event `finish`) stores it
      only if `docVersions[uri]` still equals its number;
    * DidClose (`dropDocVersion`) deletes the number and the tree;
    * the settings are written by the refresh goroutines (event `config`: at any moment, also in
      the middle of a request);
    * Completion, Hover, Definition, References (also Rename and inline completion) read the
      document (`GetDocument`, event `req`: the request is taken) and, when the workspace has no
      resolved journal or — all but the two completions — the document is outside the workspace
      root's include tree (`workspaceResolvedFor`), ask `documentResolved` for the document's
      own tree (through `getWorkspaceResolved` / `resolvedForDocument` /
      `resolvedWithPrimaryPath`).  `documentResolved` is five accesses to shared state, each one
      `sync.Map` call or one critical section of docVerMu, and each one event `adv` here:
        `lookup`   `s.resolved.Load` (GetResolved): a stored tree is the answer's tree;
                   (before the patch: none stored ⇒ the handler answered from the document alone)
        `version`  `currentDocVersion` (docVerMu): the number of the document's content;
        `content`  `s.documents.Load`;
        `load`     `s.loader.LoadFromContent(path, content)` — no lock of the server held;
        `store`    `storeResolvedIfCurrent` (docVerMu): kept only if the document still has the
                   number read before; the tree just loaded is the answer's tree either way.
      Notifications and requests are handled one after the other by one goroutine (DESIGN 3.8):
      while a request is in progress `change`, `close` and `req` are not enabled; the steps of
      the background tasks and `config` are, in any interleaving.
    * DidOpen, like didChange and DidSave, also passes the text to `workspace.UpdateFile` and
      drops the file from the loader cache before the task is started: handler-thread work
      under `Workspace.mu` / `Loader.mu` (lock discipline: HL.Generated.Access), not part of
      this model (HL/Model/WsDocs.lean models it).

  `load` (text ↦ include tree; the files on disk are the environment, fixed during a trace) and
  the handlers are parameters: the theorems hold for every instance.  A request for a document
  that is not open is answered by a constant before any shared state is read; it is not an
  event.  Core Lean only.
-/
namespace HL.Bg

def upd {α : Type} (f : Nat → α) (u : Nat) (v : α) : Nat → α := fun x => if x = u then v else f x

/-- A diagnostics task in flight: the arguments captured by the `go` statement, and whether it
    has read the settings (and found diagnostics switched on) yet. -/
structure Task (Text : Type) where
  text : Text
  num : Nat
  loading : Bool
  deriving DecidableEq, Repr

/-- Program counter of `documentResolved` on the handler thread, with its locals. -/
inductive RPc (Text Res : Type)
  | lookup
  | version
  | content (v : Nat)
  | load (v : Nat) (t : Text)
  | store (v : Nat) (r : Res)
  deriving DecidableEq, Repr

/-- The request in progress: document, the handler's local `doc` (the text read by
    `GetDocument` when the request was taken), program counter. -/
structure Req (Text Res : Type) where
  uri : Nat
  doc : Text
  pc : RPc Text Res
  deriving DecidableEq, Repr

/-- What a finished request answered with: the handler is a function of its local `doc` and of
    the tree it obtained (`none`: it fell back to the document alone). -/
structure Answer (Text Res : Type) where
  uri : Nat
  doc : Text
  tree : Option Res
  deriving DecidableEq, Repr

structure St (Text Res : Type) where
  /-- Server.documents -/
  docs : Nat → Option Text
  /-- Server.resolved -/
  resolved : Nat → Option Res
  /-- Server.docSeq -/
  seq : Nat
  /-- Server.docVersions (0 = no entry; numbers start at 1) -/
  ver : Nat → Nat
  /-- per document: the tasks still in flight, in start order -/
  pending : Nat → List (Task Text)
  /-- settings.Features.Diagnostics -/
  diag : Bool
  /-- the handler thread: the request being answered, if any -/
  req : Option (Req Text Res)
  /-- the answers given so far, oldest first -/
  answers : List (Answer Text Res)

inductive Ev (Text : Type)
  /-- didOpen / didChange (handler thread) -/
  | change (u : Nat) (t : Text)
  /-- didClose (handler thread) -/
  | close (u : Nat)
  /-- a refresh goroutine stores settings with features.diagnostics = b -/
  | config (b : Bool)
  /-- the `i`-th in-flight task of document `u` reads the settings -/
  | start (u : Nat) (i : Nat)
  /-- the `i`-th in-flight task of document `u` reaches storeResolvedIfCurrent (any order) -/
  | finish (u : Nat) (i : Nat)
  /-- a request on document `u` whose handler needs the document's own tree is taken -/
  | req (u : Nat)
  /-- the handler thread performs its next access to shared state -/
  | adv
  deriving DecidableEq, Repr

variable {Text Res : Type}

def St.init : St Text Res :=
  ⟨fun _ => none, fun _ => none, 0, fun _ => 0, fun _ => [], true, none, []⟩

/-- The request ends with the given tree. -/
def answer (σ : St Text Res) (r : Req Text Res) (tree : Option Res) : St Text Res :=
  { σ with req := none, answers := σ.answers ++ [⟨r.uri, r.doc, tree⟩] }

def setPc (σ : St Text Res) (r : Req Text Res) (pc : RPc Text Res) : St Text Res :=
  { σ with req := some { r with pc := pc } }

/-- One access of `documentResolved` (and, at `lookup` with `fixed = false`, of the code before
    the patch). -/
def advance (load : Text → Res) (fixed : Bool) (σ : St Text Res) (r : Req Text Res) : St Text Res :=
  match r.pc with
  | .lookup =>
    match σ.resolved r.uri with
    | some tree => answer σ r (some tree)
    | none => if fixed then setPc σ r .version else answer σ r none
  | .version => if σ.ver r.uri = 0 then answer σ r none else setPc σ r (.content (σ.ver r.uri))
  | .content v =>
    match σ.docs r.uri with
    | none => answer σ r none
    | some t => setPc σ r (.load v t)
  | .load v t => setPc σ r (.store v (load t))
  | .store v res =>
    answer { σ with resolved := if v = σ.ver r.uri then upd σ.resolved r.uri (some res) else σ.resolved }
      r (some res)

/-- One transition.  An event that is not enabled leaves the state alone, so every list of
    events is a trace and every behaviour of the server is one of them. -/
def step (load : Text → Res) (fixed : Bool) (σ : St Text Res) : Ev Text → St Text Res
  | .change u t =>
    match σ.req with
    | some _ => σ
    | none =>
      { σ with docs := upd σ.docs u (some t), resolved := upd σ.resolved u none,
               seq := σ.seq + 1, ver := upd σ.ver u (σ.seq + 1),
               pending := upd σ.pending u (σ.pending u ++ [⟨t, σ.seq + 1, false⟩]) }
  | .close u =>
    match σ.req with
    | some _ => σ
    | none => { σ with docs := upd σ.docs u none, resolved := upd σ.resolved u none, ver := upd σ.ver u 0 }
  | .config b => { σ with diag := b }
  | .start u i =>
    match (σ.pending u)[i]? with
    | none => σ
    | some k =>
      if k.loading then σ
      else if σ.diag then { σ with pending := upd σ.pending u ((σ.pending u).set i { k with loading := true }) }
      else { σ with pending := upd σ.pending u ((σ.pending u).eraseIdx i) }
  | .finish u i =>
    match (σ.pending u)[i]? with
    | none => σ
    | some k =>
      if k.loading then
        { σ with resolved := if k.num = σ.ver u then upd σ.resolved u (some (load k.text)) else σ.resolved,
                 pending := upd σ.pending u ((σ.pending u).eraseIdx i) }
      else σ
  | .req u =>
    match σ.req, σ.docs u with
    | none, some t => { σ with req := some ⟨u, t, .lookup⟩ }
    | _, _ => σ
  | .adv =>
    match σ.req with
    | none => σ
    | some r => advance load fixed σ r

def run (load : Text → Res) (fixed : Bool) (es : List (Ev Text)) : St Text Res :=
  es.foldl (step load fixed) St.init

/-- The response of a handler `h` (a function of the text and of the tree it was given). -/
def Answer.response {Resp : Type} (h : Text → Option Res → Resp) (a : Answer Text Res) : Resp :=
  h a.doc a.tree

/-- The response computed from the document state alone: the handler applied to the document's
    text and the include tree of THAT text. -/
def specRespond {Resp : Type} (load : Text → Res) (h : Text → Option Res → Resp) (σ : St Text Res)
    (u : Nat) : Option Resp :=
  (σ.docs u).map fun t => h t (some (load t))

/-- The fall-back response: the handler without an include tree. -/
def bareRespond {Resp : Type} (h : Text → Option Res → Resp) (σ : St Text Res) (u : Nat) : Option Resp :=
  (σ.docs u).map fun t => h t none

end HL.Bg
