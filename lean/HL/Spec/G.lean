/-
  Ground truth for the supported grammar G (DESIGN.md 4.2): the structure a generated
  journal was written from, and the oracle `agrees` that compares it field by field with the
  syntax tree the server extracts (ranges ignored; quantities compared as exact rationals).
-/
import HL.Model.Ast
namespace HL.G
open HL

def decToRat (d : Dec) : Rat :=
  if d.exp ≥ 0 then (d.coef : Rat) * ((10 : Rat) ^ d.exp.toNat)
  else (d.coef : Rat) / ((10 : Rat) ^ (-d.exp).toNat)

structure Amount where
  q : Rat
  com : Bytes
  side : Nat        -- 0 left, 1 right, 2 none
  quoted : Bool
  cls : String := ""     -- commodity class as written: symbol upper quoted lower script
  sp : Bool := false     -- a blank between commodity and number
  signPos : Nat := 0     -- 0 none, 1 before a left commodity, 2 directly before the number
  num : String := ""     -- number notation
deriving Repr, Inhabited

structure Tag where
  name : Bytes
  value : Bytes
deriving Repr, Inhabited, BEq

structure Posting where
  st : Nat
  virt : Nat        -- 0 none, 1 balanced [..], 2 unbalanced (..)
  acc : Bytes
  amt : Option Amount
  cost : Option Amount
  total : Bool
  ba : Option Amount
  strict : Bool
  cmt : Bytes
  hascmt : Bool
  tags : List Tag
  line : Nat
deriving Repr, Inhabited

structure Entry where
  kind : String      -- tx account commodity include P Y D comment
  first : Nat
  last : Nat
  date : Int × Int × Int := (0, 0, 0)
  date2 : Option (Int × Int × Int) := none
  st : Nat := 0
  code : Bytes := []
  desc : Bytes := []
  payee : Bytes := []
  note : Bytes := []
  pipe : Bool := false
  cmt : Bytes := []
  hascmt : Bool := false
  tags : List Tag := []
  ps : List Posting := []
  acc : Bytes := []
  sym : Bytes := []
  fmt : Bytes := []
  path : Bytes := []
  price : Option Amount := none
  year : Int := 0
  text : Bytes := []
deriving Repr, Inhabited

structure Journal where
  entries : List Entry
  crlf : Bool
  feat : List String
deriving Repr, Inhabited

def statusCode : Ast.Status → Nat | .none => 0 | .pending => 1 | .cleared => 2
def virtCode : Ast.Virtual → Nat | .none => 0 | .balanced => 1 | .unbalanced => 2

def tagsAgree (g : List Tag) (a : List Ast.Tag) : Bool :=
  g == a.map fun t => ⟨t.name, t.value⟩

def amountAgrees (g : Amount) (a : Ast.Amount) : Bool :=
  decToRat a.quantity == g.q &&
  (if g.side == 2 then a.commodity.symbol == []
   else a.commodity.symbol == g.com &&
        (if g.side == 0 then a.commodity.side == .left else a.commodity.side == .right))

def optAgree {α β} (f : α → β → Bool) : Option α → Option β → Bool
  | none, none => true
  | some a, some b => f a b
  | _, _ => false

def postingAgrees (g : Posting) (p : Ast.Posting) : Bool :=
  statusCode p.status == g.st && virtCode p.virt == g.virt && p.account.name == g.acc &&
  optAgree amountAgrees g.amt p.amount &&
  optAgree (fun (c : Amount × Bool) (a : Ast.Cost) => amountAgrees c.1 a.amount && a.isTotal == c.2)
    (g.cost.map fun c => (c, g.total)) p.cost &&
  optAgree (fun (c : Amount × Bool) (a : Ast.Assertion) => amountAgrees c.1 a.amount && a.isStrict == c.2)
    (g.ba.map fun c => (c, g.strict)) p.assertion &&
  (if g.hascmt then p.comment == g.cmt && tagsAgree g.tags p.tags else p.comment == [] && p.tags == []) &&
  p.range.start.line == g.line + 1

def listAgree {α β} (f : α → β → Bool) : List α → List β → Bool
  | [], [] => true
  | a :: as, b :: bs => f a b && listAgree f as bs
  | _, _ => false

def dateAgrees (g : Int × Int × Int) (d : Ast.Date) : Bool :=
  d.year == g.1 && d.month == g.2.1 && d.day == g.2.2

def txAgrees (g : Entry) (t : Ast.Transaction) : Bool :=
  dateAgrees g.date t.date && optAgree dateAgrees g.date2 t.date2 && statusCode t.status == g.st &&
  t.code == g.code && t.description == g.desc &&
  (if g.pipe then t.payee == g.payee && t.note == g.note else t.payee == [] && t.note == []) &&
  (if g.hascmt then
      (match t.comments with
       | [c] => c.text == g.cmt && tagsAgree g.tags c.tags
       | _ => false)
   else t.comments.isEmpty) &&
  listAgree postingAgrees g.ps t.postings &&
  t.range.start.line == g.first + 1

def directiveAgrees (g : Entry) (d : Ast.Directive) : Bool :=
  match g.kind, d with
  | "account", .account a tags c _ r =>
      a.name == g.acc && (if g.hascmt then c == g.cmt && tagsAgree g.tags tags else c == []) &&
      r.start.line == g.first + 1
  | "commodity", .commodity c f _ _ r => c.symbol == g.sym && f == g.fmt && r.start.line == g.first + 1
  | "P", .price d c p r => dateAgrees g.date d && c.symbol == g.sym &&
      (match g.price with | some a => amountAgrees a p | none => false) && r.start.line == g.first + 1
  | "Y", .year y r => y == g.year && r.start.line == g.first + 1
  | "D", .defaultCommodity s f r => s == g.sym && f == g.fmt && r.start.line == g.first + 1
  | _, _ => false

def isDirKind (k : String) : Bool := k == "account" || k == "commodity" || k == "P" || k == "Y" || k == "D"

/-- The tree `j` is the structure the journal was written from. -/
def agrees (g : Journal) (j : Ast.Journal) : Bool :=
  listAgree txAgrees (g.entries.filter (·.kind == "tx")) j.transactions &&
  listAgree directiveAgrees (g.entries.filter (isDirKind ·.kind)) j.directives &&
  listAgree (fun (e : Entry) (i : Ast.Include) => i.path == e.path && i.range.start.line == e.first + 1)
    (g.entries.filter (·.kind == "include")) j.includes &&
  listAgree (fun (e : Entry) (c : Ast.Comment) => c.text == e.text && tagsAgree e.tags c.tags)
    (g.entries.filter (·.kind == "comment")) j.comments

/-- First entry (index) on which the tree disagrees, for the replay file. -/
def firstDisagreement (g : Journal) (j : Ast.Journal) : String :=
  let txs := g.entries.filter (·.kind == "tx")
  if txs.length != j.transactions.length then s!"{txs.length} transactions written, {j.transactions.length} recognised"
  else match (txs.zip j.transactions).findIdx? (fun (e, t) => !txAgrees e t) with
    | some i => s!"transaction #{i} differs"
    | none =>
      let ds := g.entries.filter (isDirKind ·.kind)
      if ds.length != j.directives.length then s!"{ds.length} directives written, {j.directives.length} recognised"
      else match (ds.zip j.directives).findIdx? (fun (e, d) => !directiveAgrees e d) with
        | some i => s!"directive #{i} differs"
        | none => "includes or comment lines differ"

end HL.G

namespace HL.G
open HL

/-! ### Guards of the known findings of C03 (shapes of G the lexer is known to mis-read) -/

def isAsciiLetter (b : UInt8) : Bool := (b ≥ 65 && b ≤ 90) || (b ≥ 97 && b ≤ 122)
def isLower (b : UInt8) : Bool := b ≥ 97 && b ≤ 122

/-- UTF-8 encodings of the six currency symbols the lexer knows (`$` is ASCII). -/
def startsWithCurrency (s : Bytes) : Bool :=
  s.take 2 == [0xC2, 0xA3] || s.take 2 == [0xC2, 0xA5] ||      -- £ ¥
  s.take 3 == [0xE2, 0x82, 0xAC] || s.take 3 == [0xE2, 0x82, 0xBD] || s.take 3 == [0xE2, 0x82, 0xB4]  -- € ₽ ₴

/-- A description (or payee, or note) the lexer reads as ONE text token: it starts with an
    ASCII letter or a non-ASCII character other than a currency symbol, contains no colon,
    and its leading run of ASCII letters contains a lower-case letter (otherwise the word is
    taken for a commodity symbol). -/
def descPlain (s : Bytes) : Bool :=
  match s with
  | [] => true
  | b :: _ =>
    (isAsciiLetter b || (b ≥ 0x80 && !startsWithCurrency s)) &&
    !s.contains 58 &&
    (!isAsciiLetter b || (s.takeWhile isAsciiLetter).any isLower)

/-- A right-hand commodity that is not an upper-case ASCII word is lexed as free text,
    which runs to the end of the line (or the next `;`): whatever follows it on the posting
    line (a cost, an assertion) is swallowed. -/
def textCommodity (a : Amount) : Bool := a.side == 1 && (a.cls == "lower" || a.cls == "script")

def rcommTail (p : Posting) : Bool :=
  (match p.amt with | some a => textCommodity a && (p.cost.isSome || p.ba.isSome) | none => false) ||
  (match p.cost with | some a => textCommodity a && p.ba.isSome | none => false)

/-- `-USD 5`, `-"AAPL 2" 3`: a sign before a letter commodity that is not glued to its number
    is not recognised as a sign. -/
def signLetterCommodity (a : Amount) : Bool :=
  a.signPos == 1 && a.side == 0 && (a.cls == "quoted" || (a.cls == "upper" && a.sp))

def isDigitB (b : UInt8) : Bool := b ≥ 48 && b ≤ 57

/-- `a:b2  USD5`: the look-behind that decides "this word follows an amount" sees the digit
    that ends the account name. -/
def digitBeforeCommodity (p : Posting) : Bool :=
  match p.amt with
  | some a => a.side == 0 && a.cls == "upper" && !a.sp && a.signPos != 1 &&
      (match p.acc.getLast? with | some b => isDigitB b && p.virt == 0 | none => false)
  | none => false

def isUpperB (b : UInt8) : Bool := b ≥ 65 && b ≤ 90

/-- Spelled with upper-case ASCII letters only, or one of the currency symbols. -/
def upperOrCurrency (s : Bytes) : Bool :=
  (s != [] && s.all isUpperB) || s == [0x24] || (startsWithCurrency s && s.length ≤ 3)

/-- `L5x`: an upper-case prefix directly followed by a digit is split off as a commodity of
    its own when the word does not follow an amount's number. -/
def splitsAtDigit (s : Bytes) : Bool :=
  let pre := s.takeWhile isAsciiLetter
  pre != [] && pre.all isUpperB && (match s.drop pre.length with | b :: _ => isDigitB b | [] => false) &&
    !(s.all fun b => isUpperB b || isDigitB b)

/-- `5906. C78x`: after a number written with a trailing mark the look-behind does not see a
    digit, so a following commodity word is lexed as if it did not follow an amount. -/
def trailThenLower (a : Amount) : Bool := a.num == "trail" && a.side == 1 && a.cls == "lower"

def entryTextCommodity (e : Entry) : Bool :=
  (e.kind == "P" && !upperOrCurrency e.sym) ||
  (e.kind == "P" && (match e.price with | some a => a.quoted && a.com.contains 58 | none => false)) ||
  ((e.kind == "commodity" || e.kind == "D") && splitsAtDigit e.sym)

def postingAmounts (p : Posting) : List Amount := p.amt.toList ++ p.cost.toList ++ p.ba.toList

def entryDescPlain (e : Entry) : Bool :=
  if e.kind != "tx" then true
  else if e.pipe then descPlain e.payee && descPlain e.note else descPlain e.desc

def allPostings (g : Journal) : List Posting := g.entries.flatMap (·.ps)
def allAmounts (g : Journal) : List Amount :=
  (allPostings g).flatMap postingAmounts ++ g.entries.flatMap (·.price.toList)

def knownShapes (g : Journal) : List String :=
  (if g.entries.all entryDescPlain then [] else ["description-first-word-decides-token"]) ++
  (if (allPostings g).any rcommTail then ["text-commodity-swallows-rest-of-line"] else []) ++
  (if (allAmounts g).any signLetterCommodity then ["sign-before-spaced-letter-commodity"] else []) ++
  (if (allPostings g).any digitBeforeCommodity then ["digit-ending-account-before-commodity"] else []) ++
  (if g.entries.any entryTextCommodity then ["directive-commodity-not-upper-case"] else []) ++
  (if (allAmounts g).any trailThenLower then ["trailing-mark-then-word-commodity"] else [])

end HL.G
