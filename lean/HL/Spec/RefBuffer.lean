/-
  Specification for C01: the buffer a conforming LSP client holds.

  The client's text is a list of UTF-16 code units.  Lines end at LF; a CR immediately
  before the LF (or before the end of the text) belongs to the terminator, so the content
  length of a line excludes it.  `offset (l, c)` is the start of line `l` plus
  `min c (content length of line l)`; a line number past the last line is the end of text.
  A ranged change replaces the units between the two offsets; a range-less change replaces
  everything; the changes of one notification apply in order.
-/
import HL.Model.Text
namespace HL.Ref
open HL.Text

abbrev Units := List Nat

def encChar (c : Char) : List Nat :=
  let n := c.val.toNat
  if n ≥ 0x10000 then [0xD800 + (n - 0x10000) / 0x400, 0xDC00 + (n - 0x10000) % 0x400] else [n]

def enc16 : Txt → Units
  | [] => []
  | c :: cs => encChar c ++ enc16 cs

def firstLine : Units → Units
  | [] => []
  | u :: us => if u = 10 then [] else u :: firstLine us

def afterNL : Units → Option Units
  | [] => none
  | u :: us => if u = 10 then some us else afterNL us

/-- Length of a line's content: its units without a trailing CR. -/
def contentLen (l : Units) : Nat := if l.getLast? = some 13 then l.length - 1 else l.length

/-- Offset (in code units) of an LSP position in the client's buffer. -/
def offset : Units → Nat → Nat → Nat
  | us, 0, ch => min ch (contentLen (firstLine us))
  | us, l+1, ch => match afterNL us with
    | none => us.length
    | some rest => (firstLine us).length + 1 + offset rest l ch

inductive Change where
  | full (text : Txt)
  | ranged (r : Range) (text : Txt)
deriving Repr, DecidableEq, Inhabited

def applyOne (us : Units) : Change → Units
  | .full t => enc16 t
  | .ranged r t => us.take (offset us r.sl r.sc) ++ enc16 t ++ us.drop (offset us r.el r.ec)

def applyAll (us : Units) (cs : List Change) : Units := cs.foldl applyOne us

abbrev Docs := List (Uri × Units)
def Docs.get (d : Docs) (u : Uri) : Option Units := (d.find? (·.1 == u)).map (·.2)
def Docs.erase (d : Docs) (u : Uri) : Docs := d.filter (·.1 != u)
def Docs.set (d : Docs) (u : Uri) (t : Units) : Docs := (u, t) :: d.erase u

inductive Note where
  | didOpen (u : Uri) (t : Txt)
  | didChange (u : Uri) (cs : List Change)
  | didClose (u : Uri)
deriving Repr, Inhabited

def step (d : Docs) : Note → Docs
  | .didOpen u t => d.set u (enc16 t)
  | .didChange u cs => match d.get u with
    | some t => d.set u (applyAll t cs)
    | none => d
  | .didClose u => d.erase u

def run (h : List Note) : Docs := h.foldl step []

/-- What the server receives for a client change (`didChangeHandler` decodes the range as
    optional). -/
def wire : Change → Text.Change
  | .full t => ⟨none, t⟩
  | .ranged r t => ⟨some r, t⟩

/-- The pinned wire path: `go.lsp.dev/protocol` decodes `TextDocumentContentChangeEvent.Range`
    into a non-pointer struct, so an absent range arrived as the zero range and
    `isFullChange` could not tell it from an insertion at 0:0. -/
def wirePinned : Change → Text.Change
  | .full t => Text.ofProtocol ⟨0, 0, 0, 0⟩ t
  | .ranged r t => Text.ofProtocol r t

def wireNote : Note → Text.Note
  | .didOpen u t => .didOpen u t
  | .didChange u cs => .didChange u (cs.map wire)
  | .didClose u => .didClose u

/-! ### Conforming clients -/

/-- `n` is not inside a surrogate pair of `s` (or is past its end). -/
def noSplit : Txt → Nat → Bool
  | [], _ => true
  | c :: cs, n => n == 0 || (u16w c ≤ n && noSplit cs (n - u16w c))

/-- The position `(l, ch)` does not point inside a surrogate pair. -/
def posOK : Txt → Nat → Nat → Bool
  | s, 0, ch => noSplit (countable true (Text.firstLine s)) ch
  | s, l+1, ch => match Text.afterNL s with
    | none => true
    | some rest => posOK rest l ch

/-- A ranged change a conforming client may send for the document `s`:
    neither end splits a surrogate pair and start does not come after end. -/
def rangeOK (s : Txt) (r : Range) : Bool :=
  posOK s r.sl r.sc && posOK s r.el r.ec &&
    decide (offset (enc16 s) r.sl r.sc ≤ offset (enc16 s) r.el r.ec)

/-- The one change shape the PINNED server could not tell from a range-less one
    (finding `insert-at-origin`, repaired): a ranged change whose range is 0:0-0:0. -/
def originInsert : Change → Bool
  | .ranged r _ => isFullChange r
  | .full _ => false

def changeOK (s : Txt) : Change → Bool
  | .full _ => true
  | .ranged r _ => rangeOK s r

/-- The changes of one notification, each judged against the text it is applied to. -/
def changesOK : Txt → List Change → Bool
  | _, [] => true
  | s, c :: cs => changeOK s c && changesOK (Text.applyOne true s (wire c)) cs

def noteOK (d : Text.Docs) : Note → Bool
  | .didChange u cs => match d.get u with
    | some t => changesOK t cs
    | none => true
  | _ => true

/-- Every notification of the history is one a conforming client may send in the state the
    history has reached. -/
def histOK : Text.Docs → List Note → Bool
  | _, [] => true
  | d, n :: ns => noteOK d n && histOK (Text.step true d (wireNote n)) ns

end HL.Ref
