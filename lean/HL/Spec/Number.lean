import HL.Model.Ast

/-!
  The number notations of DESIGN 4.3 as a data type with a printer and an exact value.
  Written independently of the parser model: `render` prints, `value` is arithmetic on digits.

  `G.Number`:  sign (`neg`; the sign itself is written by the amount printer, before or after a
  left commodity, and reaches the parser as a separate Sign token), integer digits, optional
  digit-group mark (',' '.' or ' ', groups of three from the right), optional decimal mark
  ('.' or ','), fraction digits, optional exponent.  A *trailing mark* (`12.`) is a decimal mark
  with no fraction digits.
-/
namespace HL
namespace G

abbrev Digit := Fin 10

inductive ExpSign where | none | plus | minus
deriving Repr, DecidableEq, Inhabited, BEq

structure Exponent where
  upper : Bool            -- 'E' (true) or 'e'
  sign : ExpSign          -- as written: nothing, '+' or '-'
  digits : List Digit     -- as written (leading zeros allowed)
deriving Repr, DecidableEq, Inhabited, BEq

structure Number where
  neg : Bool
  intDigits : List Digit
  group : Option UInt8
  mark : Option UInt8
  frac : List Digit
  exp : Option Exponent
deriving Repr, DecidableEq, Inhabited, BEq

def digitByte (d : Digit) : UInt8 := UInt8.ofNat (48 + d.val)
def digitsBytes (ds : List Digit) : Bytes := ds.map digitByte

/-- value of a digit string read left to right. -/
def natOf (ds : List Digit) : Nat := ds.foldl (fun acc d => acc * 10 + d.val) 0

/-- groups of three, on the reversed digit string: a group mark after every third digit that
    is followed by another digit. -/
def groupRev (g : UInt8) : Bytes → Bytes
  | a :: b :: c :: t => if t.isEmpty then [a, b, c] else a :: b :: c :: g :: groupRev g t
  | l => l

def renderInt (group : Option UInt8) (ds : List Digit) : Bytes :=
  match group with
  | none => digitsBytes ds
  | some g => (groupRev g (digitsBytes ds).reverse).reverse

def renderFrac (mark : Option UInt8) (frac : List Digit) : Bytes :=
  match mark with
  | none => []
  | some m => m :: digitsBytes frac

def renderExp : Option Exponent → Bytes
  | none => []
  | some e => (if e.upper then 69 else 101) ::
      ((match e.sign with | .none => [] | .plus => [43] | .minus => [45]) ++ digitsBytes e.digits)

/-- the Number token's text (no sign). -/
def render (n : Number) : Bytes :=
  renderInt n.group n.intDigits ++ renderFrac n.mark n.frac ++ renderExp n.exp

def expValue : Option Exponent → Int
  | none => 0
  | some e => match e.sign with
    | .minus => -(natOf e.digits : Int)
    | _ => (natOf e.digits : Int)

/-- unsigned magnitude `int.frac × 10^exp`. -/
def magnitude (n : Number) : Rat :=
  ((natOf n.intDigits : Rat) + (natOf n.frac : Rat) / (10 : Rat) ^ n.frac.length) * (10 : Rat) ^ expValue n.exp

def value (n : Number) : Rat := if n.neg then -magnitude n else magnitude n

/-- Is any group mark actually written?  (more than three integer digits and a group mark). -/
def grouped (n : Number) : Bool := n.group.isSome && n.intDigits.length > 3

/-- Well-formedness of a notation (the shapes of 4.3). -/
def wf (n : Number) : Bool :=
  n.intDigits ≠ [] &&
  (match n.group with | none => true | some g => g == 44 || g == 46 || g == 32) &&
  (match n.mark with | none => n.frac.isEmpty | some m => m == 46 || m == 44) &&
  (match n.group, n.mark with | some g, some m => g != m | _, _ => true) &&
  -- a number written with group marks does not start with 0 (`0,234` is not a grouping)
  (!grouped n || n.intDigits.head? != some 0) &&
  (match n.exp with | none => true | some e => e.digits ≠ [] && natOf e.digits ≤ 2147483647) &&
  -- the decimal exponent the text denotes stays within the parser's bound (|exponent| ≤ 1000)
  decide (-1000 ≤ expValue n.exp - (n.frac.length : Int)) && decide (expValue n.exp - (n.frac.length : Int) ≤ 1000)

/-- Is a mark other than blanks written between the integer groups? -/
def hardGrouped (n : Number) : Bool := grouped n && n.group != some 32

/-- Side condition A (DESIGN 4.3), the excluded shape: after removing blanks the mantissa has
    exactly one mark, exactly three digits after it and a non-zero integer part: such a text
    denotes a grouped integer, so it is never used to write a value with three decimals. -/
def shapeA (n : Number) : Bool :=
  !hardGrouped n && n.mark.isSome && n.frac.length == 3 && natOf n.intDigits != 0

/-- fraction bits needed to write the number (precision), used by the generator's domain. -/
def decimals (n : Number) : Int := (n.frac.length : Int) - expValue n.exp

end G
end HL
