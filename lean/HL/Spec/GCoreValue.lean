import HL.Spec.GCore
import HL.Spec.BalanceSpec
/-!
  What a `GCore` journal SAYS, for the balance rule of property C02: the exact rational value of
  an amount as written, the commodity as written, and the transaction as the balance
  specification (`HL.Spec.Bal.verdict`) sees it.

  Written from the EBNF of HL/Spec/GCore.lean alone: positional value of the digit strings, a
  sign; no decimals, no lexer, no parser, no `GCore.expected` (`txRanges` restates where the
  printer puts each transaction; `Lemmas/GCoreValue.txRanges_expected` ties it to the tree).

  ```
  amount ::= [ '-' ] digits [ '.' digits ] [ ' ' commodity ]
  value  =   ± ( value(int digits) + value(fraction digits) / 10^(number of fraction digits) )
  ```
  Every posting of the core grammar is an ordinary one (no brackets, no parentheses, no cost);
  a posting without amount is one of the "missing" ones of the rule.
-/
namespace HL.GCore
open HL HL.Spec.Bal

/-- value of one digit byte -/
def digitVal (c : UInt8) : Nat := c.toNat - 48

/-- positional value of a digit string, most significant digit first -/
def natOf : Bytes → Nat
  | [] => 0
  | c :: r => digitVal c * 10 ^ r.length + natOf r

/-- the unsigned value written: integer digits, then the fraction digits as a fraction -/
def Amount.magnitude (a : Amount) : Rat :=
  match a.frac with
  | none => (natOf a.int : Rat)
  | some f => (natOf a.int : Rat) + (natOf f : Rat) / ((10 ^ f.length : Nat) : Rat)

/-- **the exact rational value of an amount as written** -/
def amountValue (a : Amount) : Rat := if a.neg then -a.magnitude else a.magnitude

/-- the commodity as written (the empty symbol when none is written) -/
def amountCommodity (a : Amount) : Bytes := a.com.getD []

/-- a posting as the balance rule sees it: ordinary, its account, its amount if one is written -/
def postingImage (p : Posting) : RPosting :=
  ⟨.none, p.acct, p.amount.map fun a => ⟨amountValue a, amountCommodity a⟩, none⟩

/-- **the transaction the text was written from, as the balance specification sees it** -/
def txImage (t : Tx) : RTx := t.postings.map postingImage

/-- number of postings written without an amount -/
def amountless (t : Tx) : Nat := (t.postings.filter fun p => p.amount.isNone).length

/-- the exact sum of the values written in commodity `c`, in posting order -/
def writtenSum (t : Tx) (c : Bytes) : Rat :=
  sumRat (t.postings.filterMap fun p =>
    match p.amount with
    | none => none
    | some a => if amountCommodity a = c then some (amountValue a) else none)

/-- Where the transactions stand in the printed text: a transaction whose header is line `ln`
    (1-based) starting at byte offset `o` extends from the first byte of its header to column 1
    of the line behind its last posting; the next one starts two lines further (one empty line
    between entries). -/
def txRanges : List Tx → Nat → Nat → List Rng
  | [], _, _ => []
  | t :: ts, ln, o =>
    ⟨⟨ln, 1, o⟩, ⟨ln + 1 + t.postings.length, 1, o + t.print.length⟩⟩ ::
      txRanges ts (ln + t.postings.length + 2) (o + t.print.length + 1)

/-- every transaction of the journal with its range in `print j` -/
def located (j : Journal) : List (Tx × Rng) := j.zip (txRanges j 1 0)

end HL.GCore
