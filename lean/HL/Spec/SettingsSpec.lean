/-
  C19 — the statement's rule for configuration payloads, written independently of the model
  (shares only the settings record and its field accessors with `HL.Model.Settings`).

  The key tree is the one documented in docs/configuration.md (plus the alias
  `limits.maxFileSize`, which the code reads and the documentation omits).

  Rule, per field f, for a payload applied to the previously stored settings `prev`:
    * every place where the payload mentions f — in any object of the `hledger` wrapper
      chain, as `section.name` or as `section: {name: …}` — is classified
        good v   a recognised, well-typed value (booleans; strings that spell a boolean in any
                 letter case, surrounded by blanks; integral numbers; strings that spell a
                 decimal integer; for the path: any string), already validated: a non-positive
                 count stands for the default, an empty path stands for the default, a width
                 above its documented maximum (indentSize 32, minAlignmentColumn 500) stands
                 for that maximum
        bad      ill-typed: leaves the field alone
        unspec   the statement does not say (a number with a fractional part, beyond ±2^53
                 where float64 is no longer exact, a timeout whose nanosecond value leaves
                 int64, a string with non-ASCII characters, "5.0" / "0x10" …): anything goes
    * if some mention is `unspec` the field is not judged;
    * if no mention is `good` the field keeps its previous value;
    * otherwise the field holds one of the `good` values (several mentions of one field may
      disagree; the statement does not rank them).
-/
import HL.Model.Settings

namespace HL.SettingsSpec
open HL.Settings (Json Settings Leaf Val get defaults)

inductive Kind where
  | flag | count | text
  deriving DecidableEq, Repr

/-- documented type of each setting -/
def kindOf : Leaf → Kind
  | .cMaxResults | .oIndentSize | .oMinAlignmentColumn | .xTimeout
  | .lMaxFileSizeBytes | .lMaxIncludeDepth => .count
  | .xPath => .text
  | _ => .flag

/-- docs/configuration.md: `hledger.<section>.<name>` -/
def docTree : List (String × String × Leaf) := [
  ("features", "hover", .fHover), ("features", "completion", .fCompletion),
  ("features", "formatting", .fFormatting), ("features", "diagnostics", .fDiagnostics),
  ("features", "semanticTokens", .fSemanticTokens), ("features", "codeActions", .fCodeActions),
  ("features", "foldingRanges", .fFoldingRanges), ("features", "documentLinks", .fDocumentLinks),
  ("features", "workspaceSymbol", .fWorkspaceSymbol),
  ("features", "inlineCompletion", .fInlineCompletion),
  ("completion", "maxResults", .cMaxResults), ("completion", "fuzzyMatching", .cFuzzyMatching),
  ("completion", "showCounts", .cShowCounts),
  ("diagnostics", "undeclaredAccounts", .dUndeclaredAccounts),
  ("diagnostics", "undeclaredCommodities", .dUndeclaredCommodities),
  ("diagnostics", "unbalancedTransactions", .dUnbalancedTransactions),
  ("formatting", "indentSize", .oIndentSize), ("formatting", "alignAmounts", .oAlignAmounts),
  ("formatting", "minAlignmentColumn", .oMinAlignmentColumn),
  ("cli", "enabled", .xEnabled), ("cli", "path", .xPath), ("cli", "timeout", .xTimeout),
  ("limits", "maxFileSizeBytes", .lMaxFileSizeBytes), ("limits", "maxFileSize", .lMaxFileSizeBytes),
  ("limits", "maxIncludeDepth", .lMaxIncludeDepth)]

inductive Class where
  | good (v : Val)
  | bad
  | unspec
  deriving DecidableEq, Repr

/-! ### reading values -/

def asciiBlank (c : Char) : Bool := c.toNat == 32 || (9 ≤ c.toNat && c.toNat ≤ 13)   -- space, \t \n \v \f \r

def asciiLower (c : Char) : Char :=
  if 65 ≤ c.toNat && c.toNat ≤ 90 then Char.ofNat (c.toNat + 32) else c

def stripBlanks (l : List Char) : List Char :=
  ((l.dropWhile asciiBlank).reverse.dropWhile asciiBlank).reverse

def isAscii (c : Char) : Bool := c.toNat < 128
def isDigitC (c : Char) : Bool := 48 ≤ c.toNat && c.toNat ≤ 57
def isLetter (c : Char) : Bool := (97 ≤ c.toNat && c.toNat ≤ 122) || (65 ≤ c.toNat && c.toNat ≤ 90)

def natOfDigits (l : List Char) : Nat := l.foldl (fun a c => a * 10 + (c.toNat - 48)) 0

/-- optional sign, then one or more decimal digits -/
def decimalInt (l : List Char) : Option Int :=
  let body (r : List Char) : Option Nat := if r ≠ [] ∧ r.all isDigitC then some (natOfDigits r) else none
  match l with
  | '+' :: r => (body r).map fun (n : Nat) => Int.ofNat n
  | '-' :: r => (body r).map fun (n : Nat) => -Int.ofNat n
  | r => (body r).map fun (n : Nat) => Int.ofNat n

def two53 : Int := 9007199254740992
def two63 : Int := 9223372036854775808

/-- the integer a JSON number denotes, when it denotes one (`m * 2^e`) -/
def integral (m e : Int) : Option Int :=
  if 0 ≤ e then some (m * 2 ^ e.toNat)
  else if m % (2 ^ (-e).toNat) = 0 then some (m / 2 ^ (-e).toNat) else none

def readFlag : Json → Class
  | .bool b => .good (.b b)
  | .str s =>
    let t := stripBlanks (s.toList.map asciiLower)
    if t = ['t', 'r', 'u', 'e'] then .good (.b true)
    else if t = ['f', 'a', 'l', 's', 'e'] then .good (.b false)
    else if s.toList.all isAscii then .bad else .unspec
  | _ => .bad

/-- the integer a payload value spells, with the range in which the statement commits itself -/
def readInt (bound : Int) : Json → Option (Option Int)   -- none = bad, some none = unspec
  | .num m e =>
    match integral m e with
    | some v => if -bound < v ∧ v < bound ∧ -two53 < v ∧ v < two53 then some (some v) else some none
    | none => some none
  | .str s =>
    match decimalInt (stripBlanks s.toList) with
    | some v => if -bound < v ∧ v < bound then some (some v) else some none
    | none =>
      if !s.toList.all isAscii then some none
      else if s.toList.any isLetter || (stripBlanks s.toList).isEmpty then none
      else some none
  | _ => none

/-- docs/configuration.md: the settings with a documented maximum -/
def maxOf : Leaf → Option Int
  | .oIndentSize => some 32
  | .oMinAlignmentColumn => some 500
  | _ => none

/-- validation of a count: non-positive stands for the default, a value above the documented
    maximum for the maximum -/
def validCount (l : Leaf) (v : Int) : Val :=
  if v ≤ 0 then get defaults l
  else match maxOf l with
    | some m => if v > m then .i m else .i v
    | none => .i v

def readLeaf (l : Leaf) (j : Json) : Class :=
  match kindOf l with
  | .flag => readFlag j
  | .text =>
    match j with
    | .str s => .good (if s = "" then get defaults l else .s s)
    | _ => .bad
  | .count =>
    if l = .xTimeout then
      -- milliseconds; the stored value is a duration in nanoseconds
      match readInt 9223372036854 j with
      | none => .bad
      | some none => .unspec
      | some (some v) => .good (validCount l (v * 1000000))
    else
      match readInt two63 j with
      | none => .bad
      | some none => .unspec
      | some (some v) => .good (validCount l v)

/-! ### where a payload mentions a field -/

def find (k : String) : List (String × Json) → Option Json
  | [] => none
  | (a, v) :: r => if a = k then some v else find k r

mutual
/-- the objects of the `hledger` wrapper chain, outermost first -/
def levels : Json → List (List (String × Json))
  | .obj kvs => kvs :: levelsIn kvs
  | _ => []
def levelsIn : List (String × Json) → List (List (String × Json))
  | [] => []
  | (k, v) :: r => if k = "hledger" then levels v else levelsIn r
end

/-- the mentions of field `l` in one object -/
def mentionsIn (l : Leaf) (kvs : List (String × Json)) : List Class :=
  docTree.flatMap fun (sec, name, l') =>
    if l' = l then
      (match find sec kvs with
        | some (.obj m) => (match find name m with | some v => [readLeaf l v] | none => [])
        | _ => []) ++
      (match find (sec ++ "." ++ name) kvs with | some v => [readLeaf l v] | none => [])
    else []

def mentions (l : Leaf) (lv : List (List (String × Json))) : List Class :=
  lv.flatMap (mentionsIn l)

/-- the stored value is the validated one -/
def agree (_ : Leaf) (a b : Val) : Bool := a = b

def goods : List Class → List Val
  | [] => []
  | .good v :: r => v :: goods r
  | _ :: r => goods r

def leafOk (l : Leaf) (lv : List (List (String × Json))) (prev res : Settings) : Bool :=
  let ms := mentions l lv
  if ms.contains .unspec then true
  else
    match goods ms with
    | [] => agree l (get prev l) (get res l)
    | gs => gs.any fun g => agree l g (get res l)

/-- the stored settings a payload is applied to are always validated ones: counts positive,
    widths inside their documented ranges, the path not empty -/
def valid (s : Settings) : Bool :=
  decide (0 < s.completion.maxResults) &&
  decide (0 < s.formatting.indentSize) && decide (s.formatting.indentSize ≤ 32) &&
  decide (0 ≤ s.formatting.minAlignmentColumn) && decide (s.formatting.minAlignmentColumn ≤ 500) &&
  decide (s.cli.path ≠ "") && decide (0 < s.cli.timeout) &&
  decide (0 < s.limits.maxFileSizeBytes) && decide (0 < s.limits.maxIncludeDepth)

/-- the rule, for all fields -/
def specOkAt (lv : List (List (String × Json))) (prev res : Settings) : Bool :=
  Leaf.all.all fun l => leafOk l lv prev res

def failingLeaves (lv : List (List (String × Json))) (prev res : Settings) : List Leaf :=
  Leaf.all.filter fun l => !leafOk l lv prev res

/-- **The statement's rule.** -/
def specOk (prev : Settings) (payload : Json) (res : Settings) : Bool :=
  specOkAt (levels payload) prev res && valid res

/-! ### effect on behaviour: the probes of harness/c19.go (`observe`) -/

/-- What the fixed probe scenario must show for given stored settings.  Scenario constants:
    8 accounts, 6 of them with the prefix "exp", all 8 contain "xp" as a subsequence; the
    formatted posting `a:b  -10 USD` sits next to `expenses:food` (13 characters); the probed
    document is 160 bytes; the include chain main → a → b → c has a 72-byte file `a`. -/
structure Obs where
  completionItems : Int
  subsequenceItems : Int
  countsShown : Bool
  /-- none = the probe is skipped (the harness does not ask for a width above 1000: only a
      recurrence of the unbounded-width defect could store one, and the formatter would
      allocate that much), some none = the handler panics,
      some (some (indent, column)) -/
  format : Option (Option (Int × Int))
  /-- per probed request method: "null" (the empty answer: nothing reached a handler),
      "answered" (a non-empty answer), "passed" (handed to the handler; its answer is not
      looked at) -/
  gate : List (String × String)
  inline : Option (Option (Int × Int))      -- items, indent
  published : Nat
  codes : List String
  docTooLarge : Bool
  depthExceeded : Bool
  includeTooLarge : Bool
  deriving Repr, DecidableEq

def widthSkipped (v : Int) : Bool := decide (1000 < v) && decide (v < 2 ^ 50)

def diagDocBytes : Int := 161

def imin (a b : Int) : Int := if a ≤ b then a else b
def imax (a b : Int) : Int := if a ≤ b then b else a

/-- **The stored limits govern the load, whatever was loaded before**: the include probe
    (`main` → `a` → `b` → `c`, see `HL.Settings.includeProbe`) as a loader with an empty cache
    answers it. -/
def includeVerdict (L D : Int) : Bool × Bool :=
  let r := HL.Settings.includeProbe [] L D
  (r.1, r.2.1)

/-- docs/configuration.md, "Features": the requests each switch stands for (LSP method names),
    with the switch and whether the fixed probe of that request has a non-empty answer whenever
    it is answered (code actions need a hledger executable, which the probe does not assume);
    then two requests no switch governs. -/
def featureRequests : List (String × (Settings → Bool) × Bool) := [
  ("textDocument/hover", (·.features.hover), true),
  ("textDocument/completion", (·.features.completion), true),
  ("textDocument/formatting", (·.features.formatting), true),
  ("textDocument/semanticTokens/full", (·.features.semanticTokens), true),
  ("textDocument/semanticTokens/full/delta", (·.features.semanticTokens), true),
  ("textDocument/semanticTokens/range", (·.features.semanticTokens), true),
  ("textDocument/codeAction", (·.features.codeActions), false),
  ("textDocument/foldingRange", (·.features.foldingRanges), true),
  ("textDocument/documentLink", (·.features.documentLinks), true),
  ("workspace/symbol", (·.features.workspaceSymbol), true),
  ("textDocument/definition", fun _ => true, true),
  ("textDocument/documentSymbol", fun _ => true, true)]

/-- **The statement, for the feature switches**: a request of a switched-off feature gets the
    empty answer; a switched-on one is answered as ever. -/
def gateWord (on nonEmpty : Bool) : String :=
  if !on then "null" else if nonEmpty then "answered" else "passed"

def expectedGate (s : Settings) : List (String × String) :=
  featureRequests.map fun (m, sw, ne) => (m, gateWord (sw s) ne)

/-- `client`: the server has a client to publish to; `verdict L D`: what the include probe
    reports (depth limit exceeded, included file too large).  No handler fails, for any
    settings. -/
def expectedObsAt (s : Settings) (client : Bool) (verdict : Int → Int → Bool × Bool) : Obs :=
  let mr := s.completion.maxResults
  let cap (n : Int) : Int := if 0 < mr then imin n mr else n
  let ind := s.formatting.indentSize
  let mac := s.formatting.minAlignmentColumn
  let diag := s.features.diagnostics
  let L := s.limits.maxFileSizeBytes
  let D := s.limits.maxIncludeDepth
  let loads := client && diag
  let (dep, big) := if loads then verdict L D else (false, false)
  { completionItems := if !s.features.completion then 0 else cap (if s.completion.fuzzyMatching then 8 else 6)
    subsequenceItems := if !s.features.completion then 0 else cap (if s.completion.fuzzyMatching then 8 else 0)
    countsShown := s.features.completion && s.completion.showCounts
    format :=
      if widthSkipped ind || widthSkipped mac then none
      else if !s.features.formatting then some (some (2, 7))   -- no edits: the document as it was
      else some (some (ind,
        if s.formatting.alignAmounts then imax (ind + 13 + 2) (if 0 < mac then mac else 0)
        else ind + 3 + 2))
    gate := expectedGate s
    inline :=
      if widthSkipped ind then none
      else if !s.features.inlineCompletion then some (some (0, -1))
      else some (some (1, ind))
    published := if client then 1 else 0
    codes := if !loads then [] else
      (if s.diagnostics.unbalancedTransactions then ["UNBALANCED"] else []) ++
      (if s.diagnostics.undeclaredAccounts then ["UNDECLARED_ACCOUNT"] else []) ++
      (if s.diagnostics.undeclaredCommodities then ["UNDECLARED_COMMODITY"] else [])
    docTooLarge := loads && decide (L < diagDocBytes)
    depthExceeded := dep
    includeTooLarge := big }

/-- **The statement**: the probes show the stored settings in effect. -/
def expectedObs (s : Settings) (client : Bool) : Obs := expectedObsAt s client includeVerdict

end HL.SettingsSpec
