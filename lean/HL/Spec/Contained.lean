/-
  Specification for C07: a syntax error stays contained in its own entry.

  `before` / `after` describe what the server understands of the intact journal J and of the
  damaged journal J' (the lines `first..last` (0-based) of one entry replaced by `k` lines):
  every top-level entry with its 1-based start line and a position-independent signature
  (its content with all ranges re-based on the entry's own start), the lines of syntax
  errors, and the per-transaction diagnostics.
-/
namespace HL.Contained

structure EntryView where
  line : Nat
  sig : String
deriving Repr, BEq, DecidableEq

structure Diag where
  line : Nat
  code : String
  msg : String
deriving Repr, BEq, DecidableEq

structure View where
  entries : List EntryView
  errors : List Nat
  diags : List Diag
deriving Repr

/-- 1-based line `l` lies in the damaged region of J'. -/
def inRegion (first k l : Nat) : Bool := first + 1 ≤ l && l ≤ first + k

/-- 1-based line `l` of J belongs to the entry that gets damaged. -/
def inEntry (first last l : Nat) : Bool := first + 1 ≤ l && l ≤ last + 1

/-- Where a line of J outside the damaged entry ends up in J'. -/
def shift (first last k l : Nat) : Nat :=
  if l > last + 1 then l + k - (last - first + 1) else l

/-- `contained`: every other entry is still recognised with the same content at its shifted
    position (and nothing else is recognised outside the damaged region), syntax errors lie on
    lines of the damaged entry only, and the other entries keep exactly their own diagnostics. -/
def contained (first last k : Nat) (before after : View) : Bool :=
  let others := before.entries.filter fun e => !inEntry first last e.line
  let expected := others.map fun e => (⟨shift first last k e.line, e.sig⟩ : EntryView)
  let got := after.entries.filter fun e => !inRegion first k e.line
  let dOthers := before.diags.filter fun d => !inEntry first last d.line
  let dExpected := dOthers.map fun d => (⟨shift first last k d.line, d.code, d.msg⟩ : Diag)
  let dGot := after.diags.filter fun d => !inRegion first k d.line
  expected == got && after.errors.all (inRegion first k) && dExpected == dGot

def why (first last k : Nat) (before after : View) : String :=
  let others := before.entries.filter fun e => !inEntry first last e.line
  let expected := others.map fun e => (⟨shift first last k e.line, e.sig⟩ : EntryView)
  let got := after.entries.filter fun e => !inRegion first k e.line
  if expected != got then
    s!"entries outside the damaged lines changed: expected start lines {expected.map (·.line)}, got {got.map (·.line)}"
  else if !(after.errors.all (inRegion first k)) then
    s!"syntax error outside the damaged entry: error lines {after.errors}, damaged lines {first + 1}..{first + k}"
  else "diagnostics of an undamaged entry changed"

end HL.Contained
