/-
  Specification for C07: a syntax error stays contained in its own entry.

  `before` / `after` describe what the server understands of the intact journal J and of the
  damaged journal J' (the lines `first..last` (0-based) of one entry replaced by `k` lines):
  every top-level entry with its 1-based start line and a position-independent signature
  (its content with all ranges re-based on the entry's own start), the lines of syntax
  errors, and the per-transaction diagnostics.
-/
namespace HL.Contained

structure EntryView where
  line : Nat
  sig : String
deriving Repr, BEq, DecidableEq

structure Diag where
  line : Nat
  code : String
  msg : String
deriving Repr, BEq, DecidableEq

structure View where
  entries : List EntryView
  errors : List Nat
  diags : List Diag
deriving Repr

/-- 1-based line `l` lies in the damaged region of J'. -/
def inRegion (first k l : Nat) : Bool := first + 1 ≤ l && l ≤ first + k

/-- 1-based line `l` of J belongs to the entry that gets damaged. -/
def inEntry (first last l : Nat) : Bool := first + 1 ≤ l && l ≤ last + 1

/-- Where a line of J outside the damaged entry ends up in J'. -/
def shift (first last k l : Nat) : Nat :=
  if l > last + 1 then l + k - (last - first + 1) else l

/-- `contained`: every other entry is still recognised with the same content at its shifted
    position (and nothing else is recognised outside the damaged region), syntax errors lie on
    lines of the damaged entry only, and the other entries keep exactly their own diagnostics. -/
def contained (first last k : Nat) (before after : View) : Bool :=
  let others := before.entries.filter fun e => !inEntry first last e.line
  let expected := others.map fun e => (⟨shift first last k e.line, e.sig⟩ : EntryView)
  let got := after.entries.filter fun e => !inRegion first k e.line
  let dOthers := before.diags.filter fun d => !inEntry first last d.line
  let dExpected := dOthers.map fun d => (⟨shift first last k d.line, d.code, d.msg⟩ : Diag)
  let dGot := after.diags.filter fun d => !inRegion first k d.line
  expected == got && after.errors.all (inRegion first k) && dExpected == dGot

def why (first last k : Nat) (before after : View) : String :=
  let others := before.entries.filter fun e => !inEntry first last e.line
  let expected := others.map fun e => (⟨shift first last k e.line, e.sig⟩ : EntryView)
  let got := after.entries.filter fun e => !inRegion first k e.line
  if expected != got then
    s!"entries outside the damaged lines changed: expected start lines {expected.map (·.line)}, got {got.map (·.line)}"
  else if !(after.errors.all (inRegion first k)) then
    s!"syntax error outside the damaged entry: error lines {after.errors}, damaged lines {first + 1}..{first + k}"
  else "diagnostics of an undamaged entry changed"

/-- `containedTight`: the form of `contained` for journals whose entries are NOT separated by
    blank lines (stacked `P` lines, transactions directly below one another).  A line that starts
    in column 1 always starts a new entry, so whatever the damage is, every entry AFTER the
    damaged one is still recognised with the same content at its shifted position, nothing else
    is recognised there, no syntax error and no foreign diagnostic lies there
    (`HL.Props.C07.blank_line_closes` for arbitrary damaged tokens).  Entries BEFORE the damaged
    one are protected only while the damaged entry still starts in column 1 (`col1`; an indented
    first line legitimately continues the entry above, `HL.Props.C07.C07_prefix_partial`). -/
def containedTight (first last k : Nat) (col1 : Bool) (before after : View) : Bool :=
  let sufE := (before.entries.filter fun e => e.line > last + 1).map fun e => (⟨shift first last k e.line, e.sig⟩ : EntryView)
  let sufG := after.entries.filter fun e => e.line > first + k
  let sufD := (before.diags.filter fun d => d.line > last + 1).map fun d => (⟨shift first last k d.line, d.code, d.msg⟩ : Diag)
  let sufDG := after.diags.filter fun d => d.line > first + k
  let preE := before.entries.filter fun e => e.line ≤ first
  let preG := after.entries.filter fun e => e.line ≤ first
  let preD := before.diags.filter fun d => d.line ≤ first
  let preDG := after.diags.filter fun d => d.line ≤ first
  sufE == sufG && sufD == sufDG && after.errors.all (fun l => l ≤ first + k) &&
    (!col1 || (preE == preG && preD == preDG && after.errors.all (inRegion first k)))

def whyTight (first last k : Nat) (col1 : Bool) (before after : View) : String :=
  let sufE := (before.entries.filter fun e => e.line > last + 1).map fun e => (⟨shift first last k e.line, e.sig⟩ : EntryView)
  let sufG := after.entries.filter fun e => e.line > first + k
  if sufE != sufG then
    s!"entries after the damaged entry changed: expected start lines {sufE.map (·.line)}, got {sufG.map (·.line)}"
  else if !(after.errors.all (fun l => l ≤ first + k)) then
    s!"syntax error after the damaged entry: error lines {after.errors}, damaged lines {first + 1}..{first + k}"
  else if col1 && (before.entries.filter fun e => e.line ≤ first) != (after.entries.filter fun e => e.line ≤ first) then
    "entries before the damaged entry changed although it still starts in column 1"
  else "diagnostics or error lines of an undamaged entry changed"

end HL.Contained
