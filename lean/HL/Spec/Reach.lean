/-
  Specification side of C10 / C11.

  * `Edge`, `Loadable`, `Reach` : the include graph and reachability in it, declaratively.
  * `dfs` : the textbook depth-first traversal with an explicit ancestor stack and a set of
    files already entered.  No cache, no fuel (the depth budget is the recursion argument),
    no modes.  A cycle error is produced exactly when the target of a directive is on the
    stack (a back edge); a file met again off the stack is skipped silently; a missing,
    oversized or too-deep file gives one error on the directive naming it, and the traversal
    goes on with the next directive.  This is the executable oracle of the correspondence
    check (`spec_ok`).
  * `fresh` : what a brand-new loader returns for the files as they are now (C11).

  The spec shares with the model only the data types and `items` (the flattening of one
  file's directives into targets and directive-level errors).
-/
import HL.Model.Loader
namespace HL.Reach
open HL HL.Loader

/-! ### The include graph -/

section
variable (fs : FS) (lim : Limits) (root : Path) (rf : File)

/-- The content one load sees at `p`: the root's is given (`LoadFromContent`), the rest is on disk. -/
def fileOf (p : Path) : Option File := if p = root then some rf else fs p

/-- Directive `i` of file `f` names `g`. -/
def Names (f : Path) (i : Inc) (g : Path) : Prop :=
  i.tgt = .file g ∨ ∃ ms, i.tgt = .glob ms ∧ g ∈ ms ∧ (fs g).isSome = true ∧ g ≠ f

/-- `f` has an include directive naming `g`. -/
def Edge (f g : Path) : Prop :=
  ∃ file, fileOf fs root rf f = some file ∧ ∃ i ∈ file.incs, Names fs f i g

/-- `g` can be loaded: it exists and is within the size limit. -/
def Loadable (g : Path) : Prop := ∃ fg, fs g = some fg ∧ fg.size ≤ lim.maxSize

/-- Files reachable from the root through include directives. -/
inductive Reach : Path → Prop where
  | root : Reach root
  | step {f g} : Reach f → Edge fs root rf f g → Loadable fs lim g → Reach g

/-- `l = [fₖ, …, f₁, f₀]` is a chain of include directives `f₀ → f₁ → … → fₖ`. -/
def Chain : List Path → Prop
  | [] => True
  | [_] => True
  | g :: f :: rest => Edge fs root rf f g ∧ Chain (f :: rest)

/-- `g` can be entered by the traversal: it is the root, or it can be loaded. -/
def Enterable (g : Path) : Prop := g = root ∨ Loadable fs lim g

/-- an include directive of `f` names `g`, and `g` can be entered -/
def EdgeL (f g : Path) : Prop := Edge fs root rf f g ∧ Enterable fs lim root g

/-- `a` leads to `b` through include directives between files that can be entered
    (reflexive, transitive). -/
inductive LeadsL : Path → Path → Prop where
  | refl (a : Path) : LeadsL a a
  | tail {a b c : Path} : LeadsL a b → EdgeL fs lim root rf b c → LeadsL a c

/-- `a` lies on a cycle of include directives. -/
def OnCycle (a : Path) : Prop := ∃ b, EdgeL fs lim root rf a b ∧ LeadsL fs lim root rf b a

/-- What it means for a diagnostic to be in the right place.  Every error belongs to a file `b`
    that is reachable from the root; an error about an included file `g` carries the range of a
    directive of `b` that names `g`, and the reason it gives is true:
    * cycle — following the directive re-enters `g`, from which `b` is being included
      (`g` leads back to `b`: the directive closes a real cycle);
    * not found / too large — `g` is missing, or exceeds the size limit;
    * depth — `g` could be loaded but lies deeper than the limit allows;
    * path traversal / glob without match / bad pattern — carried by the directive itself;
    * parse error — at the position the parser gave, in `b`. -/
inductive Located : Err → Prop where
  | cycle {b g : Path} {fb : File} {i : Inc} : Reach fs lim root rf b → fileOf fs root rf b = some fb →
      i ∈ fb.incs → Names fs b i g → Enterable fs lim root g → LeadsL fs lim root rf g b →
      Located ⟨.cycle, g, "", i.rng, some b⟩
  | notFound {b g : Path} {fb : File} {i : Inc} : Reach fs lim root rf b → fileOf fs root rf b = some fb →
      i ∈ fb.incs → Names fs b i g → fs g = none → Located ⟨.notFound, g, "", i.rng, none⟩
  | tooLarge {b g : Path} {fb fg : File} {i : Inc} : Reach fs lim root rf b → fileOf fs root rf b = some fb →
      i ∈ fb.incs → Names fs b i g → fs g = some fg → lim.maxSize < fg.size →
      Located ⟨.tooLarge, g, "", i.rng, none⟩
  | depth {b g : Path} {fb : File} {i : Inc} : Reach fs lim root rf b → fileOf fs root rf b = some fb →
      i ∈ fb.incs → Names fs b i g → Loadable fs lim g → Located ⟨.depth, g, "", i.rng, none⟩
  | directive {b : Path} {fb : File} {i : Inc} {k : Kind} : Reach fs lim root rf b →
      fileOf fs root rf b = some fb → i ∈ fb.incs →
      (k = .traversal ∨ k = .globNoMatch ∨ k = .globBad) → Located ⟨k, 0, i.raw, i.rng, none⟩
  | parse {b : Path} {fb : File} {pos : Pos} : Reach fs lim root rf b → fileOf fs root rf b = some fb →
      pos ∈ fb.perrs → Located (parseErr b pos)

end

/-! ### Depth-first traversal -/

structure Out where
  /-- files entered below the start, in first-visit order -/
  order : List Path
  errs : List Err
  /-- every file entered so far -/
  seen : List Path
deriving Repr, DecidableEq, Inhabited

section
variable (fs : FS) (lim : Limits)

/-- Follow one directive target `g` of file `f`; `stk` is the ancestor stack with `f` on top. -/
def follow (rec : Path → File → List Path → List Path → Out) (canDescend : Bool)
    (f : Path) (stk : List Path) (rng : Rng) (g : Path) (o : Out) : Out :=
  if stk.contains g then { o with errs := o.errs ++ [⟨.cycle, g, "", rng, some f⟩] }
  else if o.seen.contains g then o
  else match fs g with
    | none => { o with errs := o.errs ++ [⟨.notFound, g, "", rng, none⟩] }
    | some fg =>
      if fg.size > lim.maxSize then { o with errs := o.errs ++ [⟨.tooLarge, g, "", rng, none⟩] }
      else if !canDescend then { o with errs := o.errs ++ [⟨.depth, g, "", rng, none⟩] }
      else
        let sub := rec g fg stk o.seen
        { order := o.order ++ g :: sub.order, errs := o.errs ++ sub.errs, seen := sub.seen }

def visitItems (rec : Path → File → List Path → List Path → Out) (canDescend : Bool)
    (f : Path) (stk : List Path) : List Item → Out → Out
  | [], o => o
  | .err e :: rest, o => visitItems rec canDescend f stk rest { o with errs := o.errs ++ [e] }
  | .tgt rng g :: rest, o =>
    visitItems rec canDescend f stk rest (follow fs lim rec canDescend f stk rng g o)

/-- Enter `f` (content `file`) below the ancestors `stk`; `budget` further levels may be entered. -/
def visit : Nat → Path → File → List Path → List Path → Out
  | 0, f, file, stk, seen =>
    visitItems fs lim (fun _ _ _ s => ⟨[], [], s⟩) false f (f :: stk) (items fs f file)
      ⟨[], file.perrs.map (parseErr f), f :: seen⟩
  | b + 1, f, file, stk, seen =>
    visitItems fs lim (visit b) true f (f :: stk) (items fs f file)
      ⟨[], file.perrs.map (parseErr f), f :: seen⟩

/-- The traversal from a root whose content is `rf`.  `maxDepth` files may be nested. -/
def dfs (root : Path) (rf : File) : Out := visit fs lim (lim.maxDepth - 1) root rf [] []

/-- What the property expects of `LoadFromContent(root, content)`: order of files and errors
    (`none` = no journal at all, only for an oversized root). -/
def expectContent (root : Path) (rf : File) : Option (List Path) × List Err :=
  if rf.size > lim.maxSize then (none, [⟨.tooLarge, root, "", Rng.zero, none⟩])
  else let o := dfs fs lim root rf; (some o.order, o.errs)

/-- What the property expects of `Load(root)`. -/
def expect (root : Path) : Option (List Path) × List Err :=
  match fs root with
  | none => (none, [⟨.notFound, root, "", Rng.zero, none⟩])
  | some rf => expectContent fs lim root rf

/-- C11: a brand-new loader (same code, empty cache) on the current files. -/
def fresh (m : Mode) (root : Path) : Result := load fs lim m [] root
def freshContent (m : Mode) (root : Path) (rf : File) : Result := loadFromContent fs lim m [] root rf

end

end HL.Reach
