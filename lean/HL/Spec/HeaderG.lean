/-
  The header grammar of DESIGN 4.2 (the part of a transaction's first line that follows the
  date), as a type with a printer:

    transaction ::= date [ '=' date ] [ ws status ] [ ws '(' code ')' ] [ ws descr ]
                    [ ws? ';' comment ] NL
    descr       ::= text | payee ws? '|' ws? note

  `Header` carries every spacing choice explicitly (a `ws` is any run of blanks and tabs, also
  around the `=` of the secondary date, where hledger accepts none; runs may be empty wherever
  the lexer does not need them).  `Header.wf` is the decidable well-formedness predicate:
  what makes `payee` the payee of the printed line.  The date itself is not part of `Header`:
  the theorems take the text of the line up to the end of the date as an arbitrary prefix, so
  every date form (`Y-M-D`, `Y/M/D`, `Y.M.D`, one- or two-digit month and day, `M-D` under a
  `Y` directive) is covered, as is a transaction that does not start in column 1.
-/
import HL.Model.PayeeRange
namespace HL.Spec.HeaderG
open HL HL.Text HL.PayeeRange

structure Header where
  /-- blanks before `=`, blanks after `=`, the secondary date -/
  date2 : Option (Txt × Txt × Txt) := none
  /-- blanks, the status mark -/
  status : Option (Txt × Char) := none
  /-- blanks, the code without its parentheses -/
  code : Option (Txt × Txt) := none
  /-- blanks before the description -/
  gap : Txt
  /-- the payee when the description is `payee | note`, the whole description otherwise -/
  payee : Txt
  /-- blanks, `|`, blanks, the note -/
  note : Option (Txt × Txt × Txt) := none
  /-- blanks, `;`, the comment -/
  comment : Option (Txt × Txt) := none
deriving Repr, DecidableEq, Inhabited

def date2Part : Option (Txt × Txt × Txt) → Txt
  | none => []
  | some (b0, b1, d) => b0 ++ '=' :: (b1 ++ d)

def statusPart : Option (Txt × Char) → Txt
  | none => []
  | some (b, m) => b ++ [m]

def codePart : Option (Txt × Txt) → Txt
  | none => []
  | some (b, c) => b ++ '(' :: (c ++ [')'])

def notePart : Option (Txt × Txt × Txt) → Txt
  | none => []
  | some (b0, b1, n) => b0 ++ '|' :: (b1 ++ n)

def commentPart : Option (Txt × Txt) → Txt
  | none => []
  | some (b, c) => b ++ ';' :: c

/-- Everything between the date and the payee. -/
def Header.lead (h : Header) : Txt :=
  date2Part h.date2 ++ (statusPart h.status ++ (codePart h.code ++ h.gap))

/-- Everything after the payee. -/
def Header.tail (h : Header) : Txt := notePart h.note ++ commentPart h.comment

/-- The header line from the end of the date on. -/
def Header.print (h : Header) : Txt := h.lead ++ (h.payee ++ h.tail)

def blanks (b : Txt) : Bool := b.all isBlank

/-- What follows the secondary date. -/
def Header.afterDate2 (h : Header) : Txt :=
  statusPart h.status ++ (codePart h.code ++ (h.gap ++ h.payee))

/-- `text, payee, note ::= chars, none of ';' '|' NL, first and last not blank; first char not
    '(' '*' '!' '='`  (white space in the sense of `strings.TrimSpace`). -/
def textOK (p : Txt) : Bool :=
  (match p.head? with
   | none => false
   | some c => !isSpace c && c != '=' && c != '*' && c != '!' && c != '(') &&
  (match p.getLast? with
   | none => false
   | some c => !isSpace c) &&
  p.all fun c => c != ';' && c != '|' && c != '\n'

def Header.wf (h : Header) : Bool :=
  (match h.date2 with
   | none => true
   | some (b0, b1, d) =>
     blanks b0 && blanks b1 && d.all isDateRune && (d.head?.map isDigit).getD false &&
     -- the secondary date ends where the line says it does
     (h.afterDate2.head?.map fun c => !isDateRune c).getD true) &&
  (match h.status with
   | none => true
   | some (b, m) => blanks b && (m == '*' || m == '!')) &&
  (match h.code with
   | none => true
   | some (b, c) => blanks b && c.all fun x => x != ')' && x != '\n') &&
  blanks h.gap && textOK h.payee &&
  (match h.note with
   | none => true
   | some (b0, b1, n) => blanks b0 && blanks b1 && n.all fun c => c != ';' && c != '\n') &&
  (match h.comment with
   | none => true
   | some (b, c) => blanks b && c.all fun x => x != '\n')

end HL.Spec.HeaderG
