import HL.Model.Ast
/-!
  "The same tree up to positions": `eraseJournal` sets every source range of a syntax tree to
  zero and keeps everything else — dates, descriptions, account names, quantities (coefficient
  and exponent, not merely their value), raw spellings, commodity symbols and sides, comments,
  tags, directives.  Two trees with equal erasures differ in nothing but where their parts stood
  in the text.  (Stricter than `HL.Meaning.journalEqv`, which compares quantities as rationals
  and comments modulo blanks.)
-/
namespace HL.Erase
open HL HL.Ast

def tag (t : Tag) : Tag := { t with range := Rng.zero }
def comment (c : Comment) : Comment := { c with tags := c.tags.map tag, range := Rng.zero }
def date (d : Date) : Date := { d with range := Rng.zero }
def account (a : Account) : Account := { a with range := Rng.zero }
def commodity (c : Commodity) : Commodity := { c with range := Rng.zero }
def amount (a : Amount) : Amount := { a with commodity := commodity a.commodity, range := Rng.zero }
def cost (c : Cost) : Cost := { c with amount := amount c.amount, range := Rng.zero }
def assertion (a : Assertion) : Assertion := { a with amount := amount a.amount, range := Rng.zero }

def posting (p : Posting) : Posting :=
  { p with account := account p.account, amount := p.amount.map amount, assertion := p.assertion.map assertion,
           cost := p.cost.map cost, tags := p.tags.map tag, range := Rng.zero }

def transaction (t : Transaction) : Transaction :=
  { t with date := date t.date, date2 := t.date2.map date, postings := t.postings.map posting,
           tags := t.tags.map tag, comments := t.comments.map comment, range := Rng.zero }

def include_ (i : Include) : Include := { i with range := Rng.zero }

def directive : Directive → Directive
  | .account a t c s _ => .account (account a) (t.map tag) c s Rng.zero
  | .commodity c f n s _ => .commodity (commodity c) f n s Rng.zero
  | .price d c p _ => .price (date d) (commodity c) (amount p) Rng.zero
  | .year y _ => .year y Rng.zero
  | .defaultCommodity s f _ => .defaultCommodity s f Rng.zero

/-- the tree without its positions -/
def journal (j : Journal) : Journal :=
  ⟨j.transactions.map transaction, j.directives.map directive, j.comments.map comment, j.includes.map include_⟩

end HL.Erase
