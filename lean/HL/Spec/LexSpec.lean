import HL.Model.Ast
/-!
  Executable oracle for the lexer sentence of C06, written against the property text and
  independent of the model: "Tokenisation always makes progress: tokens cover the input left to
  right without overlap, stay inside it and end with end-of-input" — plus C07's lexical premise:
  every LF byte is exactly one Newline token.  Applied by the driver to the token stream the
  *implementation* produced (`lex.tokens`).
-/
namespace HL.Spec.LexSpec
open HL

/-- left to right, no overlap, inside the input, progress (every token ends strictly behind the
    previous one), and the stream ends with one EOF token at `n`. -/
def ordered (n : Nat) : Nat → List Token → Bool
  | _, [] => false
  | prev, [t] => t.ty == .eof && prev ≤ t.pos.off && t.pos.off == n && t.stop.off == n
  | prev, t :: rest =>
    t.ty != .eof && prev ≤ t.pos.off && t.pos.off ≤ t.stop.off && prev < t.stop.off &&
    t.stop.off ≤ n && ordered n t.stop.off rest

def isPunct (t : Token) : Bool :=
  t.ty == .lparen || t.ty == .rparen || t.ty == .lbracket || t.ty == .rbracket || t.ty == .pipe

/-- First covered offset of a token.  With `lenient`, an *empty* one-character punctuation
    token sitting directly behind its character is taken to cover that character
    (known finding `punct-empty-extent`). -/
def startOf (lenient : Bool) (input : Bytes) (prev : Nat) (t : Token) : Nat :=
  if lenient && isPunct t && t.pos.off == t.stop.off && prev < t.pos.off &&
      t.val == [input.getD (t.pos.off - 1) 0] then t.pos.off - 1
  else t.pos.off

/-- Bytes of the input not covered by any token extent. -/
def gaps (lenient : Bool) (input : Bytes) : Nat → List Token → Bytes
  | prev, [] => input.drop prev
  | prev, t :: rest =>
    (input.drop prev).take (startOf lenient input prev t - prev) ++ gaps lenient input t.stop.off rest

def covered (lenient : Bool) (input : Bytes) (toks : List Token) : Bool :=
  (gaps lenient input 0 toks).all (· == 0x20)

/-- Offsets of the LF bytes of `rest`, which starts at offset `i`. -/
def lfOffsetsFrom : Nat → Bytes → List Nat
  | _, [] => []
  | i, c :: t => if c == 0x0A then i :: lfOffsetsFrom (i + 1) t else lfOffsetsFrom (i + 1) t

/-- Offsets of the LF bytes of the input. -/
def lfOffsets (input : Bytes) : List Nat := lfOffsetsFrom 0 input

def newlineOffsets (toks : List Token) : List Nat :=
  (toks.filter (fun t => t.ty == .newline)).map (·.pos.off)

/-- Line numbers: a token's line is 1 + the number of LF bytes before its offset. -/
def linesOk (input : Bytes) (toks : List Token) : Bool :=
  toks.all fun t => t.pos.line == 1 + ((input.take t.pos.off).filter (· == 0x0A)).length

structure Verdict where
  ok : Bool
  why : String
  known : List String := []

def judge (input : Bytes) (toks : List Token) : Verdict :=
  if !ordered input.length 0 toks then
    ⟨false, "token extents overlap, run backwards, make no progress, leave the input, or the stream does not end with EOF at |input|", []⟩
  else if newlineOffsets toks != lfOffsets input then ⟨false, "Newline tokens are not exactly the LF bytes", []⟩
  else if !(toks.all fun t => t.ty != .newline ||
      (t.stop.off == t.pos.off + 1 && t.stop.line == t.pos.line + 1 && t.stop.col == 1)) then
    ⟨false, "a Newline token does not span exactly one byte / one line", []⟩
  else if !linesOk input toks then ⟨false, "token line number differs from 1 + number of LF bytes before it", []⟩
  else if !covered true input toks then ⟨false, "bytes other than blanks are not covered by any token", []⟩
  else if !covered false input toks then
    ⟨false, "a one-character token ( ) [ ] | has an empty extent behind its character, which no token covers", ["punct-empty-extent"]⟩
  else ⟨true, "", []⟩

end HL.Spec.LexSpec
