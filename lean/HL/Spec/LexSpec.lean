import HL.Model.Ast
import HL.Model.Utf8
import HL.Model.Classes
/-!
  Executable oracle for the lexer sentence of C06, written against the property text and
  independent of the model: "Tokenisation always makes progress: tokens cover the input left to
  right without overlap, stay inside it and end with end-of-input" — plus C07's lexical premise:
  every LF byte is exactly one Newline token (the token is the line end: the LF, together with
  the CR directly in front of it if there is one).  Applied by the driver to the token stream the
  *implementation* produced (`lex.tokens`).
-/
namespace HL.Spec.LexSpec
open HL

/-- left to right, no overlap, inside the input, every token but the EOF non-empty (progress),
    and the stream ends with one EOF token at `n`. -/
def ordered (n : Nat) : Nat → List Token → Bool
  | _, [] => false
  | prev, [t] => t.ty == .eof && prev ≤ t.pos.off && t.pos.off == n && t.stop.off == n
  | prev, t :: rest =>
    t.ty != .eof && prev ≤ t.pos.off && t.pos.off < t.stop.off && t.stop.off ≤ n &&
    ordered n t.stop.off rest

/-- Bytes of the input not covered by any token extent `[Pos.off, End.off)`. -/
def gaps (input : Bytes) : Nat → List Token → Bytes
  | prev, [] => input.drop prev
  | prev, t :: rest => (input.drop prev).take (t.pos.off - prev) ++ gaps input t.stop.off rest

/-- The gaps and the token extents, in order. -/
def pieces (input : Bytes) : Nat → List Token → Bytes
  | prev, [] => input.drop prev
  | prev, t :: rest =>
    (input.drop prev).take (t.pos.off - prev) ++ (input.drop t.pos.off).take (t.stop.off - t.pos.off) ++
      pieces input t.stop.off rest

/-- a byte that may lie between two tokens: blank or tab -/
def isGapByte (c : UInt8) : Bool := c == 0x20 || c == 0x09

/-- every rune of `s`, decoded from left to right, is white space (`unicode.IsSpace`) -/
def wsOnlyF : Nat → Bytes → Bool
  | 0, s => s.isEmpty
  | _, [] => true
  | n+1, b :: t =>
    let (r, w) := HL.Utf8.decodeRune (b :: t)
    isSpaceRune r && wsOnlyF n ((b :: t).drop w)
def wsOnly (s : Bytes) : Bool := wsOnlyF s.length s

/-- What may lie between the End of a token of type `prev` (`none`: the start of the input) and
    the Pos of the next one: blanks and tabs, the bytes `skipSpaces` steps over.  Behind a Text
    token, whose value is trimmed with `strings.TrimSpace` and which ends with its value: white
    space. -/
def gapOk (prev : Option TokType) (gap : Bytes) : Bool :=
  if prev == some .text then wsOnly gap else gap.all isGapByte

def gapsOk (input : Bytes) : Option TokType → Nat → List Token → Bool
  | ty, prev, [] => gapOk ty (input.drop prev)
  | ty, prev, t :: rest =>
    gapOk ty ((input.drop prev).take (t.pos.off - prev)) && gapsOk input (some t.ty) t.stop.off rest

/-- Cover: what no token covers is blanks and tabs — behind a Text token, white space. -/
def covered (input : Bytes) (toks : List Token) : Bool := gapsOk input none 0 toks

/-- Offsets of the LF bytes of `rest`, which starts at offset `i`. -/
def lfOffsetsFrom : Nat → Bytes → List Nat
  | _, [] => []
  | i, c :: t => if c == 0x0A then i :: lfOffsetsFrom (i + 1) t else lfOffsetsFrom (i + 1) t

/-- Offsets of the LF bytes of the input. -/
def lfOffsets (input : Bytes) : List Nat := lfOffsetsFrom 0 input

/-- Offsets of the bytes the Newline tokens end with (the last byte of each token's extent). -/
def newlineOffsets (toks : List Token) : List Nat :=
  (toks.filter (fun t => t.ty == .newline)).map (·.stop.off - 1)

/-- A Newline token is one line end: it spans one byte, or two bytes of which the first is a
    carriage return (that its last byte is a line feed is `newlineOffsets = lfOffsets`), and it
    ends at column 1 of the next line. -/
def newlineShape (input : Bytes) (t : Token) : Bool :=
  (t.stop.off == t.pos.off + 1 || (t.stop.off == t.pos.off + 2 && input[t.pos.off]? == some 0x0D)) &&
  t.stop.line == t.pos.line + 1 && t.stop.col == 1

/-- Line numbers: a token's line is 1 + the number of LF bytes before its offset. -/
def linesOk (input : Bytes) (toks : List Token) : Bool :=
  toks.all fun t => t.pos.line == 1 + ((input.take t.pos.off).filter (· == 0x0A)).length

structure Verdict where
  ok : Bool
  why : String

def judge (input : Bytes) (toks : List Token) : Verdict :=
  if !ordered input.length 0 toks then
    ⟨false, "token extents overlap, run backwards, are empty, leave the input, or the stream does not end with EOF at |input|"⟩
  else if newlineOffsets toks != lfOffsets input then ⟨false, "Newline tokens do not end at exactly the LF bytes"⟩
  else if !(toks.all fun t => t.ty != .newline || newlineShape input t) then
    ⟨false, "a Newline token does not span exactly one line end (LF or CR LF) / one line"⟩
  else if !linesOk input toks then ⟨false, "token line number differs from 1 + number of LF bytes before it"⟩
  else if !covered input toks then ⟨false, "bytes other than blanks and tabs (behind a text token: white space) are not covered by any token"⟩
  else ⟨true, ""⟩

end HL.Spec.LexSpec
