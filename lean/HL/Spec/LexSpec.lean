import HL.Model.Ast
/-!
  Executable oracle for the lexer sentence of C06, written against the property text and
  independent of the model: "tokens cover the input left to right without overlap, stay inside
  it and end with end-of-input" — plus C07's lexical premise: every LF byte is exactly one
  Newline token.  Applied by the driver to the token stream the *implementation* produced.
-/
namespace HL.Spec.LexSpec
open HL

/-- Offsets are ordered inside each token, tokens do not overlap and never run backwards,
    every non-EOF token is non-empty (progress), nothing lies beyond `n`. -/
def ordered (n : Nat) : Nat → List Token → Bool
  | _, [] => false                                  -- the stream must end with EOF
  | prev, [t] => t.ty == .eof && prev ≤ t.pos.off && t.pos.off == n && t.stop.off == n
  | prev, t :: rest =>
    t.ty != .eof && prev ≤ t.pos.off && t.pos.off < t.stop.off && t.stop.off ≤ n &&
    ordered n t.stop.off rest

/-- Bytes of the input not covered by any token extent. -/
def gaps (input : Bytes) : Nat → List Token → Bytes
  | prev, [] => input.drop prev
  | prev, t :: rest => (input.drop prev).take (t.pos.off - prev) ++ gaps input t.stop.off rest

/-- Offsets of the LF bytes of the input. -/
def lfOffsets (input : Bytes) : List Nat :=
  (input.zipIdx.filter (fun p => p.1 == 0x0A)).map (·.2)

def newlineOffsets (toks : List Token) : List Nat :=
  (toks.filter (fun t => t.ty == .newline)).map (·.pos.off)

/-- Line numbers: a token's line is 1 + the number of LF bytes before its offset. -/
def linesOk (input : Bytes) (toks : List Token) : Bool :=
  toks.all fun t => t.pos.line == 1 + ((input.take t.pos.off).filter (· == 0x0A)).length

structure Verdict where
  ok : Bool
  why : String

def judge (input : Bytes) (toks : List Token) : Verdict :=
  if !ordered input.length 0 toks then ⟨false, "token extents overlap, run backwards, are empty, leave the input or the stream does not end with EOF at |input|"⟩
  else if !(gaps input 0 toks).all (· == 0x20) then ⟨false, "bytes other than blanks between tokens are not covered by any token"⟩
  else if newlineOffsets toks != lfOffsets input then ⟨false, "Newline tokens are not exactly the LF bytes"⟩
  else if !(toks.all fun t => t.ty != .newline || (t.stop.off == t.pos.off + 1 && t.stop.line == t.pos.line + 1 && t.stop.col == 1)) then
    ⟨false, "a Newline token does not span exactly one byte / one line"⟩
  else if !linesOk input toks then ⟨false, "token line number differs from 1 + number of LF bytes before it"⟩
  else ⟨true, ""⟩

end HL.Spec.LexSpec
