import HL.Model.Workspace
namespace HL.Spec.Rebuild
end HL.Spec.Rebuild
