/-
  Specification for C12: the view of a workspace rebuilt from scratch on given contents.

  It is written directly from the contents (no incremental state): the member files are
  the existing files reachable from the root through include directives of existing
  files; every count is the sum of the members' contributions; the name lists are the
  sorted supports of the counts; the transaction index holds, per key, the members'
  entries (as a multiset); a payee has a template iff some member has one, and it is one
  of the members' templates (`ptOk`; WHICH member's is a choice of the code: the pinned
  code keeps the template of the file indexed last, the repaired code that of the smallest
  path — so, beyond `ptOk`, the driver compares the templates of the implementation's
  incremental view entry by entry with those of the implementation's own rebuild, and
  HL.Props.C12.C12_templates_eq_rebuild proves that equality for the repaired code);
  declared accounts and commodities are the union of the members' directives; commodity
  formats are those of the last directive with a format, reading the root journal first and
  then the other member files in path order (before fix-formats-path-order.diff: in the
  order in which `include.Loader` meets the files, `loadOrder`, which an incrementally
  maintained workspace does not reproduce — `pinned_formats_order_counterexample`).

  `Reach` is the declarative reachability relation; `reach` computes it with the generic
  graph search `bfsF` (proved equivalent in HL/Lemmas/Reach.lean: `mem_reach_iff`).
  `viewOk` is the executable judgement used by the correspondence driver on the
  IMPLEMENTATION's view and by the theorems on the model's view.
-/
import HL.Model.Workspace
namespace HL.Spec.Rebuild
open HL.Index HL.Workspace

/-- include targets of an existing file (a missing file has none). -/
def succs (fs : FS) (p : String) : List String :=
  match fs.get p with
  | some c => c.incs
  | none => []

/-- reachability along a successor function. -/
inductive ReachS (succ : String → List String) (root : String) : String → Prop
  | base : ReachS succ root root
  | step {p q : String} : ReachS succ root p → q ∈ succ p → ReachS succ root q

/-- `p` is reachable from `root` through include directives of existing files. -/
abbrev Reach (fs : FS) (root : String) (p : String) : Prop := ReachS (succs fs) root p

def graphOf (fs : FS) : AList (List String) := fs.map fun e => (e.1, e.2.incs)

def reach (fs : FS) (root : String) : List String :=
  bfsF (graphOf fs) (bfsFuel (graphOf fs)) [root] []

/-- member files of a rebuilt workspace, sorted. -/
def members (fs : FS) (root : String) : List String :=
  isort ((reach fs root).filter fun p => (fs.get p).isSome)

/-- root selection of `Initialize`, restated: `main.journal`, else `.hledger.journal`,
    else the first file (sorted) that no file of the directory includes, else the first file. -/
def rootOf (fs : FS) : String :=
  if (fs.get "main.journal").isSome then "main.journal"
  else if (fs.get ".hledger.journal").isSome then ".hledger.journal"
  else
    let files := isort fs.keys
    match files.filter fun f => !(fs.any fun e => f ∈ e.2.incs) with
    | c :: _ => c
    | [] => files.headD ""

/-! ### sums of contributions -/

/-- total count of `k` in a count list (entries of one key add up). -/
def sumFor (l : AList Nat) (k : String) : Nat := ((l.filter fun e => e.1 = k).map (·.2)).sum

def total (proj : Contrib → AList Nat) (cs : List Contrib) (k : String) : Nat :=
  (cs.map fun c => sumFor (proj c) k).sum

/-- sorted support of a summed counter. -/
def support (proj : Contrib → AList Nat) (cs : List Contrib) : List String :=
  isort (dedup ((cs.flatMap fun c => (proj c).keys).filter fun k => total proj cs k > 0))

def counter (proj : Contrib → AList Nat) (cs : List Contrib) : AList Nat :=
  (support proj cs).map fun k => (k, total proj cs k)

def dateCounts (c : Contrib) : AList Nat := c.dates.map fun d => (d, 1)

/-- the value counts of one tag in a contribution. -/
def tvFlat (t : String) (c : Contrib) : AList Nat := (c.tvc.filter fun e => e.1 = t).flatMap (·.2)

def tvTags (cs : List Contrib) : List String :=
  isort (dedup ((cs.flatMap fun c => c.tvc.keys).filter fun t => support (tvFlat t) cs ≠ []))

def entriesOf (fs : FS) (p : String) : List Entry :=
  match fs.get p with
  | some c => (mkFileIdx p c).entries
  | none => []

/-- the rebuilt view. -/
structure RView where
  root : String
  members : List String
  ac : AList Nat
  pc : AList Nat
  cc : AList Nat
  tc : AList Nat
  dates : List String
  tvc : AList (AList Nat)
  txs : AList (List Entry)
  ptCands : AList (List String)
  declA : List String
  declC : List String
  formats : AList String
  deriving Repr

/-- commodity formats of a list of directives: the last directive with a format wins. -/
def formatsOf (cds : List CommDir) : AList String :=
  cds.foldl (fun m cd => if cd.raw ≠ "" then m.set cd.sym cd.fmt else m) []

/-- the files in the order in which the loader meets them: root, then depth first. -/
def loadOrder (limit : Nat) (fs : FS) (root : String) : List String :=
  match fs.get root with
  | some c => root :: (load limit fs root c).order
  | none => []

/-- the files in the order in which commodity formats are read: the root, then the other
    member files in path order. -/
def formatOrder (fs : FS) (root : String) : List String :=
  match fs.get root with
  | some _ => root :: isort ((members fs root).filter (· ≠ root))
  | none => []

def rebuildAt (limit : Nat) (root : String) (fs : FS) : RView :=
  let ms := members fs root
  let cs := ms.filterMap fs.get
  let es := ms.flatMap (entriesOf fs)
  { root := root
    members := ms
    ac := counter (·.ac) cs
    pc := counter (·.pc) cs
    cc := counter (·.cc) cs
    tc := counter (·.tc) cs
    dates := support dateCounts cs
    tvc := (tvTags cs).map fun t => (t, counter (tvFlat t) cs)
    txs := (isort (dedup (es.map (·.key)))).map fun k => (k, es.filter fun e => e.key = k)
    ptCands := (isort (dedup (cs.flatMap fun c => c.pts.keys))).map fun p =>
      (p, cs.filterMap fun c => c.pts.get p)
    declA := isort (dedup (cs.flatMap (·.declA)))
    declC := isort (dedup (cs.flatMap fun c => c.cds.map (·.sym)))
    formats := formatsOf ((formatOrder fs root).flatMap fun p =>
      match fs.get p with | some c => c.cds | none => []) }

/-- a fresh workspace initialised on `fs`. -/
def rebuild (limit : Nat) (fs : FS) : RView := rebuildAt limit (rootOf fs) fs

/-! ### judging a view -/

/-- a `map[string]int` agrees with the specified counter. -/
def mapOk (spec obs : AList Nat) : Bool :=
  sortedKeys obs == spec.keys && spec.all fun e => obs.get e.1 == some e.2

def nestedOk (spec obs : AList (AList Nat)) : Bool :=
  sortedKeys obs == spec.keys && spec.all fun e => match obs.get e.1 with
    | some inner => mapOk e.2 inner
    | none => false

/-- two maps to lists agree as maps. -/
def listMapEqv (a b : AList (List String)) : Bool :=
  a.all (fun e => b.get e.1 == a.get e.1) && b.all (fun e => a.get e.1 == b.get e.1)

def membersOk (r : RView) (v : View) : Bool := v.members == r.members

def countsOk (r : RView) (v : View) : Bool :=
  mapOk r.ac v.idx.ac && mapOk r.pc v.idx.pc && mapOk r.cc v.idx.cc && mapOk r.tc v.idx.tc &&
  nestedOk r.tvc v.idx.tvc

/-- known accounts, payees, commodities, tags, tag values, dates. -/
def namesOk (r : RView) (v : View) : Bool :=
  v.idx.accounts.all == r.ac.keys &&
  listMapEqv v.idx.accounts.byPrefix (accountIndexOf r.ac.keys).byPrefix &&
  v.idx.payees == r.pc.keys && v.idx.commodities == r.cc.keys && v.idx.tags == r.tc.keys &&
  v.idx.dates == r.dates &&
  listMapEqv v.idx.tagValues (r.tvc.map fun e => (e.1, e.2.keys))

/-- transaction index: same keys, per key the same entries as a multiset. -/
def txOk (r : RView) (v : View) : Bool :=
  sortedKeys v.idx.txs == r.txs.keys && r.txs.all fun e => (v.idx.txs.getD e.1 []).isPerm e.2

/-- payee templates: same payees, each template is one of the members' templates. -/
def ptOk (r : RView) (v : View) : Bool :=
  sortedKeys v.idx.pts == r.ptCands.keys && r.ptCands.all fun e => match v.idx.pts.get e.1 with
    | some t => e.2.contains t
    | none => false

def setOk (spec : List String) (obs : Option (List String)) : Bool :=
  match obs with
  | some s => isort s == spec
  | none => false

def declOk (r : RView) (v : View) : Bool := setOk r.declA v.accts && setOk r.declC v.comms

def formatsOk (r : RView) (v : View) : Bool :=
  match v.formats with
  | some f => sortedKeys f == sortedKeys r.formats && r.formats.all fun e => f.get e.1 == r.formats.get e.1
  | none => false

/-- names of the components of the view that differ from the rebuilt view. -/
def failures (r : RView) (v : View) : List String :=
  (if membersOk r v then [] else ["members"]) ++ (if countsOk r v then [] else ["counts"]) ++
  (if namesOk r v then [] else ["names"]) ++ (if txOk r v then [] else ["transactions"]) ++
  (if ptOk r v then [] else ["templates"]) ++ (if declOk r v then [] else ["declared"]) ++
  (if formatsOk r v then [] else ["formats"])

def viewOk (r : RView) (v : View) : Bool := failures r v == []

/-! ### domain of the property -/

def posCounts (l : AList Nat) : Bool := l.all fun e => e.2 > 0

/-- what every contribution computed by the analyzer satisfies: counts are positive, a
    tag with value counts has at least one value, payee templates have one entry per payee. -/
def contribOk (c : Contrib) : Bool :=
  posCounts c.ac && posCounts c.pc && posCounts c.cc && posCounts c.tc &&
  c.tvc.all (fun e => !e.2.isEmpty && posCounts e.2) && decide (c.pts.keys = dedup c.pts.keys)

/-- a directory: distinct non-empty names, well-formed contributions. -/
def fsOk (fs : FS) : Bool :=
  decide (fs.keys = dedup fs.keys) && fs.all fun e => e.1 ≠ "" && contribOk e.2

/-! ### guards of the known findings -/

/-- the format a file's own directives give a commodity (its last directive with a format). -/
def fileFormat (c : Contrib) (sym : String) : Option String := (formatsOf c.cds).get sym

/-- two member files other than the root declare different formats for one commodity: in the
    pinned code the resulting format depends on the order of `resolved.FileOrder`, which
    depends on the history of updates (finding `formats-order`, repaired). -/
def formatConflict (fs : FS) (root : String) : Bool :=
  let ms := (members fs root).filter (· ≠ root)
  let cs := ms.filterMap fs.get
  let syms := dedup (cs.flatMap fun c => (formatsOf c.cds).keys)
  syms.any fun s => (dedup (cs.filterMap fun c => fileFormat c s)).length ≥ 2

/-- two files of the directory have a template for the same payee (guard of the partial
    theorem for the pinned payee template code). -/
def sharedPayee (fs : FS) : Bool :=
  let ks := fs.flatMap fun e => (dedup e.2.pts.keys)
  decide (dedup ks ≠ ks)

end HL.Spec.Rebuild
