import HL.Model.Ast
import HL.Model.Classes
/-!
  `GCore`: the core sub-grammar of G (DESIGN 4.2) for which `C03_faithful_core`
  (HL/Props/C03Faithful.lean) is proved end to end, for journals of every size.

  ```
  journal     ::= [ transaction { LF transaction } ]          entries separated by one empty line
  transaction ::= date ' ' word { ' ' word } LF { posting LF }
  date        ::= Y '-' M '-' D              Y = 4 digits, M = D = 2 digits
  word        ::= [a-z]+
  posting     ::= '    ' seg ( ':' seg )+ [ '  ' amount ]
  seg         ::= [a-z]+
  amount      ::= [ '-' ] digits [ '.' digits ] [ ' ' commodity ]
  commodity   ::= [A-Z]+
  ```

  A journal *is* its ground truth: `print` writes it, `expected` is the syntax tree (with every
  position and range) the text was written from.  Both are plain structural recursions; nothing
  here mentions the lexer or the parser.  `WF` is the decidable well-formedness predicate: the
  shape constraints of the EBNF plus the two side conditions the parser forces
  (`Amount.wf`: side condition A of DESIGN 4.3 and at most 1000 decimals).
-/
namespace HL.GCore
open HL

structure Date where
  y : Bytes
  m : Bytes
  d : Bytes
deriving Repr, DecidableEq, Inhabited

structure Amount where
  neg : Bool
  int : Bytes
  frac : Option Bytes
  com : Option Bytes
deriving Repr, DecidableEq, Inhabited

structure Posting where
  segs : List Bytes
  amount : Option Amount
deriving Repr, DecidableEq, Inhabited

structure Tx where
  date : Date
  words : List Bytes
  postings : List Posting
deriving Repr, DecidableEq, Inhabited

abbrev Journal := List Tx

/-! ### byte classes -/
def isDigitB (c : UInt8) : Bool := 0x30 ≤ c && c ≤ 0x39
def isLowerB (c : UInt8) : Bool := 0x61 ≤ c && c ≤ 0x7A
def isUpperB (c : UInt8) : Bool := 0x41 ≤ c && c ≤ 0x5A

/-- a non-empty string over one byte class -/
def word (p : UInt8 → Bool) (w : Bytes) : Bool := !w.isEmpty && w.all p

/-! ### well-formedness -/

def Date.wf (d : Date) : Bool :=
  d.y.length == 4 && d.y.all isDigitB && d.m.length == 2 && d.m.all isDigitB &&
  d.d.length == 2 && d.d.all isDigitB

/-- Digits before and (optionally) after the mark, an upper-case commodity word.
    Forced by the parser: exactly three decimals behind a non-zero integer part are read as a
    grouped integer (`1.234` is 1234: side condition A), and `maxAmountExponent` = 1000. -/
def Amount.wf (a : Amount) : Bool :=
  word isDigitB a.int &&
  (match a.frac with
   | none => true
   | some f => word isDigitB f && f.length ≤ 1000 && (f.length != 3 || a.int.all (· == 0x30))) &&
  (match a.com with
   | none => true
   | some c => word isUpperB c)

def Posting.wf (p : Posting) : Bool :=
  2 ≤ p.segs.length && p.segs.all (word isLowerB) &&
  (match p.amount with | none => true | some a => a.wf)

def Tx.wf (t : Tx) : Bool :=
  t.date.wf && !t.words.isEmpty && t.words.all (word isLowerB) && t.postings.all Posting.wf

def WF (j : Journal) : Bool := j.all Tx.wf

/-- What the theorem needs from the Unicode classifier (the lexer asks `unicode.IsUpper` /
    `unicode.IsDigit` about ASCII letters too): `A`–`Z` are upper case, `a`–`z` are neither
    upper case nor digits.  Holds for the tables of the Go toolchain (`classesOk_go`). -/
def ClassesOk (C : Classes) : Bool :=
  (List.range 26).all fun i => C.isUpper (65 + i) && !C.isUpper (97 + i) && !C.isDigit (97 + i)

/-! ### the printer -/

def joinWith (sep : UInt8) : List Bytes → Bytes
  | [] => []
  | [w] => w
  | w :: ws => w ++ sep :: joinWith sep ws

def Date.print (d : Date) : Bytes := d.y ++ 0x2D :: d.m ++ 0x2D :: d.d

/-- `digits [ '.' digits ]` -/
def Amount.numText (a : Amount) : Bytes :=
  a.int ++ (match a.frac with | none => [] | some f => 0x2E :: f)

def Amount.signText (a : Amount) : Bytes := if a.neg then [0x2D] else []

def Amount.comText (a : Amount) : Bytes :=
  match a.com with | none => [] | some c => 0x20 :: c

def Amount.print (a : Amount) : Bytes := a.signText ++ a.numText ++ a.comText

def Posting.acct (p : Posting) : Bytes := joinWith 0x3A p.segs

def Posting.amtText (p : Posting) : Bytes :=
  match p.amount with | none => [] | some a => 0x20 :: 0x20 :: a.print

/-- a posting line without its line feed -/
def Posting.print (p : Posting) : Bytes := [0x20, 0x20, 0x20, 0x20] ++ p.acct ++ p.amtText

def Tx.descr (t : Tx) : Bytes := joinWith 0x20 t.words

/-- the header line without its line feed -/
def Tx.header (t : Tx) : Bytes := t.date.print ++ 0x20 :: t.descr

def printPostings : List Posting → Bytes
  | [] => []
  | p :: ps => p.print ++ 0x0A :: printPostings ps

def Tx.print (t : Tx) : Bytes := t.header ++ 0x0A :: printPostings t.postings

def print : Journal → Bytes
  | [] => []
  | [t] => t.print
  | t :: ts => t.print ++ 0x0A :: print ts

/-! ### the tree the text was written from -/

/-- value of a digit string -/
def digitsNat (ds : Bytes) : Nat := ds.foldl (fun a c => a * 10 + (c.toNat - 48)) 0

/-- `coef · 10^exp` exactly as written: all digits, exponent = minus the number of decimals. -/
def Amount.quantity (a : Amount) : Dec :=
  let f := a.frac.getD []
  let n : Int := digitsNat (a.int ++ f)
  ⟨if a.neg then -n else n, -(f.length : Int)⟩

/-- An amount whose first byte is at column `c`, offset `o` of line `ln`. -/
def Amount.expected (a : Amount) (ln c o : Nat) : Ast.Amount :=
  let s := a.signText.length
  let n := a.numText.length
  let e := a.print.length
  { quantity := a.quantity
    raw := a.signText ++ a.numText
    commodity := match a.com with
      | none => ⟨[], .left, Rng.zero⟩
      | some w => ⟨w, .right, ⟨⟨ln, c + s + n + 1, o + s + n + 1⟩, ⟨ln, c + e, o + e⟩⟩⟩
    signBeforeCommodity := false
    range := ⟨⟨ln, c, o⟩, ⟨ln, c + e, o + e⟩⟩ }

/-- A posting on line `ln` whose line starts at offset `o`. -/
def Posting.expected (p : Posting) (ln o : Nat) : Ast.Posting :=
  let a := p.acct.length
  let e := p.print.length
  { status := .none
    account := ⟨p.acct, ⟨⟨ln, 5, o + 4⟩, ⟨ln, 5 + a, o + 4 + a⟩⟩⟩
    amount := p.amount.map fun am => am.expected ln (5 + a + 2) (o + 4 + a + 2)
    assertion := none
    cost := none
    comment := []
    tags := []
    virt := .none
    range := ⟨⟨ln, 5, o + 4⟩, ⟨ln, 1 + e, o + e⟩⟩ }

def expectedPostings : List Posting → Nat → Nat → List Ast.Posting
  | [], _, _ => []
  | p :: ps, ln, o => p.expected ln o :: expectedPostings ps (ln + 1) (o + p.print.length + 1)

/-- A transaction whose header is line `ln`, starting at offset `o`.  Its range ends where the
    next token starts: column 1 of the line behind its last posting. -/
def Tx.expected (t : Tx) (ln o : Nat) : Ast.Transaction :=
  let d := t.date.print.length
  { date := ⟨digitsNat t.date.y, digitsNat t.date.m, digitsNat t.date.d, ⟨⟨ln, 1, o⟩, ⟨ln, 1 + d, o + d⟩⟩⟩
    date2 := none
    status := .none
    code := []
    description := t.descr
    payee := []
    note := []
    postings := expectedPostings t.postings (ln + 1) (o + t.header.length + 1)
    tags := []
    comments := []
    range := ⟨⟨ln, 1, o⟩, ⟨ln + 1 + t.postings.length, 1, o + t.print.length⟩⟩ }

def expectedTxs : List Tx → Nat → Nat → List Ast.Transaction
  | [], _, _ => []
  | t :: ts, ln, o => t.expected ln o :: expectedTxs ts (ln + t.postings.length + 2) (o + t.print.length + 1)

def expected (j : Journal) : Ast.Journal := ⟨expectedTxs j 1 0, [], [], []⟩

/-! ### the same journals with a chosen line end (LF or CR LF)

  `printC cr` writes the journal with `"\r\n"` instead of `"\n"` when `cr` is set;
  `expectedC cr` is the tree that text was written from: the same nodes, lines and columns, every
  byte offset counted in the text with the longer line ends.  `printC false = print`,
  `expectedC false = expected` (`HL/Lemmas/GCoreCrlf.lean`). -/

/-- the line end -/
def eolB (cr : Bool) : Bytes := if cr then [0x0D, 0x0A] else [0x0A]

def printPostingsC (cr : Bool) : List Posting → Bytes
  | [] => []
  | p :: ps => p.print ++ eolB cr ++ printPostingsC cr ps

def Tx.printC (cr : Bool) (t : Tx) : Bytes := t.header ++ eolB cr ++ printPostingsC cr t.postings

def printC (cr : Bool) : Journal → Bytes
  | [] => []
  | [t] => t.printC cr
  | t :: ts => t.printC cr ++ eolB cr ++ printC cr ts

def expectedPostingsC (cr : Bool) : List Posting → Nat → Nat → List Ast.Posting
  | [], _, _ => []
  | p :: ps, ln, o => p.expected ln o :: expectedPostingsC cr ps (ln + 1) (o + p.print.length + (eolB cr).length)

def Tx.expectedC (cr : Bool) (t : Tx) (ln o : Nat) : Ast.Transaction :=
  let d := t.date.print.length
  { date := ⟨digitsNat t.date.y, digitsNat t.date.m, digitsNat t.date.d, ⟨⟨ln, 1, o⟩, ⟨ln, 1 + d, o + d⟩⟩⟩
    date2 := none
    status := .none
    code := []
    description := t.descr
    payee := []
    note := []
    postings := expectedPostingsC cr t.postings (ln + 1) (o + t.header.length + (eolB cr).length)
    tags := []
    comments := []
    range := ⟨⟨ln, 1, o⟩, ⟨ln + 1 + t.postings.length, 1, o + (t.printC cr).length⟩⟩ }

def expectedTxsC (cr : Bool) : List Tx → Nat → Nat → List Ast.Transaction
  | [], _, _ => []
  | t :: ts, ln, o =>
    t.expectedC cr ln o :: expectedTxsC cr ts (ln + t.postings.length + 2) (o + (t.printC cr).length + (eolB cr).length)

def expectedC (cr : Bool) (j : Journal) : Ast.Journal := ⟨expectedTxsC cr j 1 0, [], [], []⟩

end HL.GCore
