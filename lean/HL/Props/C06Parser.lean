import HL.Lemmas.ParserList
/-
  C06, parser half: "parser loops advance on every path; parsing is total on arbitrary token
  streams".

  The model (HL/Model/Parser.lean) runs every Go loop on explicit fuel `fuelOf st = rem st.src + 1`.
  For EVERY token source whose bound `rem` strictly decreases on each non-EOF token it hands out
  (`Decr`; the token list of the correspondence satisfies it: `listEnv_decr`; the lexer model
  satisfies it by its `next_progress`):
    * every loop body consumes at least one token      (`loop_bodies_advance`)
    * no loop ever exhausts its fuel with work left: the result is the same for every fuel
      that is at least the number of tokens left       (`parse_fuel_suffices`, `loops_fuel_suffice`)
    * the journal loop stops exactly at EOF            (`parse_total`)
    * errors are only ever appended, each positioned on a token the parser has consumed or is
      looking at                                       (`errors_positions_are_token_positions`)
-/
namespace HL.Props.C06Parser
open HL HL.Ast HL.Parser

variable {σ : Type} (E : Env σ)

/-- Every loop body of the parser consumes at least one token (strictly decreases the number of
    tokens left), on every path, for every token source with a decreasing bound:
    `parseJournal`'s `switch`, the postings loop body, the sub-directive loop's first step, the
    skipping loops (`skipToNextLine` from a non-EOF token). -/
theorem loop_bodies_advance (hd : Decr E) (st : PState σ) :
    (st.current.ty ≠ .eof → measure E (journalStep E st).2 < measure E st) ∧
    (st.current.ty = .indent → measure E (parsePosting E st).2 < measure E st) ∧
    (st.current.ty ≠ .eof → measure E (advance E st) < measure E st) ∧
    (st.current.ty ≠ .eof → measure E (skipToNextLine E st) < measure E st) ∧
    (st.current.ty ≠ .eof → measure E (parseDirective E st).2 < measure E st) ∧
    (st.current.ty = .date → measure E (parseTransaction E st).2 < measure E st) :=
  ⟨journalStep_lt E hd st, parsePosting_lt E hd st, advance_lt E hd st, skipToNextLine_lt E hd st,
   parseDirective_lt E hd st, parseTransaction_lt E hd st⟩

/-- No parse function ever increases the number of tokens left. -/
theorem step_never_goes_back (hd : Decr E) (st : PState σ) :
    measure E (journalStep E st).2 ≤ measure E st := journalStep_le E hd st

/-- The journal loop never runs out of fuel: any fuel at least the number of tokens left gives
    the result of the canonical run. -/
theorem parse_fuel_suffices (hd : Decr E) (st : PState σ) (n : Nat) (hn : measure E st ≤ n) :
    parseJournalF E n st = parseJournal E st :=
  parseJournalF_fuel E hd n _ st hn (measure_le_fuelOf E st)

/-- The same for every inner loop. -/
theorem loops_fuel_suffice (hd : Decr E) (st : PState σ) (n : Nat) (hn : measure E st ≤ n) :
    skipLoopF E n st = skipLoopF E (fuelOf E st) st ∧
    (∀ b, skipUntilF E b n st = skipUntilF E b (fuelOf E st) st) ∧
    (∀ acc, subValueF E n st acc = subValueF E (fuelOf E st) st acc) ∧
    (∀ acc, includePathF E n st acc = includePathF E (fuelOf E st) st acc) ∧
    postingsF E n st = postingsF E (fuelOf E st) st ∧
    (∀ m, parseSubdirectivesF E n st m = parseSubdirectivesF E (fuelOf E st) st m) :=
  have hf := measure_le_fuelOf E st
  ⟨skipLoopF_fuel E hd n _ st hn hf, fun b => skipUntilF_fuel E hd b n _ st hn hf,
   fun acc => subValueF_fuel E hd n _ st acc hn hf, fun acc => includePathF_fuel E hd n _ st acc hn hf,
   postingsF_fuel E hd n _ st hn hf, fun m => parseSubdirectivesF_fuel E hd n _ st m hn hf⟩

theorem parseJournalF_ends_at_eof (hd : Decr E) (n : Nat) (st : PState σ) (hn : measure E st ≤ n) :
    (parseJournalF E n st).2.current.ty = .eof := by
  induction n generalizing st with
  | zero => unfold parseJournalF; exact eof_of_measure_le_zero E hn
  | succ n ih =>
    unfold parseJournalF
    split
    · assumption
    · rename_i h
      have := journalStep_lt E hd st h
      simp only
      exact ih _ (by omega)

/-- Parsing is total: on every token source with a decreasing bound the journal loop runs to
    EOF (it is not cut short by its fuel), whatever the tokens are. -/
theorem parse_total (hd : Decr E) (st : PState σ) : (parseJournal E st).2.current.ty = .eof :=
  parseJournalF_ends_at_eof E hd _ st (measure_le_fuelOf E st)

theorem parseJournalF_reach (n : Nat) (st : PState σ) : ReachAny E st (parseJournalF E n st).2 := by
  induction n generalizing st with
  | zero => exact ReachAny.refl E st
  | succ n ih =>
    unfold parseJournalF
    split
    · exact ReachAny.refl E st
    · simp only
      exact ReachAny.trans E (RC.any E (journalStep_RC E st)) (ih _)

/-- Errors are only appended, and each new error sits on a token the parser consumed during
    the run or on the token it stopped at. -/
theorem errors_positions_general (st : PState σ) :
    ∃ C new, Reach E st C (parseJournal E st).2 ∧
      (parseJournal E st).2.errors = st.errors ++ new ∧
      ∀ e ∈ new, ∃ t ∈ C ++ [(parseJournal E st).2.current], e.pos = t.pos := by
  obtain ⟨C, r⟩ := parseJournalF_reach E (fuelOf E st) st
  obtain ⟨new, h1, h2⟩ := r.errors E
  exact ⟨C, new, r, h1, h2⟩

/-! ### the token-list source of the correspondence -/

variable (num : NumDeps) (cls : Classes)

/-- Arbitrary token lists: the parse of a token list does not depend on the fuel and ends at EOF. -/
theorem parseTokens_total (toks : List Token) :
    let st0 : PState (List Token) := advance (listEnv num cls) ⟨toks, eofToken, [], 0⟩
    (parseJournal (listEnv num cls) st0).2.current.ty = .eof ∧
    ∀ n, measure (listEnv num cls) st0 ≤ n →
      parseJournalF (listEnv num cls) n st0 = parseJournal (listEnv num cls) st0 :=
  ⟨parse_total _ (listEnv_decr num cls) _, fun n hn => parse_fuel_suffices _ (listEnv_decr num cls) _ n hn⟩

/-- Every parse error reported for a token list carries the position of one of its tokens
    (or of the EOF the exhausted list answers with). -/
theorem errors_positions_are_token_positions (toks : List Token) :
    ∀ e ∈ (parseTokens num cls toks).2, ∃ t ∈ toks ++ [eofToken], e.pos = t.pos := by
  intro e he
  let st0 : PState (List Token) := advance (listEnv num cls) ⟨toks, eofToken, [], 0⟩
  obtain ⟨C, new, r, h1, h2⟩ := errors_positions_general (listEnv num cls) st0
  have hst0 : st0.errors = [] := rfl
  have he' : e ∈ new := by
    have : (parseTokens num cls toks).2 = (parseJournal (listEnv num cls) st0).2.errors := rfl
    rw [this, h1, hst0] at he
    simpa using he
  obtain ⟨t, ht, hp⟩ := h2 e he'
  have hm := Reach.mem_stream num cls r t (by
    simp only [List.mem_append, List.mem_singleton] at ht ⊢
    rcases ht with h | h
    · exact Or.inl h
    · exact Or.inr (by simp [strm, h]))
  refine ⟨t, ?_, hp⟩
  rcases hm with h | h
  · have hs : strm st0 = toks ∨ strm st0 = [eofToken] := by
      cases toks <;> simp [st0, strm, advance, listEnv, listSrc]
    rcases hs with hs | hs
    · rw [hs] at h; simp [h]
    · rw [hs] at h; simp at h; simp [h]
  · simp [h]

/-- Non-vacuity: the list source satisfies the hypothesis of the general theorems. -/
example : Decr (listEnv num cls) := listEnv_decr num cls

end HL.Props.C06Parser
