/-
  C20 — Hover figures are exact aggregates over the whole include tree.

  Placeholder in the hover builder's tree.  The decimal-library part (`balances_exact`, owned by
  the "balance" builder) lives in this file; the server-level part is HL/Props/C20Hover.lean,
  which also declares audit aliases `HL.Props.C20.hover_*` for its theorems.
  Coordinator: when merging, keep the import below in the balance builder's version.
-/
import HL.Props.C20Hover
