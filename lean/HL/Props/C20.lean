import HL.Props.C20Hover
import HL.Model.Balance
import HL.Spec.BalanceSpec
import HL.Lemmas.Dec
import HL.Lemmas.Balance
import HL.Lemmas.AccountBalance
import HL.Lemmas.DecString
import HL.Model.HoverText

/-!
  C20 "Hover figures are exact aggregates" — the arithmetic core: account balances and the
  counters of hover.go over an arbitrary list of transactions (the list the server passes is
  `AllTransactions()` of the resolved include tree or the current file's transactions; that it
  holds every member file once is the loader's part of C20).
-/
namespace HL.Props.C20
open HL HL.Ast HL.Balance HL.Spec.Bal

theorem explicit_filterMap_eq (txs : List RTx) (acct c : Bytes) :
    ((explicit txs).filterMap fun (a, c', q) => if a = acct ∧ c' = c then some q else none) =
    ((explicit txs).filterMap fun (x : Bytes × Bytes × Rat) =>
        if x.1 = acct ∧ x.2.1 = c then some x.2.2 else none) := by
  congr 1

theorem explicit_filter_length (txs : List RTx) (acct c : Bytes) :
    explicitCount txs acct c =
    ((explicit txs).filterMap fun (x : Bytes × Bytes × Rat) =>
        if x.1 = acct ∧ x.2.1 = c then some x.2.2 else none).length := by
  unfold explicitCount
  induction explicit txs with
  | nil => rfl
  | cons x r ih =>
    obtain ⟨a, c', q⟩ := x
    rw [List.filter_cons, List.filterMap_cons]
    by_cases h : a = acct ∧ c' = c
    · simp only [h, and_self, decide_true, if_true, List.length_cons]
      simp only [h] at ih
      rw [ih]
    · simp only [h, decide_false, Bool.false_eq_true, if_false]
      exact ih

/-- **balances_exact.**  For every list of transactions, every account and every commodity:
    the model of `CalculateAccountBalances(FromTransactions)` holds an entry exactly when some
    posting to that account carries an explicit amount in that commodity, and the entry's value
    is the exact rational sum of those amounts — whatever exponents the decimals carry. -/
theorem balances_exact (txs : List Transaction) (acct c : Bytes) :
    ((lookup (accountBalances txs) acct c).isSome ↔ explicitCount (txs.map image) acct c > 0) ∧
    ((lookup (accountBalances txs) acct c).map Dec.toRat).getD 0 = accountSum (txs.map image) acct c := by
  unfold accountBalances
  rw [foldl_flatMap_postings]
  obtain ⟨h1, h2⟩ := foldl_addPosting_spec (txs.flatMap (·.postings)) [] acct c
  have hl : lookup [] acct c = none := rfl
  rw [hl] at h1 h2
  simp only [Option.isSome_none, Bool.false_eq_true, false_or, Option.getD_none, Dec.toRat_zero, Rat.zero_add] at h1 h2
  constructor
  · rw [h1, explicit_filter_length, explicit_image]
    cases expl (txs.flatMap (·.postings)) acct c with
    | nil => simp
    | cons _ _ => simp
  · unfold accountSum
    rw [explicit_filterMap_eq, explicit_image, ← h2]
    cases lookup ((txs.flatMap (·.postings)).foldl addPosting []) acct c with
    | none => simp [Dec.toRat_zero]
    | some v => simp

/-- Number of postings naming the account (with or without an amount): what the hover line
    "**Postings:** N" shows. -/
theorem postings_count_exact (txs : List Transaction) (acct : Bytes) :
    countPostings acct txs = ((txs.flatMap (·.postings)).filter fun p => p.account.name = acct).length := by
  unfold countPostings
  have h : ∀ (l : List Transaction) (k : Nat),
      l.foldl (fun n tx => tx.postings.foldl (fun n p => if p.account.name = acct then n + 1 else n) n) k =
      k + ((l.flatMap (·.postings)).filter fun p => p.account.name = acct).length := by
    intro l
    induction l with
    | nil => simp
    | cons tx r ih =>
      intro k
      rw [List.foldl_cons, ih, List.flatMap_cons, List.filter_append, List.length_append]
      have := foldl_count (fun p : Posting => decide (p.account.name = acct)) tx.postings k
      simp only [decide_eq_true_eq] at this
      rw [this]; omega
  rw [h]; simp

/-- number of postings to `acct` that carry an explicit amount. -/
def explicitPostings (txs : List Transaction) (acct : Bytes) : Nat :=
  ((txs.flatMap (·.postings)).filter fun p => p.account.name = acct && p.amount.isSome).length

/-- Reading "the exact number of such postings" as "postings with an explicit amount": the hover
    count is that number whenever no posting to the account leaves its amount out. -/
theorem postings_count_explicit_partial (txs : List Transaction) (acct : Bytes)
    (h : ∀ p ∈ txs.flatMap (·.postings), p.account.name = acct → p.amount.isSome) :
    countPostings acct txs = explicitPostings txs acct := by
  rw [postings_count_exact]
  unfold explicitPostings
  congr 1
  apply List.filter_congr
  intro p hp
  by_cases ha : p.account.name = acct
  · simp [ha, h p hp ha]
  · simp [ha]

def pA (acct : String) (q : Option Int) : Posting :=
  ⟨.none, ⟨bs acct, default⟩, q.map fun c => ⟨⟨c, 0⟩, [], ⟨bs "USD", .right, default⟩, false, default⟩,
   none, none, [], [], .none, default⟩
def tx2 : Transaction := ⟨default, none, .none, [], [], [], [], [pA "a:b" (some 5), pA "a:b" none], [], [], default⟩

/-- …and it is one more for every amount-less posting to the account (`a:b  5 USD` / `a:b`). -/
theorem postings_count_explicit_counterexample :
    countPostings (bs "a:b") [tx2] = 2 ∧ explicitPostings [tx2] (bs "a:b") = 1 := by
  constructor <;> decide +kernel

example : ∀ p ∈ [tx2].flatMap (·.postings), p.account.name = bs "c:d" → p.amount.isSome := by decide +kernel

/-- **counts_exact.**  Payee, tag and tag-value hovers show exact counts. -/
theorem counts_exact (txs : List Transaction) (payee name value : Bytes) :
    countPayee payee txs = (txs.filter fun tx => tx.payee = payee || tx.description = payee).length ∧
    countTagUsage name txs = ((allTags txs).filter fun t => t.name = name).length ∧
    countTagValueUsage name value txs = ((allTags txs).filter fun t => t.name = name && t.value = value).length := by
  refine ⟨?_, ?_, ?_⟩
  · unfold countPayee
    have := foldl_count (fun tx : Transaction => (decide (tx.payee = payee) || decide (tx.description = payee))) txs 0
    simp only [Nat.zero_add] at this
    rw [← this]
  · unfold countTagUsage
    have := foldl_count (fun t : Tag => decide (t.name = name)) (allTags txs) 0
    simp only [Nat.zero_add, decide_eq_true_eq] at this
    rw [this]
  · unfold countTagValueUsage
    have := foldl_count (fun t : Tag => (decide (t.name = name) && decide (t.value = value))) (allTags txs) 0
    simp only [Nat.zero_add] at this
    rw [← this]

/-! ### the figures as printed -/

/-- `%d` of a count reads back as that count. -/
theorem count_printed_exact (n : Nat) : Dec.parseNat (Dec.natDigits n) = some n := by
  rw [Num.natDigits_eq, Num.parseNat_digits _ (Num.digitsOfNat_ne_nil n), Num.natOf_digitsOfNat]

/-- **account_hover_figures.**  The figure the account hover prints for a commodity
    (`Decimal.String()` of the entry of the balance map) denotes exactly the sum of all amounts
    explicitly posted to the account in that commodity. -/
theorem account_hover_figures (txs : List Transaction) (acct c : Bytes) (v : Dec)
    (h : lookup (accountBalances txs) acct c = some v) (hexp : Dec.int32Min ≤ v.exp) :
    (Dec.ofString (Dec.toString v)).map Dec.toRat = some (accountSum (txs.map image) acct c) := by
  rw [Num.toString_roundtrip v hexp]
  have := (balances_exact txs acct c).2
  rw [h] at this
  simpa using this

/-- **amount_hover_exact.**  Hovering an amount shows `Decimal.String()` of its quantity (and of
    its cost), which denotes exactly the quantity parsed. -/
theorem amount_hover_exact (a : Amount) (cost : Option Cost) (hexp : Dec.int32Min ≤ a.quantity.exp) :
    (∃ rest, HoverText.amountHover a cost =
        bs "**Amount:** " ++ Dec.toString a.quantity ++ bs " " ++ a.commodity.symbol ++ rest) ∧
    (Dec.ofString (Dec.toString a.quantity)).map Dec.toRat = some (Dec.toRat a.quantity) ∧
    (∀ k, cost = some k → Dec.int32Min ≤ k.amount.quantity.exp →
      (∃ pre, HoverText.amountHover a cost = pre ++ Dec.toString k.amount.quantity ++ bs " " ++ k.amount.commodity.symbol) ∧
      (Dec.ofString (Dec.toString k.amount.quantity)).map Dec.toRat = some (Dec.toRat k.amount.quantity)) := by
  refine ⟨⟨_, rfl⟩, Num.toString_roundtrip _ hexp, ?_⟩
  intro k hk hke
  subst hk
  refine ⟨?_, Num.toString_roundtrip _ hke⟩
  unfold HoverText.amountHover
  cases ht : k.isTotal with
  | true =>
    exact ⟨bs "**Amount:** " ++ Dec.toString a.quantity ++ bs " " ++ a.commodity.symbol ++ bs "\n\n**Total cost:** @@ ",
      by simp only [ht, if_true, List.append_assoc]⟩
  | false =>
    exact ⟨bs "**Amount:** " ++ Dec.toString a.quantity ++ bs " " ++ a.commodity.symbol ++ bs "\n\n**Unit cost:** @ ",
      by simp only [ht, Bool.false_eq_true, if_false, List.append_assoc]⟩

end HL.Props.C20
