import HL.Model.Srv
import HL.Lemmas.Srv
/-!
# C13  Published diagnostics converge to the latest content under any timing

Model: `HL/Model/Srv.lean` — the server as a labelled transition system; `diag` (what the
diagnostics of a text are) is an uninterpreted parameter, every theorem holds for every `diag`.

* `stale_publish_counterexample` — the pinned code (`guarded := false`): two tasks, the older one
  publishes last, the client is left with the diagnostics of superseded content.
* `C13_converges` — the repaired code (`repo_patches/fix-stale-diagnostics.diff`,
  `guarded := true`): after ANY finite trace (any number of documents, opens, changes, closes,
  any interleaving of the background tasks' steps), if no task is in flight then for every open
  document the client's last notification carries the diagnostics of the current text.
* `never_regresses` — the versions the client receives for one URI are strictly increasing.
* `can_quiesce`, `eventually_shows_latest` — from every reachable state the tasks can run to
  completion without further notifications (no deadlock on `publishMu`; the hypothesis of
  `C13_converges` is reachable from everywhere: the newest task is never stuck).
-/

namespace HL.Props.C13
open HL.Srv

variable {Text Diags : Type}

/-! ## The pinned code -/

/-- Pinned code: open with text 10 (task 1), change to text 11 (task 2), both tasks analyse,
    task 2 publishes, then task 1.  No task is left, the document holds 11, the client shows the
    diagnostics of 10.  (`diag := id`: the diagnostics of a text are the text itself.) -/
theorem stale_publish_counterexample :
    let s := run (Text := Nat) (fun t => t) false
      [.openDoc 0 10, .change 0 11, .analyse 1, .analyse 2, .publish 2, .publish 1]
    Quiescent s ∧ s.docs 0 = some 11 ∧ shown s 0 = some 10 ∧ publishedVersions s 0 = [2, 1] := by
  decide

/-- The same schedule, as far as it exists in the repaired code: task 1 fails the version check
    and publishes nothing whether it reaches the lock before or after task 2. -/
example :
    let s := run (Text := Nat) (fun t => t) true
      [.openDoc 0 10, .change 0 11, .analyse 1, .analyse 2,
       .lock 2, .check 2, .publish 2, .unlock 2, .lock 1, .check 1, .unlock 1]
    Quiescent s ∧ s.docs 0 = some 11 ∧ shown s 0 = some 11 ∧ publishedVersions s 0 = [2] := by
  decide

/-! ## The repaired code -/

theorem quiescent_iff (diag : Text → Diags) (es : List (Ev Text)) :
    Quiescent (run diag true es) ↔ ∀ i, (run diag true es).tasks i = none := by
  constructor
  · intro h i
    cases hk : (run diag true es).tasks i with
    | none => rfl
    | some k => rw [← hk]; exact h i ((inv_run diag es).task_le i k hk)
  · intro h i _; exact h i

/-- **C13.**  For every `diag` and every finite trace of the repaired server: in a state with no
    task in flight, every open document's last published diagnostics are those of its current
    text. -/
theorem C13_converges (diag : Text → Diags) (es : List (Ev Text)) :
    let s := run diag true es
    Quiescent s → ∀ u t, s.docs u = some t → shown s u = some (diag t) := by
  intro s hq u t hd
  have hinv : Inv diag s := inv_run diag es
  have hv : (s.ver u).isSome := by rw [← hinv.docs_ver u, hd]; rfl
  obtain ⟨v, hv⟩ := Option.isSome_iff_exists.mp hv
  rcases hinv.main u t v hd hv with ⟨k, hk, _, _⟩ | hlast
  · have := hq v (hinv.ver_le u v hv)
    rw [this] at hk; cases hk
  · show ((s.log u).getLast?).map (·.2) = some (diag t)
    rw [show (s.log u).getLast? = some (v, diag t) from hlast]; rfl

/-- The same per URI and without waiting for the other documents: as soon as the task of the
    current version of `u` is gone, `u` shows the diagnostics of its current text — whatever
    older tasks for `u` or tasks for other documents are still doing. -/
theorem C13_converges_per_uri (diag : Text → Diags) (es : List (Ev Text)) :
    let s := run diag true es
    ∀ u t v, s.docs u = some t → s.ver u = some v → s.tasks v = none → shown s u = some (diag t) := by
  intro s u t v hd hv hnone
  rcases (inv_run diag es).main u t v hd hv with ⟨k, hk, _, _⟩ | hlast
  · rw [hnone] at hk; cases hk
  · show ((s.log u).getLast?).map (·.2) = some (diag t)
    rw [show (s.log u).getLast? = some (v, diag t) from hlast]; rfl

/-- Diagnostics of a superseded version never overwrite newer ones: the versions the client
    receives for a URI are strictly increasing, in every reachable state. -/
theorem never_regresses (diag : Text → Diags) (es : List (Ev Text)) (u : Uri) :
    (publishedVersions (run diag true es) u).Pairwise (· < ·) :=
  (inv_run diag es).sorted u

/-- Mutual exclusion on `publishMu`, as a corollary of the invariant. -/
theorem one_publisher_at_a_time (diag : Text → Diags) (es : List (Ev Text)) (i j : Nat)
    (ki kj : Task Text Diags) :
    let s := run diag true es
    s.tasks i = some ki → s.tasks j = some kj → ki.pc.holds = true → kj.pc.holds = true → i = j := by
  intro s hi hj hhi hhj
  have h1 := (inv_run diag es).owner i ki hi hhi
  have h2 := (inv_run diag es).owner j kj hj hhj
  rw [h1] at h2; exact Option.some.inj h2

/-- No deadlock, no starvation of the newest task: from every reachable state the background
    tasks alone (no further notification) can run to completion, and this does not touch the
    documents.  So the hypothesis of `C13_converges` can be reached from everywhere. -/
theorem can_quiesce (diag : Text → Diags) (es : List (Ev Text)) :
    ∃ es' : List (Ev Text), (∀ e ∈ es', Ev.isTask e = true) ∧
      Quiescent (run diag true (es ++ es')) ∧ (run diag true (es ++ es')).docs = (run diag true es).docs := by
  obtain ⟨es', h1, h2, h3⟩ := drain (diag := diag) (work (run diag true es)) (run diag true es)
    (inv_run diag es) (Nat.le_refl _)
  exact ⟨es', h1, by rw [run_append]; exact h2, by rw [run_append]; exact h3⟩

/-- "Once notifications stop …": after any trace there is a continuation made of background steps
    only after which every open document shows the diagnostics of its (unchanged) latest content.
    (`C13_converges` says the same of EVERY such continuation that ends with no task in flight.) -/
theorem eventually_shows_latest (diag : Text → Diags) (es : List (Ev Text)) :
    ∃ es' : List (Ev Text), (∀ e ∈ es', Ev.isTask e = true) ∧
      ∀ u t, (run diag true es).docs u = some t → shown (run diag true (es ++ es')) u = some (diag t) := by
  obtain ⟨es', h1, h2, h3⟩ := can_quiesce diag es
  refine ⟨es', h1, fun u t hd => ?_⟩
  exact C13_converges diag (es ++ es') h2 u t (by rw [h3]; exact hd)

/-! ## Non-vacuity -/

/-- A trace with two documents, a stale task that passes the check *before* the newer change
    arrives and publishes *after* it (the interleaving that needs `publishMu` to be held across
    check and publish), a suppressed task, a close and a re-open.  It reaches a quiescent state
    with both documents open and non-empty logs, so `C13_converges` is not vacuous; the log of
    document 0 shows the stale publish followed by the newest. -/
example :
    let s := run (Text := Nat) (fun t => t + 100) true
      [.openDoc 0 10, .openDoc 1 20, .analyse 1, .lock 1, .check 1,
       .change 0 11,                       -- arrives while task 1 is between check and publish
       .analyse 3, .lock 3,                -- not enabled: task 1 holds the mutex (skipped)
       .publish 1, .unlock 1,              -- stale diagnostics go out …
       .lock 3, .check 3, .publish 3, .unlock 3,   -- … and are overwritten by the newest
       .change 1 21, .analyse 2, .analyse 4,
       .lock 2, .check 2, .unlock 2,       -- task 2 is superseded: publishes nothing
       .lock 4, .check 4, .publish 4, .unlock 4,
       .close 1, .openDoc 1 22, .analyse 5, .lock 5, .check 5, .publish 5, .unlock 5]
    Quiescent s ∧ s.docs 0 = some 11 ∧ s.docs 1 = some 22 ∧
      s.log 0 = [(1, 110), (3, 111)] ∧ s.log 1 = [(4, 121), (5, 122)] := by
  decide

/-- The first disjunct of `Inv.main` is real: states that are not quiescent may show old
    diagnostics (here: none at all), which is why the theorem waits for the newest task. -/
example :
    let s := run (Text := Nat) (fun t => t) true [.openDoc 0 10, .analyse 1]
    ¬ Quiescent s ∧ shown s 0 = none := by
  decide

end HL.Props.C13
