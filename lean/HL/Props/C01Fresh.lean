/-
  C01, second sentence: "Every feature answer is computed from that text and from no older
  version."  The document mirror itself is HL.Props.C01.mirror_history; here: the two caches
  the server derives from a document's text and consults when answering.

  * `Server.resolved` (include tree stored by a background task): the model is HL.Bg
    (shared with C14); `resolved_fresh` re-states HL.Props.C14.resolved_never_stale under
    C01's name: for every history and every scheduling of the background tasks the stored tree
    is absent or the tree of the CURRENT text.
  * `Server.payeeTemplatesCache`: model HL.Derived; `templates_fresh`.

  Both hold for the code as repaired by the `fix:` commit "caches derived from a document
  never outlive the text they were computed from"; `pinned_stale_templates_counterexample`
  records the pinned behaviour.
-/
import HL.Model.Derived
import HL.Props.C14
namespace HL.Props.C01Fresh
open HL.Derived

variable {Text Tpl : Type}

/-- Invariant: a cached template set is the one computed from the document's current text. -/
def Fresh (templates : Text → Tpl) (σ : St Text Tpl) : Prop :=
  ∀ u c, σ.cache u = some c → ∃ t, σ.docs u = some t ∧ c = templates t

theorem fresh_init (templates : Text → Tpl) : Fresh templates (St.init : St Text Tpl) := by
  intro u c h; simp [St.init] at h

theorem fresh_step (templates : Text → Tpl) (σ : St Text Tpl) (e : Ev Text)
    (h : Fresh templates σ) : Fresh templates (step templates true σ e) := by
  intro u c hc
  cases e with
  | change v t =>
    simp only [step, if_true] at hc ⊢
    by_cases huv : u = v
    · subst huv; simp [upd] at hc
    · simp only [upd, huv, if_false] at hc ⊢; exact h u c hc
  | close v =>
    simp only [step, if_true] at hc ⊢
    by_cases huv : u = v
    · subst huv; simp [upd] at hc
    · simp only [upd, huv, if_false] at hc ⊢; exact h u c hc
  | save v =>
    simp only [step] at hc ⊢
    by_cases huv : u = v
    · subst huv; simp [upd] at hc
    · simp only [upd, huv, if_false] at hc; exact h u c hc
  | inline v =>
    simp only [step] at hc ⊢
    split at hc
    · rename_i t hd hn
      by_cases huv : u = v
      · subst huv
        simp only [upd, if_true, Option.some.injEq] at hc
        exact ⟨t, by simp [hd], hc.symm⟩
      · simp only [upd, huv, if_false] at hc
        have := h u c hc
        simpa using this
    · exact h u c hc

/-- For every history of notifications and inline-completion requests the template cache is
    fresh (repaired code). -/
theorem templates_fresh (templates : Text → Tpl) (es : List (Ev Text)) :
    Fresh templates (run templates true es) := by
  unfold run
  suffices ∀ σ, Fresh templates σ → Fresh templates (es.foldl (step templates true) σ) from
    this _ (fresh_init templates)
  induction es with
  | nil => intro σ h; exact h
  | cons e es ih => intro σ h; exact ih _ (fresh_step templates σ e h)

/-- **Inline completion answers from the current text**: whatever the history, the templates a
    request works with are those computed from the document's current text. -/
theorem inline_answers_from_current_text (templates : Text → Tpl) (es : List (Ev Text)) (u : Nat) :
    served templates (run templates true es) u = ((run templates true es).docs u).map templates := by
  have hf := templates_fresh templates es
  unfold served
  cases hd : (run templates true es).docs u with
  | none => rfl
  | some t =>
    cases hc : (run templates true es).cache u with
    | none => rfl
    | some c =>
      obtain ⟨t', ht', hc'⟩ := hf u c hc
      rw [hd] at ht'; cases ht'
      simp [hc']

/-- The pinned code (cache kept across changes, dropped on save only): after an unsaved change
    inline completion still serves the templates of the old text. -/
theorem pinned_stale_templates_counterexample :
    let es : List (Ev Nat) := [.change 0 10, .inline 0, .change 0 11]
    served (fun t => t) (run (fun t => t) false es) 0 = some 10 ∧
    ((run (fun t => t) false es).docs 0) = some 11 ∧
    served (fun t => t) (run (fun t => t) true es) 0 = some 11 := by
  decide

/-- The include tree a request reads is absent or that of the current text, for every history
    and every scheduling of the background tasks (HL.Bg is the model shared with C14). -/
theorem resolved_fresh {Text Res : Type} (load : Text → Res) (es : List (HL.Bg.Ev Text)) (u : Nat) :
    (HL.Bg.run load es).resolved u = none ∨
    ∃ t, (HL.Bg.run load es).docs u = some t ∧ (HL.Bg.run load es).resolved u = some (load t) :=
  HL.Props.C14.resolved_never_stale load es u

/-- **Every answer of a handler that reads the include tree is a function of the current text**:
    the handler applied to the current text with the tree of that text, or with no tree. -/
theorem answers_from_current_text {Text Res Resp : Type} (load : Text → Res)
    (h : Text → Option Res → Resp) (es : List (HL.Bg.Ev Text)) (u : Nat) :
    HL.Bg.respond h (HL.Bg.run load es) u = HL.Bg.specRespond load h (HL.Bg.run load es) u ∨
    HL.Bg.respond h (HL.Bg.run load es) u = HL.Bg.bareRespond h (HL.Bg.run load es) u :=
  HL.Props.C14.response_is_function_of_state load h es u

/-- Non-vacuity: a history in which the cache is filled, invalidated by a change and refilled. -/
example : served (fun t : Nat => t + 1) (run (fun t => t + 1) true
    [.change 0 10, .inline 0, .change 0 11, .inline 0, .save 0, .close 0, .change 0 12]) 0 = some 13 := by
  decide

end HL.Props.C01Fresh
