/-
  C01, second sentence: "Every feature answer is computed from that text and from no older
  version."  The document mirror itself is HL.Props.C01.mirror_history; here: the two caches
  the server derives from a document's text and consults when answering.

  * `Server.resolved` (include tree stored by a background task, or by the handler itself when a
    request arrives before the task): the model is HL.Bg (shared with C14); `resolved_fresh`
    re-states HL.Props.C14.resolved_never_stale under C01's name: for every history and every
    scheduling of the background tasks the stored tree is absent or the tree of the CURRENT
    text; `answers_from_current_text`: every answer is the handler applied to the current text
    and the tree of that text (no guard).
  * `Server.payeeTemplatesCache`: model HL.Derived; `templates_fresh`.

  Both hold for the code as repaired by the `fix:` commits "caches derived from a document
  never outlive the text they were computed from" and (the window in which no tree was stored)
  repo_patches/fix-resolved-pending.diff; `pinned_stale_templates_counterexample` and
  HL.Props.C14.pinned_resolved_pending_counterexample record the pinned behaviour.
-/
import HL.Model.Derived
import HL.Props.C14
namespace HL.Props.C01Fresh
open HL.Derived

variable {Text Tpl : Type}

/-- Invariant: a cached template set is the one computed from the document's current text. -/
def Fresh (templates : Text → Tpl) (σ : St Text Tpl) : Prop :=
  ∀ u c, σ.cache u = some c → ∃ t, σ.docs u = some t ∧ c = templates t

theorem fresh_init (templates : Text → Tpl) : Fresh templates (St.init : St Text Tpl) := by
  intro u c h; simp [St.init] at h

theorem fresh_step (templates : Text → Tpl) (σ : St Text Tpl) (e : Ev Text)
    (h : Fresh templates σ) : Fresh templates (step templates true σ e) := by
  intro u c hc
  cases e with
  | change v t =>
    simp only [step, if_true] at hc ⊢
    by_cases huv : u = v
    · subst huv; simp [upd] at hc
    · simp only [upd, huv, if_false] at hc ⊢; exact h u c hc
  | close v =>
    simp only [step, if_true] at hc ⊢
    by_cases huv : u = v
    · subst huv; simp [upd] at hc
    · simp only [upd, huv, if_false] at hc ⊢; exact h u c hc
  | save v =>
    simp only [step] at hc ⊢
    by_cases huv : u = v
    · subst huv; simp [upd] at hc
    · simp only [upd, huv, if_false] at hc; exact h u c hc
  | inline v =>
    simp only [step] at hc ⊢
    split at hc
    · rename_i t hd hn
      by_cases huv : u = v
      · subst huv
        simp only [upd, if_true, Option.some.injEq] at hc
        exact ⟨t, by simp [hd], hc.symm⟩
      · simp only [upd, huv, if_false] at hc
        have := h u c hc
        simpa using this
    · exact h u c hc

/-- For every history of notifications and inline-completion requests the template cache is
    fresh (repaired code). -/
theorem templates_fresh (templates : Text → Tpl) (es : List (Ev Text)) :
    Fresh templates (run templates true es) := by
  unfold run
  suffices ∀ σ, Fresh templates σ → Fresh templates (es.foldl (step templates true) σ) from
    this _ (fresh_init templates)
  induction es with
  | nil => intro σ h; exact h
  | cons e es ih => intro σ h; exact ih _ (fresh_step templates σ e h)

/-- **Inline completion answers from the current text**: whatever the history, the templates a
    request works with are those computed from the document's current text. -/
theorem inline_answers_from_current_text (templates : Text → Tpl) (es : List (Ev Text)) (u : Nat) :
    served templates (run templates true es) u = ((run templates true es).docs u).map templates := by
  have hf := templates_fresh templates es
  unfold served
  cases hd : (run templates true es).docs u with
  | none => rfl
  | some t =>
    cases hc : (run templates true es).cache u with
    | none => rfl
    | some c =>
      obtain ⟨t', ht', hc'⟩ := hf u c hc
      rw [hd] at ht'; cases ht'
      simp [hc']

/-- The pinned code (cache kept across changes, dropped on save only): after an unsaved change
    inline completion still serves the templates of the old text. -/
theorem pinned_stale_templates_counterexample :
    let es : List (Ev Nat) := [.change 0 10, .inline 0, .change 0 11]
    served (fun t => t) (run (fun t => t) false es) 0 = some 10 ∧
    ((run (fun t => t) false es).docs 0) = some 11 ∧
    served (fun t => t) (run (fun t => t) true es) 0 = some 11 := by
  decide

/-- The include tree stored for a document is absent or that of the current text, for every
    history (requests and configuration changes included) and every scheduling of the
    background tasks (HL.Bg is the model shared with C14). -/
theorem resolved_fresh {Text Res : Type} (load : Text → Res) (es : List (HL.Bg.Ev Text)) (u : Nat) :
    (HL.Bg.run load true es).resolved u = none ∨
    ∃ t, (HL.Bg.run load true es).docs u = some t ∧ (HL.Bg.run load true es).resolved u = some (load t) :=
  HL.Props.C14.resolved_never_stale load es u

/-- **Every answer of a handler that reads the include tree is computed from the current text
    and from no older version** — the handler applied to the text the document has when the
    request is taken and to the include tree of THAT text; no guard (the window between a
    change and the end of its background task was closed by the `fix:` commit "a request right
    after a change sees the included files").  `es` is any trace after which the handler thread
    is free and `u` is open with text `t`; `mid` is whatever the background does while the
    request is answered, and what follows. -/
theorem answers_from_current_text {Text Res Resp : Type} (load : Text → Res)
    (h : Text → Option Res → Resp) (es mid : List (HL.Bg.Ev Text)) (u : Nat) (t : Text)
    (a : HL.Bg.Answer Text Res)
    (idle : (HL.Bg.run load true es).req = none) (hd : (HL.Bg.run load true es).docs u = some t)
    (ha : (HL.Bg.run load true (es ++ .req u :: mid)).answers[(HL.Bg.run load true es).answers.length]? = some a) :
    a.response h = h t (some (load t)) := by
  have := (HL.Props.C14.response_is_function_of_state load h es mid u t a idle hd ha).2
  simpa [HL.Bg.specRespond, hd] using this

/-- ... and no answer at all, at any point of any trace, was computed without a tree or with the
    tree of another text than the one it was computed from. -/
theorem answers_never_from_older_text {Text Res : Type} (load : Text → Res)
    (es : List (HL.Bg.Ev Text)) (a : HL.Bg.Answer Text Res) (ha : a ∈ (HL.Bg.run load true es).answers) :
    a.tree = some (load a.doc) :=
  HL.Props.C14.every_answer_uses_tree_of_its_text load es a ha

/-- Non-vacuity of `answers_from_current_text`: change, request before the task of the change
    has run, a second change arriving after the answer. -/
example :
    let load := fun t : Nat => t + 100
    let es : List (HL.Bg.Ev Nat) := [.change 0 1, .start 0 0, .finish 0 0, .change 0 2]
    let mid : List (HL.Bg.Ev Nat) := [.adv, .adv, .start 0 0, .adv, .adv, .adv, .change 0 3]
    (HL.Bg.run load true es).req = none ∧ (HL.Bg.run load true es).docs 0 = some 2 ∧
    (HL.Bg.run load true (es ++ .req 0 :: mid)).answers[(HL.Bg.run load true es).answers.length]?
      = some ⟨0, 2, some 102⟩ := by
  decide

/-- Non-vacuity: a history in which the cache is filled, invalidated by a change and refilled. -/
example : served (fun t : Nat => t + 1) (run (fun t => t + 1) true
    [.change 0 10, .inline 0, .change 0 11, .inline 0, .save 0, .close 0, .change 0 12]) 0 = some 13 := by
  decide

end HL.Props.C01Fresh
