/-
  C17 — the theorems that tie the token geometry of HL/Props/C17.lean to the LEXER MODEL
  (HL/Model/Lexer.lean): in a text of the property's domain the lexer never takes the CR of a
  line end into a comment, so `ordered_disjoint_inline` and `covers_lexeme` hold without a guard
  (finding crlf-comment-length, repaired in the lexer).  Kept in a file of its own because the
  lexer's and the tokenizer's classifier types are both called `Classes`.
-/
import HL.Props.C17
import HL.Model.LexerPinned
import HL.Lemmas.LexCrlf
namespace HL.Props.C17
open HL.SemTok HL.SemTokSpec HL.Lemmas.SemTok

/-- The domain predicate of the property and the lexer lemmas' `CrOk` are the same function. -/
theorem crOnlyBeforeLf_eq (s : HL.Bytes) : crOnlyBeforeLf s = HL.Lex.CrOk s := by
  induction s with
  | nil => rfl
  | cons a t ih =>
    cases t with
    | nil => rfl
    | cons b r => simp only [crOnlyBeforeLf, HL.Lex.CrOk, ih]; rfl

/-- **The lexer never takes the CR of a line end into a comment.**  For every text in which a
    carriage return occurs only directly in front of a line feed (the property's domain) and
    every classifier, no Comment token of the lexer model's stream has a value that ends with a
    carriage return.  (HL/Lemmas/LexCrlf.lean; on the pinned lexer this was false:
    `pinned_crlf_comment_length_counterexample`.) -/
theorem lexer_comment_no_cr (C : HL.Classes) (text : HL.Bytes) (hd : crOnlyBeforeLf text = true) :
    ∀ t ∈ HL.Lex.lexAll C text, devCrComment t = false := by
  intro t ht
  by_cases hc : t.ty = .comment
  · have := HL.Lex.lexAll_comment_no_cr C text (by rw [← crOnlyBeforeLf_eq]; exact hd) t ht hc
    simpa [devCrComment, hc, cr] using this
  · simp [devCrComment, hc]

theorem mem_of_mem_mappedBody {toks : List HL.Token} {t : HL.Token} (h : t ∈ mappedBody toks) : t ∈ toks := by
  induction toks with
  | nil => simp [mappedBody] at h
  | cons a rest ih =>
    simp only [mappedBody] at h
    split at h
    · simp at h
    · split at h
      · rcases List.mem_cons.mp h with rfl | h
        · simp
        · exact List.mem_cons_of_mem _ (ih h)
      · exact List.mem_cons_of_mem _ (ih h)

/-- **ordered_disjoint_inline.**  For every text of the property's domain (CR only as part of
    CRLF — LF files, CRLF files and files that mix the two), every classifier of the lexer and
    of the tokenizer: the semantic tokens made from the lexer model's stream are in document
    order, do not overlap, and every one stays inside its line as the client counts it
    (UTF-16 units, the CRLF or LF line end not counted) — whenever that stream honours the
    contract about extents and line numbers.  No guard: CRLF line ends included. -/
theorem ordered_disjoint_inline (cls : HL.SemTok.Classes) (C : HL.Classes) (text : HL.Bytes) (hd : crOnlyBeforeLf text = true)
    (hx : extentsB text (HL.Lex.lexAll C text) = true) (hc : cutsB text (HL.Lex.lexAll C text) = true)
    (hl : (mappedBody (HL.Lex.lexAll C text)).all (lineOk text) = true) :
    orderedDisjoint ((tokenize cls text (HL.Lex.lexAll C text)).map absOf) = true ∧
    ∀ a ∈ (tokenize cls text (HL.Lex.lexAll C text)).map absOf, inLine (lineLens16 text) a = true := by
  refine ordered_disjoint_inline_of_contract cls text _ hx hc ?_
  rw [List.all_eq_true] at hl ⊢
  intro t ht
  simp [hl t ht, lexer_comment_no_cr C text hd t (mem_of_mem_mappedBody ht)]

/-- **covers_lexeme.**  For every text of the property's domain: a semantic token made from a
    token of the lexer model's stream (and not cut out of a comment) covers exactly that token's
    lexeme — whenever that lexer token honours the contract.  No guard: a comment on a CRLF line
    covers `;` and its text, not the CR. -/
theorem covers_lexeme (cls : HL.SemTok.Classes) (C : HL.Classes) (text : HL.Bytes) (hd : crOnlyBeforeLf text = true)
    (s : SemToken) (t : HL.Token) (h : (s, t) ∈ tokenizeSrc cls text (HL.Lex.lexAll C text))
    (hplain : t.ty = .comment → (extractTags cls text t).isEmpty = true)
    (hx : extentOk text t = true) (hc : cutOk text t = true) (hl : lineOk text t = true) :
    coversTok text t (absOf s) = true := by
  obtain ⟨_, _, hmem, _⟩ := tokGoSrc_mem cls text {} _ s t h
  exact covers_lexeme_of_contract cls text _ s t h hplain hx hc hl (lexer_comment_no_cr C text hd t hmem)

/-! ### Non-vacuity and the pinned behaviour -/

/-- ... and the two CRLF witnesses: the token lists recorded from the real lexer are the lexer
    model's streams, the texts are in the domain, all hypotheses hold. -/
example : W.crlfToks = HL.Lex.lexAll HL.Classes.ascii W.crlfText ∧
    W.trim2Toks = HL.Lex.lexAll HL.Classes.ascii W.trim2Text ∧
    crOnlyBeforeLf W.crlfText = true ∧ crOnlyBeforeLf W.trim2Text = true ∧
    hypsHold W.crlfText W.crlfToks = true ∧ hypsHold W.trim2Text W.trim2Toks = true := by decide +kernel

/-- `; note` + CRLF as the PINNED lexer reported it (HL/Model/LexerPinned.lean; the recorded
    token list is that model's output): the comment's value ended with the CR (`devCrComment`),
    so the token was one unit longer than its line although the lexer's output honoured the rest
    of the contract.  Repaired in the lexer: on the current lexer's output every token covers its
    lexeme and stays inside its line. -/
theorem pinned_crlf_comment_length_counterexample :
    W.crlfPinnedToks = HL.Lex.Pinned.lexAll HL.Classes.ascii W.crlfText ∧
    (tokenizeSrc HL.SemTok.Classes.ascii W.crlfText W.crlfPinnedToks).any (fun st =>
      devCrComment st.2 && !inLine (lineLens16 W.crlfText) (absOf st.1)) = true ∧
    (extentsB W.crlfText W.crlfPinnedToks && cutsB W.crlfText W.crlfPinnedToks &&
      (mappedBody W.crlfPinnedToks).all (lineOk W.crlfText)) = true ∧
    allCover W.crlfText W.crlfToks = true := by decide +kernel

/-- The token lists recorded from the pinned lexer for the two CRLF witnesses are the outputs of
    the pinned lexer model (HL/Model/LexerPinned.lean). -/
theorem pinned_witness_tokens :
    W.crlfPinnedToks = HL.Lex.Pinned.lexAll HL.Classes.ascii W.crlfText ∧
    W.trim2PinnedToks = HL.Lex.Pinned.lexAll HL.Classes.ascii W.trim2Text := by decide +kernel

end HL.Props.C17
