/-
  C08 — Every reported range is well-formed, UTF-16 correct and on target.
  Property theorems only; the model is HL/Model/Ranges.lean, the specification
  HL/Spec/RangeSpec.lean, helper lemmas HL/Lemmas/Ranges.lean.

  Reading guide.  The columns of the syntax tree count runes.  Every feature converts the
  position ranges it reports with `columnMapper.toProtocol` (model: `astRangeToProtocol lns`),
  which turns a rune column into the UTF-16 length of the line's prefix, using the lines of the
  text the tree was parsed from (repo_patches/fix-utf16-positions.diff); the cursor of a
  request goes the other way (`runeCur`).  Hypotheses:

    TreePositionsSound one doc j   every range of the tree that has an End is a range of the text
                                   in rune columns                 (lexer/parser obligation)
    docSmall doc                   line numbers and UTF-16 offsets of the document fit `uint32`
    hitGuard doc h                 an element whose range was computed by column arithmetic
                                   (payee range, tag halves, name ranges) has a range of the text;
                                   for a payee it holds on every header of the grammar
                                   (`payeeRange_lexSound`, `payeeHit_guard`: the payee's position
                                   is read off the header line, fix-payee-range.diff)

  Nothing is assumed about the characters that precede a range: the former guard "no rune
  outside the BMP earlier on the line" is gone (the `pinned_…` counterexamples keep the old
  behaviour on record).  Each remaining `_partial` theorem is followed by the counterexample
  that forces its guard.
-/
import HL.Lemmas.Ranges
import HL.Lemmas.Completion
import HL.Model.CompletionPinned
import HL.Model.Parser
import HL.Model.Pipeline
import HL.Model.LexerPinned
import HL.Lemmas.ParserAmountRange
import HL.Lemmas.PayeeRange
namespace HL.Props.C08
open HL HL.Ast HL.Text HL.Ranges HL.RangeSpec HL.Lemmas.Ranges HL.Lemmas.Text

/-! ## Columns versus UTF-16 offsets -/

/-- On a line whose runes before the column are all below U+10000, `column − 1` (the rune
    index) is the UTF-16 offset. -/
theorem col_is_utf16_of_bmp (line : Txt) (col : Nat) (hc : col - 1 ≤ line.length)
    (hb : ∀ c ∈ line.take (col - 1), c.val.toNat < 0x10000) :
    u16len (line.take (col - 1)) = col - 1 := by
  rw [u16len_of_bmp _ hb, List.length_take, Nat.min_eq_left hc]

/-- Non-vacuity: "café ж" before column 7. -/
example : u16len ("café ж x".toList.take (7 - 1)) = 7 - 1 := by decide

/-- One rune outside the BMP before the column shifts the UTF-16 offset by one unit: columns
    count runes, LSP counts UTF-16 code units. -/
theorem col_nonbmp_counterexample :
    u16len ("😀 x".toList.take (3 - 1)) = (3 - 1) + 1 := by decide

/-- The code as pinned copied `column − 1` into the character: on the line `😀 ab` the word `ab`
    occupies rune columns 3–5 and was sent as 0:2–0:4, which covers " a".  The repaired
    conversion sends 0:3–0:5. -/
theorem pinned_utf16_columns_counterexample :
    let doc := "😀 ab\n".toList
    let r : Rng := ⟨⟨1, 3, 5⟩, ⟨1, 5, 7⟩⟩
    rngSound one doc r = true ∧ lexSound one doc r "ab".toList = true ∧
    covers doc (toN (astRangeToProtocolPinned r)) "ab".toList = false ∧
    slice doc (toN (astRangeToProtocolPinned r)) = some " a".toList ∧
    toN (astRangeToProtocol (lines doc) r) = ⟨0, 3, 0, 5⟩ ∧
    covers doc (toN (astRangeToProtocol (lines doc) r)) "ab".toList = true := by decide

/-- … and a range that ends right after the emoji was sent with its end inside the surrogate
    pair: not a well-formed range at all. -/
theorem pinned_utf16_surrogate_counterexample :
    let doc := "a😀\n".toList
    let r : Rng := ⟨⟨1, 1, 0⟩, ⟨1, 3, 5⟩⟩
    rngSound one doc r = true ∧ rangeOK doc (toN (astRangeToProtocolPinned r)) = false ∧
    rangeOK doc (toN (astRangeToProtocol (lines doc) r)) = true := by decide

/-! ## The conversion -/

/-- `columnMapper.toProtocol` maps every range of the tree that has an End to a well-formed
    range of the document: inside the document, start ≤ end, both ends on code-unit boundaries
    that do not split a surrogate pair — whatever characters precede it. -/
theorem astRange_rangeOK (doc : Txt) (j : Journal) (r : Rng)
    (ht : TreePositionsSound one doc j = true) (hd : docSmall doc = true) (hr : r ∈ nodeRanges j)
    (hg : hasEnd r = true) :
    rangeOK doc (toN (astRangeToProtocol (lines doc) r)) = true := node_rangeOK ht hd hr hg

/-- … and the converted range covers exactly the lexeme that lies between the two rune columns. -/
theorem astRange_covers (doc : Txt) (r : Rng) (lex : Txt)
    (hl : lexSound one doc r lex = true) (hd : docSmall doc = true) :
    covers doc (toN (astRangeToProtocol (lines doc) r)) lex = true := conv_covers hl hd

/-- Non-vacuity of the two theorems above: non-ASCII and non-BMP text before and inside the
    lexeme. -/
example :
    let doc := "2024-01-15 😀 кафе𝄞\n    a:b  1\n".toList
    let r : Rng := ⟨⟨1, 14, 16⟩, ⟨1, 19, 28⟩⟩
    lexSound one doc r "кафе𝄞".toList = true ∧ docSmall doc = true ∧
    toN (astRangeToProtocol (lines doc) r) = ⟨0, 14, 0, 20⟩ := by decide

/-- The name ranges of `account` / `commodity` directives are stored without End; converting
    them sends line and character 4294967295 (`uint32(0 - 1)`).  No feature converts them any
    more (workspace symbols were the last: `pinned_directive_name_no_end_counterexample`). -/
theorem no_end_conversion_counterexample :
    let doc := "account a:b\n".toList
    let r : Rng := ⟨⟨1, 9, 8⟩, Pos.zero⟩
    toN (astRangeToProtocol (lines doc) r) = ⟨0, 8, 4294967295, 4294967295⟩ ∧
    rangeOK doc (toN (astRangeToProtocol (lines doc) r)) = false := by decide

/-! ## Per feature: well-formed ranges -/

/-- Hover: the `Range` of the response. -/
theorem hover_rangeOK_partial (doc : Txt) (j : Journal) (c : Cur) (h : Hit) (x : LRange)
    (ht : TreePositionsSound one doc j = true) (hd : docSmall doc = true)
    (hh : hover (lines doc) j c = some (h, x)) (hg : hitGuard doc h = true) :
    rangeOK doc (toN x) = true := by
  simp only [hover, Option.map_eq_some_iff] at hh
  obtain ⟨h', hf, he⟩ := hh
  simp only [Prod.mk.injEq] at he
  obtain ⟨rfl, rfl⟩ := he
  exact hit_rangeOK ht hd (findElement_node hf) hg

/-- Hover, definition-family and symbol ranges are on target: whenever the rune columns of the
    located element delimit `lex` on its line, the range sent covers exactly `lex`. -/
theorem hover_covers_partial (doc : Txt) (j : Journal) (c : Cur) (h : Hit) (x : LRange) (lex : Txt)
    (hh : hover (lines doc) j c = some (h, x)) (hl : lexSound one doc h.rng lex = true)
    (hd : docSmall doc = true) : covers doc (toN x) lex = true := by
  simp only [hover, Option.map_eq_some_iff] at hh
  obtain ⟨h', _, he⟩ := hh
  simp only [Prod.mk.injEq] at he
  obtain ⟨rfl, rfl⟩ := he
  exact conv_covers hl hd

/-- PrepareRename: the symbol range. -/
theorem prepareRename_rangeOK_partial (doc : Txt) (j : Journal) (c : Cur) (h : Hit) (x : LRange)
    (ht : TreePositionsSound one doc j = true) (hd : docSmall doc = true)
    (hh : prepareRename (lines doc) j c = some (h, x)) (hg : hitGuard doc h = true) :
    rangeOK doc (toN x) = true := by
  simp only [prepareRename, Option.map_eq_some_iff] at hh
  obtain ⟨h', hf, he⟩ := hh
  simp only [Prod.mk.injEq] at he
  obtain ⟨rfl, rfl⟩ := he
  exact hit_rangeOK ht hd (findDefinitionTarget_node hf) hg

/-- Definition: the returned location (a directive, a transaction, or the first usage) — a
    range stored in the tree, so nothing but its End is asked for. -/
theorem definition_rangeOK_partial (doc : Txt) (j : Journal) (c : Cur) (h : Hit) (x : LRange)
    (ht : TreePositionsSound one doc j = true) (hd : docSmall doc = true)
    (hh : (h, x) ∈ definition (lines doc) j c) (hg : hasEnd h.rng = true) :
    rangeOK doc (toN x) = true := by
  unfold definition at hh
  split at hh
  · simp at hh
  · split at hh
    · simp at hh
    · rename_i t _ h' hdef
      simp only [List.mem_singleton, Prod.mk.injEq] at hh
      obtain ⟨rfl, rfl⟩ := hh
      exact node_rangeOK ht hd (definitionHit_mem hdef) hg

/-- References (and the edits of Rename, which are the references with the declaration). -/
theorem references_rangeOK_partial (doc : Txt) (j : Journal) (c : Cur) (decl : Bool)
    (h : Hit) (x : LRange) (ht : TreePositionsSound one doc j = true) (hd : docSmall doc = true)
    (hh : (h, x) ∈ references (lines doc) j c decl) (hg : hitGuard doc h = true) :
    rangeOK doc (toN x) = true := by
  unfold references at hh
  split at hh
  · simp at hh
  · rename_i t _
    have := sortAndDedup_sub _ _ hh
    simp only [List.mem_map, Prod.mk.injEq] at this
    obtain ⟨h', hm, rfl, rfl⟩ := this
    exact hit_rangeOK ht hd (referenceHits_node hm) hg

theorem rename_rangeOK_partial (doc : Txt) (j : Journal) (c : Cur)
    (h : Hit) (x : LRange) (ht : TreePositionsSound one doc j = true) (hd : docSmall doc = true)
    (hh : (h, x) ∈ rename (lines doc) j c) (hg : hitGuard doc h = true) :
    rangeOK doc (toN x) = true :=
  references_rangeOK_partial doc j c true h x ht hd hh hg

/-- References and rename edits are on target: whenever the rune columns of an occurrence
    delimit `lex`, the location sent covers exactly `lex`. -/
theorem references_covers_partial (doc : Txt) (j : Journal) (c : Cur) (decl : Bool)
    (h : Hit) (x : LRange) (lex : Txt) (hh : (h, x) ∈ references (lines doc) j c decl)
    (hl : lexSound one doc h.rng lex = true) (hd : docSmall doc = true) :
    covers doc (toN x) lex = true := by
  unfold references at hh
  split at hh
  · simp at hh
  · have := sortAndDedup_sub _ _ hh
    simp only [List.mem_map, Prod.mk.injEq] at this
    obtain ⟨h', _, rfl, rfl⟩ := this
    exact conv_covers hl hd

/-- Rename on a declared account whose name holds a rune outside the BMP: both edits are
    well-formed and cover the name; and references from the commodity that FOLLOWS that name on
    the posting line (cursor given in UTF-16 units) covers the commodity — the shape on which
    the pinned code answered with " US" (`pinned_utf16_columns_counterexample`). -/
example :
    let doc := "account a😀:b\n2024-01-15 x\n    a😀:b  1 USD\n".toList
    let nm : Bytes := [97, 240, 159, 152, 128, 58, 98]
    let acct : Account := ⟨nm, ⟨⟨3, 5, 32⟩, ⟨3, 9, 39⟩⟩⟩
    let usd : Commodity := ⟨[85, 83, 68], .right, ⟨⟨3, 13, 43⟩, ⟨3, 16, 46⟩⟩⟩
    let p : Posting := ⟨.none, acct, some ⟨⟨1, 0⟩, [49], usd, false, ⟨⟨3, 11, 41⟩, ⟨3, 16, 46⟩⟩⟩, none, none, [], [],
      .none, ⟨⟨3, 5, 32⟩, ⟨3, 16, 46⟩⟩⟩
    let tx : Transaction := ⟨⟨2024, 1, 15, ⟨⟨2, 1, 15⟩, ⟨2, 11, 25⟩⟩⟩, none, .none, [], [120], [], [],
      [p], [], [], ⟨⟨2, 1, 15⟩, ⟨4, 1, 47⟩⟩⟩
    let j : Journal := ⟨[tx], [.account ⟨nm, ⟨⟨1, 9, 8⟩, Pos.zero⟩⟩ [] [] [] ⟨⟨1, 1, 0⟩, ⟨2, 1, 15⟩⟩], [], []⟩
    ((rename (lines doc) j ⟨2, 5⟩).map fun e => toN e.2) = [⟨0, 8, 0, 13⟩, ⟨2, 4, 2, 9⟩] ∧
    ((rename (lines doc) j ⟨2, 5⟩).map fun e => covers doc (toN e.2) "a😀:b".toList) = [true, true] ∧
    ((rename (lines doc) j ⟨2, 5⟩).map fun e => hitGuard doc e.1) = [true, true] ∧
    ((references (lines doc) j ⟨2, 14⟩ true).map fun e => (toN e.2, covers doc (toN e.2) "USD".toList)) =
      [(⟨2, 13, 2, 16⟩, true)] := by decide

/-- Workspace symbols as pinned converted the name range stored in the tree, which has no End:
    the symbol of a declared account was sent with the end 4294967295:4294967295.  The repaired
    code derives the end from the name. -/
theorem pinned_directive_name_no_end_counterexample :
    let doc := "account a:b\n".toList
    let j : Journal := ⟨[], [.account ⟨[97, 58, 98], ⟨⟨1, 9, 8⟩, Pos.zero⟩⟩ [] [] [] ⟨⟨1, 1, 0⟩, ⟨2, 1, 12⟩⟩], [], []⟩
    ((workspaceSymbolHitsPinned (lines doc) j).map fun h => toN (astRangeToProtocolPinned h.rng)) =
      [⟨0, 8, 4294967295, 4294967295⟩] ∧
    ((workspaceSymbolHitsPinned (lines doc) j).map fun h => rangeOK doc (toN (astRangeToProtocolPinned h.rng))) = [false] ∧
    ((workspaceSymbols (lines doc) j).map fun e => toN e.2) = [⟨0, 8, 0, 11⟩] ∧
    ((workspaceSymbols (lines doc) j).map fun e => covers doc (toN e.2) "a:b".toList) = [true] := by decide

/-- Document symbols: `Range` and `SelectionRange` of every outline entry. -/
theorem documentSymbol_rangeOK_partial (doc : Txt) (j : Journal)
    (ht : TreePositionsSound one doc j = true) (hd : docSmall doc = true)
    (hg : ∀ r ∈ symbolRanges j, hasEnd r = true) :
    ∀ x ∈ documentSymbols (lines doc) j, rangeOK doc (toN x) = true := by
  rw [documentSymbols_eq]
  exact map_conv_rangeOK ht hd (symbolRanges_sub j) hg

/-- Workspace symbols: every symbol's range is computed from a name (declared account or
    commodity) or read off the header line (payee); well-formed whenever those rune columns are positions of the
    text.  The former guard "the range has an End" is gone. -/
theorem workspaceSymbol_rangeOK (doc : Txt) (j : Journal) (h : Hit) (x : LRange)
    (hd : docSmall doc = true) (hh : (h, x) ∈ workspaceSymbols (lines doc) j)
    (hg : rngSound one doc h.rng = true) :
    rangeOK doc (toN x) = true := by
  simp only [workspaceSymbols, List.mem_map, Prod.mk.injEq] at hh
  obtain ⟨h', _, rfl, rfl⟩ := hh
  exact conv_rangeOK hg hd

/-- … and on target. -/
theorem workspaceSymbol_covers (doc : Txt) (j : Journal) (h : Hit) (x : LRange) (lex : Txt)
    (hd : docSmall doc = true) (hh : (h, x) ∈ workspaceSymbols (lines doc) j)
    (hl : lexSound one doc h.rng lex = true) : covers doc (toN x) lex = true := by
  simp only [workspaceSymbols, List.mem_map, Prod.mk.injEq] at hh
  obtain ⟨h', _, rfl, rfl⟩ := hh
  exact conv_covers hl hd

/-- The name range of a declared account is a range of the text whenever the name is written
    where the tree says it starts (`account` + blank + name): the guard of the two theorems
    above holds for every account directive of grammar G. -/
theorem nameRange_lexSound (doc : Txt) (start : Pos) (name : Bytes) (ln pre suf lex : Txt)
    (h1 : 1 ≤ start.line) (h2 : 1 ≤ start.col)
    (hl : (docLines doc)[start.line - 1]? = some ln) (hln : ln = pre ++ lex ++ suf)
    (hpre : pre.length = start.col - 1) (hlex : lex.length = runeLenB name) :
    lexSound one doc (nameRange start name) lex = true := by
  have e1 : start.col - 1 ≤ ln.length := by rw [hln]; simp; omega
  have e2 : start.col + runeLenB name - 1 ≤ ln.length := by rw [hln]; simp; omega
  simp only [lexSound, nameRange, hl, charsOf_one, e1, e2, if_true, Bool.and_eq_true, decide_eq_true_eq, beq_iff_eq]
  refine ⟨⟨⟨⟨decide_eq_true h1, trivial⟩, decide_eq_true h2⟩, decide_eq_true (by omega)⟩, by omega, ?_⟩
  have e3 : start.col + runeLenB name - 1 - (start.col - 1) = lex.length := by omega
  rw [e3, hln, ← hpre, List.append_assoc, List.drop_left, List.take_left]

/-- A range on one line whose two columns enclose `lex` is a range of the text that delimits
    exactly `lex` (rune columns). -/
theorem span_lexSound (doc : Txt) (r : Rng) (ln pre suf lex : Txt)
    (h1 : 1 ≤ r.start.line) (h2 : 1 ≤ r.start.col)
    (hl : (docLines doc)[r.start.line - 1]? = some ln) (hln : ln = pre ++ lex ++ suf)
    (hpre : pre.length = r.start.col - 1)
    (hsl : r.stop.line = r.start.line) (hsc : r.stop.col = r.start.col + lex.length) :
    lexSound one doc r lex = true := by
  have e1 : r.start.col - 1 ≤ ln.length := by rw [hln]; simp; omega
  have e2 : r.stop.col - 1 ≤ ln.length := by rw [hln]; simp; omega
  simp only [lexSound, hl, charsOf_one, e1, e2, if_true, Bool.and_eq_true, decide_eq_true_eq, beq_iff_eq]
  refine ⟨⟨⟨⟨h1, hsl.symm⟩, h2⟩, by omega⟩, by omega, ?_⟩
  have e3 : r.stop.col - 1 - (r.start.col - 1) = lex.length := by omega
  rw [e3, hln, ← hpre, List.append_assoc, List.drop_left, List.take_left]

/-- What the tree must say about the commodity `c` of a `commodity` / `P` directive whose
    lexeme `lex` (the symbol, WITH its quotes when it is written in quotes) stands on the line
    right after `pre`: it starts where the lexeme starts, and either the parser recorded the
    token's End — the position right after the lexeme — or it recorded none and the lexeme is
    the bare symbol.  This is what `Parser.directiveCommodity` produces from the lexer's token
    (`HL.Parser.directiveCommodity`, examples below). -/
def DirectiveCommodityAt (doc : Txt) (c : Commodity) (ln pre suf lex : Txt) : Prop :=
  1 ≤ c.range.start.line ∧ 1 ≤ c.range.start.col ∧
  (docLines doc)[c.range.start.line - 1]? = some ln ∧ ln = pre ++ lex ++ suf ∧
  pre.length = c.range.start.col - 1 ∧
  (if hasEnd c.range = true then
     c.range.stop.line = c.range.start.line ∧ c.range.stop.col = c.range.start.col + lex.length
   else lex.length = runeLenB c.symbol)

/-- **The range of a directive's commodity delimits its whole lexeme, quoted or not.**  No guard
    on the way the symbol is written is left (`pinned_quoted_commodity_directive_counterexample`
    keeps the behaviour before fix-quoted-commodity-directive.diff). -/
theorem directiveCommodityRange_lexSound (doc : Txt) (c : Commodity) (ln pre suf lex : Txt)
    (h : DirectiveCommodityAt doc c ln pre suf lex) :
    lexSound one doc (directiveCommodityRange c) lex = true := by
  obtain ⟨h1, h2, hl, hln, hpre, hend⟩ := h
  unfold directiveCommodityRange
  cases hz : c.range.stop == Pos.zero
  · have he : hasEnd c.range = true := by simp [hasEnd, bne, hz]
    simp only [he, if_true] at hend
    simp only [bne, hz, Bool.not_false, if_true]
    exact span_lexSound doc c.range ln pre suf lex h1 h2 hl hln hpre hend.1 hend.2
  · have he : ¬ hasEnd c.range = true := by simp [hasEnd, bne, hz]
    simp only [he] at hend
    simp only [bne, hz, Bool.not_true, Bool.false_eq_true, if_false]
    exact nameRange_lexSound doc c.range.start c.symbol ln pre suf lex h1 h2 hl hln hpre hend

/-- … hence the range sent for it (prepareRename, references, rename edits, workspace symbols) is
    a well-formed range of the document — it cannot end inside a surrogate pair — and covers
    exactly the lexeme. -/
theorem directiveCommodity_rangeOK_covers (doc : Txt) (c : Commodity) (ln pre suf lex : Txt)
    (h : DirectiveCommodityAt doc c ln pre suf lex) (hd : docSmall doc = true) :
    rangeOK doc (toN (astRangeToProtocol (lines doc) (directiveCommodityRange c))) = true ∧
    covers doc (toN (astRangeToProtocol (lines doc) (directiveCommodityRange c))) lex = true := by
  have hl := directiveCommodityRange_lexSound doc c ln pre suf lex h
  exact ⟨conv_rangeOK (rngSound_of_lexSound hl) hd, conv_covers hl hd⟩

/-- The hit of a directive's commodity whose End the parser recorded passes `hitGuard` (it is a
    range of the tree): `prepareRename_rangeOK_partial` / `references_rangeOK_partial` /
    `rename_rangeOK_partial` apply to it with `TreePositionsSound` alone. -/
theorem directiveCommodityHit_guard (doc : Txt) (nm : Bytes) (c : Commodity) (he : hasEnd c.range = true) :
    hitGuard doc (directiveCommodityHit nm c) = true := by
  have hz : (c.range.stop == Pos.zero) = false := by
    cases h : c.range.stop == Pos.zero
    · rfl
    · simp [hasEnd, bne, h] at he
  simp [hitGuard, directiveCommodityHit, directiveCommodityRange, hz, bne, he]

/-- PrepareRename is on target: whenever the rune columns of the located element delimit `lex`,
    the range offered for renaming covers exactly `lex`. -/
theorem prepareRename_covers_partial (doc : Txt) (j : Journal) (c : Cur) (h : Hit) (x : LRange) (lex : Txt)
    (hh : prepareRename (lines doc) j c = some (h, x)) (hl : lexSound one doc h.rng lex = true)
    (hd : docSmall doc = true) : covers doc (toN x) lex = true := by
  simp only [prepareRename, Option.map_eq_some_iff] at hh
  obtain ⟨h', _, he⟩ := hh
  simp only [Prod.mk.injEq] at he
  obtain ⟨rfl, rfl⟩ := he
  exact conv_covers hl hd

/-- Nothing collected is dropped: every occurrence `findReferences` collects is in the response
    with the range computed for it. -/
theorem references_complete (lns : List Txt) (j : Journal) (c : Cur) (decl : Bool) (t h : Hit)
    (ht : findDefinitionTarget lns j c = some t) (hh : h ∈ referenceHits lns j t decl) :
    ∃ e ∈ references lns j c decl, e.2 = astRangeToProtocol lns h.rng := by
  unfold references
  simp only [ht]
  obtain ⟨y, hy, hy2⟩ := sortAndDedup_sup ((referenceHits lns j t decl).map fun h => (h, astRangeToProtocol lns h.rng))
    (h, astRangeToProtocol lns h.rng) (List.mem_map.mpr ⟨h, hh, rfl⟩)
  exact ⟨y, hy, hy2⟩

/-- The `commodity` directive that declares the symbol is among the occurrences collected with
    the declaration, the `P` directive that prices it always is. -/
theorem referenceHits_directive_site (lns : List Txt) (j : Journal) (t : Hit) (decl : Bool) (d : Directive) (cm : Commodity)
    (hk : t.kind = .commodity) (hd : d ∈ j.directives) (hs : cm.symbol = t.name)
    (hsite : (∃ f n sub r, d = .commodity cm f n sub r ∧ decl = true) ∨ (∃ dt p r, d = .price dt cm p r)) :
    directiveCommodityHit t.name cm ∈ referenceHits lns j t decl := by
  unfold referenceHits
  simp only [hk, List.mem_append, List.mem_flatMap]
  refine Or.inl ⟨d, hd, ?_⟩
  rcases hsite with ⟨f, n, sub, r, rfl, rfl⟩ | ⟨dt, p, r, rfl⟩
  · simp [commodityRefDirective, hs]
  · simp [commodityRefDirective, hs]

/-- **References lists the directive site with the range of its whole lexeme**, and the rename
    edit for that site (rename = references with the declaration) replaces the whole lexeme:
    for a cursor anywhere on the symbol (a posting, a cost, the directive itself), the response
    holds a location that covers exactly the lexeme written in the directive, quotes included. -/
theorem references_directive_site_covers (doc : Txt) (j : Journal) (c : Cur) (decl : Bool) (t : Hit)
    (d : Directive) (cm : Commodity) (ln pre suf lex : Txt)
    (ht : findDefinitionTarget (lines doc) j c = some t) (hk : t.kind = .commodity)
    (hd : d ∈ j.directives) (hs : cm.symbol = t.name)
    (hsite : (∃ f n sub r, d = .commodity cm f n sub r ∧ decl = true) ∨ (∃ dt p r, d = .price dt cm p r))
    (hat : DirectiveCommodityAt doc cm ln pre suf lex) (hsm : docSmall doc = true) :
    ∃ e ∈ references (lines doc) j c decl, rangeOK doc (toN e.2) = true ∧ covers doc (toN e.2) lex = true := by
  obtain ⟨e, he, he2⟩ := references_complete (lines doc) j c decl t _ ht
    (referenceHits_directive_site (lines doc) j t decl d cm hk hd hs hsite)
  have := directiveCommodity_rangeOK_covers doc cm ln pre suf lex hat hsm
  refine ⟨e, he, ?_⟩
  rw [he2]
  exact this

theorem rename_directive_site_covers (doc : Txt) (j : Journal) (c : Cur) (t : Hit)
    (d : Directive) (cm : Commodity) (ln pre suf lex : Txt)
    (ht : findDefinitionTarget (lines doc) j c = some t) (hk : t.kind = .commodity)
    (hd : d ∈ j.directives) (hs : cm.symbol = t.name)
    (hsite : (∃ f n sub r, d = .commodity cm f n sub r) ∨ (∃ dt p r, d = .price dt cm p r))
    (hat : DirectiveCommodityAt doc cm ln pre suf lex) (hsm : docSmall doc = true) :
    ∃ e ∈ rename (lines doc) j c, rangeOK doc (toN e.2) = true ∧ covers doc (toN e.2) lex = true := by
  apply references_directive_site_covers doc j c true t d cm ln pre suf lex ht hk hd hs ?_ hat hsm
  rcases hsite with ⟨f, n, sub, r, h⟩ | h
  · exact Or.inl ⟨f, n, sub, r, h, rfl⟩
  · exact Or.inr h

/-! ### The quoted commodity of a directive, end to end on the two witnesses

    Text in, ranges out: the lexer and parser models (`HL.Pipeline.parseText`, what
    `parser.Parse` computes) produce the tree, the server model the ranges.  Both documents are
    replayed against the real server from replays/C08/quoted-commodity-directive.jsonl. -/

def qText : String :=
  "commodity \"AAPL 2\"\nP 2024-01-01 \"AAPL 2\" 2 USD\n\n2024-01-15 x\n    a:b  1 \"AAPL 2\"\n    c:d\n"
def qTree : Journal := (HL.Pipeline.parseText Classes.go qText.toUTF8.toList).1

/-- `commodity "AAPL 2"` / `P … "AAPL 2" 2 USD` / posting `1 "AAPL 2"`: the parser records the End
    of both directive commodities (columns 11–19 and 14–22); prepareRename on the declaration,
    references from the posting, the rename edits from the `P` line and the workspace symbol all
    report the whole lexeme `"AAPL 2"`, the same convention at the three kinds of site. -/
example :
    let doc := qText.toList
    (qTree.directives.map fun d => match d with
      | .commodity c _ _ _ _ => (hasEnd c.range, c.range.start.col, c.range.stop.col)
      | .price _ c _ _ => (hasEnd c.range, c.range.start.col, c.range.stop.col)
      | _ => (false, 0, 0)) = [(true, 11, 19), (true, 14, 22)] ∧
    TreePositionsSound one doc qTree = true ∧
    (prepareRename (lines doc) qTree ⟨0, 12⟩).map (fun e => (toN e.2, hitGuard doc e.1)) =
      some (⟨0, 10, 0, 18⟩, true) ∧
    ((references (lines doc) qTree ⟨4, 13⟩ true).map fun e => (toN e.2, covers doc (toN e.2) "\"AAPL 2\"".toList)) =
      [(⟨0, 10, 0, 18⟩, true), (⟨1, 13, 1, 21⟩, true), (⟨4, 11, 4, 19⟩, true)] ∧
    ((rename (lines doc) qTree ⟨1, 14⟩).map fun e => (toN e.2, covers doc (toN e.2) "\"AAPL 2\"".toList)) =
      [(⟨0, 10, 0, 18⟩, true), (⟨1, 13, 1, 21⟩, true), (⟨4, 11, 4, 19⟩, true)] ∧
    ((workspaceSymbols (lines doc) qTree).map fun e => slice doc (toN e.2)) =
      [some "\"AAPL 2\"".toList, some "x".toList] := by
  decide +kernel

def eText : String :=
  "commodity \"😀\"\nP 2024-01-01 \"😀\" 2 €\n\n2024-01-15 x\n    a😀:b  1 \"😀\"\n    c:d\n"
def eTree : Journal := (HL.Pipeline.parseText Classes.go eText.toUTF8.toList).1

/-- The symbol is a character outside the BMP (two UTF-16 units, one rune column), in the posting
    it stands after another one: every range is well-formed — none ends inside the surrogate
    pair — and covers `"😀"`. -/
example :
    let doc := eText.toList
    TreePositionsSound one doc eTree = true ∧
    (prepareRename (lines doc) eTree ⟨0, 11⟩).map (fun e => (toN e.2, rangeOK doc (toN e.2))) =
      some (⟨0, 10, 0, 14⟩, true) ∧
    ((references (lines doc) eTree ⟨4, 15⟩ true).map fun e =>
        (toN e.2, rangeOK doc (toN e.2), covers doc (toN e.2) "\"😀\"".toList)) =
      [(⟨0, 10, 0, 14⟩, true, true), (⟨1, 13, 1, 17⟩, true, true), (⟨4, 13, 4, 17⟩, true, true)] := by
  decide +kernel

/-- Non-vacuity of `DirectiveCommodityAt` on the parser's own trees: the quoted declaration
    (End recorded, lexeme with quotes) and a lower-case symbol followed by blanks and a comment
    (a text token: since fix-trailing-blank-ranges.diff it ends with its value, the End is recorded
    too and the blanks before the comment are not part of the range); and on a tree without End
    (what the parser recorded for a text token before that repair: the lexeme is the bare symbol). -/
example :
    DirectiveCommodityAt qText.toList ⟨"AAPL 2".toUTF8.toList, .left, ⟨⟨1, 11, 10⟩, ⟨1, 19, 18⟩⟩⟩
      "commodity \"AAPL 2\"".toList "commodity ".toList [] "\"AAPL 2\"".toList ∧
    (HL.Pipeline.parseText Classes.go "commodity usd  ; c\n".toUTF8.toList).1.directives =
      [.commodity ⟨"usd".toUTF8.toList, .left, ⟨⟨1, 11, 10⟩, ⟨1, 14, 13⟩⟩⟩ [] [] [] ⟨⟨1, 1, 0⟩, ⟨2, 1, 19⟩⟩] ∧
    DirectiveCommodityAt "commodity usd  ; c\n".toList ⟨"usd".toUTF8.toList, .left, ⟨⟨1, 11, 10⟩, ⟨1, 14, 13⟩⟩⟩
      "commodity usd  ; c".toList "commodity ".toList "  ; c".toList "usd".toList ∧
    HL.Parser.directiveCommodityPinnedTrail ⟨.text, "usd".toUTF8.toList, ⟨1, 11, 10⟩, ⟨1, 16, 15⟩⟩ =
      ⟨"usd".toUTF8.toList, .left, ⟨⟨1, 11, 10⟩, Pos.zero⟩⟩ ∧
    DirectiveCommodityAt "commodity usd  ; c\n".toList ⟨"usd".toUTF8.toList, .left, ⟨⟨1, 11, 10⟩, Pos.zero⟩⟩
      "commodity usd  ; c".toList "commodity ".toList "  ; c".toList "usd".toList := by
  refine ⟨⟨by decide, by decide, by decide +kernel, by decide +kernel, by decide, ?_⟩, by decide +kernel,
    ⟨by decide, by decide, by decide +kernel, by decide +kernel, by decide, ?_⟩, by decide +kernel,
    ⟨by decide, by decide, by decide +kernel, by decide +kernel, by decide, ?_⟩⟩
  · rw [if_pos (by decide)]; exact ⟨by decide, by decide⟩
  · rw [if_pos (by decide)]; exact ⟨by decide, by decide⟩
  · rw [if_neg (by decide)]; decide +kernel

/-- **pinned_quoted_commodity_directive_counterexample** (before
    repo_patches/fix-quoted-commodity-directive.diff).  The parser recorded only where the
    commodity of a `commodity` / `P` directive starts (`HL.Parser.directiveCommodityPinned`) and
    the server derived the end from the symbol's length: for `commodity "AAPL 2"` prepareRename,
    references with the declaration and the rename edit reported 0:10–0:16, which covers
    `"AAPL ` — a rename left `2"` behind; for `commodity "😀"` (one rune) it reported 0:10–0:11,
    the opening quote alone.  The repaired server computes exactly that for a tree without End
    (its fallback), and the whole lexeme for the tree the repaired parser produces. -/
theorem pinned_quoted_commodity_directive_counterexample :
    let doc := "commodity \"AAPL 2\"\n".toList
    let tok : Token := ⟨.commodity, "AAPL 2".toUTF8.toList, ⟨1, 11, 10⟩, ⟨1, 19, 18⟩⟩
    let old := HL.Parser.directiveCommodityPinned tok
    let new := HL.Parser.directiveCommodity tok
    let doc2 := "commodity \"😀\"\n".toList
    let tok2 : Token := ⟨.commodity, [240, 159, 152, 128], ⟨1, 11, 10⟩, ⟨1, 14, 16⟩⟩
    let old2 := HL.Parser.directiveCommodityPinned tok2
    let new2 := HL.Parser.directiveCommodity tok2
    toN (astRangeToProtocol (lines doc) (directiveCommodityRangePinned old)) = ⟨0, 10, 0, 16⟩ ∧
    covers doc (toN (astRangeToProtocol (lines doc) (directiveCommodityRangePinned old))) "\"AAPL 2\"".toList = false ∧
    slice doc (toN (astRangeToProtocol (lines doc) (directiveCommodityRangePinned old))) = some "\"AAPL ".toList ∧
    directiveCommodityRange old = directiveCommodityRangePinned old ∧
    covers doc (toN (astRangeToProtocol (lines doc) (directiveCommodityRange new))) "\"AAPL 2\"".toList = true ∧
    toN (astRangeToProtocol (lines doc2) (directiveCommodityRangePinned old2)) = ⟨0, 10, 0, 11⟩ ∧
    slice doc2 (toN (astRangeToProtocol (lines doc2) (directiveCommodityRangePinned old2))) = some "\"".toList ∧
    rangeOK doc2 (toN (astRangeToProtocol (lines doc2) (directiveCommodityRange new2))) = true ∧
    covers doc2 (toN (astRangeToProtocol (lines doc2) (directiveCommodityRange new2))) "\"😀\"".toList = true := by
  decide +kernel

/-- Document links, code as pinned (range of the whole directive). -/
theorem documentLink_rangeOK_partial (doc : Txt) (j : Journal) (fx : Fixes)
    (hfx : fx.link = false) (ht : TreePositionsSound one doc j = true) (hd : docSmall doc = true)
    (hg : ∀ i ∈ j.includes, hasEnd i.range = true) :
    ∀ x ∈ documentLinks fx doc j, rangeOK doc (toN x) = true := by
  intro x hx
  unfold documentLinks at hx
  split at hx
  · simp at hx
  · simp only [hfx, Bool.false_eq_true, if_false, List.mem_map] at hx
    obtain ⟨i, hi, rfl⟩ := hx
    exact node_rangeOK ht hd (inc_range_mem hi) (hg i hi)

/-- Document links with repo_patches/fix-link-range.diff: whenever the path is written on the
    directive's line after the keyword, the link range covers exactly the path — in UTF-16
    units, whatever precedes it on the line, with or without a CR at the line end. -/
theorem documentLink_covers (doc : Txt) (inc : Include) (line : Txt) (kw p : Nat)
    (h0 : inc.range.start.line ≠ 0)
    (hl : (lines doc)[inc.range.start.line - 1]? = some line)
    (hk : indexOf "include".toList line 0 = some kw)
    (hp : indexOf (decodeUtf8 inc.path) (line.drop (kw + 7)) (kw + 7) = some p)
    (hcr : '\r' ∉ decodeUtf8 inc.path) (hne : decodeUtf8 inc.path ≠ [])
    (hs1 : inc.range.start.line - 1 < 4294967296) (hs2 : u16len line < 4294967296) :
    covers doc (toN (includePathRange doc inc)) (decodeUtf8 inc.path) = true := by
  have hpath : ∀ x, x = decodeUtf8 inc.path → covers doc (toN (includePathRange doc inc)) x = true := by
    intro path hpe
    rw [← hpe] at hp hcr hne
    obtain ⟨i1, i2, i3⟩ := indexOf_spec hp
    simp only [List.length_drop] at i2
    rw [List.drop_drop] at i3
    have hpos : kw + 7 + (p - (kw + 7)) = p := by omega
    rw [hpos] at i3
    have hplen0 : 0 < path.length := List.length_pos_iff.mpr hne
    have hend : p + path.length ≤ line.length := by omega
    -- the path region does not reach a trailing CR
    have hstrip : p + path.length ≤ (stripCR line).length := by
      unfold stripCR
      split
      · rename_i hlast
        simp only [List.length_dropLast]
        rcases Nat.lt_or_ge (p + path.length) line.length with hlt | hge
        · omega
        · exfalso
          have heq : p + path.length = line.length := by omega
          have hplen : 0 < path.length := List.length_pos_iff.mpr hne
          -- the last char of the line is the last char of the path
          have hlast' : line.getLast? = path.getLast? := by
            have hd : line.drop p = path := by
              have : (line.drop p).length = path.length := by simp; omega
              rw [← i3, List.take_of_length_le (by omega)]
            have : line = line.take p ++ path := by rw [← hd]; simp
            rw [this, List.getLast?_append]
            cases hpl : path.getLast? with
            | none => simp [List.getLast?_eq_none_iff] at hpl; exact absurd hpl hne
            | some x => simp
          rw [hlast] at hlast'
          have := List.mem_of_getLast? hlast'.symm
          exact hcr this
      · exact hend
    obtain ⟨suf, hsuf⟩ := stripCR_prefix line
    have htk : ∀ n, n ≤ (stripCR line).length → line.take n = (stripCR line).take n := by
      intro n hn
      have e : line.take n = (stripCR line ++ suf).take n := by rw [← hsuf]
      rw [e, List.take_append_of_le_length hn]
    have hdrop : ((stripCR line).drop p).take path.length = path := by
      have e1 : (line.take (p + path.length)).drop p = (line.drop p).take path.length := by
        rw [List.drop_take]; congr 1; omega
      have e2 : ((stripCR line).take (p + path.length)).drop p = ((stripCR line).drop p).take path.length := by
        rw [List.drop_take]; congr 1; omega
      rw [← e2, ← htk _ hstrip, e1, i3]
    have hu : u16len (line.take p) + u16len path = u16len ((stripCR line).take (p + path.length)) := by
      rw [u16len_take_add, hdrop, htk p (by omega)]
    have hle1 : u16len (line.take p) ≤ u16len line := by
      have := u16len_take_mono line (Nat.le_of_lt_succ (Nat.lt_succ_of_le (by omega : p ≤ line.length))) (Nat.le_refl _)
      simpa using this
    have hle2 : u16len (line.take p) + u16len path ≤ u16len line := by
      have := u16len_take_mono line hend (Nat.le_refl _)
      rw [u16len_take_add, i3] at this
      simpa using this
    unfold includePathRange
    simp only [h0, if_false, hl, hk, ← hpe, hp]
    have e1 : (UInt32.ofNat (inc.range.start.line - 1)).toNat = inc.range.start.line - 1 := by
      rw [UInt32.toNat_ofNat']; omega
    have e2 : (UInt32.ofNat (u16len (line.take p))).toNat = u16len (line.take p) := by
      rw [UInt32.toNat_ofNat']; omega
    have e3 : (UInt32.ofNat (u16len (line.take p) + u16len path)).toNat = u16len (line.take p) + u16len path := by
      rw [UInt32.toNat_ofNat']; omega
    simp only [covers, rangeOK, slice, toN, e1, e2, e3, posOK, docLines_get, hl, Option.map_some, charsOfUnits,
      ne_eq, not_true_eq_false, if_false, Bool.and_eq_true, beq_iff_eq]
    rw [hu, charsOf_u16_take _ _ hstrip, htk p (by omega), charsOf_u16_take _ _ (by omega)]
    simp only [Option.isSome_some, leqPos, Bool.or_eq_true, Bool.and_eq_true, decide_eq_true_eq, beq_self_eq_true,
      true_and, Nat.le_add_right, if_true, Nat.add_sub_cancel_left, hdrop, and_true]
    right
    rw [← htk p (by omega), ← hu]; omega
  exact hpath _ rfl

/-- Non-vacuity: `include год/😀.journal` preceded by nothing, and the repaired range. -/
example :
    let doc := "include a😀.journal\n".toList
    let inc : Include := ⟨[97, 240, 159, 152, 128, 46, 106, 111, 117, 114, 110, 97, 108], ⟨⟨1, 1, 0⟩, ⟨1, 19, 21⟩⟩⟩
    toN (includePathRange doc inc) = ⟨0, 8, 0, 19⟩ ∧
    covers doc (toN (includePathRange doc inc)) "a😀.journal".toList = true := by decide

/-- Diagnostics: parse errors (a token position), analyzer diagnostics (ranges of postings,
    transactions and commodities, stored in the tree; or tag ranges, computed by parseTags, for
    which the guard asks that they be rune-column ranges of the text), include errors. -/
theorem diagnostics_rangeOK_partial (doc : Txt) (j : Journal)
    (perrs : List ParseError) (an load : List Rng)
    (ht : TreePositionsSound one doc j = true) (hd : docSmall doc = true)
    (hp : ∀ e ∈ perrs, rngSound one doc ⟨e.pos, e.pos⟩ = true)
    (ha : ∀ r ∈ an, (r ∈ nodeRanges j ∧ hasEnd r = true) ∨ rngSound one doc r = true)
    (hl : ∀ r ∈ load, r ∈ nodeRanges j ∧ hasEnd r = true) :
    ∀ x ∈ diagnostics (lines doc) perrs an load, rangeOK doc (toN x) = true := by
  intro x hx
  simp only [diagnostics, List.mem_append, List.mem_map] at hx
  rcases hx with (⟨e, he, rfl⟩ | ⟨r, hr, rfl⟩) | ⟨r, hr, rfl⟩
  · exact conv_rangeOK (hp e he) hd
  · rcases ha r hr with h | h
    · exact node_rangeOK ht hd h.1 h.2
    · exact conv_rangeOK h hd
  · -- `max(1, x)` is the identity on the 1-based lines and columns of a range of the text
    have htt := ht
    simp only [TreePositionsSound, List.all_eq_true, Bool.or_eq_true] at htt
    have hz' : ¬ (r.stop == Pos.zero) = true := by
      intro h'; have := (hl r hr).2; simp [hasEnd, bne, h'] at this
    have hsound := (htt r (hl r hr).1).resolve_left hz'
    have hs2 := hsound
    simp only [rngSound, posSound, Bool.and_eq_true, decide_eq_true_eq] at hs2
    have e1 : max 1 r.start.line = r.start.line := Nat.max_eq_right hs2.1.1.1.1
    have e2 : max 1 r.start.col = r.start.col := Nat.max_eq_right hs2.1.1.1.2
    have e3 : max 1 r.stop.line = r.stop.line := Nat.max_eq_right hs2.1.2.1.1
    have e4 : max 1 r.stop.col = r.stop.col := Nat.max_eq_right hs2.1.2.1.2
    rw [e1, e2, e3, e4]
    have hconv : ∀ o1 o2, astRangeToProtocol (lines doc) ⟨⟨r.start.line, r.start.col, o1⟩, ⟨r.stop.line, r.stop.col, o2⟩⟩ =
        astRangeToProtocol (lines doc) r := fun _ _ => rfl
    rw [hconv]
    exact conv_rangeOK hsound hd

/-- Inline completion: the edit range `line:0 – cursor` is well-formed for every cursor that is
    a position of the document (full theorem, no guard). -/
theorem inlineCompletion_rangeOK (doc : Txt) (c : Cur) (n : Nat)
    (hc : posOK doc c.line c.char = true) (h1 : c.line < 4294967296) (h2 : c.char < 4294967296) :
    ∀ x ∈ inlineEdits c n, rangeOK doc (toN x) = true := by
  intro x hx
  unfold inlineEdits at hx
  split at hx
  · simp at hx
  · simp only [List.mem_singleton] at hx
    subst hx
    have e1 : (UInt32.ofNat c.line).toNat = c.line := by rw [UInt32.toNat_ofNat']; omega
    have e2 : (UInt32.ofNat c.char).toNat = c.char := by rw [UInt32.toNat_ofNat']; omega
    simp only [rangeOK, toN, e1, e2, Bool.and_eq_true]
    refine ⟨⟨?_, hc⟩, by simp [leqPos]⟩
    unfold posOK at hc ⊢
    split at hc
    · simp at hc
    · rename_i ln hl
      have : (0 : UInt32).toNat = 0 := rfl
      simp [this, hl, charsOfUnits, charsOf]

/-! ## Forced guards on "covers exactly that text": counterexamples

    The trees below are what the real parser produces for the quoted texts (the same documents
    are replayed against the real server from replays/C08/). -/

/-- the lexer state at byte `off` of `text`, on line `line` at column `col` -/
def stateAt (text : Bytes) (off line col : Nat) : HL.Lex.Z := ⟨(text.take off).reverse, text.drop off, line, col, false⟩

/-- **pinned_account_trailing_blank_counterexample** (before repo_patches/fix-trailing-blank-ranges.diff).
    `    a:b ;c`: the account token ended where the scan stopped, behind the single blank
    (`HL.Lex.PinnedTrail.scanAccount`: End 2:9); the range sent for the account covered "a:b ".
    The repaired lexer ends the token with the name (End 2:8) and leaves the lexer in the same
    state; the range covers exactly "a:b" (`HL.Props.C06.account_token_is_its_name`: for every
    byte string). -/
theorem pinned_account_trailing_blank_counterexample :
    let doc := "2024-01-15 x\n    a:b ;c\n".toList
    let z := stateAt "2024-01-15 x\n    a:b ;c\n".toUTF8.toList 17 2 5
    let old := HL.Lex.PinnedTrail.scanAccount z
    let new := HL.Lex.scanAccount z
    (old.1.pos, old.1.stop) = (⟨2, 5, 17⟩, ⟨2, 9, 21⟩) ∧ (new.1.pos, new.1.stop) = (⟨2, 5, 17⟩, ⟨2, 8, 20⟩) ∧
    old.1.val = new.1.val ∧ old.2 = new.2 ∧
    covers doc (toN (astRangeToProtocol (lines doc) ⟨old.1.pos, old.1.stop⟩)) "a:b".toList = false ∧
    slice doc (toN (astRangeToProtocol (lines doc) ⟨old.1.pos, old.1.stop⟩)) = some "a:b ".toList ∧
    covers doc (toN (astRangeToProtocol (lines doc) ⟨new.1.pos, new.1.stop⟩)) "a:b".toList = true := by
  decide +kernel

/-- **pinned_commodity_text_trailing_blank_counterexample.**  `1 руб  ; c`: a commodity lexed as
    text ended where `scanText` stopped, at the `;` (`HL.Lex.PinnedTrail.scanText`: End 2:17); the
    commodity range covered "руб  ".  The repaired lexer ends the token behind the last character
    of its value (End 2:15, `HL.Props.C06.text_token_is_its_value`), same lexer state. -/
theorem pinned_commodity_text_trailing_blank_counterexample :
    let doc := "2024-01-15 x\n    a:b  1 руб  ; c\n".toList
    let z := stateAt "2024-01-15 x\n    a:b  1 руб  ; c\n".toUTF8.toList 24 2 12
    let old := HL.Lex.PinnedTrail.scanText z
    let new := HL.Lex.scanText z
    (old.1.pos, old.1.stop) = (⟨2, 12, 24⟩, ⟨2, 17, 32⟩) ∧ (new.1.pos, new.1.stop) = (⟨2, 12, 24⟩, ⟨2, 15, 30⟩) ∧
    old.1.val = new.1.val ∧ old.2 = new.2 ∧
    slice doc (toN (astRangeToProtocol (lines doc) ⟨old.1.pos, old.1.stop⟩)) = some "руб  ".toList ∧
    covers doc (toN (astRangeToProtocol (lines doc) ⟨new.1.pos, new.1.stop⟩)) "руб".toList = true := by
  decide +kernel

/-- **pinned_amount_trailing_blank_counterexample.**  `1 USD ; c`: `Amount.Range` ended at the Pos
    of the token that follows the amount (the comment, 2:16) and covered "1 USD "; the repaired
    parser ends it where the last token of the amount ends (2:15): the tree of the repaired lexer
    and parser models, and the range hover reports for it. -/
theorem pinned_amount_trailing_blank_counterexample :
    let doc := "2024-01-15 x\n    a:b  1 USD ; c\n".toList
    let old : Rng := ⟨⟨2, 10, 22⟩, ⟨2, 16, 28⟩⟩
    let tree := (HL.Pipeline.parseText Classes.go "2024-01-15 x\n    a:b  1 USD ; c\n".toUTF8.toList).1
    rngSound one doc old = true ∧ slice doc (toN (astRangeToProtocol (lines doc) old)) = some "1 USD ".toList ∧
    (tree.transactions.map fun t => t.postings.map fun p => p.amount.map (·.range)) =
      [[some ⟨⟨2, 10, 22⟩, ⟨2, 15, 27⟩⟩]] ∧
    ((hover (lines doc) tree ⟨1, 11⟩).map fun e => (toN e.2, slice doc (toN e.2))) =
      some (⟨1, 9, 1, 14⟩, some "1 USD".toList) := by
  decide +kernel

/-- **Where `Amount.Range` ends**, for every token source and every parser state: with the
    right-hand commodity of the amount if it has one, otherwise with its number (one of the first
    four tokens `parseAmount` looks at) — never at the token that follows. -/
theorem amount_range_ends_with_last_token {σ : Type} (E : HL.Parser.Env σ) (st st' : HL.Parser.PState σ)
    (a : Amount) (h : HL.Parser.parseAmount E st = (some a, st')) :
    a.range.start = st.current.pos ∧
    ((a.commodity.side = .right ∧ a.range.stop = a.commodity.range.stop) ∨
     (∃ s1, (s1 = st ∨ s1 = HL.Parser.advance E st ∨ s1 = HL.Parser.advance E (HL.Parser.advance E st) ∨
          s1 = HL.Parser.advance E (HL.Parser.advance E (HL.Parser.advance E st))) ∧
        s1.current.ty = .number ∧ a.range.stop = s1.current.stop)) :=
  HL.Parser.amount_range_stop E st st' a h

/-- The three witnesses end to end (text in, ranges out, through the lexer, parser and server
    models): every cursor on `a:b` hovers the account with the range of "a:b", every cursor on
    the amount hovers "1 USD", references / definition from every cursor on `руб` report "руб". -/
example :
    let d1 := "2024-01-15 x\n    a:b ;c\n"
    let t1 := (HL.Pipeline.parseText Classes.go d1.toUTF8.toList).1
    let d3 := "2024-01-15 x\n    a:b  1 руб  ; c\n    c:d\n"
    let t3 := (HL.Pipeline.parseText Classes.go d3.toUTF8.toList).1
    ([4, 5, 6, 7].map fun ch => (hover (lines d1.toList) t1 ⟨1, ch⟩).map fun e => (toN e.2, covers d1.toList (toN e.2) "a:b".toList)) =
      List.replicate 4 (some (⟨1, 4, 1, 7⟩, true)) ∧
    hover (lines d1.toList) t1 ⟨1, 8⟩ = none ∧
    ([11, 12, 13, 14].map fun ch => (references (lines d3.toList) t3 ⟨1, ch⟩ true).map fun e =>
        (toN e.2, covers d3.toList (toN e.2) "руб".toList)) = List.replicate 4 [(⟨1, 11, 1, 14⟩, true)] ∧
    references (lines d3.toList) t3 ⟨1, 15⟩ true = [] ∧
    ([11, 14].map fun ch => (definition (lines d3.toList) t3 ⟨1, ch⟩).map fun e => slice d3.toList (toN e.2)) =
      List.replicate 2 [some "руб".toList] := by
  decide +kernel

/-! ## The payee's range (repo_patches/fix-payee-range.diff)

    The tree has no position for a transaction's description.  `(*columnMapper).payeeRange`
    reads it off the header line of the text the tree was parsed from (`HL.PayeeRange`); the
    theorems below hold for every line that consists of any text up to the end of the date
    (`pre`: any date form, any column) followed by a header of the grammar of DESIGN 4.2
    (`HL.Spec.HeaderG.Header`, well-formedness `Header.wf`): optional secondary date, status
    mark and code, each after any run of blanks and tabs, then the payee, then anything
    (`| note`, `; comment`, the CR of a CRLF line end). -/

open HL.Spec.HeaderG in
/-- What text and tree must say about the transaction `tx` for `h` to be its header: the line of
    the date is `pre` followed by the printed header, `pre` ends where the tree says the date
    ends, and the payee written there has as many runes as the payee of the tree
    (`getPayeeOrDescription`). -/
def HeaderAt (doc : Txt) (tx : Transaction) (pre : Txt) (h : Header) : Prop :=
  1 ≤ tx.date.range.start.line ∧ 1 ≤ tx.date.range.stop.col ∧
  (docLines doc)[tx.date.range.start.line - 1]? = some (pre ++ h.print) ∧
  pre.length = tx.date.range.stop.col - 1 ∧
  h.payee.length = runeLenB (payeeOf tx)

open HL.Spec.HeaderG in
/-- **The range computed for the payee starts right after the header's lead and is as long as
    the payee.** -/
theorem payeeRange_eq (doc : Txt) (tx : Transaction) (pre : Txt) (h : Header)
    (hat : HeaderAt doc tx pre h) (hw : h.wf = true) :
    payeeRange (lines doc) tx (payeeOf tx) =
      ⟨⟨tx.date.range.start.line, tx.date.range.stop.col + h.lead.length, 0⟩,
       ⟨tx.date.range.start.line, tx.date.range.stop.col + h.lead.length + runeLenB (payeeOf tx), 0⟩⟩ := by
  obtain ⟨h1, h2, hl, hpre, _⟩ := hat
  obtain ⟨l, hl', hcr⟩ := docLines_lines doc _ _ hl
  have hcol : HL.PayeeRange.descriptionColumn l tx.date.range.stop.col =
      some (tx.date.range.stop.col + h.lead.length) := by
    rcases hcr with rfl | rfl
    · simp only [Header.print]
      exact HL.Lemmas.PayeeRange.descriptionColumn_header pre h h.tail _ hw h2 hpre
    · simp only [Header.print, List.append_assoc]
      exact HL.Lemmas.PayeeRange.descriptionColumn_header pre h (h.tail ++ ['\r']) _ hw h2 hpre
  have h0 : tx.date.range.start.line ≠ 0 := by omega
  simp only [payeeRange, HL.PayeeRange.payeeStart, h0, if_false, hl', hcol]

open HL.Spec.HeaderG in
/-- **payeeRange_lexSound.**  On every header of the grammar the computed range is a range of
    the text that delimits exactly the payee's lexeme (rune columns). -/
theorem payeeRange_lexSound (doc : Txt) (tx : Transaction) (pre : Txt) (h : Header)
    (hat : HeaderAt doc tx pre h) (hw : h.wf = true) :
    lexSound one doc (payeeRange (lines doc) tx (payeeOf tx)) h.payee = true := by
  rw [payeeRange_eq doc tx pre h hat hw]
  obtain ⟨h1, h2, hl, hpre, hlen⟩ := hat
  refine span_lexSound doc _ (pre ++ h.print) (pre ++ h.lead) h.tail h.payee h1 (by simp; omega) hl
    (by simp [Header.print, List.append_assoc]) (by simp; omega) rfl (by simp [hlen])

open HL.Spec.HeaderG in
/-- **payeeRange_covers.**  … hence the range sent for the payee (hover, prepareRename,
    references, the rename edits, the workspace symbol) is a well-formed range of the document
    and COVERS exactly the payee's lexeme — with a code, a secondary date, a status mark, any
    spacing of blanks and tabs before it, `| note` or a comment after it, characters outside the
    BMP anywhere on the line, LF or CRLF line ends.  No guard on the shape of the header is left
    (`pinned_payee_estimate_counterexample` keeps the behaviour before the repair). -/
theorem payeeRange_covers (doc : Txt) (tx : Transaction) (pre : Txt) (h : Header)
    (hat : HeaderAt doc tx pre h) (hw : h.wf = true) (hd : docSmall doc = true) :
    rangeOK doc (toN (astRangeToProtocol (lines doc) (payeeRange (lines doc) tx (payeeOf tx)))) = true ∧
    covers doc (toN (astRangeToProtocol (lines doc) (payeeRange (lines doc) tx (payeeOf tx)))) h.payee = true := by
  have hl := payeeRange_lexSound doc tx pre h hat hw
  exact ⟨conv_rangeOK (rngSound_of_lexSound hl) hd, conv_covers hl hd⟩

/-- The located payee of a transaction, as every feature builds it. -/
def payeeHit (lns : List Txt) (tx : Transaction) : Hit :=
  ⟨.payee, payeeOf tx, payeeRange lns tx (payeeOf tx), true⟩

open HL.Spec.HeaderG in
/-- The payee hit of a grammar header passes `hitGuard`: the `_partial` theorems of hover,
    prepareRename, references and rename apply to it with no guard on the header's shape. -/
theorem payeeHit_guard (doc : Txt) (tx : Transaction) (pre : Txt) (h : Header)
    (hat : HeaderAt doc tx pre h) (hw : h.wf = true) :
    hitGuard doc (payeeHit (lines doc) tx) = true := by
  simp only [hitGuard, payeeHit, if_true]
  exact rngSound_of_lexSound (payeeRange_lexSound doc tx pre h hat hw)

/-- Every transaction that shows a payee has a grammar header. -/
def PayeesAt (doc : Txt) (j : Journal) : Prop :=
  ∀ tx ∈ j.transactions, payeeOf tx ≠ [] → ∃ pre h, HeaderAt doc tx pre h ∧ HL.Spec.HeaderG.Header.wf h = true

/-- The element is the payee of one of the journal's transactions. -/
def IsPayeeHit (lns : List Txt) (j : Journal) (h : Hit) : Prop :=
  ∃ tx ∈ j.transactions, payeeOf tx ≠ [] ∧ h = payeeHit lns tx

/-- Hover: a payee element is the payee hit of a transaction of the journal. -/
theorem findElement_payee {lns : List Txt} {j : Journal} {c : Cur} {h : Hit}
    (hh : findElementAtPosition lns j c = some h) (hk : h.kind = .payee) : IsPayeeHit lns j h := by
  obtain ⟨tx, ht, htx⟩ := List.exists_of_findSome?_eq_some hh
  unfold hoverTx at htx
  split at htx
  · simp at htx; subst htx; simp at hk
  · simp only at htx
    split at htx
    · rename_i hc
      simp only [Bool.and_eq_true, decide_eq_true_eq] at hc
      simp at htx; subst htx
      exact ⟨tx, ht, hc.1, rfl⟩
    · split at htx
      · rename_i h' hf
        simp at htx; subst htx
        obtain ⟨cm, _, hcm⟩ := List.exists_of_findSome?_eq_some hf
        exact absurd hk (findTag_kind hcm)
      · obtain ⟨p, _, hpp⟩ := List.exists_of_findSome?_eq_some htx
        exact absurd hk (hoverPosting_kind hpp)

/-- Definition, references, rename, prepareRename: a payee target is the payee hit of a
    transaction of the journal. -/
theorem findDefinitionTarget_payee {lns : List Txt} {j : Journal} {c : Cur} {h : Hit}
    (hh : findDefinitionTarget lns j c = some h) (hk : h.kind = .payee) : IsPayeeHit lns j h := by
  unfold findDefinitionTarget findDefinitionTargetR at hh
  split at hh
  · rename_i h' hf
    simp at hh; subst hh
    obtain ⟨tx, ht, htx⟩ := List.exists_of_findSome?_eq_some hf
    unfold defTx at htx
    simp only at htx
    split at htx
    · rename_i hc
      simp only [Bool.and_eq_true, decide_eq_true_eq] at hc
      simp at htx; subst htx
      exact ⟨tx, ht, hc.1, rfl⟩
    · obtain ⟨p, _, hpp⟩ := List.exists_of_findSome?_eq_some htx
      exact absurd hk (defPosting_kind hpp)
  · obtain ⟨d, _, hdd⟩ := List.exists_of_findSome?_eq_some hh
    exact absurd hk (defDirective_kind hdd)

/-- The occurrences collected for a payee target are the payee hits of the transactions that
    show that payee. -/
theorem referenceHits_payee {lns : List Txt} {j : Journal} {t : Hit} {decl : Bool} {h : Hit}
    (hk : t.kind = .payee) (hne : t.name ≠ []) (hh : h ∈ referenceHits lns j t decl) :
    IsPayeeHit lns j h ∧ h.name = t.name := by
  unfold referenceHits at hh
  simp only [hk, List.mem_map, List.mem_filter, beq_iff_eq] at hh
  obtain ⟨tx, ⟨ht, hp⟩, rfl⟩ := hh
  exact ⟨⟨tx, ht, by rw [hp]; exact hne, by simp [payeeHit, hp]⟩, rfl⟩

theorem payeeSymbols_payee {lns : List Txt} {seen : List Bytes} {txs : List Transaction} {h : Hit}
    (hh : h ∈ payeeSymbols lns seen txs) : ∃ tx ∈ txs, payeeOf tx ≠ [] ∧ h = payeeHit lns tx := by
  induction txs generalizing seen with
  | nil => simp [payeeSymbols] at hh
  | cons tx rest ih =>
    simp only [payeeSymbols] at hh
    split at hh
    · rename_i hc
      simp only [Bool.and_eq_true, decide_eq_true_eq] at hc
      simp only [List.mem_cons] at hh
      rcases hh with rfl | hh
      · exact ⟨tx, by simp, hc.1, rfl⟩
      · obtain ⟨tx', h1, h2⟩ := ih hh
        exact ⟨tx', by simp [h1], h2⟩
    · obtain ⟨tx', h1, h2⟩ := ih hh
      exact ⟨tx', by simp [h1], h2⟩

/-- Workspace symbols: a payee symbol is the payee hit of a transaction of the journal. -/
theorem workspaceSymbolHits_payee {lns : List Txt} {j : Journal} {h : Hit}
    (hh : h ∈ workspaceSymbolHits lns j) (hk : h.kind = .payee) : IsPayeeHit lns j h := by
  simp only [workspaceSymbolHits, List.mem_append, List.mem_filterMap] at hh
  rcases hh with ⟨d, _, hdd⟩ | hh
  · split at hdd
    · simp at hdd; subst hdd; simp at hk
    · simp at hdd; subst hdd; simp [directiveCommodityHit] at hk
    · simp at hdd
  · exact payeeSymbols_payee hh

/-- A payee hit of a journal whose headers are grammar headers: the range sent for it is
    well-formed and covers the payee written in that header. -/
theorem payeeHit_on_target (doc : Txt) (j : Journal) (h : Hit) (hp : PayeesAt doc j)
    (hd : docSmall doc = true) (hh : IsPayeeHit (lines doc) j h) :
    ∃ tx ∈ j.transactions, ∃ pre hdr, HeaderAt doc tx pre hdr ∧ h.name = payeeOf tx ∧
      hitGuard doc h = true ∧
      rangeOK doc (toN (astRangeToProtocol (lines doc) h.rng)) = true ∧
      covers doc (toN (astRangeToProtocol (lines doc) h.rng)) hdr.payee = true := by
  obtain ⟨tx, ht, hne, rfl⟩ := hh
  obtain ⟨pre, hdr, hat, hw⟩ := hp tx ht hne
  have := payeeRange_covers doc tx pre hdr hat hw hd
  exact ⟨tx, ht, pre, hdr, hat, rfl, payeeHit_guard doc tx pre hdr hat hw, this.1, this.2⟩

/-- **Hover on a payee**: the `Range` of the response is well-formed and covers the payee. -/
theorem hover_payee_covers (doc : Txt) (j : Journal) (c : Cur) (h : Hit) (x : LRange)
    (hp : PayeesAt doc j) (hd : docSmall doc = true)
    (hh : hover (lines doc) j c = some (h, x)) (hk : h.kind = .payee) :
    ∃ tx ∈ j.transactions, ∃ pre hdr, HeaderAt doc tx pre hdr ∧ h.name = payeeOf tx ∧
      rangeOK doc (toN x) = true ∧ covers doc (toN x) hdr.payee = true := by
  simp only [hover, Option.map_eq_some_iff] at hh
  obtain ⟨h', hf, he⟩ := hh
  simp only [Prod.mk.injEq] at he
  obtain ⟨rfl, rfl⟩ := he
  obtain ⟨tx, ht, pre, hdr, hat, hn, _, h1, h2⟩ := payeeHit_on_target doc j h' hp hd (findElement_payee hf hk)
  exact ⟨tx, ht, pre, hdr, hat, hn, h1, h2⟩

/-- **PrepareRename on a payee** (and the target of definition / references / rename). -/
theorem prepareRename_payee_covers (doc : Txt) (j : Journal) (c : Cur) (h : Hit) (x : LRange)
    (hp : PayeesAt doc j) (hd : docSmall doc = true)
    (hh : prepareRename (lines doc) j c = some (h, x)) (hk : h.kind = .payee) :
    ∃ tx ∈ j.transactions, ∃ pre hdr, HeaderAt doc tx pre hdr ∧ h.name = payeeOf tx ∧
      rangeOK doc (toN x) = true ∧ covers doc (toN x) hdr.payee = true := by
  simp only [prepareRename, Option.map_eq_some_iff] at hh
  obtain ⟨h', hf, he⟩ := hh
  simp only [Prod.mk.injEq] at he
  obtain ⟨rfl, rfl⟩ := he
  obtain ⟨tx, ht, pre, hdr, hat, hn, _, h1, h2⟩ := payeeHit_on_target doc j h' hp hd (findDefinitionTarget_payee hf hk)
  exact ⟨tx, ht, pre, hdr, hat, hn, h1, h2⟩

/-- **References of a payee** (`decl` is ignored: payees have no declaration): every location
    is well-formed and covers the payee written in the header of a transaction that shows the
    same payee as the one under the cursor. -/
theorem references_payee_covers (doc : Txt) (j : Journal) (c : Cur) (decl : Bool) (t h : Hit) (x : LRange)
    (hp : PayeesAt doc j) (hd : docSmall doc = true)
    (ht : findDefinitionTarget (lines doc) j c = some t) (hk : t.kind = .payee)
    (hh : (h, x) ∈ references (lines doc) j c decl) :
    ∃ tx ∈ j.transactions, ∃ pre hdr, HeaderAt doc tx pre hdr ∧ payeeOf tx = t.name ∧
      rangeOK doc (toN x) = true ∧ covers doc (toN x) hdr.payee = true := by
  unfold references at hh
  simp only [ht] at hh
  have := sortAndDedup_sub _ _ hh
  simp only [List.mem_map, Prod.mk.injEq] at this
  obtain ⟨h', hm, rfl, rfl⟩ := this
  obtain ⟨tx0, _, hne0, rfl⟩ := findDefinitionTarget_payee ht hk
  obtain ⟨hph, hnm⟩ := referenceHits_payee (t := payeeHit (lines doc) tx0) hk (by simpa [payeeHit] using hne0) hm
  obtain ⟨tx, htx, pre, hdr, hat, hn, _, h1, h2⟩ := payeeHit_on_target doc j h' hp hd hph
  exact ⟨tx, htx, pre, hdr, hat, by rw [← hn, hnm], h1, h2⟩

/-- **The rename edits of a payee** replace exactly the payee's lexeme in every header that
    shows it. -/
theorem rename_payee_covers (doc : Txt) (j : Journal) (c : Cur) (t h : Hit) (x : LRange)
    (hp : PayeesAt doc j) (hd : docSmall doc = true)
    (ht : findDefinitionTarget (lines doc) j c = some t) (hk : t.kind = .payee)
    (hh : (h, x) ∈ rename (lines doc) j c) :
    ∃ tx ∈ j.transactions, ∃ pre hdr, HeaderAt doc tx pre hdr ∧ payeeOf tx = t.name ∧
      rangeOK doc (toN x) = true ∧ covers doc (toN x) hdr.payee = true :=
  references_payee_covers doc j c true t h x hp hd ht hk hh

/-- … and none is left out: the header of every transaction that shows the payee under the
    cursor is in the response, with the range of its payee. -/
theorem references_payee_complete (doc : Txt) (j : Journal) (c : Cur) (decl : Bool) (t : Hit) (tx : Transaction)
    (ht : findDefinitionTarget (lines doc) j c = some t) (hk : t.kind = .payee)
    (htx : tx ∈ j.transactions) (hn : payeeOf tx = t.name) :
    ∃ e ∈ references (lines doc) j c decl,
      e.2 = astRangeToProtocol (lines doc) (payeeRange (lines doc) tx (payeeOf tx)) := by
  have hm : payeeHit (lines doc) tx ∈ referenceHits (lines doc) j t decl := by
    unfold referenceHits
    simp only [hk, List.mem_map, List.mem_filter, beq_iff_eq]
    exact ⟨tx, ⟨htx, hn⟩, by simp [payeeHit, hn]⟩
  exact references_complete (lines doc) j c decl t _ ht hm

/-- **The workspace symbol of a payee.** -/
theorem workspaceSymbol_payee_covers (doc : Txt) (j : Journal) (h : Hit) (x : LRange)
    (hp : PayeesAt doc j) (hd : docSmall doc = true)
    (hh : (h, x) ∈ workspaceSymbols (lines doc) j) (hk : h.kind = .payee) :
    ∃ tx ∈ j.transactions, ∃ pre hdr, HeaderAt doc tx pre hdr ∧ h.name = payeeOf tx ∧
      rangeOK doc (toN x) = true ∧ covers doc (toN x) hdr.payee = true := by
  simp only [workspaceSymbols, List.mem_map, Prod.mk.injEq] at hh
  obtain ⟨h', hm, rfl, rfl⟩ := hh
  obtain ⟨tx, ht, pre, hdr, hat, hn, _, h1, h2⟩ := payeeHit_on_target doc j h' hp hd (workspaceSymbolHits_payee hm hk)
  exact ⟨tx, ht, pre, hdr, hat, hn, h1, h2⟩


/-- **pinned_payee_estimate_counterexample** (before repo_patches/fix-payee-range.diff).
    `2024-01-15 (c1) Shop`: `estimatePayeeRange` placed the payee one blank after the date, so
    the range sent for the payee "Shop" (hover, prepareRename, references, the rename edit, the
    workspace symbol) was 0:11–0:15, which covers the code `(c1)`.  The repaired server reads the
    header line: 0:16–0:20, which covers `Shop`; without a text for the line (no mapper lines)
    it still computes the estimate, its fallback. -/
theorem pinned_payee_estimate_counterexample :
    let doc := "2024-01-15 (c1) Shop\n".toList
    let tx : Transaction := ⟨⟨2024, 1, 15, ⟨⟨1, 1, 0⟩, ⟨1, 11, 10⟩⟩⟩, none, .none, [99, 49], [83, 104, 111, 112],
      [], [], [], [], [], ⟨⟨1, 1, 0⟩, ⟨2, 1, 21⟩⟩⟩
    let old := estimatePayeeRange tx (payeeOf tx)
    let new := payeeRange (lines doc) tx (payeeOf tx)
    rangeOK doc (toN (astRangeToProtocol (lines doc) old)) = true ∧
    covers doc (toN (astRangeToProtocol (lines doc) old)) "Shop".toList = false ∧
    slice doc (toN (astRangeToProtocol (lines doc) old)) = some "(c1)".toList ∧
    toN (astRangeToProtocol (lines doc) new) = ⟨0, 16, 0, 20⟩ ∧
    covers doc (toN (astRangeToProtocol (lines doc) new)) "Shop".toList = true ∧
    payeeRange [] tx (payeeOf tx) = old := by decide

/-- Non-vacuity of `HeaderAt` / `Header.wf`: a header with secondary date, status mark, code
    (with a blank inside), tabs and wide gaps, a character outside the BMP in the payee,
    `| note`, a comment, on a CRLF line — and the canonical `date payee`. -/
example :
    let doc := "2024-01-15 =2024-01-16\t!  (c 1)\t\t😀 Shop | note  ; t:v\r\n    a:b  1\r\n".toList
    let tx : Transaction := { (default : Transaction) with
      date := ⟨2024, 1, 15, ⟨⟨1, 1, 0⟩, ⟨1, 11, 10⟩⟩⟩, payee := "😀 Shop".toUTF8.toList }
    let h : HL.Spec.HeaderG.Header := {
      date2 := some (" ".toList, [], "2024-01-16".toList), status := some ("\t".toList, '!'),
      code := some ("  ".toList, "c 1".toList), gap := "\t\t".toList, payee := "😀 Shop".toList,
      note := some (" ".toList, " ".toList, "note".toList), comment := some ("  ".toList, " t:v".toList) }
    HeaderAt doc tx "2024-01-15".toList h ∧ h.wf = true ∧
    toN (astRangeToProtocol (lines doc) (payeeRange (lines doc) tx (payeeOf tx))) = ⟨0, 33, 0, 40⟩ ∧
    HeaderAt "2024-01-15 Shop\n".toList
      { (default : Transaction) with date := ⟨2024, 1, 15, ⟨⟨1, 1, 0⟩, ⟨1, 11, 10⟩⟩⟩, description := "Shop".toUTF8.toList }
      "2024-01-15".toList { gap := " ".toList, payee := "Shop".toList } := by
  refine ⟨⟨by decide, by decide, by decide +kernel, by decide, by decide +kernel⟩, by decide +kernel,
    by decide +kernel, ⟨by decide, by decide, by decide +kernel, by decide, by decide +kernel⟩⟩

/-! End to end: text in, payee ranges out (`HL.Pipeline.parseText` produces the tree, the server
    model the ranges).  A CRLF document whose first header carries a secondary date, a status
    mark, a code and `payee | note`, the second one tabs and a code with a blank; the payee
    starts with a character outside the BMP.  Replayed against the real server from
    replays/C08/payee-estimate.jsonl. -/

def pText : String :=
  "2024-01-15=2024-01-16 * (c1)   😀 Shop | note ; t:v\r\n    a:b  1\r\n2024/1/5\t(x 2)\t😀 Shop\r\n    a:b  1\r\n"
def pTree : Journal := (HL.Pipeline.parseText Classes.go pText.toUTF8.toList).1

/-- Hover on the payee of the first header, prepareRename on the second, references and the
    rename edits from the second (both headers, each with the exact range of its payee), the
    workspace symbol: every range covers `😀 Shop`. -/
example :
    let doc := pText.toList
    TreePositionsSound one doc pTree = true ∧
    (pTree.transactions.map fun tx => (tx.date.range.stop.col, payeeOf tx == "😀 Shop".toUTF8.toList)) =
      [(11, true), (9, true)] ∧
    (hover (lines doc) pTree ⟨0, 33⟩).map (fun e => (e.1.kind, toN e.2, hitGuard doc e.1)) =
      some (.payee, ⟨0, 31, 0, 38⟩, true) ∧
    (prepareRename (lines doc) pTree ⟨2, 18⟩).map (fun e => (toN e.2, hitGuard doc e.1)) =
      some (⟨2, 15, 2, 22⟩, true) ∧
    ((references (lines doc) pTree ⟨2, 18⟩ false).map fun e => (toN e.2, covers doc (toN e.2) "😀 Shop".toList)) =
      [(⟨0, 31, 0, 38⟩, true), (⟨2, 15, 2, 22⟩, true)] ∧
    ((rename (lines doc) pTree ⟨0, 31⟩).map fun e => (toN e.2, covers doc (toN e.2) "😀 Shop".toList)) =
      [(⟨0, 31, 0, 38⟩, true), (⟨2, 15, 2, 22⟩, true)] ∧
    ((workspaceSymbols (lines doc) pTree).map fun e => (toN e.2, covers doc (toN e.2) "😀 Shop".toList)) =
      [(⟨0, 31, 0, 38⟩, true)] ∧
    -- the cursor on the code, where the estimate put the payee, finds no payee any more
    (hover (lines doc) pTree ⟨0, 26⟩).map (fun e => e.1.kind) = none := by
  decide +kernel

/-- `parseTags` as pinned: the BYTE offsets of the tag inside the comment text were added to the
    rune column of the `;`. -/
def tagRangePinned (base : Pos) (tagStart tagEnd : Nat) : Rng :=
  ⟨⟨base.line, base.col + 1 + tagStart, base.off + 1 + tagStart⟩,
   ⟨base.line, base.col + 1 + tagEnd, base.off + 1 + tagEnd⟩⟩

/-- `; café, k:v`: as pinned the byte offset of `k` in the comment text (8, one more than its
    rune offset) was added to the column of the `;`: the tag's name range was sent one column to
    the right and covered ":".  The repaired parser counts the runes of the text before the tag
    (fix-tag-columns.diff): name and value are covered exactly. -/
theorem pinned_tag_byte_offsets_counterexample :
    let doc := "2024-01-15 x ; café, k:v\n".toList
    let text : Bytes := " café, k:v".toUTF8.toList
    let base : Pos := ⟨1, 14, 13⟩
    let tp : Tag := ⟨[107], [118], tagRangePinned base 8 11⟩
    slice doc (toN (astRangeToProtocol (lines doc) (tagNameRng tp))) = some ":".toList ∧
    covers doc (toN (astRangeToProtocol (lines doc) (tagNameRng tp))) "k".toList = false ∧
    HL.Parser.parseTags text base = [⟨[107], [118], ⟨⟨1, 22, 22⟩, ⟨1, 25, 25⟩⟩⟩] ∧
    ((HL.Parser.parseTags text base).map fun t =>
      (covers doc (toN (astRangeToProtocol (lines doc) (tagNameRng t))) "k".toList,
       covers doc (toN (astRangeToProtocol (lines doc) (tagValueRng t))) "v".toList)) = [(true, true)] := by
  decide +kernel

/-- Tags after text with characters outside the BMP, a value of non-ASCII letters: every name
    and value range the server derives from the repaired parser's tags covers its text. -/
example :
    let doc := "2024-01-15 x ; 😀 日本, k:  été, e:\n".toList
    let text : Bytes := " 😀 日本, k:  été, e:".toUTF8.toList
    let base : Pos := ⟨1, 14, 13⟩
    ((HL.Parser.parseTags text base).map fun t =>
      (slice doc (toN (astRangeToProtocol (lines doc) (tagNameRng t))),
       slice doc (toN (astRangeToProtocol (lines doc) (tagValueRng t))))) =
      [(some "k".toList, some "été".toList), (some "e".toList, some [])] := by
  decide +kernel

/-- `k: v`: as pinned the value range started right after the colon and covered " v"; the
    repaired code measures it back from the end of the tag. -/
theorem pinned_tag_value_leading_blank_counterexample :
    let doc := "2024-01-15 x ; k: v\n".toList
    let t : Tag := ⟨[107], [118], ⟨⟨1, 16, 15⟩, ⟨1, 20, 19⟩⟩⟩
    slice doc (toN (astRangeToProtocolPinned (tagValueRngPinned t))) = some " v".toList ∧
    covers doc (toN (astRangeToProtocol (lines doc) (tagValueRng t))) "v".toList = true := by decide

/-- The value range of a tag covers exactly the value whenever the tag's End is the position
    right after the value on the comment's line (what parseTags computes since it counts
    runes: see `pinned_tag_byte_offsets_counterexample`), however many blanks follow the colon and
    whatever precedes the tag's end — also for an empty value (empty range at the End). -/
theorem tagValue_covers (doc : Txt) (t : Tag) (ln pre val suf : Txt)
    (h1 : 1 ≤ t.range.stop.line) (h2 : 1 ≤ t.range.stop.col)
    (hl : (docLines doc)[t.range.stop.line - 1]? = some ln) (hln : ln = pre ++ val ++ suf)
    (hend : (pre ++ val).length = t.range.stop.col - 1) (hval : val.length = runeLenB t.value)
    (hd : docSmall doc = true) :
    covers doc (toN (astRangeToProtocol (lines doc) (tagValueRng t))) val = true := by
  apply conv_covers _ hd
  simp only [List.length_append] at hend
  have e1 : t.range.stop.col - runeLenB t.value - 1 ≤ ln.length := by rw [hln]; simp; omega
  have e2 : t.range.stop.col - 1 ≤ ln.length := by rw [hln]; simp; omega
  simp only [lexSound, tagValueRng, hl, charsOf_one, e1, e2, if_true, Bool.and_eq_true, decide_eq_true_eq, beq_iff_eq]
  refine ⟨⟨⟨⟨decide_eq_true h1, trivial⟩, decide_eq_true (by omega)⟩, decide_eq_true h2⟩, by omega, ?_⟩
  have e3 : t.range.stop.col - runeLenB t.value - 1 = pre.length := by omega
  have e4 : t.range.stop.col - 1 - pre.length = val.length := by omega
  rw [hln, e3, List.append_assoc, List.drop_left, e4, List.take_left]

/-- Non-vacuity: `😀 k:   v` (three blanks after the colon; the emoji stands before the comment,
    where it does not disturb parseTags) and the empty value of `k:`. -/
example :
    let doc := "2024-01-15 😀 ; k:   v, e:\n".toList
    let t : Tag := ⟨[107], [118], ⟨⟨1, 16, 18⟩, ⟨1, 22, 24⟩⟩⟩
    let e : Tag := ⟨[101], [], ⟨⟨1, 24, 26⟩, ⟨1, 26, 28⟩⟩⟩
    covers doc (toN (astRangeToProtocol (lines doc) (tagValueRng t))) "v".toList = true ∧
    toN (astRangeToProtocol (lines doc) (tagValueRng t)) = ⟨0, 21, 0, 22⟩ ∧
    covers doc (toN (astRangeToProtocol (lines doc) (tagValueRng e))) [] = true ∧
    toN (astRangeToProtocol (lines doc) (tagValueRng e)) = ⟨0, 26, 0, 26⟩ := by decide

/-- Document link as pinned: the range of `include other.journal` starts at the keyword. -/
theorem link_covers_keyword_counterexample :
    let doc := "include other.journal\n".toList
    let j : Journal := ⟨[], [], [], [⟨"other.journal".toUTF8.toList, ⟨⟨1, 1, 0⟩, ⟨1, 22, 21⟩⟩⟩]⟩
    (documentLinks Fixes.pinned doc j).map (fun x => slice doc (toN x)) = [some "include other.journal".toList] := by
  decide

/-- Completion before upstream a42bf24 (`HL.Completion.Pinned.editRange false` is the completion
    builder's transcription of that code): on `account a:b` with the cursor at 0:0 the edit
    range is 8–0; on `    a:b  1    USD` with the cursor at character 11 it is 14–11. -/
theorem completion_start_after_cursor_counterexample :
    HL.Completion.Pinned.editRange false .account "account a:b".toList 0 = some (8, 0) ∧
    HL.Completion.Pinned.editRange false .commodity "    a:b  1    USD".toList 11 = some (14, 11) ∧
    rangeOK "account a:b".toList ⟨0, 8, 0, 0⟩ = false := by decide

/-- Completion (current code): for EVERY document, every cursor that is a position of the
    document and every completion context, the edit range lies in the cursor's line, starts
    on a code-point boundary at or before the cursor and ends at the cursor (full theorem, no
    guard on the text).  The bound `start ≤ cursor` is the completion builder's
    `HL.Completion.editStart_query`. -/
theorem completion_edit_rangeOK (doc : Txt) (c : Cur) (ctx : Nat)
    (r : LRange) (hc : posOK doc c.line c.char = true) (h1 : c.line < 4294967296)
    (h2 : c.char < 4294967296) (h : textEditRange doc c ctx = some r) :
    rangeOK doc (toN r) = true := by
  unfold posOK at hc
  rw [docLines_get] at hc
  unfold textEditRange at h
  cases hl : (lines doc)[c.line]? with
  | none => simp [hl] at h
  | some line =>
    simp only [hl, Option.map_some] at hc h
    cases hk : charsOfUnits (stripCR line) c.char with
    | none => simp [hk] at hc
    | some k' =>
      obtain ⟨suf, hsuf⟩ := stripCR_prefix line
      have hkk : takeU16 line c.char = k' := by
        rw [hsuf]; exact takeU16_of_charsOf suf hk
      have hk'len := charsOf_some_le hk
      have hu := charsOf_u16_spec hk
      have hkline : k' ≤ line.length := by
        have := congrArg List.length hsuf
        simp at this; omega
      simp only [HL.Completion.editRange, Option.map_map, Option.map_eq_some_iff, hkk] at h
      obtain ⟨st, hst0, hr⟩ := h
      simp only [Function.comp] at hr
      subst hr
      -- start ≤ cursor
      have hle0 : st ≤ k' := by
        have hctx : ctxOf ctx = .account ∨ ctxOf ctx = .payee ∨ ctxOf ctx = .commodity ∨ ctxOf ctx = .tagName := by
          cases hcx : ctxOf ctx with
          | account => exact Or.inl rfl
          | payee => exact Or.inr (Or.inl rfl)
          | commodity => exact Or.inr (Or.inr (Or.inl rfl))
          | tagName => exact Or.inr (Or.inr (Or.inr rfl))
          | unknown => rw [hcx] at hst0; simp [HL.Completion.editStart] at hst0
          | tagValue => rw [hcx] at hst0; simp [HL.Completion.editStart] at hst0
          | date => rw [hcx] at hst0; simp [HL.Completion.editStart] at hst0
        obtain ⟨s', hs', hle, _⟩ := HL.Completion.editStart_query (ctxOf ctx) line k' hkline hctx
        rw [hst0] at hs'
        simp at hs'; omega
      have hst : st ≤ (stripCR line).length := by omega
      have htake : line.take st = (stripCR line).take st := by
        have e : line.take st = (stripCR line ++ suf).take st := by rw [← hsuf]
        rw [e, List.take_append_of_le_length hst]
      have hle : u16len ((stripCR line).take st) ≤ c.char := by
        rw [← hu]; exact u16len_take_mono _ hle0 hk'len
      have e1 : (UInt32.ofNat c.line).toNat = c.line := by rw [UInt32.toNat_ofNat']; omega
      have e2 : (UInt32.ofNat c.char).toNat = c.char := by rw [UInt32.toNat_ofNat']; omega
      have e3 : (UInt32.ofNat (u16len (line.take st))).toNat = u16len ((stripCR line).take st) := by
        rw [UInt32.toNat_ofNat', htake]; omega
      simp only [rangeOK, toN, e1, e2, e3, Bool.and_eq_true]
      refine ⟨⟨?_, ?_⟩, ?_⟩
      · unfold posOK; rw [docLines_get, hl]
        simp only [Option.map_some, charsOfUnits]
        rw [charsOf_u16_take _ _ hst]; rfl
      · unfold posOK; rw [docLines_get, hl]
        simp only [Option.map_some, hk, Option.isSome_some]
      · simp only [leqPos, Bool.or_eq_true, Bool.and_eq_true, decide_eq_true_eq, beq_self_eq_true, true_and]
        right; exact hle

/-- Non-vacuity and the current behaviour on the two witnesses of the old defect. -/
example :
    (textEditRange "account a:b".toList ⟨0, 0⟩ 1).map toN = some ⟨0, 0, 0, 0⟩ ∧
    (textEditRange "    a:b  1    USD".toList ⟨0, 11⟩ 3).map toN = some ⟨0, 11, 0, 11⟩ ∧
    (textEditRange "    ассеts:b😀  1".toList ⟨0, 14⟩ 1).map toN = some ⟨0, 4, 0, 14⟩ := by decide

/-- Folding ranges: every region is a line interval `start < end` of the document, for every
    document (directive and comment regions, computed from the text, need no hypothesis;
    transaction regions need the transaction's two lines to exist, which
    `TreePositionsSound` provides). -/
theorem foldingRange_lines_ok (fx : Fixes) (doc : Txt) (j : Journal)
    (hn : (lines doc).length < 4294967296)
    (ht : ∀ tx ∈ j.transactions, rngSmall tx.range = true ∧ rngPos tx.range = true ∧
      tx.range.stop.line ≤ (lines doc).length) :
    ∀ f ∈ foldingRanges fx doc j, f.s.toNat < f.e.toNat ∧ f.e.toNat < (lines doc).length := by
  intro f hf
  unfold foldingRanges at hf
  split at hf
  · simp at hf
  · have fromText : foldIn (lines doc).length f → f.s.toNat < f.e.toNat ∧ f.e.toNat < (lines doc).length := by
      rintro ⟨s, e, h1, h2, h3, h4⟩
      rw [h1, h2, UInt32.toNat_ofNat', UInt32.toNat_ofNat']
      have : s % 4294967296 = s := Nat.mod_eq_of_lt (by omega)
      have : e % 4294967296 = e := Nat.mod_eq_of_lt (by omega)
      omega
    simp only [List.mem_append] at hf
    rcases hf with (hf | hf) | hf
    · simp only [transactionFolds, List.mem_filterMap] at hf
      obtain ⟨tx, htx, hfold⟩ := hf
      obtain ⟨hs, hp, hl⟩ := ht tx htx
      obtain ⟨_, a2, a3, _, _⟩ := txFold_spec hs hp hfold
      simp only [rngPos, Bool.and_eq_true, decide_eq_true_eq] at hp
      exact ⟨a2, by omega⟩
    · have := directiveFoldsFrom_in fx (lines doc) 0 f hf
      exact fromText (by simpa using this)
    · have := commentFoldsFrom_in fx (lines doc) 0 none f hf
      exact fromText (by simpa using this)

/-! ## Laminar families: outline symbols and fold regions -/

/-- Outline symbols of different entries never partially overlap (they are pairwise disjoint as
    half-open ranges) whenever the entries' ranges in the tree are: the conversion is monotone on
    every line.  Nothing is asked of the text but its size — non-BMP runes move ranges but never
    reorder them. -/
theorem symbols_laminar_partial (doc : Txt) (j : Journal) (hsm : docSmall doc = true)
    (hs : ∀ r ∈ symbolRanges j, rngSmall r = true ∧ rngPos r = true)
    (hd : allPairs astDisjoint (symbolRanges j) = true) :
    laminarSymbols ((documentSymbols (lines doc) j).map toN) = true := by
  rw [documentSymbols_eq, List.map_map]
  apply allPairs_map _ _ _ hd
  intro a ha b hb h
  exact symRel_conv (docSmall_lines hsm) (hs a ha).1 (hs b hb).1 (hs a ha).2 (hs b hb).2 h

def foldN (f : Fold) : Nat × Nat := (f.s.toNat, f.e.toNat)

/-- Lines strictly apart: some line that belongs to neither lies between the two ranges' line
    spans (what a blank line between two transactions gives, as pinned: the fold of the first
    ends ON the blank line). -/
def linesApart (a b : Transaction) : Bool :=
  decide (a.range.stop.line < b.range.start.line) || decide (b.range.stop.line < a.range.start.line)

/-- Transaction folds, code as pinned: laminar when the transactions' line spans (up to and
    including the line of the following token) are strictly apart. -/
theorem txFolds_laminar_partial (fx : Fixes) (hfx : fx.fold = false) (j : Journal)
    (hs : ∀ tx ∈ j.transactions, rngSmall tx.range = true ∧ rngPos tx.range = true)
    (hd : allPairs linesApart j.transactions = true) :
    laminarFolds ((transactionFolds fx j).map foldN) = true := by
  unfold transactionFolds
  rw [List.map_filterMap]
  apply allPairs_filterMap _ _ _ hd
  intro a ha b hb h x hx y hy
  simp only [Option.map_eq_some_iff] at hx hy
  obtain ⟨fa, hfa, rfl⟩ := hx
  obtain ⟨fb, hfb, rfl⟩ := hy
  obtain ⟨a1, a2, _, a4, _⟩ := txFold_spec (hs a ha).1 (hs a ha).2 hfa
  obtain ⟨b1, b2, _, b4, _⟩ := txFold_spec (hs b hb).1 (hs b hb).2 hfb
  have a4 := a4 hfx
  have b4 := b4 hfx
  simp only [linesApart, Bool.or_eq_true, decide_eq_true_eq] at h
  simp only [foldN]
  simp only [foldRel, Bool.or_eq_true, Bool.and_eq_true, decide_eq_true_eq]
  omega

/-- Forced guard: two adjacent transactions without a blank line — the first fold ends on the
    line on which the second starts (regions 0–3 and 3–6). -/
theorem txFolds_adjacent_counterexample :
    let p : Posting := ⟨.none, ⟨[97, 58, 98], Rng.zero⟩, none, none, none, [], [], .none, Rng.zero⟩
    let d : Date := ⟨2024, 1, 15, Rng.zero⟩
    let t1 : Transaction := ⟨d, none, .none, [], [97], [], [], [p], [], [], ⟨⟨1, 1, 0⟩, ⟨4, 1, 36⟩⟩⟩
    let t2 : Transaction := ⟨d, none, .none, [], [98], [], [], [p], [], [], ⟨⟨4, 1, 36⟩, ⟨7, 1, 72⟩⟩⟩
    let j : Journal := ⟨[t1, t2], [], [], []⟩
    allPairs astDisjoint (symbolRanges j) = true ∧
    (transactionFolds Fixes.pinned j).map foldN = [(0, 3), (3, 6)] ∧
    laminarFolds ((transactionFolds Fixes.pinned j).map foldN) = false ∧
    (transactionFolds Fixes.all j).map foldN = [(0, 2), (3, 5)] ∧
    laminarFolds ((transactionFolds Fixes.all j).map foldN) = true := by decide

/-- Entries that start on a line of their own and do not overlap as half-open ranges. -/
def entriesApart (a b : Transaction) : Bool :=
  (posLe a.range.stop b.range.start && a.range.stop.col == 1) ||
  (posLe b.range.stop a.range.start && b.range.stop.col == 1)

/-- Transaction folds with repo_patches/fix-fold-ranges.diff: laminar for every journal whose
    transactions do not overlap and are followed by a token that starts a line — adjacent
    transactions need no blank line any more. -/
theorem txFolds_laminar (fx : Fixes) (hfx : fx.fold = true) (j : Journal)
    (hs : ∀ tx ∈ j.transactions, rngSmall tx.range = true ∧ rngPos tx.range = true)
    (hd : allPairs entriesApart j.transactions = true) :
    laminarFolds ((transactionFolds fx j).map foldN) = true := by
  unfold transactionFolds
  rw [List.map_filterMap]
  apply allPairs_filterMap _ _ _ hd
  intro a ha b hb h x hx y hy
  simp only [Option.map_eq_some_iff] at hx hy
  obtain ⟨fa, hfa, rfl⟩ := hx
  obtain ⟨fb, hfb, rfl⟩ := hy
  obtain ⟨a1, a2, a3, _, a5⟩ := txFold_spec (hs a ha).1 (hs a ha).2 hfa
  obtain ⟨b1, b2, b3, _, b5⟩ := txFold_spec (hs b hb).1 (hs b hb).2 hfb
  have a5 := a5 hfx
  have b5 := b5 hfx
  simp only [entriesApart, posLe, Bool.or_eq_true, Bool.and_eq_true, decide_eq_true_eq, beq_iff_eq] at h
  simp only [foldN]
  simp only [foldRel, Bool.or_eq_true, Bool.and_eq_true, decide_eq_true_eq]
  rcases h with ⟨h, hc⟩ | ⟨h, hc⟩
  · have := a5 hc
    omega
  · have := b5 hc
    omega

/-! ## Non-vacuity: a journal on which every hypothesis used above holds

    The tree is the real parser's tree of the text (two adjacent transactions, a description
    with an emoji and Cyrillic letters, an account with an emoji before the amount). -/

def exDoc : Txt := "2024-01-15 😀 кафе\n    a😀:b  1 USD\n    c:d\n2024-01-16 x\n    a😀:b  2 USD\n    c:d\n".toList

def exAcct : Bytes := [97, 240, 159, 152, 128, 58, 98]

def exPosting (line : Nat) (amt : Bool) : Posting :=
  if amt then
    ⟨.none, ⟨exAcct, ⟨⟨line, 5, 0⟩, ⟨line, 9, 0⟩⟩⟩,
     some ⟨⟨1, 0⟩, [49], ⟨[85, 83, 68], .right, ⟨⟨line, 13, 0⟩, ⟨line, 16, 0⟩⟩⟩, false, ⟨⟨line, 11, 0⟩, ⟨line, 16, 0⟩⟩⟩,
     none, none, [], [], .none, ⟨⟨line, 5, 0⟩, ⟨line, 16, 0⟩⟩⟩
  else
    ⟨.none, ⟨[99, 58, 100], ⟨⟨line, 5, 0⟩, ⟨line, 8, 0⟩⟩⟩, none, none, none, [], [], .none, ⟨⟨line, 5, 0⟩, ⟨line, 8, 0⟩⟩⟩

def exJournal : Journal :=
  ⟨[⟨⟨2024, 1, 15, ⟨⟨1, 1, 0⟩, ⟨1, 11, 0⟩⟩⟩, none, .none, [],
      [240, 159, 152, 128, 32, 208, 186, 208, 176, 209, 132, 208, 181], [], [],
      [exPosting 2 true, exPosting 3 false], [], [], ⟨⟨1, 1, 0⟩, ⟨4, 1, 0⟩⟩⟩,
    ⟨⟨2024, 1, 16, ⟨⟨4, 1, 0⟩, ⟨4, 11, 0⟩⟩⟩, none, .none, [], [120], [], [],
      [exPosting 5 true, exPosting 6 false], [], [], ⟨⟨4, 1, 0⟩, ⟨7, 1, 0⟩⟩⟩],
   [], [], []⟩

example :
    TreePositionsSound one exDoc exJournal = true ∧ docSmall exDoc = true ∧
    (symbolRanges exJournal).all (fun r => hasEnd r && rngSmall r && rngPos r) = true ∧
    allPairs astDisjoint (symbolRanges exJournal) = true ∧
    allPairs entriesApart exJournal.transactions = true ∧
    allPairs linesApart exJournal.transactions = false ∧
    -- hover on the amount, cursor (UTF-16) after the emoji of the account
    (hover (lines exDoc) exJournal ⟨1, 12⟩).map (fun x => (x.1.kind, hitGuard exDoc x.1, toN x.2)) =
      some (.amount, true, ⟨1, 11, 1, 16⟩) ∧
    (hover (lines exDoc) exJournal ⟨0, 15⟩).map (fun x => (x.1.kind, hitGuard exDoc x.1, covers exDoc (toN x.2) "😀 кафе".toList)) =
      some (.payee, true, true) ∧
    ((references (lines exDoc) exJournal ⟨1, 14⟩ true).map fun x => (hitGuard exDoc x.1, covers exDoc (toN x.2) "USD".toList)) =
      [(true, true), (true, true)] ∧
    ((references (lines exDoc) exJournal ⟨1, 5⟩ true).map fun x => (hitGuard exDoc x.1, covers exDoc (toN x.2) "a😀:b".toList)) =
      [(true, true), (true, true)] := by decide

end HL.Props.C08
