/-
  C09 — References and rename hit exactly the symbol's occurrences, in the right files.
  Property theorems only; helper lemmas live in HL/Lemmas/Refs.lean.

  Model: HL/Model/Refs.lean (references.go, rename.go, definition.go as repaired by
  repo_patches/fix-references-rename.diff).  Spec: HL/Spec/Occurrences.lean.
-/
import HL.Lemmas.Refs
namespace HL.Props.C09
open HL HL.Ast HL.Refs HL.Spec.Occ HL.Lemmas.Refs

/-- The three searches of `findReferences`, by symbol kind. -/
def locsOf (kind : Kind) (name : Bytes) (incl : Bool) : Path → Journal → List Loc :=
  match kind with
  | .account => accountLocs name incl
  | .commodity => commodityLocs name incl
  | .payee => payeeLocs name

theorem findReferences_eq (kind : Kind) (name : Bytes) (r : Option Resolved) (pp : Path)
    (cur : Option Journal) (incl : Bool) :
    findReferences kind name r pp cur incl =
      sortAndDedup (collect (journalsWithPaths r pp cur) (locsOf kind name incl)) := by
  cases kind <;> rfl

/-- Each search returns, for one file, exactly the tree's nodes of that symbol. -/
theorem mem_locsOf (kind : Kind) (name : Bytes) (hne : name ≠ []) (incl : Bool) (path : Path)
    (j : Journal) (l : Loc) :
    l ∈ locsOf kind name incl path j ↔
      ∃ s ∈ treeNodes j, s.isSym kind name incl = true ∧ l = ⟨path, s.range⟩ := by
  have key : (∃ n ∈ treeTNodes j, Match n kind name incl ∧ l = locOf path n) ↔
      ∃ s ∈ treeNodes j, s.isSym kind name incl = true ∧ l = ⟨path, s.range⟩ := by
    simp only [treeNodes, List.mem_map]
    constructor
    · rintro ⟨n, hn, ⟨hk, hnm, hd⟩, hl⟩
      refine ⟨n.toSpan, ⟨n, hn, rfl⟩, ?_, hl⟩
      simp only [Span.isSym, TNode.toSpan, hk, hnm, decide_true, BEq.rfl, Bool.true_and,
        Bool.or_eq_true, Bool.not_eq_true']
      exact hd
    · rintro ⟨s, ⟨n, hn, rfl⟩, hs, hl⟩
      simp only [Span.isSym, TNode.toSpan, Bool.and_eq_true, beq_iff_eq,
        Bool.or_eq_true, Bool.not_eq_true'] at hs
      exact ⟨n, hn, ⟨of_decide_eq_true hs.1.1, hs.1.2, hs.2⟩, hl⟩
  cases kind with
  | account => rw [← key]; exact mem_accountLocs name incl path j l
  | commodity => rw [← key]; exact mem_commodityLocs name hne incl path j l
  | payee => rw [← key]; exact mem_payeeLocs name hne incl path j l

/-- **refs_exact.**  For every workspace — any number of files, pairwise different paths — whose
    syntax trees are faithful to the texts, every symbol, every requesting document (`cur`, its
    tree is not even read once a resolved journal exists), with or without declarations:
    find-references returns exactly the occurrences of the symbol in the root and in every member
    file, each attributed to the file that contains it. -/
theorem refs_exact (ws : Workspace) (hwf : ws.WF) (hf : ws.faithful) (kind : Kind) (name : Bytes)
    (hne : name ≠ []) (incl : Bool) (cur : Option Journal) (order : List Path) (l : Loc) :
    l ∈ findReferences kind name (some (resolvedOf ws order)) ws.root.path cur incl ↔
      l ∈ occurrences ws.spanFiles kind name incl := by
  obtain ⟨hroot, hnd⟩ := hwf
  have hn : (ws.root.path :: (resolvedOf ws order).files.map (·.1)).Nodup := by
    simpa [resolvedOf, Workspace.files, List.map_map, Function.comp_def] using hnd
  obtain ⟨hk, hm⟩ := journalsWithPaths_spec (resolvedOf ws order) ws.root.path ws.root.tree cur rfl hroot hn
  rw [findReferences_eq, mem_sortAndDedup, mem_collect _ hk]
  simp only [occurrences, Workspace.spanFiles, List.mem_flatMap, List.mem_map, List.mem_filter]
  constructor
  · rintro ⟨p, j, hpj, hl0⟩
    obtain ⟨s, hs, hsym, hl⟩ := (mem_locsOf kind name hne incl p j l).mp hl0
    have hfile : ∃ f ∈ ws.files, f.path = p ∧ f.tree = j := by
      rcases (hm (p, j)).mp hpj with h | h
      · exact ⟨ws.root, by simp [Workspace.files], by cases h; exact ⟨rfl, rfl⟩⟩
      · simp only [resolvedOf, List.mem_map] at h
        obtain ⟨f, hfm, he⟩ := h
        cases he
        exact ⟨f, by simp [Workspace.files, hfm], rfl, rfl⟩
    obtain ⟨f, hfm, rfl, rfl⟩ := hfile
    exact ⟨(f.path, f.spans), ⟨f, hfm, rfl⟩, s, ⟨((hf f hfm).2 s).mp hs, hsym⟩, hl.symm⟩
  · rintro ⟨_, ⟨f, hfm, rfl⟩, s, ⟨hs, hsym⟩, hl⟩
    refine ⟨f.path, f.tree, ?_, (mem_locsOf kind name hne incl f.path f.tree l).mpr
      ⟨s, ((hf f hfm).2 s).mpr hs, hsym, hl.symm⟩⟩
    apply (hm _).mpr
    simp only [Workspace.files, List.mem_cons] at hfm
    rcases hfm with rfl | h
    · exact Or.inl rfl
    · exact Or.inr (by simp only [resolvedOf, List.mem_map]; exact ⟨f, h, rfl⟩)

/-! ### The element under the cursor -/

/-- **target_exact.**  On a document whose tree is faithful to its text, for every cursor
    position: the symbol `findDefinitionTarget` determines is the span the cursor is on (start and
    end included) — kind, name and exact lexeme range — and there is none exactly when the cursor
    is on no occurrence. -/
theorem target_exact (j : Journal) (spans : List Span) (hf : faithful j spans)
    (hsep : separated spans) (pos : LPos) :
    (findDefinitionTarget j pos).map (fun t => (t.kind, t.name, t.range)) =
      (spanAt spans pos).map (fun s => (s.kind, s.name, s.range)) := by
  cases ht : findDefinitionTarget j pos with
  | some t =>
    obtain ⟨n, hn, hr, rfl⟩ := target_sound j pos t ht
    have hsane := hf.1 n hn
    have hmem : n.toSpan ∈ spans := (hf.2 _).mp (List.mem_map.mpr ⟨n, hn, rfl⟩)
    have hhas : n.toSpan.has pos = true := by rw [← positionInRange_eq_has n hsane pos]; exact hr
    cases hs : spanAt spans pos with
    | none =>
      have := List.find?_eq_none.mp hs _ hmem
      rw [hhas] at this; exact absurd rfl this
    | some s =>
      have hs1 := List.mem_of_find?_eq_some hs
      have hs2 := List.find?_some hs
      have := hsep s hs1 _ hmem pos hs2 hhas
      subst this
      rfl
  | none =>
    cases hs : spanAt spans pos with
    | none => rfl
    | some s =>
      exfalso
      have hs1 := List.mem_of_find?_eq_some hs
      have hs2 := List.find?_some hs
      obtain ⟨n, hn, rfl⟩ := List.mem_map.mp ((hf.2 s).mpr hs1)
      have hr : positionInRange pos n.range = true := by
        rw [positionInRange_eq_has n (hf.1 n hn) pos]; exact hs2
      have := target_complete j pos n hn hr
      rw [ht] at this; cases this

/-- A request as the handlers see it, made from file `cur` of the workspace. -/
def requestFrom (ws : Workspace) (cur : FileT) (order : List Path) (pos : LPos) : Request :=
  ⟨cur.tree, some (resolvedOf ws order), ws.root.path, pos⟩

/-- What the property demands of a request at `pos` in `cur`: nothing when the cursor is on no
    occurrence, otherwise every occurrence of that symbol in the whole workspace. -/
def expected (ws : Workspace) (cur : FileT) (pos : LPos) (incl : Bool) : List Loc :=
  match spanAt cur.spans pos with
  | none => []
  | some s => occurrences ws.spanFiles s.kind s.name incl

/-- **references_exact.**  The handler, end to end: from the root or from any included file
    (`cur` is any file; nothing depends on which), at every cursor position. -/
theorem references_exact (ws : Workspace) (hwf : ws.WF) (hf : ws.faithful) (cur : FileT)
    (hcur : cur ∈ ws.files) (hsep : separated cur.spans) (hnames : ∀ s ∈ cur.spans, s.name ≠ [])
    (order : List Path) (pos : LPos) (incl : Bool) (l : Loc) :
    l ∈ references (requestFrom ws cur order pos) incl ↔ l ∈ expected ws cur pos incl := by
  have ht := target_exact cur.tree cur.spans (hf cur hcur) hsep pos
  simp only [references, requestFrom, expected]
  cases h1 : findDefinitionTarget cur.tree pos with
  | none =>
    cases h2 : spanAt cur.spans pos with
    | none => simp
    | some s => rw [h1, h2] at ht; cases ht
  | some t =>
    cases h2 : spanAt cur.spans pos with
    | none => rw [h1, h2] at ht; cases ht
    | some s =>
      rw [h1, h2] at ht
      simp only [Option.map_some, Option.some.injEq, Prod.mk.injEq] at ht
      obtain ⟨hk, hn, _⟩ := ht
      have hne : s.name ≠ [] := hnames s (List.mem_of_find?_eq_some h2)
      simp only [hk, hn]
      exact refs_exact ws hwf hf s.kind s.name hne incl (some cur.tree) order l

/-- **prepareRename_exact.**  The range offered for renaming is the lexeme under the cursor. -/
theorem prepareRename_exact (ws : Workspace) (hf : ws.faithful) (cur : FileT) (hcur : cur ∈ ws.files)
    (hsep : separated cur.spans) (order : List Path) (pos : LPos) :
    prepareRename (requestFrom ws cur order pos) = (spanAt cur.spans pos).map (·.range) := by
  have ht := target_exact cur.tree cur.spans (hf cur hcur) hsep pos
  simp only [prepareRename, requestFrom]
  cases h1 : findDefinitionTarget cur.tree pos <;> cases h2 : spanAt cur.spans pos <;>
    rw [h1, h2] at ht <;> simp at ht ⊢
  exact ht.2.2

/-! ### Rename -/

/-- **rename_substitutes (edits).**  Rename answers with edits exactly at the occurrences of the
    symbol under the cursor (declarations included), every one carrying the new name, each under
    the URI of the file that contains the occurrence; there is no answer exactly when there is
    nothing to rename. -/
theorem rename_edits_exact (ws : Workspace) (hwf : ws.WF) (hf : ws.faithful) (cur : FileT)
    (hcur : cur ∈ ws.files) (hsep : separated cur.spans) (hnames : ∀ s ∈ cur.spans, s.name ≠ [])
    (order : List Path) (pos : LPos) (new : Bytes) :
    match rename (requestFrom ws cur order pos) new with
    | none => expected ws cur pos true = []
    | some ch => ∀ p e, (∃ es, (p, es) ∈ ch ∧ e ∈ es) ↔
        (⟨p, e.range⟩ ∈ expected ws cur pos true ∧ e.newText = new) := by
  have href := references_exact ws hwf hf cur hcur hsep hnames order pos true
  simp only [references, requestFrom] at href
  simp only [rename, requestFrom]
  cases h1 : findDefinitionTarget cur.tree pos with
  | none =>
    simp only [h1] at href
    simp only
    apply List.eq_nil_iff_forall_not_mem.mpr
    intro l hl
    exact absurd ((href l).mpr hl) (by simp)
  | some t =>
    simp only [h1] at href
    simp only
    by_cases hempty : (findReferences t.kind t.name (some (resolvedOf ws order)) ws.root.path
        (some cur.tree) true).isEmpty = true
    · simp only [hempty, if_true]
      apply List.eq_nil_iff_forall_not_mem.mpr
      intro l hl
      have := (href l).mpr hl
      rw [List.isEmpty_iff.mp hempty] at this
      cases this
    · simp only [hempty]
      intro p e
      rw [mem_changes_foldl]
      simp only [List.not_mem_nil, false_and, exists_false, false_or]
      constructor
      · rintro ⟨l, hl, rfl, rfl⟩
        exact ⟨(href l).mp hl, rfl⟩
      · rintro ⟨hl, hnew⟩
        refine ⟨⟨p, e.range⟩, (href _).mpr hl, rfl, ?_⟩
        cases e
        simp only at hnew
        simp [hnew]

/-- **rename_substitutes (text).**  A client applies the edits of one line from the last to the
    first.  When the edits are the occurrences' spans — increasing, not overlapping, inside the
    line — the result is the line with every lexeme replaced by the new name and every gap
    between them, before the first and after the last, unchanged: no other text changes. -/
theorem rename_substitutes {α} (line new : List α) (spans : List (Nat × Nat))
    (h : spansOK line.length 0 spans) :
    applyEditsBackwards line spans new = substSpans line 0 spans new := by
  have := applyEdits_eq_subst line new spans 0 h
  simpa using this

end HL.Props.C09
