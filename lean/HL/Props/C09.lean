/-
  C09 — References and rename hit exactly the symbol's occurrences, in the right files.
  Property theorems only; helper lemmas live in HL/Lemmas/Refs.lean.

  Model: HL/Model/Refs.lean (references.go, rename.go, definition.go as repaired by
  repo_patches/fix-references-rename.diff).  Spec: HL/Spec/Occurrences.lean.
-/
import HL.Lemmas.Refs
namespace HL.Props.C09
open HL HL.Ast HL.Refs HL.Spec.Occ HL.Lemmas.Refs

/-- The three searches of `findReferences`, by symbol kind. -/
def locsOf (kind : Kind) (name : Bytes) (incl : Bool) : Path → Journal → List Loc :=
  match kind with
  | .account => accountLocs name incl
  | .commodity => commodityLocs name incl
  | .payee => payeeLocs name

theorem findReferences_eq (kind : Kind) (name : Bytes) (r : Option Resolved) (pp : Path)
    (cur : Option Journal) (incl : Bool) :
    findReferences kind name r pp cur incl =
      sortAndDedup (collect (journalsWithPaths r pp cur) (locsOf kind name incl)) := by
  cases kind <;> rfl

/-- Each search returns, for one file, exactly the tree's nodes of that symbol. -/
theorem mem_locsOf (kind : Kind) (name : Bytes) (hne : name ≠ []) (incl : Bool) (path : Path)
    (j : Journal) (l : Loc) :
    l ∈ locsOf kind name incl path j ↔
      ∃ s ∈ treeNodes j, s.isSym kind name incl = true ∧ l = ⟨path, s.range⟩ := by
  have key : (∃ n ∈ treeTNodes j, Match n kind name incl ∧ l = locOf path n) ↔
      ∃ s ∈ treeNodes j, s.isSym kind name incl = true ∧ l = ⟨path, s.range⟩ := by
    simp only [treeNodes, List.mem_map]
    constructor
    · rintro ⟨n, hn, ⟨hk, hnm, hd⟩, hl⟩
      refine ⟨n.toSpan, ⟨n, hn, rfl⟩, ?_, hl⟩
      simp only [Span.isSym, TNode.toSpan, hk, hnm, decide_true, BEq.rfl, Bool.true_and,
        Bool.or_eq_true, Bool.not_eq_true']
      exact hd
    · rintro ⟨s, ⟨n, hn, rfl⟩, hs, hl⟩
      simp only [Span.isSym, TNode.toSpan, Bool.and_eq_true, beq_iff_eq,
        Bool.or_eq_true, Bool.not_eq_true'] at hs
      exact ⟨n, hn, ⟨of_decide_eq_true hs.1.1, hs.1.2, hs.2⟩, hl⟩
  cases kind with
  | account => rw [← key]; exact mem_accountLocs name incl path j l
  | commodity => rw [← key]; exact mem_commodityLocs name hne incl path j l
  | payee => rw [← key]; exact mem_payeeLocs name hne incl path j l

/-- **refs_exact.**  For every workspace — any number of files, pairwise different paths — whose
    syntax trees are faithful to the texts, every symbol, every requesting document (`cur`, its
    tree is not even read once a resolved journal exists), with or without declarations:
    find-references returns exactly the occurrences of the symbol in the root and in every member
    file, each attributed to the file that contains it. -/
theorem refs_exact (ws : Workspace) (hwf : ws.WF) (hf : ws.faithful) (kind : Kind) (name : Bytes)
    (hne : name ≠ []) (incl : Bool) (cur : Option Journal) (order : List Path) (l : Loc) :
    l ∈ findReferences kind name (some (resolvedOf ws order)) ws.root.path cur incl ↔
      l ∈ occurrences ws.spanFiles kind name incl := by
  obtain ⟨hroot, hnd⟩ := hwf
  have hn : (ws.root.path :: (resolvedOf ws order).files.map (·.1)).Nodup := by
    simpa [resolvedOf, Workspace.files, List.map_map, Function.comp_def] using hnd
  obtain ⟨hk, hm⟩ := journalsWithPaths_spec (resolvedOf ws order) ws.root.path ws.root.tree cur rfl hroot hn
  rw [findReferences_eq, mem_sortAndDedup, mem_collect _ hk]
  simp only [occurrences, Workspace.spanFiles, List.mem_flatMap, List.mem_map, List.mem_filter]
  constructor
  · rintro ⟨p, j, hpj, hl0⟩
    obtain ⟨s, hs, hsym, hl⟩ := (mem_locsOf kind name hne incl p j l).mp hl0
    have hfile : ∃ f ∈ ws.files, f.path = p ∧ f.tree = j := by
      rcases (hm (p, j)).mp hpj with h | h
      · exact ⟨ws.root, by simp [Workspace.files], by cases h; exact ⟨rfl, rfl⟩⟩
      · simp only [resolvedOf, List.mem_map] at h
        obtain ⟨f, hfm, he⟩ := h
        cases he
        exact ⟨f, by simp [Workspace.files, hfm], rfl, rfl⟩
    obtain ⟨f, hfm, rfl, rfl⟩ := hfile
    exact ⟨(f.path, f.spans), ⟨f, hfm, rfl⟩, s, ⟨((hf f hfm).2 s).mp hs, hsym⟩, hl.symm⟩
  · rintro ⟨_, ⟨f, hfm, rfl⟩, s, ⟨hs, hsym⟩, hl⟩
    refine ⟨f.path, f.tree, ?_, (mem_locsOf kind name hne incl f.path f.tree l).mpr
      ⟨s, ((hf f hfm).2 s).mpr hs, hsym, hl.symm⟩⟩
    apply (hm _).mpr
    simp only [Workspace.files, List.mem_cons] at hfm
    rcases hfm with rfl | h
    · exact Or.inl rfl
    · exact Or.inr (by simp only [resolvedOf, List.mem_map]; exact ⟨f, h, rfl⟩)

end HL.Props.C09
