/-
  C09 — References and rename hit exactly the symbol's occurrences, in the right files.
  Property theorems only; helper lemmas live in HL/Lemmas/Refs.lean.

  Model: HL/Model/Refs.lean (references.go, rename.go, definition.go as repaired by
  repo_patches/fix-references-rename.diff and fix-utf16-positions.diff; which resolved journal a
  request reads as repaired by fix-orphan-journal-own-tree.diff) and HL/Model/WsDocs.lean (how
  didOpen / didChange / didSave / didClose drive the workspace, as repaired by
  fix-didopen-workspace.diff and fix-didclose-workspace.diff).  Spec: HL/Spec/Occurrences.lean.

  Positions.  The trees' columns count runes; the server converts them to UTF-16 characters with
  the lines of each file's text (`textsOf ws`: what `fileMappers` hands out) and the cursor of a
  request to a rune column.  `faithful f.lns f.tree f.spans` compares the CONVERTED node ranges
  with the spans of the text, so a character outside the BMP before or inside a lexeme is no
  longer a reason for a tree to be unfaithful (`pinned_utf16_columns_counterexample`).
-/
import HL.Lemmas.Refs
import HL.Lemmas.WsDocs
import HL.Model.Pipeline
import HL.Lemmas.PayeeRange
namespace HL.Props.C09
open HL HL.Ast HL.Refs HL.Spec.Occ HL.Lemmas.Refs

/-- **refs_exact.**  For every workspace — any number of files, pairwise different paths — whose
    syntax trees are faithful to the texts, every symbol, every requesting document (`cur`, its
    tree is not even read once a resolved journal exists), with or without declarations:
    find-references returns exactly the occurrences of the symbol in the root and in every member
    file, each attributed to the file that contains it. -/
theorem refs_exact (ws : Workspace) (hwf : ws.WF) (hf : ws.faithful) (kind : Kind) (name : Bytes)
    (hne : name ≠ []) (incl : Bool) (cur : Option Journal) (order : List Path) (l : Loc) :
    l ∈ findReferences (textsOf ws) kind name (some (resolvedOf ws order)) ws.root.path cur incl ↔
      l ∈ occurrences ws.spanFiles kind name incl := by
  obtain ⟨hroot, hnd⟩ := hwf
  have hn : (ws.root.path :: (resolvedOf ws order).files.map (·.1)).Nodup := by
    simpa [resolvedOf, Workspace.files, List.map_map, Function.comp_def] using hnd
  obtain ⟨hk, hm⟩ := journalsWithPaths_spec (resolvedOf ws order) ws.root.path ws.root.tree cur rfl hroot hn
  rw [findReferences_eq, mem_sortAndDedup, mem_collect _ hk]
  simp only [occurrences, Workspace.spanFiles, List.mem_flatMap, List.mem_map, List.mem_filter]
  constructor
  · rintro ⟨p, j, hpj, hl0⟩
    obtain ⟨s, hs, hsym, hl⟩ := (mem_locsOf (textsOf ws) kind name hne incl p j l).mp hl0
    have hfile : ∃ f ∈ ws.files, f.path = p ∧ f.tree = j := by
      rcases (hm (p, j)).mp hpj with h | h
      · exact ⟨ws.root, by simp [Workspace.files], by cases h; exact ⟨rfl, rfl⟩⟩
      · simp only [resolvedOf, List.mem_map] at h
        obtain ⟨f, hfm, he⟩ := h
        cases he
        exact ⟨f, by simp [Workspace.files, hfm], rfl, rfl⟩
    obtain ⟨f, hfm, rfl, rfl⟩ := hfile
    rw [textsOf_mem ws hnd f hfm] at hs
    exact ⟨(f.path, f.spans), ⟨f, hfm, rfl⟩, s, ⟨((hf f hfm).2 s).mp hs, hsym⟩, hl.symm⟩
  · rintro ⟨_, ⟨f, hfm, rfl⟩, s, ⟨hs, hsym⟩, hl⟩
    refine ⟨f.path, f.tree, ?_, (mem_locsOf (textsOf ws) kind name hne incl f.path f.tree l).mpr
      ⟨s, by rw [textsOf_mem ws hnd f hfm]; exact ((hf f hfm).2 s).mpr hs, hsym, hl.symm⟩⟩
    apply (hm _).mpr
    simp only [Workspace.files, List.mem_cons] at hfm
    rcases hfm with rfl | h
    · exact Or.inl rfl
    · exact Or.inr (by simp only [resolvedOf, List.mem_map]; exact ⟨f, h, rfl⟩)

/-! ### The element under the cursor -/

/-- **target_exact.**  On a document whose tree is faithful to its text, for every cursor that
    is a position of the text (UTF-16 units, as the client sends it): the symbol
    `findDefinitionTarget` determines is the span the cursor is on (start and end included) —
    kind, name and exact lexeme range — and there is none exactly when the cursor is on no
    occurrence. -/
theorem target_exact (lns : Lines) (j : Journal) (spans : List Span) (hf : faithful lns j spans)
    (hsep : separated spans) (pos : LPos) (hpos : cursorOK lns pos) :
    (findDefinitionTarget lns j pos).map (fun t => (t.kind, t.name, t.range)) =
      (spanAt spans pos).map (fun s => (s.kind, s.name, s.range)) := by
  cases ht : findDefinitionTarget lns j pos with
  | some t =>
    obtain ⟨n, hn, hr, rfl⟩ := target_sound j (runePos lns pos) t ht
    have hsane := hf.1 n hn
    have hmem : n.toSpan lns ∈ spans := (hf.2 _).mp (List.mem_map.mpr ⟨n, hn, rfl⟩)
    have hhas : (n.toSpan lns).has pos = true := by rw [← positionInRange_eq_has n hsane pos hpos]; exact hr
    cases hs : spanAt spans pos with
    | none =>
      have := List.find?_eq_none.mp hs _ hmem
      rw [hhas] at this; exact absurd rfl this
    | some s =>
      have hs1 := List.mem_of_find?_eq_some hs
      have hs2 := List.find?_some hs
      have := hsep s hs1 _ hmem pos hs2 hhas
      subst this
      rfl
  | none =>
    cases hs : spanAt spans pos with
    | none => rfl
    | some s =>
      exfalso
      have hs1 := List.mem_of_find?_eq_some hs
      have hs2 := List.find?_some hs
      obtain ⟨n, hn, rfl⟩ := List.mem_map.mp ((hf.2 s).mpr hs1)
      have hr : positionInRange (runePos lns pos) n.range = true := by
        rw [positionInRange_eq_has n (hf.1 n hn) pos hpos]; exact hs2
      have := target_complete (lns := lns) j (runePos lns pos) n hn hr
      rw [show findDefinitionTargetR lns j (runePos lns pos) = findDefinitionTarget lns j pos from rfl, ht] at this
      cases this

/-- A request as the handlers see it, made from file `cur` of the workspace. -/
def requestFrom (ws : Workspace) (cur : FileT) (order : List Path) (pos : LPos) : Request :=
  ⟨cur.tree, some (resolvedOf ws order), ws.root.path, pos, cur.lns, textsOf ws⟩

/-- What the property demands of a request at `pos` in `cur`: nothing when the cursor is on no
    occurrence, otherwise every occurrence of that symbol in the whole workspace. -/
def expected (ws : Workspace) (cur : FileT) (pos : LPos) (incl : Bool) : List Loc :=
  match spanAt cur.spans pos with
  | none => []
  | some s => occurrences ws.spanFiles s.kind s.name incl

/-- **references_exact.**  The handler, end to end: from the root or from any included file
    (`cur` is any file; nothing depends on which), at every cursor position. -/
theorem references_exact (ws : Workspace) (hwf : ws.WF) (hf : ws.faithful) (cur : FileT)
    (hcur : cur ∈ ws.files) (hsep : separated cur.spans) (hnames : ∀ s ∈ cur.spans, s.name ≠ [])
    (order : List Path) (pos : LPos) (hpos : cursorOK cur.lns pos) (incl : Bool) (l : Loc) :
    l ∈ references (requestFrom ws cur order pos) incl ↔ l ∈ expected ws cur pos incl := by
  have ht := target_exact cur.lns cur.tree cur.spans (hf cur hcur) hsep pos hpos
  simp only [references, requestFrom, expected]
  cases h1 : findDefinitionTarget cur.lns cur.tree pos with
  | none =>
    cases h2 : spanAt cur.spans pos with
    | none => simp
    | some s => rw [h1, h2] at ht; cases ht
  | some t =>
    cases h2 : spanAt cur.spans pos with
    | none => rw [h1, h2] at ht; cases ht
    | some s =>
      rw [h1, h2] at ht
      simp only [Option.map_some, Option.some.injEq, Prod.mk.injEq] at ht
      obtain ⟨hk, hn, _⟩ := ht
      have hne : s.name ≠ [] := hnames s (List.mem_of_find?_eq_some h2)
      simp only [hk, hn]
      exact refs_exact ws hwf hf s.kind s.name hne incl (some cur.tree) order l

/-- **prepareRename_exact.**  The range offered for renaming is the lexeme under the cursor. -/
theorem prepareRename_exact (ws : Workspace) (hf : ws.faithful) (cur : FileT) (hcur : cur ∈ ws.files)
    (hsep : separated cur.spans) (order : List Path) (pos : LPos) (hpos : cursorOK cur.lns pos) :
    prepareRename (requestFrom ws cur order pos) = (spanAt cur.spans pos).map (·.range) := by
  have ht := target_exact cur.lns cur.tree cur.spans (hf cur hcur) hsep pos hpos
  simp only [prepareRename, requestFrom]
  cases h1 : findDefinitionTarget cur.lns cur.tree pos <;> cases h2 : spanAt cur.spans pos <;>
    rw [h1, h2] at ht <;> simp at ht ⊢
  exact ht.2.2

/-! ### Which resolved journal a request reads (`resolvedWithPrimaryPath`) -/

/-- From the root journal or a member file the request reads the workspace's journal, labelled
    with the root's path; from any other journal, and without a workspace, the journal resolved
    for the document itself, labelled with the document's path. -/
theorem resolved_choice (r : Resolved) (root : Path) (own : Option Resolved) (path : Path) :
    (wsContains r root path = true →
      resolvedWithPrimaryPath (some (r, root)) own path = (some r, root)) ∧
    (wsContains r root path = false →
      resolvedWithPrimaryPath (some (r, root)) own path = (own, path)) ∧
    resolvedWithPrimaryPath none own path = (own, path) := by
  refine ⟨fun h => ?_, fun h => ?_, rfl⟩ <;> simp [resolvedWithPrimaryPath, h]

theorem wsContains_member (ws : Workspace) (order : List Path) (cur : FileT) (hcur : cur ∈ ws.files)
    (hp : cur.path ≠ "") : wsContains (resolvedOf ws order) ws.root.path cur.path = true := by
  simp only [wsContains, Bool.and_eq_true, bne_iff_ne, ne_eq, Bool.or_eq_true, beq_iff_eq,
    List.any_eq_true, resolvedOf, List.mem_map]
  refine ⟨hp, ?_⟩
  simp only [Workspace.files, List.mem_cons] at hcur
  rcases hcur with h | h
  · exact Or.inl (by rw [h])
  · exact Or.inr ⟨(cur.path, cur.tree), ⟨cur, h, rfl⟩, rfl⟩

/-- A request as the SERVER builds it for the document `cur`: the workspace's journal and the
    journal stored for the document's URI go through `resolvedWithPrimaryPath`, which also picks
    the texts the positions are converted with: `wsTexts` (`openFileMappers`) with the
    workspace's journal, `ownTexts` (the document's buffer, the included files as on disk) with
    the document's own. -/
def serverRequest (wsView : Option (Resolved × Path)) (wsTexts : Texts) (own : Option Resolved)
    (ownTexts : Texts) (cur : FileT) (pos : LPos) : Request :=
  let c := resolvedWithPrimaryPath wsView own cur.path
  let usedWs := match wsView with
    | some (r, root) => wsContains r root cur.path
    | none => false
  ⟨cur.tree, c.1, c.2, pos, cur.lns, if usedWs then wsTexts else ownTexts⟩

/-- **references_exact_member.**  With a workspace, from the root journal or any member file:
    every occurrence in the workspace (whatever is stored for the document's own URI). -/
theorem references_exact_member (ws : Workspace) (hwf : ws.WF) (hf : ws.faithful) (cur : FileT)
    (hcur : cur ∈ ws.files) (hp : cur.path ≠ "") (hsep : separated cur.spans)
    (hnames : ∀ s ∈ cur.spans, s.name ≠ []) (order : List Path) (own : Option Resolved)
    (ownTexts : Texts) (pos : LPos) (hpos : cursorOK cur.lns pos) (incl : Bool) (l : Loc) :
    l ∈ references (serverRequest (some (resolvedOf ws order, ws.root.path)) (textsOf ws) own ownTexts cur pos) incl ↔
      l ∈ expected ws cur pos incl := by
  have hm := wsContains_member ws order cur hcur hp
  have hc := (resolved_choice (resolvedOf ws order) ws.root.path own cur.path).1 hm
  simp only [serverRequest, hc, hm, if_true]
  exact references_exact ws hwf hf cur hcur hsep hnames order pos hpos incl l

/-- **references_exact_own_tree.**  From a journal `cur` outside the workspace root's include
    tree (and without a workspace): every occurrence in `cur` and its OWN include tree `wsOwn`
    (root `cur`), once that tree has been resolved for the document — the current file is no
    longer left out. -/
theorem references_exact_own_tree (wsView : Option (Resolved × Path)) (wsTexts : Texts) (wsOwn : Workspace)
    (hout : ∀ r root, wsView = some (r, root) → wsContains r root wsOwn.root.path = false)
    (hwf : wsOwn.WF) (hf : wsOwn.faithful) (hsep : separated wsOwn.root.spans)
    (hnames : ∀ s ∈ wsOwn.root.spans, s.name ≠ []) (order : List Path) (pos : LPos)
    (hpos : cursorOK wsOwn.root.lns pos) (incl : Bool) (l : Loc) :
    l ∈ references (serverRequest wsView wsTexts (some (resolvedOf wsOwn order)) (textsOf wsOwn) wsOwn.root pos) incl ↔
      l ∈ expected wsOwn wsOwn.root pos incl := by
  have hreq : serverRequest wsView wsTexts (some (resolvedOf wsOwn order)) (textsOf wsOwn) wsOwn.root pos =
      requestFrom wsOwn wsOwn.root order pos := by
    cases wsView with
    | none => rfl
    | some v =>
      obtain ⟨r, root⟩ := v
      have h := hout r root rfl
      simp [serverRequest, requestFrom, resolvedWithPrimaryPath, h]
  rw [hreq]
  exact references_exact wsOwn hwf hf wsOwn.root (by simp [Workspace.files]) hsep hnames order pos hpos incl l

/-! ### The workspace follows the buffers (`didopen-stale-workspace`, `didclose-stale-workspace`, repaired) -/

open HL.Workspace HL.WsDocs HL.Lemmas.WsDocs HL.Lemmas.Update in
/-- **workspace_follows_buffers.**  A directory `fs` (at most `MaxIncludeDepth` files),
    `Initialize`, then ANY history of didOpen / didChange / didSave / didClose notifications on
    files of the client's view that keep their include lists (`calm`; opening a file with a text
    that differs from the file on disk and closing one with unsaved edits included): the
    workspace satisfies its invariant with respect to what
    the CLIENT sees (`view`: the buffer of every open document, the file on disk otherwise).
    Hence the member files are those reachable in the client's view, and for every member file
    the tree the resolved journal holds — the one references, rename and hover read — is that
    of the client's current text. -/
theorem workspace_follows_buffers (cfg : Cfg) (fs : FS) (es : List Ev)
    (hok : HL.Spec.Rebuild.fsOk fs = true) (hne : fs ≠ []) (hclean : HL.Lemmas.Init.graphsClean cfg fs)
    (hlim : fs.length ≤ cfg.limit) (hcalm : calm cfg (dstart cfg fs) es) :
    let s := drun {} cfg fs es
    (∀ p c, s.bufs.get p = some c → s.view.get p = some c) ∧
    (∀ p, s.bufs.get p = none → s.view.get p = s.disk.get p) ∧
    (∀ p, (s.w.idx.files.get p).isSome ↔
      (HL.Spec.Rebuild.Reach s.view s.w.root p ∧ (s.view.get p).isSome)) ∧
    (∀ p, (s.w.idx.files.get p).isSome = true → held s.w p = s.view.get p) := by
  intro s
  have hinv : DInv cfg (HL.Lemmas.Init.rootSel fs) s :=
    inv_run cfg _ es _ (inv_start cfg fs hok hne hclean hlim) hcalm
  exact ⟨hinv.opened, hinv.others, hinv.winv.closed, fun p hm => held_eq cfg s.view s.w hinv.winv p hm⟩

namespace ExW
open HL.Index HL.Workspace HL.WsDocs

def shop (n : Nat) : Contrib := { pc := [("Shop", n)] }
/-- main includes b. -/
def fsW : FS := [("main.journal", { incs := ["b.journal"] }), ("b.journal", shop 1)]
/-- b is opened with a text that differs from the file on disk. -/
def esW : List Ev := [.openDoc "b.journal" (shop 2)]

end ExW

open HL.Workspace HL.WsDocs ExW in
/-- **pinned_didopen_stale_workspace_counterexample** (server.go before
    fix-didopen-workspace.diff, `fixOpen := false`): `DidOpen` stored the document without
    telling the workspace; b.journal, opened with a text that differs from the file on disk, is
    held in its disk version, while the client sees the buffer.  The repaired server holds the
    buffer. -/
theorem pinned_didopen_stale_workspace_counterexample :
    (drun { openDoc := false } {} fsW esW).view.get "b.journal" = some (shop 2) ∧
    held (drun { openDoc := false } {} fsW esW).w "b.journal" = some (shop 1) ∧
    held (drun {} {} fsW esW).w "b.journal" = some (shop 2) := by
  decide

open HL.Workspace HL.WsDocs ExW in
/-- **pinned_didclose_stale_workspace_counterexample** (server.go before
    fix-didclose-workspace.diff, `close := false`): b.journal is opened, changed without saving
    and closed; the client sees the file on disk again, the pinned workspace kept the discarded
    buffer.  The repaired server re-reads the file. -/
theorem pinned_didclose_stale_workspace_counterexample :
    let es : List Ev := [.openDoc "b.journal" (shop 1), .change "b.journal" (shop 2), .close "b.journal"]
    (drun { close := false } {} fsW es).view.get "b.journal" = some (shop 1) ∧
    (drun { close := false } {} fsW es).bufs.get "b.journal" = none ∧
    held (drun { close := false } {} fsW es).w "b.journal" = some (shop 2) ∧
    held (drun {} {} fsW es).w "b.journal" = some (shop 1) := by
  decide

open HL.Workspace HL.WsDocs HL.Lemmas.WsDocs ExW in
/-- the hypotheses of `workspace_follows_buffers` hold on that history (non-vacuity on the
    shape that used to fail), also when it goes on with a change and a save. -/
example : calm {} (dstart {} fsW)
      (esW ++ [.change "b.journal" (shop 3), .save "b.journal", .change "b.journal" (shop 4), .close "b.journal"]) ∧
    HL.Spec.Rebuild.fsOk fsW = true ∧ HL.Lemmas.Init.graphsClean {} fsW := by
  refine ⟨⟨⟨by decide, by decide, shop 1, by decide, by decide⟩,
    ⟨by decide, by decide, shop 2, by decide, by decide⟩, trivial,
    ⟨by decide, by decide, shop 3, by decide, by decide⟩,
    ⟨by decide, shop 3, shop 4, by decide, by decide, by decide, by decide⟩, trivial⟩, by decide, ?_⟩
  unfold HL.Lemmas.Init.graphsClean; decide

/-! ### Rename -/

/-- **rename_substitutes (edits).**  Rename answers with edits exactly at the occurrences of the
    symbol under the cursor (declarations included), every one carrying the new name, each under
    the URI of the file that contains the occurrence; there is no answer exactly when there is
    nothing to rename. -/
theorem rename_edits_exact (ws : Workspace) (hwf : ws.WF) (hf : ws.faithful) (cur : FileT)
    (hcur : cur ∈ ws.files) (hsep : separated cur.spans) (hnames : ∀ s ∈ cur.spans, s.name ≠ [])
    (order : List Path) (pos : LPos) (hpos : cursorOK cur.lns pos) (new : Bytes) :
    match rename (requestFrom ws cur order pos) new with
    | none => expected ws cur pos true = []
    | some ch => ∀ p e, (∃ es, (p, es) ∈ ch ∧ e ∈ es) ↔
        (⟨p, e.range⟩ ∈ expected ws cur pos true ∧ e.newText = new) := by
  have href := references_exact ws hwf hf cur hcur hsep hnames order pos hpos true
  simp only [references, requestFrom] at href
  simp only [rename, requestFrom]
  cases h1 : findDefinitionTarget cur.lns cur.tree pos with
  | none =>
    simp only [h1] at href
    simp only
    apply List.eq_nil_iff_forall_not_mem.mpr
    intro l hl
    exact absurd ((href l).mpr hl) (by simp)
  | some t =>
    simp only [h1] at href
    simp only
    by_cases hempty : (findReferences (textsOf ws) t.kind t.name (some (resolvedOf ws order)) ws.root.path
        (some cur.tree) true).isEmpty = true
    · simp only [hempty, if_true]
      apply List.eq_nil_iff_forall_not_mem.mpr
      intro l hl
      have := (href l).mpr hl
      rw [List.isEmpty_iff.mp hempty] at this
      cases this
    · simp only [hempty]
      intro p e
      rw [mem_changes_foldl]
      simp only [List.not_mem_nil, false_and, exists_false, false_or]
      constructor
      · rintro ⟨l, hl, rfl, rfl⟩
        exact ⟨(href l).mp hl, rfl⟩
      · rintro ⟨hl, hnew⟩
        refine ⟨⟨p, e.range⟩, (href _).mpr hl, rfl, ?_⟩
        cases e
        simp only at hnew
        simp [hnew]

/-- **rename_substitutes (text).**  A client applies the edits of one line from the last to the
    first.  When the edits are the occurrences' spans — increasing, not overlapping, inside the
    line — the result is the line with every lexeme replaced by the new name and every gap
    between them, before the first and after the last, unchanged: no other text changes. -/
theorem rename_substitutes {α} (line new : List α) (spans : List (Nat × Nat))
    (h : spansOK line.length 0 spans) :
    applyEditsBackwards line spans new = substSpans line 0 spans new := by
  have := applyEdits_eq_subst line new spans 0 h
  simpa using this

/-! ### Guards: what the theorems above assume, as one decidable predicate

`refs_exact` speaks about `resolvedOf ws` and faithful trees.  What the real server holds can
differ in two ways, each an open finding with a witness below:
the resolved journal is not the workspace's (a stale or missing member tree), or a tree is not
faithful to its text (a range the lexer/parser gives is not the lexeme).  -/

def wfB (ws : Workspace) : Bool :=
  ws.root.path != "" && decide ((ws.files.map (·.path)).Nodup)

/-- The server's snapshot is the workspace: same primary, same member trees. -/
def coherentB (ws : Workspace) (r : Resolved) : Bool :=
  decide (r.primary = some ws.root.tree) &&
  decide (r.files = ws.members.map fun f => (f.path, f.tree))

/-- None of the guards of the known findings fires. -/
def guardsOff (ws : Workspace) (r : Resolved) : Bool :=
  wfB ws && coherentB ws r && ws.files.all fun f => faithfulB f.lns f.tree f.spans

/-- **refs_exact_partial.**  The same statement about whatever resolved journal the server holds,
    under the decidable guard: the snapshot is coherent with the workspace and every tree is
    faithful to its text. -/
theorem refs_exact_partial (ws : Workspace) (r : Resolved) (hg : guardsOff ws r = true)
    (kind : Kind) (name : Bytes) (hne : name ≠ []) (incl : Bool) (cur : Option Journal) (l : Loc) :
    l ∈ findReferences (textsOf ws) kind name (some r) ws.root.path cur incl ↔
      l ∈ occurrences ws.spanFiles kind name incl := by
  simp only [guardsOff, wfB, coherentB, Bool.and_eq_true, bne_iff_ne, ne_eq, decide_eq_true_eq,
    List.all_eq_true] at hg
  obtain ⟨⟨⟨h1, h2⟩, h3, h4⟩, h5⟩ := hg
  have hr : r = resolvedOf ws r.order := by
    cases r
    simp only [resolvedOf] at *
    simp [h3, h4]
  rw [hr]
  exact refs_exact ws ⟨h1, h2⟩ (fun f hfm => faithful_of_faithfulB (lns := f.lns) _ _ (h5 f hfm)) kind name hne incl cur _ l

/-! ### Concrete workspaces (trees as the real parser produces them, positions checked against it) -/

/-! The example files below are ASCII except `fileNB`; they carry no text (`lns := []`, requests
    made with `noTexts` or `textsOf`, which then hands out `[]`): without a text the conversion
    passes columns on unchanged, which on ASCII lines is what the conversion with the text gives. -/

namespace Ex

def P (l c : Nat) : Pos := ⟨l, c, 0⟩
def R (sl sc el ec : Nat) : Rng := ⟨P sl sc, P el ec⟩
def amt (sym : Bytes) (r : Rng) : Amount := ⟨⟨1, 0⟩, [49], ⟨sym, .right, r⟩, false, Rng.zero⟩
def post (a : Account) (am : Option Amount) (cost : Option Cost := none) : Posting :=
  ⟨.none, a, am, none, cost, [], [], .none, Rng.zero⟩
def txn (dateR : Rng) (desc : Bytes) (ps : List Posting) (code : Bytes := []) : Transaction :=
  ⟨⟨2024, 1, 1, dateR⟩, none, .none, code, desc, [], [], ps, [], [], Rng.zero⟩
def sp (k : Kind) (name : Bytes) (line c0 c1 : Nat) (decl : Bool := false) : Span :=
  ⟨k, name, ⟨⟨line, c0⟩, ⟨line, c1⟩⟩, decl⟩

def ab : Bytes := [97, 58, 98]          -- a:b
def usd : Bytes := [85, 83, 68]         -- USD
def eur : Bytes := [69, 85, 82]         -- EUR
def shop : Bytes := [83, 104, 111, 112] -- Shop

/-- a.journal: `include b.journal` / `account a:b` / `2024-01-01 Shop` / `  a:b  1 USD`. -/
def fileA : FileT :=
  { path := "a.journal",
    tree := { transactions := [txn (R 3 1 3 11) shop [post ⟨ab, R 4 3 4 6⟩ (some (amt usd (R 4 10 4 13)))]],
              directives := [.account ⟨ab, R 2 9 0 0⟩ [] [] [] (R 2 1 3 1)],
              comments := [], includes := [⟨[98], R 1 1 1 18⟩] },
    spans := [sp .account ab 1 8 11 true, sp .payee shop 2 11 15, sp .account ab 3 2 5, sp .commodity usd 3 9 12] }

/-- b.journal: `2024-01-02 Shop` / `  a:b  2 USD @ 3 EUR`. -/
def fileB : FileT :=
  { path := "b.journal",
    tree := { transactions := [txn (R 1 1 1 11) shop
                [post ⟨ab, R 2 3 2 6⟩ (some (amt usd (R 2 10 2 13))) (some ⟨amt eur (R 2 18 2 21), false, Rng.zero⟩)]],
              directives := [], comments := [], includes := [] },
    spans := [sp .payee shop 0 11 15, sp .account ab 1 2 5, sp .commodity usd 1 9 12, sp .commodity eur 1 17 20] }

def ws2 : Workspace := ⟨fileA, [fileB]⟩

/-- `D 1.00 USD` / `2024-01-01 Shop` / `  a:b  1 USD`: the `D` directive's symbol has no
    position in the tree. -/
def fileD : FileT :=
  { path := "a.journal",
    tree := { transactions := [txn (R 2 1 2 11) shop [post ⟨ab, R 3 3 3 6⟩ (some (amt usd (R 3 10 3 13)))]],
              directives := [.defaultCommodity usd [49, 46, 48, 48, 32, 85, 83, 68] (R 1 1 1 11)],
              comments := [], includes := [] },
    spans := [sp .commodity usd 0 7 10, sp .payee shop 1 11 15, sp .account ab 2 2 5, sp .commodity usd 2 9 12] }

def aGrin : Bytes := [97, 58, 0xF0, 0x9F, 0x98, 0x80]   -- a:😀
/-- `2024-01-01 Shop` / `  a:😀  1 USD`: columns count runes, the client counts UTF-16 units;
    the file's text is what the conversion needs. -/
def fileNB : FileT :=
  { path := "a.journal",
    tree := { transactions := [txn (R 1 1 1 11) shop [post ⟨aGrin, R 2 3 2 6⟩ (some (amt usd (R 2 10 2 13)))]],
              directives := [], comments := [], includes := [] },
    spans := [sp .payee shop 0 11 15, sp .account aGrin 1 2 6, sp .commodity usd 1 10 13],
    lns := ["2024-01-01 Shop".toList, "  a:😀  1 USD".toList, []] }

/-- `2024-01-01 (12) Shop` / `  a:b  1`: a code stands between the date and the payee; the
    payee's position is read off the header line of the file's text. -/
def fileCode : FileT :=
  { path := "a.journal",
    tree := { transactions := [txn (R 1 1 1 11) shop [post ⟨ab, R 2 3 2 6⟩ none] [49, 50]],
              directives := [], comments := [], includes := [] },
    spans := [sp .payee shop 0 16 20, sp .account ab 1 2 5],
    lns := ["2024-01-01 (12) Shop".toList, "  a:b  1".toList, []] }

def aB : Bytes := [65, 32, 66]   -- A B
/-- `commodity "A B"` / `2024-01-01 Shop` / `  a:b  1 "A B"`: the parser records the token's End
    for the commodity of the directive (fix-quoted-commodity-directive.diff), as it does for the
    commodity of the posting: both ranges include the quotes. -/
def fileQuoted : FileT :=
  { path := "a.journal",
    tree := { transactions := [txn (R 2 1 2 11) shop [post ⟨ab, R 3 3 3 6⟩ (some (amt aB (R 3 10 3 15)))]],
              directives := [.commodity ⟨aB, .left, R 1 11 1 16⟩ [] [] [] (R 1 1 2 1)],
              comments := [], includes := [] },
    spans := [sp .commodity aB 0 10 15 true, sp .payee shop 1 11 15, sp .account ab 2 2 5, sp .commodity aB 2 9 14] }

/-- The same file with the tree of the parser as pinned: the directive's commodity has no End,
    the server derives a range as long as the symbol; the lexeme has two quotes more. -/
def fileQuotedPinned : FileT :=
  { fileQuoted with
    tree := { fileQuoted.tree with directives := [.commodity ⟨aB, .left, R 1 11 0 0⟩ [] [] [] (R 1 1 2 1)] } }

/-- `P 2024-01-01 "😀" 2 USD` / `2024-01-02 Shop` / `  a:😀  1 "😀"`: a priced symbol outside the BMP,
    in the posting after another such character. -/
def grin : Bytes := [0xF0, 0x9F, 0x98, 0x80]
def filePriceNB : FileT :=
  { path := "a.journal",
    tree := { transactions := [txn (R 2 1 2 11) shop [post ⟨aGrin, R 3 3 3 6⟩ (some (amt grin (R 3 10 3 13)))]],
              directives := [.price ⟨2024, 1, 1, R 1 3 1 13⟩ ⟨grin, .left, R 1 14 1 17⟩
                               (amt usd (R 1 20 1 23)) (R 1 1 1 23)],
              comments := [], includes := [] },
    spans := [sp .commodity grin 0 13 17, sp .commodity usd 0 20 23, sp .payee shop 1 11 15,
              sp .account aGrin 2 2 6, sp .commodity grin 2 10 14],
    lns := ["P 2024-01-01 \"😀\" 2 USD".toList, "2024-01-02 Shop".toList, "  a:😀  1 \"😀\"".toList, []] }

def usdL : Bytes := [117, 115, 100]   -- usd
/-- `2024-01-01 Shop` / `  a:b  1 usd  ; c`: a lower-case commodity is a free-text token; it ends
    with its value (fix-trailing-blank-ranges.diff), the blanks before the `;` lie behind it. -/
def fileText : FileT :=
  { path := "a.journal",
    tree := { transactions := [txn (R 1 1 1 11) shop [post ⟨ab, R 2 3 2 6⟩ (some (amt usdL (R 2 10 2 13)))]],
              directives := [], comments := [], includes := [] },
    spans := [sp .payee shop 0 11 15, sp .account ab 1 2 5, sp .commodity usdL 1 9 12] }

/-- The same file as the parser read it before that repair: the text token ended at the `;`. -/
def fileTextPinned : FileT :=
  { fileText with
    tree := { transactions := [txn (R 1 1 1 11) shop [post ⟨ab, R 2 3 2 6⟩ (some (amt usdL (R 2 10 2 15)))]],
              directives := [], comments := [], includes := [] } }

/-- b.journal as the client holds it after an unsaved edit: a line was inserted on top. -/
def fileB' : FileT :=
  { path := "b.journal",
    tree := { transactions := [txn (R 2 1 2 11) shop
                [post ⟨ab, R 3 3 3 6⟩ (some (amt usd (R 3 10 3 13))) (some ⟨amt eur (R 3 18 3 21), false, Rng.zero⟩)]],
              directives := [], comments := [⟨[32, 120], [], R 1 1 0 0⟩], includes := [] },
    spans := [sp .payee shop 1 11 15, sp .account ab 2 2 5, sp .commodity usd 2 9 12, sp .commodity eur 2 17 20] }

end Ex
open Ex

instance (l : Loc) (xs : List Loc) : Decidable (l ∈ xs) :=
  decidable_of_iff (xs.any fun x => decide (x = l) = true) (by simp)

/-- The resolved journal of a single file. -/
def single (f : FileT) : Resolved := ⟨some f.tree, [], []⟩

/-! #### The defect repaired by fix-references-rename.diff

Before the repair `allJournalsWithPaths` was given the path of the *requesting* document as the
label of the primary journal.  With a workspace root the primary journal is the root journal:
from an included file the root's occurrences were reported under the included file's name and
the included file's own tree was overwritten. -/

theorem pinned_primary_label_counterexample :
    (∃ l, l ∈ findReferences noTexts .account ab (some (resolvedOf ws2 [])) "b.journal" none true ∧
          l ∉ occurrences ws2.spanFiles .account ab true) ∧
    (∃ l, l ∈ occurrences ws2.spanFiles .account ab true ∧
          l ∉ findReferences noTexts .account ab (some (resolvedOf ws2 [])) "b.journal" none true) :=
  ⟨⟨⟨"b.journal", ⟨⟨1, 8⟩, ⟨1, 11⟩⟩⟩, by decide, by decide⟩,
   ⟨⟨"a.journal", ⟨⟨1, 8⟩, ⟨1, 11⟩⟩⟩, by decide, by decide⟩⟩

/-! #### Known finding `unranged-commodity-site` -/

theorem unranged_commodity_site_counterexample :
    faithfulB fileD.lns fileD.tree fileD.spans = false ∧ unrangedSites fileD.tree usd = 1 ∧
    ∃ l, l ∈ occurrences [(fileD.path, fileD.spans)] .commodity usd true ∧
         l ∉ findReferences noTexts .commodity usd (some (single fileD)) fileD.path none true :=
  ⟨by decide, by decide, ⟨"a.journal", ⟨⟨0, 7⟩, ⟨0, 10⟩⟩⟩, by decide, by decide⟩

/-! #### The defect repaired by fix-utf16-positions.diff (finding `utf16-columns`)

The code as pinned copied `column − 1` into the character, which is what the model does for a
file without text (`noTexts`): after `a:😀` the commodity was reported one unit too far left.
With the file's text the tree is faithful and the answer is the occurrence. -/

theorem pinned_utf16_columns_counterexample :
    faithfulB [] fileNB.tree fileNB.spans = false ∧
    (∃ l, l ∈ findReferences noTexts .commodity usd (some (single fileNB)) fileNB.path none true ∧
         l ∉ occurrences [(fileNB.path, fileNB.spans)] .commodity usd true) ∧
    faithfulB fileNB.lns fileNB.tree fileNB.spans = true ∧
    findReferences (textsOf ⟨fileNB, []⟩) .commodity usd (some (single fileNB)) fileNB.path none true =
      [⟨"a.journal", ⟨⟨1, 10⟩, ⟨1, 13⟩⟩⟩] ∧
    -- the cursor of the request is converted too: UTF-16 character 11 is on `USD`
    references (requestFrom ⟨fileNB, []⟩ fileNB [] ⟨1, 11⟩) true = [⟨"a.journal", ⟨⟨1, 10⟩, ⟨1, 13⟩⟩⟩] :=
  ⟨by decide, ⟨⟨"a.journal", ⟨⟨1, 9⟩, ⟨1, 12⟩⟩⟩, by decide, by decide⟩, by decide, by decide, by decide⟩

/-! #### The defect repaired by fix-payee-range.diff (finding `payee-range-estimate`)

The tree has no position for the payee.  The code as pinned placed it one blank after the date
(three columns after it with a status mark), which is what the model still does for a file
without text (`noTexts`, `lns := []`): with a code, a secondary date or wider spacing the
location reported for the payee was not an occurrence (`2024-01-01 (12) Shop`: 0:11–0:15 is
`(12)`), references from the real payee found nothing and a rename overwrote the code.  The
repaired server reads the header line of the file's text (`HL.PayeeRange`): the tree read with
its text is faithful and the answers are the occurrences. -/

theorem pinned_payee_range_estimate_counterexample :
    faithfulB [] fileCode.tree fileCode.spans = false ∧
    (∃ l, l ∈ findReferences noTexts .payee shop (some (single fileCode)) fileCode.path none true ∧
         l ∉ occurrences [(fileCode.path, fileCode.spans)] .payee shop true) ∧
    -- the rename edit 0:11–0:15 overwrote the code and left the payee behind
    (∀ new : List Char, applyEditsBackwards "2024-01-01 (12) Shop".toList [(11, 15)] new =
        "2024-01-01 ".toList ++ new ++ " Shop".toList) ∧
    -- the cursor on the payee was on no symbol
    findDefinitionTarget [] fileCode.tree ⟨0, 17⟩ = none :=
  ⟨by decide, ⟨⟨"a.journal", ⟨⟨0, 11⟩, ⟨0, 15⟩⟩⟩, by decide, by decide⟩,
   fun new => by rw [rename_substitutes _ _ _ (by simp [spansOK])]; simp [substSpans],
   by decide⟩

/-- With the text the tree is faithful; references from every cursor position of the payee
    lists the payee, the code is no symbol any more, prepareRename offers the payee. -/
theorem payee_header_exact :
    faithfulB fileCode.lns fileCode.tree fileCode.spans = true ∧
    guardsOff ⟨fileCode, []⟩ (single fileCode) = true ∧
    (∀ ch ∈ [16, 17, 20], references (requestFrom ⟨fileCode, []⟩ fileCode [] ⟨0, ch⟩) true =
      [⟨"a.journal", ⟨⟨0, 16⟩, ⟨0, 20⟩⟩⟩]) ∧
    (∀ ch ∈ [11, 13, 15], references (requestFrom ⟨fileCode, []⟩ fileCode [] ⟨0, ch⟩) true = []) ∧
    prepareRename (requestFrom ⟨fileCode, []⟩ fileCode [] ⟨0, 18⟩) = some ⟨⟨0, 16⟩, ⟨0, 20⟩⟩ := by
  decide

/-- **rename_substitutes for a payee behind a code.**  Any new name: one edit, with the range of
    the payee's lexeme … -/
theorem rename_payee_header (new : Bytes) :
    rename (requestFrom ⟨fileCode, []⟩ fileCode [] ⟨0, 17⟩) new =
      some [("a.journal", [⟨⟨⟨0, 16⟩, ⟨0, 20⟩⟩, new⟩])] := by
  have ht : findDefinitionTarget fileCode.lns fileCode.tree ⟨0, 17⟩ =
      some ⟨.payee, shop, ⟨⟨0, 16⟩, ⟨0, 20⟩⟩⟩ := by decide
  have hr : findReferences (textsOf ⟨fileCode, []⟩) .payee shop (some (resolvedOf ⟨fileCode, []⟩ []))
      fileCode.path (some fileCode.tree) true = [⟨"a.journal", ⟨⟨0, 16⟩, ⟨0, 20⟩⟩⟩] := by decide
  simp only [rename, requestFrom, ht, hr]
  simp [Changes.add]

/-- … and applying it replaces the payee and nothing else: the code stays. -/
theorem rename_payee_header_text (new : List Char) :
    applyEditsBackwards "2024-01-01 (12) Shop".toList [(16, 20)] new = "2024-01-01 (12) ".toList ++ new := by
  rw [rename_substitutes _ _ _ (by simp [spansOK])]; simp [substSpans]

open HL.Spec.HeaderG in
/-- **payeeNode_header.**  For EVERY header of the grammar (HL/Spec/HeaderG.lean: optional
    secondary date, status mark and code, any runs of blanks and tabs, `| note`, comment; `pre`
    is the line up to the end of the date, `cr` what follows the printed header — nothing, or
    the CR of a CRLF line end): the span the tree's reading gives for the payee is the payee's
    lexeme, in LSP coordinates — line, UTF-16 offset of its first character, UTF-16 offset just
    past its last.  So the payee node of such a header is faithful to the text
    (`Workspace.faithful`), and `refs_exact`, `references_exact`, `prepareRename_exact`,
    `rename_edits_exact` apply to payees whatever stands between the date and the payee. -/
theorem payeeNode_header (lns : Lines) (tx : Transaction) (pre : HL.Text.Txt) (h : Header) (cr : HL.Text.Txt)
    (h1 : 1 ≤ tx.date.range.start.line) (h1' : tx.date.range.start.line ≤ 4294967296)
    (h2 : 1 ≤ tx.date.range.stop.col)
    (hl : lns[tx.date.range.start.line - 1]? = some (pre ++ (h.print ++ cr)))
    (hsmall : HL.Text.u16len (pre ++ (h.print ++ cr)) < 4294967296)
    (hpre : pre.length = tx.date.range.stop.col - 1) (hw : h.wf = true)
    (hne : payeeOrDescription tx ≠ []) (hlen : h.payee.length = runeLen (payeeOrDescription tx)) :
    (payeeNode lns tx).map (TNode.toSpan lns) =
      [⟨.payee, payeeOrDescription tx,
        ⟨⟨tx.date.range.start.line - 1, HL.Text.u16len (pre ++ h.lead)⟩,
         ⟨tx.date.range.start.line - 1, HL.Text.u16len (pre ++ h.lead ++ h.payee)⟩⟩, false⟩] := by
  have hcol : HL.PayeeRange.payeeStart lns tx.date.range.start.line tx.date.range.stop.col =
      some (tx.date.range.stop.col + h.lead.length) := by
    have h0 : tx.date.range.start.line ≠ 0 := by omega
    simp only [HL.PayeeRange.payeeStart, h0, if_false, hl, Header.print, List.append_assoc]
    exact HL.Lemmas.PayeeRange.descriptionColumn_header pre h (h.tail ++ cr) _ hw h2 hpre
  rw [payeeNode_eq, if_neg hne]
  simp only [List.map_cons, List.map_nil, payNode, payeeRange, hcol, TNode.toSpan, toLsp,
    u32pred_of_sane _ h1 h1']
  have h0 : tx.date.range.start.line ≠ 0 := by omega
  have e1 : (pre ++ (h.print ++ cr)).take (tx.date.range.stop.col + h.lead.length - 1) = pre ++ h.lead := by
    have : tx.date.range.stop.col + h.lead.length - 1 = (pre ++ h.lead).length := by simp; omega
    rw [this, Header.print]
    simp only [← List.append_assoc]
    rw [List.append_assoc (pre ++ h.lead), List.append_assoc (pre ++ h.lead), List.take_left]
  have e2 : (pre ++ (h.print ++ cr)).take (tx.date.range.stop.col + h.lead.length + runeLen (payeeOrDescription tx) - 1) =
      pre ++ h.lead ++ h.payee := by
    have : tx.date.range.stop.col + h.lead.length + runeLen (payeeOrDescription tx) - 1 =
        (pre ++ h.lead ++ h.payee).length := by simp; omega
    rw [this, Header.print]
    simp only [← List.append_assoc]
    rw [List.append_assoc (pre ++ h.lead ++ h.payee), List.take_left]
  have b1 := u16len_take_le' (pre ++ (h.print ++ cr)) (tx.date.range.stop.col + h.lead.length - 1)
  have b2 := u16len_take_le' (pre ++ (h.print ++ cr))
    (tx.date.range.stop.col + h.lead.length + runeLen (payeeOrDescription tx) - 1)
  simp only [convChar, h0, if_false, hl]
  rw [e1] at b1 ⊢
  rw [e2] at b2 ⊢
  rw [Nat.mod_eq_of_lt (by omega), Nat.mod_eq_of_lt (by omega)]

/-- Text in, spans out: the lexer and parser models (`parser.Parse`) on a CRLF document whose
    first header carries a secondary date, a status mark, a code, a tab before the payee and
    `| note ; comment`, the second one three blanks; the payee starts with a character outside the
    BMP.  The tree read with its text is faithful to the spans the text was written from, and a
    non-vacuity instance of `payeeNode_header`'s hypotheses is the first header. -/
def payeeText : String :=
  "2024-01-01=2024-01-02 * (12)\t😀 Shop | note ; c\r\n  a:b  1\r\n2024/1/3   😀 Shop\r\n  a:b  2\r\n"
def gshop : Bytes := "😀 Shop".toUTF8.toList
theorem payee_header_parsed_faithful :
    faithfulB (HL.Text.lines payeeText.toList) (HL.Pipeline.parseText Classes.go payeeText.toUTF8.toList).1
      [sp .payee gshop 0 29 36, sp .account ab 1 2 5, sp .payee gshop 2 11 18, sp .account ab 3 2 5] = true := by
  decide +kernel

example :
    let h : HL.Spec.HeaderG.Header := {
      date2 := some ([], [], "2024-01-02".toList), status := some (" ".toList, '*'),
      code := some (" ".toList, "12".toList), gap := "\t".toList, payee := "😀 Shop".toList,
      note := some (" ".toList, " ".toList, "note".toList), comment := some (" ".toList, " c".toList) }
    (HL.Text.lines payeeText.toList)[0]? = some ("2024-01-01".toList ++ (h.print ++ ['\r'])) ∧ h.wf = true ∧
    h.payee.length = runeLen gshop ∧
    HL.Text.u16len ("2024-01-01".toList ++ h.lead) = 29 ∧
    HL.Text.u16len ("2024-01-01".toList ++ h.lead ++ h.payee) = 36 := by
  decide +kernel

/-! #### The defect repaired by fix-quoted-commodity-directive.diff (finding `quoted-commodity-directive`)

The tree recorded only where the commodity of a `commodity` / `P` directive starts and the
server derived the end from the symbol's length: two short when the lexeme is written in quotes.
The repaired parser records the token's End, the repaired server reads it: the tree is faithful,
the directive site is listed with the range of its whole lexeme — the same convention as at the
posting — and a rename replaces the whole lexeme at both sites. -/

theorem pinned_quoted_commodity_directive_counterexample :
    faithfulB fileQuotedPinned.lns fileQuotedPinned.tree fileQuotedPinned.spans = false ∧
    (∃ l, l ∈ findReferences noTexts .commodity aB (some (single fileQuotedPinned)) fileQuotedPinned.path none true ∧
          l ∉ occurrences [(fileQuotedPinned.path, fileQuotedPinned.spans)] .commodity aB true) ∧
    -- the rename edit 0:10–0:13 leaves `B"` behind
    (∀ new : List Char, applyEditsBackwards "commodity \"A B\"".toList [(10, 13)] new =
        "commodity ".toList ++ new ++ "B\"".toList) :=
  ⟨by decide, ⟨⟨"a.journal", ⟨⟨0, 10⟩, ⟨0, 13⟩⟩⟩, by decide, by decide⟩,
   fun new => by rw [rename_substitutes _ _ _ (by simp [spansOK])]; simp [substSpans]⟩

/-- The tree of the repaired parser is faithful; references — from the posting, from the
    directive, with the cursor given on either quote or inside — lists both sites with their
    whole lexemes; prepareRename offers the whole lexeme. -/
theorem quoted_commodity_directive_exact :
    faithfulB fileQuoted.lns fileQuoted.tree fileQuoted.spans = true ∧
    guardsOff ⟨fileQuoted, []⟩ (single fileQuoted) = true ∧
    (∀ ch ∈ [10, 12, 15], references (requestFrom ⟨fileQuoted, []⟩ fileQuoted [] ⟨0, ch⟩) true =
      [⟨"a.journal", ⟨⟨0, 10⟩, ⟨0, 15⟩⟩⟩, ⟨"a.journal", ⟨⟨2, 9⟩, ⟨2, 14⟩⟩⟩]) ∧
    references (requestFrom ⟨fileQuoted, []⟩ fileQuoted [] ⟨2, 11⟩) true =
      [⟨"a.journal", ⟨⟨0, 10⟩, ⟨0, 15⟩⟩⟩, ⟨"a.journal", ⟨⟨2, 9⟩, ⟨2, 14⟩⟩⟩] ∧
    references (requestFrom ⟨fileQuoted, []⟩ fileQuoted [] ⟨2, 11⟩) false = [⟨"a.journal", ⟨⟨2, 9⟩, ⟨2, 14⟩⟩⟩] ∧
    prepareRename (requestFrom ⟨fileQuoted, []⟩ fileQuoted [] ⟨0, 12⟩) = some ⟨⟨0, 10⟩, ⟨0, 15⟩⟩ := by
  decide

/-- The same for a `P` directive whose symbol lies outside the BMP (the text of the file is
    needed to convert the columns): the priced commodity is reported at 0:13–0:17, `"😀"` with its
    quotes in UTF-16 units. -/
theorem quoted_price_directive_nonbmp_exact :
    faithfulB filePriceNB.lns filePriceNB.tree filePriceNB.spans = true ∧
    references (requestFrom ⟨filePriceNB, []⟩ filePriceNB [] ⟨2, 12⟩) false =
      [⟨"a.journal", ⟨⟨0, 13⟩, ⟨0, 17⟩⟩⟩, ⟨"a.journal", ⟨⟨2, 10⟩, ⟨2, 14⟩⟩⟩] ∧
    prepareRename (requestFrom ⟨filePriceNB, []⟩ filePriceNB [] ⟨0, 15⟩) = some ⟨⟨0, 13⟩, ⟨0, 17⟩⟩ := by
  decide

/-- **rename_substitutes for a quoted directive site.**  Rename from the declaration, any new
    name: one edit per site, each with the range of the whole lexeme and the new name as its
    text (the same new text at the directive and at the posting) … -/
theorem rename_quoted_directive (new : Bytes) :
    rename (requestFrom ⟨fileQuoted, []⟩ fileQuoted [] ⟨0, 12⟩) new =
      some [("a.journal", [⟨⟨⟨0, 10⟩, ⟨0, 15⟩⟩, new⟩, ⟨⟨⟨2, 9⟩, ⟨2, 14⟩⟩, new⟩])] := by
  have ht : findDefinitionTarget fileQuoted.lns fileQuoted.tree ⟨0, 12⟩ =
      some ⟨.commodity, aB, ⟨⟨0, 10⟩, ⟨0, 15⟩⟩⟩ := by decide
  have hr : findReferences (textsOf ⟨fileQuoted, []⟩) .commodity aB (some (resolvedOf ⟨fileQuoted, []⟩ []))
      fileQuoted.path (some fileQuoted.tree) true =
      [⟨"a.journal", ⟨⟨0, 10⟩, ⟨0, 15⟩⟩⟩, ⟨"a.journal", ⟨⟨2, 9⟩, ⟨2, 14⟩⟩⟩] := by decide
  simp only [rename, requestFrom, ht, hr]
  simp [Changes.add]

/-- … and applying them replaces the whole lexeme, quotes included, and nothing else. -/
theorem rename_quoted_directive_text (new : List Char) :
    applyEditsBackwards "commodity \"A B\"".toList [(10, 15)] new = "commodity ".toList ++ new ∧
    applyEditsBackwards "  a:b  1 \"A B\"".toList [(9, 14)] new = "  a:b  1 ".toList ++ new := by
  constructor
  · rw [rename_substitutes _ _ _ (by simp [spansOK])]; simp [substSpans]
  · rw [rename_substitutes _ _ _ (by simp [spansOK])]; simp [substSpans]

/-- Text in, spans out: the lexer and parser models (`parser.Parse`) on the witness of the former
    finding, replays/C09/quoted-commodity-directive.jsonl, give a faithful tree. -/
def quotedText : String := "commodity \"A B\"\n2024-01-01 Shop\n  a:b  1 \"A B\"\n"
theorem quoted_commodity_directive_parsed_faithful :
    faithfulB (HL.Text.lines quotedText.toList)
      (HL.Pipeline.parseText Classes.go quotedText.toUTF8.toList).1 fileQuoted.spans = true := by
  decide +kernel

/-! #### The defect repaired by fix-trailing-blank-ranges.diff (finding `text-commodity-trailing-blank`)

A commodity lexed as free text (`usd`, `шт`) ended where `scanText` stopped, at the `;`: the tree
was not faithful, references listed 1:9–1:14 and a rename swallowed the blanks.  The repaired
lexer ends the token with its value (`HL.Props.C06.token_end_is_lexeme_end`). -/

theorem pinned_text_commodity_trailing_blank_counterexample :
    faithfulB fileTextPinned.lns fileTextPinned.tree fileTextPinned.spans = false ∧
    (∃ l, l ∈ findReferences noTexts .commodity usdL (some (single fileTextPinned)) fileTextPinned.path none true ∧
         l ∉ occurrences [(fileTextPinned.path, fileTextPinned.spans)] .commodity usdL true) ∧
    -- the rename edit 1:9–1:14 swallows the blanks before the comment
    (∀ new : List Char, applyEditsBackwards "  a:b  1 usd  ; c".toList [(9, 14)] new =
        "  a:b  1 ".toList ++ new ++ "; c".toList) :=
  ⟨by decide, ⟨⟨"a.journal", ⟨⟨1, 9⟩, ⟨1, 14⟩⟩⟩, by decide, by decide⟩,
   fun new => by rw [rename_substitutes _ _ _ (by simp [spansOK])]; simp [substSpans]⟩

/-- The tree of the repaired lexer is faithful, no guard fires, references from every cursor on
    the symbol lists exactly 1:9–1:12, and a rename leaves the blanks alone. -/
theorem text_commodity_trailing_blank_exact :
    faithfulB fileText.lns fileText.tree fileText.spans = true ∧
    guardsOff ⟨fileText, []⟩ (single fileText) = true ∧
    (∀ ch ∈ [9, 10, 12], references (requestFrom ⟨fileText, []⟩ fileText [] ⟨1, ch⟩) true =
      [⟨"a.journal", ⟨⟨1, 9⟩, ⟨1, 12⟩⟩⟩]) ∧
    (∀ new : List Char, applyEditsBackwards "  a:b  1 usd  ; c".toList [(9, 12)] new =
        "  a:b  1 ".toList ++ new ++ "  ; c".toList) :=
  ⟨by decide, by decide, by decide,
   fun new => by rw [rename_substitutes _ _ _ (by simp [spansOK])]; simp [substSpans]⟩

/-- Text in, spans out: the lexer and parser models on the witness of the former finding,
    replays/C09/text-commodity-trailing-blank.jsonl, give a faithful tree. -/
def textCommodityText : String := "2024-01-01 Shop\n  a:b  1 usd  ; c\n"
theorem text_commodity_parsed_faithful :
    faithfulB (HL.Text.lines textCommodityText.toList)
      (HL.Pipeline.parseText Classes.go textCommodityText.toUTF8.toList).1 fileText.spans = true := by
  decide +kernel

/-! #### Findings about the snapshot the server holds

The workspace `⟨fileA, [fileB']⟩` is what the client sees: b.journal is open with an unsaved
edit.  When the request is answered from the journal resolved for a.journal itself (no
workspace root, or a.journal outside the root's tree) that journal was loaded from disk:
`unsaved-include-not-seen`, OPEN.  With a workspace root the same happened when b.journal was
opened with a text that differs from disk and not changed since (`didopen-stale-workspace`,
repaired: `workspace_follows_buffers`; the pinned behaviour is
`pinned_didopen_stale_workspace_counterexample` on the server model, and below on the
references it produced): in both cases the server holds `fileB`'s tree.  After a second load
with a warm cache the pinned loader kept only the directly included file and dropped its
subtree (`loader-cache-drops-subtree`, repaired): the member was missing altogether. -/

def wsEdited : Workspace := ⟨fileA, [fileB']⟩

theorem unsaved_include_not_seen_counterexample :
    coherentB wsEdited (resolvedOf ws2 []) = false ∧
    ∃ l, l ∈ findReferences noTexts .commodity usd (some (resolvedOf ws2 [])) "a.journal" none true ∧
         l ∉ occurrences wsEdited.spanFiles .commodity usd true :=
  ⟨by decide, ⟨"b.journal", ⟨⟨1, 9⟩, ⟨1, 12⟩⟩⟩, by decide, by decide⟩

theorem pinned_didopen_stale_snapshot_counterexample :
    coherentB wsEdited (resolvedOf ws2 ["b.journal"]) = false ∧
    ∃ l, l ∈ occurrences wsEdited.spanFiles .commodity eur true ∧
         l ∉ findReferences noTexts .commodity eur (some (resolvedOf ws2 ["b.journal"])) "a.journal" none true :=
  ⟨by decide, ⟨"b.journal", ⟨⟨2, 17⟩, ⟨2, 20⟩⟩⟩, by decide, by decide⟩

theorem loader_cache_drops_subtree_counterexample :
    coherentB ws2 (single fileA) = false ∧
    ∃ l, l ∈ occurrences ws2.spanFiles .account ab true ∧
         l ∉ findReferences noTexts .account ab (some (single fileA)) "a.journal" none true :=
  ⟨by decide, ⟨"b.journal", ⟨⟨1, 2⟩, ⟨1, 5⟩⟩⟩, by decide, by decide⟩

/-- Before fix-orphan-journal-own-tree.diff a request from a journal outside the root's tree
    (`o.journal`; the workspace is the single file a.journal) read the workspace's journal:
    none of its own occurrences were reported.  The repaired choice reads the journal resolved
    for the document itself. -/
theorem pinned_orphan_reads_workspace_counterexample :
    let orphan : FileT := { fileB with path := "o.journal" }
    let wsv : Option (Resolved × Path) := some (single fileD, "a.journal")
    let own := some (single orphan)
    wsContains (single fileD) "a.journal" "o.journal" = false ∧
    (∃ l, l ∈ occurrences [(orphan.path, orphan.spans)] .commodity eur true ∧
      l ∉ findReferences noTexts .commodity eur (pinnedResolvedWithPrimaryPath wsv own orphan.path).1
            (pinnedResolvedWithPrimaryPath wsv own orphan.path).2 (some orphan.tree) true) ∧
    findReferences noTexts .commodity eur (resolvedWithPrimaryPath wsv own orphan.path).1
      (resolvedWithPrimaryPath wsv own orphan.path).2 (some orphan.tree) true =
      [⟨"o.journal", ⟨⟨1, 17⟩, ⟨1, 20⟩⟩⟩] :=
  ⟨by decide, ⟨⟨"o.journal", ⟨⟨1, 17⟩, ⟨1, 20⟩⟩⟩, by decide, by decide⟩, by decide⟩

/-- Non-vacuity: a two-file workspace with shared symbols satisfies every hypothesis. -/
example : guardsOff ws2 (resolvedOf ws2 ["b.journal"]) = true := by decide
example : findReferences noTexts .account ab (some (resolvedOf ws2 [])) "a.journal" none true =
    [⟨"a.journal", ⟨⟨1, 8⟩, ⟨1, 11⟩⟩⟩, ⟨"a.journal", ⟨⟨3, 2⟩, ⟨3, 5⟩⟩⟩, ⟨"b.journal", ⟨⟨1, 2⟩, ⟨1, 5⟩⟩⟩] := by decide
example : (references (requestFrom ws2 fileB [] ⟨1, 18⟩) false) = [⟨"b.journal", ⟨⟨1, 17⟩, ⟨1, 20⟩⟩⟩] := by decide

end HL.Props.C09
