/-
  C05 — Formatting is idempotent, aligned and returns well-formed edits.
  Property theorems only; helper lemmas live in HL/Lemmas/FmtText.lean and HL/Lemmas/Format.lean.

  The theorems speak about `HL.Fmt.formatText`, the model of `server.formatText`
  (= `Server.Format` after the document, the workspace formats and the settings have been
  looked up): parse, skip the lines with parse errors, `FormatDocumentWithOptions`.
  The syntax tree is an input of the model; what the theorems need from the parser is the
  explicit, decidable hypothesis `TreeFits`.
-/
import HL.Lemmas.Format
import HL.Generated.Expect.Format
namespace HL.Props.C05
open HL HL.Ast HL.FmtText HL.Fmt HL.EditSpec HL.Lemmas.FmtText HL.Lemmas.Format

/-- What the formatter needs from the parser: every posting starts on a line of the document,
    no two postings start on the same line, and the document is smaller than 4 GiB
    (LSP positions are `uint32`). -/
def TreeFits (doc : Bytes) (j : Journal) : Prop :=
  doc.length < 4294967296 ∧
  (∀ p ∈ allPostings j, 1 ≤ p.range.start.line ∧ p.range.start.line ≤ (splitLines doc).length) ∧
  ((allPostings j).map (·.range.start.line)).Nodup

instance (doc : Bytes) (j : Journal) : Decidable (TreeFits doc j) := by
  unfold TreeFits; infer_instance

/-- The model's constants are the ones extracted from formatter.go (`minSpaces`,
    `defaultIndentSize`); if the source changes them this stops compiling. -/
theorem constants_match : Fmt.minSpaces = HL.Generated.Facts.minSpaces ∧
    Fmt.defaultIndentSize = HL.Generated.Facts.defaultIndentSize := by decide

/-! ### Shape of the posting edits -/

/-- The postings that are rewritten: those whose line has no parse error. -/
def kept (j : Journal) (skip : List Int) : List Posting :=
  j.transactions.flatMap fun tx => tx.postings.filter fun p => !skip.contains (postingLine p)

theorem kept_sublist (j : Journal) (skip : List Int) : (kept j skip).Sublist (allPostings j) := by
  unfold kept allPostings
  induction j.transactions with
  | nil => simp
  | cons tx txs ih =>
    simp only [List.flatMap_cons]
    exact List.Sublist.append List.filter_sublist ih

/-- The edits made for postings. -/
def txEdits (j : Journal) (content : Bytes) (formats : Formats) (o : Options) (skip : List Int) : List Edit :=
  j.transactions.flatMap fun tx =>
    formatTransaction tx content (splitLines content) (some formats) (effGlobalCol j o) (effIndent o)
      o.alignAmounts skip

/-- The formats in force: the given map, or (Go's nil map) those declared in the journal. -/
def effFormats (j : Journal) (formats : Option Formats) : Formats :=
  match formats with
  | some m => m
  | none => extractCommodityFormats j

theorem formatDocument_eq (j : Journal) (content : Bytes) (formats : Option Formats) (o : Options)
    (skip : List Int) :
    formatDocument j content formats o skip =
      txEdits j content (effFormats j formats) o skip ++
        trimTrailingSpacesEdits (splitLines content) ((allPostings j).map postingLine) skip := by
  cases formats <;> rfl

/-- `es` are posting edits for the postings `ps`, one each, in order. -/
inductive EditsFor (lines : List Bytes) : List Edit → List Posting → Prop
  | nil : EditsFor lines [] []
  | cons (p : Posting) (t : Bytes) {es : List Edit} {ps : List Posting} :
      EditsFor lines es ps → EditsFor lines (postingEdit lines p t :: es) (p :: ps)

theorem EditsFor.append {lines : List Bytes} {es1 es2 : List Edit} {ps1 ps2 : List Posting}
    (h1 : EditsFor lines es1 ps1) (h2 : EditsFor lines es2 ps2) : EditsFor lines (es1 ++ es2) (ps1 ++ ps2) := by
  induction h1 with
  | nil => exact h2
  | cons p t _ ih => exact EditsFor.cons p t ih

/-- Every posting edit is `postingEdit` of a kept posting, in order. -/
theorem txEdits_shape (j : Journal) (content : Bytes) (formats : Formats) (o : Options) (skip : List Int) :
    EditsFor (splitLines content) (txEdits j content formats o skip) (kept j skip) := by
  unfold txEdits kept
  induction j.transactions with
  | nil => exact EditsFor.nil
  | cons tx txs ih =>
    simp only [List.flatMap_cons]
    apply EditsFor.append ?_ ih
    unfold formatTransaction
    simp only
    generalize (tx.postings.filter fun p => !skip.contains (postingLine p)) = ps
    induction ps with
    | nil => exact EditsFor.nil
    | cons p ps ihp => exact EditsFor.cons p _ ihp

/-- Every posting edit sits on the line of a kept posting. -/
theorem editsFor_line (lines : List Bytes) (hs : SmallLines lines) (es : List Edit) (ps : List Posting)
    (hr : EditsFor lines es ps)
    (hl : ∀ p ∈ ps, 1 ≤ p.range.start.line ∧ p.range.start.line ≤ lines.length) :
    ∀ e ∈ es, ∃ p ∈ ps, (e.sl.toNat : Int) = postingLine p := by
  induction hr with
  | nil => intro e he; cases he
  | cons p t _ ih =>
    intro e he
    rcases List.mem_cons.mp he with rfl | he
    · obtain ⟨_, hline⟩ := postingEdit_ok lines hs p t (hl p (by simp)).1 (hl p (by simp)).2
      refine ⟨p, by simp, ?_⟩
      have := (hl p (by simp)).1
      rw [hline]; unfold postingLine; omega
    · obtain ⟨q, hq, h⟩ := ih (fun q hq => hl q (by simp [hq])) e he
      exact ⟨q, by simp [hq], h⟩

theorem nodup_map_pred (l : List Nat) (h1 : ∀ x ∈ l, 1 ≤ x) (h : l.Nodup) : (l.map (· - 1)).Nodup := by
  induction l with
  | nil => simp
  | cons a l ih =>
    simp only [List.nodup_cons, List.map_cons, List.mem_map, not_exists, not_and] at *
    refine ⟨?_, ih (fun x hx => h1 x (by simp [hx])) h.2⟩
    intro x hx heq
    have := h1 x (by simp [hx]); have := h1 a (by simp)
    have : x = a := by omega
    subst this; exact h.1 hx

/-- **Well-formed edits.** For every tree that fits the document, every set of parse errors,
    every configuration and every set of formats: each edit's range lies inside the document,
    on rune boundaries, with start ≤ end, and no two edits overlap. -/
theorem edits_wellformed (j : Journal) (errs : List ParseError) (doc : Bytes)
    (formats : Option Formats) (o : Options) (h : TreeFits doc j) :
    editsWellFormed doc (formatText j errs doc formats o) = true := by
  obtain ⟨hsize, hlines, hnodup⟩ := h
  have hs := smallLines_of_doc doc hsize
  unfold formatText
  rw [formatDocument_eq]
  generalize effFormats j formats = fm
  generalize hskip : (errs.map fun e => (e.pos.line : Int) - 1) = skip
  have hshape := txEdits_shape j doc fm o skip
  have hsub := kept_sublist j skip
  obtain ⟨htrim1, htrim2⟩ := trimLoop_spec (splitLines doc) hs ((allPostings j).map postingLine ++ skip)
    (splitLines doc) 0 rfl
  -- facts about the posting edits, by induction along the relation
  have hkeptOK : ∀ p ∈ kept j skip, 1 ≤ p.range.start.line ∧ p.range.start.line ≤ (splitLines doc).length :=
    fun p hp => hlines p (hsub.subset hp)
  have htx : (∀ e ∈ txEdits j doc fm o skip, LineEditOK (splitLines doc) e) ∧
      (txEdits j doc fm o skip).map (·.sl.toNat) = (kept j skip).map (fun p => p.range.start.line - 1) := by
    revert hkeptOK
    generalize txEdits j doc fm o skip = es at hshape
    generalize kept j skip = ps at hshape
    intro hk
    induction hshape with
    | nil => simp
    | cons p t _ ih =>
      obtain ⟨ok, hl⟩ := postingEdit_ok (splitLines doc) hs p t (hk p (by simp)).1 (hk p (by simp)).2
      obtain ⟨ih1, ih2⟩ := ih (fun q hq => hk q (by simp [hq]))
      refine ⟨?_, by simp only [List.map_cons, hl, ih2]⟩
      intro x hx
      rcases List.mem_cons.mp hx with rfl | hx
      · exact ok
      · exact ih1 x hx
  apply editsWellFormed_of_lineEdits
  · intro e he
    rcases List.mem_append.mp he with he | he
    · exact htx.1 e he
    · exact (htrim1 e he).1
  · rw [List.map_append, List.nodup_append]
    refine ⟨?_, List.Pairwise.imp (fun h => Nat.ne_of_lt h) htrim2, ?_⟩
    · rw [htx.2]
      have : ((kept j skip).map (·.range.start.line)).Nodup := (hsub.map _).nodup hnodup
      have h2 := nodup_map_pred _ (by
        intro x hx; obtain ⟨p, hp, rfl⟩ := List.mem_map.mp hx; exact (hkeptOK p hp).1) this
      simpa [List.map_map, Function.comp_def] using h2
    · intro a ha b hb heq
      subst heq
      rw [htx.2] at ha
      obtain ⟨p, hp, rfl⟩ := List.mem_map.mp ha
      obtain ⟨e, he, hee⟩ := List.mem_map.mp hb
      have hnot := (htrim1 e he).2.2.1
      apply hnot
      rw [hee]
      apply List.mem_append_left
      apply List.mem_map.mpr
      refine ⟨p, hsub.subset hp, ?_⟩
      have := (hkeptOK p hp).1
      unfold postingLine; omega

/-- **Non-posting lines.** Every edit that is not on a posting line is exactly the removal of
    the trailing blanks/tabs of its line (empty new text, from the end of the trimmed line to
    the end of the line, and the line does have trailing blanks). -/
theorem nonposting_lines (j : Journal) (errs : List ParseError) (doc : Bytes)
    (formats : Option Formats) (o : Options) (h : TreeFits doc j) :
    ∀ e ∈ formatText j errs doc formats o,
      ¬ ((e.sl.toNat : Int) ∈ (allPostings j).map postingLine) →
        isTrailingBlankRemoval (splitLines doc) e = true := by
  obtain ⟨hsize, hlines, _⟩ := h
  have hs := smallLines_of_doc doc hsize
  unfold formatText
  rw [formatDocument_eq]
  generalize effFormats j formats = fm
  generalize (errs.map fun e => (e.pos.line : Int) - 1) = skip
  intro e he hnp
  rcases List.mem_append.mp he with he | he
  · exfalso
    have hshape := txEdits_shape j doc fm o skip
    have hsub := kept_sublist j skip
    have : ∀ es ps, EditsFor (splitLines doc) es ps → (∀ p ∈ ps, p ∈ allPostings j) → e ∈ es →
        (e.sl.toNat : Int) ∈ (allPostings j).map postingLine := by
      intro es ps hr
      induction hr with
      | nil => intro _ h; cases h
      | cons p t _ ih =>
        intro hps hmem
        rcases List.mem_cons.mp hmem with rfl | hmem
        · have hp := hps p (by simp)
          obtain ⟨_, hl⟩ := postingEdit_ok (splitLines doc) hs p t (hlines p hp).1 (hlines p hp).2
          rw [hl]
          apply List.mem_map.mpr
          refine ⟨p, hp, ?_⟩
          have := (hlines p hp).1
          unfold postingLine; omega
        · exact ih (fun q hq => hps q (by simp [hq])) hmem
    exact hnp (this _ _ hshape (fun p hp => hsub.subset hp) he)
  · exact (trimLoop_spec (splitLines doc) hs _ (splitLines doc) 0 rfl).1 e he |>.2.2.2

/-- The trimming pass never touches a posting line or a line with a parse error. -/
theorem trim_edits_avoid (j : Journal) (errs : List ParseError) (doc : Bytes) (h : TreeFits doc j) :
    ∀ e ∈ trimTrailingSpacesEdits (splitLines doc) ((allPostings j).map postingLine)
        (errs.map fun e => (e.pos.line : Int) - 1),
      ¬ ((e.sl.toNat : Int) ∈ (allPostings j).map postingLine) ∧
      ¬ ((e.sl.toNat : Int) ∈ errs.map fun e => (e.pos.line : Int) - 1) := by
  intro e he
  have hs := smallLines_of_doc doc h.1
  have := ((trimLoop_spec (splitLines doc) hs _ (splitLines doc) 0 rfl).1 e he).2.2.1
  simp only [List.mem_append, not_or] at this
  exact this

/-! ### Alignment -/

theorem maxAccountLen_ge_acc (ps : List Posting) (acc : Nat) : acc ≤ maxAccountLen ps acc := by
  induction ps generalizing acc with
  | nil => exact Nat.le_refl _
  | cons p ps ih =>
    simp only [maxAccountLen, List.foldl_cons]
    split
    · exact Nat.le_trans (Nat.le_of_lt ‹_›) (ih _)
    · exact ih _

theorem maxAccountLen_ge (ps : List Posting) (acc : Nat) (p : Posting) (hp : p ∈ ps) :
    accountDisplayLength p ≤ maxAccountLen ps acc := by
  induction ps generalizing acc with
  | nil => cases hp
  | cons q ps ih =>
    simp only [maxAccountLen, List.foldl_cons]
    rcases List.mem_cons.mp hp with rfl | hp
    · split
      · exact maxAccountLen_ge_acc ps _
      · rename_i hle
        exact Nat.le_trans (Nat.le_of_not_lt hle) (maxAccountLen_ge_acc ps _)
    · exact ih _ hp

theorem maxAccountLenTxs_ge (txs : List Transaction) (tx : Transaction) (htx : tx ∈ txs) (p : Posting)
    (hp : p ∈ tx.postings) : accountDisplayLength p ≤ maxAccountLenTxs txs := by
  unfold maxAccountLenTxs
  generalize 0 = acc
  induction txs generalizing acc with
  | nil => cases htx
  | cons t txs ih =>
    simp only [List.foldl_cons]
    rcases List.mem_cons.mp htx with rfl | htx
    · have h1 := maxAccountLen_ge tx.postings acc p hp
      have : ∀ (l : List Transaction) (a : Nat), a ≤ l.foldl (fun m t => maxAccountLen t.postings m) a := by
        intro l
        induction l with
        | nil => intro a; exact Nat.le_refl _
        | cons t l ihl => intro a; exact Nat.le_trans (maxAccountLen_ge_acc _ _) (ihl _)
      exact Nat.le_trans h1 (this _ _)
    · exact ih htx _

/-- The column amounts are aligned to is `max (indent + widest account + 2) minColumn`. -/
theorem effGlobalCol_eq (j : Journal) (o : Options) (h : o.alignAmounts = true) :
    effGlobalCol j o = max (effIndent o + maxAccountLenTxs j.transactions + 2) o.minCol.toNat := by
  unfold effGlobalCol globalAlignmentColumn minSpaces
  simp only [h, if_true]
  split
  · rename_i hc
    simp only [Bool.and_eq_true, decide_eq_true_eq] at hc
    omega
  · rename_i hc
    simp only [Bool.and_eq_true, decide_eq_true_eq, not_and, Int.not_lt] at hc
    by_cases hm : o.minCol > 0
    · have := hc hm; omega
    · omega

theorem alignmentWithGlobal_col (ps : List Posting) (fm : Option Formats) (g : Nat) (content : Bytes) :
    (alignmentWithGlobal ps fm g content).accountCol = g := by
  unfold alignmentWithGlobal; simp only; split <;> rfl

theorem isAscii_openMark (v : Virtual) : IsAscii (openMark v) := by
  intro x hx; cases v <;> simp [openMark] at hx <;> subst hx <;> decide

theorem isAscii_closeMark (v : Virtual) : IsAscii (closeMark v) := by
  intro x hx; cases v <;> simp [closeMark] at hx <;> subst hx <;> decide

theorem accountDisplayLength_eq (p : Posting) :
    accountDisplayLength p =
      runeCount p.account.name + ((openMark p.virt).length + (closeMark p.virt).length) := by
  unfold accountDisplayLength; cases p.virt <;> rfl

/-- Rune width of the text before the gap, for a posting without status mark:
    indent + account in its brackets. -/
theorem runeCount_postingHead (p : Posting) (n : Nat) (h : p.status = .none) :
    runeCount (postingHead p (spaces n)) = n + accountDisplayLength p := by
  rw [accountDisplayLength_eq]
  unfold postingHead
  rw [h]
  simp only [statusMark, List.append_nil]
  rw [List.append_assoc, List.append_assoc, runeCount_ascii_append _ _ (isAscii_spaces n), spaces_length,
    runeCount_ascii_append _ _ (isAscii_openMark _),
    runeCount_append _ _ (nonCont_isAscii _ (isAscii_closeMark _)),
    runeCount_ascii _ (isAscii_closeMark _)]
  omega

/-- **Alignment.** With alignment on, for every posting `p` of the journal:
    * its formatted line starts with exactly the configured indent (`indent` blanks, and the
      next byte is not a blank or tab when the account name does not start with one);
    * if `p` has an amount and no status mark, the amount starts at rune column
      `G = max (indent + widest account + 2) minColumn`, the same `G` for all postings of the
      journal, directly after at least two blanks, and `G ≥ indent + width of p's account + 2`.
    Widths are counted in runes (Go's `utf8.RuneCountInString`), on arbitrary bytes. -/
theorem alignment (j : Journal) (o : Options) (fm : Option Formats) (content : Bytes)
    (halign : o.alignAmounts = true) (tx : Transaction) (htx : tx ∈ j.transactions)
    (p : Posting) (hp : p ∈ tx.postings) :
    let G := max (effIndent o + maxAccountLenTxs j.transactions + 2) o.minCol.toNat
    let al := alignmentWithGlobal tx.postings fm (effGlobalCol j o) content
    let line := formatPostingWithOpts p al fm (spaces (effIndent o)) true content
    (∃ rest, line = spaces (effIndent o) ++ rest ∧
      (∀ c, p.account.name.head? = some c → c ≠ 32 → c ≠ 9 → rest.head? ≠ some 32 ∧ rest.head? ≠ some 9)) ∧
    (∀ a, p.status = .none → p.amount = some a →
      ∃ pre tail, line = pre ++ [32, 32] ++ writeAmountWithSign a fm content ++ tail ∧
        runeCount (pre ++ [32, 32]) = G ∧
        effIndent o + accountDisplayLength p + 2 ≤ G) := by
  intro G al line
  have hG : effGlobalCol j o = G := effGlobalCol_eq j o halign
  have hcol : al.accountCol = G := by
    show (alignmentWithGlobal tx.postings fm (effGlobalCol j o) content).accountCol = G
    rw [alignmentWithGlobal_col, hG]
  have hpre : postingHead p (spaces (effIndent o)) <+: line := by
    show _ <+: formatPostingWithOpts p al fm (spaces (effIndent o)) true content
    unfold formatPostingWithOpts postingUpToCost
    cases p.assertion <;> simp only <;>
      repeat (first | exact List.prefix_rfl | apply List.IsPrefix.trans _ (List.prefix_append _ _))
  constructor
  · obtain ⟨t, ht⟩ := hpre
    refine ⟨statusMark p.status ++ (openMark p.virt ++ (p.account.name ++ (closeMark p.virt ++ t))), ?_, ?_⟩
    · rw [← ht]; unfold postingHead; simp only [List.append_assoc]
    · intro c hc h32 h9
      cases hst : p.status <;> cases hv : p.virt <;>
        simp [statusMark, openMark, hc, h32, h9]
  · intro a hst hamt
    have hle : effIndent o + accountDisplayLength p + 2 ≤ G := by
      have := maxAccountLenTxs_ge j.transactions tx htx p hp
      show _ ≤ max _ _
      omega
    have hcur := runeCount_postingHead p (effIndent o) hst
    have hgap : amountGap p al (spaces (effIndent o)) true = G - (effIndent o + accountDisplayLength p) := by
      unfold amountGap minSpaces
      rw [hcol, hcur]
      have hpos : G > 0 := by omega
      simp only [Bool.true_and, decide_eq_true_eq, hpos, if_true]
      omega
    have hsp : spaces (G - (effIndent o + accountDisplayLength p)) =
        spaces (G - (effIndent o + accountDisplayLength p) - 2) ++ [32, 32] := by
      unfold spaces
      have : G - (effIndent o + accountDisplayLength p) = (G - (effIndent o + accountDisplayLength p) - 2) + 2 := by omega
      conv => lhs; rw [this, ← List.replicate_append_replicate]
      rfl
    have hpre2 : (postingHead p (spaces (effIndent o)) ++
        (spaces (G - (effIndent o + accountDisplayLength p)) ++ writeAmountWithSign a fm content)) <+: line := by
      show _ <+: formatPostingWithOpts p al fm (spaces (effIndent o)) true content
      unfold formatPostingWithOpts postingUpToCost
      rw [hamt, hgap]
      cases p.assertion <;> simp only <;>
        repeat (first | exact List.prefix_rfl | apply List.IsPrefix.trans _ (List.prefix_append _ _))
    obtain ⟨t, ht⟩ := hpre2
    refine ⟨postingHead p (spaces (effIndent o)) ++ spaces (G - (effIndent o + accountDisplayLength p) - 2), t, ?_, ?_, hle⟩
    · rw [← ht, hsp]; simp only [List.append_assoc]
    · rw [List.append_assoc, ← hsp, runeCount_append _ _ (nonCont_isAscii _ (isAscii_spaces _)),
        hcur, runeCount_ascii _ (isAscii_spaces _), spaces_length]
      omega

/-! ### Idempotence -/

theorem trimRightCR_idem (c : Bytes) : trimRightCR (trimRightCR c) = trimRightCR c := by
  induction c with
  | nil => rfl
  | cons b bs ih =>
    simp only [trimRightCR]
    split
    · rfl
    · rename_i h
      simp only [trimRightCR, ih]
      rw [if_neg h]

/-- The comment clause of idempotence (DESIGN 8 #5, repaired): what is written after the
    semicolon is the comment itself, so reading it back and writing it again gives the same
    text — for every comment, with or without leading blank, with trailing blanks or a CR. -/
theorem comment_stable (c : Bytes) : commentText ((commentText c).drop 3) = commentText c := by
  unfold commentText
  simp only
  split
  · simp only [List.drop_succ_cons, List.drop_zero, List.cons_append, List.nil_append, trimRightCR_idem]
    rename_i h; simp only [h, if_true]
  · rfl

/-- The alignment data `formatTransactionWithOpts` uses for a transaction. -/
def txAlignment (j : Journal) (tx : Transaction) (fm : Formats) (o : Options) (doc : Bytes) : AlignmentInfo :=
  if o.alignAmounts then alignmentWithGlobal tx.postings (some fm) (effGlobalCol j o) doc else ⟨0, 0⟩

/-- The text `formatText` writes for posting `p` of transaction `tx`. -/
def postingText (j : Journal) (tx : Transaction) (p : Posting) (fm : Formats) (o : Options) (doc : Bytes) : Bytes :=
  formatPostingWithOpts p (txAlignment j tx fm o doc) (some fm) (spaces (effIndent o)) o.alignAmounts doc

/-- Guard of `idempotent_partial`: the document already has the shape formatting gives it,
    with respect to its own syntax tree: every posting line that would be rewritten already
    holds exactly the text that would be written, and no other line that would be trimmed has
    trailing blanks.  (That the real parser reads a formatted document back as such a tree is
    the parser's part of idempotence; the correspondence oracle checks the composition on the
    real code.) -/
def AlreadyFormatted (j : Journal) (errs : List ParseError) (doc : Bytes) (formats : Option Formats)
    (o : Options) : Prop :=
  let lines := splitLines doc
  let skip := errs.map fun e => (e.pos.line : Int) - 1
  (∀ tx ∈ j.transactions, ∀ p ∈ tx.postings, ¬ (postingLine p ∈ skip) →
      content (lines.getD (p.range.start.line - 1) []) = postingText j tx p (effFormats j formats) o doc) ∧
  (∀ n, n < lines.length → ¬ ((n : Int) ∈ (allPostings j).map postingLine ++ skip) →
      trimRight (lines.getD n []) = lines.getD n [])

/-- An edit that replaces the whole content of one line by the same text. -/
def IsNoop (lines : List Bytes) (e : Edit) : Prop :=
  e.sl = e.el ∧ e.sl.toNat < lines.length ∧ e.sc.toNat = 0 ∧
    e.ec.toNat = u16len (content (lines.getD e.sl.toNat [])) ∧
    e.newText = content (lines.getD e.sl.toNat [])

theorem txEdits_mem (j : Journal) (doc : Bytes) (fm : Formats) (o : Options) (skip : List Int) (e : Edit)
    (he : e ∈ txEdits j doc fm o skip) :
    ∃ tx ∈ j.transactions, ∃ p ∈ tx.postings, ¬ (postingLine p ∈ skip) ∧
      e = postingEdit (splitLines doc) p (postingText j tx p fm o doc) := by
  unfold txEdits at he
  obtain ⟨tx, htx, he⟩ := List.mem_flatMap.mp he
  unfold formatTransaction at he
  obtain ⟨p, hp, rfl⟩ := List.mem_map.mp he
  obtain ⟨hp1, hp2⟩ := List.mem_filter.mp hp
  refine ⟨tx, htx, p, hp1, ?_, rfl⟩
  intro hmem
  have : skip.contains (postingLine p) = true := List.contains_iff_mem.mpr hmem
  rw [this] at hp2
  cases hp2

/-- **Idempotence, the formatter's part.** On a document that already has the formatted shape
    (with respect to its own tree) every edit `formatText` returns replaces the content of a
    line by the identical text, and the trimming pass returns nothing: formatting changes
    nothing. -/
theorem idempotent_partial (j : Journal) (errs : List ParseError) (doc : Bytes)
    (formats : Option Formats) (o : Options) (h : TreeFits doc j)
    (hf : AlreadyFormatted j errs doc formats o) :
    ∀ e ∈ formatText j errs doc formats o, IsNoop (splitLines doc) e := by
  obtain ⟨hsize, hlines, _⟩ := h
  have hs := smallLines_of_doc doc hsize
  obtain ⟨hf1, hf2⟩ := hf
  unfold formatText
  rw [formatDocument_eq]
  intro e he
  rcases List.mem_append.mp he with he | he
  · obtain ⟨tx, htx, p, hp, hns, rfl⟩ := txEdits_mem j doc _ o _ e he
    have hpall : p ∈ allPostings j := List.mem_flatMap.mpr ⟨tx, htx, hp⟩
    obtain ⟨h1, h2⟩ := hlines p hpall
    obtain ⟨ok, hl⟩ := postingEdit_ok (splitLines doc) hs p (postingText j tx p (effFormats j formats) o doc) h1 h2
    have hlt : p.range.start.line - 1 < (splitLines doc).length := by omega
    have hw : u16len (content ((splitLines doc).getD (p.range.start.line - 1) [])) < 4294967296 := by
      have := u16len_le_length (content ((splitLines doc).getD (p.range.start.line - 1) []))
      have := content_length_le ((splitLines doc).getD (p.range.start.line - 1) [])
      have := hs.width _ (getD_mem (splitLines doc) _ hlt)
      omega
    have hline : postingLine p = ((p.range.start.line - 1 : Nat) : Int) := by unfold postingLine; omega
    refine ⟨ok.sameLine, ok.lineLt, rfl, ?_, ?_⟩
    · rw [hl]
      show (UInt32.ofNat (lineU16 (splitLines doc) (postingLine p))).toNat = _
      rw [hline, lineU16_eq _ _ hlt, ofNat_toNat _ hw]
    · rw [hl]
      exact (hf1 tx htx p hp hns).symm
  · exfalso
    obtain ⟨ok, _, hnot, htb⟩ := (trimLoop_spec (splitLines doc) hs _ (splitLines doc) 0 rfl).1 e he
    have hlt := ok.lineLt
    have := hf2 e.sl.toNat hlt hnot
    simp only [isTrailingBlankRemoval, Bool.and_eq_true] at htb
    have hget : (splitLines doc)[e.sl.toNat]? = some ((splitLines doc).getD e.sl.toNat []) := by
      rw [List.getD_eq_getElem?_getD, List.getElem?_eq_getElem hlt]; rfl
    rw [hget] at htb
    simp only [Bool.and_eq_true, decide_eq_true_eq] at htb
    rw [this] at htb
    omega

/-! ### Non-vacuity and regression examples (evaluated by the kernel) -/

namespace Example

/-- `2024-01-15 x⏎  a:b  1 USD ; hello⏎  c:d⏎` -/
def doc : Bytes := [50, 48, 50, 52, 45, 48, 49, 45, 49, 53, 32, 120, 10, 32, 32, 97, 58, 98, 32, 32, 49, 32, 85, 83, 68, 32, 59, 32, 104, 101, 108, 108, 111, 10, 32, 32, 99, 58, 100, 10]

def posting1 (line col off : Nat) : Posting :=
  { (default : Posting) with
    account := ⟨[97, 58, 98], Rng.zero⟩,
    amount := some ⟨⟨1, 0⟩, [49], ⟨[85, 83, 68], .right, Rng.zero⟩, false, Rng.zero⟩,
    comment := [32, 104, 101, 108, 108, 111],
    range := ⟨⟨line, col, off⟩, Pos.zero⟩ }

def posting2 (line col off : Nat) : Posting :=
  { (default : Posting) with account := ⟨[99, 58, 100], Rng.zero⟩, range := ⟨⟨line, col, off⟩, Pos.zero⟩ }

/-- The tree the parser produces for `doc` (positions of the posting starts only). -/
def journal : Journal :=
  ⟨[{ (default : Transaction) with postings := [posting1 2 3 15, posting2 3 3 36] }], [], [], []⟩

/-- The formatted text: `2024-01-15 x⏎    a:b  1 USD  ; hello⏎    c:d⏎`, and its tree. -/
def doc' : Bytes := [50, 48, 50, 52, 45, 48, 49, 45, 49, 53, 32, 120, 10, 32, 32, 32, 32, 97, 58, 98, 32, 32, 49, 32, 85, 83, 68, 32, 32, 59, 32, 104, 101, 108, 108, 111, 10, 32, 32, 32, 32, 99, 58, 100, 10]
def journal' : Journal :=
  ⟨[{ (default : Transaction) with postings := [posting1 2 5 17, posting2 3 5 41] }], [], [], []⟩

def opts : Options := ⟨4, true, 0⟩

end Example

/-- The hypotheses of `edits_wellformed` / `nonposting_lines` hold for a real input. -/
example : TreeFits Example.doc Example.journal := by decide +kernel

/-- DESIGN 8 #5 repaired: the comment ` hello` is written back as `  ; hello` (one blank, not
    two), and the edits are the two whole-line replacements. -/
example : formatText Example.journal [] Example.doc none Example.opts =
    [⟨1, 0, 1, 20, [32, 32, 32, 32, 97, 58, 98, 32, 32, 49, 32, 85, 83, 68, 32, 32, 59, 32, 104, 101, 108, 108, 111]⟩, ⟨2, 0, 2, 5, [32, 32, 32, 32, 99, 58, 100]⟩] := by decide +kernel

instance (j : Journal) (errs : List ParseError) (doc : Bytes) (formats : Option Formats) (o : Options) :
    Decidable (AlreadyFormatted j errs doc formats o) := by
  unfold AlreadyFormatted; infer_instance

/-- The guard of `idempotent_partial` holds for the result of the first run (read back by the
    parser as `journal'`), so the theorem applies: the second run changes nothing. -/
example : TreeFits Example.doc' Example.journal' ∧
    AlreadyFormatted Example.journal' [] Example.doc' none Example.opts := by decide +kernel

/-- Model-level face of the known finding `glued-left-commodity`: `a:x1  USD 5` (blank between
    symbol and quantity in the source, at offset 13) is written `    a:x1  USD5`; the lexer
    then takes `USD5` for one symbol because the account ends in a digit. -/
theorem glued_left_commodity_counterexample :
    let content : Bytes := [32, 32, 97, 58, 120, 49, 32, 32, 85, 83, 68, 32, 53]
    let p : Posting := { (default : Posting) with
      account := ⟨[97, 58, 120, 49], Rng.zero⟩,
      amount := some ⟨⟨5, 0⟩, [53], ⟨[85, 83, 68], .left, ⟨⟨1, 9, 8⟩, ⟨1, 12, 11⟩⟩⟩, false, Rng.zero⟩ }
    formatPostingWithOpts p ⟨0, 0⟩ none (spaces 4) false content = ([32, 32, 32, 32, 97, 58, 120, 49, 32, 32, 85, 83, 68, 53] : Bytes) := by
  decide +kernel

/-- Model-level face of the known finding `trimmed-blank-line-splits-entry`: a whitespace-only
    line is trimmed to an empty line (which the parser treats as the end of the entry). -/
theorem trimmed_blank_line_counterexample :
    trimEdit [[32, 32, 32]] 0 [32, 32, 32] = some ⟨0, 0, 0, 3, []⟩ := by decide +kernel

end HL.Props.C05
