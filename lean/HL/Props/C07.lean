import HL.Lemmas.ParserTwin
/-
  C07 "A syntax error stays contained in its own entry" — the parser's part, on token streams.
  (The lexer's line locality `lex_line_local` turns these into statements about texts.)

  * `line_end_closes`      within ONE iteration of `parseJournal`'s loop — which contains every
                           inner loop (postings, sub-directives, skipToNextLine, the skipping
                           and collecting loops) — after a Newline token only a Newline or an
                           Indent is ever consumed, and errors are recorded only on tokens that
                           do not directly follow a Newline.
  * `blank_line_closes`    hence in front of every line that starts in column 1 (first token
                           neither Indent nor Newline) the journal loop is back at its head;
                           `blank_line_closes'` is the literal "Newline Newline" form.
  * `parse_resync`         the journal loop is a function of the token stream in front of it,
                           the default year, and (as a prefix only) the errors so far.
  * `C07_contained_tokens` for a stream `A ++ nlA :: Ed ++ nlE :: B` (`Ed`, `B` starting in
                           column 1, ANY tokens in `A` and `Ed` except EOF): what is parsed from
                           `B` is exactly what parsing `B` alone gives (default year as left
                           by `Ed`), with exactly its own errors; errors raised while consuming
                           `Ed` sit on tokens of `Ed` or on the Newline that ends it.
  * `parse_shift`, `C07_contained_shifted`  positions: when the rest of the file is moved by
                           `d` lines/bytes, what is parsed from it is the same, moved by `d`.
  * `C07_suffix_independent_of_damage`  two different damages `Ed₁ Ed₂` leave the part parsed
                           from `B` identical (journal content and errors) whenever they leave
                           the same default year.
  * `C07_contained_partial` both sides at once: prefix identical, suffix identical up to the
                           shift, the entry's errors inside the entry (guard: both versions of
                           the entry start in column 1 at the same position and contain no
                           Directive token).
  * `C07_prefix_partial`   entries BEFORE the damage: identical in both files provided both
                           versions of the damaged entry start in column 1 at the same position
                           (guard); `C07_blank_line_after_error_counterexample` shows the guard
                           is needed.
  * counterexamples        `C07_indent_continuation_counterexample` (a line that starts with an
                           Indent continues the entry before it: "B starts in column 1" is needed)
                           and `C07_blank_line_after_error_counterexample` (an entry BEFORE the
                           damage is not protected by a blank line when its last posting line
                           had an error: the blank line does not close it, and a damage that
                           indents the next entry's lines hands them to it).
-/
namespace HL.Props.C07
open HL HL.Ast HL.Parser

/-- Within one iteration of the journal loop, for every token source: the tokens consumed are
    accepted by the automaton `nc` (after a Newline only a Newline or an Indent), and the errors
    recorded sit on tokens of the iteration that do not directly follow a Newline. -/
theorem line_end_closes {σ : Type} (E : Env σ) (st : PState σ) :
    ∃ C new, Reach E st C (journalStep E st).2 ∧ (nc 0 C).isSome ∧
      (journalStep E st).2.errors = st.errors ++ new ∧
      ∀ e ∈ new, ∃ t ∈ okSites (C ++ [(journalStep E st).2.current]), e.pos = t.pos :=
  RC.elim E (journalStep_RC E st)

/-- What the automaton forbids: a Newline followed by a token that is neither an Indent nor a
    Newline is never inside what a single iteration consumes. -/
theorem no_iteration_crosses_a_line_start (X R : List Token) (nl y : Token) (h1 : nl.ty = .newline)
    (h2 : y.ty ≠ .indent) (h3 : y.ty ≠ .newline) : nc 0 (X ++ nl :: y :: R) = none :=
  nc_cross 0 X R nl y h1 h2 h3

variable (num : NumDeps) (cls : Classes)

/-- The state of the journal loop in front of the stream `y0 :: Y'`. -/
abbrev headState (y0 : Token) (Y' : List Token) (errs : List ParseError) (dy : Int) : PState (List Token) :=
  ⟨Y', y0, errs, dy⟩

/-- The parse of the stream `y0 :: Y'` on its own, started with default year `dy`:
    journal and errors. -/
def parseFrom (y0 : Token) (Y' : List Token) (dy : Int) : Journal × List ParseError :=
  let r := parseJournal (listEnv num cls) (headState y0 Y' [] dy)
  (r.1, r.2.errors)

/-- `parseTokens` is `parseFrom` with default year 0. -/
theorem parseTokens_eq_parseFrom (t0 : Token) (T : List Token) :
    parseTokens num cls (t0 :: T) = parseFrom num cls t0 T 0 := rfl

/-- `parse_resync`: with `current` = first token of a stream `S = s0 :: S'` the rest of the
    result is the parse of `S` (started with the default year in force); the errors so far are
    just a prefix of the final error list. -/
theorem parse_resync (s0 : Token) (S' : List Token) (errs : List ParseError) (dy : Int) :
    (parseJournal (listEnv num cls) (headState s0 S' errs dy)).1 = (parseFrom num cls s0 S' dy).1 ∧
    (parseJournal (listEnv num cls) (headState s0 S' errs dy)).2.errors = errs ++ (parseFrom num cls s0 S' dy).2 := by
  have := parseJournal_addPre (listEnv num cls) errs (headState s0 S' [] dy)
  have e : addPre errs (headState s0 S' [] dy) = headState s0 S' errs dy := by simp [addPre, headState]
  rw [e] at this
  rw [this]
  exact ⟨rfl, rfl⟩

/-- The same for every token source. -/
theorem parse_resync_general {σ : Type} (E : Env σ) (st : PState σ) (errs : List ParseError) :
    parseJournal E (addPre errs st) = ((parseJournal E st).1, addPre errs (parseJournal E st).2) :=
  parseJournal_addPre E errs st

/-- `blank_line_closes` / line-start resynchronisation: if the stream in front of the journal
    loop is `X ++ nl :: y0 :: Y'` (`nl` a Newline, `y0` the first token of a line that starts in
    column 1, no EOF in `X`; `X` arbitrary otherwise — it may end with the Newline of a blank
    line), then every inner loop has returned by the time `y0` is current: the run equals the
    items of `X ++ [nl]` pushed onto the parse of `y0 :: Y'` alone, and all errors raised
    before are in the `ErrZone`: on tokens of `X`, or on `nl` if `X` does not end in a Newline. -/
theorem blank_line_closes (X : List Token) (nl y0 : Token) (Y' : List Token)
    (hX : ∀ t ∈ X, t.ty ≠ .eof) (h1 : nl.ty = .newline) (hy : y0.ty ≠ .indent) (hy' : y0.ty ≠ .newline)
    (hE : ∃ t ∈ y0 :: Y', t.ty = .eof) (st : PState (List Token)) (hs : strm st = X ++ nl :: y0 :: Y') :
    ∃ items new dy, ErrZone X nl new ∧ ((∀ t ∈ X, t.ty ≠ .directive) → dy = st.defaultYear) ∧
      (parseJournal (listEnv num cls) st).1 = pushAll items (parseFrom num cls y0 Y' dy).1 ∧
      (parseJournal (listEnv num cls) st).2.errors = st.errors ++ new ++ (parseFrom num cls y0 Y' dy).2 := by
  obtain ⟨items, new, dy, hp, hdy, hrun⟩ := sync num cls y0 Y' nl h1 hy hy' hE X.length X st (Nat.le_refl _) hX hs
  have h := hrun _ _ (measure_le_fuelOf _ st) (measure_le_fuelOf _ (headState y0 Y' (st.errors ++ new) dy))
  have hr := parse_resync num cls y0 Y' (st.errors ++ new) dy
  refine ⟨items, new, dy, hp, hdy, ?_, ?_⟩
  · have : (parseJournal (listEnv num cls) st).1 =
        pushAll items (parseJournal (listEnv num cls) (headState y0 Y' (st.errors ++ new) dy)).1 := by
      unfold parseJournal; rw [h]
    rw [this, hr.1]
  · have : (parseJournal (listEnv num cls) st).2 =
        (parseJournal (listEnv num cls) (headState y0 Y' (st.errors ++ new) dy)).2 := by
      unfold parseJournal; rw [h]
    rw [this, hr.2]

/-- The literal blank-line form: after `Newline Newline` followed by a token in column 1 the
    loop is at its head; errors raised before sit on `X` or on the first of the two Newlines. -/
theorem blank_line_closes' (X : List Token) (nl1 nl2 y0 : Token) (Y' : List Token)
    (hX : ∀ t ∈ X, t.ty ≠ .eof) (h1 : nl1.ty = .newline) (h2 : nl2.ty = .newline)
    (hy : y0.ty ≠ .indent) (hy' : y0.ty ≠ .newline)
    (hE : ∃ t ∈ y0 :: Y', t.ty = .eof) (st : PState (List Token))
    (hs : strm st = X ++ nl1 :: nl2 :: y0 :: Y') :
    ∃ items new dy, (∀ x ∈ new, ∃ t ∈ X ++ [nl1], x.pos = t.pos) ∧
      (parseJournal (listEnv num cls) st).1 = pushAll items (parseFrom num cls y0 Y' dy).1 ∧
      (parseJournal (listEnv num cls) st).2.errors = st.errors ++ new ++ (parseFrom num cls y0 Y' dy).2 := by
  have hX' : ∀ t ∈ X ++ [nl1], t.ty ≠ .eof := by
    intro t ht; simp at ht; rcases ht with h | h
    · exact hX t h
    · rw [h, h1]; simp
  obtain ⟨items, new, dy, hp, _, hj, he⟩ :=
    blank_line_closes num cls (X ++ [nl1]) nl2 y0 Y' hX' h2 hy hy' hE st (by simpa using hs)
  refine ⟨items, new, dy, ?_, hj, he⟩
  intro x hx
  obtain ⟨t, hpx, ht⟩ := hp x hx
  refine ⟨t, ?_, hpx⟩
  rcases ht with h | h
  · exact h
  · have : lastNL true (X ++ [nl1]) = true := by rw [lastNL_append]; simp [lastNL, h1]
    rw [this] at h; simp at h

/-- **Containment on token streams.**  The stream is `A ++ nlA :: Ed ++ nlE :: b0 :: B'`:
    `A` = everything before the damaged entry, `Ed` = the damaged entry's tokens (ANY tokens but
    EOF; it starts in column 1), `b0 :: B'` = the rest of the file, starting in column 1 and
    containing the EOF.  Then
      * the journal is the items parsed from `A`, then those from `Ed`, pushed onto the journal
        obtained by parsing `b0 :: B'` on its own with the default year `dyE` in force there;
      * the error list is: errors of the `A` part, errors of the `Ed` part, then exactly the
        errors of parsing `b0 :: B'` on its own;
      * the errors of the `Ed` part sit on tokens of `Ed` or on the Newline ending it; those of
        the `A` part on tokens of `A` or its closing Newline. -/
theorem C07_contained_tokens (A Ed' B' : List Token) (nlA nlE e0 b0 : Token)
    (hA : ∀ t ∈ A, t.ty ≠ .eof) (hEd : ∀ t ∈ e0 :: Ed', t.ty ≠ .eof)
    (hnA : nlA.ty = .newline) (hnE : nlE.ty = .newline)
    (he0 : e0.ty ≠ .indent ∧ e0.ty ≠ .newline) (hb0 : b0.ty ≠ .indent ∧ b0.ty ≠ .newline)
    (hB : ∃ t ∈ b0 :: B', t.ty = .eof) :
    ∃ itemsA itemsE errsA errsE dyA dyE,
      ErrZone A nlA errsA ∧ ErrZone (e0 :: Ed') nlE errsE ∧
      ((∀ t ∈ A, t.ty ≠ .directive) → dyA = 0) ∧
      ((∀ t ∈ e0 :: Ed', t.ty ≠ .directive) → dyE = dyA) ∧
      (parseFrom num cls e0 (Ed' ++ nlE :: b0 :: B') dyA).1 = pushAll itemsE (parseFrom num cls b0 B' dyE).1 ∧
      (parseTokens num cls (A ++ nlA :: e0 :: Ed' ++ nlE :: b0 :: B')).1 =
        pushAll (itemsA ++ itemsE) (parseFrom num cls b0 B' dyE).1 ∧
      (parseTokens num cls (A ++ nlA :: e0 :: Ed' ++ nlE :: b0 :: B')).2 =
        errsA ++ errsE ++ (parseFrom num cls b0 B' dyE).2 := by
  -- the whole stream as a state
  have hT : ∀ T : List Token, T ≠ [] →
      ∃ st0 : PState (List Token), strm st0 = T ∧ st0.errors = [] ∧ st0.defaultYear = 0 ∧
        parseTokens num cls T = ((parseJournal (listEnv num cls) st0).1, (parseJournal (listEnv num cls) st0).2.errors) := by
    intro T hT
    cases T with
    | nil => exact absurd rfl hT
    | cons t0 T' => exact ⟨⟨T', t0, [], 0⟩, rfl, rfl, rfl, rfl⟩
  obtain ⟨st0, hs0, he0', hdy0, hp0⟩ := hT (A ++ nlA :: e0 :: Ed' ++ nlE :: b0 :: B') (by simp)
  -- first boundary: in front of e0
  have hE1 : ∃ t ∈ e0 :: (Ed' ++ nlE :: b0 :: B'), t.ty = .eof := by
    obtain ⟨t, ht, he⟩ := hB
    exact ⟨t, by simp at ht ⊢; rcases ht with h | h <;> simp [h], he⟩
  obtain ⟨itemsA, errsA, dyA, hzA, hdyA, hjA, heA⟩ :=
    blank_line_closes num cls A nlA e0 (Ed' ++ nlE :: b0 :: B') hA hnA he0.1 he0.2 hE1 st0
      (by rw [hs0]; simp)
  -- second boundary: in front of b0, for the parse that starts at e0
  obtain ⟨itemsE, errsE, dyE, hzE, hdyE, hjE, heE⟩ :=
    blank_line_closes num cls (e0 :: Ed') nlE b0 B' hEd hnE hb0.1 hb0.2 hB
      (headState e0 (Ed' ++ nlE :: b0 :: B') [] dyA) (by simp [strm, headState])
  refine ⟨itemsA, itemsE, errsA, errsE, dyA, dyE, hzA, hzE,
    (fun h => by rw [hdyA h, hdy0]), (fun h => by simpa [headState] using hdyE h), ?_, ?_, ?_⟩
  · exact hjE
  · rw [hp0]
    simp only
    rw [hjA]
    have : (parseFrom num cls e0 (Ed' ++ nlE :: b0 :: B') dyA).1 = pushAll itemsE (parseFrom num cls b0 B' dyE).1 := hjE
    rw [this, pushAll_append]
  · rw [hp0]
    simp only
    rw [heA, he0']
    have : (parseFrom num cls e0 (Ed' ++ nlE :: b0 :: B') dyA).2 = errsE ++ (parseFrom num cls b0 B' dyE).2 := by
      have := heE; simpa [headState, parseFrom] using this
    rw [this]
    simp

/-- **Two damages compared.**  `Ed₁` and `Ed₂` are two versions of the same entry (e.g. intact
    and damaged), in the same surroundings `A … B`; neither they nor `A` contain a Directive
    token (so no `Y` directive can change the default year — the stated hypothesis of C07).
    Then everything parsed from `B` — transactions, directives, comments, includes with all
    their content and ranges, and exactly `B`'s own errors — is the same in both files:
    both journals are some items pushed in front of the SAME journal `JB`, both error lists end
    with the SAME `EB`, and all other errors of file i sit in `A` or in `Edᵢ` (or on the Newline
    ending them). -/
theorem C07_suffix_independent_of_damage (A Ed1' Ed2' B' : List Token) (nlA nlE1 nlE2 e1 e2 b0 : Token)
    (hA : ∀ t ∈ A, t.ty ≠ .eof ∧ t.ty ≠ .directive)
    (hEd1 : ∀ t ∈ e1 :: Ed1', t.ty ≠ .eof ∧ t.ty ≠ .directive)
    (hEd2 : ∀ t ∈ e2 :: Ed2', t.ty ≠ .eof ∧ t.ty ≠ .directive)
    (hnA : nlA.ty = .newline) (hn1 : nlE1.ty = .newline) (hn2 : nlE2.ty = .newline)
    (he1 : e1.ty ≠ .indent ∧ e1.ty ≠ .newline) (he2 : e2.ty ≠ .indent ∧ e2.ty ≠ .newline)
    (hb0 : b0.ty ≠ .indent ∧ b0.ty ≠ .newline) (hB : ∃ t ∈ b0 :: B', t.ty = .eof) :
    ∃ JB EB items1 items2 errs1 errs2,
      (JB, EB) = parseFrom num cls b0 B' 0 ∧
      (parseTokens num cls (A ++ nlA :: e1 :: Ed1' ++ nlE1 :: b0 :: B')).1 = pushAll items1 JB ∧
      (parseTokens num cls (A ++ nlA :: e2 :: Ed2' ++ nlE2 :: b0 :: B')).1 = pushAll items2 JB ∧
      (parseTokens num cls (A ++ nlA :: e1 :: Ed1' ++ nlE1 :: b0 :: B')).2 = errs1 ++ EB ∧
      (parseTokens num cls (A ++ nlA :: e2 :: Ed2' ++ nlE2 :: b0 :: B')).2 = errs2 ++ EB ∧
      (∀ x ∈ errs1, ∃ t ∈ A ++ nlA :: e1 :: Ed1' ++ [nlE1], x.pos = t.pos) ∧
      (∀ x ∈ errs2, ∃ t ∈ A ++ nlA :: e2 :: Ed2' ++ [nlE2], x.pos = t.pos) := by
  obtain ⟨iA1, iE1, eA1, eE1, dyA1, dyE1, zA1, zE1, hd1, hd1', _, hj1, hr1⟩ :=
    C07_contained_tokens num cls A Ed1' B' nlA nlE1 e1 b0 (fun t ht => (hA t ht).1)
      (fun t ht => (hEd1 t ht).1) hnA hn1 he1 hb0 hB
  obtain ⟨iA2, iE2, eA2, eE2, dyA2, dyE2, zA2, zE2, hd2, hd2', _, hj2, hr2⟩ :=
    C07_contained_tokens num cls A Ed2' B' nlA nlE2 e2 b0 (fun t ht => (hA t ht).1)
      (fun t ht => (hEd2 t ht).1) hnA hn2 he2 hb0 hB
  have y1 : dyE1 = 0 := by rw [hd1' (fun t ht => (hEd1 t ht).2), hd1 (fun t ht => (hA t ht).2)]
  have y2 : dyE2 = 0 := by rw [hd2' (fun t ht => (hEd2 t ht).2), hd2 (fun t ht => (hA t ht).2)]
  rw [y1] at hj1 hr1
  rw [y2] at hj2 hr2
  refine ⟨(parseFrom num cls b0 B' 0).1, (parseFrom num cls b0 B' 0).2, iA1 ++ iE1, iA2 ++ iE2,
    eA1 ++ eE1, eA2 ++ eE2, rfl, hj1, hj2, hr1, hr2, ?_, ?_⟩
  · intro x hx
    simp only [List.mem_append] at hx
    rcases hx with hx | hx
    · obtain ⟨t, ht, hp⟩ := zA1.weaken x hx
      exact ⟨t, by simp at ht ⊢; rcases ht with h | h <;> simp [h], hp⟩
    · obtain ⟨t, ht, hp⟩ := zE1.weaken x hx
      exact ⟨t, by simp at ht ⊢; rcases ht with h | h | h <;> simp [h], hp⟩
  · intro x hx
    simp only [List.mem_append] at hx
    rcases hx with hx | hx
    · obtain ⟨t, ht, hp⟩ := zA2.weaken x hx
      exact ⟨t, by simp at ht ⊢; rcases ht with h | h <;> simp [h], hp⟩
    · obtain ⟨t, ht, hp⟩ := zE2.weaken x hx
      exact ⟨t, by simp at ht ⊢; rcases ht with h | h | h <;> simp [h], hp⟩

/-- `parse_shift`: moving every position of a token stream by `d` (lines and bytes inserted in
    front of it) moves every position of its parse — ranges of transactions, postings, amounts,
    tags, directives, error positions — by `d` and changes nothing else. -/
theorem parse_shift (d : Shift) (b0 : Token) (B' : List Token) (dy : Int) :
    parseFrom num cls (d.tok b0) (B'.map d.tok) dy =
      (d.journal (parseFrom num cls b0 B' dy).1, (parseFrom num cls b0 B' dy).2.map d.perr) := by
  have := parseJournal_shift num cls d (headState b0 B' [] dy)
  have e : shiftSt d (headState b0 B' [] dy) = headState (d.tok b0) (B'.map d.tok) [] dy := rfl
  rw [e] at this
  unfold parseFrom
  rw [this]
  rfl

/-- The same for a whole file. -/
theorem parseTokens_shift' (d : Shift) (toks : List Token) :
    parseTokens num cls (toks.map d.tok) =
      (d.journal (parseTokens num cls toks).1, (parseTokens num cls toks).2.map d.perr) :=
  parseTokens_shift num cls d toks

/-- **Containment with the rest of the file moved.**  Intact file `A … Ed₁ … B`, damaged file
    `A … Ed₂ … B↓d` where the damage inserted `d.dl` lines / `d.doff` bytes, so that every token
    of `B` is moved by `d` (this is what the lexer's line locality gives).  No Directive token
    in `A`, `Ed₁`, `Ed₂`.  Then what the damaged file yields for `B` is what the intact file
    yields for `B`, moved by `d`: same transactions / directives / comments / includes with the
    same content, ranges shifted by `d`; and exactly `B`'s own errors, shifted by `d`.  All other
    errors of the damaged file sit on tokens of `A` or `Ed₂` (or the Newline ending them). -/
theorem C07_contained_shifted (d : Shift) (A Ed1' Ed2' B' : List Token) (nlA nlE1 nlE2 e1 e2 b0 : Token)
    (hA : ∀ t ∈ A, t.ty ≠ .eof ∧ t.ty ≠ .directive)
    (hEd1 : ∀ t ∈ e1 :: Ed1', t.ty ≠ .eof ∧ t.ty ≠ .directive)
    (hEd2 : ∀ t ∈ e2 :: Ed2', t.ty ≠ .eof ∧ t.ty ≠ .directive)
    (hnA : nlA.ty = .newline) (hn1 : nlE1.ty = .newline) (hn2 : nlE2.ty = .newline)
    (he1 : e1.ty ≠ .indent ∧ e1.ty ≠ .newline) (he2 : e2.ty ≠ .indent ∧ e2.ty ≠ .newline)
    (hb0 : b0.ty ≠ .indent ∧ b0.ty ≠ .newline) (hB : ∃ t ∈ b0 :: B', t.ty = .eof) :
    ∃ JB EB items1 items2 errs1 errs2,
      (JB, EB) = parseFrom num cls b0 B' 0 ∧
      (parseTokens num cls (A ++ nlA :: e1 :: Ed1' ++ nlE1 :: b0 :: B')).1 = pushAll items1 JB ∧
      (parseTokens num cls (A ++ nlA :: e2 :: Ed2' ++ nlE2 :: d.tok b0 :: B'.map d.tok)).1 =
        pushAll items2 (d.journal JB) ∧
      (parseTokens num cls (A ++ nlA :: e1 :: Ed1' ++ nlE1 :: b0 :: B')).2 = errs1 ++ EB ∧
      (parseTokens num cls (A ++ nlA :: e2 :: Ed2' ++ nlE2 :: d.tok b0 :: B'.map d.tok)).2 =
        errs2 ++ EB.map d.perr ∧
      (∀ x ∈ errs1, ∃ t ∈ A ++ nlA :: e1 :: Ed1' ++ [nlE1], x.pos = t.pos) ∧
      (∀ x ∈ errs2, ∃ t ∈ A ++ nlA :: e2 :: Ed2' ++ [nlE2], x.pos = t.pos) := by
  have hB2 : ∃ t ∈ d.tok b0 :: B'.map d.tok, t.ty = .eof := by
    obtain ⟨t, ht, he⟩ := hB
    refine ⟨d.tok t, ?_, by simpa using he⟩
    simp only [List.mem_cons, List.mem_map] at ht ⊢
    rcases ht with h | h
    · exact Or.inl (by rw [h])
    · exact Or.inr ⟨t, h, rfl⟩
  obtain ⟨iA1, iE1, eA1, eE1, dyA1, dyE1, zA1, zE1, hd1, hd1', _, hj1, hr1⟩ :=
    C07_contained_tokens num cls A Ed1' B' nlA nlE1 e1 b0 (fun t ht => (hA t ht).1)
      (fun t ht => (hEd1 t ht).1) hnA hn1 he1 hb0 hB
  obtain ⟨iA2, iE2, eA2, eE2, dyA2, dyE2, zA2, zE2, hd2, hd2', _, hj2, hr2⟩ :=
    C07_contained_tokens num cls A Ed2' (B'.map d.tok) nlA nlE2 e2 (d.tok b0) (fun t ht => (hA t ht).1)
      (fun t ht => (hEd2 t ht).1) hnA hn2 he2 (by simpa using hb0) hB2
  have y1 : dyE1 = 0 := by rw [hd1' (fun t ht => (hEd1 t ht).2), hd1 (fun t ht => (hA t ht).2)]
  have y2 : dyE2 = 0 := by rw [hd2' (fun t ht => (hEd2 t ht).2), hd2 (fun t ht => (hA t ht).2)]
  rw [y1] at hj1 hr1
  rw [y2, parse_shift] at hj2 hr2
  refine ⟨(parseFrom num cls b0 B' 0).1, (parseFrom num cls b0 B' 0).2, iA1 ++ iE1, iA2 ++ iE2,
    eA1 ++ eE1, eA2 ++ eE2, rfl, hj1, hj2, hr1, hr2, ?_, ?_⟩
  · intro x hx
    simp only [List.mem_append] at hx
    rcases hx with hx | hx
    · obtain ⟨t, ht, hp⟩ := zA1.weaken x hx
      exact ⟨t, by simp at ht ⊢; rcases ht with h | h <;> simp [h], hp⟩
    · obtain ⟨t, ht, hp⟩ := zE1.weaken x hx
      exact ⟨t, by simp at ht ⊢; rcases ht with h | h | h <;> simp [h], hp⟩
  · intro x hx
    simp only [List.mem_append] at hx
    rcases hx with hx | hx
    · obtain ⟨t, ht, hp⟩ := zA2.weaken x hx
      exact ⟨t, by simp at ht ⊢; rcases ht with h | h <;> simp [h], hp⟩
    · obtain ⟨t, ht, hp⟩ := zE2.weaken x hx
      exact ⟨t, by simp at ht ⊢; rcases ht with h | h | h <;> simp [h], hp⟩

/-- **Entries before the damage (`_partial`: guard = both versions of the damaged entry start
    in column 1, at the same position).**  Two files share everything up to and including the
    Newline `nlA`; then the first continues with `y0 :: Y'`, the second with `z0 :: Z'`, where
    `y0` and `z0` are tokens in column 1 (neither Indent nor Newline) at the same position.
    Then everything parsed from the common part `A` is IDENTICAL in both files — the same items
    (transactions, directives, comments, includes, with all ranges), the same errors, the same
    default year handed on — and each file continues with the parse of its own tail.
    Without the guard this is false: `C07_blank_line_after_error_counterexample`. -/
theorem C07_prefix_partial (A Y' Z' : List Token) (nlA y0 z0 : Token)
    (hA : ∀ t ∈ A, t.ty ≠ .eof) (hnA : nlA.ty = .newline)
    (hy : y0.ty ≠ .indent ∧ y0.ty ≠ .newline) (hz : z0.ty ≠ .indent ∧ z0.ty ≠ .newline)
    (hpos : y0.pos = z0.pos) (hE : ∃ t ∈ y0 :: Y', t.ty = .eof) :
    ∃ itemsA errsA dyA,
      parseTokens num cls (A ++ nlA :: y0 :: Y') =
        (pushAll itemsA (parseFrom num cls y0 Y' dyA).1, errsA ++ (parseFrom num cls y0 Y' dyA).2) ∧
      parseTokens num cls (A ++ nlA :: z0 :: Z') =
        (pushAll itemsA (parseFrom num cls z0 Z' dyA).1, errsA ++ (parseFrom num cls z0 Z' dyA).2) := by
  let T : Tails := ⟨y0, Y', z0, Z', hpos, hy.1, hy.2, hz.1, hz.2⟩
  -- the two initial states
  obtain ⟨c, P, hc⟩ : ∃ c P, A ++ [nlA] = c :: P := by
    cases A with
    | nil => exact ⟨nlA, [], rfl⟩
    | cons a A' => exact ⟨a, A' ++ [nlA], rfl⟩
  have e1 : A ++ nlA :: y0 :: Y' = c :: (P ++ y0 :: Y') := by
    have : A ++ nlA :: y0 :: Y' = (A ++ [nlA]) ++ y0 :: Y' := by simp
    rw [this, hc]; rfl
  have e2 : A ++ nlA :: z0 :: Z' = c :: (P ++ z0 :: Z') := by
    have : A ++ nlA :: z0 :: Z' = (A ++ [nlA]) ++ z0 :: Z' := by simp
    rw [this, hc]; rfl
  have hlast : lastNL (c.ty = .newline) P = true := by
    cases A with
    | nil =>
      simp at hc
      rw [← hc.1, hc.2]
      simp [lastNL, hnA]
    | cons a A' =>
      simp at hc
      rw [← hc.2, lastNL_append]
      simp [lastNL, hnA]
  have hne : ∀ t ∈ c :: P, t.ty ≠ .eof := by
    intro t ht
    rw [← hc] at ht
    simp only [List.mem_append, List.mem_singleton] at ht
    rcases ht with h | h
    · exact hA t h
    · rw [h, hnA]; simp
  let s1 : PState (List Token) := ⟨P ++ y0 :: Y', c, [], 0⟩
  let s2 : PState (List Token) := ⟨P ++ z0 :: Z', c, [], 0⟩
  have hin : In T s1 s2 := ⟨rfl, rfl, rfl, P, rfl, rfl, hlast⟩
  obtain ⟨items, new, dy, hrun⟩ := twin_sync num cls T hE P.length s1 s2 P (Nat.le_refl _) hin rfl hne
  obtain ⟨r1, r2⟩ := hrun _ _ _ _ (measure_le_fuelOf _ s1) (measure_le_fuelOf _ s2)
    (measure_le_fuelOf _ (headState y0 Y' ([] ++ new) dy)) (measure_le_fuelOf _ (headState z0 Z' ([] ++ new) dy))
  have p1 := parse_resync num cls y0 Y' ([] ++ new) dy
  have p2 := parse_resync num cls z0 Z' ([] ++ new) dy
  refine ⟨items, new, dy, ?_, ?_⟩
  · rw [e1]
    show ((parseJournal (listEnv num cls) s1).1, (parseJournal (listEnv num cls) s1).2.errors) = _
    have : parseJournal (listEnv num cls) s1 = _ := r1
    rw [this]
    simp only [List.nil_append] at p1 ⊢
    exact Prod.ext (by rw [← p1.1]; rfl) (by rw [← p1.2]; rfl)
  · rw [e2]
    show ((parseJournal (listEnv num cls) s2).1, (parseJournal (listEnv num cls) s2).2.errors) = _
    have : parseJournal (listEnv num cls) s2 = _ := r2
    rw [this]
    simp only [List.nil_append] at p2 ⊢
    exact Prod.ext (by rw [← p2.1]; rfl) (by rw [← p2.2]; rfl)

/-- **C07 on token streams, both sides at once (`_partial`).**
    Intact file  `A ⏎ Ed₁ ⏎ B`, damaged file `A ⏎ Ed₂ ⏎ B↓d` (the damage replaced the entry `Ed₁`
    by ANY tokens `Ed₂` without EOF and moved the rest of the file by `d` lines/bytes).
    Guard: both versions start in column 1 at the same position (`e1.pos = e2.pos`, neither an
    Indent nor a Newline), and neither contains a Directive token (no `Y` directive appears or
    disappears — the stated dependence of C07 on the default year).  Then
      * what precedes the entry is parsed identically in both files: the same `itemsA`, the same
        errors `errsA`;
      * what follows it is parsed to the same journal `JB` with the same errors `EB`, up to the
        shift `d` of every position;
      * the only other errors are `errsE₁` / `errsE₂`, sitting on tokens of `Ed₁` / `Ed₂` or on
        the Newline that ends the entry. -/
theorem C07_contained_partial (d : Shift) (A Ed1' Ed2' B' : List Token) (nlA nlE1 nlE2 e1 e2 b0 : Token)
    (hA : ∀ t ∈ A, t.ty ≠ .eof)
    (hEd1 : ∀ t ∈ e1 :: Ed1', t.ty ≠ .eof ∧ t.ty ≠ .directive)
    (hEd2 : ∀ t ∈ e2 :: Ed2', t.ty ≠ .eof ∧ t.ty ≠ .directive)
    (hnA : nlA.ty = .newline) (hn1 : nlE1.ty = .newline) (hn2 : nlE2.ty = .newline)
    (he1 : e1.ty ≠ .indent ∧ e1.ty ≠ .newline) (he2 : e2.ty ≠ .indent ∧ e2.ty ≠ .newline)
    (hpos : e1.pos = e2.pos)
    (hb0 : b0.ty ≠ .indent ∧ b0.ty ≠ .newline) (hB : ∃ t ∈ b0 :: B', t.ty = .eof) :
    ∃ itemsA errsA dyA itemsE1 itemsE2 errsE1 errsE2,
      let JB := (parseFrom num cls b0 B' dyA).1
      let EB := (parseFrom num cls b0 B' dyA).2
      parseTokens num cls (A ++ nlA :: e1 :: Ed1' ++ nlE1 :: b0 :: B') =
        (pushAll (itemsA ++ itemsE1) JB, errsA ++ errsE1 ++ EB) ∧
      parseTokens num cls (A ++ nlA :: e2 :: Ed2' ++ nlE2 :: d.tok b0 :: B'.map d.tok) =
        (pushAll (itemsA ++ itemsE2) (d.journal JB), errsA ++ errsE2 ++ EB.map d.perr) ∧
      ErrZone (e1 :: Ed1') nlE1 errsE1 ∧ ErrZone (e2 :: Ed2') nlE2 errsE2 := by
  have hB2 : ∃ t ∈ d.tok b0 :: B'.map d.tok, t.ty = .eof := by
    obtain ⟨t, ht, he⟩ := hB
    refine ⟨d.tok t, ?_, by simpa using he⟩
    simp only [List.mem_cons, List.mem_map] at ht ⊢
    rcases ht with h | h
    · exact Or.inl (by rw [h])
    · exact Or.inr ⟨t, h, rfl⟩
  have hE1 : ∃ t ∈ e1 :: (Ed1' ++ nlE1 :: b0 :: B'), t.ty = .eof := by
    obtain ⟨t, ht, he⟩ := hB
    exact ⟨t, by simp at ht ⊢; rcases ht with h | h <;> simp [h], he⟩
  -- the common part
  obtain ⟨itemsA, errsA, dyA, hp1, hp2⟩ :=
    C07_prefix_partial num cls A (Ed1' ++ nlE1 :: b0 :: B') (Ed2' ++ nlE2 :: d.tok b0 :: B'.map d.tok)
      nlA e1 e2 hA hnA he1 he2 hpos hE1
  -- each tail: the entry, then the rest
  obtain ⟨iE1, eE1, dyE1, z1, hd1, hj1, hr1⟩ :=
    blank_line_closes num cls (e1 :: Ed1') nlE1 b0 B' (fun t ht => (hEd1 t ht).1) hn1 hb0.1 hb0.2 hB
      (headState e1 (Ed1' ++ nlE1 :: b0 :: B') [] dyA) (by simp [strm, headState])
  obtain ⟨iE2, eE2, dyE2, z2, hd2, hj2, hr2⟩ :=
    blank_line_closes num cls (e2 :: Ed2') nlE2 (d.tok b0) (B'.map d.tok) (fun t ht => (hEd2 t ht).1) hn2
      (by simpa using hb0.1) (by simpa using hb0.2) hB2
      (headState e2 (Ed2' ++ nlE2 :: d.tok b0 :: B'.map d.tok) [] dyA) (by simp [strm, headState])
  have y1 : dyE1 = dyA := by simpa [headState] using hd1 (fun t ht => (hEd1 t ht).2)
  have y2 : dyE2 = dyA := by simpa [headState] using hd2 (fun t ht => (hEd2 t ht).2)
  rw [y1] at hj1 hr1
  rw [y2, parse_shift] at hj2 hr2
  refine ⟨itemsA, errsA, dyA, iE1, iE2, eE1, eE2, ?_, ?_, z1, z2⟩
  · have e : A ++ nlA :: e1 :: Ed1' ++ nlE1 :: b0 :: B' = A ++ nlA :: e1 :: (Ed1' ++ nlE1 :: b0 :: B') := by simp
    rw [e, hp1]
    have a : (parseFrom num cls e1 (Ed1' ++ nlE1 :: b0 :: B') dyA).1 =
        pushAll iE1 (parseFrom num cls b0 B' dyA).1 := hj1
    have b : (parseFrom num cls e1 (Ed1' ++ nlE1 :: b0 :: B') dyA).2 =
        eE1 ++ (parseFrom num cls b0 B' dyA).2 := by
      have := hr1; simpa [headState, parseFrom] using this
    rw [a, b, pushAll_append, List.append_assoc]
  · have e : A ++ nlA :: e2 :: Ed2' ++ nlE2 :: d.tok b0 :: B'.map d.tok =
        A ++ nlA :: e2 :: (Ed2' ++ nlE2 :: d.tok b0 :: B'.map d.tok) := by simp
    rw [e, hp2]
    have a : (parseFrom num cls e2 (Ed2' ++ nlE2 :: d.tok b0 :: B'.map d.tok) dyA).1 =
        pushAll iE2 (d.journal (parseFrom num cls b0 B' dyA).1) := hj2
    have b : (parseFrom num cls e2 (Ed2' ++ nlE2 :: d.tok b0 :: B'.map d.tok) dyA).2 =
        eE2 ++ (parseFrom num cls b0 B' dyA).2.map d.perr := by
      have := hr2; simpa [headState, parseFrom] using this
    rw [a, b, pushAll_append, List.append_assoc]

/-! ### counterexamples (closed token lists taken from the real lexer; `decide`) -/

/-- `unicode.IsLetter` / `IsDigit` restricted to ASCII: enough for the closed examples. -/
def asciiClasses : Classes :=
  ⟨fun c => (65 ≤ c && c ≤ 90) || (97 ≤ c && c ≤ 122), fun c => 48 ≤ c && c ≤ 57⟩

/-- Tokens of `"2024-01-01\n"`. -/
def cxEntry : List Token := [
  ⟨.date, [50, 48, 50, 52, 45, 48, 49, 45, 48, 49], ⟨1, 1, 0⟩, ⟨1, 11, 10⟩⟩]
def cxNl : Token := ⟨.newline, [10], ⟨1, 11, 10⟩, ⟨2, 1, 11⟩⟩
/-- Tokens of the rest of the file `"  a:b  1\n"`: it starts with an Indent. -/
def cxIndented : List Token := [
  ⟨.indent, [32, 32], ⟨2, 1, 11⟩, ⟨2, 3, 13⟩⟩,
  ⟨.account, [97, 58, 98], ⟨2, 3, 13⟩, ⟨2, 6, 16⟩⟩,
  ⟨.number, [49], ⟨2, 8, 18⟩, ⟨2, 9, 19⟩⟩,
  ⟨.newline, [10], ⟨2, 9, 19⟩, ⟨3, 1, 20⟩⟩,
  ⟨.eof, [], ⟨3, 1, 20⟩, ⟨3, 1, 20⟩⟩]

/-- The hypothesis "the rest of the file starts in column 1" of `C07_contained_tokens` cannot be
    dropped: a rest that starts with an Indent is a continuation of the entry before it.  In
    context (`2024-01-01⏎  a:b  1⏎`) it is a posting of the transaction and raises no error; on
    its own it is one "unexpected token: Indent" error and no transaction. -/
theorem C07_indent_continuation_counterexample :
    (parseTokens defaultNumDeps asciiClasses (cxEntry ++ cxNl :: cxIndented)).2.length = 0 ∧
    (parseTokens defaultNumDeps asciiClasses cxIndented).2.length = 1 ∧
    ((parseTokens defaultNumDeps asciiClasses (cxEntry ++ cxNl :: cxIndented)).1.transactions.map
      (·.postings.length)) = [1] ∧
    (parseTokens defaultNumDeps asciiClasses cxIndented).1.transactions.length = 0 := by
  decide +kernel

/-- Tokens of `"2024-01-01 a\n  !!bad\n\n"`: a transaction whose only posting line is erroneous,
    followed by a blank line. -/
def cxBefore : List Token := [
  ⟨.date, [50, 48, 50, 52, 45, 48, 49, 45, 48, 49], ⟨1, 1, 0⟩, ⟨1, 11, 10⟩⟩,
  ⟨.text, [97], ⟨1, 12, 11⟩, ⟨1, 13, 12⟩⟩,
  ⟨.newline, [10], ⟨1, 13, 12⟩, ⟨2, 1, 13⟩⟩,
  ⟨.indent, [32, 32], ⟨2, 1, 13⟩, ⟨2, 3, 15⟩⟩,
  ⟨.status, [33], ⟨2, 3, 15⟩, ⟨2, 4, 16⟩⟩,
  ⟨.status, [33], ⟨2, 4, 16⟩, ⟨2, 5, 17⟩⟩,
  ⟨.text, [98, 97, 100], ⟨2, 5, 17⟩, ⟨2, 8, 20⟩⟩,
  ⟨.newline, [10], ⟨2, 8, 20⟩, ⟨3, 1, 21⟩⟩,
  ⟨.newline, [10], ⟨3, 1, 21⟩, ⟨4, 1, 22⟩⟩]
/-- Tokens of the next entry as written: `"2024-01-02 e\n  x:y  1\n"`. -/
def cxNextIntact : List Token := [
  ⟨.date, [50, 48, 50, 52, 45, 48, 49, 45, 48, 50], ⟨4, 1, 22⟩, ⟨4, 11, 32⟩⟩,
  ⟨.text, [101], ⟨4, 12, 33⟩, ⟨4, 13, 34⟩⟩,
  ⟨.newline, [10], ⟨4, 13, 34⟩, ⟨5, 1, 35⟩⟩,
  ⟨.indent, [32, 32], ⟨5, 1, 35⟩, ⟨5, 3, 37⟩⟩,
  ⟨.account, [120, 58, 121], ⟨5, 3, 37⟩, ⟨5, 6, 40⟩⟩,
  ⟨.number, [49], ⟨5, 8, 42⟩, ⟨5, 9, 43⟩⟩,
  ⟨.newline, [10], ⟨5, 9, 43⟩, ⟨6, 1, 44⟩⟩,
  ⟨.eof, [], ⟨6, 1, 44⟩, ⟨6, 1, 44⟩⟩]
/-- … and damaged by two blanks in front of its header: `"  2024-01-02 e\n  x:y  1\n"`. -/
def cxNextDamaged : List Token := [
  ⟨.indent, [32, 32], ⟨4, 1, 22⟩, ⟨4, 3, 24⟩⟩,
  ⟨.date, [50, 48, 50, 52, 45, 48, 49, 45, 48, 50], ⟨4, 3, 24⟩, ⟨4, 13, 34⟩⟩,
  ⟨.text, [101], ⟨4, 14, 35⟩, ⟨4, 15, 36⟩⟩,
  ⟨.newline, [10], ⟨4, 15, 36⟩, ⟨5, 1, 37⟩⟩,
  ⟨.indent, [32, 32], ⟨5, 1, 37⟩, ⟨5, 3, 39⟩⟩,
  ⟨.account, [120, 58, 121], ⟨5, 3, 39⟩, ⟨5, 6, 42⟩⟩,
  ⟨.number, [49], ⟨5, 8, 44⟩, ⟨5, 9, 45⟩⟩,
  ⟨.newline, [10], ⟨5, 9, 45⟩, ⟨6, 1, 46⟩⟩,
  ⟨.eof, [], ⟨6, 1, 46⟩, ⟨6, 1, 46⟩⟩]

/-- **Containment fails for an entry BEFORE the damage** even across a blank line: when the last
    posting line of a transaction had a syntax error, `parsePosting` skips to the next line and
    the postings loop then swallows the blank line's Newline as well, so the transaction is
    still open; if the damage makes the next entry's lines start with an Indent they become its
    postings.  Intact file: first transaction has no posting, second has one.  Damaged file
    (`  2024-01-02 e`): ONE transaction, which has gained the posting `x:y  1`, and its range
    now ends on line 6.  Reproduced on the real parser (see the report / replays). -/
theorem C07_blank_line_after_error_counterexample :
    ((parseTokens defaultNumDeps asciiClasses (cxBefore ++ cxNextIntact)).1.transactions.map
      (fun t => (t.postings.map (·.account.name), t.range.stop.line))) = [([], 4), ([[120, 58, 121]], 6)] ∧
    ((parseTokens defaultNumDeps asciiClasses (cxBefore ++ cxNextDamaged)).1.transactions.map
      (fun t => (t.postings.map (·.account.name), t.range.stop.line))) = [([[120, 58, 121]], 6)] := by
  decide +kernel

/-- Non-vacuity of `C07_contained_tokens`: the intact file above has the required shape
    (`A = cxBefore` without its last Newline, the entry `2024-01-02 e …`, then just the EOF);
    its hypotheses are decidable and hold. -/
example :
    (∀ t ∈ cxBefore.dropLast, t.ty ≠ .eof) ∧ (cxBefore.getLast?.map (·.ty)) = some .newline ∧
    (cxNextIntact.head?.map (·.ty)) = some .date := by
  decide +kernel

end HL.Props.C07
